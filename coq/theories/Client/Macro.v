(** Macro-step driver over the routing machine: the observable behaviour of
    several concurrent SendAndRead calls when external events (start a call,
    a datagram arrives, cancel a call's context) are injected one at a time
    and the client is left to reach quiescence after each.  Every macro step
    is a fixed sequence of micro steps of Client.Routing, so every reachable
    macro state satisfies the routing invariants. *)
From Coq Require Import List Arith NArith Lia Bool.
Import ListNotations.
From DV Require Import Client.Routing.

Record call := mkCall {
  c_xid : nat;
  c_thresh : nat;          (* the matcher accepts payload p iff thresh <= p mod 4 (0: accept all, 4: never) *)
  c_status : nat;          (* 0 not started, 1 returned a response, 2 refused (id in use), 3 context cancelled, 10 waiting *)
  c_payload : nat;
  c_entry : option nat
}.

Record mstate := mkM { micro : state; calls : list call; trace : list event }.

Definition accepts (thresh p : nat) : bool := thresh <=? p mod 4.

Fixpoint cupd (j : nat) (f : call -> call) (l : list call) : list call :=
  match l, j with
  | [], _ => []
  | c :: r, O => f c :: r
  | c :: r, S k => c :: cupd k f r
  end.

Definition do_events (m : mstate) (es : list event) : mstate :=
  mkM (fold_left (step true) es (micro m)) (calls m) (trace m ++ es).

Definition set_status (st p : nat) (e : option nat) (c : call) : call := mkCall (c_xid c) (c_thresh c) st p e.

Inductive mevent :=
| MStart (j : nat)
| MInject (x payload : nat) (kind : nat)   (* 0 valid, 1..3 filtered (wrong hardware address, wrong opcode, undecodable), 4 valid duplicate *)
| MCancel (j : nat).

(** which waiting call owns routing entry i *)
Fixpoint owner_of (i : nat) (cs : list call) (j : nat) : option (nat * call) :=
  match cs with
  | [] => None
  | c :: r => if (c_status c =? 10) && (match c_entry c with Some k => k =? i | None => false end)
              then Some (j, c) else owner_of i r (S j)
  end.

Definition deliver_one (m : mstate) (x p : nat) : mstate :=
  match plookup x (pend (micro m)) with
  | None => do_events m [Arrive true x p false]
  | Some i =>
    let m1 := do_events m [Arrive true x p false; Recv i] in
    match owner_of i (calls m) 0 with
    | Some (j, c) =>
      if accepts (c_thresh c) p
      then let m2 := do_events m1 [CancelDone i; CancelDel i] in
           mkM (micro m2) (cupd j (set_status 1 p None) (calls m2)) (trace m2)
      else m1
    | None => m1
    end
  end.

Definition macro_step (m : mstate) (e : mevent) : mstate :=
  match e with
  | MStart j =>
    match nth_error (calls m) j with
    | Some c =>
      if negb (c_status c =? 0) then m
      else match plookup (c_xid c) (pend (micro m)) with
           | Some _ => let m1 := do_events m [Register (c_xid c)] in
                       mkM (micro m1) (cupd j (set_status 2 0 None) (calls m1)) (trace m1)
           | None => let i := length (ents (micro m)) in
                     let m1 := do_events m [Register (c_xid c)] in
                     mkM (micro m1) (cupd j (set_status 10 0 (Some i)) (calls m1)) (trace m1)
           end
    | None => m
    end
  | MInject x p kind =>
    match kind with
    | 0 => deliver_one m x p
    | 4 => deliver_one (deliver_one m x p) x p
    | _ => do_events m [Arrive false x p false]
    end
  | MCancel j =>
    match nth_error (calls m) j with
    | Some c =>
      match c_status c, c_entry c with
      | 10, Some i => let m1 := do_events m [CancelDone i; CancelDel i] in
                      mkM (micro m1) (cupd j (set_status 3 0 None) (calls m1)) (trace m1)
      | _, _ => m
      end
    | None => m
    end
  end.

Definition macro_run (cs : list call) (es : list mevent) : mstate := fold_left macro_step es (mkM init cs []).

(** every macro state is a micro execution: the routing invariants hold in it *)
Lemma do_events_trace m es : micro m = run_events true (trace m) ->
  micro (do_events m es) = run_events true (trace (do_events m es)).
Proof. intros H. unfold do_events, run_events in *. cbn [micro trace]. rewrite fold_left_app, <- H. reflexivity. Qed.

Lemma deliver_one_trace m x p : micro m = run_events true (trace m) ->
  micro (deliver_one m x p) = run_events true (trace (deliver_one m x p)).
Proof.
  intros H. unfold deliver_one. destruct (plookup x (pend (micro m))) as [i|]; [|apply do_events_trace; exact H].
  destruct (owner_of i (calls m) 0) as [[j c]|]; [|apply do_events_trace; exact H].
  destruct (accepts (c_thresh c) p); [|apply do_events_trace; exact H].
  cbn [micro trace]. apply do_events_trace. apply do_events_trace. exact H.
Qed.

Theorem macro_is_micro : forall es cs, micro (macro_run cs es) = run_events true (trace (macro_run cs es)).
Proof.
  intros es cs. unfold macro_run.
  assert (G : forall m, micro m = run_events true (trace m) ->
                        micro (fold_left macro_step es m) = run_events true (trace (fold_left macro_step es m))).
  { induction es as [|e es IH]; intros m H; [exact H|]. cbn [fold_left]. apply IH.
    destruct e as [j|x p kind|j]; cbn [macro_step].
    - destruct (nth_error (calls m) j) as [c|]; [|exact H].
      destruct (negb (c_status c =? 0)); [exact H|].
      destruct (plookup (c_xid c) (pend (micro m))); cbn [micro trace]; apply do_events_trace; exact H.
    - destruct kind as [|[|[|[|[|k]]]]]; try (apply do_events_trace; exact H).
      + apply deliver_one_trace. exact H.
      + apply deliver_one_trace. apply deliver_one_trace. exact H.
    - destruct (nth_error (calls m) j) as [c|]; [|exact H].
      destruct (c_status c) as [|[|[|[|[|[|[|[|[|[|[|k]]]]]]]]]]]; try exact H.
      destruct (c_entry c); [|exact H]. cbn [micro trace]. apply do_events_trace. exact H. }
  apply G. reflexivity.
Qed.

Corollary macro_inv es cs : Inv (micro (macro_run cs es)).
Proof. rewrite macro_is_micro. apply reachable_inv. Qed.
