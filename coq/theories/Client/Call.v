(** C12 / C11: one SendAndRead call of nclient4 / nclient6 as a function of
    its environment (dhcpv4/nclient4/client.go:610-669, dhcpv6/nclient6/client.go:444-503).

    Time is virtual, in arbitrary units (Z).  The environment of a call is
    - [ds]: the datagrams delivered on this call's channel (they carry its
      transaction id and passed the receive loop's filter), time-stamped in
      non-decreasing order, each marked accepted / rejected by the matcher;
    - an optional instant at which the caller's context ends;
    - an optional instant at which the client is closed.
    [rearm = true] is the pinned code (per-try timer re-created on every loop
    iteration), [false] the repaired code (one deadline per try). *)
From Coq Require Import List ZArith Lia Bool.
Import ListNotations.
Local Open Scope Z_scope.

Definition deliveries := list (Z * bool).

Inductive outcome := Got | NoResponse | CtxError.

(** the earliest of the external stop events (context end, client close), if any lies before [t] *)
Definition stop_before (cancel close : option Z) (t : Z) : option (Z * outcome) :=
  let c := match cancel with Some c => if c <? t then Some (c, CtxError) else None | None => None end in
  let k := match close with Some k => if k <? t then Some (k, NoResponse) else None | None => None end in
  match c, k with
  | Some (c', oc), Some (k', ok) => if c' <=? k' then Some (c', oc) else Some (k', ok)
  | Some x, None => Some x
  | None, Some y => Some y
  | None, None => None
  end.

Inductive try_end := TryGot (t : Z) | TryDeadline (t : Z) (rest : deliveries) | TryStop (t : Z) (o : outcome).

(** the select loop of one try *)
Fixpoint try (rearm : bool) (deadline tau : Z) (cancel close : option Z) (ds : deliveries) : try_end :=
  match ds with
  | [] =>
    match stop_before cancel close deadline with
    | Some (t, o) => TryStop t o
    | None => TryDeadline deadline []
    end
  | (t, acc) :: rest =>
    if t <? deadline then
      match stop_before cancel close t with
      | Some (t', o) => TryStop t' o
      | None =>
        if acc then TryGot t
        else try rearm (if rearm then t + tau else deadline) tau cancel close rest
      end
    else
      match stop_before cancel close deadline with
      | Some (t', o) => TryStop t' o
      | None => TryDeadline deadline ds
      end
  end.

Record call_result := mkResult { transmissions : list Z; result : outcome; end_time : Z }.

(** retryFn: [n] tries starting at [s] with timeout [tau], doubling *)
Fixpoint run_call (rearm : bool) (n : nat) (s tau : Z) (cancel close : option Z) (ds : deliveries) : call_result :=
  match n with
  | O => mkResult [] NoResponse s
  | S k =>
    match try rearm (s + tau) tau cancel close ds with
    | TryGot t => mkResult [s] Got t
    | TryStop t o => mkResult [s] o t
    | TryDeadline t rest =>
      let r := run_call rearm k t (2 * tau) cancel close rest in
      mkResult (s :: transmissions r) (result r) (end_time r)
    end
  end.

(** the schedule of the property: offsets 0, T, 3T, 7T, ... *)
Fixpoint sched (n : nat) (s tau : Z) : list Z := match n with O => [] | S k => s :: sched k (s + tau) (2 * tau) end.
Fixpoint endt (n : nat) (s tau : Z) : Z := match n with O => s | S k => endt k (s + tau) (2 * tau) end.

Lemma endt_closed n : forall s tau, endt n s tau = s + tau * (2 ^ (Z.of_nat n) - 1).
Proof.
  induction n as [|n IH]; intros; cbn [endt]; [simpl; lia|].
  rewrite IH. rewrite Nat2Z.inj_succ, Z.pow_succ_r by lia. lia.
Qed.

Lemma sched_nth n : forall s tau k, (k < n)%nat -> nth k (sched n s tau) 0 = s + tau * (2 ^ (Z.of_nat k) - 1).
Proof.
  induction n as [|n IH]; intros s tau k Hk; [lia|]. cbn [sched].
  destruct k as [|k]; cbn [nth]; [simpl; lia|].
  rewrite IH by lia. rewrite Nat2Z.inj_succ, Z.pow_succ_r by lia. lia.
Qed.

Definition all_rejected (ds : deliveries) : Prop := forallb (fun d => negb (snd d)) ds = true.

(** * C12: the schedule, with no acceptable response — silence or ANY stream of rejected datagrams *)
Lemma try_rejected : forall ds deadline tau, all_rejected ds ->
  exists rest, try false deadline tau None None ds = TryDeadline deadline rest /\ all_rejected rest.
Proof.
  induction ds as [|[t a] ds IH]; intros deadline tau H; cbn [try stop_before].
  - exists []. split; reflexivity.
  - unfold all_rejected in H. cbn [forallb snd] in H. apply andb_true_iff in H. destruct H as [Ha Hr].
    destruct (t <? deadline).
    + destruct a; [discriminate|]. apply IH. exact Hr.
    + exists ((t, a) :: ds). split; [reflexivity|]. unfold all_rejected. cbn [forallb snd]. rewrite Ha, Hr. reflexivity.
Qed.

Theorem schedule_no_response : forall n s tau ds, all_rejected ds ->
  run_call false n s tau None None ds = mkResult (sched n s tau) NoResponse (endt n s tau).
Proof.
  induction n as [|n IH]; intros s tau ds H; cbn [run_call sched endt]; [reflexivity|].
  destruct (try_rejected ds (s + tau) tau H) as (rest & -> & Hr).
  rewrite (IH _ _ _ Hr). reflexivity.
Qed.

(** a negative try count retries until cancelled: for every k the first k transmissions follow the schedule *)
Theorem schedule_prefix : forall k m s tau ds, all_rejected ds ->
  firstn k (transmissions (run_call false (k + m) s tau None None ds)) = sched k s tau.
Proof.
  intros k m s tau ds H. rewrite schedule_no_response by exact H. cbn [transmissions].
  revert s tau. induction k as [|k IH]; intros s tau; [reflexivity|]. cbn [plus sched firstn]. rewrite IH. reflexivity.
Qed.

(** a response accepted during a try ends the call: no later transmission *)
Theorem accepted_ends_call : forall n s tau cancel close ds,
  result (run_call false n s tau cancel close ds) = Got ->
  exists k, (k < n)%nat /\ length (transmissions (run_call false n s tau cancel close ds)) = S k.
Proof.
  induction n as [|n IH]; intros s tau cancel close ds; cbn [run_call]; [discriminate|].
  destruct (try false (s + tau) tau cancel close ds) as [t|t rest|t o] eqn:E; cbn [result transmissions length].
  - intros _. exists 0%nat. split; [lia | reflexivity].
  - intros H. destruct (IH _ _ _ _ _ H) as (k & Hk & Hl). exists (S k). split; [lia | rewrite Hl; reflexivity].
  - intros H. exists 0%nat. split; [lia | reflexivity].
Qed.

(** * C11: completion *)
Lemma stop_before_lt cancel close t t' o : stop_before cancel close t = Some (t', o) -> t' < t.
Proof.
  unfold stop_before.
  destruct cancel as [c|], close as [k|];
    repeat match goal with |- context [if ?x <? ?y then _ else _] => destruct (Z.ltb_spec x y) end;
    repeat match goal with |- context [if ?x <=? ?y then _ else _] => destruct (Z.leb_spec x y) end;
    intros [= <- <-]; lia.
Qed.

(** one try of the repaired code never outlives its deadline, whatever arrives *)
Lemma try_bounded : forall ds deadline tau cancel close,
  match try false deadline tau cancel close ds with
  | TryGot t => t < deadline
  | TryDeadline t _ => t = deadline
  | TryStop t _ => t < deadline
  end.
Proof.
  induction ds as [|[t a] ds IH]; intros deadline tau cancel close; cbn [try].
  - destruct (stop_before cancel close deadline) as [[t' o]|] eqn:S; [eapply stop_before_lt; eauto | reflexivity].
  - destruct (Z.ltb_spec t deadline).
    + destruct (stop_before cancel close t) as [[t' o]|] eqn:S.
      * apply stop_before_lt in S. lia.
      * destruct a; [assumption | apply IH].
    + destruct (stop_before cancel close deadline) as [[t' o]|] eqn:S; [eapply stop_before_lt; eauto | reflexivity].
Qed.

(** every call returns no later than its retry schedule allows, for EVERY delivery stream *)
Theorem call_deadline : forall n s tau cancel close ds, 0 <= tau ->
  end_time (run_call false n s tau cancel close ds) <= endt n s tau.
Proof.
  induction n as [|n IH]; intros s tau cancel close ds Ht; cbn [run_call endt]; [cbn; lia|].
  pose proof (try_bounded ds (s + tau) tau cancel close) as B.
  assert (M : forall k a b, 0 <= b -> a <= endt k a b).
  { induction k as [|k IHk]; intros a b Hb; cbn [endt]; [lia|]. specialize (IHk (a + b) (2 * b) ltac:(lia)). lia. }
  destruct (try false (s + tau) tau cancel close ds) as [t|t rest|t o]; cbn [end_time].
  - specialize (M n (s + tau) (2 * tau) ltac:(lia)). lia.
  - subst t. apply IH. lia.
  - specialize (M n (s + tau) (2 * tau) ltac:(lia)). lia.
Qed.

(** the pinned code violated both: a rejected datagram every 20 units, T = 50, n = 2 *)
Definition spam : deliveries := map (fun k => (20 * Z.of_nat k, false)) (seq 1 200).
Theorem pinned_code_refuted :
  transmissions (run_call true 2 0 50 None None spam) = [0; 4050] /\ end_time (run_call true 2 0 50 None None spam) = 4150.
Proof. split; vm_compute; reflexivity. Qed.

(** * the call returns at once when its context ends or the client is closed *)
Lemma stop_before_cancel_only c t : stop_before (Some c) None t = if c <? t then Some (c, CtxError) else None.
Proof. unfold stop_before. destruct (c <? t); reflexivity. Qed.
Lemma stop_before_close_only k t : stop_before None (Some k) t = if k <? t then Some (k, NoResponse) else None.
Proof. unfold stop_before. destruct (k <? t); reflexivity. Qed.

Lemma try_stop_rejected (stop : Z) (o : outcome) (cancel close : option Z) :
  (forall t, stop_before cancel close t = if stop <? t then Some (stop, o) else None) ->
  forall ds deadline tau, all_rejected ds ->
  (stop < deadline -> try false deadline tau cancel close ds = TryStop stop o) /\
  (deadline <= stop -> exists rest, try false deadline tau cancel close ds = TryDeadline deadline rest /\ all_rejected rest).
Proof.
  intros HS. induction ds as [|[t a] ds IH]; intros deadline tau H; cbn [try].
  - rewrite HS. destruct (Z.ltb_spec stop deadline); split; intros; try lia; [reflexivity | exists []; split; reflexivity].
  - unfold all_rejected in H. cbn [forallb snd] in H. apply andb_true_iff in H. destruct H as [Ha Hr].
    destruct a; [discriminate|]. rewrite !HS.
    destruct (Z.ltb_spec t deadline).
    + destruct (Z.ltb_spec stop t).
      * split; intros; [reflexivity | lia].
      * apply IH. exact Hr.
    + destruct (Z.ltb_spec stop deadline); split; intros; try lia; [reflexivity|].
      exists ((t, false) :: ds). split; [reflexivity|]. unfold all_rejected. cbn [forallb snd]. rewrite Hr. reflexivity.
Qed.

Lemma run_stop_rejected (stop : Z) (o : outcome) (cancel close : option Z) :
  (forall t, stop_before cancel close t = if stop <? t then Some (stop, o) else None) ->
  forall n s tau ds, 0 <= tau -> all_rejected ds -> s <= stop -> stop < endt n s tau ->
  result (run_call false n s tau cancel close ds) = o /\ end_time (run_call false n s tau cancel close ds) = stop.
Proof.
  intros HS. induction n as [|n IH]; intros s tau ds Ht H Hs He; cbn [endt] in He; [lia|]. cbn [run_call].
  destruct (try_stop_rejected stop o cancel close HS ds (s + tau) tau H) as [A B].
  destruct (Z.lt_ge_cases stop (s + tau)) as [L|G].
  - rewrite (A L). split; reflexivity.
  - destruct (B G) as (rest & -> & Hr). cbn [result end_time].
    apply IH; [lia | exact Hr | lia | exact He].
Qed.

(** the context ends while the call is active and nothing acceptable has arrived: it returns at that instant with the context's error *)
Theorem cancel_returns_at_once : forall n s tau c ds, 0 <= tau -> all_rejected ds -> s <= c -> c < endt n s tau ->
  result (run_call false n s tau (Some c) None ds) = CtxError /\ end_time (run_call false n s tau (Some c) None ds) = c.
Proof. intros. apply (run_stop_rejected c CtxError); auto. intros t. apply stop_before_cancel_only. Qed.

(** the client is closed while the call is active: it returns at that instant with the no-response error *)
Theorem close_returns_at_once : forall n s tau k ds, 0 <= tau -> all_rejected ds -> s <= k -> k < endt n s tau ->
  result (run_call false n s tau None (Some k) ds) = NoResponse /\ end_time (run_call false n s tau None (Some k) ds) = k.
Proof. intros. apply (run_stop_rejected k NoResponse); auto. intros t. apply stop_before_close_only. Qed.

(** the response is returned as soon as an acceptable one arrives *)
Theorem first_acceptable_returned : forall ds t rest deadline tau,
  all_rejected ds -> Forall (fun d => fst d < t) ds -> t < deadline ->
  try false deadline tau None None (ds ++ (t, true) :: rest) = TryGot t.
Proof.
  induction ds as [|[u a] ds IH]; intros t rest deadline tau H F Hd; cbn [app try stop_before].
  - assert (E : (t <? deadline) = true) by (apply Z.ltb_lt; exact Hd). rewrite E. reflexivity.
  - unfold all_rejected in H. cbn [forallb snd] in H. apply andb_true_iff in H. destruct H as [Ha Hr].
    inversion F as [|? ? Hu F']; subst. cbn [fst] in Hu.
    assert (E : (u <? deadline) = true) by (apply Z.ltb_lt; lia). rewrite E.
    destruct a; [discriminate|]. apply IH; assumption.
Qed.

(** * whatever arrives and whenever the call ends, every transmission is on the schedule *)
Lemma sched_length n : forall s tau, length (sched n s tau) = n.
Proof. induction n as [|n IH]; intros; cbn [sched length]; [reflexivity | rewrite IH; reflexivity]. Qed.

(** for EVERY delivery stream (accepted or rejected datagrams, in any order) and every cancel / close
    instant, the transmissions of a call are an initial segment of its schedule: none is early, late,
    duplicated or added, whatever the reason the call ended *)
Theorem transmissions_on_schedule : forall n s tau cancel close ds,
  exists k, (k <= n)%nat /\ transmissions (run_call false n s tau cancel close ds) = sched k s tau.
Proof.
  induction n as [|n IH]; intros s tau cancel close ds; cbn [run_call].
  - exists 0%nat. split; [lia | reflexivity].
  - pose proof (try_bounded ds (s + tau) tau cancel close) as B.
    destruct (try false (s + tau) tau cancel close ds) as [t|t rest|t o]; cbn [transmissions].
    + exists 1%nat. split; [lia | reflexivity].
    + subst t. destruct (IH (s + tau) (2 * tau) cancel close rest) as (k & Hk & E).
      exists (S k). split; [lia|]. cbn [sched]. rewrite E. reflexivity.
    + exists 1%nat. split; [lia | reflexivity].
Qed.

(** a call that ends with the no-response error without having been closed has used all its tries *)
Theorem no_response_uses_all_tries : forall n s tau cancel ds,
  result (run_call false n s tau cancel None ds) = NoResponse ->
  transmissions (run_call false n s tau cancel None ds) = sched n s tau.
Proof.
  induction n as [|n IH]; intros s tau cancel ds; cbn [run_call]; [reflexivity|].
  pose proof (try_bounded ds (s + tau) tau cancel None) as B.
  destruct (try false (s + tau) tau cancel None ds) as [t|t rest|t o] eqn:E; cbn [transmissions result].
  - discriminate.
  - subst t. intros H. cbn [sched]. rewrite (IH _ _ _ _ H). reflexivity.
  - intros ->. exfalso. clear B. revert E. generalize (s + tau) as deadline. generalize tau as tau'.
    induction ds as [|[u a] ds IHd]; intros tau' deadline; cbn [try].
    + destruct (stop_before cancel None deadline) as [[t' o']|] eqn:S; [|discriminate].
      intros [= -> ->]. unfold stop_before in S. destruct cancel as [c|]; [|discriminate].
      destruct (c <? deadline); discriminate.
    + assert (NS : forall x t' o', stop_before cancel None x = Some (t', o') -> o' <> NoResponse).
      { intros x t' o' S. unfold stop_before in S. destruct cancel as [c|]; [|discriminate].
        destruct (c <? x); [injection S as <- <-; discriminate | discriminate]. }
      destruct (u <? deadline).
      * destruct (stop_before cancel None u) as [[t' o']|] eqn:S.
        -- intros [= -> ->]. exact (NS _ _ _ S eq_refl).
        -- destruct a; [discriminate | apply IHd].
      * destruct (stop_before cancel None deadline) as [[t' o']|] eqn:S; [|discriminate].
        intros [= -> ->]. exact (NS _ _ _ S eq_refl).
Qed.

(** * the response returned is the FIRST acceptable datagram in arrival order *)
Lemma all_rejected_app a b : all_rejected a -> all_rejected b -> all_rejected (a ++ b).
Proof. unfold all_rejected. rewrite forallb_app. intros -> ->. reflexivity. Qed.

Lemma stop_before_not_got cancel close x t o : stop_before cancel close x = Some (t, o) -> o <> Got.
Proof.
  unfold stop_before. destruct cancel as [c|], close as [k|];
    repeat match goal with |- context [if ?b then _ else _] => destruct b end;
    intros [= <- <-]; discriminate.
Qed.

Lemma try_consumes : forall ds deadline tau cancel close,
  match try false deadline tau cancel close ds with
  | TryGot t => exists pre rest, ds = pre ++ (t, true) :: rest /\ all_rejected pre
  | TryDeadline _ rest => exists pre, ds = pre ++ rest /\ all_rejected pre
  | TryStop _ o => o <> Got
  end.
Proof.
  induction ds as [|[u a] ds IH]; intros deadline tau cancel close; cbn [try].
  - destruct (stop_before cancel close deadline) as [[t' o]|] eqn:S;
      [eapply stop_before_not_got; eauto | exists []; split; reflexivity].
  - destruct (u <? deadline).
    + destruct (stop_before cancel close u) as [[t' o]|] eqn:S; [eapply stop_before_not_got; eauto|].
      destruct a.
      * exists [], ds. split; reflexivity.
      * specialize (IH deadline tau cancel close).
        destruct (try false deadline tau cancel close ds) as [t|t rest|t o].
        -- destruct IH as (pre & rest & -> & Hp). exists ((u, false) :: pre), rest. split; [reflexivity|].
           unfold all_rejected. cbn [forallb snd negb andb]. exact Hp.
        -- destruct IH as (pre & -> & Hp). exists ((u, false) :: pre). split; [reflexivity|].
           unfold all_rejected. cbn [forallb snd negb andb]. exact Hp.
        -- exact IH.
    + destruct (stop_before cancel close deadline) as [[t' o]|] eqn:S;
        [eapply stop_before_not_got; eauto | exists []; split; reflexivity].
Qed.

(** for EVERY delivery stream and every cancel / close instant: a call that returns a response returns
    an accepted datagram of its stream, and every datagram delivered before it was rejected by the matcher *)
Theorem got_is_first_acceptable : forall n s tau cancel close ds,
  result (run_call false n s tau cancel close ds) = Got ->
  exists pre rest, ds = pre ++ (end_time (run_call false n s tau cancel close ds), true) :: rest /\ all_rejected pre.
Proof.
  induction n as [|n IH]; intros s tau cancel close ds; cbn [run_call]; [discriminate|].
  pose proof (try_consumes ds (s + tau) tau cancel close) as C.
  destruct (try false (s + tau) tau cancel close ds) as [t|t rest|t o]; cbn [result end_time].
  - intros _. exact C.
  - intros H. destruct C as (pre & -> & Hp). destruct (IH _ _ _ _ _ H) as (pre' & rest' & E & Hp').
    exists (pre ++ pre'), rest'. split; [rewrite E at 1; rewrite app_assoc; reflexivity | apply all_rejected_app; assumption].
  - intros H. exfalso. exact (C H).
Qed.

(** a response accepted during try k (k = number of transmissions made) arrived before that try's
    deadline, and the transmissions made are exactly the first k of the schedule *)
Theorem got_within_try : forall n s tau cancel close ds,
  result (run_call false n s tau cancel close ds) = Got ->
  let r := run_call false n s tau cancel close ds in
  transmissions r = sched (length (transmissions r)) s tau /\ end_time r < endt (length (transmissions r)) s tau.
Proof.
  induction n as [|n IH]; intros s tau cancel close ds; cbn [run_call]; [discriminate|].
  pose proof (try_bounded ds (s + tau) tau cancel close) as B.
  pose proof (try_consumes ds (s + tau) tau cancel close) as C.
  destruct (try false (s + tau) tau cancel close ds) as [t|t rest|t o]; cbn [result end_time transmissions length].
  - intros _. cbn [sched endt]. split; [reflexivity | exact B].
  - subst t. intros H. destruct (IH _ _ _ _ _ H) as [E L]. cbn [sched endt]. split; [rewrite <- E; reflexivity | exact L].
  - intros H. exfalso. exact (C H).
Qed.
