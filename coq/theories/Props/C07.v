(** C07 — DHCPv4 encoding is deterministic, canonical and readable by any RFC decoder. *)
From DV Require Import Base.Bytes V4.Model V4.OptProofs V4.Proofs V4.RoundTrip V4.Canon.
From Coq Require Import Sorted.

(** at least 300 octets *)
Theorem C07_min_length : forall (p : pkt4) (b : bytes), enc4 p = Ok b -> 300 <= length b.
Proof. exact enc4_min_length. Qed.
Print Assumptions C07_min_length.

(** BOOTP header (236), cookie, option instances in ascending code order with
    82 last, exactly one End, then only padding *)
Theorem C07_shape : forall (p : pkt4) (b : bytes), wf4 p -> enc4 p = Ok b ->
  exists hdr k, length hdr = 236 /\
    b = hdr ++ cookie ++ enc_kvs (kvs_of (p_opts p)) ++ [opt_end] ++ zeros k /\
    map fst (kvs_of (p_opts p)) = sorted_keys (p_opts p) /\
    exists plain, sorted_keys (p_opts p) = plain ++ (if existsb (beqb opt_agent_info) (map fst (p_opts p)) then [opt_agent_info] else []) /\
                  StronglySorted blt plain /\ ~ In opt_agent_info plain.
Proof. exact enc4_shape. Qed.
Print Assumptions C07_shape.

(** no instance carries more than 255 value octets *)
Theorem C07_instances : forall (c : byte) (v : bytes), v <> [] ->
  exists chs, marshal_opt c v = flat_map (fun ch => c :: n2b (N.of_nat (length ch)) :: ch) chs /\
              concat chs = v /\ Forall (fun ch => 1 <= length ch <= 255) chs.
Proof. exact marshal_opt_shape. Qed.
Print Assumptions C07_instances.

(** an independent RFC reader (the relation [layout4]) recovers the packet:
    C01_roundtrip composed with C04_exact *)
Theorem C07_rfc_readable : forall p : pkt4, wf4 p ->
  exists b p', enc4 p = Ok b /\ layout4 b p' /\
    p_chaddr p' = p_chaddr p /\ p_sname p' = p_sname p /\ p_file p' = p_file p /\ p_xid p' = p_xid p /\
    forall c, good_code c -> lookup c (p_opts p') = lookup c (p_opts p).
Proof. exact enc4_rfc_readable. Qed.
Print Assumptions C07_rfc_readable.

(** packets with equal contents encode to identical bytes whatever the
    order of the association list (the Go map's iteration order) *)
Theorem C07_order_independent : forall p1 p2 : pkt4,
  NoDup (map fst (p_opts p1)) -> NoDup (map fst (p_opts p2)) -> same_options (p_opts p1) (p_opts p2) ->
  p_op p1 = p_op p2 -> p_hwtype p1 = p_hwtype p2 -> p_hops p1 = p_hops p2 -> p_xid p1 = p_xid p2 ->
  p_secs p1 = p_secs p2 -> p_flags p1 = p_flags p2 ->
  p_ciaddr p1 = p_ciaddr p2 -> p_yiaddr p1 = p_yiaddr p2 -> p_siaddr p1 = p_siaddr p2 -> p_giaddr p1 = p_giaddr p2 ->
  p_chaddr p1 = p_chaddr p2 -> p_sname p1 = p_sname p2 -> p_file p1 = p_file p2 ->
  enc4 p1 = enc4 p2.
Proof. exact enc4_order_independent. Qed.
Print Assumptions C07_order_independent.

(** ... and whatever program of updates and deletions (of any length) built them *)
Theorem C07_programs : forall ops1 ops2 : list opt_op,
  same_options (fold_left apply_op ops1 []) (fold_left apply_op ops2 []) ->
  marshal (fold_left apply_op ops1 []) = marshal (fold_left apply_op ops2 []).
Proof. exact programs_same_contents_same_bytes. Qed.
Print Assumptions C07_programs.

Example C07_example_order :
  marshal [(n2b 82, [x01]); (n2b 3, [x02]); (n2b 200, [])] = marshal [(n2b 200, []); (n2b 82, [x01]); (n2b 3, [x02])]
  /\ marshal [(n2b 82, [x01]); (n2b 3, [x02]); (n2b 200, [])] = [n2b 3; x01; x02; n2b 200; x00; n2b 82; x01; x01].
Proof. split; vm_compute; reflexivity. Qed.
