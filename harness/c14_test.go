package main

import (
	"bytes"
	"encoding/hex"
	"fmt"
	"io"
	"os"
	"net"
	"sort"
	"strings"
	"sync"
	"testing"
	"testing/synctest"
	"time"

	"github.com/insomniacslk/dhcp/dhcpv4"
	"github.com/insomniacslk/dhcp/dhcpv4/server4"
	"github.com/insomniacslk/dhcp/dhcpv6"
	"github.com/insomniacslk/dhcp/dhcpv6/server6"
)

const (
	eServer4 = 80
	eServer6 = 81
)

type otherAddr struct{}

func (otherAddr) Network() string { return "unix" }
func (otherAddr) String() string  { return "other" }

// serverConn: scripted reads; a read error entry (or Close) ends the script
type serverConn struct {
	reads  [][]byte // encoded as in the case arguments
	pos    int
	closed chan struct{}
	once   sync.Once
	wasClosed bool
	closeServer func() // Server.Close of the server under test
}

func peerOf(kind byte, port int) net.Addr {
	switch kind {
	case 0:
		return &net.UDPAddr{Port: port}
	case 1:
		return &net.UDPAddr{IP: net.IP{0, 0, 0, 0}, Port: port}
	case 2:
		return &net.UDPAddr{IP: net.IP{10, 1, 2, 3}, Port: port}
	case 3:
		return &net.UDPAddr{IP: append(append(net.IP{0xfe, 0x80}, make([]byte, 13)...), 1), Port: port}
	case 5:
		return &net.UDPAddr{IP: net.IPv4zero, Port: port}
	}
	return otherAddr{}
}

func (c *serverConn) ReadFrom(p []byte) (int, net.Addr, error) {
	select {
	case <-c.closed:
		return 0, nil, net.ErrClosed
	default:
	}
	if c.pos >= len(c.reads) {
		<-c.closed // script exhausted: block until closed
		return 0, nil, net.ErrClosed
	}
	r := c.reads[c.pos]
	c.pos++
	if len(r) < 4 || r[0] != 0 {
		if len(r) == 2 && r[0] == 1 {
			switch r[1] {
			case 3:
				return 0, nil, os.ErrDeadlineExceeded
			case 4:
				return 0, nil, io.EOF
			case 5:
				return 0, nil, tempErr{}
			}
		}
		return 0, nil, fmt.Errorf("scripted read error")
	}
	if c.pos < len(c.reads) && len(c.reads[c.pos]) == 2 && c.reads[c.pos][0] == 1 && c.reads[c.pos][1] == 2 && c.closeServer != nil {
		// the server is closed by another goroutine while this datagram is being returned (Close between two reads)
		c.closeServer()
	}
	return copy(p, r[4:]), peerOf(r[1], int(r[2])<<8|int(r[3])), nil
}
// tempErr is a net.Error that calls itself temporary and a timeout.
type tempErr struct{}

func (tempErr) Error() string   { return "scripted temporary error" }
func (tempErr) Timeout() bool   { return true }
func (tempErr) Temporary() bool { return true }

func (c *serverConn) WriteTo(p []byte, addr net.Addr) (int, error) { return len(p), nil }
func (c *serverConn) Close() error {
	c.once.Do(func() { c.wasClosed = true; close(c.closed) })
	return nil
}
func (c *serverConn) LocalAddr() net.Addr { return &net.UDPAddr{Port: 67} }
func (c *serverConn) SetDeadline(t time.Time) error      { return nil }
func (c *serverConn) SetReadDeadline(t time.Time) error  { return nil }
func (c *serverConn) SetWriteDeadline(t time.Time) error { return nil }

type invRec struct {
	key  string // ordering key: position of the datagram recovered from its content
	outs [][]byte
}

// serveScenario runs Serve over the scripted reads; handlers block until every read has happened, then snapshot.
func serveScenario(v6 bool, reads [][]byte) (outs [][]byte) {
	bubbleNote = trunc((Case{map[bool]int{false: eServer4, true: eServer6}[v6], reads}).Line(), 800)
	runBubble(func(t *testing.T) {
		conn := &serverConn{reads: reads, closed: make(chan struct{})}
		gate := make(chan struct{})
		var mu sync.Mutex
		var invs []invRec
		var wg sync.WaitGroup
		exited := make(chan struct{})
		servePanic = ""
		msgChanged = ""
		order := func(b []byte) string {
			for i, r := range reads {
				if len(r) >= 4 && r[0] == 0 && bytes.Equal(firstN(r[4:], 4096), b) {
					return fmt.Sprintf("%06d", i)
				}
			}
			return "zzzzzz" + hx(b)
		}
		if v6 {
			h := func(c net.PacketConn, peer net.Addr, m dhcpv6.DHCPv6) {
				wg.Add(1)
				defer wg.Done()
				atStart := m.ToBytes()
				<-gate // outlive the following reads
				if after := m.ToBytes(); !bytes.Equal(after, atStart) {
					mu.Lock()
					msgChanged = fmt.Sprintf("a DHCPv6 message changed while its handler ran: %x became %x", firstN(atStart, 60), firstN(after, 60))
					mu.Unlock()
				}
				var ip []byte
				var port []byte
				if u, ok := peer.(*net.UDPAddr); ok {
					ip, port = u.IP, be16b(uint16(u.Port))
				}
				enc := m.ToBytes()
				mu.Lock()
				invs = append(invs, invRec{orderKey6(reads, enc), [][]byte{ip, port, enc}})
				mu.Unlock()
			}
			sopts := []server6.ServerOpt{server6.WithConn(conn)}
			switch len(reads) % 3 { // the server's own logging configuration is part of "whatever arrives"
			case 1:
				sopts = append(sopts, server6.WithSummaryLogger())
			case 2:
				sopts = append(sopts, server6.WithDebugLogger())
			}
			s, err := server6.NewServer("", nil, h, sopts...)
			if err != nil {
				t.Fatal(err)
			}
			conn.closeServer = func() { s.Close() }
			go func() {
				defer func() {
					if x := recover(); x != nil {
						servePanic = fmt.Sprint(x)
					}
					close(exited)
				}()
				s.Serve()
			}()
		} else {
			h := func(c net.PacketConn, peer net.Addr, m *dhcpv4.DHCPv4) {
				wg.Add(1)
				defer wg.Done()
				atStart := m.ToBytes()
				peerAtStart := peer.String()
				<-gate
				if after := m.ToBytes(); !bytes.Equal(after, atStart) {
					mu.Lock()
					msgChanged = fmt.Sprintf("a DHCPv4 message changed while its handler ran (later datagrams were read meanwhile): options %x became %x", firstN(atStart[240:], 40), firstN(after[240:], 40))
					mu.Unlock()
				}
				if peer.String() != peerAtStart {
					mu.Lock()
					msgChanged = fmt.Sprintf("the peer given to a handler changed while it ran: %s became %s", peerAtStart, peer.String())
					mu.Unlock()
				}
				u := peer.(*net.UDPAddr)
				enc := m.ToBytes()
				mu.Lock()
				invs = append(invs, invRec{orderKey4(reads, m), [][]byte{append(net.IP{}, u.IP...), be16b(uint16(u.Port)), enc}})
				mu.Unlock()
				// the peer is the handler's to use: a handler that answers by unicast sets the address it was given to
				// the one it offers - no other handler's peer moves with it
				u.IP = net.IP{192, 0, 2, byte(len(enc))}
			}
			sopts := []server4.ServerOpt{server4.WithConn(conn)}
			switch len(reads) % 3 {
			case 1:
				sopts = append(sopts, server4.WithSummaryLogger())
			case 2:
				sopts = append(sopts, server4.WithDebugLogger())
			}
			s, err := server4.NewServer("", nil, h, sopts...)
			if err != nil {
				t.Fatal(err)
			}
			conn.closeServer = func() { s.Close() }
			go func() {
				defer func() {
					if x := recover(); x != nil {
						servePanic = fmt.Sprint(x)
					}
					close(exited)
				}()
				s.Serve()
			}()
		}
		_ = order
		synctest.Wait() // the loop has consumed the script (or returned)
		lastConsumed = conn.pos
		didExit := false
		select {
		case <-exited:
			didExit = true
		default:
		}
		close(gate)
		synctest.Wait()
		wg.Wait()
		sort.SliceStable(invs, func(i, j int) bool { return invs[i].key < invs[j].key })
		for _, iv := range invs {
			outs = append(outs, iv.outs...)
		}
		flag := byte(0)
		if didExit {
			flag = 1
			if !conn.wasClosed {
				flag = 7 // Serve returned without closing the connection
			}
		}
		if servePanic != "" {
			flag = 9 // the serving loop crashed
		}
		outs = append(outs, []byte{flag})
		conn.Close()
		<-exited
		synctest.Wait()
	})
	return
}

// set when Serve panicked in the last scenario
var servePanic string

// set when a handler saw its message (or peer) change between its start and the end of the scenario
var msgChanged string

// how many scripted reads the loop had taken when every goroutine was at rest and no handler had finished yet
var lastConsumed int

func firstN(b []byte, n int) []byte {
	if len(b) > n {
		return b[:n]
	}
	return b
}

// the generator puts the datagram's position into its transaction id
func orderKey4(reads [][]byte, m *dhcpv4.DHCPv4) string {
	return fmt.Sprintf("%03d%03d", m.TransactionID[2], m.TransactionID[3])
}
func orderKey6(reads [][]byte, enc []byte) string {
	m, err := dhcpv6.FromBytes(enc)
	if err != nil {
		return "zzz"
	}
	in, err := m.GetInnerMessage()
	if err != nil {
		// a relay message without a relay-message option: the generator puts the position into the link address
		if rm, ok := m.(*dhcpv6.RelayMessage); ok && len(rm.LinkAddr) == 16 {
			return fmt.Sprintf("%03d%03d", rm.LinkAddr[0], rm.LinkAddr[1])
		}
		return "zzy"
	}
	return fmt.Sprintf("%03d%03d", in.TransactionID[1], in.TransactionID[2])
}

func init() {
	register(eServer4, "server4.Serve", func(a [][]byte) ([][]byte, error) { return serveScenario(false, a), nil })
	register(eServer6, "server6.Serve", func(a [][]byte) ([][]byte, error) { return serveScenario(true, a), nil })
	props["C14"] = genC14
}

func genC14(r *Run) {
	n := r.N(300, 30000)
	evals := 0
	for i := 0; i < n; i++ {
		v6 := i%2 == 1
		entry := eServer4
		if v6 {
			entry = eServer6
		}
		cnt := r.Rng.Intn(r.Pick(4, 12, 40, 200))
		allValid := i < 4 // 200 (then 1500) decodable datagrams whose handlers are all still running when the last one is read
		if allValid {
			cnt = 200
			if i >= 2 {
				cnt = 1500 // well past any plausible fixed pool of workers or slots
			}
		}
		malformedRun := i >= 4 && i < 8 // a long run of malformed nested relays, then ordinary traffic
		if malformedRun {
			cnt = 60
		}
		var reads [][]byte
		valid := 0
		closeAt := -1
		if r.Rng.Intn(3) == 0 && cnt > 0 && !allValid && !malformedRun {
			closeAt = r.Rng.Intn(cnt + 1)
		}
		expectInv := 0
		var expPeers []string // sender of each datagram that must reach the handler, in order
		for k := 0; k < cnt; k++ {
			if k == closeAt {
				if k > 0 && r.Rng.Intn(2) == 0 {
					reads = append(reads, []byte{1, 2}) // Close lands while the previous read is returning
				} else if r.Rng.Intn(2) == 0 {
					reads = append(reads, []byte{1})
				} else {
					// the failed read is of another kind: a deadline that expired (a net.Error whose Timeout() is
					// true), end of file, an error that calls itself temporary - a failed read ends the loop all the same
					reads = append(reads, []byte{1, byte(r.Pick(3, 3, 4, 5))})
					// ... and what follows it in the script is never read
					for j := r.Rng.Intn(3); j > 0; j-- {
						reads = append(reads, append([]byte{0, 2, 0, 68}, r.validWire(3)...))
					}
				}
				break
			}
			pk := byte(r.Pick(0, 1, 2, 2, 2, 3, 5, 4))
			if v6 && pk == 4 {
				pk = 3
			}
			port := r.Pick(68, 67, 0, 546, 65535)
			hdr := []byte{0, pk, byte(port >> 8), byte(port)}
			var payload []byte
			kindOfRead := r.Rng.Intn(6)
			if allValid {
				kindOfRead = 5
			}
			if v6 && malformedRun && k < cnt-3 {
				kindOfRead = 6
			}
			switch kindOfRead {
			case 6: // well-framed relay nesting (1..5 levels) around an undecodable inner message: not dispatched, and it must
				// leave no trace - the datagrams that follow are decoded as if it had never been read
				w := []byte{1, 0, byte(k)} // a message header cut short
				for d := 1 + r.Rng.Intn(5); d > 0; d-- {
					w = append(append([]byte{12, byte(d)}, r.Bytes(32)...), tlvb(9, w)...)
				}
				payload = w
			case 0: // undecodable
				payload = r.Bytes(r.Rng.Intn(60))
				if v6 && len(payload) >= 4 {
					payload = payload[:3]
				}
			case 1: // empty read
				payload = nil
			default:
				valid++
				if v6 {
					var w []byte
					if r.Rng.Intn(6) == 0 {
						// a relay message that carries no relay-message option (accepted by the decoder), alone or nested
						link := make([]byte, 16)
						link[0], link[1] = byte(k>>8), byte(k)
						w = append(append(append([]byte{12, 0}, link...), r.Addr16()...), tlvb(18, r.Bytes(3))...)
						if r.Rng.Intn(2) == 0 {
							w = append(append(append([]byte{12, 1}, link...), r.Addr16()...), tlvb(9, w)...)
						}
					} else if r.Rng.Intn(3) == 0 {
						inner := append([]byte{byte(1 + r.Rng.Intn(11)), 0, byte(k >> 8), byte(k)}, tlvb(8, []byte{0, byte(k)})...)
						w = inner
						for d := r.Rng.Intn(3); d >= 0; d-- {
							w = append(append([]byte{12, byte(d)}, r.Bytes(32)...), tlvb(9, w)...)
						}
					} else {
						_, w = r.genMsg(1, 3)
						if len(w) >= 4 && w[0] != 12 && w[0] != 13 {
							w[1], w[2], w[3] = 0, byte(k>>8), byte(k)
						} else {
							w = append([]byte{byte(1 + r.Rng.Intn(11)), 0, byte(k >> 8), byte(k)}, tlvb(8, []byte{0, 1})...)
						}
					}
					payload = w
				} else {
					a := r.randPkt(r.randOpts(4, 60))
					a[3] = []byte{0, 0, byte(k >> 8), byte(k)}
					payload = pktOfArgs(a).ToBytes()
				}
				if r.Rng.Intn(8) == 0 || (allValid && k%50 == 7) {
					// datagrams that fill the servers' 4096-octet read buffer exactly, or miss / exceed it by a little
					// (a longer one is seen cut to 4096 octets: padding cut short still decodes, an option cut short
					// does not)
					L := r.Pick(4095, 4096, 4096, 4097, 4100)
					if v6 {
						if need := L - len(payload) - 4; need >= 0 && payload[0] != 12 && payload[0] != 13 {
							payload = append(payload, tlvb(0xfff1, make([]byte, need))...)
						}
					} else if L > len(payload) {
						payload = append(payload, make([]byte, L-len(payload))...)
					}
					r.Count(fmt.Sprintf("datagram_len=%d", len(payload)))
				}
				decodable := true
				if len(payload) > 4096 {
					if v6 {
						_, err := dhcpv6.FromBytes(append([]byte{}, payload[:4096]...))
						decodable = err == nil
					} else {
						_, err := dhcpv4.FromBytes(append([]byte{}, payload[:4096]...))
						decodable = err == nil
					}
				}
				if !decodable {
					valid--
				} else if !(pk == 4 && !v6) {
					expectInv++
					sender, _ := peerOf(pk, port).(*net.UDPAddr)
					want := ""
					if sender != nil {
						ip := sender.IP
						if !v6 && (ip == nil || ip.To4().Equal(net.IPv4zero)) {
							ip = net.IPv4bcast // a sender without address is answered by broadcast, on its own port
						}
						want = fmt.Sprintf("%s/%d", hx(ip), port)
					}
					expPeers = append(expPeers, want)
				}
			}
			reads = append(reads, append(hdr, payload...))
		}
		r.Add(entry, reads...)
		r.Count(fmt.Sprintf("reads<%d", (len(reads)/20+1)*20))
		// direct oracle: exactly one invocation per decodable datagram (before the first read error), none for the others
		outs := serveScenario(v6, reads)
		evals++
		got := (len(outs) - 1) / 3
		wantConsumed := len(reads)
		for i, rd := range reads {
			if len(rd) < 4 || rd[0] != 0 {
				wantConsumed = i + 1 // nothing is read after a failed read
				break
			}
		}
		if n := len(reads); n > 0 && len(reads[n-1]) == 2 && reads[n-1][0] == 1 && reads[n-1][1] == 2 {
			wantConsumed-- // the server was closed while the previous datagram was returned: the error read is never taken
		}
		if lastConsumed < wantConsumed && servePanic == "" {
			r.Fail("c14-loop-stalled-by-running-handlers", trunc(Case{entry, reads}.Line(), 800),
				fmt.Sprintf("with all handlers still running the loop had read only %d of %d datagrams: dispatch must not wait for earlier handlers", lastConsumed, wantConsumed))
		}
		if msgChanged != "" {
			r.Fail("c14-message-not-independent", trunc(Case{entry, reads}.Line(), 800), msgChanged)
		}
		if outs[len(outs)-1][0] == 9 {
			r.Fail("c14-serve-panics", trunc(Case{entry, reads}.Line(), 800), "the serving loop crashed: "+servePanic)
		}
		if got != expectInv {
			r.Fail("c14-invocation-count", trunc(Case{entry, reads}.Line(), 800), fmt.Sprintf("%d handler invocations for %d decodable datagrams (%d reads)", got, expectInv, len(reads)))
		}
		if closeAt >= 0 && closeAt < cnt && outs[len(outs)-1][0] != 1 {
			r.Fail("c14-serve-exit", trunc(Case{entry, reads}.Line(), 800), fmt.Sprintf("after a read error Serve must return and close the connection (flag %d)", outs[len(outs)-1][0]))
		}
		if (closeAt < 0 || closeAt >= cnt) && outs[len(outs)-1][0] != 0 {
			r.Fail("c14-serve-stopped", trunc(Case{entry, reads}.Line(), 800), "Serve returned although reading never failed")
		}
		// every invocation sees the sender of its own datagram, whatever arrived afterwards
		if got == expectInv {
			for k := 0; k+2 < len(outs); k += 3 {
				have := ""
				if len(outs[k+1]) == 2 {
					ip := net.IP(outs[k])
					have = fmt.Sprintf("%s/%d", hx(ip), int(outs[k+1][0])<<8|int(outs[k+1][1]))
				}
				if normPeer(have) != normPeer(expPeers[k/3]) {
					r.Fail("c14-peer-of-own-datagram", trunc(Case{entry, reads}.Line(), 800),
						fmt.Sprintf("invocation %d saw peer %s, its datagram came from %s", k/3, have, expPeers[k/3]))
					break
				}
			}
		}
		// peer rule for DHCPv4
		if !v6 {
			for k := 0; k+2 < len(outs); k += 3 {
				ip := net.IP(outs[k])
				if ip == nil || ip.Equal(net.IPv4zero) {
					r.Fail("c14-peer-not-rewritten", trunc(Case{entry, reads}.Line(), 800), "handler saw a sender without address")
				}
			}
		}
	}
	r.Extra["oracle_evaluations"] = evals
}

// normPeer compares IPv4 addresses in either 4- or 16-octet form
func normPeer(p string) string {
	i := strings.IndexByte(p, '/')
	if i < 0 {
		return p
	}
	if b, err := hex.DecodeString(p[:i]); err == nil {
		if v4 := net.IP(b).To4(); v4 != nil {
			return hx(v4) + p[i:]
		}
	}
	return p
}
