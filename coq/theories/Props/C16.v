(** C16 — DHCPv6 builders and relay encapsulation preserve identity and nesting. *)
From DV Require Import Base.Bytes Label.Model V4.Model V6.Model V6.Relay V6.RelayProofs.

(** encapsulating in a relay message and decapsulating returns the original *)
Theorem C16_encap_decap : forall m t l p r, encapsulate m t l p = Ok r -> decapsulate r = Ok m.
Proof. exact decap_encap. Qed.
Print Assumptions C16_encap_decap.

(** the hop count grows by one per level (0 over a message; uint8 wrap-around written in) *)
Theorem C16_hop : forall m t l p r, encapsulate m t l p = Ok r ->
  exists os, r = Relay t (match m with Relay _ h _ _ _ => ((h + 1) mod 256)%N | Msg _ _ _ => 0%N end) l p os.
Proof. exact encap_hop. Qed.
Print Assumptions C16_hop.

(** the innermost message of ANY relay chain (any depth, any other options
    around the relay-message option at each level) is found *)
Theorem C16_inner : forall (lvs : list flevel) (m : msg6), Forall fl_ok lvs -> is_relay m = false ->
  forall fuel, length lvs < fuel -> inner_message fuel (nest lvs m) = Ok m.
Proof. exact inner_message_nest. Qed.
Print Assumptions C16_inner.

(** DecapsulateRelayIndex: index i strips i+1 levels; -1 returns the innermost relay level *)
Theorem C16_decap_index : forall pre lvs m fuel, Forall fl_ok pre -> pre <> [] ->
  decapsulate_index fuel (nest (pre ++ lvs) m) (Z.of_nat (length pre) - 1) = Ok (nest lvs m).
Proof. exact decapsulate_index_nest. Qed.
Print Assumptions C16_decap_index.

(** an index at or beyond the nesting depth (index 1 on a message that crossed one relay):
    the innermost message, not an error and not a crash *)
Theorem C16_decap_index_beyond : forall lvs m fuel (index : Z), Forall fl_ok lvs -> is_relay m = false ->
  (Z.of_nat (length lvs) - 1 <= index)%Z -> (0 <= index)%Z ->
  decapsulate_index fuel (nest lvs m) index = Ok m.
Proof. exact decapsulate_index_beyond. Qed.
Print Assumptions C16_decap_index_beyond.
Theorem C16_innermost_relay : forall lvs lv m, Forall fl_ok lvs -> fl_ok lv -> is_relay m = false ->
  forall fuel, length lvs < fuel -> innermost_relay fuel (nest (lvs ++ [lv]) m) = Ok (fl_wrap lv m).
Proof. exact innermost_relay_nest. Qed.
Print Assumptions C16_innermost_relay.

(** a relay-reply built from a relay-forward chain of ANY depth: the result
    is [repl] of the chain's levels — outermost first, per level the same
    link and peer address and the level's first interface-id / remote-id
    options echoed, the given reply innermost *)
Theorem C16_relay_reply : forall lvs m reply, Forall fl_ok lvs -> is_relay m = false ->
  (exists lv r, lvs = lv :: r /\ fl_type lv = 12%N) ->
  relay_repl_from_forw (length lvs) (nest lvs m) reply = repl (nest_levels lvs m) reply.
Proof. exact relay_repl_nest. Qed.
Print Assumptions C16_relay_reply.
Theorem C16_relay_reply_innermost : forall lvs reply r, is_relay reply = false -> repl lvs reply = Ok r ->
  inner_message (S (length lvs)) r = Ok reply.
Proof. exact repl_inner. Qed.
Print Assumptions C16_relay_reply_innermost.
Theorem C16_relay_reply_wrong_type : forall fuel t h l p os reply, t <> 12%N ->
  relay_repl_from_forw fuel (Relay t h l p os) reply = Err.
Proof. exact relay_repl_wrong_type. Qed.
Print Assumptions C16_relay_reply_wrong_type.
Theorem C16_relay_reply_missing_inner : forall fuel h l p os reply, relay_inner os = None ->
  relay_repl_from_forw (S fuel) (Relay 12 h l p os) reply = Err.
Proof. exact relay_repl_missing_inner. Qed.
Print Assumptions C16_relay_reply_missing_inner.

(** builders: transaction id kept, identifiers and identity associations echoed, wrong inputs rejected *)
Theorem C16_advertise : forall sol adv, new_advertise_from_solicit sol = Ok adv ->
  exists xid os cid, sol = Msg 1 xid os /\ get_one 1 os = Some cid /\ adv = Msg 2 xid [cid].
Proof. exact advertise_fields. Qed.
Print Assumptions C16_advertise.
Theorem C16_request : forall xid adv req, new_request_from_advertise xid adv = Ok req ->
  exists axid os cid sid iana rest, adv = Msg 2 axid os /\
    get_one 1 os = Some cid /\ get_one 2 os = Some sid /\ get_one 3 os = Some iana /\
    req = Msg 3 xid ([cid; sid; OElapsed 0; iana] ++ rest) /\
    rest = (match get_one 25 os with Some pd => [pd] | None => [] end) ++ [oro_default] ++
           (match get_one 16 os with Some vc => [vc] | None => [] end).
Proof. exact request_fields. Qed.
Print Assumptions C16_request.
Theorem C16_reply : forall msg rep, new_reply_from_message msg = Ok rep ->
  exists t xid os cid, msg = Msg t xid os /\ get_one 1 os = Some cid /\
    ((t = 1%N /\ get_one 14 os <> None /\ rep = Msg 7 xid [cid; OGeneric 14 []]) \/
     (reply_source_type t = true /\ t <> 1%N /\ rep = Msg 7 xid [cid])).
Proof. exact reply_fields. Qed.
Print Assumptions C16_reply.

(** Non-vacuity: a 3-level forward chain with an interface-id at the middle level. *)
Example C16_example :
  let m := Msg 1 [x01; x02; x03] [OClientID (DLL 1 [xaa])] in
  let lv k pre := mkFl 12 k (repeat (n2b k) 16) (repeat xfe 16) pre [] in
  let chain := nest [lv 2 []; lv 1 [OInterfaceID [x07]]; lv 0 []]%N m in
  inner_message 4 chain = Ok m /\
  match relay_repl_from_forw 3 chain (Msg 7 [x01; x02; x03] []) with
  | Ok (Relay 13 2 _ _ [ORelayMsgR 13 1 _ _ [ORelayMsgR 13 0 _ _ [ORelayMsgM 7 _ []]; OInterfaceID [x07]]]) => True
  | _ => False
  end.
Proof. split; [reflexivity | vm_compute; exact I]. Qed.
