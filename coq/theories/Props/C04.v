(** C04 — DHCPv4 decoding accepts exactly well-formed packets and reads the RFC values. *)
From DV Require Import Base.Bytes V4.Model V4.OptProofs V4.Proofs V4.PadOnly.

(** [layout4 b p] (V4/Proofs.v) is RFC 2131 figure 1 written as a relation:
    b = op htype hlen hops xid(4) secs(2) flags(2) ciaddr yiaddr siaddr giaddr
        chaddr(16) sname(64) file(128) cookie area,
    the fields of p are the big-endian readings, chaddr clipped to
    min(hlen,16), names cut at the first NUL, and the area is either empty
    or a run of pads / code-length-value items ended by End
    ([area_denotes], which maps each code to the concatenation of its
    instances in order of appearance and ignores what follows End).
    The decoder returns p exactly when the layout assigns p. *)
Theorem C04_exact : forall (b : bytes) (p : pkt4), dec4 b = Ok p <-> layout4 b p.
Proof. exact dec4_exact. Qed.
Print Assumptions C04_exact.

(** every other input yields an error: never a panic, never non-termination *)
Theorem C04_total : forall b : bytes, match dec4 b with Ok _ | Err => True | _ => False end.
Proof. exact dec4_total. Qed.
Print Assumptions C04_total.

(** the option-area loop is exactly the RFC grammar *)
Theorem C04_area_exact : forall (d : bytes) (acc m : optmap) (e : bool),
  opts_loop (S (length d)) d acc = Ok (m, e) <-> area_denotes d acc m e.
Proof. exact opts_loop_exact. Qed.
Print Assumptions C04_area_exact.

(** shorter than header + cookie: rejected *)
Theorem C04_short_rejected : forall b : bytes, length b < 240 -> dec4 b = Err.
Proof. exact dec4_short. Qed.
Print Assumptions C04_short_rejected.

(** Non-vacuity: a 240-octet packet (no options area) and one with options, junk after End. *)
Example C04_example_240 : exists p, dec4 (zeros 236 ++ cookie) = Ok p /\ p_opts p = [].
Proof. eexists. split; [vm_compute; reflexivity | reflexivity]. Qed.
Example C04_example_opts :
  exists p, dec4 (zeros 236 ++ cookie ++ [x00; n2b 53; x01; x05; n2b 53; x01; x06; xff; x07]) = Ok p
            /\ p_opts p = [(n2b 53, [x05; x06])].
Proof. eexists. split; [vm_compute; reflexivity | reflexivity]. Qed.

(** an option area of pad octets only - any length but zero - holds no End option: the packet is
    rejected (a BOOTP message with the cookie and an all-zero vendor field is not a DHCP message) *)
Theorem C04_pad_only_area_rejected : forall op hw hl hops xid secs flags ci yi si gi ch sn fl n,
  length xid = 4 -> length secs = 2 -> length flags = 2 ->
  length ci = 4 -> length yi = 4 -> length si = 4 -> length gi = 4 ->
  length ch = 16 -> length sn = 64 -> length fl = 128 -> 0 < n ->
  dec4 ([op; hw; hl; hops] ++ xid ++ secs ++ flags ++ ci ++ yi ++ si ++ gi ++ ch ++ sn ++ fl ++ cookie ++ zeros n) = Err.
Proof. exact pad_only_area_rejected. Qed.
Print Assumptions C04_pad_only_area_rejected.

Example C04_example_pad_only_300 :
  dec4 (zeros 236 ++ cookie ++ zeros 60) = Err /\ length (zeros 236 ++ cookie ++ zeros 60) = 300.
Proof. exact pad_only_300. Qed.
