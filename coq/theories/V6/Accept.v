(** C05: the acceptance boundary of the DHCPv6 decoder. *)
From DV Require Import Base.Bytes Label.Model V4.Model V6.Model V6.Total V6.Wf V6.Comb.

(** * Options tile their container exactly, in wire order *)
Theorem tlv_loop_exact {A} (parse : N -> bytes -> res A) : forall f b vals,
  tlv_loop parse f b = Ok vals ->
  exists items, b = flat_map (fun it => tlv (fst it) (snd it)) items /\
    Forall2 (fun it v => parse (fst it) (snd it) = Ok v /\ u16 (fst it) /\ short (snd it)) items vals.
Proof.
  induction f as [|f IH]; intros b vals; cbn [tlv_loop]; [discriminate|].
  destruct b as [|c1 [|c2 [|l1 [|l2 r]]]]; try discriminate.
  - intros [= <-]. exists []. split; [reflexivity | constructor].
  - destruct (rd_n (N.to_nat (rd16 l1 l2)) r) as [[v r']| | |] eqn:E; cbn [bind]; try discriminate.
    destruct (parse (rd16 c1 c2) v) as [o| | |] eqn:P; cbn [bind]; try discriminate.
    destruct (tlv_loop parse f r') as [os| | |] eqn:L; cbn [bind]; try discriminate.
    intros [= <-]. apply IH in L. destruct L as (items & -> & F).
    apply rd_n_len in E. destruct E as (_ & Lv & ->).
    exists ((rd16 c1 c2, v) :: items). split.
    + cbn [flat_map fst snd]. unfold tlv, len16. rewrite be16_rd16.
      replace (N.of_nat (length v)) with (rd16 l1 l2) by lia. rewrite be16_rd16.
      rewrite <- !app_assoc. reflexivity.
    + constructor; [|exact F]. cbn [fst snd]. split; [exact P|]. split; [apply rd16_lt|].
      unfold short. pose proof (rd16_lt l1 l2). lia.
Qed.

(** conversely (Comb.tlv_loop_enc) every such tiling is accepted; together:
    a container is accepted iff it is exactly a sequence of code/length/value
    triples whose values the per-option parser accepts. *)
Theorem dec_tlvs_iff {A} (parse : N -> bytes -> res A) b vals :
  dec_tlvs parse b = Ok vals <->
  exists items, b = flat_map (fun it => tlv (fst it) (snd it)) items /\
    Forall2 (fun it v => parse (fst it) (snd it) = Ok v /\ u16 (fst it) /\ short (snd it)) items vals.
Proof.
  split; [apply tlv_loop_exact|]. intros (items & -> & F). apply dec_tlvs_enc. exact F.
Qed.

(** 1..3 trailing octets after the last option: rejected *)
Lemma tlv_loop_trailing {A} (parse : N -> bytes -> res A) f b :
  0 < length b < 4 -> 0 < f -> tlv_loop parse f b = Err.
Proof.
  intros H Hf. destruct f; [lia|]. cbn [tlv_loop].
  destruct b as [|c1 [|c2 [|l1 [|l2 r]]]]; cbn [length] in H; try reflexivity; lia.
Qed.

(** an option overrunning its container: rejected *)
Lemma tlv_loop_overrun {A} (parse : N -> bytes -> res A) f c1 c2 l1 l2 r :
  length r < N.to_nat (rd16 l1 l2) -> tlv_loop parse (S f) (c1 :: c2 :: l1 :: l2 :: r) = Err.
Proof.
  intros H. cbn [tlv_loop]. unfold rd_n. apply take_none in H. rewrite H. reflexivity.
Qed.

(** * Headers *)
Theorem dec_msg_header_short b : length b < 4 -> dec_msg b = Err.
Proof.
  intros H. unfold dec_msg, dec_msg_with.
  destruct b as [|t r]; [reflexivity|]. cbn [rd_u8 bind].
  destruct (is_relay_type (b2n t)).
  - destruct r as [|h r]; [reflexivity|]. cbn [rd_u8 bind]. unfold rd_n.
    assert (T : take 16 r = None) by (apply take_none; cbn [length] in H; lia). rewrite T. reflexivity.
  - unfold rd_n. assert (T : take 3 r = None) by (apply take_none; cbn [length] in H; lia). rewrite T. reflexivity.
Qed.

Theorem dec_msg_relay_header_short t r :
  is_relay_type (b2n t) = true -> length (t :: r) < 34 -> dec_msg (t :: r) = Err.
Proof.
  intros Ht H. unfold dec_msg, dec_msg_with. cbn [rd_u8 bind]. rewrite Ht.
  destruct r as [|h r]; [reflexivity|]. cbn [rd_u8 bind]. unfold rd_n.
  destruct (take 16 r) as [[l r1]|] eqn:T1; cbn [of_opt bind]; [|reflexivity].
  apply take_inv in T1. destruct T1 as [-> L1].
  assert (T : take 16 r1 = None).
  { apply take_none. cbn [length] in H. rewrite app_length in H. lia. }
  rewrite T. reflexivity.
Qed.

(** a complete header with an empty option area is accepted *)
Theorem dec_msg_header_only t xid : is_relay_type (b2n t) = false -> length xid = 3 ->
  dec_msg (t :: xid) = Ok (Msg (b2n t) xid []).
Proof.
  intros Ht Hx. unfold dec_msg, dec_msg_with. cbn [rd_u8 bind]. rewrite Ht.
  rewrite rd_n_all by exact Hx. reflexivity.
Qed.

(** * Unknown codes keep their payload verbatim *)
Theorem dec_opt_generic f code data : classify code = KGeneric ->
  dec_opt (S f) code data = Ok (OGeneric code data).
Proof. intros H. cbn [dec_opt]. rewrite H. reflexivity. Qed.

(** * Per-type fixed lengths and minima *)
Ltac short_data d := repeat (destruct d as [|? d]; try reflexivity; try (cbn [length] in *; lia)).

Theorem dec_opt_fixed_lengths f data :
  (length data <> 2 -> dec_opt (S f) 8 data = Err) /\
  (length data <> 4 -> dec_opt (S f) 32 data = Err) /\
  (length data <> 3 -> dec_opt (S f) 62 data = Err) /\
  (length data <> 2 -> dec_opt (S f) 135 data = Err) /\
  (length data <> 24 -> dec_opt (S f) 98 data = Err) /\
  (length data <> 4 -> dec_opt (S f) 99 data = Err).
Proof.
  repeat split; intros H; cbn [dec_opt]; cbv beta iota delta [classify].
  - destruct data as [|a [|b [|c r]]]; cbn [length] in H; try reflexivity; lia.
  - destruct data as [|a [|b [|c [|d [|e r]]]]]; cbn [length] in H; try reflexivity; lia.
  - destruct data as [|a [|b [|c [|d r]]]]; cbn [length] in H; try reflexivity; lia.
  - destruct data as [|a [|b [|c r]]]; cbn [length] in H; try reflexivity; lia.
  - destruct data as [|a [|b [|c [|d r]]]]; try reflexivity. cbn [rd_u8 bind]. unfold rd_n.
    destruct (take 4 r) as [[p4 r1]|] eqn:T1; cbn [of_opt bind]; [|reflexivity].
    destruct (take 16 r1) as [[p6 r2]|] eqn:T2; cbn [of_opt bind]; [|reflexivity].
    apply take_inv in T1. apply take_inv in T2. destruct T1 as [-> L1]. destruct T2 as [-> L2].
    destruct r2; [|reflexivity]. exfalso. apply H. cbn [length]. rewrite !app_length. cbn [length]. lia.
  - destruct data as [|a [|b [|c [|d [|e r]]]]]; cbn [length] in H; try reflexivity; lia.
Qed.

Theorem dec_opt_minimum_lengths f data :
  (length data < 12 -> dec_opt (S f) 3 data = Err) /\
  (length data < 4 -> dec_opt (S f) 4 data = Err) /\
  (length data < 24 -> dec_opt (S f) 5 data = Err) /\
  (length data < 12 -> dec_opt (S f) 25 data = Err) /\
  (length data < 25 -> dec_opt (S f) 26 data = Err) /\
  (length data < 2 -> dec_opt (S f) 13 data = Err) /\
  (length data < 2 -> dec_opt (S f) 1 data = Err) /\
  (length data < 4 -> dec_opt (S f) 37 data = Err) /\
  (length data = 0 -> dec_opt (S f) 15 data = Err) /\
  (length data = 0 -> dec_opt (S f) 61 data = Err) /\
  (length data < 1 -> dec_opt (S f) 39 data = Err).
Proof.
  repeat split; intros H; cbn [dec_opt]; cbv beta iota delta [classify].
  - unfold rd_n. destruct (take 4 data) as [[i r]|] eqn:T; cbn [of_opt bind]; [|reflexivity].
    apply take_inv in T. destruct T as [-> L]. rewrite app_length in H.
    destruct r as [|a [|b [|c [|d r]]]]; try reflexivity. cbn [rd_u32 bind].
    destruct r as [|a' [|b' [|c' [|d' r]]]]; try reflexivity. cbn [length] in H. lia.
  - unfold rd_n. assert (T : take 4 data = None) by (apply take_none; lia). rewrite T. reflexivity.
  - unfold rd_n. destruct (take 16 data) as [[i r]|] eqn:T; cbn [of_opt bind]; [|reflexivity].
    apply take_inv in T. destruct T as [-> L]. rewrite app_length in H.
    destruct r as [|a [|b [|c [|d r]]]]; try reflexivity. cbn [rd_u32 bind].
    destruct r as [|a' [|b' [|c' [|d' r]]]]; try reflexivity. cbn [length] in H. lia.
  - unfold rd_n. destruct (take 4 data) as [[i r]|] eqn:T; cbn [of_opt bind]; [|reflexivity].
    apply take_inv in T. destruct T as [-> L]. rewrite app_length in H.
    destruct r as [|a [|b [|c [|d r]]]]; try reflexivity. cbn [rd_u32 bind].
    destruct r as [|a' [|b' [|c' [|d' r]]]]; try reflexivity. cbn [length] in H. lia.
  - destruct data as [|a [|b [|c [|d r]]]]; try reflexivity. cbn [rd_u32 bind].
    destruct r as [|a' [|b' [|c' [|d' r]]]]; try reflexivity. cbn [rd_u32 bind].
    destruct r as [|pl r]; [reflexivity|]. cbn [rd_u8 bind]. unfold rd_n.
    assert (T : take 16 r = None) by (apply take_none; cbn [length] in H; lia). rewrite T. reflexivity.
  - destruct data as [|a [|b r]]; cbn [length] in H; try reflexivity; lia.
  - unfold dec_duid. destruct data as [|a [|b r]]; cbn [length] in H; try reflexivity; lia.
  - destruct data as [|a [|b [|c [|d r]]]]; cbn [length] in H; try reflexivity; lia.
  - destruct data; [reflexivity | discriminate].
  - destruct data; [reflexivity | discriminate].
  - destruct data; [reflexivity | cbn [length] in H; lia].
Qed.

(** DNS and 4o6 server lists: multiples of 16 only *)
Lemma many_ip16_multiple : forall f b os, many_ip16 f b = Ok os -> length b = 16 * length os.
Proof.
  induction f as [|f IH]; intros b os; cbn [many_ip16]; [discriminate|].
  destruct b as [|x r]; [intros [= <-]; reflexivity|].
  destruct (rd_n 16 (x :: r)) as [[a r']| | |] eqn:E; cbn [bind]; try discriminate.
  destruct (many_ip16 f r') as [xs| | |] eqn:M; cbn [bind]; try discriminate.
  intros [= <-]. apply IH in M. apply rd_n_len in E. cbn [length] in *. lia.
Qed.
