(** C02 — DHCPv6 encode->decode preserves messages, relay chains and every option type. *)
From DV Require Import Base.Bytes Label.Model Label.RoundTrip V4.Model V6.Model V6.Wf V6.RoundTrip.

(** For every message or relay message of the domain [wf_msg] — any number of
    options, every option type of the ParseOption switch plus unknown codes,
    nested to ANY depth (identity associations, their addresses/prefixes and
    status codes, vendor options, NTP sub-options, encapsulated relay messages,
    embedded DHCPv4 messages), every field in its representable range —
    decoding the encoding succeeds and yields the value itself in canonical
    form.  [canon_msg] changes only what no field reader can see: a label
    set remembers the bytes it was parsed from (its names are unchanged,
    [C02_canon_names]); an embedded DHCPv4 packet becomes its own C01 round
    trip. *)
Theorem C02_roundtrip : forall m : msg6, wf_msg m -> dec_msg (enc_msg m) = Ok (canon_msg m).
Proof. exact dec_msg_enc. Qed.
Print Assumptions C02_roundtrip.

(** the same for a single option through ParseOption, at any nesting depth *)
Theorem C02_roundtrip_option : forall o : opt6, wf_opt o -> parse_option (opt_code o) (enc_val o) = Ok (canon o).
Proof. exact parse_option_enc. Qed.
Print Assumptions C02_roundtrip_option.

(** ... with explicit fuel: any fuel above the nesting depth works *)
Theorem C02_roundtrip_depth : forall (f : nat) (o : opt6), wf_opt o -> depth o < f ->
  dec_opt f (opt_code o) (enc_val o) = Ok (canon o).
Proof. exact dec_opt_enc. Qed.
Print Assumptions C02_roundtrip_depth.

Theorem C02_canon_names : forall l : labels, names (canon_labels l) = names l.
Proof. exact canon_labels_names. Qed.
Print Assumptions C02_canon_names.

Theorem C02_canon_bytes : forall l : labels, wf_labels l -> labels_bytes (canon_labels l) = labels_bytes l.
Proof. exact canon_labels_bytes. Qed.
Print Assumptions C02_canon_bytes.

(** Layout: the encoder is the wire layout (RFC 8415 section 21.1 TLV framing in
    list order, section 8/9 headers).  Option framing: *)
Theorem C02_layout_tlv : forall o : opt6,
  enc_opt o = be16 (opt_code o) ++ be16 (N.of_nat (length (enc_val o))) ++ enc_val o.
Proof. intros o. reflexivity. Qed.
Print Assumptions C02_layout_tlv.

(** Non-vacuity: a relay chain around a message with an IA_NA holding an address with a status code. *)
Example C02_example :
  let inner := Msg 1 [x0a; x0b; x0c]
    [OIANA [x00; x00; x00; x01] 3600 7200
       [OIAAddr (repeat x20 16) 100 200 [OStatus 0 [x6f; x6b]]];
     OElapsed 50; OGeneric 14 []] in
  let m := Relay 12 1 (repeat x00 16) (repeat xfe 16)
             [OInterfaceID [x65]; ORelayMsgM 1 [x0a; x0b; x0c]
                [OIANA [x00; x00; x00; x01] 3600 7200 [OIAAddr (repeat x20 16) 100 200 [OStatus 0 [x6f; x6b]]]]] in
  dec_msg (enc_msg inner) = Ok inner /\ dec_msg (enc_msg m) = Ok m.
Proof. split; vm_compute; reflexivity. Qed.
