#!/bin/bash
# run every registered quick check on the current tree; print failures
cd "$(dirname "$0")/.."
fail=0
for i in $(seq -w 1 20); do
  out=$(./check C$i --tier ${1:-quick} 2>&1 | tail -1)
  case "$out" in OK*) ;; *) echo "C$i: $out"; fail=1;; esac
done
[ $fail = 0 ] && echo "all 20 OK"
exit $fail
