HOOK_COMMITS = []
COMMON_NOTE = ("Trusted base: Coq 8.16.1 kernel (vm_compute used, native_compute not used); no axioms (Print Assumptions: closed under the global context); "
               "extraction with ExtrOcamlBasic only + OCaml 4.13.1 + driver/main.ml; the Go harness and ./check. The Go code is modelled by hand, not verified: "
               "the theorems are about the Gallina model, which is tied to /repo's current tree on every run by the differential correspondence check "
               "(same inputs through the real code and the extracted model) on the inputs it explores. ")
TEXT = {
    "C19": {
        "text": "Theorems over all byte strings / all lists of valid names about an executable model of rfc1035label (termination and panic-freedom of decoding, "
                "decoder = declarative RFC 1035 3.1/4.1.4 + RFC 4704 relation (iff), encode->decode round trip for any number of names/labels, re-encoding of "
                "unmodified and modified sets). The model is compared with the real package on exhaustive small-alphabet strings, random valid name lists, mutations and edits; "
                "direct oracles (round trip, independent reference decoder, re-encode rules) run on the real code.",
        "note": COMMON_NOTE + "Names longer than 253 octets in dotted form are rejected by the decoder (RFC 1035 2.3.4, after the C09 fix), so the round trip is stated for names within that limit.",
        "technique": "Coq proof (induction over fuel/derivations) on a hand-written model + differential correspondence with the Go code",
    },
}
