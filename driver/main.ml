(* Correspondence driver: reads one case per line on stdin,
     <entry> <arg> <arg> ...      (args: lowercase hex, "-" = empty string)
   calls the extracted Gallina dispatcher Model.run and prints one line
     ok <out> <out> ... | err | panic | fuel
   The only unsafe cast: OCaml char code <-> the extracted 256-constructor
   variant Model.byte (constant constructors are numbered in declaration
   order, X00 = 0 ... Xff = 255). *)
let byte_of_int (i : int) : Model.byte = Obj.magic i
let int_of_byte (b : Model.byte) : int = Obj.magic b

let hexval c = match c with
  | '0'..'9' -> Char.code c - 48
  | 'a'..'f' -> Char.code c - 87
  | 'A'..'F' -> Char.code c - 55
  | _ -> failwith "bad hex"

let bytes_of_hex (s : string) : Model.byte list =
  if s = "-" then [] else begin
    let n = String.length s / 2 in
    let rec go i acc = if i < 0 then acc
      else go (i-1) (byte_of_int (hexval s.[2*i] * 16 + hexval s.[2*i+1]) :: acc) in
    go (n-1) []
  end

let hexdig = "0123456789abcdef"
let hex_of_bytes (b : Model.byte list) : string =
  match b with [] -> "-" | _ ->
  let buf = Buffer.create 64 in
  List.iter (fun x -> let i = int_of_byte x in
    Buffer.add_char buf hexdig.[i lsr 4]; Buffer.add_char buf hexdig.[i land 15]) b;
  Buffer.contents buf

let rec n_of_int (i : int) : Model.n =
  if i = 0 then Model.N0 else Model.Npos (pos_of_int i)
and pos_of_int i =
  if i = 1 then Model.XH
  else if i land 1 = 0 then Model.XO (pos_of_int (i lsr 1))
  else Model.XI (pos_of_int (i lsr 1))

let () =
  let out = Buffer.create 65536 in
  (try
    while true do
      let line = input_line stdin in
      match String.split_on_char ' ' line with
      | [] | [""] -> Buffer.add_string out "\n"
      | e :: args ->
        let args = List.filter (fun s -> s <> "") args in
        let r = (try Model.run (n_of_int (int_of_string e)) (List.map bytes_of_hex args)
                 with Stack_overflow -> Model.Fuel) in
        (match r with
         | Model.Ok outs ->
           Buffer.add_string out "ok";
           List.iter (fun o -> Buffer.add_char out ' '; Buffer.add_string out (hex_of_bytes o)) outs
         | Model.Err -> Buffer.add_string out "err"
         | Model.Panic -> Buffer.add_string out "panic"
         | Model.Fuel -> Buffer.add_string out "fuel");
        Buffer.add_char out '\n';
        if Buffer.length out > 60000 then (print_string (Buffer.contents out); Buffer.clear out)
    done
  with End_of_file -> ());
  print_string (Buffer.contents out)
