(** DHCPv6 decoding terminates without panic on every input, and the fuel
    supplied by the entry points is never exhausted. *)
From DV Require Import Base.Bytes Label.Model Label.Total V4.Model V4.OptProofs V4.Proofs V6.Model.

Definition good {A} (r : res A) : Prop := match r with Ok _ | Err => True | _ => False end.

Lemma good_bind {A B} (r : res A) (k : A -> res B) :
  good r -> (forall a, r = Ok a -> good (k a)) -> good (bind r k).
Proof. destruct r; cbn; auto; contradiction. Qed.

Lemma good_of_opt {A} (o : option A) : good (of_opt o).
Proof. destruct o; exact I. Qed.
Lemma good_rd_u8 b : good (rd_u8 b). Proof. destruct b; exact I. Qed.
Lemma good_rd_u16 b : good (rd_u16 b). Proof. destruct b as [|? [|? ?]]; exact I. Qed.
Lemma good_rd_u32 b : good (rd_u32 b). Proof. destruct b as [|? [|? [|? [|? ?]]]]; exact I. Qed.
Lemma good_rd_n n b : good (rd_n n b). Proof. apply good_of_opt. Qed.
Lemma good_fin b : good (fin_empty b). Proof. destruct b; exact I. Qed.

Lemma rd_u8_len b v r : rd_u8 b = Ok (v, r) -> length b = S (length r).
Proof. destruct b; [discriminate|]. intros [= _ <-]. reflexivity. Qed.
Lemma rd_u16_len b v r : rd_u16 b = Ok (v, r) -> length b = 2 + length r.
Proof. destruct b as [|? [|? ?]]; try discriminate. intros [= _ <-]. reflexivity. Qed.
Lemma rd_u32_len b v r : rd_u32 b = Ok (v, r) -> length b = 4 + length r.
Proof. destruct b as [|? [|? [|? [|? ?]]]]; try discriminate. intros [= _ <-]. reflexivity. Qed.
Lemma rd_n_len n b x r : rd_n n b = Ok (x, r) -> length b = n + length r /\ length x = n /\ b = x ++ r.
Proof.
  unfold rd_n. destruct (take n b) as [[x' r']|] eqn:E; [|discriminate]. intros [= <- <-].
  apply take_inv in E. destruct E as [-> L]. rewrite app_length. auto.
Qed.

Lemma many_len16_good : forall f b, length b < f -> good (many_len16 f b).
Proof.
  induction f as [|f IH]; intros b H; [lia|]. cbn [many_len16].
  destruct b as [|h [|l r]]; try exact I.
  apply good_bind; [apply good_rd_n|]. intros [x r'] E. apply rd_n_len in E.
  apply good_bind; [|intros; exact I]. apply IH. cbn [length] in H. lia.
Qed.

Lemma many_ip16_good : forall f b, length b < f -> good (many_ip16 f b).
Proof.
  induction f as [|f IH]; intros b H; [lia|]. cbn [many_ip16].
  destruct b as [|h r]; [exact I|].
  apply good_bind; [apply good_rd_n|]. intros [x r'] E. apply rd_n_len in E.
  apply good_bind; [|intros; exact I]. apply IH. lia.
Qed.

Lemma many_u16_good : forall b, good (many_u16 b).
Proof.
  fix IH 1. intros [|x [|y r]]; cbn [many_u16]; try exact I.
  apply good_bind; [apply IH | intros; exact I].
Qed.

Lemma tlv_loop_good {A} (parse : N -> bytes -> res A) : forall f b,
  (forall c v, length v + 4 <= length b -> good (parse c v)) ->
  length b < f -> good (tlv_loop parse f b).
Proof.
  induction f as [|f IH]; intros b P H; [lia|]. cbn [tlv_loop].
  destruct b as [|c1 [|c2 [|l1 [|l2 r]]]]; try exact I.
  apply good_bind; [apply good_rd_n|]. intros [v r'] E. apply rd_n_len in E. destruct E as (E1 & E2 & E3).
  apply good_bind. { apply P. cbn [length]. lia. }
  intros o _. apply good_bind; [|intros; exact I].
  apply IH; [|cbn [length] in H; lia].
  intros c v' Hv. apply P. cbn [length]. lia.
Qed.

Lemma dec_tlvs_good {A} (parse : N -> bytes -> res A) b :
  (forall c v, length v + 4 <= length b -> good (parse c v)) -> good (dec_tlvs parse b).
Proof. intros P. apply tlv_loop_good; [exact P | lia]. Qed.

Lemma dec_duid_good b : good (dec_duid b).
Proof.
  unfold dec_duid. apply good_bind; [apply good_rd_u16|]. intros [typ r] _.
  destruct typ as [|[[[|[]|]|[[]|[]|]|]|[[|[]|]|[]|]|]]; try exact I;
    repeat (apply good_bind; [first [apply good_rd_u16 | apply good_rd_u32]|intros [? ?] _]); try exact I.
  destruct (length r =? 16); exact I.
Qed.

Lemma dec_labels_good b : good (dec_labels b).
Proof.
  unfold dec_labels, labels_from. pose proof (labels_from_bytes_total b) as T.
  destruct (labels_from_bytes b); cbn; auto.
Qed.

Lemma dec_ntpsub_good c d : good (dec_ntpsub c d).
Proof.
  unfold dec_ntpsub. destruct c as [|[[|[]|]|[|[]|]|]]; try exact I.
  - apply good_bind; [apply dec_labels_good | intros; exact I].
  - apply good_bind; [apply good_rd_n|]. intros [a r] _. apply good_bind; [apply good_fin | intros; exact I].
  - apply good_bind; [apply good_rd_n|]. intros [a r] _. apply good_bind; [apply good_fin | intros; exact I].
Qed.

Lemma dec4_good b : good (dec4 b).
Proof. pose proof (dec4_total b) as T. destruct (dec4 b); auto. Qed.

Lemma dec_msg_with_good opts data :
  (forall r, length r + 4 <= length data -> good (opts r)) -> good (dec_msg_with opts data).
Proof.
  intros P. unfold dec_msg_with. apply good_bind; [apply good_rd_u8|]. intros [t r] E. apply rd_u8_len in E.
  destruct (is_relay_type t).
  - apply good_bind; [apply good_rd_u8|]. intros [hop r1] E1. apply rd_u8_len in E1.
    apply good_bind; [apply good_rd_n|]. intros [l r2] E2. apply rd_n_len in E2.
    apply good_bind; [apply good_rd_n|]. intros [p r3] E3. apply rd_n_len in E3.
    apply good_bind; [apply P; lia | intros; exact I].
  - apply good_bind; [apply good_rd_n|]. intros [xid r1] E1. apply rd_n_len in E1.
    apply good_bind; [apply P; lia | intros; exact I].
Qed.

Ltac step_good :=
  first
  [ exact I
  | match goal with |- good (if ?c then _ else _) => destruct c end
  | match goal with |- good (match ?d with nil => _ | cons _ _ => _ end) => destruct d end
  | match goal with |- good (match ?d with Msg _ _ _ => _ | Relay _ _ _ _ _ => _ end) => destruct d end
  | apply good_bind;
    [ first [ apply good_rd_u8 | apply good_rd_u16 | apply good_rd_u32 | apply good_rd_n | apply good_fin
            | apply dec_duid_good | apply dec_labels_good | apply many_u16_good | apply dec4_good
            | (apply many_len16_good; cbn [length]; lia) | (apply many_ip16_good; cbn [length]; lia)
            | match goal with O : forall r, _ -> good (dec_tlvs _ r) |- _ => apply O; cbn [length] in *; lia end
            | (apply dec_tlvs_good; intros; first [exact I | apply dec_ntpsub_good])
            | (apply dec_msg_with_good; intros;
               match goal with O : forall r, _ -> good (dec_tlvs _ r) |- _ => apply O; lia end) ]
    | let E := fresh "E" in
      first [ intros [? ?] E | intros ? E ];
      first [ apply rd_u8_len in E | apply rd_u16_len in E | apply rd_u32_len in E | apply rd_n_len in E | idtac ] ] ].

Theorem dec_opt_good : forall f code data, length data < f -> good (dec_opt f code data).
Proof.
  induction f as [|f IH]; intros code data H; [lia|]. cbn [dec_opt].
  assert (OPTS : forall r, length r <= length data -> good (dec_tlvs (dec_opt f) r)).
  { intros r Hr. apply dec_tlvs_good. intros c v Hv. apply IH. lia. }
  destruct (classify code); repeat step_good.
Qed.

Theorem dec_msg_good b : good (dec_msg b).
Proof.
  unfold dec_msg. apply dec_msg_with_good. intros r Hr. unfold dec_opts.
  apply dec_tlvs_good. intros c v Hv. apply dec_opt_good. lia.
Qed.

Theorem parse_option_good c d : good (parse_option c d).
Proof. unfold parse_option. apply dec_opt_good. lia. Qed.

Theorem dec_message_good b : good (dec_message b).
Proof. unfold dec_message. destruct b; [apply dec_msg_good|]. destruct (is_relay_type _); [exact I | apply dec_msg_good]. Qed.
Theorem dec_relay_good b : good (dec_relay b).
Proof. unfold dec_relay. destruct b; [exact I|]. destruct (is_relay_type _); [apply dec_msg_good | exact I]. Qed.
