package main

import (
	"fmt"
	"reflect"
	"runtime"
	"runtime/debug"

	"github.com/insomniacslk/dhcp/dhcpv4"
	"github.com/insomniacslk/dhcp/dhcpv6"
	"github.com/insomniacslk/dhcp/rfc1035label"
)

func init() { props["C09"] = genC09 }

// deepSize: octets retained by a value (structs, slices, strings, maps, pointers), each object once.
func deepSize(v reflect.Value, seen map[uintptr]bool) int {
	if !v.IsValid() {
		return 0
	}
	switch v.Kind() {
	case reflect.Ptr:
		if v.IsNil() {
			return 8
		}
		if seen[v.Pointer()] {
			return 8
		}
		seen[v.Pointer()] = true
		return 8 + deepSize(v.Elem(), seen)
	case reflect.Interface:
		if v.IsNil() {
			return 16
		}
		return 16 + deepSize(v.Elem(), seen)
	case reflect.Slice:
		if v.IsNil() {
			return 24
		}
		n := 24
		if v.Type().Elem().Kind() == reflect.Uint8 {
			// views into a shared backing array (e.g. vendor sub-options, which slice the one
			// private copy made by ReadAll) are counted by their length, not their capacity
			return n + v.Len()
		}
		for i := 0; i < v.Len(); i++ {
			n += deepSize(v.Index(i), seen)
		}
		n += (v.Cap() - v.Len()) * int(v.Type().Elem().Size())
		return n
	case reflect.String:
		return 16 + v.Len()
	case reflect.Struct:
		n := 0
		for i := 0; i < v.NumField(); i++ {
			n += deepSize(v.Field(i), seen)
		}
		return n
	case reflect.Map:
		n := 48
		it := v.MapRange()
		for it.Next() {
			n += deepSize(it.Key(), seen) + deepSize(it.Value(), seen) + 16
		}
		return n
	case reflect.Array:
		n := 0
		for i := 0; i < v.Len(); i++ {
			n += deepSize(v.Index(i), seen)
		}
		return n
	default:
		return int(v.Type().Size())
	}
}

type costResult struct {
	alloc    uint64
	size     int
	heap     int64 // octets of heap kept alive by the decoded value (measured by the collector, so backing arrays a view pins are counted whole)
	accepted bool
}

func measure(f func() interface{}) costResult {
	var m0, m1 runtime.MemStats
	runtime.GC()
	old := debug.SetGCPercent(-1)
	runtime.ReadMemStats(&m0)
	v := f()
	runtime.ReadMemStats(&m1)
	debug.SetGCPercent(old)
	res := costResult{alloc: m1.TotalAlloc - m0.TotalAlloc}
	if v != nil {
		res.accepted = true
		res.size = deepSize(reflect.ValueOf(v), map[uintptr]bool{})
		// what the value really pins: collect with only the value alive and compare the live heap
		var m2 runtime.MemStats
		runtime.GC()
		runtime.ReadMemStats(&m2)
		res.heap = int64(m2.HeapAlloc) - int64(m0.HeapAlloc)
		runtime.KeepAlive(v)
	}
	return res
}

func costV6(b []byte) costResult {
	return measure(func() interface{} {
		m, err := dhcpv6.FromBytes(b)
		if err != nil {
			return nil
		}
		_ = m.ToBytes()
		return m
	})
}
func costV4(b []byte) costResult {
	return measure(func() interface{} {
		p, err := dhcpv4.FromBytes(b)
		if err != nil {
			return nil
		}
		_ = p.ToBytes()
		return p
	})
}
func costLabels(b []byte) costResult {
	return measure(func() interface{} {
		l, err := rfc1035label.FromBytes(b)
		if err != nil {
			return nil
		}
		for _, nm := range l.Labels {
			if len(nm) > 253 && nameSizeViolation == "" {
				nameSizeViolation = fmt.Sprintf("decoded name of %d octets (> 253) from %d input octets", len(nm), len(b))
			}
		}
		if len(l.Labels) > len(b)+1 && nameSizeViolation == "" {
			nameSizeViolation = fmt.Sprintf("%d names from %d input octets", len(l.Labels), len(b))
		}
		_ = l.ToBytes()
		return l
	})
}

// set by costLabels when a decoded label set breaks the bounds proved for the model (C09_names_size)
var nameSizeViolation string

// nesting depth of option containers in a v6 byte string (upper bound used in the property's bound)
func v6Depth(b []byte) int { return len(b)/8 + 1 }

// adversarial families; n = target size
func familyInputs(r *Run, n int) map[string][]byte {
	out := map[string][]byte{}
	// pointer fan: one long name then pointers to it
	{
		var b []byte
		for len(b) < n/2 {
			b = append(b, 63)
			b = append(b, make([]byte, 63)...)
		}
		if len(b) > 16000 {
			b = b[:16000]
		}
		b = append(b, 0)
		for len(b)+2 <= n {
			b = append(b, 0xc0, 0)
		}
		out["label-pointer-fan"] = b
		out["v6-domain-list-pointer-fan"] = append([]byte{1, 0, 0, 1}, tlvb(24, clip(b, 65000))...)
	}
	{ // names at the cap, each referenced by a pointer fan
		var b []byte
		for k := 0; k < 3; k++ {
			b = append(b, 63)
			b = append(b, make([]byte, 63)...)
		}
		b = append(b, 59)
		b = append(b, make([]byte, 59)...)
		b = append(b, 0)
		for len(b)+2 <= n {
			b = append(b, 0xc0, 0)
		}
		out["label-max-name-fan"] = b
		out["v6-fqdn-max-name-fan"] = append([]byte{1, 0, 0, 1}, tlvb(39, append([]byte{0}, clip(b, 65000)...))...)
	}
	{ // a region that reads two ways: in sequence, names of one 63-octet label each; entered one octet later
		// (by a pointer into the middle of a label), one unbroken chain of short labels whose 4-octet bridge
		// labels swallow every terminator and the next length octet.  Then a fan of pointers to that chain.
		region := dualRegion(minInt(n/2, 16000) / 65)
		b := append([]byte{}, region...)
		for len(b)+2 <= n {
			b = append(b, 0xc0, 1)
		}
		out["label-dual-reading-fan"] = b
		out["v6-domain-list-dual-reading-fan"] = append([]byte{1, 0, 0, 1}, tlvb(24, clip(b, 65000))...)
		// the same with forward pointers: the fan first, the region after it (target offset < 2^14)
		np := minInt(n/4, 8000)
		var f []byte
		tgt := 2*np + 1
		for k := 0; k < np; k++ {
			f = append(f, 0xc0|byte(tgt>>8), byte(tgt))
		}
		f = append(f, dualRegion(maxInt(n-len(f), 65)/65)...)
		out["label-forward-dual-fan"] = f
	}
	{ // pointer structures a decoder may try to be clever about: each name one label plus a pointer to the start of
		// the previous name (a chain); a pointer whose target is itself a pointer; a pointer to itself; two
		// pointers to each other; then, past the 14-bit pointer range, bare pointers to the last name of the chain
		var b []byte
		prev := 0
		b = append(b, 3, 'a', 'b', 'c', 0)
		for len(b)+6 <= n {
			start := len(b)
			if prev < 1<<14 {
				b = append(b, 1, 'x', 0xc0|byte(prev>>8), byte(prev))
				prev = start
			} else {
				b = append(b, 0xc0|byte(prev>>8), byte(prev))
			}
		}
		out["label-pointer-chain"] = b
		out["v6-domain-list-pointer-chain"] = append([]byte{1, 0, 0, 1}, tlvb(24, clip(b, 65000))...)
		var pp []byte
		pp = append(pp, 3, 'a', 'b', 'c', 0, 0xc0, 0)
		for len(pp)+2 <= n {
			t := len(pp) - 2
			if t >= 1<<14 {
				t = 5
			}
			pp = append(pp, 0xc0|byte(t>>8), byte(t))
		}
		out["label-pointer-to-pointer"] = pp
		var sp []byte
		for len(sp)+2 <= n && len(sp) < 1<<14 {
			sp = append(sp, 0xc0|byte(len(sp)>>8), byte(len(sp)))
		}
		out["label-self-pointers"] = sp
		var mp []byte
		for len(mp)+4 <= n && len(mp) < 1<<14 {
			a := len(mp)
			mp = append(mp, 0xc0|byte((a+2)>>8), byte(a+2), 0xc0|byte(a>>8), byte(a))
		}
		out["label-mutual-pointers"] = mp
	}
	{ // names whose label CONTENT octets spell a second chain of labels in another alignment (every content octet
		// equals the label length, so a walk started inside a label steps over the real terminators and runs through
		// name after name), followed by bare pointers to the middle of a label: each such pointer denotes a name
		// longer than any name may be, whatever was measured on the way there
		for _, L := range []int{31, 63, 7} {
			var b []byte
			per := 200 / (L + 1)
			for len(b) < n/2 || len(b) < 600 {
				for k := 0; k < per; k++ {
					b = append(b, byte(L))
					for j := 0; j < L; j++ {
						b = append(b, byte(L))
					}
				}
				b = append(b, 0)
				if len(b) >= 1<<14-300 {
					break
				}
			}
			for len(b)+2 <= n || len(b) < 700 {
				b = append(b, 0xc0, 1)
			}
			out[fmt.Sprintf("label-hidden-chain-%d", L)] = b
			if L == 31 {
				out["v6-domain-list-hidden-chain"] = append([]byte{1, 0, 0, 1}, tlvb(24, clip(b, 65000))...)
			}
		}
	}
	{ // unterminated label chain
		var b []byte
		for len(b)+2 <= n {
			b = append(b, 1, 'a')
		}
		out["label-unterminated-chain"] = b
	}
	{ // many empty names
		out["label-zeros"] = make([]byte, n)
	}
	{ // IA options nested as deep as possible: IA_NA(12) containing IA_NA ...
		depth := n / 16
		var inner []byte
		for d := 0; d < depth && len(inner)+16 < 65000; d++ {
			inner = tlvb(3, append(make([]byte, 12), inner...))
		}
		out["v6-nested-iana"] = append([]byte{1, 0, 0, 1}, inner...)
	}
	{ // every container nested as deep as possible, each level also carrying an option with an unassigned code
		// (kept as a generic option): whatever such a leaf pins besides its own few octets is retained per level
		for _, c := range []struct{ code, hdr int }{{3, 12}, {25, 12}, {4, 4}, {5, 24}, {26, 25}, {17, 4}} {
			var inner []byte
			leaf := tlvb(0xfff0, []byte{1, 2, 3, 4})
			for len(inner)+c.hdr+12 <= n-4 && len(inner)+c.hdr+12 < 65000 {
				inner = tlvb(uint16(c.code), append(append(make([]byte, c.hdr), leaf...), inner...))
			}
			out[fmt.Sprintf("v6-nested-%d-unknown-leaf", c.code)] = append([]byte{1, 0, 0, 1}, inner...)
		}
	}
	{ // the same nests with a malformed innermost option: the decode fails only at the bottom, and the failure then
		// travels up through every level (whatever each level adds to it on the way is paid depth times)
		for _, c := range []struct{ code, hdr int }{{3, 12}, {25, 12}, {5, 24}} {
			inner := []byte{0, 3, 0, 2} // an IA_NA of 2 octets: too short
			for len(inner)+c.hdr+4 <= n-4 && len(inner)+c.hdr+4 < 65000 {
				inner = tlvb(uint16(c.code), append(make([]byte, c.hdr), inner...))
			}
			out[fmt.Sprintf("v6-nested-%d-malformed-bottom", c.code)] = append([]byte{1, 0, 0, 1}, inner...)
		}
		rl := []byte{1, 0, 0} // a message header cut short
		for len(rl)+38 < n && len(rl)+38 < 65000 {
			rl = append(append([]byte{12, 0}, make([]byte, 32)...), tlvb(9, rl)...)
		}
		out["v6-nested-relay-malformed-bottom"] = rl
	}
	{ // nested relay messages
		var inner = []byte{1, 0, 0, 1}
		for len(inner)+38 < n && len(inner)+38 < 65000 {
			inner = append(append([]byte{12, 0}, make([]byte, 32)...), tlvb(9, inner)...)
		}
		out["v6-nested-relay"] = inner
	}
	{ // thousands of minimal options
		b := []byte{1, 0, 0, 1}
		for len(b)+4 <= n {
			b = append(b, 0, 14, 0, 0)
		}
		out["v6-minimal-options"] = b
		b2 := []byte{1, 0, 0, 1}
		for len(b2)+6 <= n {
			b2 = append(b2, 0, 8, 0, 2, 0, 1)
		}
		out["v6-elapsed-options"] = b2
	}
	{ // vendor opts with many sub-options, user classes, boot params of zero length
		v := w32(1)
		for len(v)+4 <= n-8 && len(v) < 65000 {
			v = append(v, 0, 1, 0, 0)
		}
		out["v6-vendor-subopts"] = append([]byte{1, 0, 0, 1}, tlvb(17, v)...)
		var p []byte
		for len(p)+2 <= n-8 && len(p) < 65000 {
			p = append(p, 0, 0)
		}
		out["v6-bootparam-empty"] = append([]byte{1, 0, 0, 1}, tlvb(60, p)...)
		out["v6-oro-many"] = append([]byte{1, 0, 0, 1}, tlvb(6, r.Bytes(minInt(n, 65000)&^1))...)
	}
	{ // adversarial length fields: every option type whose value is a run of 0xff (each pair reads as a huge
		// item length / count), alone and inside an IA_NA; such inputs are mostly rejected - cheaply
		run := make([]byte, minInt(n, 65000))
		for i := range run {
			run[i] = 0xff
		}
		for _, c := range knownV6Codes {
			out[fmt.Sprintf("v6-ff-run-opt%d", c)] = append([]byte{1, 0, 0, 1}, tlvb(c, run)...)
		}
		out["v6-ff-run-in-iana"] = append([]byte{1, 0, 0, 1}, tlvb(3, append(make([]byte, 12), tlvb(15, clip(run, 60000))...))...)
		out["v6-ff-run-message"] = append([]byte{1}, run...)
		hdr := make([]byte, 240)
		copy(hdr[236:], []byte{99, 130, 83, 99})
		out["v4-ff-run-area"] = append(hdr, run...)
		out["label-ff-run"] = run
	}
	{ // v4: maximal repeated options, many zero-length options
		hdr := make([]byte, 240)
		copy(hdr[236:], []byte{99, 130, 83, 99})
		b := append([]byte{}, hdr...)
		for len(b)+257 <= n {
			b = append(append(b, 43, 255), make([]byte, 255)...)
		}
		out["v4-repeated-option"] = append(b, 255)
		b2 := append([]byte{}, hdr...)
		for len(b2)+2 <= n {
			b2 = append(b2, byte(1+len(b2)%250), 0)
		}
		out["v4-zero-length-options"] = append(b2, 255)
		b3 := append([]byte{}, hdr...)
		for len(b3)+3 <= n {
			b3 = append(b3, 43, 1, 7)
		}
		out["v4-one-byte-instances"] = append(b3, 255)
	}
	{ // DHCPv4-in-DHCPv6 with label option inside
		hdr := make([]byte, 240)
		copy(hdr[236:], []byte{99, 130, 83, 99})
		area := []byte{}
		for len(area)+3 <= n-260 && len(area) < 60000 {
			area = append(area, 119, 1, 0)
		}
		out["v6-dhcpv4-msg"] = append([]byte{1, 0, 0, 1}, tlvb(87, append(append(hdr, area...), 255))...)
	}
	return out
}

// dualRegion: k blocks [63][60 octets of 4-letter labels][4][2 letters] [0]  (the last block ends its inner chain)
func dualRegion(k int) []byte {
	if k < 1 {
		k = 1
	}
	var b []byte
	for i := 0; i < k; i++ {
		b = append(b, 63)
		for j := 0; j < 12; j++ {
			b = append(b, 4, 'a', 'b', 'c', 'd')
		}
		if i == k-1 {
			b = append(b, 1, 'z', 0) // inner chain ends inside the last block
		} else {
			b = append(b, 4, 'x', 'y') // bridge label: 'x' 'y' + terminator + next length octet
		}
		b = append(b, 0)
	}
	return b
}

func maxInt(a, b int) int {
	if a > b {
		return a
	}
	return b
}

func clip(b []byte, n int) []byte {
	if len(b) > n {
		return b[:n]
	}
	return b
}

// the property's bound, with explicit constants
const (
	c09SizeFactor  = 300  // retained octets per input octet
	c09AllocFactor = 1500 // allocated octets per input octet (decode + re-encode), excluding the nesting term
	c09Slack       = 4096
	c09HeapSlack   = 65536 // the live-heap difference also sees the runtime's own small allocations
)

func checkBound(r *Run, fam string, b []byte, res costResult, depth int) {
	n := len(b)
	if res.size > c09SizeFactor*n+c09Slack {
		r.Fail("c09-size:"+fam, fmt.Sprintf("%s n=%d", fam, n), fmt.Sprintf("decoded value retains %d octets for %d input octets (> %d*n+%d)", res.size, n, c09SizeFactor, c09Slack))
	}
	if res.heap > int64(c09SizeFactor*n+c09HeapSlack) {
		r.Fail("c09-retained-heap:"+fam, fmt.Sprintf("%s n=%d", fam, n), fmt.Sprintf("decoded value keeps %d octets of heap alive for %d input octets (> %d*n+%d)", res.heap, n, c09SizeFactor, c09HeapSlack))
	}
	bound := uint64(c09AllocFactor*n + depth*n + c09Slack)
	if res.alloc > bound {
		r.Fail("c09-alloc:"+fam, fmt.Sprintf("%s n=%d", fam, n), fmt.Sprintf("decode+encode allocated %d octets for %d input octets, nesting depth <= %d (bound %d)", res.alloc, n, depth, bound))
	}
}

func genC09(r *Run) {
	// a fine ladder at the small end: a cost that doubles per nesting level or per element must be seen while it is
	// still cheap to run (a family that breaks the bound is not run at larger sizes)
	sizes := []int{64, 96, 128, 192, 256, 384, 512, 1024, 4096, 16384, 65507}
	worstAlloc, worstSize := map[string]float64{}, map[string]float64{}
	evals := 0
	failedFam := map[string]bool{} // once a family breaks the bound, larger members are not run (they may take minutes and gigabytes)
	for _, n := range sizes {
		for fam, b := range familyInputs(r, n) {
			if failedFam[fam] {
				continue
			}
			if len(b) > 65507 {
				b = b[:65507]
			}
			var res costResult
			depth := 1
			switch {
			case len(fam) > 5 && fam[:5] == "label":
				res = costLabels(b)
				if len(b) <= 300 {
					r.Add(eLabelFrom, b)
				}
			case fam[:2] == "v4":
				res = costV4(b)
				if len(b) <= 1024 {
					r.Add(eV4Dec, b)
				}
			default:
				res = costV6(b)
				depth = v6Depth(b)
				if len(b) <= 1024 {
					r.Add(eV6Dec, b)
				}
			}
			evals++
			before := r.OracleN
			if nameSizeViolation != "" {
				r.Fail("c09-name-size:"+fam, fmt.Sprintf("%s n=%d", fam, len(b)), nameSizeViolation)
				nameSizeViolation = ""
			}
			checkBound(r, fam, b, res, depth)
			if r.OracleN > before {
				failedFam[fam] = true
			}
			if len(b) > 0 {
				if a := float64(res.alloc) / float64(len(b)); a > worstAlloc[fam] {
					worstAlloc[fam] = a
				}
				if s := float64(res.size) / float64(len(b)); s > worstSize[fam] {
					worstSize[fam] = s
				}
			}
		}
	}
	// hill climbing on allocated octets per input octet
	steps := r.N(300, 20000)
	best := append([]byte{1, 0, 0, 1}, tlvb(24, []byte{3, 'a', 'b', 'c', 0xc0, 0})...)
	bestScore := 0.0
	for i := 0; i < steps; i++ {
		cand := r.mutate(best)
		if len(cand) > 4096 {
			cand = cand[:4096]
		}
		if len(cand) < 8 {
			continue
		}
		res := costV6(cand)
		evals++
		checkBound(r, "hill-climb", cand, res, v6Depth(cand))
		if !res.accepted {
			continue
		}
		if s := float64(res.alloc) / float64(len(cand)); s > bestScore {
			best, bestScore = cand, s
		}
	}
	r.Extra["worst_alloc_per_input_octet"] = worstAlloc
	r.Extra["worst_size_per_input_octet"] = worstSize
	r.Extra["hill_climb_best_alloc_per_octet"] = bestScore
	r.Extra["bound"] = fmt.Sprintf("size <= %d*n + %d; alloc <= %d*n + depth*n + %d", c09SizeFactor, c09Slack, c09AllocFactor, c09Slack)
	r.Extra["oracle_evaluations"] = evals
}
