(** C02: encoding any DHCPv6 message of the domain and decoding it yields the
    (canonical form of the) same value, for every option type and any nesting depth. *)
From DV Require Import Base.Bytes Label.Model Label.RoundTrip V4.Model V4.RoundTrip V4.Fixpoint V6.Model V6.Wf V6.Comb.

Arguments labels_from_bytes : simpl never.

Lemma dec_labels_enc l : wf_labels l -> dec_labels (labels_bytes l) = Ok (canon_labels l).
Proof.
  intros [[Ho Hn]|[b Hb]].
  - destruct l as [o ns]. cbn [original names] in *. subst o.
    unfold labels_bytes. rewrite encode_fresh. cbn [obytes]. unfold dec_labels, labels_from, canon_labels.
    cbn [original names]. rewrite roundtrip by exact Hn. reflexivity.
  - unfold labels_bytes. rewrite (reencode_original b l Hb). cbn [obytes]. unfold dec_labels. rewrite Hb.
    unfold canon_labels. unfold labels_from in Hb.
    destruct (labels_from_bytes b); cbn [bind] in Hb; try discriminate. injection Hb as <-. reflexivity.
Qed.

Lemma dec_duid_enc d : wf_duid d -> dec_duid (enc_duid d) = Ok d.
Proof.
  destruct d as [hw t ll|en id|hw ll|u|t data]; cbn [wf_duid enc_duid]; unfold dec_duid.
  - intros [H1 H2]. rewrite rd_u16_be by (unfold u16; lia). cbn [bind].
    rewrite rd_u16_be by exact H1. cbn [bind]. rewrite rd_u32_be by exact H2. reflexivity.
  - intros H. rewrite rd_u16_be by (unfold u16; lia). cbn [bind]. rewrite rd_u32_be by exact H. reflexivity.
  - intros H. rewrite rd_u16_be by (unfold u16; lia). cbn [bind]. rewrite rd_u16_be by exact H. reflexivity.
  - intros H. rewrite rd_u16_be by (unfold u16; lia). cbn [bind]. rewrite copy_into_exact by exact H.
    rewrite H. reflexivity.
  - intros (H & N1 & N2 & N3 & N4). rewrite rd_u16_be by exact H. cbn [bind].
    destruct t as [|[[[|[]|]|[[]|[]|]|]|[[|[]|]|[]|]|]]; try reflexivity; congruence.
Qed.

Definition ntp_code (s : ntpsub) : N := match s with NSrv _ => 1 | NMC _ => 2 | NFQDN _ => 3 | NGen c _ => c end%N.
Definition ntp_val (s : ntpsub) : bytes :=
  match s with NSrv a | NMC a => ip16_or_nothing a | NFQDN l => labels_bytes l | NGen _ d => d end.
Lemma enc_ntpsub_tlv s : enc_ntpsub s = tlv (ntp_code s) (ntp_val s).
Proof. destruct s; reflexivity. Qed.

Lemma ip16_or_nothing_16 a : length a = 16 -> ip16_or_nothing a = a.
Proof. intros H. unfold ip16_or_nothing, to16. rewrite H. reflexivity. Qed.
Lemma ip16_16 a : length a = 16 -> ip16 a = a.
Proof. intros H. unfold ip16, to16. rewrite H. reflexivity. Qed.

Lemma dec_ntpsub_enc s : wf_ntpsub s -> dec_ntpsub (ntp_code s) (ntp_val s) = Ok (canon_ntpsub s).
Proof.
  destruct s as [a|a|l|c d]; cbn [wf_ntpsub ntp_code ntp_val canon_ntpsub]; unfold dec_ntpsub.
  - intros H. rewrite ip16_or_nothing_16 by exact H. rewrite rd_n_all by exact H. reflexivity.
  - intros H. rewrite ip16_or_nothing_16 by exact H. rewrite rd_n_all by exact H. reflexivity.
  - intros [H _]. rewrite dec_labels_enc by exact H. reflexivity.
  - intros (H & N1 & N2 & N3 & _). destruct c as [|[[|[]|]|[|[]|]|]]; try reflexivity; congruence.
Qed.

Lemma dec4_enc_v4 p : wf_v4 p -> dec4 (enc4_bytes p) = Ok (canon4 p).
Proof. intros (b & p' & E & D). unfold enc4_bytes, canon4. rewrite E, D. reflexivity. Qed.

(** unfolding of the nested definitions *)
Lemma depth_nested os :
  (forall i t1 t2, depth (OIANA i t1 t2 os) = S (depth_list os)) /\
  (forall i, depth (OIATA i os) = S (depth_list os)) /\
  (forall a p v, depth (OIAAddr a p v os) = S (depth_list os)) /\
  (forall t x, depth (ORelayMsgM t x os) = S (depth_list os)) /\
  (forall t h l p, depth (ORelayMsgR t h l p os) = S (depth_list os)) /\
  (forall i t1 t2, depth (OIAPD i t1 t2 os) = S (depth_list os)) /\
  (forall p v pre, depth (OIAPrefix p v pre os) = S (depth_list os)) /\
  depth (O4RD os) = S (depth_list os).
Proof. repeat split. Qed.

Lemma depth_list_in os x : In x os -> depth x <= depth_list os.
Proof.
  induction os as [|y r IH]; [intros []|]. cbn [depth_list]. intros [->|H]; [lia|].
  specialize (IH H). lia.
Qed.

Lemma enc_val_nested os :
  let eo := flat_map (fun x => tlv (opt_code x) (enc_val x)) os in
  (forall i t1 t2, enc_val (OIANA i t1 t2 os) = copy_into 4 4 i ++ be32 t1 ++ be32 t2 ++ eo) /\
  (forall i, enc_val (OIATA i os) = copy_into 4 4 i ++ eo) /\
  (forall a p v, enc_val (OIAAddr a p v os) = ip16 a ++ be32 p ++ be32 v ++ eo) /\
  (forall t x, enc_val (ORelayMsgM t x os) = [n2b t] ++ copy_into 3 3 x ++ eo) /\
  (forall t h l p, enc_val (ORelayMsgR t h l p os) = [n2b t; n2b h] ++ ip16 l ++ ip16 p ++ eo) /\
  (forall i t1 t2, enc_val (OIAPD i t1 t2 os) = copy_into 4 4 i ++ be32 t1 ++ be32 t2 ++ eo) /\
  (forall p v pre, enc_val (OIAPrefix p v pre os) =
     be32 p ++ be32 v ++ (match pre with Some (plen, a) => [n2b plen] ++ ip16 a | None => [x00] ++ zeros 16 end) ++ eo) /\
  enc_val (O4RD os) = eo.
Proof. repeat split. Qed.

(** the nested option list decodes, given the statement for its members *)
Lemma dec_opts_enc parse os :
  (forall x, In x os -> parse (opt_code x) (enc_val x) = Ok (canon x) /\ u16 (opt_code x) /\ short (enc_val x)) ->
  dec_tlvs parse (flat_map (fun x => tlv (opt_code x) (enc_val x)) os) = Ok (map canon os).
Proof.
  intros H.
  replace (flat_map (fun x => tlv (opt_code x) (enc_val x)) os)
    with (flat_map (fun it => tlv (fst it) (snd it)) (map (fun x => (opt_code x, enc_val x)) os))
    by (rewrite flat_map_concat_map, map_map, <- flat_map_concat_map; reflexivity).
  apply dec_tlvs_enc.
  induction os as [|x r IH]; cbn [map]; constructor.
  - cbn [fst snd]. apply H. left. reflexivity.
  - apply IH. intros y Hy. apply H. right. exact Hy.
Qed.

Lemma wf_short o : wf_opt o -> short (enc_val o).
Proof. destruct o; cbn [wf_opt]; tauto. Qed.

Lemma opt_code_u16 o : wf_opt o -> u16 (opt_code o).
Proof. destruct o; cbn [wf_opt opt_code]; intros H; try (unfold u16; lia). tauto. Qed.

Lemma wf_opts_in os x : wf_opts os -> In x os -> wf_opt x.
Proof. intros H Hx. apply wf_opts_Forall in H. rewrite Forall_forall in H. auto. Qed.

Lemma wf_nested os :
  (forall i t1 t2, wf_opt (OIANA i t1 t2 os) = (short (enc_val (OIANA i t1 t2 os)) /\ length i = 4 /\ u32 t1 /\ u32 t2 /\ wf_opts os)) /\
  (forall i, wf_opt (OIATA i os) = (short (enc_val (OIATA i os)) /\ length i = 4 /\ wf_opts os)) /\
  (forall a p v, wf_opt (OIAAddr a p v os) = (short (enc_val (OIAAddr a p v os)) /\ length a = 16 /\ u32 p /\ u32 v /\ wf_opts os)) /\
  (forall t x, wf_opt (ORelayMsgM t x os) = (short (enc_val (ORelayMsgM t x os)) /\ u8 t /\ is_relay_type t = false /\ length x = 3 /\ wf_opts os)) /\
  (forall t h l p, wf_opt (ORelayMsgR t h l p os) = (short (enc_val (ORelayMsgR t h l p os)) /\ is_relay_type t = true /\ u8 h /\ length l = 16 /\ length p = 16 /\ wf_opts os)) /\
  (forall i t1 t2, wf_opt (OIAPD i t1 t2 os) = (short (enc_val (OIAPD i t1 t2 os)) /\ length i = 4 /\ u32 t1 /\ u32 t2 /\ wf_opts os)) /\
  (forall p v pre, wf_opt (OIAPrefix p v pre os) = (short (enc_val (OIAPrefix p v pre os)) /\ u32 p /\ u32 v /\
       match pre with Some (plen, a) => (1 <= plen <= 128)%N /\ length a = 16 | None => True end /\ wf_opts os)) /\
  wf_opt (O4RD os) = (short (enc_val (O4RD os)) /\ wf_opts os).
Proof. repeat split. Qed.

Lemma nested_opts f os :
  (forall x, wf_opt x -> depth x < f -> dec_opt f (opt_code x) (enc_val x) = Ok (canon x)) ->
  wf_opts os -> depth_list os < f ->
  dec_tlvs (dec_opt f) (flat_map (fun x => tlv (opt_code x) (enc_val x)) os) = Ok (map canon os).
Proof.
  intros IH W D. apply dec_opts_enc. intros x Hx.
  pose proof (wf_opts_in os x W Hx) as Wx. pose proof (depth_list_in os x Hx) as Dx.
  split; [apply IH; [exact Wx | lia] | split; [apply opt_code_u16 | apply wf_short]; exact Wx].
Qed.

Lemma is_relay_u8 t : is_relay_type t = true -> u8 t.
Proof.
  unfold is_relay_type, u8. intros H. apply orb_true_iff in H.
  destruct H as [H|H]; apply N.eqb_eq in H; subst; lia.
Qed.

Lemma b2flag_hub hub k : (k <= 1)%N -> (128 <=? b2flag hub 128 + k)%N = hub.
Proof. intros H. destruct hub; cbn [b2flag]; [apply N.leb_le | apply N.leb_gt]; lia. Qed.

Theorem dec_opt_enc : forall f o, wf_opt o -> depth o < f -> dec_opt f (opt_code o) (enc_val o) = Ok (canon o).
Proof.
  induction f as [|f IH]; intros o W D; [lia|].
  destruct o as [d|d|iaid t1 t2 os|iaid os|a p v os|cs|t|t xid os|t hop l p os|c m|cls|en ds|en subs|id|as_|l
                |iaid t1 t2 os|p v pre os|t|en id|fl l|subs|u|ps|archs|t ma mi|hw a|p4|as_|os
                |p4l p6l ea wkp p4 p6|hub tc pmtu|port|c data];
    cbv beta iota delta [opt_code]; cbn [dec_opt]; cbv beta iota delta [classify].
  - (* client id *) cbn [wf_opt enc_val canon] in *. rewrite dec_duid_enc by tauto. reflexivity.
  - cbn [wf_opt enc_val canon] in *. rewrite dec_duid_enc by tauto. reflexivity.
  - (* IA_NA *)
    destruct (wf_nested os) as (E & _). rewrite E in W. destruct W as (_ & Hi & H1 & H2 & Wo).
    destruct (depth_nested os) as (Ed & _). rewrite Ed in D.
    destruct (enc_val_nested os) as (Ev & _). rewrite Ev.
    rewrite copy_into_exact by exact Hi. rewrite rd_n_app by exact Hi. cbn [bind].
    rewrite rd_u32_be by exact H1. cbn [bind]. rewrite rd_u32_be by exact H2. cbn [bind].
    rewrite nested_opts by (auto; lia). reflexivity.
  - (* IA_TA *)
    destruct (wf_nested os) as (_ & E & _). rewrite E in W. destruct W as (_ & Hi & Wo).
    destruct (depth_nested os) as (_ & Ed & _). rewrite Ed in D.
    destruct (enc_val_nested os) as (_ & Ev & _). rewrite Ev.
    rewrite copy_into_exact by exact Hi. rewrite rd_n_app by exact Hi. cbn [bind].
    rewrite nested_opts by (auto; lia). reflexivity.
  - (* IA address *)
    destruct (wf_nested os) as (_ & _ & E & _). rewrite E in W. destruct W as (_ & Ha & H1 & H2 & Wo).
    destruct (depth_nested os) as (_ & _ & Ed & _). rewrite Ed in D.
    destruct (enc_val_nested os) as (_ & _ & Ev & _). rewrite Ev.
    rewrite ip16_16 by exact Ha. rewrite rd_n_app by exact Ha. cbn [bind].
    rewrite rd_u32_be by exact H1. cbn [bind]. rewrite rd_u32_be by exact H2. cbn [bind].
    rewrite nested_opts by (auto; lia). reflexivity.
  - (* ORO *)
    cbn [wf_opt enc_val canon] in *. destruct W as (_ & Hn & Hc).
    rewrite many_u16_enc by exact Hc. cbn [bind]. rewrite dedup_add_nodup by exact Hn. reflexivity.
  - (* elapsed *)
    cbn [wf_opt enc_val canon] in *. destruct W as (_ & Ht).
    rewrite <- (app_nil_r (be16 t)). rewrite rd_u16_be by exact Ht. reflexivity.
  - (* relay message carrying a Message *)
    destruct (wf_nested os) as (_ & _ & _ & E & _). rewrite E in W. destruct W as (_ & Ht & Hr & Hx & Wo).
    destruct (depth_nested os) as (_ & _ & _ & Ed & _). rewrite Ed in D.
    destruct (enc_val_nested os) as (_ & _ & _ & Ev & _). rewrite Ev.
    unfold dec_msg_with. cbn [app]. rewrite rd_u8_cons by exact Ht. cbn [bind]. rewrite Hr.
    rewrite copy_into_exact by exact Hx. rewrite rd_n_app by exact Hx. cbn [bind].
    rewrite nested_opts by (auto; lia). reflexivity.
  - (* relay message carrying a RelayMessage *)
    destruct (wf_nested os) as (_ & _ & _ & _ & E & _). rewrite E in W. destruct W as (_ & Hr & Hh & Hl & Hp & Wo).
    destruct (depth_nested os) as (_ & _ & _ & _ & Ed & _). rewrite Ed in D.
    destruct (enc_val_nested os) as (_ & _ & _ & _ & Ev & _). rewrite Ev.
    unfold dec_msg_with. cbn [app]. rewrite rd_u8_cons by (apply is_relay_u8; exact Hr). cbn [bind]. rewrite Hr.
    rewrite rd_u8_cons by exact Hh. cbn [bind].
    rewrite ip16_16 by exact Hl. rewrite rd_n_app by exact Hl. cbn [bind].
    rewrite ip16_16 by exact Hp. rewrite rd_n_app by exact Hp. cbn [bind].
    rewrite nested_opts by (auto; lia). reflexivity.
  - (* status *) cbn [wf_opt enc_val canon] in *. rewrite rd_u16_be by tauto. reflexivity.
  - (* user class *)
    cbn [wf_opt enc_val canon] in *. destruct W as (_ & Hne & Hs).
    destruct (flat_map (fun c => len16 c ++ c) cls) eqn:E.
    { destruct cls as [|c r]; [congruence|]. cbn [flat_map] in E. unfold len16 in E. cbn in E. discriminate. }
    rewrite <- E. rewrite many_len16_enc; [reflexivity | exact Hs | pose proof (flat_len16_length cls); lia].
  - (* vendor class *)
    cbn [wf_opt enc_val canon] in *. destruct W as (_ & He & Hne & Hs).
    rewrite rd_u32_be by exact He. cbn [bind].
    rewrite many_len16_enc; [|exact Hs | pose proof (flat_len16_length ds); lia]. cbn [bind].
    destruct ds; [congruence | reflexivity].
  - (* vendor opts *)
    cbn [wf_opt enc_val canon] in *. destruct W as (_ & He & Hs).
    rewrite rd_u32_be by exact He. cbn [bind].
    rewrite (dec_tlvs_enc (fun c d => Ok (c, d)) subs subs); [reflexivity|].
    clear -Hs. induction subs as [|[c d] r IH]; constructor.
    + inversion Hs; subst. cbn [fst snd] in *. tauto.
    + apply IH. inversion Hs; assumption.
  - (* interface id *) reflexivity.
  - (* DNS *)
    cbn [wf_opt enc_val canon] in *. destruct W as (_ & Ha).
    assert (E : flat_map ip16_or_nothing as_ = concat as_).
    { clear -Ha. induction as_ as [|a r IH]; [reflexivity|]. inversion Ha; subst.
      cbn [flat_map concat]. rewrite ip16_or_nothing_16, IH by assumption. reflexivity. }
    rewrite E. rewrite many_ip16_enc; [reflexivity | exact Ha |].
    clear -Ha. induction as_ as [|a r IH]; cbn [concat length]; [lia|]. inversion Ha; subst.
    rewrite app_length. specialize (IH H2). lia.
  - (* domain search list *) cbn [wf_opt enc_val canon] in *. rewrite dec_labels_enc by tauto. reflexivity.
  - (* IA_PD *)
    destruct (wf_nested os) as (_ & _ & _ & _ & _ & E & _). rewrite E in W. destruct W as (_ & Hi & H1 & H2 & Wo).
    destruct (depth_nested os) as (_ & _ & _ & _ & _ & Ed & _). rewrite Ed in D.
    destruct (enc_val_nested os) as (_ & _ & _ & _ & _ & Ev & _). rewrite Ev.
    rewrite copy_into_exact by exact Hi. rewrite rd_n_app by exact Hi. cbn [bind].
    rewrite rd_u32_be by exact H1. cbn [bind]. rewrite rd_u32_be by exact H2. cbn [bind].
    rewrite nested_opts by (auto; lia). reflexivity.
  - (* IA prefix *)
    destruct (wf_nested os) as (_ & _ & _ & _ & _ & _ & E & _). rewrite E in W. destruct W as (_ & H1 & H2 & Hpre & Wo).
    destruct (depth_nested os) as (_ & _ & _ & _ & _ & _ & Ed & _). rewrite Ed in D.
    destruct (enc_val_nested os) as (_ & _ & _ & _ & _ & _ & Ev & _). rewrite Ev.
    rewrite rd_u32_be by exact H1. cbn [bind]. rewrite rd_u32_be by exact H2. cbn [bind].
    destruct pre as [[plen a]|].
    + destruct Hpre as [Hl Ha]. cbn [app]. rewrite rd_u8_cons by (unfold u8; lia). cbn [bind].
      rewrite ip16_16 by exact Ha. rewrite rd_n_app by exact Ha. cbn [bind].
      assert (C1 : (128 <? plen)%N = false) by (apply N.ltb_ge; lia). rewrite C1.
      rewrite nested_opts by (auto; lia). cbn [bind].
      assert (C2 : (plen =? 0)%N = false) by (apply N.eqb_neq; lia). rewrite C2. reflexivity.
    + cbn [app]. change x00 with (n2b 0). rewrite rd_u8_cons by (unfold u8; lia). cbn [bind].
      rewrite rd_n_app by (apply zeros_length). cbn [bind].
      rewrite nested_opts by (auto; lia). reflexivity.
  - (* information refresh time *)
    cbn [wf_opt enc_val canon] in *. rewrite <- (app_nil_r (be32 t)). rewrite rd_u32_be by tauto. reflexivity.
  - (* remote id *) cbn [wf_opt enc_val canon] in *. rewrite rd_u32_be by tauto. reflexivity.
  - (* FQDN *)
    cbn [wf_opt enc_val canon] in *. destruct W as (_ & Hf & Hl). cbn [app].
    rewrite rd_u8_cons by exact Hf. cbn [bind]. rewrite dec_labels_enc by exact Hl. reflexivity.
  - (* NTP *)
    cbn [wf_opt enc_val canon] in *. destruct W as (Hsh & Hs).
    replace (flat_map enc_ntpsub subs)
      with (flat_map (fun it => tlv (fst it) (snd it)) (map (fun s => (ntp_code s, ntp_val s)) subs)).
    2:{ rewrite flat_map_concat_map, map_map, <- flat_map_concat_map. apply flat_map_ext.
        intros s. symmetry. apply enc_ntpsub_tlv. }
    rewrite (dec_tlvs_enc dec_ntpsub _ (map canon_ntpsub subs)); [reflexivity|].
    clear -Hs. induction subs as [|s r IH]; cbn [map]; constructor.
    + inversion Hs as [|? ? Hw _]; subst. cbn [fst snd]. split; [apply dec_ntpsub_enc; exact Hw|].
      destruct s; cbn [wf_ntpsub ntp_code ntp_val] in *; unfold u16, short in *.
      * rewrite ip16_or_nothing_16 by exact Hw. rewrite Hw. split; lia.
      * rewrite ip16_or_nothing_16 by exact Hw. rewrite Hw. split; lia.
      * split; [lia | tauto].
      * tauto.
    + apply IH. inversion Hs; assumption.
  - (* boot file URL *) reflexivity.
  - (* boot file parameters *)
    cbn [wf_opt enc_val canon] in *. destruct W as (_ & Hs).
    assert (E : flat_map (fun p => if (65536 <=? N.of_nat (length p))%N then [] else len16 p ++ p) ps
                = flat_map (fun c => len16 c ++ c) ps).
    { clear -Hs. induction ps as [|p r IH]; [reflexivity|]. inversion Hs as [|? ? Hp Hr]; subst.
      cbn [flat_map]. rewrite IH by exact Hr. unfold short in Hp.
      assert (C : (65536 <=? N.of_nat (length p))%N = false) by (apply N.leb_gt; exact Hp). rewrite C. reflexivity. }
    rewrite E. rewrite many_len16_enc; [reflexivity | exact Hs | pose proof (flat_len16_length ps); lia].
  - (* architectures *)
    cbn [wf_opt enc_val canon] in *. destruct W as (_ & Hne & Hs).
    destruct (flat_map be16 archs) eqn:E.
    { destruct archs; [congruence | discriminate]. }
    rewrite <- E. rewrite many_u16_enc by exact Hs. reflexivity.
  - (* NII *)
    cbn [wf_opt enc_val canon] in *. destruct W as (_ & H1 & H2 & H3).
    rewrite rd_u8_cons by exact H1. cbn [bind]. rewrite rd_u8_cons by exact H2. cbn [bind].
    rewrite rd_u8_cons by exact H3. reflexivity.
  - (* client link-layer address *) cbn [wf_opt enc_val canon] in *. rewrite rd_u16_be by tauto. reflexivity.
  - (* DHCPv4 message *) cbn [wf_opt enc_val canon] in *. rewrite dec4_enc_v4 by tauto. reflexivity.
  - (* 4o6 servers *)
    cbn [wf_opt enc_val canon] in *. destruct W as (_ & Ha).
    assert (E : flat_map ip16_or_nothing as_ = concat as_).
    { clear -Ha. induction as_ as [|a r IH]; [reflexivity|]. inversion Ha; subst.
      cbn [flat_map concat]. rewrite ip16_or_nothing_16, IH by assumption. reflexivity. }
    rewrite E. rewrite many_ip16_enc; [reflexivity | exact Ha |].
    clear -Ha. induction as_ as [|a r IH]; cbn [concat length]; [lia|]. inversion Ha; subst.
    rewrite app_length. specialize (IH H2). lia.
  - (* 4RD *)
    destruct (wf_nested os) as (_ & _ & _ & _ & _ & _ & _ & E). rewrite E in W. destruct W as (_ & Wo).
    destruct (depth_nested os) as (_ & _ & _ & _ & _ & _ & _ & Ed). rewrite Ed in D.
    destruct (enc_val_nested os) as (_ & _ & _ & _ & _ & _ & _ & Ev). rewrite Ev.
    rewrite nested_opts by (auto; lia). reflexivity.
  - (* 4RD map rule *)
    cbn [wf_opt enc_val canon] in *. destruct W as (_ & H4 & H6 & He & L4 & L6). cbn [app].
    rewrite rd_u8_cons by (unfold u8; lia). cbn [bind]. rewrite rd_u8_cons by (unfold u8; lia). cbn [bind].
    rewrite rd_u8_cons by exact He. cbn [bind].
    rewrite rd_u8_cons by (unfold u8; destruct wkp; cbn; lia). cbn [bind].
    rewrite (to4_len4 p4 L4). rewrite rd_n_app by exact L4. cbn [bind].
    rewrite ip16_16 by exact L6. rewrite rd_n_all by exact L6. cbn [bind fin_empty].
    assert (C1 : (32 <? p4l)%N = false) by (apply N.ltb_ge; lia).
    assert (C2 : (128 <? p6l)%N = false) by (apply N.ltb_ge; lia). rewrite C1, C2. cbn [orb].
    destruct wkp; reflexivity.
  - (* 4RD non-map rule *)
    cbn [wf_opt enc_val canon] in *. destruct W as (_ & Htc & Hp). cbn [app].
    destruct tc as [c|].
    + rewrite rd_u8_cons by (unfold u8; destruct hub; cbn; lia). cbn [bind].
      rewrite rd_u8_cons by exact Htc. cbn [bind].
      rewrite <- (app_nil_r (be16 pmtu)). rewrite rd_u16_be by exact Hp. cbn [bind fin_empty].
      rewrite b2flag_hub by lia. destruct hub; reflexivity.
    + rewrite rd_u8_cons by (unfold u8; destruct hub; cbn; lia). cbn [bind].
      change x00 with (n2b 0). rewrite rd_u8_cons by (unfold u8; lia). cbn [bind].
      rewrite <- (app_nil_r (be16 pmtu)). rewrite rd_u16_be by exact Hp. cbn [bind fin_empty].
      rewrite b2flag_hub by lia. destruct hub; reflexivity.
  - (* relay port *)
    cbn [wf_opt enc_val canon] in *. rewrite <- (app_nil_r (be16 port)). rewrite rd_u16_be by tauto. reflexivity.
  - (* generic *)
    cbn [wf_opt enc_val canon] in *. destruct W as (_ & _ & Hk). unfold classify in Hk. rewrite Hk. reflexivity.
Qed.

(** * fuel adequacy: nesting depth is bounded by the encoded length *)
Lemma tlv_length c v : length (tlv c v) = 4 + length v.
Proof. unfold tlv, len16. rewrite !app_length. reflexivity. Qed.

Lemma depth_list_le n : (forall x, depth x <= n -> depth x <= S (length (enc_val x))) ->
  forall os, depth_list os <= n -> depth_list os <= length (flat_map (fun x => tlv (opt_code x) (enc_val x)) os).
Proof.
  intros IH. induction os as [|x r IHr]; cbn [depth_list flat_map]; intros H; [lia|].
  rewrite app_length, tlv_length.
  assert (depth x <= S (length (enc_val x))) by (apply IH; lia).
  assert (depth_list r <= length (flat_map (fun x => tlv (opt_code x) (enc_val x)) r)) by (apply IHr; lia).
  lia.
Qed.

Lemma depth_le : forall n o, depth o <= n -> depth o <= S (length (enc_val o)).
Proof.
  induction n as [|n IH]; intros o H.
  - lia.
  - destruct o; try (cbn [depth]; lia).
    all: match goal with |- depth ?o <= _ =>
           match o with
           | context [?os] =>
             match type of os with list opt6 =>
               destruct (depth_nested os) as (E1 & E2 & E3 & E4 & E5 & E6 & E7 & E8);
               destruct (enc_val_nested os) as (V1 & V2 & V3 & V4 & V5 & V6 & V7 & V8)
             end
           end
         end;
      rewrite ?E1, ?E2, ?E3, ?E4, ?E5, ?E6, ?E7, ?E8 in *;
      rewrite ?V1, ?V2, ?V3, ?V4, ?V5, ?V6, ?V7, ?V8;
      rewrite ?app_length;
      match goal with |- S (depth_list ?os) <= _ =>
        pose proof (depth_list_le n IH os ltac:(lia)) end; lia.
Qed.

Lemma depth_list_enc os : depth_list os <= length (enc_opts os).
Proof.
  unfold enc_opts, enc_opt. apply (depth_list_le (depth_list os)); [|lia].
  intros x _. apply (depth_le (depth x)). lia.
Qed.

Theorem parse_option_enc o : wf_opt o -> parse_option (opt_code o) (enc_val o) = Ok (canon o).
Proof.
  intros W. unfold parse_option. apply dec_opt_enc; [exact W|].
  pose proof (depth_le (depth o) o (le_n _)). lia.
Qed.

Theorem dec_msg_enc m : wf_msg m -> dec_msg (enc_msg m) = Ok (canon_msg m).
Proof.
  destruct m as [t xid os|t hop l p os]; cbn [wf_msg enc_msg canon_msg]; unfold dec_msg, dec_msg_with, dec_opts.
  - intros (Ht & Hr & Hx & Wo). cbn [app]. rewrite rd_u8_cons by exact Ht. cbn [bind]. rewrite Hr.
    rewrite copy_into_exact by exact Hx. rewrite rd_n_app by exact Hx. cbn [bind].
    unfold enc_opts, enc_opt. rewrite nested_opts; [reflexivity | | exact Wo |].
    + intros x Wx Dx. apply dec_opt_enc; assumption.
    + pose proof (depth_list_enc os). unfold enc_opts, enc_opt in *. cbn [length]. rewrite app_length. lia.
  - intros (Hr & Hh & Hl & Hp & Wo). cbn [app]. rewrite rd_u8_cons by (apply is_relay_u8; exact Hr). cbn [bind]. rewrite Hr.
    rewrite rd_u8_cons by exact Hh. cbn [bind].
    rewrite ip16_16 by exact Hl. rewrite rd_n_app by exact Hl. cbn [bind].
    rewrite ip16_16 by exact Hp. rewrite rd_n_app by exact Hp. cbn [bind].
    unfold enc_opts, enc_opt. rewrite nested_opts; [reflexivity | | exact Wo |].
    + intros x Wx Dx. apply dec_opt_enc; assumption.
    + pose proof (depth_list_enc os). unfold enc_opts, enc_opt in *. cbn [length]. rewrite !app_length. lia.
Qed.

(** * what [canon] changes: nothing a reader of fields can see *)
Lemma canon_labels_names l : names (canon_labels l) = names l.
Proof. unfold canon_labels. destruct (original l); reflexivity. Qed.

Lemma canon_labels_bytes l : wf_labels l -> labels_bytes (canon_labels l) = labels_bytes l.
Proof.
  intros W. pose proof (dec_labels_enc l W) as D. unfold dec_labels in D.
  unfold labels_bytes at 1. rewrite (reencode_original _ _ D). reflexivity.
Qed.

Lemma canon_labels_idem l : canon_labels (canon_labels l) = canon_labels l.
Proof. unfold canon_labels. destruct (original l) eqn:E; cbn [original]; [rewrite E|]; reflexivity. Qed.
