(** C16: relay encapsulation / decapsulation, inner message lookup,
    NewRelayReplFromRelayForw and the advertise / request / reply builders
    (dhcpv6/dhcpv6.go:116-183, dhcpv6relay.go:170-236, dhcpv6message.go:419-540). *)
From DV Require Import Base.Bytes Label.Model V4.Model V6.Model.

Definition get_one (code : N) (os : list opt6) : option opt6 :=
  find (fun o => (opt_code o =? code)%N) os.
Definition get_all (code : N) (os : list opt6) : list opt6 :=
  filter (fun o => (opt_code o =? code)%N) os.

Definition opt_of_msg (m : msg6) : opt6 :=
  match m with Msg t x os => ORelayMsgM t x os | Relay t h l p os => ORelayMsgR t h l p os end.

(** RelayOptions.RelayMessage(): the first option 9, if it is a relay-message option *)
Definition relay_inner (os : list opt6) : option msg6 :=
  match get_one 9 os with
  | Some (ORelayMsgM t x o) => Some (Msg t x o)
  | Some (ORelayMsgR t h l p o) => Some (Relay t h l p o)
  | _ => None
  end.

Definition is_relay (m : msg6) : bool := match m with Relay _ _ _ _ _ => true | Msg _ _ _ => false end.
Definition msg_opts (m : msg6) : list opt6 := match m with Msg _ _ os | Relay _ _ _ _ os => os end.
Definition msg_type (m : msg6) : N := match m with Msg t _ _ | Relay t _ _ _ _ => t end.

Definition decapsulate (m : msg6) : res msg6 :=
  match m with
  | Msg _ _ _ => Ok m
  | Relay _ _ _ _ os => match relay_inner os with Some i => Ok i | None => Err end
  end.

Definition encapsulate (m : msg6) (t : N) (l p : bytes) : res msg6 :=
  if is_relay_type t then
    let hop := match m with Relay _ h _ _ _ => ((h + 1) mod 256)%N | Msg _ _ _ => 0%N end in
    Ok (Relay t hop l p [opt_of_msg m])
  else Err.

(** GetInnerMessage: decapsulate until a Message appears *)
Fixpoint inner_message (fuel : nat) (m : msg6) : res msg6 :=
  match fuel with
  | O => Fuel
  | S f =>
    match m with
    | Msg _ _ _ => Ok m
    | Relay _ _ _ _ _ => let* d := decapsulate m in inner_message f d
    end
  end.

(** DecapsulateRelayIndex *)
Fixpoint innermost_relay (fuel : nat) (l : msg6) : res msg6 :=
  match fuel with
  | O => Fuel
  | S f => let* d := decapsulate l in if is_relay d then innermost_relay f d else Ok l
  end.
Fixpoint decap_times (n : nat) (l : msg6) : res msg6 :=
  match n with O => Ok l | S k => let* d := decapsulate l in decap_times k d end.
Definition decapsulate_index (fuel : nat) (l : msg6) (index : Z) : res msg6 :=
  if negb (is_relay l) then Ok l
  else if (index <? -1)%Z then Err
  else if (index =? -1)%Z then innermost_relay fuel l
  else decap_times (S (Z.to_nat index)) l.

(** NewRelayReplFromRelayForw: collect (link, peer, interface-id, remote-id) per
    level outward-in, then rebuild inward-out around the reply. *)
Record level := mkLevel { lv_link : bytes; lv_peer : bytes; lv_iid : option opt6; lv_rid : option opt6 }.

Fixpoint collect_levels (fuel : nat) (relay : msg6) : res (list level) :=
  match fuel with
  | O => Fuel
  | S f =>
    match relay with
    | Relay _ _ l p os =>
      let lv := mkLevel l p (get_one 18 os) (get_one 37 os) in
      let* d := decapsulate relay in
      if is_relay d then let* rest := collect_levels f d in Ok (lv :: rest) else Ok [lv]
    | Msg _ _ _ => Err     (* not reachable: the loop only continues on relay messages *)
    end
  end.

Definition add_opt (m : msg6) (o : opt6) : msg6 :=
  match m with Msg t x os => Msg t x (os ++ [o]) | Relay t h l p os => Relay t h l p (os ++ [o]) end.
Definition add_opt_if (m : msg6) (o : option opt6) : msg6 := match o with Some x => add_opt m x | None => m end.

(** rebuild: [lvs] is outermost first; the loop runs from the last (innermost) level outwards *)
Fixpoint rebuild (lvs_rev : list level) (m : msg6) : res msg6 :=
  match lvs_rev with
  | [] => Ok m
  | lv :: r =>
    let* e := encapsulate m 13 (lv_link lv) (lv_peer lv) in
    rebuild r (add_opt_if (add_opt_if e (lv_iid lv)) (lv_rid lv))
  end.

Definition relay_repl_from_forw (fuel : nat) (relay msg : msg6) : res msg6 :=
  match relay with
  | Relay t _ _ _ _ =>
    if (t =? 12)%N then
      let* lvs := collect_levels fuel relay in rebuild (rev lvs) msg
    else Err
  | Msg _ _ _ => Err
  end.

(** * message builders *)
Definition update_one (os : list opt6) (o : opt6) : list opt6 :=
  (fix go (l : list opt6) : list opt6 :=
     match l with
     | [] => [o]
     | x :: r => if (opt_code x =? opt_code o)%N then o :: r else x :: go r
     end) os.

Definition new_advertise_from_solicit (sol : msg6) : res msg6 :=
  match sol with
  | Msg t xid os =>
    if (t =? 1)%N then
      match get_one 1 os with Some cid => Ok (Msg 2 xid [cid]) | None => Err end
    else Err
  | _ => Err
  end.

Definition oro_default : opt6 := OORO [23; 24]%N.

(** the new REQUEST draws a fresh transaction id, passed in as [xid] *)
Definition new_request_from_advertise (xid : bytes) (adv : msg6) : res msg6 :=
  match adv with
  | Msg t _ os =>
    if (t =? 2)%N then
      match get_one 1 os with
      | None => Err
      | Some cid =>
        match get_one 2 os with
        | None => Err
        | Some sid =>
          match get_one 3 os with
          | None => Err
          | Some iana =>
            let base := [cid; sid; OElapsed 0; iana] in
            let with_pd := match get_one 25 os with Some pd => base ++ [pd] | None => base end in
            let with_oro := with_pd ++ [oro_default] in
            Ok (Msg 3 xid (match get_one 16 os with Some vc => with_oro ++ [vc] | None => with_oro end))
          end
        end
      end
    else Err
  | _ => Err
  end.

Definition reply_source_type (t : N) : bool :=
  existsb (N.eqb t) [3; 4; 5; 6; 8; 11]%N.

Definition new_reply_from_message (msg : msg6) : res msg6 :=
  match msg with
  | Msg t xid os =>
    let rapid := (t =? 1)%N in
    if rapid && match get_one 14 os with None => true | Some _ => false end then Err
    else if negb rapid && negb (reply_source_type t) then Err
    else match get_one 1 os with
         | None => Err
         | Some cid => Ok (Msg 7 xid (if rapid then update_one [cid] (OGeneric 14 []) else [cid]))
         end
  | _ => Err
  end.
