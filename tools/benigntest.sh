#!/bin/bash
# benigntest.sh <patch.diff> [Cxx ...]: apply a behaviour-preserving patch to /repo, run the quick checks
# (all 20 by default), undo the patch.  Prints one line per check that did not say OK.  Exit 1 on any alarm.
cd "$(dirname "$0")/.."
p=$(realpath "$1"); shift
props=${@:-$(seq -f "C%02g" 1 20)}
git -C /repo status --short | grep -q . && { echo "repo not clean"; exit 2; }
git -C /repo apply "$p" || { echo "patch does not apply"; exit 2; }
alarm=0
for c in $props; do
  out=$(./check $c 2>&1 | tail -1)
  case "$out" in OK*) ;; *) echo "ALARM $c: $out"; alarm=1;; esac
done
git -C /repo checkout -- . ; git -C /repo clean -fdq
[ $alarm = 0 ] && echo "no alarm: $p"
exit $alarm
