(** C10 — A client call only ever returns a response to its own transaction. *)
From Coq Require Import List Arith Lia Bool Sorted.
Import ListNotations.
From DV Require Import Client.Routing Client.Macro Client.Delivery Client.Reuse.

(** The receive loop / send / cancel of nclient4 and nclient6 as atomic steps;
    [run_events true l] is the state after ANY interleaving [l] of any number
    of callers with any datagram stream (no bound on callers or datagrams). *)

(** a call only ever receives datagrams that carry its own transaction id and
    were routed after it registered, i.e. while it was waiting *)
Theorem C10_own_transaction : forall l i en m, nth_error (ents (run_events true l)) i = Some en ->
  In m (e_got en) -> m_xid m = e_xid en /\ e_reg en <= m_at m.
Proof. exact received_own. Qed.
Print Assumptions C10_own_transaction.

(** what it receives (and what is still buffered for it) is in strict arrival
    order: the matcher sees candidates first-come first-served *)
Theorem C10_arrival_order : forall fixed l i en, nth_error (ents (run_events fixed l)) i = Some en ->
  StronglySorted lt (map m_at (e_got en ++ e_buf en)).
Proof. exact received_in_arrival_order. Qed.
Print Assumptions C10_arrival_order.

(** a datagram is delivered to the entry registered under its id and changes no other entry *)
Theorem C10_routed_to_owner : forall fixed s x payload prefer i k, plookup x (pend s) = Some i -> k <> i ->
  nth_error (ents (step fixed s (Arrive true x payload prefer))) k = nth_error (ents s) k.
Proof. exact routed_to_owner. Qed.
Print Assumptions C10_routed_to_owner.

(** malformed / foreign (filtered) and unsolicited datagrams are dropped without disturbing any call *)
Theorem C10_filtered_dropped : forall fixed s x payload prefer,
  ents (step fixed s (Arrive false x payload prefer)) = ents s /\ pend (step fixed s (Arrive false x payload prefer)) = pend s.
Proof. exact filtered_dropped. Qed.
Print Assumptions C10_filtered_dropped.
Theorem C10_unsolicited_dropped : forall fixed s passes x payload prefer, plookup x (pend s) = None ->
  ents (step fixed s (Arrive passes x payload prefer)) = ents s /\ pend (step fixed s (Arrive passes x payload prefer)) = pend s.
Proof. exact unsolicited_dropped. Qed.
Print Assumptions C10_unsolicited_dropped.

(** a concurrent call that reuses a pending transaction id is refused rather than sharing responses *)
Theorem C10_reuse_refused : forall fixed s x j, plookup x (pend s) = Some j ->
  ents (step fixed s (Register x)) = ents s /\ pend (step fixed s (Register x)) = pend s.
Proof. exact register_refused. Qed.
Print Assumptions C10_reuse_refused.

(** a response channel is closed only for a call that is itself cancelling:
    no waiting call can ever read nil from a closed channel *)
Theorem C10_closed_only_when_done : forall l i en, nth_error (ents (run_events true l)) i = Some en ->
  e_closed en = true -> e_done en = true.
Proof. exact closed_only_when_done. Qed.
Print Assumptions C10_closed_only_when_done.

(** No solicited response is lost.  The hand-over between the receive loop and one pending call with the
    channel's capacity (5) and the blocking send made explicit ([Client/Delivery.v]: DRead = the loop reads a
    datagram for the call, DRecv = the call takes one from its channel, DDone = the call gives up): after ANY
    sequence of these events, while the call has not given up, the datagrams read for it are exactly - in arrival
    order - those it has received, then those queued, then the one held by the loop blocked on the full channel.
    Nothing is dropped, duplicated or reordered, whatever the state of the buffer. *)
Theorem C10_no_solicited_loss : forall l, let c := drun l in
  d_done c = false -> d_arr c = d_got c ++ d_buf c ++ held_list c.
Proof. exact no_solicited_loss. Qed.
Print Assumptions C10_no_solicited_loss.

(** what a call has received is always an initial segment, in arrival order, of what was read for it *)
Theorem C10_received_prefix_of_arrivals : forall l, exists rest, d_arr (drun l) = d_got (drun l) ++ rest.
Proof. exact received_prefix_of_arrivals. Qed.
Print Assumptions C10_received_prefix_of_arrivals.

(** non-vacuity: matcher held on the first of seven datagrams (one received, five queued, one held by the
    blocked loop), first acceptable at position 6: the matcher sees all seven in order *)
Example C10_example_full_buffer : matcher_sees [10; 11; 12; 13; 14; 15; 16] 6 = [10; 11; 12; 13; 14; 15; 16].
Proof. vm_compute. reflexivity. Qed.

(** The same id over time ([Client/Reuse.v]: successive calls register under one id; the loop holds the registry
    lock while it is parked on a full buffer; an entry is removed by the loop when it finds the call gone, or by
    the call's own cancel).  After ANY sequence of registrations, loop reads, receives, give-ups and cancels:
    an entry is only ever removed for a call that is over; a registered call that is still waiting has lost
    nothing; the loop is never parked except for the registered, still waiting call; a new call starts empty. *)
Theorem C10_entry_removed_only_when_over : forall l, Forall (fun gb => snd gb = true) (r_removed (rrun l)).
Proof. exact removed_only_when_over. Qed.
Print Assumptions C10_entry_removed_only_when_over.

Theorem C10_registered_call_loses_nothing : forall l, let s := rrun l in
  r_pending s <> None -> d_done (r_ch s) = false ->
  d_arr (r_ch s) = d_got (r_ch s) ++ d_buf (r_ch s) ++ held_list (r_ch s).
Proof. exact registered_call_loses_nothing. Qed.
Print Assumptions C10_registered_call_loses_nothing.

Theorem C10_parked_only_for_the_registered_call : forall l m, let s := rrun l in
  r_pending s <> None -> d_held (r_ch s) = Some m -> d_done (r_ch s) = false /\ length (d_buf (r_ch s)) = dcap.
Proof. exact parked_for_the_registered_call. Qed.
Print Assumptions C10_parked_only_for_the_registered_call.

Theorem C10_registration_fresh_or_refused : forall s,
  (r_pending s = None -> let s' := rstep s RReg in r_pending s' = Some (r_gen s) /\ r_ch s' = dinit /\ r_gen s' = S (r_gen s)) /\
  (forall g, r_pending s = Some g -> let s' := rstep s RReg in r_pending s' = Some g /\ r_ch s' = r_ch s /\ r_refused s' = S (r_refused s)).
Proof. intros s. split; [exact (registration_is_fresh s) | exact (registration_refused_while_registered s)]. Qed.
Print Assumptions C10_registration_fresh_or_refused.

(** non-vacuity, and the scenario run on both clients: the first call's matcher is held on the first of seven
    datagrams, it accepts that one and returns while five are queued and one is parked; the second call takes the
    id at once and receives its own answer, nothing of the first call's *)
Example C10_example_reuse : reuse_scenario [10; 11; 12; 13; 14; 15; 16] 99 = ([10], [99], Some 1).
Proof. vm_compute. reflexivity. Qed.

(** the invariant behind these statements holds in every reachable state *)
Theorem C10_invariant : forall l, Inv (run_events true l).
Proof. exact reachable_inv. Qed.
Print Assumptions C10_invariant.

(** the macro-step driver compared with the real clients is a refinement of the micro-step machine *)
Theorem C10_macro_is_micro : forall es cs, micro (macro_run cs es) = run_events true (trace (macro_run cs es)).
Proof. exact macro_is_micro. Qed.
Print Assumptions C10_macro_is_micro.

(** the pinned tree (cancel removes whatever is pending under the id) violated it: the schedule
    Register 7; CancelDone 0; Arrive 7 (reap); Register 7; CancelDel 0 closes the NEW call's channel *)
Theorem C10_refuted_on_pinned_code :
  exists en, nth_error (ents (run_events false f8_schedule)) 1 = Some en /\ e_closed en = true /\ e_done en = false.
Proof. exact pinned_cancel_refuted. Qed.
Print Assumptions C10_refuted_on_pinned_code.
