From DV Require Import Base.Bytes V4.Model V4.Fixpoint Raw.Model Raw.Proofs Raw.Spec.

(** the bound-address rule of the raw reader, declaratively: no bound address accepts everything; a bound port must
    equal the destination port; a bound IP address, when one is set - the unspecified address 0.0.0.0 and the limited
    broadcast address included, they are addresses like any other - must equal the destination address *)
Definition bound_accepts (bound : option udpaddr) (dst_ip : bytes) (dst_port : N) : Prop :=
  match bound with
  | None => True
  | Some b => a_port b = dst_port /\
              match a_ip b with None => True | Some bip => ip_equal bip dst_ip = true end
  end.

Lemma udp_match_spec bound dst_ip dst_port : udp_match dst_ip dst_port bound = true <-> bound_accepts bound dst_ip dst_port.
Proof.
  unfold udp_match, bound_accepts. destruct bound as [b|]; [|tauto].
  destruct (a_ip b) as [bip|].
  - destruct (ip_equal bip dst_ip); rewrite ?N.eqb_eq; split; try tauto; try discriminate.
  - rewrite N.eqb_eq. tauto.
Qed.

(** for 4-octet addresses [ip_equal] is octet-wise equality: 0.0.0.0 matches only 0.0.0.0 *)
Lemma ip_equal_v4 a b : length a = 4 -> length b = 4 -> (ip_equal a b = true <-> a = b).
Proof.
  intros La Lb. unfold ip_equal. rewrite (to4_len4 a La), (to4_len4 b Lb). apply bytes_eqb_eq.
Qed.
