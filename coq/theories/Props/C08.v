(** C08 — Decoded messages own their memory; encoded output is a fresh buffer. *)
From DV Require Import Base.Bytes Alias.Model Alias.Tie Alias.History Gen.Alias.
From Coq Require Import String.

(** The memory contract of the decoders ("Consume, but do not Copy. Each
    parser will make a copy of pertinent data"), in a provenance semantics of
    the Lexer primitives: a value built only from copying primitives denotes
    the same thing under EVERY later content of the source buffer (not five
    overwrite patterns). *)
Theorem C08_owned_independent : forall v, owns v -> forall buf buf', presolve buf v = presolve buf' v.
Proof. exact owned_value_independent. Qed.
Print Assumptions C08_owned_independent.

Theorem C08_copying_primitives : forall p buf off len, prim_copies p = true -> owns (PLeaf (prim_leaf p buf off len)).
Proof. exact copying_prim_owns. Qed.
Print Assumptions C08_copying_primitives.

(** On this run's source tree no decoder stores a view of its input except the
    DHCPv6 vendor sub-option parser, which is only ever given a private copy
    (extracted from the Go AST by tools/gen). *)
Theorem C08_no_retention_sites : retention_sites = expected_retention_sites.
Proof. exact retention_sites_match. Qed.
Print Assumptions C08_no_retention_sites.

(** Over histories: after EVERY overwrite of a sequence of in-place overwrites of the source
    buffer (any offsets, lengths and contents) the value observed is the one decoded. *)
Theorem C08_owned_over_histories : forall v, owns v -> forall ws buf,
  Forall (fun o => o = presolve buf v) (observe v buf ws).
Proof. exact owned_history. Qed.
Print Assumptions C08_owned_over_histories.

(** The converse: a value that keeps a view of at least one octet of the buffer IS changed by an
    overwrite - so the absence of retention sites is what the property needs, not merely enough. *)
Theorem C08_view_is_observable : forall v buf off len,
  In (View off len) (leaves v) -> slice buf off len <> [] ->
  exists w, List.length (overwrite buf w) = List.length buf /\ presolve (overwrite buf w) v <> presolve buf v.
Proof. exact view_is_observable. Qed.
Print Assumptions C08_view_is_observable.

Theorem C08_independent_iff_no_octet_shared : forall v buf,
  (forall buf', List.length buf' = List.length buf -> presolve buf' v = presolve buf v)
  <-> Forall (harmless buf) (leaves v).
Proof. exact independent_iff_harmless. Qed.
Print Assumptions C08_independent_iff_no_octet_shared.

(** In the pure model encodings are fresh lists by construction; that the
    real ToBytes results do not share memory with the message or with earlier
    results is established by the overwrite harness (C08_partial: the output
    half rests on the correspondence run). *)
Example C08_example_view_depends :
  presolve [x01; x02; x03] (PLeaf (View 1 2)) <> presolve [x01; xff; xff] (PLeaf (View 1 2)).
Proof. exact view_depends. Qed.
