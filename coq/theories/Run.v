(** Dispatcher used by the correspondence check: every modelled entry point
    of the library as a function from a list of byte strings to a result
    class and a list of byte strings (the projected observables).  The Go
    harness implements the same table on top of the real code. *)
From DV Require Import Base.Bytes Label.Model.

Definition nil_marker (o : option bytes) : bytes := match o with None => [x00] | Some _ => [x01] end.
Definition obytes (o : option bytes) : bytes := match o with None => [] | Some b => b end.

(** entry 1: rfc1035label.FromBytes(b) -> Labels *)
Definition e_label_from (args : list bytes) : res (list bytes) :=
  match args with
  | [b] => labels_from_bytes b
  | _ => Err
  end.

(** entry 2: labelsToBytes via (&Labels{Labels: ns}).ToBytes() *)
Definition e_label_to (args : list bytes) : res (list bytes) :=
  Ok [obytes (labels_to (mkLabels None args))].

(** entry 3: FromBytes(b) then ToBytes *)
Definition e_label_reenc (args : list bytes) : res (list bytes) :=
  match args with
  | [b] => let* l := labels_from (Some b) in Ok [obytes (labels_to l)]
  | _ => Err
  end.

(** entry 4: FromBytes(b), then replace .Labels by the remaining args, ToBytes *)
Definition e_label_edit (args : list bytes) : res (list bytes) :=
  match args with
  | b :: ns => let* l := labels_from (Some b) in
               Ok [obytes (labels_to (mkLabels (original l) ns))]
  | _ => Err
  end.

Definition run (entry : N) (args : list bytes) : res (list bytes) :=
  match entry with
  | 1 => e_label_from args
  | 2 => e_label_to args
  | 3 => e_label_reenc args
  | 4 => e_label_edit args
  | _ => Err
  end%N.
