module verif/harness

go 1.26

require github.com/insomniacslk/dhcp v0.0.0

replace github.com/insomniacslk/dhcp => /repo
