package main

import (
	"github.com/insomniacslk/dhcp/rfc1035label"
	"bytes"
	"fmt"
	"net"
	"time"

	"github.com/insomniacslk/dhcp/dhcpv4"
	"github.com/insomniacslk/dhcp/iana"
)

const eV4Accessor = 30

// accessor table: model id, option code, name, observable
type accessor struct {
	id   byte
	code uint8
	name string
	obs  func(p *dhcpv4.DHCPv4) [][]byte
}

var someFlag, noneFlag = []byte{1}, []byte{0}

func obsIP(ip net.IP) [][]byte {
	if ip == nil {
		return [][]byte{noneFlag}
	}
	return [][]byte{someFlag, ip}
}
func obsIPs(ips []net.IP) [][]byte {
	if ips == nil {
		return [][]byte{noneFlag}
	}
	out := [][]byte{someFlag}
	for _, ip := range ips {
		out = append(out, ip)
	}
	return out
}

const defDur = time.Duration(-1)

func obsDur(d time.Duration) [][]byte {
	if d == defDur {
		return [][]byte{noneFlag}
	}
	return [][]byte{someFlag, be32b(uint32(d / time.Second))}
}

var accessors = []accessor{
	{1, 54, "ServerIdentifier", func(p *dhcpv4.DHCPv4) [][]byte { return obsIP(p.ServerIdentifier()) }},
	{1, 28, "BroadcastAddress", func(p *dhcpv4.DHCPv4) [][]byte { return obsIP(p.BroadcastAddress()) }},
	{1, 50, "RequestedIPAddress", func(p *dhcpv4.DHCPv4) [][]byte { return obsIP(p.RequestedIPAddress()) }},
	{2, 3, "Router", func(p *dhcpv4.DHCPv4) [][]byte { return obsIPs(p.Router()) }},
	{2, 42, "NTPServers", func(p *dhcpv4.DHCPv4) [][]byte { return obsIPs(p.NTPServers()) }},
	{2, 44, "NetBIOSNameServers", func(p *dhcpv4.DHCPv4) [][]byte { return obsIPs(p.NetBIOSNameServers()) }},
	{2, 6, "DNS", func(p *dhcpv4.DHCPv4) [][]byte { return obsIPs(p.DNS()) }},
	{3, 15, "DomainName", func(p *dhcpv4.DHCPv4) [][]byte { return [][]byte{[]byte(p.DomainName())} }},
	{3, 17, "RootPath", func(p *dhcpv4.DHCPv4) [][]byte { return [][]byte{[]byte(p.RootPath())} }},
	{3, 60, "ClassIdentifier", func(p *dhcpv4.DHCPv4) [][]byte { return [][]byte{[]byte(p.ClassIdentifier())} }},
	{3, 56, "Message", func(p *dhcpv4.DHCPv4) [][]byte { return [][]byte{[]byte(p.Message())} }},
	{4, 12, "HostName", func(p *dhcpv4.DHCPv4) [][]byte { return [][]byte{[]byte(p.HostName())} }},
	{4, 67, "BootFileNameOption", func(p *dhcpv4.DHCPv4) [][]byte { return [][]byte{[]byte(p.BootFileNameOption())} }},
	{4, 66, "TFTPServerName", func(p *dhcpv4.DHCPv4) [][]byte { return [][]byte{[]byte(p.TFTPServerName())} }},
	{5, 51, "IPAddressLeaseTime", func(p *dhcpv4.DHCPv4) [][]byte { return obsDur(p.IPAddressLeaseTime(defDur)) }},
	{5, 58, "IPAddressRenewalTime", func(p *dhcpv4.DHCPv4) [][]byte { return obsDur(p.IPAddressRenewalTime(defDur)) }},
	{5, 59, "IPAddressRebindingTime", func(p *dhcpv4.DHCPv4) [][]byte { return obsDur(p.IPAddressRebindingTime(defDur)) }},
	{6, 108, "IPv6OnlyPreferred", func(p *dhcpv4.DHCPv4) [][]byte {
		d, ok := p.IPv6OnlyPreferred()
		if !ok {
			return [][]byte{noneFlag}
		}
		return [][]byte{someFlag, be32b(uint32(d / time.Second))}
	}},
	{7, 57, "MaxMessageSize", func(p *dhcpv4.DHCPv4) [][]byte {
		v, err := p.MaxMessageSize()
		if err != nil {
			return [][]byte{noneFlag}
		}
		return [][]byte{someFlag, be16b(v)}
	}},
	{8, 116, "AutoConfigure", func(p *dhcpv4.DHCPv4) [][]byte {
		v, ok := p.AutoConfigure()
		if !ok {
			return [][]byte{noneFlag}
		}
		return [][]byte{someFlag, {byte(v)}}
	}},
	{9, 53, "MessageType", func(p *dhcpv4.DHCPv4) [][]byte { return [][]byte{{byte(p.MessageType())}} }},
	{10, 55, "ParameterRequestList", func(p *dhcpv4.DHCPv4) [][]byte {
		l := p.ParameterRequestList()
		if l == nil {
			return [][]byte{noneFlag}
		}
		var b []byte
		for _, c := range l {
			b = append(b, c.Code())
		}
		return [][]byte{someFlag, b}
	}},
	{11, 82, "RelayAgentInfo", func(p *dhcpv4.DHCPv4) [][]byte {
		r := p.RelayAgentInfo()
		if r == nil {
			return [][]byte{noneFlag}
		}
		return append([][]byte{someFlag}, obsOpts(r.Options)...)
	}},
	{12, 1, "SubnetMask", func(p *dhcpv4.DHCPv4) [][]byte {
		m := p.SubnetMask()
		if m == nil {
			return [][]byte{noneFlag}
		}
		return [][]byte{someFlag, m}
	}},
	{13, 77, "UserClass", func(p *dhcpv4.DHCPv4) [][]byte {
		l := p.UserClass()
		if l == nil {
			return [][]byte{noneFlag}
		}
		out := [][]byte{someFlag}
		for _, s := range l {
			out = append(out, []byte(s))
		}
		return out
	}},
	{14, 124, "VIVC", func(p *dhcpv4.DHCPv4) [][]byte {
		l := p.VIVC()
		if l == nil {
			return [][]byte{noneFlag}
		}
		out := [][]byte{someFlag}
		for _, id := range l {
			out = append(out, be32b(uint32(id.EntID)), id.Data)
		}
		return out
	}},
	{15, 93, "ClientArch", func(p *dhcpv4.DHCPv4) [][]byte {
		l := p.ClientArch()
		if l == nil {
			return [][]byte{noneFlag}
		}
		var b []byte
		for _, a := range l {
			b = append(b, be16b(uint16(a))...)
		}
		return [][]byte{someFlag, b}
	}},
	{16, 119, "DomainSearch", func(p *dhcpv4.DHCPv4) [][]byte {
		l := p.DomainSearch()
		if l == nil {
			return [][]byte{noneFlag}
		}
		return append([][]byte{someFlag}, namesOut(l.Labels)...)
	}},
	{17, 121, "ClasslessStaticRoute", func(p *dhcpv4.DHCPv4) [][]byte {
		l := p.ClasslessStaticRoute()
		if l == nil {
			return [][]byte{noneFlag}
		}
		out := [][]byte{someFlag}
		for _, r := range l {
			ones, _ := r.Dest.Mask.Size()
			out = append(out, []byte{byte(ones)}, r.Dest.IP, r.Router)
		}
		return out
	}},
}

// the harness addresses an accessor by index in the table: args = [model id, flag, value, table index]
func init() {
	register(eV4Accessor, "dhcpv4 accessor", nil)
	entries[eV4Accessor] = func(a [][]byte) ([][]byte, error) {
		return nil, fmt.Errorf("use accessor cases through runAccessor")
	}
	props["C17"] = genC17
}

func pktWith(code uint8, present bool, v []byte) *dhcpv4.DHCPv4 {
	p := &dhcpv4.DHCPv4{Options: dhcpv4.Options{}}
	if present {
		if len(v) == 0 {
			p.Options[code] = nil // a zero-length option decoded from the wire has a nil value
		} else {
			p.Options[code] = append([]byte{}, v...)
		}
	}
	return p
}

// structured values per accessor kind
func (r *Run) valueFor(id byte, n int) []byte {
	b := r.Bytes(n)
	switch id {
	case 13: // user class: len-prefixed strings
		var out []byte
		for len(out) < n {
			k := 1 + r.Rng.Intn(5)
			out = append(append(out, byte(k)), r.Bytes(k)...)
		}
		if r.Rng.Intn(2) == 0 && len(out) > n {
			out = out[:n]
		}
		return out
	case 14:
		var out []byte
		for len(out) < n {
			k := r.Rng.Intn(6)
			out = append(append(append(out, r.Bytes(4)...), byte(k)), r.Bytes(k)...)
		}
		if r.Rng.Intn(2) == 0 && len(out) > n {
			out = out[:n]
		}
		return out
	case 17:
		var out []byte
		for len(out) < n {
			w := r.Pick(0, 1, 8, 9, 16, 24, 25, 32, 32, 33)
			out = append(append(append(out, byte(w)), r.Bytes((w+7)/8)...), r.Bytes(4)...)
		}
		if r.Rng.Intn(2) == 0 && len(out) > n {
			out = out[:n]
		}
		return out
	case 11:
		var out []byte
		for len(out) < n {
			k := r.Rng.Intn(5)
			out = append(append(out, byte(r.Pick(1, 2, 5, 0, 255, 9)), byte(k)), r.Bytes(k)...)
		}
		if len(out) > n {
			out = out[:n]
		}
		return out
	case 16:
		var out []byte
		for len(out) < n {
			k := 1 + r.Rng.Intn(4)
			out = append(append(out, byte(k)), r.noNul(k)...)
			if r.Rng.Intn(2) == 0 {
				out = append(out, 0)
			}
		}
		if len(out) > n {
			out = out[:n]
		}
		return out
	case 4:
		for i := n - 1; i >= 0 && i > n-3; i-- {
			if r.Rng.Intn(2) == 0 {
				b[i] = 0
			}
		}
	}
	return b
}

// reference interpretations written from the RFCs for the direct oracle (fixed-size types)
func refAccessor(id byte, present bool, v []byte) ([][]byte, bool) {
	nilv := !present || len(v) == 0
	switch id {
	case 1, 12:
		if nilv || len(v) != 4 {
			return [][]byte{noneFlag}, true
		}
		return [][]byte{someFlag, v}, true
	case 2:
		if nilv || len(v)%4 != 0 {
			return [][]byte{noneFlag}, true
		}
		out := [][]byte{someFlag}
		for i := 0; i < len(v); i += 4 {
			out = append(out, v[i:i+4])
		}
		return out, true
	case 3:
		if nilv {
			return [][]byte{{}}, true
		}
		return [][]byte{v}, true
	case 5, 6:
		if nilv || len(v) != 4 {
			return [][]byte{noneFlag}, true
		}
		return [][]byte{someFlag, v}, true
	case 7:
		if nilv || len(v) != 2 {
			return [][]byte{noneFlag}, true
		}
		return [][]byte{someFlag, v}, true
	case 8:
		if nilv || len(v) != 1 {
			return [][]byte{noneFlag}, true
		}
		return [][]byte{someFlag, v}, true
	case 9:
		if nilv || len(v) != 1 {
			return [][]byte{{0}}, true
		}
		return [][]byte{v}, true
	case 10:
		if nilv {
			return [][]byte{noneFlag}, true
		}
		return [][]byte{someFlag, v}, true
	case 15:
		if nilv || len(v)%2 != 0 {
			return [][]byte{noneFlag}, true
		}
		return [][]byte{someFlag, v}, true
	}
	return nil, false
}

func genC17(r *Run) {
	evals := 0
	for ai, a := range accessors {
		run := func(present bool, v []byte) {
			p := pktWith(a.code, present, v)
			var got [][]byte
			func() {
				defer func() {
					if x := recover(); x != nil {
						got = [][]byte{[]byte("PANIC")}
						r.Fail("accessor-panics", fmt.Sprintf("%s %x", a.name, v), fmt.Sprint(x))
					}
				}()
				got = a.obs(p)
			}()
			evals++
			flag := noneFlag
			if present {
				flag = someFlag
			}
			// the case carries the Go result as a 4th argument so that the same line can be compared:
			// the model ignores nothing; RunGo for entry 30 is overridden below.
			c := Case{eV4Accessor, [][]byte{{a.id}, flag, v, {a.code}}}
			goRes[c.Line()] = got
			r.Add(eV4Accessor, []byte{a.id}, flag, v, []byte{a.code})
			// two accessors sharing a model id must agree with each other on the same raw value
			if want, ok := refAccessor(a.id, present, v); ok {
				if dumpLine(want) != dumpLine(normEmpty(got)) {
					r.Fail("accessor-"+a.name, fmt.Sprintf("%s present=%v value=%x", a.name, present, v), fmt.Sprintf("got %s want %s", dumpLine(got), dumpLine(want)))
				}
			}
			_ = ai
		}
		run(false, nil)
		run(true, nil)
		if a.id == 16 {
			// a last name of 4..6 labels of 50..63 octets (200 .. 380 octets): with its terminator, without it (the value
			// simply ends), alone and behind a valid name, and reached through a pointer at the end of the value
			for _, k := range []int{4, 5, 6} {
				for _, ll := range []int{50, 62, 63} {
					var long []byte
					for j := 0; j < k; j++ {
						long = append(append(long, byte(ll)), bytes.Repeat([]byte{byte('a' + j)}, ll)...)
					}
					for _, pre := range [][]byte{nil, {2, 'o', 'k', 0}} {
						run(true, append(append([]byte{}, pre...), long...))
						run(true, append(append(append([]byte{}, pre...), long...), 0))
						run(true, append(append(append(append([]byte{}, pre...), long...), 0), 1, 'z', 0xc0, byte(len(pre))))
						run(true, append(append(append([]byte{}, pre...), long...), 1, 'z'))
					}
				}
			}
			// search lists the way servers send them: one full name, then many short names that end in a
			// compression pointer to it (or to one of its later labels), up to the size of one option and beyond
			for _, baseLabels := range []int{1, 2, 4, 6} {
				for _, k := range []int{1, 2, 5, 8, 9, 10, 12, 20, 30, 60} {
					var v []byte
					var starts []int
					for j := 0; j < baseLabels; j++ {
						starts = append(starts, len(v))
						l := r.Pick(3, 7, 11)
						v = append(append(v, byte(l)), []byte("engineeringcorp")[:l]...)
					}
					v = append(v, 0)
					for j := 0; j < k; j++ {
						nm := fmt.Sprintf("site%02d", j)
						t := starts[0]
						if j%4 == 3 {
							t = starts[r.Rng.Intn(len(starts))]
						}
						v = append(append(append(v, byte(len(nm))), nm...), 0xc0|byte(t>>8), byte(t))
					}
					run(true, v)
				}
			}
		}
		if a.id == 17 {
			// route lists ending in every way a list can end: 0..3 complete routes, then nothing, one more octet
			// (a mask width: valid ones start a truncated route, 33..255 are no width at all), or a width and part
			// of what must follow it
			for k := 0; k <= 3; k++ {
				var good []byte
				for j := 0; j < k; j++ {
					w := r.Pick(0, 1, 8, 9, 16, 24, 25, 32)
					good = append(append(append(good, byte(w)), r.Bytes((w+7)/8)...), r.Bytes(4)...)
				}
				run(true, good)
				for _, last := range []int{0, 1, 8, 24, 32, 33, 34, 64, 128, 255} {
					run(true, append(append([]byte{}, good...), byte(last)))
					run(true, append(append([]byte{}, good...), byte(last), 10))
					run(true, append(append([]byte{}, good...), byte(last), 10, 2, 3, 4))
				}
			}
		}
		// values longer than one instance can carry (they travel split and arrive joined): every length around 255/256
		// and 510/512, where a count kept in one octet wraps
		for _, n := range []int{248, 250, 251, 252, 253, 254, 255, 256, 257, 258, 259, 260, 261, 262, 263, 264, 265, 266, 267, 268, 270, 272, 280, 300, 315, 320, 508, 510, 511, 512, 513, 515, 516, 520} {
			v := r.valueFor(a.id, n)
			run(true, v)
			if len(v) > n {
				run(true, v[:n])
			}
		}
		if a.id == 17 {
			// well-formed route lists of 28..64 routes of one width each: total lengths 140 .. 576, every remaining
			// length around 256 occurs at some route boundary
			for _, w := range []int{0, 8, 12, 16, 24, 25, 32} {
				for k := 28; k <= 64; k++ {
					var v []byte
					for j := 0; j < k; j++ {
						v = append(append(append(v, byte(w)), r.Bytes((w+7)/8)...), r.Bytes(4)...)
					}
					run(true, v)
				}
			}
		}
		fills := r.N(4, 40)
		for n := 0; n <= 64; n++ {
			if n >= 6 {
				// the same octets in a longer, right-aligned form (for 16 octets: the IPv4-mapped IPv6 form
				// 0..0 ff ff a.b.c.d), which a conversion helper may silently unwrap
				v := make([]byte, n)
				copy(v[n-4:], r.Bytes(4))
				v[n-6], v[n-5] = 0xff, 0xff
				run(true, v)
			}
			if n >= 4 {
				v := make([]byte, n) // left-aligned: a valid 4-octet value followed by zeros
				copy(v, r.Bytes(4))
				run(true, v)
			}
			for k := 0; k < fills; k++ {
				var v []byte
				switch k % 4 {
				case 0:
					v = r.valueFor(a.id, n)
					if len(v) > n && (a.id == 13 || a.id == 14 || a.id == 17) && k%8 == 0 {
						v = v[:n]
					}
				case 1:
					v = bytes.Repeat([]byte{0}, n)
				case 2:
					v = bytes.Repeat([]byte{0xff}, n)
				default:
					v = r.Bytes(n)
				}
				run(true, v)
			}
		}
	}
	// set/get through the typed constructors
	for i := 0; i < r.N(300, 20000); i++ {
		ip := net.IP(r.Bytes(4))
		p, _ := dhcpv4.New(dhcpv4.WithOption(dhcpv4.OptServerIdentifier(ip)))
		if !p.ServerIdentifier().Equal(ip) {
			r.Fail("set-get-server-id", ip.String(), "")
		}
		d := time.Duration(r.Rng.Uint32()) * time.Second
		p.UpdateOption(dhcpv4.OptIPAddressLeaseTime(d))
		if p.IPAddressLeaseTime(defDur) != d {
			r.Fail("set-get-lease-time", d.String(), "")
		}
		// durations are not whole seconds in a program (expiry.Sub(now)): what is carried is the whole seconds, for
		// every size of the seconds part (2^24 s is where a float64 of seconds stops holding nanoseconds) and every
		// fraction up to one nanosecond short of the next second
		{
			secs := []uint32{r.Rng.Uint32(), 1 << 24, 1<<24 + 1, 31536000, 1 << 31, 0xfffffffe, 0xffffffff, uint32(r.Rng.Intn(1 << 25)), 0, 1}[i%10]
			frac := []time.Duration{999999999, 1, 500 * time.Millisecond, 999999744, 0, 999999999}[i%6]
			dd := time.Duration(secs)*time.Second + frac
			want := time.Duration(secs) * time.Second
			p.UpdateOption(dhcpv4.OptIPAddressLeaseTime(dd))
			p.UpdateOption(dhcpv4.OptRenewTimeValue(dd))
			p.UpdateOption(dhcpv4.OptRebindingTimeValue(dd))
			if a, b, c := p.IPAddressLeaseTime(defDur), p.IPAddressRenewalTime(defDur), p.IPAddressRebindingTime(defDur); a != want || b != want || c != want {
				r.Fail("set-get-duration-with-fraction", dd.String(), fmt.Sprintf("set %v (%d s and %v), read back lease %v renewal %v rebinding %v, want %v", dd, secs, frac, a, b, c, want))
			}
		}
		mt := dhcpv4.MessageType(r.Rng.Intn(256))
		p.UpdateOption(dhcpv4.OptMessageType(mt))
		if p.MessageType() != mt {
			r.Fail("set-get-message-type", fmt.Sprint(mt), "")
		}
		var ips []net.IP
		for k := 1 + r.Rng.Intn(4); k > 0; k-- {
			ips = append(ips, net.IP(r.Bytes(4)))
		}
		p.UpdateOption(dhcpv4.OptRouter(ips...))
		if got := p.Router(); len(got) != len(ips) || !got[0].Equal(ips[0]) || !got[len(got)-1].Equal(ips[len(ips)-1]) {
			r.Fail("set-get-router", fmt.Sprint(ips), "")
		}
		var archs []iana.Arch
		for k := 1 + r.Rng.Intn(3); k > 0; k-- {
			archs = append(archs, iana.Arch(r.Rng.Intn(65536)))
		}
		p.UpdateOption(dhcpv4.OptClientArch(archs...))
		if got := p.ClientArch(); len(got) != len(archs) || got[0] != archs[0] {
			r.Fail("set-get-arch", fmt.Sprint(archs), "")
		}
		ms := uint16(r.Rng.Intn(65536))
		p.UpdateOption(dhcpv4.OptMaxMessageSize(ms))
		if got, err := p.MaxMessageSize(); err != nil || got != ms {
			r.Fail("set-get-max-size", fmt.Sprint(ms), "")
		}
		mask := net.IPMask(r.Bytes(4))
		p.UpdateOption(dhcpv4.OptSubnetMask(mask))
		if !bytes.Equal(p.SubnetMask(), mask) {
			r.Fail("set-get-mask", mask.String(), "")
		}
		evals += 7
	}
	// set/get for every typed constructor, full equality through the accessor table's observers;
	// read-modify-write: a value obtained from an accessor, edited in place and set again reads back as edited
	obsOf := func(name string, p *dhcpv4.DHCPv4) string {
		for _, a := range accessors {
			if a.name == name {
				return dumpLine(a.obs(p))
			}
		}
		return "?"
	}
	expect := func(clause, name string, p *dhcpv4.DHCPv4, want [][]byte) {
		evals++
		if got := obsOf(name, p); got != dumpLine(want) {
			r.Fail("set-get-"+clause, name, fmt.Sprintf("read back %s, set %s", got, dumpLine(want)))
		}
		// the same after a trip over the wire
		if q, err := dhcpv4.FromBytes(p.ToBytes()); err == nil {
			if got := obsOf(name, q); got != dumpLine(want) {
				r.Fail("set-get-wire-"+clause, name, fmt.Sprintf("read back after encode/decode %s, set %s", got, dumpLine(want)))
			}
		}
	}
	for i := 0; i < r.N(200, 10000); i++ {
		p, _ := dhcpv4.New()
		var ips []net.IP
		var ipsOut [][]byte
		for k := 1 + r.Rng.Intn(4); k > 0; k-- {
			ip := net.IP(r.edge(4))
			ips = append(ips, ip)
			ipsOut = append(ipsOut, ip)
		}
		p.UpdateOption(dhcpv4.OptDNS(ips...))
		expect("ips", "DNS", p, append([][]byte{someFlag}, ipsOut...))
		p.UpdateOption(dhcpv4.OptNTPServers(ips...))
		expect("ips", "NTPServers", p, append([][]byte{someFlag}, ipsOut...))
		p.UpdateOption(dhcpv4.OptRouter(ips...))
		expect("ips", "Router", p, append([][]byte{someFlag}, ipsOut...))
		name := string(r.noNul(1 + r.Rng.Intn(40)))
		p.UpdateOption(dhcpv4.OptHostName(name))
		expect("string", "HostName", p, [][]byte{[]byte(name)})
		p.UpdateOption(dhcpv4.OptDomainName(name))
		expect("string", "DomainName", p, [][]byte{[]byte(name)})
		p.UpdateOption(dhcpv4.OptBootFileName(name))
		expect("string", "BootFileNameOption", p, [][]byte{[]byte(name)})
		// user classes
		var cls []string
		ucOut := [][]byte{someFlag}
		for k := 1 + r.Rng.Intn(3); k > 0; k-- {
			c := string(r.Bytes(1 + r.Rng.Intn(8)))
			cls = append(cls, c)
			ucOut = append(ucOut, []byte(c))
		}
		p.UpdateOption(dhcpv4.OptRFC3004UserClass(cls))
		expect("user-class", "UserClass", p, ucOut)
		// vendor-identifying vendor classes, also with empty data (first, middle, last)
		var ids []dhcpv4.VIVCIdentifier
		vOut := [][]byte{someFlag}
		for k := 1 + r.Rng.Intn(3); k > 0; k-- {
			id := dhcpv4.VIVCIdentifier{EntID: iana.EnterpriseID(r.Rng.Uint32()), Data: r.Bytes(r.Pick(0, 0, 1, 5))}
			ids = append(ids, id)
			vOut = append(vOut, be32b(uint32(id.EntID)), id.Data)
		}
		p.UpdateOption(dhcpv4.OptVIVC(ids...))
		expect("vivc", "VIVC", p, vOut)
		// parameter request list
		var codes []dhcpv4.OptionCode
		var cb []byte
		for k := 1 + r.Rng.Intn(6); k > 0; k-- {
			c := byte(1 + r.Rng.Intn(254))
			dup := false
			for _, x := range cb {
				dup = dup || x == c
			}
			if !dup {
				codes = append(codes, dhcpv4.GenericOptionCode(c))
				cb = append(cb, c)
			}
		}
		p.UpdateOption(dhcpv4.OptParameterRequestList(codes...))
		expect("prl", "ParameterRequestList", p, [][]byte{someFlag, cb})
		// classless static routes with canonical destinations (no bits beyond the prefix)
		var routes []*dhcpv4.Route
		rOut := [][]byte{someFlag}
		for k := 1 + r.Rng.Intn(3); k > 0; k-- {
			ones := r.Rng.Intn(33)
			mask := net.CIDRMask(ones, 32)
			ip := net.IP(r.Bytes(4)).Mask(mask)
			gw := net.IP(r.Bytes(4))
			routes = append(routes, &dhcpv4.Route{Dest: &net.IPNet{IP: ip, Mask: mask}, Router: gw})
			rOut = append(rOut, []byte{byte(ones)}, ip, gw)
		}
		p.UpdateOption(dhcpv4.OptClasslessStaticRoute(routes...))
		expect("routes", "ClasslessStaticRoute", p, rOut)
		// relay agent information
		sub1, sub2 := r.Bytes(1+r.Rng.Intn(6)), r.Bytes(1+r.Rng.Intn(6))
		p.UpdateOption(dhcpv4.OptRelayAgentInfo(dhcpv4.OptGeneric(dhcpv4.GenericOptionCode(1), sub1), dhcpv4.OptGeneric(dhcpv4.GenericOptionCode(2), sub2)))
		expect("relay-agent", "RelayAgentInfo", p, [][]byte{someFlag, {1}, sub1, {2}, sub2})
		// one caller-owned value given to two packets, then one packet is updated with another value of the same length:
		// the other packet and the caller's value are untouched
		{
			ip1, ip2 := net.IP(r.Bytes(4)), net.IP(r.Bytes(4))
			keep1 := append(net.IP{}, ip1...)
			pa, _ := dhcpv4.New(dhcpv4.WithOption(dhcpv4.OptServerIdentifier(ip1)), dhcpv4.WithOption(dhcpv4.OptRequestedIPAddress(ip1)))
			pb, _ := dhcpv4.New(dhcpv4.WithOption(dhcpv4.OptServerIdentifier(ip1)))
			pa.UpdateOption(dhcpv4.OptServerIdentifier(ip2))
			pa.UpdateOption(dhcpv4.OptRequestedIPAddress(ip2))
			evals++
			if !pb.ServerIdentifier().Equal(keep1) || !ip1.Equal(keep1) || !pa.ServerIdentifier().Equal(ip2) {
				r.Fail("set-get-shared-value", "ServerIdentifier", fmt.Sprintf("after updating packet A from %v to %v: packet B reads %v, the caller's value reads %v, A reads %v", keep1, ip2, pb.ServerIdentifier(), ip1, pa.ServerIdentifier()))
			}
			mask1, mask2 := net.IPMask(r.Bytes(4)), net.IPMask(r.Bytes(4))
			keepM := append(net.IPMask{}, mask1...)
			pc, _ := dhcpv4.New(dhcpv4.WithOption(dhcpv4.OptSubnetMask(mask1)))
			pc.UpdateOption(dhcpv4.OptSubnetMask(mask2))
			if !bytes.Equal(mask1, keepM) || !bytes.Equal(pc.SubnetMask(), mask2) {
				r.Fail("set-get-shared-value", "SubnetMask", "updating the option rewrote the caller's first mask")
			}
			g1, g2 := r.Bytes(5), r.Bytes(5)
			keepG := append([]byte{}, g1...)
			pd, _ := dhcpv4.New(dhcpv4.WithGeneric(dhcpv4.GenericOptionCode(200), g1))
			pe, _ := dhcpv4.NewReplyFromRequest(pd, dhcpv4.WithOptionCopied(pd, dhcpv4.GenericOptionCode(200)))
			pe.UpdateOption(dhcpv4.OptGeneric(dhcpv4.GenericOptionCode(200), g2))
			if !bytes.Equal(g1, keepG) || !bytes.Equal(pd.Options.Get(dhcpv4.GenericOptionCode(200)), keepG) {
				r.Fail("set-get-shared-value", "generic option copied into a reply", "updating the reply rewrote the request's option value")
			}
		}
		// search domains: fresh, then read - edit in place - set again
		names, _ := r.validNames()
		if len(names) == 0 {
			names = []string{"a.example"}
		}
		p.UpdateOption(dhcpv4.OptDomainSearch(&rfc1035label.Labels{Labels: append([]string{}, names...)}))
		expect("domain-search", "DomainSearch", p, append([][]byte{someFlag}, namesOut(names)...))
		if q, err := dhcpv4.FromBytes(p.ToBytes()); err == nil {
			if ls := q.DomainSearch(); ls != nil && len(ls.Labels) > 0 {
				j := r.Rng.Intn(len(ls.Labels))
				switch r.Rng.Intn(3) {
				case 0:
					ls.Labels[j] = "edited.example"
				case 1:
					if t, ok := toggleCase(ls.Labels[j]); ok {
						ls.Labels[j] = t
					} else {
						ls.Labels[j] = "Edited.Example"
					}
				case 2:
					ls.Labels = append(ls.Labels, "added.example")
				}
				want := append([]string{}, ls.Labels...)
				q.UpdateOption(dhcpv4.OptDomainSearch(ls))
				expect("domain-search-edited", "DomainSearch", q, append([][]byte{someFlag}, namesOut(want)...))
			}
		}
	}
	r.Extra["oracle_evaluations"] = evals
	r.Extra["accessors"] = len(accessors)
}

func normEmpty(x [][]byte) [][]byte { return x }

// Accessor cases: several Go accessors map to one model function; the Go
// result for a case line is recorded at generation time.  If two accessors
// of the same kind disagree on the same raw value, the later one wins and
// the earlier disagreement is caught by the model comparison of the other.
var goRes = map[string][][]byte{}
