(** C14 — Servers dispatch each valid datagram exactly once and survive bad ones. *)
From DV Require Import Base.Bytes V4.Model V6.Model Server.Model.

(** For ANY sequence of read results: the handler invocations are, in order,
    exactly one per datagram read before the first read error that decodes
    (DHCPv4: and comes from a UDP peer), carrying that datagram's decoding and
    the sender as peer (DHCPv4: limited broadcast with the sender's port when
    the sender has no address); none for a datagram that does not decode;
    Serve returns exactly when a read fails. *)
Theorem C14_dispatch_v4 : forall reads acc,
  fst (serve4 reads acc) = acc ++ flat_map inv4_of (before_error reads) /\
  snd (serve4 reads acc) = existsb (fun r => match r with ReadError => true | _ => false end) reads.
Proof. exact serve4_spec. Qed.
Print Assumptions C14_dispatch_v4.

Theorem C14_dispatch_v6 : forall reads acc,
  fst (serve6 reads acc) = acc ++ flat_map inv6_of (before_error reads) /\
  snd (serve6 reads acc) = existsb (fun r => match r with ReadError => true | _ => false end) reads.
Proof. exact serve6_spec. Qed.
Print Assumptions C14_dispatch_v6.

(** "exactly once" as a count, for ANY sequence of read results: as many handler invocations as there are
    datagrams, read before the first read error, that decode (DHCPv4: and come from a UDP peer) *)
Theorem C14_exactly_once_v4 : forall reads,
  length (fst (serve4 reads [])) = length (filter dispatchable4 (before_error reads)).
Proof. exact serve4_count. Qed.
Print Assumptions C14_exactly_once_v4.
Theorem C14_exactly_once_v6 : forall reads,
  length (fst (serve6 reads [])) = length (filter dispatchable6 (before_error reads)).
Proof. exact serve6_count. Qed.
Print Assumptions C14_exactly_once_v6.

(** a malformed datagram never stops the serving loop *)
Theorem C14_malformed_v4 : forall b p r acc, (forall m, dec4 (firstn read_buf_size b) <> Ok m) ->
  serve4 (Datagram b p :: r) acc = serve4 r acc.
Proof. exact malformed_does_not_stop4. Qed.
Print Assumptions C14_malformed_v4.
Theorem C14_malformed_v6 : forall b p r acc, (forall m, dec_msg (firstn read_buf_size b) <> Ok m) ->
  serve6 (Datagram b p :: r) acc = serve6 r acc.
Proof. exact malformed_does_not_stop6. Qed.
Print Assumptions C14_malformed_v6.

(** the sender without an IP address becomes 255.255.255.255 with the sender's port *)
Theorem C14_broadcast_rewrite : forall port,
  rewrite_peer None port = (ipv4bcast, port) /\ rewrite_peer (Some (zeros 4)) port = (ipv4bcast, port)
  /\ rewrite_peer (Some [n2b 10; x00; x00; x01]) port = ([n2b 10; x00; x00; x01], port).
Proof. intros port. repeat split. Qed.
Print Assumptions C14_broadcast_rewrite.

Example C14_example : snd (serve4 [Datagram [x01] PeerOther; ReadError; Datagram [] PeerOther] []) = true
  /\ fst (serve4 [Datagram [x01] (PeerUDP None 68); Datagram (zeros 236 ++ cookie) (PeerUDP None 68)] []) <> [].
Proof. split; [reflexivity | vm_compute; discriminate]. Qed.
