#!/bin/bash
# benignall.sh: every behaviour-preserving patch under benign/, applied to /repo in as few batches as they combine
# into; all 20 quick checks per batch; /repo restored after each.  An alarm names the batch; re-run the batch's
# patches one by one with tools/benigntest.sh to find the patch.
cd "$(dirname "$0")/.."
git -C /repo status --short | grep -q . && { echo "repo not clean"; exit 2; }
export GOFLAGS=-mod=mod GOPROXY=off GOSUMDB=off GOTOOLCHAIN=local
mapfile -t todo < <(ls $(pwd)/benign/*/*.diff | sort)
batch=0; rc=0
while [ ${#todo[@]} -gt 0 ]; do
  batch=$((batch+1)); applied=(); rest=()
  for p in "${todo[@]}"; do
    if git -C /repo apply "$p" 2>/dev/null; then applied+=("$p"); else rest+=("$p"); fi
  done
  if ! (cd /repo && go build ./... >/dev/null 2>&1); then
    # a combination that does not compile (two patches adding the same helper): drop the last applied until it does
    git -C /repo checkout -- . ; git -C /repo clean -fdq; applied2=()
    for p in "${applied[@]}"; do
      git -C /repo apply "$p" 2>/dev/null || { rest+=("$p"); continue; }
      if (cd /repo && go build ./... >/dev/null 2>&1); then applied2+=("$p"); else git -C /repo apply -R "$p"; rest+=("$p"); fi
    done
    applied=("${applied2[@]}")
  fi
  echo "batch $batch: ${#applied[@]} patches"
  for i in $(seq -w 1 20); do
    out=$(./check C$i 2>&1 | tail -1)
    case "$out" in OK*) ;; *) echo "ALARM batch $batch C$i: $out"; rc=1;; esac
  done
  git -C /repo checkout -- . ; git -C /repo clean -fdq
  [ ${#applied[@]} -eq 0 ] && { echo "cannot apply: ${rest[*]}"; break; }
  todo=("${rest[@]}")
done
[ $rc = 0 ] && echo "no alarm on any batch"
exit $rc
