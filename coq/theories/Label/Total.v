(** Termination and panic-freedom of the name decoder, for every input. *)
From DV Require Import Base.Bytes Label.Model.

Lemma idx_ok b i : i < length b -> exists c, idx b i = Ok c /\ nth_error b i = Some c.
Proof.
  intros H. unfold idx. destruct (nth_error b i) as [c|] eqn:E.
  - eauto.
  - apply nth_error_None in E. lia.
Qed.

Definition exc_good (o : exc_out) : Prop :=
  match o with ExcRes Fuel | ExcRes Panic | ExcRes (Ok _) => False | _ => True end.

Lemma exc_total : forall fuel b pos lbl,
  0 < fuel -> length b < fuel + pos -> exc_good (exc fuel b pos lbl).
Proof.
  induction fuel as [|f IH]; intros b pos lbl H0 H.
  - lia.
  - cbn [exc]. destruct (length b <=? pos) eqn:E; [exact I|]. apply Nat.leb_gt in E.
    destruct (idx_ok b pos E) as (c & -> & _).
    destruct (bnat c =? 0) eqn:Z; [exact I|]. apply Nat.eqb_neq in Z.
    destruct (is_ptr c); [exact I|].
    destruct (length b <? pos + 1 + bnat c) eqn:L; [exact I|]. apply Nat.ltb_ge in L.
    unfold sub. assert (Hs : (pos + 1 + bnat c <=? length b) = true) by (apply Nat.leb_le; lia).
    rewrite Hs.
    destruct (max_name_len <? length (join lbl (slice b (pos + 1) (bnat c)))); [exact I|].
    apply IH; lia.
Qed.

Definition res_good {A} (r : res A) : Prop :=
  match r with Ok _ | Err => True | _ => False end.

Lemma main_total : forall fuel b pos lbl acc,
  0 < fuel -> length b < fuel + pos -> res_good (main fuel b pos lbl acc).
Proof.
  induction fuel as [|f IH]; intros b pos lbl acc H0 H.
  - lia.
  - cbn [main]. destruct (length b <=? pos) eqn:E; [exact I|]. apply Nat.leb_gt in E.
    destruct (idx_ok b pos E) as (c & -> & _).
    destruct (bnat c =? 0) eqn:Z; [apply IH; lia|]. apply Nat.eqb_neq in Z.
    destruct (is_ptr c).
    + destruct (length b <? pos + 1 + 1) eqn:L; [exact I|]. apply Nat.ltb_ge in L.
      assert (Hp : pos + 1 < length b) by lia.
      destruct (idx_ok b (pos + 1) Hp) as (c2 & -> & _).
      pose proof (exc_total (S (length b)) b ((bnat c - 192) * 256 + bnat c2) lbl) as X.
      destruct (exc (S (length b)) b ((bnat c - 192) * 256 + bnat c2) lbl) as [l|l|r].
      * apply IH; lia.
      * exact I.
      * destruct r; cbn in X; try (exfalso; apply X; lia); exact I.
    + destruct (length b <? pos + 1 + bnat c) eqn:L; [exact I|]. apply Nat.ltb_ge in L.
      unfold sub. assert (Hs : (pos + 1 + bnat c <=? length b) = true) by (apply Nat.leb_le; lia).
      rewrite Hs.
      destruct (max_name_len <? length (join lbl (slice b (pos + 1) (bnat c)))); [exact I|].
      apply IH; lia.
Qed.

Theorem labels_from_bytes_total b : res_good (labels_from_bytes b).
Proof. apply main_total; lia. Qed.
