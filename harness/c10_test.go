package main

import (
	"bytes"
	"runtime"
	"context"
	"errors"
	"fmt"
	"net"
	"sync"
	"testing"
	"testing/synctest"
	"time"

	"github.com/insomniacslk/dhcp/dhcpv4"
	"github.com/insomniacslk/dhcp/dhcpv4/nclient4"
	"github.com/insomniacslk/dhcp/dhcpv6"
	"github.com/insomniacslk/dhcp/dhcpv6/nclient6"
)

const (
	eRouteV4 = 72
	eRouteV6 = 73
)

type callOutcome struct {
	status  byte // 0 not started, 1 response, 2 refused, 3 cancelled, 4 no response (closed), 9 other
	payload byte
}

func payloadOfV4(p *dhcpv4.DHCPv4) byte {
	if p == nil {
		return 0xfe // a matcher was handed no packet at all (a closed channel read as a datagram)
	}
	if v := p.Options.Get(dhcpv4.GenericOptionCode(224)); len(v) == 1 {
		return v[0]
	}
	return 0xff
}

// routeScenario drives one client through the macro events and returns each call's outcome.
func routeScenario(v6 bool, xids, ths []byte, evs [][]byte) []callOutcome {
	n := len(xids)
	outs := make([]callOutcome, n)
	bubbleNote = (Case{map[bool]int{false: eRouteV4, true: eRouteV6}[v6], append([][]byte{xids, ths}, evs...)}).Line()
	runBubble(func(t *testing.T) {
		conn := newLabConn()
		var c4 *nclient4.Client
		var c6 *nclient6.Client
		var err error
		logDropped := (len(evs)+len(xids))%2 == 1 // the optional logging of dropped datagrams must not change routing
		if v6 {
			o6 := []nclient6.ClientOpt{nclient6.WithTimeout(time.Hour), nclient6.WithRetry(1)}
			if logDropped {
				o6 = append(o6, nclient6.WithLogDroppedPackets(), nclient6.WithDebugLogger())
			}
			c6, err = nclient6.NewWithConn(conn, labHW, o6...)
		} else {
			o4 := []nclient4.ClientOpt{nclient4.WithTimeout(time.Hour), nclient4.WithRetry(1)}
			if logDropped {
				o4 = append(o4, nclient4.WithDebugLogger())
			}
			c4, err = nclient4.NewWithConn(conn, labHW, o4...)
		}
		if err != nil {
			t.Fatal(err)
		}
		cancels := make([]context.CancelFunc, n)
		started := make([]bool, n)
		var wg sync.WaitGroup
		var mu sync.Mutex
		accept := func(j int, p byte) bool { return int(ths[j]) <= int(p)%4 }
		start := func(j int) {
			if started[j] {
				return
			}
			started[j] = true
			ctx, cancel := context.WithCancel(context.Background())
			cancels[j] = cancel
			wg.Add(1)
			go func() {
				defer wg.Done()
				var o callOutcome
				if v6 {
					req := &dhcpv6.Message{MessageType: dhcpv6.MessageTypeSolicit, TransactionID: dhcpv6.TransactionID{0, 0, xids[j]}}
					resp, err := c6.SendAndRead(ctx, nclient6.AllDHCPRelayAgentsAndServers, req, func(m *dhcpv6.Message) bool {
						return accept(j, payloadOfV6(m))
					})
					o = classify6(resp, err)
				} else {
					req, _ := dhcpv4.NewDiscovery(labHW, dhcpv4.WithTransactionID(dhcpv4.TransactionID{0, 0, 0, xids[j]}))
					if xids[j]%3 == 1 {
						// the request names another hardware address (a proxy asking on behalf of a device): the replies the
						// client takes are still those for ITS address - the one foreign address the scripted datagrams use
						req.ClientHWAddr = net.HardwareAddr{2, 0, 0, 0, 0, 9}
					}
					resp, err := c4.SendAndRead(ctx, &net.UDPAddr{IP: net.IPv4bcast, Port: 67}, req, func(p *dhcpv4.DHCPv4) bool {
						return accept(j, payloadOfV4(p))
					})
					o = classify4(resp, err)
				}
				mu.Lock()
				outs[j] = o
				mu.Unlock()
			}()
		}
		inject := func(x, p, kind byte) {
			var b []byte
			if v6 {
				m := &dhcpv6.Message{MessageType: dhcpv6.MessageTypeReply, TransactionID: dhcpv6.TransactionID{0, 0, x}}
				m.AddOption(&dhcpv6.OptionGeneric{OptionCode: 4000, OptionData: []byte{p}})
				m.AddOption(dhcpv6.OptServerID(&dhcpv6.DUIDLL{HWType: 1, LinkLayerAddr: net.HardwareAddr{2, 0, 0, 0, 0, 9}})) // a realistic length
				if int(p+3*x)%5 == 0 {
					m.AddOption(&dhcpv6.OptionGeneric{OptionCode: 4001, OptionData: bytes.Repeat([]byte{p, x}, 150+50*int((p+x)%9))})
				}
				b = m.ToBytes()
				switch kind {
				case 1:
					b = b[:len(b)-1] // undecodable: the only filter nclient6 has
				case 2, 3:
					// not a client/server message at all: the very reply, wrapped in one or three relay headers
					// (Relay-reply or Relay-forward) as a relay agent on the same link sees it - not for a client
					var cur dhcpv6.DHCPv6 = m
					depth := 1 + 2*int((p+x)%2)
					mt := dhcpv6.MessageTypeRelayReply
					if kind == 3 {
						mt = dhcpv6.MessageTypeRelayForward
					}
					for d := 0; d < depth; d++ {
						if rm, err := dhcpv6.EncapsulateRelay(cur, mt, net.ParseIP("2001:db8::1"), net.ParseIP("fe80::1")); err == nil {
							cur = rm
						}
					}
					b = cur.ToBytes()
				}
			} else {
				hw := labHW
				op := dhcpv4.OpcodeBootReply
				if kind == 1 {
					hw = []net.HardwareAddr{{2, 0, 0, 0, 0, 9}, {}, labHW[:3], append(append(net.HardwareAddr{}, labHW...), 0, 0)}[int(p+x)%4]
				}
				if kind == 2 {
					// anything but BOOTREPLY: the decoder accepts every op value
					op = []dhcpv4.OpcodeType{dhcpv4.OpcodeBootRequest, 0, 3, 0x82, 0xff}[int(p+x)%5]
				}
				m, _ := dhcpv4.New(dhcpv4.WithTransactionID(dhcpv4.TransactionID{0, 0, 0, x}), dhcpv4.WithHwAddr(hw),
					dhcpv4.WithMessageType(dhcpv4.MessageTypeOffer), dhcpv4.WithGeneric(dhcpv4.GenericOptionCode(224), []byte{p}))
				m.OpCode = op
				if int(p+3*x)%5 == 0 {
					// a long reply (routes, vendor options, PXE menus): 600 .. 1400 octets, still within what the client
					// said it accepts
					m.UpdateOption(dhcpv4.OptGeneric(dhcpv4.GenericOptionCode(43), bytes.Repeat([]byte{p, x}, 150+50*int((p+x)%9))))
				}
				b = m.ToBytes()
				if kind == 1 && int(p+x)%8 >= 4 {
					// the client's own address is in the chaddr field, but the length octet says otherwise (0, 3, 7, 16):
					// the address a datagram carries is chaddr[:hlen], not what the padding happens to hold
					copy(b[28:44], labHW)
					b[2] = []byte{0, 3, 7, 16}[int(p)%4]
				}
				if kind == 3 {
					b = b[:200]
				}
			}
			times := 1
			if kind == 4 {
				times = 2
			}
			for k := 0; k < times; k++ {
				select {
				case conn.in <- b:
				case <-conn.closed:
				}
				synctest.Wait()
			}
		}
		for _, e := range evs {
			switch {
			case len(e) == 2 && e[0] == 0 && int(e[1]) < n:
				start(int(e[1]))
			case len(e) == 4:
				inject(e[1], e[2], e[3])
			case len(e) == 2 && e[0] == 2 && int(e[1]) < n:
				if cancels[e[1]] != nil {
					cancels[e[1]]()
				}
			}
			synctest.Wait()
		}
		if v6 {
			c6.Close()
		} else {
			c4.Close()
		}
		wg.Wait()
		for _, cf := range cancels {
			if cf != nil {
				cf()
			}
		}
		synctest.Wait()
	})
	return outs
}

func payloadOfV6(m *dhcpv6.Message) byte {
	if m == nil {
		return 0xfe // a matcher was handed no message at all (a closed channel read as a datagram)
	}
	if o := m.GetOneOption(dhcpv6.OptionCode(4000)); o != nil {
		if g, ok := o.(*dhcpv6.OptionGeneric); ok && len(g.OptionData) == 1 {
			return g.OptionData[0]
		}
	}
	return 0xff
}

func classify4(resp *dhcpv4.DHCPv4, err error) callOutcome {
	var inUse *nclient4.ErrTransactionIDInUse
	switch {
	case err == nil && resp != nil:
		return callOutcome{1, payloadOfV4(resp)}
	case errors.As(err, &inUse):
		return callOutcome{2, 0}
	case errors.Is(err, context.Canceled):
		return callOutcome{3, 0}
	case errors.Is(err, nclient4.ErrNoResponse):
		return callOutcome{4, 0}
	}
	return callOutcome{9, 0}
}

func classify6(resp *dhcpv6.Message, err error) callOutcome {
	switch {
	case err == nil && resp != nil:
		return callOutcome{1, payloadOfV6(resp)}
	case errors.Is(err, context.Canceled):
		return callOutcome{3, 0}
	case errors.Is(err, nclient6.ErrNoResponse):
		return callOutcome{4, 0}
	case err != nil:
		return callOutcome{2, 0} // "transaction ID ... already in use" has no exported error type
	}
	return callOutcome{9, 0}
}

func routeEntry(v6 bool) EntryFn {
	return func(a [][]byte) ([][]byte, error) {
		outs := routeScenario(v6, a[0], a[1], a[2:])
		var res [][]byte
		for _, o := range outs {
			var p []byte
			if o.status == 1 {
				p = []byte{o.payload}
			}
			res = append(res, []byte{o.status}, p)
		}
		return res, nil
	}
}

func init() {
	register(eRouteV4, "nclient4 concurrent calls", routeEntry(false))
	register(eRouteV6, "nclient6 concurrent calls", routeEntry(true))
	held := func(v6 bool) func(a [][]byte) ([][]byte, error) {
		return func(a [][]byte) ([][]byte, error) {
			seen, out := heldMatcherScenario(v6, a[0], int(a[1][0]))
			st := []byte{4}
			if out.status == 1 {
				st = []byte{1, out.payload}
			} else if out.status != 4 {
				st = []byte{out.status}
			}
			return [][]byte{seen, st}, nil
		}
	}
	reuse := func(v6 bool) func(a [][]byte) ([][]byte, error) {
		return func(a [][]byte) ([][]byte, error) {
			ra, rb := reuseAfterFullBuffer(v6)
			var ga, gb []byte
			if ra.status == 1 {
				ga = []byte{ra.payload}
			}
			if rb.status == 1 {
				gb = []byte{rb.payload}
			}
			return [][]byte{ga, gb}, nil
		}
	}
	register(76, "nclient4 id reused after a full buffer", reuse(false))
	register(77, "nclient6 id reused after a full buffer", reuse(true))
	register(74, "nclient4 call with a held matcher", held(false))
	register(75, "nclient6 call with a held matcher", held(true))
	props["C10"] = genC10
}

func genC10(r *Run) {
	n := r.N(400, 40000)
	evals := 0
	for i := 0; i < n; i++ {
		entry := eRouteV4
		if i%2 == 1 {
			entry = eRouteV6
		}
		nc := 1 + r.Rng.Intn(8)
		xids := make([]byte, nc)
		ths := make([]byte, nc)
		for j := range xids {
			xids[j] = byte(1 + r.Rng.Intn(r.Pick(2, 4, 8))) // colliding and distinct ids
			ths[j] = byte(r.Pick(0, 1, 2, 3, 4))
		}
		var evs [][]byte
		for k := 4 + r.Rng.Intn(30); k > 0; k-- {
			switch r.Rng.Intn(10) {
			case 0, 1, 2:
				evs = append(evs, []byte{0, byte(r.Rng.Intn(nc))})
			case 3:
				evs = append(evs, []byte{2, byte(r.Rng.Intn(nc))})
			default:
				kind := byte(r.Pick(0, 0, 0, 0, 1, 2, 3, 4))
				evs = append(evs, []byte{1, byte(r.Pick(int(xids[r.Rng.Intn(nc)]), 1+r.Rng.Intn(9))), byte(r.Rng.Intn(8)), kind})
			}
		}
		args := append([][]byte{xids, ths}, evs...)
		r.Add(entry, args...)
		r.Count(fmt.Sprintf("callers=%d", nc))
		// direct oracle: a call only returns a datagram that carries its own id, arrived while it waited,
		// satisfies its matcher, and is the first such in arrival order
		outs := routeScenario(entry == eRouteV6, xids, ths, evs)
		evals++
		checkRouting(r, entry, xids, ths, evs, outs, Case{entry, args}.Line())
	}
	// the id of a call that returned with a full buffer is reused at once (many rounds: what the loop still does
	// for the old call races with the new call's registration)
	for _, v6 := range []bool{false, true} {
		for k := 0; k < r.N(60, 1500); k++ {
			a, b := reuseAfterFullBufferMode(v6, k%2 == 1)
			evals++
			if k < 3 {
				r.Add(map[bool]int{false: 76, true: 77}[v6], []byte{10, 11, 12, 13, 14, 15, 16}, []byte{99})
			}
			if a.status != 1 || a.payload != 10 {
				r.Fail("c10-first-acceptable", fmt.Sprintf("v6=%v: held matcher, 7 datagrams, everything acceptable", v6), fmt.Sprintf("first call returned status %d payload %d, want payload 10", a.status, a.payload))
				break
			}
			if b.status != 1 || b.payload != 99 {
				r.Fail("c10-reused-id-after-full-buffer", fmt.Sprintf("v6=%v: call A (id 7) returns while its buffer is full and one more datagram is parked in the receive loop; call B takes id 7 at once; B's answer arrives (round %d)", v6, k),
					fmt.Sprintf("call B ended with status %d payload %d instead of its own answer 99: its registration was lost", b.status, b.payload))
				break
			}
		}
	}
	// datagrams for an id whose call is over, whatever way it ended
	for _, v6 := range []bool{false, true} {
		for ending := 0; ending < 4; ending++ {
			b, reuse := deadIDScenario(v6, ending)
			evals++
			what := fmt.Sprintf("v6=%v: the call with id 7 ended by %s; 7 late datagrams with id 7, then the answer for id 8, then id 7 is used again", v6, []string{"a write error", "its timeout", "its context", "its answer"}[ending])
			if b.status != 1 || b.payload != 99 {
				r.Fail("c10-late-datagrams-for-a-finished-call", what, fmt.Sprintf("the waiting call (id 8) ended with status %d payload %d instead of its answer 99", b.status, b.payload))
			} else if reuse.status != 1 || reuse.payload != 77 {
				r.Fail("c10-id-not-released", what, fmt.Sprintf("a new call with id 7 ended with status %d payload %d instead of its answer 77", reuse.status, reuse.payload))
			}
		}
	}
	// answers that arrive before the transmitting call has returned from WriteTo
	for _, v6 := range []bool{false, true} {
		for k := 0; k < r.N(5, 100); k++ {
			outs := instantServer(v6, 1+k%4)
			evals++
			for i, o := range outs {
				if o.status != 1 || o.payload != byte(20+i) {
					r.Fail("c10-answer-before-write-returns", fmt.Sprintf("v6=%v: %d calls; the server's answer to each transmission is read by the receive loop before WriteTo returns", v6, len(outs)),
						fmt.Sprintf("call %d ended with status %d payload %d instead of its answer %d: a call waits for its answer from the moment it transmits", i, o.status, o.payload, 20+i))
					break
				}
			}
		}
	}
	// overflow beyond what can be in flight
	for k := 0; k < r.N(12, 200); k++ {
		for _, v6 := range []bool{false, true} {
			checkOverflow(r, v6, 12, 8+k%4, []int{1, 0, 2}[k%3])
			evals++
		}
	}
	// a held matcher: the per-transaction buffer fills up, nothing solicited may be lost or reordered
	for n := 2; n <= 7; n++ { // at most 7 datagrams can be in flight while the matcher is held
		for acceptFrom := 0; acceptFrom <= n; acceptFrom++ { // n: nothing is acceptable
			checkHeldMatcher(r, false, n, acceptFrom)
			checkHeldMatcher(r, true, n, acceptFrom)
			ps := make([]byte, n)
			for i := range ps {
				ps[i] = byte(10 + i)
			}
			r.Add(74, ps, []byte{byte(acceptFrom)})
			r.Add(75, ps, []byte{byte(acceptFrom)})
			evals += 2
		}
	}
	// callers that reuse a pending id at the same moment: one is admitted, all others are refused
	for k := 0; k < r.N(600, 20000); k++ {
		v6 := k%2 == 1
		n := r.Pick(8, 8, 4, 16)
		waiting, refused, other := collidingCallers(v6, n)
		evals++
		if waiting != 1 || refused != n-1 || other != 0 {
			r.Fail("c10-concurrent-id-reuse", fmt.Sprintf("v6=%v: %d calls with one transaction id started together (round %d)", v6, n, k),
				fmt.Sprintf("%d admitted, %d refused, %d ended otherwise; want 1 admitted and %d refused", waiting, refused, other, n-1))
			break
		}
	}
	// micro-step schedules forced through the verif hooks
	for _, f := range hookSchedules {
		for k := 0; k < r.N(3, 50); k++ {
			f(r, false)
			f(r, true)
			evals += 2
		}
	}
	r.Extra["oracle_evaluations"] = evals
}

var hookSchedules []func(r *Run, v6 bool)

// checkRouting recomputes, independently of the Coq model, what each call may return.
func checkRouting(r *Run, entry int, xids, ths []byte, evs [][]byte, outs []callOutcome, cs string) {
	type st struct {
		state   int // 0 idle, 1 waiting, 2 finished
		outcome callOutcome
	}
	calls := make([]st, len(xids))
	pending := map[byte]int{}
	v6 := entry == eRouteV6
	for _, e := range evs {
		switch {
		case len(e) == 2 && e[0] == 0 && int(e[1]) < len(xids):
			j := int(e[1])
			if calls[j].state != 0 {
				continue
			}
			if _, busy := pending[xids[j]]; busy {
				calls[j] = st{2, callOutcome{2, 0}}
			} else {
				pending[xids[j]] = j
				calls[j].state = 1
			}
		case len(e) == 4:
			x, p, kind := e[1], e[2], e[3]
			filtered := kind >= 1 && kind <= 3
			if filtered {
				continue
			}
			times := 1
			if kind == 4 {
				times = 2
			}
			for k := 0; k < times; k++ {
				if j, ok := pending[x]; ok && int(ths[j]) <= int(p)%4 {
					calls[j] = st{2, callOutcome{1, p}}
					delete(pending, x)
				}
			}
		case len(e) == 2 && e[0] == 2 && int(e[1]) < len(xids):
			j := int(e[1])
			if calls[j].state == 1 {
				calls[j] = st{2, callOutcome{3, 0}}
				delete(pending, xids[j])
			}
		}
	}
	_ = v6
	for j := range calls {
		want := calls[j].outcome
		if calls[j].state == 1 {
			want = callOutcome{4, 0}
		}
		if outs[j] != want {
			r.Fail("c10-routing", trunc(cs, 800), fmt.Sprintf("call %d (id %d, threshold %d): got status %d payload %d, specification says status %d payload %d",
				j, xids[j], ths[j], outs[j].status, outs[j].payload, want.status, want.payload))
			return
		}
	}
}

// heldMatcherScenario: one call whose matcher is held on the first datagram while up to six more
// datagrams with its id arrive (five fill the per-transaction buffer, one more waits in the receive loop);
// then the matcher is released.  Returns the payloads the matcher saw, in order, and the call's outcome.
func heldMatcherScenario(v6 bool, payloads []byte, acceptFrom int) (seen []byte, out callOutcome) {
	bubbleNote = fmt.Sprintf("v6=%v: matcher held on the first of %d datagrams, acceptable from position %d", v6, len(payloads), acceptFrom)
	runBubble(func(t *testing.T) {
		conn := newLabConn()
		gate := make(chan struct{})
		first := true
		var mu sync.Mutex
		see := func(p byte) bool {
			mu.Lock()
			seen = append(seen, p)
			hold := first
			first = false
			idx := len(seen) - 1
			mu.Unlock()
			if hold {
				<-gate
			}
			return idx >= acceptFrom
		}
		done := make(chan struct{})
		var closer func()
		if v6 {
			c, err := nclient6.NewWithConn(conn, labHW, nclient6.WithTimeout(time.Hour), nclient6.WithRetry(1))
			if err != nil {
				t.Fatal(err)
			}
			closer = func() { c.Close() }
			go func() {
				defer close(done)
				req := &dhcpv6.Message{MessageType: dhcpv6.MessageTypeSolicit, TransactionID: dhcpv6.TransactionID{0, 0, 7}}
				resp, err := c.SendAndRead(context.Background(), nclient6.AllDHCPRelayAgentsAndServers, req, func(m *dhcpv6.Message) bool { return see(payloadOfV6(m)) })
				out = classify6(resp, err)
			}()
		} else {
			c, err := nclient4.NewWithConn(conn, labHW, nclient4.WithTimeout(time.Hour), nclient4.WithRetry(1))
			if err != nil {
				t.Fatal(err)
			}
			closer = func() { c.Close() }
			go func() {
				defer close(done)
				req, _ := dhcpv4.NewDiscovery(labHW, dhcpv4.WithTransactionID(dhcpv4.TransactionID{0, 0, 0, 7}))
				resp, err := c.SendAndRead(context.Background(), &net.UDPAddr{IP: net.IPv4bcast, Port: 67}, req, func(p *dhcpv4.DHCPv4) bool { return see(payloadOfV4(p)) })
				out = classify4(resp, err)
			}()
		}
		synctest.Wait()
		// the datagrams arrive one after the other on the socket; the loop takes them as fast as it can (with the
		// matcher held: one in the matcher, five queued, one parked - the rest wait in the socket until the call
		// takes delivery again)
		fed := make(chan struct{})
		go func() {
			defer close(fed)
			for _, p := range payloads {
				var b []byte
				if v6 {
					m := &dhcpv6.Message{MessageType: dhcpv6.MessageTypeReply, TransactionID: dhcpv6.TransactionID{0, 0, 7}}
					m.AddOption(&dhcpv6.OptionGeneric{OptionCode: 4000, OptionData: []byte{p}})
					b = m.ToBytes()
				} else {
					m, _ := dhcpv4.New(dhcpv4.WithTransactionID(dhcpv4.TransactionID{0, 0, 0, 7}), dhcpv4.WithHwAddr(labHW),
						dhcpv4.WithMessageType(dhcpv4.MessageTypeOffer), dhcpv4.WithGeneric(dhcpv4.GenericOptionCode(224), []byte{p}))
					m.OpCode = dhcpv4.OpcodeBootReply
					b = m.ToBytes()
				}
				select {
				case conn.in <- b:
				case <-conn.closed:
					return
				}
			}
		}()
		synctest.Wait()
		close(gate)
		synctest.Wait()
		select {
		case <-done:
		default:
			closer() // nothing acceptable: end the call
		}
		<-done
		closer()
		<-fed
		synctest.Wait()
	})
	return
}

// checkOverflow: more datagrams than the matcher-held call can have in flight (12 > 7), the first acceptable one late
// in the stream; run with one and with many processors (whatever carries the overflow must keep arrival order)
func checkOverflow(r *Run, v6 bool, n, acceptFrom, procs int) {
	payloads := make([]byte, n)
	for i := range payloads {
		payloads[i] = byte(10 + i)
	}
	if procs > 0 {
		defer runtime.GOMAXPROCS(runtime.GOMAXPROCS(procs))
	}
	seen, out := heldMatcherScenario(v6, payloads, acceptFrom)
	what := fmt.Sprintf("v6=%v: matcher held on the first of %d datagrams with the call's id (more than fit in flight), acceptable from position %d, GOMAXPROCS %d", v6, n, acceptFrom, procs)
	for i := range seen {
		if i >= len(payloads) || seen[i] != payloads[i] {
			r.Fail("c10-arrival-order", what, fmt.Sprintf("the matcher saw %v, arrival order %v", seen, payloads))
			return
		}
	}
	if acceptFrom < n && (out.status != 1 || out.payload != payloads[acceptFrom]) {
		r.Fail("c10-first-acceptable", what, fmt.Sprintf("call returned status %d payload %d, want payload %d (the matcher saw %v)", out.status, out.payload, payloads[acceptFrom], seen))
	}
}

// reuseAfterFullBuffer: call A's buffer is full and the receive loop is parked on one more datagram for it when A
// returns; a new call B then takes the same transaction id at once.  B is a call like any other: it must be
// registered (its own answer reaches it), whatever the loop still does on behalf of A.
func reuseAfterFullBuffer(v6 bool) (a, b callOutcome) { return reuseAfterFullBufferMode(v6, false) }

// concurrent: B is started while A has not returned yet, so that it is already queued on the registry lock (held by
// the parked receive loop) when A returns and the loop lets go
func reuseAfterFullBufferMode(v6, concurrent bool) (a, b callOutcome) {
	bubbleNote = fmt.Sprintf("v6=%v concurrent=%v: id reused at once after a call that returned with a full buffer and a parked datagram", v6, concurrent)
	runBubble(func(t *testing.T) {
		conn := newLabConn()
		gate := make(chan struct{})
		var mu sync.Mutex
		first := true
		hold := func() {
			mu.Lock()
			h := first
			first = false
			mu.Unlock()
			if h {
				<-gate
			}
		}
		done := make(chan struct{})
		startB := make(chan struct{})
		var both sync.WaitGroup
		var closer func()
		mk := func(p byte) []byte {
			if v6 {
				m := &dhcpv6.Message{MessageType: dhcpv6.MessageTypeReply, TransactionID: dhcpv6.TransactionID{0, 0, 7}}
				m.AddOption(&dhcpv6.OptionGeneric{OptionCode: 4000, OptionData: []byte{p}})
				return m.ToBytes()
			}
			m, _ := dhcpv4.New(dhcpv4.WithTransactionID(dhcpv4.TransactionID{0, 0, 0, 7}), dhcpv4.WithHwAddr(labHW),
				dhcpv4.WithMessageType(dhcpv4.MessageTypeOffer), dhcpv4.WithGeneric(dhcpv4.GenericOptionCode(224), []byte{p}))
			m.OpCode = dhcpv4.OpcodeBootReply
			return m.ToBytes()
		}
		if v6 {
			c, err := nclient6.NewWithConn(conn, labHW, nclient6.WithTimeout(time.Hour), nclient6.WithRetry(1))
			if err != nil {
				t.Fatal(err)
			}
			closer = func() { c.Close() }
			req := &dhcpv6.Message{MessageType: dhcpv6.MessageTypeSolicit, TransactionID: dhcpv6.TransactionID{0, 0, 7}}
			callB := func() {
				resp, err := c.SendAndRead(context.Background(), nclient6.AllDHCPRelayAgentsAndServers, req, func(m *dhcpv6.Message) bool { return payloadOfV6(m) == 99 })
				b = classify6(resp, err)
			}
			both.Add(1)
			go func() {
				defer both.Done()
				resp, err := c.SendAndRead(context.Background(), nclient6.AllDHCPRelayAgentsAndServers, req, func(m *dhcpv6.Message) bool { hold(); return true })
				a = classify6(resp, err)
				if !concurrent {
					callB()
				}
			}()
			if concurrent {
				both.Add(1)
				go func() { defer both.Done(); <-startB; callB() }()
			}
		} else {
			c, err := nclient4.NewWithConn(conn, labHW, nclient4.WithTimeout(time.Hour), nclient4.WithRetry(1))
			if err != nil {
				t.Fatal(err)
			}
			closer = func() { c.Close() }
			req, _ := dhcpv4.NewDiscovery(labHW, dhcpv4.WithTransactionID(dhcpv4.TransactionID{0, 0, 0, 7}))
			dst := &net.UDPAddr{IP: net.IPv4bcast, Port: 67}
			callB := func() {
				resp, err := c.SendAndRead(context.Background(), dst, req, func(p *dhcpv4.DHCPv4) bool { return payloadOfV4(p) == 99 })
				b = classify4(resp, err)
			}
			both.Add(1)
			go func() {
				defer both.Done()
				resp, err := c.SendAndRead(context.Background(), dst, req, func(p *dhcpv4.DHCPv4) bool { hold(); return true })
				a = classify4(resp, err)
				if !concurrent {
					callB()
				}
			}()
			if concurrent {
				both.Add(1)
				go func() { defer both.Done(); <-startB; callB() }()
			}
		}
		synctest.Wait()
		for i := 0; i < 7; i++ { // one in the matcher, five buffered, one the loop is parked on
			select {
			case conn.in <- mk(byte(10 + i)):
			case <-conn.closed:
			}
			synctest.Wait()
		}
		go func() { both.Wait(); close(done) }()
		if concurrent {
			// B goes for the registry lock now; the parked loop holds it, so B queues on it (a goroutine waiting
			// for a mutex is not "durably blocked": no synctest.Wait until A is released)
			close(startB)
			for i := 0; i < 200; i++ {
				runtime.Gosched()
			}
		}
		close(gate) // A returns; B registers the same id straight away
		synctest.Wait()
		select {
		case conn.in <- mk(99):
		case <-conn.closed:
		}
		synctest.Wait()
		select {
		case <-done:
		default:
			closer() // B never got its answer: end it
		}
		<-done
		closer()
		synctest.Wait()
	})
	return
}

// instantServer: the answer to a transmission is on the wire, read and routed by the receive loop, before WriteTo
// has even returned to the sender (a server on the same host, a loopback device).  The call is waiting from the
// moment it transmits: its answer must reach it.
func instantServer(v6 bool, n int) (outs []callOutcome) {
	bubbleNote = fmt.Sprintf("v6=%v: %d calls whose answers arrive before WriteTo returns", v6, n)
	outs = make([]callOutcome, n)
	runBubble(func(t *testing.T) {
		conn := newLabConn()
		conn.onWrite = func(b []byte) {
			var reply []byte
			if v6 {
				req, err := dhcpv6.MessageFromBytes(b)
				if err != nil {
					return
				}
				m := &dhcpv6.Message{MessageType: dhcpv6.MessageTypeReply, TransactionID: req.TransactionID}
				m.AddOption(&dhcpv6.OptionGeneric{OptionCode: 4000, OptionData: []byte{req.TransactionID[2]}})
				reply = m.ToBytes()
			} else {
				req, err := dhcpv4.FromBytes(b)
				if err != nil {
					return
				}
				m, _ := dhcpv4.New(dhcpv4.WithTransactionID(req.TransactionID), dhcpv4.WithHwAddr(labHW),
					dhcpv4.WithMessageType(dhcpv4.MessageTypeOffer), dhcpv4.WithGeneric(dhcpv4.GenericOptionCode(224), []byte{req.TransactionID[3]}))
				m.OpCode = dhcpv4.OpcodeBootReply
				reply = m.ToBytes()
			}
			for len(conn.reads) > 0 {
				<-conn.reads
			}
			select {
			case conn.in <- reply:
			case <-conn.closed:
				return
			}
			select { // the loop is back for the next datagram: the answer has been routed (or dropped)
			case <-conn.reads:
			case <-conn.closed:
			}
		}
		var wg sync.WaitGroup
		var closer func()
		if v6 {
			c, err := nclient6.NewWithConn(conn, labHW, nclient6.WithTimeout(time.Second), nclient6.WithRetry(1))
			if err != nil {
				t.Fatal(err)
			}
			closer = func() { c.Close() }
			for i := 0; i < n; i++ {
				wg.Add(1)
				go func(i int) {
					defer wg.Done()
					req := &dhcpv6.Message{MessageType: dhcpv6.MessageTypeSolicit, TransactionID: dhcpv6.TransactionID{0, 1, byte(20 + i)}}
					resp, err := c.SendAndRead(context.Background(), nclient6.AllDHCPRelayAgentsAndServers, req, nil)
					outs[i] = classify6(resp, err)
				}(i)
			}
		} else {
			c, err := nclient4.NewWithConn(conn, labHW, nclient4.WithTimeout(time.Second), nclient4.WithRetry(1))
			if err != nil {
				t.Fatal(err)
			}
			closer = func() { c.Close() }
			for i := 0; i < n; i++ {
				wg.Add(1)
				go func(i int) {
					defer wg.Done()
					req, _ := dhcpv4.NewDiscovery(labHW, dhcpv4.WithTransactionID(dhcpv4.TransactionID{0, 0, 1, byte(20 + i)}))
					resp, err := c.SendAndRead(context.Background(), &net.UDPAddr{IP: net.IPv4bcast, Port: 67}, req, nil)
					outs[i] = classify4(resp, err)
				}(i)
			}
		}
		wg.Wait()
		closer()
		synctest.Wait()
	})
	return
}

// deadIDScenario: call A (id 7) has ended - by a failed write, by its timeout, by its context, or with its answer.
// Seven more datagrams with id 7 then arrive while call B (id 8) waits, then B's answer.  Nobody waits for id 7: the
// seven are dropped, B receives its answer, and id 7 can be used again.
func deadIDScenario(v6 bool, ending int) (b callOutcome, reuse callOutcome) {
	bubbleNote = fmt.Sprintf("v6=%v: call with id 7 ended (%s); 7 late datagrams with id 7 arrive while a call with id 8 waits", v6, []string{"write error", "timeout", "context cancelled", "answered"}[ending])
	runBubble(func(t *testing.T) {
		conn := newLabConn()
		mk := func(x, p byte) []byte {
			if v6 {
				m := &dhcpv6.Message{MessageType: dhcpv6.MessageTypeReply, TransactionID: dhcpv6.TransactionID{0, 0, x}}
				m.AddOption(&dhcpv6.OptionGeneric{OptionCode: 4000, OptionData: []byte{p}})
				return m.ToBytes()
			}
			m, _ := dhcpv4.New(dhcpv4.WithTransactionID(dhcpv4.TransactionID{0, 0, 0, x}), dhcpv4.WithHwAddr(labHW),
				dhcpv4.WithMessageType(dhcpv4.MessageTypeOffer), dhcpv4.WithGeneric(dhcpv4.GenericOptionCode(224), []byte{p}))
			m.OpCode = dhcpv4.OpcodeBootReply
			return m.ToBytes()
		}
		var call func(ctx context.Context, x byte) callOutcome
		var closer func()
		if v6 {
			c, err := nclient6.NewWithConn(conn, labHW, nclient6.WithTimeout(100*time.Millisecond), nclient6.WithRetry(1))
			if err != nil {
				t.Fatal(err)
			}
			closer = func() { c.Close() }
			call = func(ctx context.Context, x byte) callOutcome {
				req := &dhcpv6.Message{MessageType: dhcpv6.MessageTypeSolicit, TransactionID: dhcpv6.TransactionID{0, 0, x}}
				return classify6(c.SendAndRead(ctx, nclient6.AllDHCPRelayAgentsAndServers, req, nil))
			}
		} else {
			c, err := nclient4.NewWithConn(conn, labHW, nclient4.WithTimeout(100*time.Millisecond), nclient4.WithRetry(1))
			if err != nil {
				t.Fatal(err)
			}
			closer = func() { c.Close() }
			call = func(ctx context.Context, x byte) callOutcome {
				req, _ := dhcpv4.NewDiscovery(labHW, dhcpv4.WithTransactionID(dhcpv4.TransactionID{0, 0, 0, x}))
				return classify4(c.SendAndRead(ctx, &net.UDPAddr{IP: net.IPv4bcast, Port: 67}, req, nil))
			}
		}
		send := func(b []byte) {
			select {
			case conn.in <- b:
			case <-conn.closed:
			}
		}
		push := func(b []byte) {
			send(b)
			synctest.Wait()
		}
		// call A, ending in the given way
		switch ending {
		case 0:
			conn.mu.Lock()
			conn.failWrites = 1
			conn.mu.Unlock()
			call(context.Background(), 7)
		case 1:
			call(context.Background(), 7)
		case 2:
			ctx, cancel := context.WithCancel(context.Background())
			go func() { time.Sleep(30 * time.Millisecond); cancel() }()
			call(ctx, 7)
		case 3:
			go func() { time.Sleep(10 * time.Millisecond); send(mk(7, 1)) }()
			call(context.Background(), 7)
		}
		synctest.Wait()
		// call B waits; late datagrams for A's id arrive; then B's answer
		doneB := make(chan struct{})
		go func() { defer close(doneB); b = call(context.Background(), 8) }()
		synctest.Wait()
		for i := 0; i < 7; i++ {
			push(mk(7, byte(50+i)))
		}
		push(mk(8, 99))
		<-doneB
		// and id 7 is free again
		go func() { time.Sleep(10 * time.Millisecond); send(mk(7, 77)) }()
		reuse = call(context.Background(), 7)
		closer()
		synctest.Wait()
	})
	return
}

func checkHeldMatcher(r *Run, v6 bool, n, acceptFrom int) {
	payloads := make([]byte, n)
	for i := range payloads {
		payloads[i] = byte(10 + i)
	}
	seen, out := heldMatcherScenario(v6, payloads, acceptFrom)
	what := fmt.Sprintf("v6=%v: matcher held on the first of %d datagrams with the call's id, acceptable from position %d", v6, n, acceptFrom)
	wantSeen := n
	if acceptFrom < n {
		wantSeen = acceptFrom + 1
	}
	if len(seen) != wantSeen {
		r.Fail("c10-solicited-datagram-lost", what, fmt.Sprintf("the matcher saw %v, want the first %d of %v in arrival order", seen, wantSeen, payloads))
		return
	}
	for i := range seen {
		if seen[i] != payloads[i] {
			r.Fail("c10-arrival-order", what, fmt.Sprintf("the matcher saw %v, arrival order %v", seen, payloads))
			return
		}
	}
	if acceptFrom < n && (out.status != 1 || out.payload != payloads[acceptFrom]) {
		r.Fail("c10-first-acceptable", what, fmt.Sprintf("call returned status %d payload %d, want payload %d", out.status, out.payload, payloads[acceptFrom]))
	}
	if acceptFrom >= n && out.status == 1 {
		r.Fail("c10-returned-rejected", what, fmt.Sprintf("call returned payload %d although the matcher rejected everything", out.payload))
	}
}

// collidingCallers: n calls with the same transaction id start at the same moment on one client.
// Exactly one may be admitted (it stays waiting); every other one must be refused.
func collidingCallers(v6 bool, n int) (waiting, refused, other int) {
	bubbleNote = fmt.Sprintf("v6=%v: %d simultaneous calls with one transaction id", v6, n)
	runBubble(func(t *testing.T) {
		conn := newLabConn()
		var c4 *nclient4.Client
		var c6 *nclient6.Client
		if v6 {
			c6, _ = nclient6.NewWithConn(conn, labHW, nclient6.WithTimeout(time.Hour), nclient6.WithRetry(1))
		} else {
			c4, _ = nclient4.NewWithConn(conn, labHW, nclient4.WithTimeout(time.Hour), nclient4.WithRetry(1))
		}
		start := make(chan struct{})
		outs := make([]callOutcome, n)
		finished := make([]bool, n)
		var mu sync.Mutex
		var wg sync.WaitGroup
		for j := 0; j < n; j++ {
			wg.Add(1)
			go func(j int) {
				defer wg.Done()
				var o callOutcome
				if v6 {
					req := &dhcpv6.Message{MessageType: dhcpv6.MessageTypeSolicit, TransactionID: dhcpv6.TransactionID{0, 0, 5}}
					<-start
					resp, err := c6.SendAndRead(context.Background(), nclient6.AllDHCPRelayAgentsAndServers, req, nil)
					o = classify6(resp, err)
				} else {
					req, _ := dhcpv4.NewDiscovery(labHW, dhcpv4.WithTransactionID(dhcpv4.TransactionID{0, 0, 0, 5}))
					dest := &net.UDPAddr{IP: net.IPv4bcast, Port: 67}
					<-start
					resp, err := c4.SendAndRead(context.Background(), dest, req, nil)
					o = classify4(resp, err)
				}
				mu.Lock()
				outs[j], finished[j] = o, true
				mu.Unlock()
			}(j)
		}
		synctest.Wait()
		close(start)
		synctest.Wait()
		mu.Lock()
		for j := 0; j < n; j++ {
			switch {
			case !finished[j]:
				waiting++
			case outs[j].status == 2:
				refused++
			default:
				other++
			}
		}
		mu.Unlock()
		if v6 {
			c6.Close()
		} else {
			c4.Close()
		}
		wg.Wait()
		synctest.Wait()
	})
	return
}
