#!/usr/bin/env python3
"""Run the registered quick checks against each seeded change in /verif/seeded/<id>/.

For each seed: git -C /repo apply patch.diff; run ./check for the seed's property
(and any extra properties given in meta.json "also_check"); git -C /repo checkout -- .
Writes seeded/<id>/result.json and seeded/README.md.  Never commits in /repo.
usage: tools/seedtest.py [id ...] [--all-props]
"""
import json, os, subprocess, sys, re, time
ROOT = os.path.dirname(os.path.dirname(os.path.abspath(__file__)))
SEED = os.path.join(ROOT, "seeded")
REPO = "/repo"

TOUCHED = set()

def sh(cmd, **kw):
    p = subprocess.run(cmd, stdout=subprocess.PIPE, stderr=subprocess.STDOUT, text=True, **kw)
    return p.returncode, p.stdout

def clean_repo():
    rc, out = sh(["git", "-C", REPO, "status", "--porcelain"])
    return out.strip() == ""

def main():
    args = [a for a in sys.argv[1:] if not a.startswith("--")]
    allprops = "--all-props" in sys.argv
    ids = args or sorted(d for d in os.listdir(SEED) if os.path.isdir(os.path.join(SEED, d)))
    if not clean_repo():
        print("/repo is dirty; refusing"); return 2
    for sid in ids:
        d = os.path.join(SEED, sid)
        meta = json.load(open(os.path.join(d, "meta.json")))
        prop = meta.get("property") or sid.split("-")[0]
        props = [prop] + meta.get("also_check", [])
        if allprops:
            props = ["C%02d" % i for i in range(1, 21)]
        rc, out = sh(["git", "-C", REPO, "apply", os.path.join(d, "patch.diff")])
        if rc != 0:
            print(sid, "patch does not apply:", out); continue
        res = {}
        try:
            for p in props:
                TOUCHED.add(p)
                t0 = time.time()
                rc, out = sh([os.path.join(ROOT, "check"), p, "--tier", "quick", "--seed", "1"], cwd=ROOT)
                line = [l for l in out.splitlines() if l.startswith(("VIOLATION", "OK", "KNOWN"))]
                rep = None
                m = re.search(r"replay=(\S+)", out)
                if m and os.path.exists(os.path.join(ROOT, m.group(1))):
                    r = json.load(open(os.path.join(ROOT, m.group(1))))
                    rep = {k: (str(r.get(k))[:300]) for k in ("kind", "clause", "input", "case", "theorem_or_lemma", "what") if r.get(k) is not None}
                res[p] = {"rc": rc, "line": line[-1] if line else out[-300:], "replay": rep, "wall_s": round(time.time() - t0, 1)}
                print(sid, p, rc, res[p]["line"], flush=True)
        finally:
            sh(["git", "-C", REPO, "checkout", "--", "."])
            sh(["git", "-C", REPO, "clean", "-fdq"])
        old = {}
        rp = os.path.join(d, "result.json")
        if os.path.exists(rp):
            old = json.load(open(rp)).get("checks", {})
        old.update(res)
        json.dump({"seed": sid, "property": prop, "checks": old,
                   "caught_by": sorted(p for p, r in old.items() if r["rc"] == 1)}, open(rp, "w"), indent=1)
    # restore clean-tree generated files and evidence for the touched properties
    for p in sorted(TOUCHED):
        rc, out = sh([os.path.join(ROOT, "check"), p, "--tier", "quick", "--seed", "1"], cwd=ROOT)
        print("clean tree", p, rc, out.strip().splitlines()[-1], flush=True)
    readme()
    return 0

def readme():
    rows = []
    for sid in sorted(os.listdir(SEED)):
        d = os.path.join(SEED, sid)
        if not os.path.isdir(d) or not os.path.exists(os.path.join(d, "meta.json")):
            continue
        meta = json.load(open(os.path.join(d, "meta.json")))
        res = json.load(open(os.path.join(d, "result.json"))) if os.path.exists(os.path.join(d, "result.json")) else {}
        caught = res.get("caught_by", [])
        how = []
        for p in caught:
            r = res["checks"][p]
            k = (r.get("replay") or {}).get("kind", "?")
            nf = " (no-failing-input-found)" if "no-failing-input-found" in r["line"] else ""
            how.append("%s: %s%s" % (p, k, nf))
        rows.append("| %s | %s | %s | %s |" % (sid, meta.get("property") or sid.split("-")[0],
                    (meta.get("what_changed", "")[:160]).replace("|", "/").replace("\n", " "),
                    "; ".join(how) if how else ("**missed**" if res else "not run")))
    with open(os.path.join(SEED, "README.md"), "w") as f:
        f.write("# Seeded property-breaking changes\n\nEach directory holds `patch.diff` (applies to /repo's HEAD), the demonstration "
                "(fails with the change, passes without; the repository's suite passes with the change), `meta.json` and `result.json` "
                "(what the registered quick checks reported with the patch applied; written by `tools/seedtest.py`).\n\n"
                "replay kinds: `oracle` = a direct property oracle failed on the real code with a concrete input; `input` = model and code differ on a "
                "concrete input; `obligation` = a Coq tie lemma / proof / build no longer checks.\n\n"
                "| seed | property | change | caught by |\n|---|---|---|---|\n" + "\n".join(rows) + "\n")

if __name__ == "__main__":
    if "--readme" in sys.argv:
        readme()
    else:
        sys.exit(main())
