(** C18, what delivery does NOT depend on: the octets of the IPv4 header that the reader never
    looks at - type of service (1), identification (4-5), flags and fragment offset (6-7, the
    Don't-Fragment bit every ordinary UDP socket sets is here), time to live (8), header checksum
    (10-11).  Overwriting any of them with any value leaves the reading of the frame unchanged:
    same verdict (skip / deliver), same payload, same source. *)
From Coq Require Import List Arith Lia Bool NArith ZArith.
Import ListNotations.
From DV Require Import Base.Bytes Raw.Model.

Fixpoint set_nth (i : nat) (v : byte) (l : bytes) : bytes :=
  match l, i with
  | [], _ => []
  | _ :: r, O => v :: r
  | a :: r, S k => a :: set_nth k v r
  end.

Lemma set_nth_length i v : forall l, length (set_nth i v l) = length l.
Proof. induction i as [|i IH]; intros [|a l]; cbn [set_nth length]; auto. Qed.

Lemma nth_set_nth_other k i v d : k <> i -> forall l, nth k (set_nth i v l) d = nth k l d.
Proof.
  revert k. induction i as [|i IH]; intros k Hk [|a l]; cbn [set_nth]; try reflexivity.
  - destruct k; [congruence | reflexivity].
  - destruct k; [reflexivity|]. cbn [nth]. apply IH. lia.
Qed.

Lemma firstn_set_nth n i v : forall l, firstn n (set_nth i v l) = set_nth i v (firstn n l).
Proof.
  revert i. induction n as [|n IH]; intros i l.
  - destruct l, i; reflexivity.
  - destruct l as [|a l]; [destruct i; reflexivity|].
    destruct i; cbn [set_nth firstn]; [reflexivity|]. rewrite IH. reflexivity.
Qed.

Lemma skipn_set_nth_lt h i v : i < h -> forall l, skipn h (set_nth i v l) = skipn h l.
Proof.
  revert i. induction h as [|h IH]; intros i Hi l; [lia|].
  destruct l as [|a l]; [destruct i; reflexivity|].
  destruct i; cbn [set_nth skipn]; [reflexivity|]. apply IH. lia.
Qed.

Definition dont_care (i : nat) : bool :=
  match i with 1 | 4 | 5 | 6 | 7 | 8 | 10 | 11 => true | _ => false end.

Lemma dont_care_facts i : dont_care i = true -> i < 12 /\ i <> 0 /\ i <> 2 /\ i <> 3 /\ i <> 9.
Proof.
  intros D. do 12 (destruct i as [|i]; [first [discriminate D | repeat split; lia]|]). discriminate D.
Qed.

Theorem read_frame_ignores i v bound blen f : dont_care i = true ->
  read_frame bound blen (set_nth i v f) = read_frame bound blen f.
Proof.
  intros D. destruct (dont_care_facts i D) as (L & N0 & N2 & N3 & N9).
  unfold read_frame. rewrite firstn_set_nth. set (pkt := firstn (60 + 8 + blen) f).
  rewrite set_nth_length.
  rewrite !(nth_set_nth_other 0 i v x00) by lia.
  rewrite !(nth_set_nth_other 2 i v x00) by lia.
  rewrite !(nth_set_nth_other 3 i v x00) by lia.
  rewrite !(nth_set_nth_other 9 i v x00) by lia.
  destruct (length pkt <? 20); [reflexivity|].
  set (h := N.to_nat (b2n (nth 0 pkt x00) mod 16 * 4 mod 256)).
  destruct (h <? 20) eqn:H20; [reflexivity|]. apply Nat.ltb_ge in H20.
  unfold slice.
  rewrite (skipn_set_nth_lt h i v) by lia.
  rewrite (skipn_set_nth_lt 16 i v) by lia.
  rewrite (skipn_set_nth_lt 12 i v) by lia.
  reflexivity.
Qed.

(** any number of such octets, any values: a whole header rewritten in its don't-care positions *)
Theorem read_frame_ignores_all (ws : list (nat * byte)) bound blen f :
  Forall (fun w => dont_care (fst w) = true) ws ->
  read_frame bound blen (fold_left (fun g w => set_nth (fst w) (snd w) g) ws f) = read_frame bound blen f.
Proof.
  intros F. revert f. induction F as [|w ws Hw F IH]; intros f; [reflexivity|].
  cbn [fold_left]. rewrite IH. apply read_frame_ignores. exact Hw.
Qed.

(** non-vacuity: the Don't-Fragment flag on a frame that is delivered *)
Example dont_fragment_example :
  let f := udp4pkt [x01; x02; x03] (mkAddr (Some [x0a; x00; x00; x02]) 68) (mkAddr (Some [x0a; x00; x00; x01]) 67) in
  read_frame None 100 (set_nth 6 x40 f) = read_frame None 100 f /\ nth 6 (set_nth 6 x40 f) x00 <> nth 6 f x00
  /\ exists p s sp, read_frame None 100 f = Ok (Deliver p s sp).
Proof. vm_compute. repeat split; [discriminate | eauto]. Qed.
