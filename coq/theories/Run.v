(** Dispatcher used by the correspondence check: every modelled entry point
    of the library as a function from a list of byte strings to a result
    class and a list of byte strings (the projected observables).  The Go
    harness implements the same table on top of the real code. *)
From DV Require Import Base.Bytes Label.Model V4.Model V4.Accessors V4.Builders V6.Model V6.Dump V6.Relay Raw.Model Client.Call Client.Routing Client.Macro Client.Delivery Client.Reuse Client.Lease Server.Model.


(** entry 1: rfc1035label.FromBytes(b) -> Labels *)
Definition e_label_from (args : list bytes) : res (list bytes) :=
  match args with
  | [b] => labels_from_bytes b
  | _ => Err
  end.

(** entry 2: labelsToBytes via (&Labels{Labels: ns}).ToBytes() *)
Definition e_label_to (args : list bytes) : res (list bytes) :=
  Ok [obytes (labels_to (mkLabels None args))].

(** entry 3: FromBytes(b) then ToBytes *)
Definition e_label_reenc (args : list bytes) : res (list bytes) :=
  match args with
  | [b] => let* l := labels_from (Some b) in Ok [obytes (labels_to l)]
  | _ => Err
  end.

(** entry 4: FromBytes(b), then replace .Labels by the remaining args, ToBytes *)
Definition e_label_edit (args : list bytes) : res (list bytes) :=
  match args with
  | b :: ns => let* l := labels_from (Some b) in
               Ok [obytes (labels_to (mkLabels (original l) ns))]
  | _ => Err
  end.

(** * DHCPv4 packets *)
Definition obs_ip (ip : goip) : bytes := obytes ip.
Definition all_keys_sorted (m : optmap) : list byte := sort_codes (map fst m).
Definition obs_opts (m : optmap) : list bytes :=
  flat_map (fun c => [[c]; match lookup c m with Some v => v | None => [] end]) (all_keys_sorted m).
Definition obs_pkt4 (p : pkt4) : list bytes :=
  [[n2b (p_op p)]; be16 (p_hwtype p); [n2b (p_hops p)]; p_xid p; be16 (p_secs p); be16 (p_flags p);
   obs_ip (p_ciaddr p); obs_ip (p_yiaddr p); obs_ip (p_siaddr p); obs_ip (p_giaddr p);
   p_chaddr p; p_sname p; p_file p] ++ obs_opts (p_opts p).

Definition n_of_bytes := n_of_be.
Definition ip_of_arg (b : bytes) : goip := match b with [] => None | _ => Some b end.

Fixpoint opts_of_args (a : list bytes) (m : optmap) : optmap :=
  match a with
  | [c] :: v :: a' => opts_of_args a' (update_opt m c v)
  | _ => m
  end.

(** packet from structured arguments (the generator's representation) *)
Definition pkt_of_args (a : list bytes) : option pkt4 :=
  match a with
  | op :: hw :: hops :: xid :: secs :: flags :: ci :: yi :: si :: gi :: ch :: sn :: fl :: opts =>
    Some (mkPkt4 (n_of_bytes op) (n_of_bytes hw) (n_of_bytes hops) xid (n_of_bytes secs) (n_of_bytes flags)
                 (ip_of_arg ci) (ip_of_arg yi) (ip_of_arg si) (ip_of_arg gi) ch sn fl (opts_of_args opts []))
  | _ => None
  end.

(** entry 10: dhcpv4.FromBytes(b) -> public fields and options *)
Definition e_v4_dec (args : list bytes) : res (list bytes) :=
  match args with [b] => let* p := dec4 b in Ok (obs_pkt4 p) | _ => Err end.
(** entry 11: packet built from fields -> ToBytes *)
Definition e_v4_enc (args : list bytes) : res (list bytes) :=
  match pkt_of_args args with Some p => let* b := enc4 p in Ok [b] | None => Err end.
(** entry 12: FromBytes(b).ToBytes() *)
Definition e_v4_reenc (args : list bytes) : res (list bytes) :=
  match args with [b] => let* p := dec4 b in let* b1 := enc4 p in Ok [b1] | _ => Err end.
(** entry 13: Options.FromBytes(b) (no End required) -> options *)
Definition e_v4_opts (args : list bytes) : res (list bytes) :=
  match args with [b] => let* m := opts_from_bytes b false [] in Ok (obs_opts m) | _ => Err end.
(** entry 14: packet built from fields -> ToBytes -> FromBytes -> fields *)
Definition e_v4_encdec (args : list bytes) : res (list bytes) :=
  match pkt_of_args args with
  | Some p => let* b := enc4 p in let* p' := dec4 b in Ok (obs_pkt4 p')
  | None => Err end.

(** * DHCPv6 *)
(** entry 20: dhcpv6.FromBytes(b) -> value tree *)
Definition e_v6_dec (args : list bytes) : res (list bytes) :=
  match args with [b] => let* m := dec_msg b in Ok (dump_msg m) | _ => Err end.
(** entry 21: FromBytes(b).ToBytes() *)
Definition e_v6_reenc (args : list bytes) : res (list bytes) :=
  match args with
  | [b] => let* m := dec_msg b in if msg_panics m then Panic else Ok [enc_msg m]
  | _ => Err end.
(** entry 22: ParseOption(code, data) -> value tree *)
Definition e_v6_opt (args : list bytes) : res (list bytes) :=
  match args with [c; d] => let* o := parse_option (n_of_be c) d in Ok (dump_opt o) | _ => Err end.
(** entry 23/24: MessageFromBytes / RelayMessageFromBytes *)
Definition e_v6_message (args : list bytes) : res (list bytes) :=
  match args with [b] => let* m := dec_message b in Ok (dump_msg m) | _ => Err end.
Definition e_v6_relay (args : list bytes) : res (list bytes) :=
  match args with [b] => let* m := dec_relay b in Ok (dump_msg m) | _ => Err end.
(** entry 25: DUIDFromBytes *)
Definition e_v6_duid (args : list bytes) : res (list bytes) :=
  match args with [b] => let* d := dec_duid b in Ok (dump_duid d ++ [enc_duid d]) | _ => Err end.
(** entry 26: ParseOption(code, data).ToBytes() *)
Definition e_v6_opt_reenc (args : list bytes) : res (list bytes) :=
  match args with
  | [c; d] => let* o := parse_option (n_of_be c) d in if opt_panics o then Panic else Ok [enc_val o]
  | _ => Err end.

(** * DHCPv4 typed accessors (entry 30): args = accessor id, presence flag, raw value *)
Definition some_flag : bytes := [x01].
Definition none_flag : bytes := [x00].
Definition obs_opt_bytes (o : option bytes) : list bytes := match o with Some v => [some_flag; v] | None => [none_flag] end.
Definition obs_opt_list (o : option (list bytes)) : list bytes := match o with Some l => some_flag :: l | None => [none_flag] end.

Definition accessor_obs (id : N) (g : option bytes) : list bytes :=
  match id with
  | 1 => obs_opt_bytes (acc_ip g)
  | 2 => obs_opt_list (acc_ips g)
  | 3 => [acc_string g]
  | 4 => [acc_string_trim g]
  | 5 | 6 => match acc_duration g with Some n => [some_flag; be32 n] | None => [none_flag] end
  | 7 => match acc_u16 g with Some n => [some_flag; be16 n] | None => [none_flag] end
  | 8 => match acc_u8 g with Some n => [some_flag; [n2b n]] | None => [none_flag] end
  | 9 => [[n2b (match acc_u8 g with Some n => n | None => 0 end)]]
  | 10 => obs_opt_bytes (acc_prl g)
  | 11 => match acc_relay g with Some m => some_flag :: obs_opts m | None => [none_flag] end
  | 12 => obs_opt_bytes (acc_ip g)
  | 13 => obs_opt_list (acc_user_class g)
  | 14 => match acc_vivc g with
          | Some l => some_flag :: flat_map (fun e => [be32 (fst e); snd e]) l | None => [none_flag] end
  | 15 => match acc_archs g with Some l => [some_flag; flat_map be16 l] | None => [none_flag] end
  | 16 => obs_opt_list (acc_domain_search g)
  | 17 => match acc_routes g with
          | Some l => some_flag :: flat_map (fun r => [[n2b (r_ones r)]; r_dest r; r_router r]) l | None => [none_flag] end
  | _ => []
  end%N.

Definition e_v4_accessor (args : list bytes) : res (list bytes) :=
  match args with
  | [id; flag; v; _] =>        (* 4th argument: the option code the Go accessor reads (not interpreted) *)
    let g := match flag, v with [x01], _ :: _ => Some v | _, _ => None end in
    Ok (accessor_obs (n_of_be id) g)
  | _ => Err
  end.

(** * DHCPv4 builders (entry 40): args = builder id, n, n packet args (source packet), then modifier triples *)
Fixpoint mods_of_args (src : pkt4) (a : list bytes) : list modifier :=
  match a with
  | k :: x :: y :: r =>
    let m := match n_of_be k with
      | 1 => MXid x | 2 => MClientIP (ip_of_arg x) | 3 => MYourIP (ip_of_arg x) | 4 => MServerIP (ip_of_arg x)
      | 5 => MGatewayIP (ip_of_arg x) | 6 => MOptCopied src (nth 0 x x00) | 7 => MReply src
      | 8 => MHWType (n_of_be x) | 9 => MBroadcast (match x with [x01] => true | _ => false end)
      | 10 => MHwAddr x | 11 => MGeneric (nth 0 x x00) y | 12 => MWithout (nth 0 x x00)
      | 13 => MMsgType (n_of_be x) | 14 => MRequested x | 15 => MRelay (ip_of_arg x)
      | 16 => MNetmask x | _ => MLeaseTime (n_of_be x)
      end%N in
    m :: mods_of_args src r
  | _ => []
  end.

Definition e_v4_build (args : list bytes) : res (list bytes) :=
  match args with
  | bid :: cnt :: rest =>
    let n := N.to_nat (n_of_be cnt) in
    match pkt_of_args (firstn n rest) with
    | Some src =>
      let user := mods_of_args src (skipn n rest) in
      let defaults := match n_of_be bid with
        | 1 => defaults_reply_from_request src | 2 => defaults_request_from_offer src
        | 3 => defaults_renew_from_ack src | 4 => defaults_release_from_ack src
        | 5 => defaults_inform (p_chaddr src) (p_ciaddr src) | 6 => defaults_discovery (p_chaddr src)
        | _ => []
        end%N in
      Ok (obs_pkt4 (new_with (zeros 4) defaults user))
    | None => Err
    end
  | _ => Err
  end.

(** * DHCPv6 relay functions and builders (entries 50-57); messages travel as wire bytes *)
Definition e_v6_encap (args : list bytes) : res (list bytes) :=
  match args with
  | [w; t; l; p] => let* m := dec_msg w in let* r := encapsulate m (n_of_be t) l p in Ok (dump_msg r)
  | _ => Err end.
Definition e_v6_decap (args : list bytes) : res (list bytes) :=
  match args with [w] => let* m := dec_msg w in let* r := decapsulate m in Ok (dump_msg r) | _ => Err end.
Definition e_v6_inner (args : list bytes) : res (list bytes) :=
  match args with [w] => let* m := dec_msg w in let* r := inner_message (S (length w)) m in Ok (dump_msg r) | _ => Err end.
Definition e_v6_decap_index (args : list bytes) : res (list bytes) :=
  match args with
  | [w; i] => let* m := dec_msg w in
              let* r := decapsulate_index (S (length w)) m (Z.of_N (n_of_be i) - 10) in Ok (dump_msg r)
  | _ => Err end.
Definition e_v6_relay_repl (args : list bytes) : res (list bytes) :=
  match args with
  | [w; rw] => let* relay := dec_msg w in let* reply := dec_msg rw in
               if is_relay reply then Err
               else let* r := relay_repl_from_forw (S (length w)) relay reply in Ok (dump_msg r)
  | _ => Err end.
Definition e_v6_advertise (args : list bytes) : res (list bytes) :=
  match args with [w] => let* m := dec_msg w in let* r := new_advertise_from_solicit m in Ok (dump_msg r) | _ => Err end.
Definition e_v6_request (args : list bytes) : res (list bytes) :=
  match args with [w] => let* m := dec_msg w in let* r := new_request_from_advertise (zeros 3) m in Ok (dump_msg r) | _ => Err end.
Definition e_v6_reply (args : list bytes) : res (list bytes) :=
  match args with [w] => let* m := dec_msg w in let* r := new_reply_from_message m in Ok (dump_msg r) | _ => Err end.

(** * raw IPv4/UDP connection (entries 60, 61) *)
Definition e_raw_write (args : list bytes) : res (list bytes) :=
  match args with
  | [payload; dip; dport; sip; sport] =>
    Ok [udp4pkt payload (mkAddr (ip_of_arg dip) (n_of_be dport)) (mkAddr (ip_of_arg sip) (n_of_be sport))]
  | _ => Err
  end.

Fixpoint read_all (fuel : nat) (bound : option udpaddr) (blen : nat) (frames : list bytes) : res (list bytes) :=
  match fuel with
  | O => Fuel
  | S f =>
    match frames with
    | [] => Ok []
    | _ =>
      let* (r, rest) := read_from bound blen frames in
      let* more := read_all f bound blen rest in
      match r with
      | Delivered p s sp => Ok ([x01] :: p :: s :: be16 sp :: more)
      | EOF => Ok ([xee] :: more)
      | ConnError => Ok more
      end
    end
  end.

(** args: bound kind (0 = nil bound, 1 = port only, 2 = ip+port), bound ip, bound port, len(b) as 2 octets, frames... *)
Definition e_raw_read (args : list bytes) : res (list bytes) :=
  match args with
  | kind :: bip :: bport :: blen :: frames =>
    let bound := match n_of_be kind with
                 | 0 => None
                 | 1 => Some (mkAddr None (n_of_be bport))
                 | _ => Some (mkAddr (Some bip) (n_of_be bport))
                 end%N in
    read_all (S (length frames)) bound (N.to_nat (n_of_be blen)) frames
  | _ => Err
  end.

(** * timed client call (entry 70): args = timeout (ms, 4 octets), tries (1 octet), cancel instant (4 octets or empty),
      close instant (4 octets or empty), then one 5-octet argument per delivery: instant (ms) ++ accepted flag *)
Definition z_of_arg (b : bytes) : Z := Z.of_N (n_of_be b).
Definition opt_time (b : bytes) : option Z := match b with [] => None | _ => Some (z_of_arg b) end.
Definition delivery_of_arg (b : bytes) : Z * bool :=
  (z_of_arg (firstn 4 b), match skipn 4 b with [x01] => true | _ => false end).
Definition e_timed_call (args : list bytes) : res (list bytes) :=
  match args with
  | tau :: tries :: cancel :: close :: ds =>
    let r := run_call false (N.to_nat (n_of_be tries)) 0 (z_of_arg tau) (opt_time cancel) (opt_time close)
                             (map delivery_of_arg ds) in
    Ok (map (fun t => be32 (Z.to_N t)) (transmissions r)
        ++ [[match result r with Got => x01 | NoResponse => x02 | CtxError => x03 end]; be32 (Z.to_N (end_time r))])
  | _ => Err
  end.

(** * concurrent calls on one client (entries 72 nclient4, 73 nclient6): macro-step routing *)
Definition mevent_of_arg (b : bytes) : option mevent :=
  match b with
  | [k; j] => if (bnat k =? 0)%nat then Some (MStart (bnat j)) else if (bnat k =? 2)%nat then Some (MCancel (bnat j)) else None
  | [_; x; p; kind] => Some (MInject (bnat x) (bnat p) (bnat kind))
  | _ => None
  end.
Fixpoint mevents_of_args (a : list bytes) : list mevent :=
  match a with [] => [] | b :: r => match mevent_of_arg b with Some e => e :: mevents_of_args r | None => mevents_of_args r end end.
Definition e_routing (args : list bytes) : res (list bytes) :=
  match args with
  | xids :: ths :: evs =>
    let cs := map (fun xt => mkCall (bnat (fst xt)) (bnat (snd xt)) 0 0 None) (combine xids ths) in
    let m := macro_run cs (mevents_of_args evs) in
    Ok (flat_map (fun c => [[n2b (N.of_nat (if (c_status c =? 10)%nat then 4 else c_status c))];
                            if (c_status c =? 1)%nat then [n2b (N.of_nat (c_payload c))] else []]) (calls m))
  | _ => Err
  end.

(** * a call whose matcher is held while datagrams for it pile up (entries 74 nclient4, 75 nclient6):
      args = the payloads in arrival order, the position of the first acceptable one;
      result = what the matcher sees, then the status (1 + payload: returned, 4: nothing acceptable) *)
Definition e_held_matcher (args : list bytes) : res (list bytes) :=
  match args with
  | ps :: [af] :: _ =>
    let seen := matcher_sees (map bnat ps) (bnat af) in
    let last := List.last seen 0%nat in
    Ok [map (fun p => n2b (N.of_nat p)) seen;
        if (bnat af <? length seen)%nat then [x01; n2b (N.of_nat last)] else [n2b 4]]
  | _ => Err
  end.

(** * an id reused at once after a call that returned with a full buffer (entries 76 nclient4, 77 nclient6):
      args = the payloads that arrive for the first call, the payload of the second call's answer;
      result = what the first call received, what the second received *)
Definition e_reuse (args : list bytes) : res (list bytes) :=
  match args with
  | ps :: [pb] :: _ =>
    let '(ga, gb, _) := reuse_scenario (map bnat ps) (bnat pb) in
    Ok [map (fun p => n2b (N.of_nat p)) ga; map (fun p => n2b (N.of_nat p)) gb]
  | _ => Err
  end.

(** * servers (entries 80 server4, 81 server6): args = one per ReadFrom result *)
Definition fixed_peer_v4 : bytes := [n2b 10; x01; x02; x03].
Definition fixed_peer_v6 : bytes := [xfe; n2b 128] ++ zeros 13 ++ [x01].
Definition read_of_arg (b : bytes) : option read_result :=
  match b with
  | k :: pk :: ph :: pl :: payload =>
    if (bnat k =? 0)%nat then
      let port := rd16 ph pl in
      Some (Datagram payload
        (match bnat pk with
         | 0 => PeerUDP None port
         | 1 => PeerUDP (Some (zeros 4)) port
         | 2 => PeerUDP (Some fixed_peer_v4) port
         | 3 => PeerUDP (Some fixed_peer_v6) port
         | 5 => PeerUDP (Some (v4_in_v6_prefix ++ zeros 4)) port
         | _ => PeerOther
         end)%nat)
    else Some ReadError
  | _ => Some ReadError
  end.
Fixpoint reads_of_args (a : list bytes) : list read_result :=
  match a with [] => [] | b :: r => match read_of_arg b with Some x => x :: reads_of_args r | None => reads_of_args r end end.

Definition e_server4 (args : list bytes) : res (list bytes) :=
  let (invs, exited) := serve4 (reads_of_args args) [] in
  Ok (flat_map (fun i => [i4_ip i; be16 (i4_port i); enc4_bytes (i4_msg i)]) invs ++ [[if exited then x01 else x00]]).
Definition e_server6 (args : list bytes) : res (list bytes) :=
  let (invs, exited) := serve6 (reads_of_args args) [] in
  Ok (flat_map (fun i => match i6_peer i with
                         | PeerUDP ip port => [obytes ip; be16 port; enc_msg (i6_msg i)]
                         | PeerOther => [[]; []; enc_msg (i6_msg i)]
                         end) invs ++ [[if exited then x01 else x00]]).

(** * lease exchanges (entry 90 nclient4.Request, 91 nclient6.RapidSolicit):
      args = hardware address (v4) / solicit id (v6), transaction id (v4) / request id (v6), n1, then the n1 datagrams of
      phase 1 and the datagrams of phase 2, in arrival order *)
Definition wire_obs (p : pkt4) : list bytes :=
  match enc4 p with Ok b => match dec4 b with Ok q => obs_pkt4 q | _ => [] end | _ => [] end.
Definition reply_obs (p : pkt4) : list bytes := [obs_ip (p_yiaddr p); [n2b (msg_type4 p)]; obytes (server_id p)].
Definition e_lease4 (args : list bytes) : res (list bytes) :=
  match args with
  | hw :: xid :: n1 :: ws =>
    let k := N.to_nat (n_of_be n1) in
    match lease_exchange hw xid (firstn k ws) (skipn k ws) with
    | NoOffer => Ok [[x01]]
    | NoAnswer o rq => Ok ([x02] :: wire_obs rq ++ reply_obs o)
    | Leased o rq a => Ok ([x03] :: wire_obs rq ++ reply_obs o ++ reply_obs a)
    | Nak o rq a => Ok ([x04] :: wire_obs rq ++ reply_obs o ++ reply_obs a)
    end
  | _ => Err
  end.
Definition e_lease6 (args : list bytes) : res (list bytes) :=
  match args with
  | sx :: rx :: n1 :: ws =>
    let k := N.to_nat (n_of_be n1) in
    match rapid_solicit sx rx (firstn k ws) (skipn k ws) with
    | V6NoReply => Ok [[x01]]
    | V6Reply m => Ok ([x02] :: dump_msg m)
    | V6BuildError => Ok [[x03]]
    | V6RequestNoReply rq => Ok ([x04] :: dump_msg rq)
    | V6Requested rq r => Ok ([x05] :: dump_msg rq ++ dump_msg r)
    end
  | _ => Err
  end.

Definition run (entry : N) (args : list bytes) : res (list bytes) :=
  match entry with
  | 1 => e_label_from args
  | 2 => e_label_to args
  | 3 => e_label_reenc args
  | 4 => e_label_edit args
  | 10 => e_v4_dec args
  | 11 => e_v4_enc args
  | 12 => e_v4_reenc args
  | 13 => e_v4_opts args
  | 14 => e_v4_encdec args
  | 20 => e_v6_dec args
  | 30 => e_v4_accessor args
  | 40 => e_v4_build args
  | 50 => e_v6_encap args
  | 60 => e_raw_write args
  | 70 => e_timed_call args
  | 71 => e_timed_call args
  | 72 => e_routing args
  | 74 => e_held_matcher args
  | 75 => e_held_matcher args
  | 76 => e_reuse args
  | 77 => e_reuse args
  | 80 => e_server4 args
  | 90 => e_lease4 args
  | 91 => e_lease6 args
  | 81 => e_server6 args
  | 73 => e_routing args
  | 61 => e_raw_read args
  | 51 => e_v6_decap args
  | 52 => e_v6_inner args
  | 53 => e_v6_decap_index args
  | 54 => e_v6_relay_repl args
  | 55 => e_v6_advertise args
  | 56 => e_v6_request args
  | 57 => e_v6_reply args
  | 21 => e_v6_reenc args
  | 22 => e_v6_opt args
  | 23 => e_v6_message args
  | 24 => e_v6_relay args
  | 25 => e_v6_duid args
  | 26 => e_v6_opt_reenc args
  | _ => Err
  end%N.
