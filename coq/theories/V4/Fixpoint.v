(** C06 (DHCPv4 half): decode -> encode -> decode is a fixpoint. *)
From DV Require Import Base.Bytes V4.Model V4.OptProofs V4.Proofs V4.RoundTrip V4.Canon.

(** the only normalisation that changes a decoded value: names are cut to
    the capacity of their NUL-terminated fields *)
Definition norm4 (p : pkt4) : pkt4 :=
  mkPkt4 (p_op p) (p_hwtype p) (p_hops p) (p_xid p) (p_secs p) (p_flags p)
         (p_ciaddr p) (p_yiaddr p) (p_siaddr p) (p_giaddr p) (p_chaddr p)
         (firstn 63 (p_sname p)) (firstn 127 (p_file p)) (p_opts p).

Lemma norm4_idem p : norm4 (norm4 p) = norm4 p.
Proof. unfold norm4. cbn [p_op p_hwtype p_hops p_xid p_secs p_flags p_ciaddr p_yiaddr p_siaddr p_giaddr p_chaddr p_sname p_file p_opts]. rewrite !firstn_firstn. reflexivity. Qed.

Lemma copy_into_firstn total n s : copy_into total n (firstn n s) = copy_into total n s.
Proof. unfold copy_into. rewrite firstn_firstn, Nat.min_id. reflexivity. Qed.

Lemma enc4_norm p : enc4 (norm4 p) = enc4 p.
Proof. unfold enc4, norm4. cbn [p_op p_hwtype p_hops p_xid p_secs p_flags p_ciaddr p_yiaddr p_siaddr p_giaddr p_chaddr p_sname p_file p_opts].
  rewrite !copy_into_firstn. reflexivity. Qed.

Lemma append_keys a : forall c d x, In x (map fst (append_opt a c d)) <-> x = c \/ In x (map fst a).
Proof.
  induction a as [|[k w] a IH]; intros c d x; cbn [append_opt map fst].
  - cbn. intuition congruence.
  - destruct (beqb k c) eqn:E; cbn [map fst].
    + apply beqb_eq in E. subst k. cbn. intuition congruence.
    + cbn [In]. rewrite IH. intuition congruence.
Qed.

Lemma append_nodup a : forall c d, NoDup (map fst a) -> NoDup (map fst (append_opt a c d)).
Proof.
  induction a as [|[k w] a IH]; intros c d H; cbn [append_opt map fst].
  - repeat constructor. intros [].
  - inversion H as [|? ? Hk Ha]; subst. destruct (beqb k c) eqn:E; cbn [map fst].
    + constructor; assumption.
    + constructor; [|apply IH; exact Ha]. rewrite append_keys. intros [K|K]; [|contradiction].
      apply beqb_neq in E. congruence.
Qed.

Lemma area_denotes_inv d acc m e : area_denotes d acc m e ->
  NoDup (map fst acc) -> Forall good_code (map fst acc) ->
  NoDup (map fst m) /\ Forall good_code (map fst m).
Proof.
  induction 1 as [acc|r acc m e H IH|junk acc|c n data r acc m e Hc Hl H IH]; intros N G; auto.
  apply IH.
  - apply append_nodup. exact N.
  - apply Forall_forall. intros x Hx. apply append_keys in Hx. destruct Hx as [->|Hx]; [exact Hc|].
    rewrite Forall_forall in G. apply G. exact Hx.
Qed.

Lemma n_of_be_2 b : length b = 2 -> (n_of_be b < 65536)%N.
Proof.
  destruct b as [|x [|y [|]]]; try discriminate. intros _. cbn.
  pose proof (b2n_lt x). pose proof (b2n_lt y). lia.
Qed.

Lemma cut_nul_no_nul s : no_nul (cut_nul s).
Proof.
  unfold no_nul. induction s as [|c s IH]; cbn [cut_nul]; [intros []|].
  destruct (beqb c x00) eqn:E; [intros []|]. intros [K|K]; [|exact (IH K)].
  apply beqb_neq in E. congruence.
Qed.

Lemma cut_nul_length s : length (cut_nul s) <= length s.
Proof. induction s as [|c s IH]; cbn [cut_nul]; [lia|]. destruct (beqb c x00); cbn; lia. Qed.

Lemma no_nul_firstn n s : no_nul s -> no_nul (firstn n s).
Proof.
  unfold no_nul. intros H K. apply H. rewrite <- (firstn_skipn n s). apply in_or_app. left. exact K.
Qed.

Lemma to4_len4 b : length b = 4 -> to4 b = Some b.
Proof. intros H. unfold to4. rewrite H. reflexivity. Qed.

(** the decoder's image lies inside the encoder's domain (after [norm4]) *)
Theorem decoded_wf b m : dec4 b = Ok m -> wf4 (norm4 m) /\
  exists ci yi si gi, p_ciaddr m = Some ci /\ p_yiaddr m = Some yi /\ p_siaddr m = Some si /\ p_giaddr m = Some gi /\
                      length ci = 4 /\ length yi = 4 /\ length si = 4 /\ length gi = 4.
Proof.
  intros H. apply dec4_exact in H.
  destruct H as (op & hw & hl & hops & xid & secs & flags & ci & yi & si & gi & ch & sn & fl & area & o & e & _ &
                 Hxid & Hsecs & Hflags & Hci & Hyi & Hsi & Hgi & Hch & Hsn & Hfl & HA & ->).
  assert (HO : NoDup (map fst o) /\ Forall good_code (map fst o)).
  { destruct HA as [[_ ->]|[HA _]]; [split; constructor|].
    apply (area_denotes_inv _ _ _ _ HA); constructor. }
  split.
  - constructor; cbn [norm4 p_op p_hwtype p_hops p_xid p_secs p_flags p_ciaddr p_yiaddr p_siaddr p_giaddr p_chaddr p_sname p_file p_opts ip_wire].
    + apply b2n_lt.
    + apply b2n_lt.
    + apply b2n_lt.
    + exact Hxid.
    + apply n_of_be_2; exact Hsecs.
    + apply n_of_be_2; exact Hflags.
    + rewrite to4_len4 by exact Hci. discriminate.
    + rewrite to4_len4 by exact Hyi. discriminate.
    + rewrite to4_len4 by exact Hsi. discriminate.
    + rewrite to4_len4 by exact Hgi. discriminate.
    + rewrite firstn_length. lia.
    + split; [rewrite firstn_length; lia | apply no_nul_firstn; apply cut_nul_no_nul].
    + split; [rewrite firstn_length; lia | apply no_nul_firstn; apply cut_nul_no_nul].
    + tauto.
    + tauto.
  - exists ci, yi, si, gi. cbn. tauto.
Qed.

Lemma fold_append_nodup kvs : forall acc, NoDup (map fst acc) -> NoDup (map fst (fold_append kvs acc)).
Proof.
  induction kvs as [|[k v] r IH]; intros acc N; [exact N|].
  unfold fold_append in *. cbn [fold_left fst snd]. apply IH. apply append_nodup. exact N.
Qed.

(** pointwise equality of packets (Go maps have no order) *)
Definition pkt_equiv (a b : pkt4) : Prop :=
  p_op a = p_op b /\ p_hwtype a = p_hwtype b /\ p_hops a = p_hops b /\ p_xid a = p_xid b /\
  p_secs a = p_secs b /\ p_flags a = p_flags b /\
  p_ciaddr a = p_ciaddr b /\ p_yiaddr a = p_yiaddr b /\ p_siaddr a = p_siaddr b /\ p_giaddr a = p_giaddr b /\
  p_chaddr a = p_chaddr b /\ p_sname a = p_sname b /\ p_file a = p_file b /\
  same_options (p_opts a) (p_opts b) /\ NoDup (map fst (p_opts a)) /\ NoDup (map fst (p_opts b)).

Theorem fixpoint4 b m : dec4 b = Ok m ->
  exists b1 m2, enc4 m = Ok b1 /\ dec4 b1 = Ok m2 /\ pkt_equiv m2 (norm4 m) /\ enc4 m2 = Ok b1.
Proof.
  intros H. destruct (decoded_wf b m H) as (W & ci & yi & si & gi & Eci & Eyi & Esi & Egi & Lci & Lyi & Lsi & Lgi).
  destruct (roundtrip4 (norm4 m) W) as (b1 & ci' & yi' & si' & gi' & Wci & Wyi & Wsi & Wgi & Eb & Ed).
  cbn [norm4 p_ciaddr p_yiaddr p_siaddr p_giaddr] in Wci, Wyi, Wsi, Wgi.
  rewrite Eci in Wci. rewrite Eyi in Wyi. rewrite Esi in Wsi. rewrite Egi in Wgi.
  cbn [ip_wire] in Wci, Wyi, Wsi, Wgi.
  rewrite to4_len4 in Wci by exact Lci. rewrite to4_len4 in Wyi by exact Lyi.
  rewrite to4_len4 in Wsi by exact Lsi. rewrite to4_len4 in Wgi by exact Lgi.
  injection Wci as <-. injection Wyi as <-. injection Wsi as <-. injection Wgi as <-.
  rewrite enc4_norm in Eb.
  exists b1, (decoded_of (norm4 m) ci yi si gi).
  assert (EQ : pkt_equiv (decoded_of (norm4 m) ci yi si gi) (norm4 m)).
  { destruct W as [Wop Whw Whops Wxid Wsecs Wflags _ _ _ _ Wch Wsn Wfl Wkeys Wcodes].
    unfold pkt_equiv, decoded_of, norm4 in *.
    cbn [p_op p_hwtype p_hops p_xid p_secs p_flags p_ciaddr p_yiaddr p_siaddr p_giaddr p_chaddr p_sname p_file p_opts] in *.
    repeat split; try reflexivity; try (symmetry; assumption); try assumption.
    - intros c. destruct (Byte.byte_eq_dec c opt_pad) as [->|Np].
      + rewrite lookup_decoded_bad by (auto; intros [K _]; congruence).
        destruct (lookup opt_pad (p_opts m)) eqn:L; [|reflexivity]. exfalso.
        assert (In opt_pad (map fst (p_opts m))) by (apply lookup_in; congruence).
        rewrite Forall_forall in Wcodes. destruct (Wcodes _ H0) as [K _]. congruence.
      + destruct (Byte.byte_eq_dec c opt_end) as [->|Ne].
        * rewrite lookup_decoded_bad by (auto; intros [_ K]; congruence).
          destruct (lookup opt_end (p_opts m)) eqn:L; [|reflexivity]. exfalso.
          assert (In opt_end (map fst (p_opts m))) by (apply lookup_in; congruence).
          rewrite Forall_forall in Wcodes. destruct (Wcodes _ H0) as [_ K]. congruence.
        * apply lookup_decoded; [exact Wkeys | split; assumption].
    - (* keys of the reassembled map are unique *)
      apply fold_append_nodup. constructor. }
  split; [exact Eb | split; [exact Ed | split; [exact EQ|]]].
  rewrite <- Eb, <- (enc4_norm m).
  destruct EQ as (E1 & E2 & E3 & E4 & E5 & E6 & E7 & E8 & E9 & E10 & E11 & E12 & E13 & E14 & N1 & N2).
  apply enc4_order_independent; assumption.
Qed.
