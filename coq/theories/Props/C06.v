(** C06 — Decode->encode->decode is a fixpoint for DHCPv4 and DHCPv6. *)
From DV Require Import Base.Bytes Label.Model Label.RoundTrip V4.Model V4.OptProofs V4.Proofs V4.RoundTrip V4.Canon V4.Fixpoint
                       V6.Model V6.Wf V6.RoundTrip V6.Fixpoint V6.F12Witness V4.Length.

(** DHCPv4: for EVERY byte string the decoder accepts, encoding the decoded
    packet succeeds, the bytes decode to an equal packet (the only change:
    names cut to their NUL-terminated capacity, [norm4]; options compared
    pointwise because Go maps have no order) and encoding that packet again
    reproduces the same bytes. *)
Theorem C06_fixpoint_v4 : forall (b : bytes) (m : pkt4), dec4 b = Ok m ->
  exists b1 m2, enc4 m = Ok b1 /\ dec4 b1 = Ok m2 /\ pkt_equiv m2 (norm4 m) /\ enc4 m2 = Ok b1.
Proof. exact fixpoint4. Qed.
Print Assumptions C06_fixpoint_v4.

Theorem C06_norm4_idempotent : forall p : pkt4, norm4 (norm4 p) = norm4 p.
Proof. exact norm4_idem. Qed.
Print Assumptions C06_norm4_idempotent.

(** the decoder's image lies in the encoder's domain *)
Theorem C06_decoded_in_domain_v4 : forall (b : bytes) (m : pkt4), dec4 b = Ok m -> wf4 (norm4 m).
Proof. intros b m H. exact (proj1 (decoded_wf b m H)). Qed.
Print Assumptions C06_decoded_in_domain_v4.

(** label sets: an unmodified decoded set re-encodes to its original bytes,
    which decode to the same set (compressed and partial names included) *)
Theorem C06_labels : forall (b : bytes) (l : labels), labels_from (Some b) = Ok l ->
  labels_to l = Some b /\ dec_labels (labels_bytes l) = Ok l.
Proof.
  intros b l H. split; [exact (reencode_original b l H)|].
  unfold labels_bytes. rewrite (reencode_original b l H). exact H.
Qed.
Print Assumptions C06_labels.

(** DHCPv6: for EVERY byte string the decoder accepts, if the decoded value
    re-encodes within the 16-bit length fields ([shorts_msg]: every nested
    option value stays below 2^16 octets), the re-encoding [b1] decodes to
    [m2 = canon_msg m] and [m2] encodes to [b1] again.  [canon] changes only
    what the property allows: a decoded label set is unchanged, a freshly
    built one remembers its bytes; an embedded DHCPv4 packet becomes its own
    fixpoint (C06_fixpoint_v4). *)
Theorem C06_fixpoint_v6 : forall (b : bytes) (m : msg6), dec_msg b = Ok m -> shorts_msg m ->
  exists m2, dec_msg (enc_msg m) = Ok m2 /\ enc_msg m2 = enc_msg m /\ m2 = canon_msg m.
Proof. exact fixpoint6. Qed.
Print Assumptions C06_fixpoint_v6.

(** The side condition holds for every accepted message in which no embedded
    DHCPv4 message gets padded ([no_v4_msg]: every DHCPv4 message embedded at
    any depth re-encodes to MORE than the 300-octet BOOTP floor - in particular
    when there is none): re-encoding never grows (duplicate requested-option
    codes are dropped, DHCPv4 instances are merged, everything else keeps its
    length), so the fixpoint is unconditional there. *)
Theorem C06_fixpoint_v6_no_embedded_v4 : forall (b : bytes) (m : msg6), dec_msg b = Ok m -> no_v4_msg m ->
  exists m2, dec_msg (enc_msg m) = Ok m2 /\ enc_msg m2 = enc_msg m /\ m2 = canon_msg m.
Proof. exact fixpoint6_no_v4. Qed.
Print Assumptions C06_fixpoint_v6_no_embedded_v4.

Theorem C06_reencoding_no_longer_v6 : forall (b : bytes) (m : msg6), dec_msg b = Ok m -> no_v4_msg m ->
  length (enc_msg m) <= length b.
Proof. exact reencode_no_longer. Qed.
Print Assumptions C06_reencoding_no_longer_v6.

(** a decoded DHCPv4 packet re-encodes to at most max(300, received length) octets: the padding to the BOOTP
    minimum is the only way re-encoding can grow *)
Theorem C06_reencoding_length_v4 : forall b p, dec4 b = Ok p -> length (enc4_bytes p) <= Nat.max 300 (length b).
Proof. exact dec4_reencode_length. Qed.
Print Assumptions C06_reencoding_length_v4.

(** the decoder's image lies in the encoder's domain (C02's [wf_msg]) *)
Theorem C06_decoded_in_domain_v6 : forall (b : bytes) (m : msg6), dec_msg b = Ok m -> shorts_msg m -> wf_msg m.
Proof. exact dec_msg_wf. Qed.
Print Assumptions C06_decoded_in_domain_v6.

(** single options through ParseOption *)
Theorem C06_fixpoint_option : forall code data o, parse_option code data = Ok o -> u16 code -> shorts o ->
  parse_option (opt_code o) (enc_val o) = Ok (canon o) /\ enc_val (canon o) = enc_val o.
Proof. exact fixpoint6_option. Qed.
Print Assumptions C06_fixpoint_option.

(** Where the side condition fails the code really breaks the property
    (finding F12): an embedded DHCPv4 message shorter than 300 octets is padded
    to 300 when re-encoded, so an IA_NA holding 260 of them (63 720 octets on
    the wire) re-encodes to 79 052 octets and its length field wraps.  The
    same input is run on the real code and on the extracted model by the
    harness on every run (known finding, see known_findings.json). *)
Theorem C06_v6_refuted_when_reencoding_overflows :
  exists b m, dec_msg b = Ok m /\ N.of_nat (length b) = 63720%N /\ N.of_nat (length (enc_msg m)) = 79060%N /\
              forall m2, dec_msg (enc_msg m) <> Ok m2.
Proof. exact F12Witness.C06_v6_refuted_when_reencoding_overflows. Qed.
Print Assumptions C06_v6_refuted_when_reencoding_overflows.

(** on the encoder's domain (C02): one trip settles the value *)
Theorem C06_v6_on_domain : forall m : msg6, wf_msg m -> dec_msg (enc_msg m) = Ok (canon_msg m).
Proof. exact dec_msg_enc. Qed.
Print Assumptions C06_v6_on_domain.

(** Non-vacuity: duplicate requested-option codes, an IA prefix of length 0, a compressed name,
    a relay message: accepted, free of embedded DHCPv4, and settled after one trip. *)
Example C06_example_v6_noncanonical :
  let b := [x0c; x01] ++ zeros 32 ++ tlv 9 ([x01; x00; x00; x07] ++ tlv 6 [x00; x17; x00; x18; x00; x17]
              ++ tlv 25 (zeros 12 ++ tlv 26 (zeros 8 ++ [x00] ++ repeat xff 16))
              ++ tlv 24 [x01; x61; x00; x01; x62; xc0; x00]) in
  match dec_msg b with
  | Ok m => match dec_msg (enc_msg m) with
            | Ok m2 => bytes_eqb (enc_msg m2) (enc_msg m) && negb (bytes_eqb (enc_msg m) b)
            | _ => false end
  | _ => false end = true.
Proof. vm_compute. reflexivity. Qed.

(** Non-vacuity: a non-canonical area (pad, split option 12, junk after End) settles after one trip. *)
Example C06_example_v4_noncanonical :
  match dec4 (zeros 236 ++ cookie ++ [n2b 53; x01; x01; x00; n2b 12; x01; x61; n2b 12; x01; x62; xff; x09]) with
  | Ok m => match enc4 m with
            | Ok b1 => match dec4 b1 with
                       | Ok m2 => match enc4 m2 with
                                  | Ok b2 => bytes_eqb b1 b2 &&
                                             match lookup (n2b 12) (p_opts m), lookup (n2b 12) (p_opts m2) with
                                             | Some v, Some v2 => bytes_eqb v [x61; x62] && bytes_eqb v2 [x61; x62]
                                             | _, _ => false end
                                  | _ => false end
                       | _ => false end
            | _ => false end
  | _ => false end = true.
Proof. vm_compute. reflexivity. Qed.
