(** C17: the typed accessors return the RFC interpretation of the raw value
    when it is well-formed for its type, and the default otherwise. *)
From DV Require Import Base.Bytes Label.Model Label.Total V4.Model V4.OptProofs V4.Proofs V6.Model V6.Total V4.Accessors.

(** * fixed-size types: the reading is the value exactly when the length is right *)
Theorem acc_ip_spec g : acc_ip g =
  match g with Some v => if length v =? 4 then Some v else None | None => None end.
Proof. destruct g; reflexivity. Qed.

Theorem acc_duration_spec g n : acc_duration g = Some n <-> exists a b c d, g = Some [a; b; c; d] /\ n = rd32 a b c d.
Proof.
  split.
  - destruct g as [v|]; [|discriminate]. cbn. destruct v as [|a [|b [|c [|d [|]]]]]; try discriminate.
    intros [= <-]. exists a, b, c, d. auto.
  - intros (a & b & c & d & -> & ->). reflexivity.
Qed.

Theorem acc_u16_spec g n : acc_u16 g = Some n <-> exists a b, g = Some [a; b] /\ n = rd16 a b.
Proof.
  split.
  - destruct g as [v|]; [|discriminate]. cbn. destruct v as [|a [|b [|]]]; try discriminate.
    intros [= <-]. exists a, b. auto.
  - intros (a & b & -> & ->). reflexivity.
Qed.

Theorem acc_u8_spec g n : acc_u8 g = Some n <-> exists a, g = Some [a] /\ n = b2n a.
Proof.
  split.
  - destruct g as [v|]; [|discriminate]. cbn. destruct v as [|a [|]]; try discriminate.
    intros [= <-]. exists a. auto.
  - intros (a & -> & ->). reflexivity.
Qed.

(** address lists: non-empty concatenation of 4-octet addresses *)
Lemma chunk4_exact v l : chunk4 v = Some l <-> v = concat l /\ Forall (fun a => length a = 4) l.
Proof.
  split.
  - assert (G : forall n v, length v <= n -> forall l, chunk4 v = Some l ->
                v = concat l /\ Forall (fun a => length a = 4) l).
    { induction n as [|n IH]; intros v' Hn l'.
      - destruct v'; [|cbn in Hn; lia]. intros [= <-]. split; [reflexivity | constructor].
      - destruct v' as [|a [|b [|c [|d r]]]]; cbn [chunk4]; try discriminate.
        + intros [= <-]. split; [reflexivity | constructor].
        + destruct (chunk4 r) as [l''|] eqn:E; [|discriminate]. intros [= <-].
          destruct (IH r ltac:(cbn [length] in Hn; lia) l'' E) as [-> F].
          split; [reflexivity|]. constructor; [reflexivity | exact F]. }
    apply (G (length v) v (le_n _)).
  - intros [-> F]. induction F as [|a l Ha F IH]; [reflexivity|].
    destruct a as [|a [|b [|c [|d [|]]]]]; try discriminate. cbn [concat app chunk4]. rewrite IH. reflexivity.
Qed.

Theorem acc_ips_spec g l : acc_ips g = Some l <->
  exists v, g = Some v /\ v <> [] /\ v = concat l /\ Forall (fun a => length a = 4) l.
Proof.
  split.
  - destruct g as [v|]; [|discriminate]. cbn [acc_ips]. unfold val_ips. destruct v as [|x r] eqn:E; [discriminate|].
    rewrite <- E. intros H. apply chunk4_exact in H. exists v. subst v. split; [reflexivity|]. split; [discriminate | exact H].
  - intros (v & -> & Hne & Hv & F). cbn [acc_ips]. unfold val_ips. destruct v; [congruence|].
    apply chunk4_exact. auto.
Qed.

(** * user class (RFC 3004) *)
Definition enc_str (x : bytes) : bytes := n2b (N.of_nat (length x)) :: x.

Lemma val_strings_sound : forall f v l, val_strings f v = Ok l ->
  v = flat_map enc_str l /\ Forall (fun x => 1 <= length x <= 255) l.
Proof.
  induction f as [|f IH]; intros v l; cbn [val_strings]; [discriminate|].
  destruct v as [|n r]. { intros [= <-]. split; [reflexivity | constructor]. }
  destruct (bnat n =? 0) eqn:Z; [discriminate|]. apply Nat.eqb_neq in Z.
  destruct (take (bnat n) r) as [[x r']|] eqn:T; [|discriminate].
  destruct (val_strings f r') as [xs| | |] eqn:R; cbn [bind]; try discriminate.
  intros [= <-]. apply take_inv in T. destruct T as [-> Lx]. destruct (IH _ _ R) as [-> F].
  pose proof (bnat_lt n). split.
  - cbn [flat_map]. change (enc_str x) with (n2b (N.of_nat (length x)) :: x). rewrite Lx. unfold bnat. rewrite N2Nat.id, n2b_b2n. reflexivity.
  - constructor; [lia | exact F].
Qed.

Lemma val_strings_complete : forall l f, Forall (fun x => 1 <= length x <= 255) l -> length l < f ->
  val_strings f (flat_map enc_str l) = Ok l.
Proof.
  induction l as [|x l IH]; intros f F Hf.
  - destruct f; [lia|]. reflexivity.
  - destruct f; [cbn in Hf; lia|]. inversion F as [|? ? Hx Fl]; subst.
    cbn [flat_map]. unfold enc_str at 1. cbn [app val_strings].
    assert (B : bnat (n2b (N.of_nat (length x))) = length x) by (unfold bnat; rewrite n2b_small by lia; lia).
    rewrite B. assert (Z : (length x =? 0) = false) by (apply Nat.eqb_neq; lia). rewrite Z.
    rewrite take_app by reflexivity. rewrite IH by (auto; cbn in Hf; lia). reflexivity.
Qed.

Lemma enc_strs_length l : length l <= length (flat_map enc_str l).
Proof. induction l as [|x l IH]; cbn [flat_map length]; [lia|]. rewrite app_length. change (length (enc_str x)) with (S (length x)). lia. Qed.

Theorem strings_exact v l : strings_from v = Ok l <->
  v <> [] /\ v = flat_map enc_str l /\ Forall (fun x => 1 <= length x <= 255) l.
Proof.
  unfold strings_from. split.
  - destruct v as [|n r] eqn:E; [discriminate|]. rewrite <- E. intros H. apply val_strings_sound in H.
    subst v. split; [discriminate | exact H].
  - intros (Hne & -> & F). pose proof (enc_strs_length l) as K.
    destruct (flat_map enc_str l) as [|b0 r0] eqn:E; [congruence|].
    rewrite <- E in *. apply val_strings_complete; [exact F | apply Nat.lt_succ_r; exact K].
Qed.

(** UserClass(): the list when well-formed, otherwise the raw value as one string *)
Theorem acc_user_class_spec g : acc_user_class g =
  match g with
  | None => None
  | Some v => match strings_from v with Ok l => Some l | _ => Some [v] end
  end.
Proof. reflexivity. Qed.

(** * classless static routes (RFC 3442) *)
Definition route_dlen (r : route) : nat := N.to_nat ((r_ones r + 7) / 8).
Definition enc_route (r : route) : bytes := n2b (r_ones r) :: firstn (route_dlen r) (r_dest r) ++ r_router r.
Definition wf_route (r : route) : Prop :=
  (r_ones r <= 32)%N /\ length (r_dest r) = 4 /\ length (r_router r) = 4 /\
  skipn (route_dlen r) (r_dest r) = zeros (4 - route_dlen r).

Lemma val_routes_sound : forall f v l, val_routes f v = Ok l ->
  v = flat_map enc_route l /\ Forall wf_route l.
Proof.
  induction f as [|f IH]; intros v l; cbn [val_routes]; [discriminate|].
  destruct v as [|w r]. { intros [= <-]. split; [reflexivity | constructor]. }
  destruct (32 <? b2n w)%N eqn:W; [discriminate|]. apply N.ltb_ge in W.
  destruct (take (N.to_nat ((b2n w + 7) / 8)) r) as [[dst r1]|] eqn:T1; [|discriminate].
  destruct (take 4 r1) as [[gw r2]|] eqn:T2; [|discriminate].
  destruct (val_routes f r2) as [rs| | |] eqn:R; cbn [bind]; try discriminate.
  intros [= <-]. apply take_inv in T1. apply take_inv in T2. destruct T1 as [-> L1]. destruct T2 as [-> L2].
  destruct (IH _ _ R) as [-> F].
  assert (D : N.to_nat ((b2n w + 7) / 8) <= 4) by lia.
  split.
  - cbn [flat_map]. unfold enc_route, route_dlen. cbn [r_ones r_dest r_router].
    rewrite n2b_b2n. rewrite firstn_app, L1, Nat.sub_diag, firstn_all2 by lia. cbn [firstn].
    rewrite app_nil_r. cbn [app]. rewrite <- app_assoc. reflexivity.
  - constructor; [|exact F]. unfold wf_route, route_dlen. cbn [r_ones r_dest r_router].
    repeat split; try assumption.
    + rewrite app_length, zeros_length. rewrite L1. revert D. generalize (N.to_nat ((b2n w + 7) / 8)). intros k D.
      destruct k as [|[|[|[|[|k]]]]]; cbn; lia.
    + rewrite skipn_app, L1, Nat.sub_diag, skipn_all2 by lia. reflexivity.
Qed.

Lemma val_routes_complete : forall l f, Forall wf_route l -> length l < f ->
  val_routes f (flat_map enc_route l) = Ok l.
Proof.
  induction l as [|r l IH]; intros f F Hf.
  - destruct f; [lia|]. reflexivity.
  - destruct f; [cbn in Hf; lia|]. inversion F as [|? ? Hr Fl]; subst.
    destruct r as [ones dest gw]. destruct Hr as (H1 & H2 & H3 & H4). unfold route_dlen in *. cbn [r_ones r_dest r_router] in *.
    cbn [flat_map]. change (enc_route {| r_ones := ones; r_dest := dest; r_router := gw |}) with (n2b ones :: firstn (N.to_nat ((ones + 7) / 8)) dest ++ gw). cbn [app val_routes].
    rewrite n2b_small by lia.
    assert (W : (32 <? ones)%N = false) by (apply N.ltb_ge; lia). rewrite W.
    assert (D : N.to_nat ((ones + 7) / 8) <= 4) by lia.
    rewrite <- app_assoc. rewrite take_app by (rewrite firstn_length; lia).
    rewrite take_app by exact H3. rewrite IH by (auto; cbn in Hf; lia). cbn [bind].
    rewrite <- H4, firstn_skipn. reflexivity.
Qed.

Lemma enc_routes_length l : length l <= length (flat_map enc_route l).
Proof. induction l as [|x l IH]; cbn [flat_map length]; [lia|]. rewrite app_length. unfold enc_route at 1. cbn [length]. lia. Qed.

Theorem routes_exact v l : routes_from v = Ok l <-> v = flat_map enc_route l /\ Forall wf_route l.
Proof.
  unfold routes_from. split; [apply val_routes_sound|].
  intros [-> F]. apply val_routes_complete; [exact F|]. pose proof (enc_routes_length l). lia.
Qed.

(** * vendor-identifying vendor classes *)
Definition enc_vivc (e : N * bytes) : bytes := be32 (fst e) ++ n2b (N.of_nat (length (snd e))) :: snd e.

Definition wf_vivc (e : N * bytes) : Prop := (fst e < 4294967296)%N /\ length (snd e) <= 255.

Lemma val_vivc_sound : forall f v l, val_vivc f v = Ok l -> v = flat_map enc_vivc l /\ Forall wf_vivc l.
Proof.
  induction f as [|f IH]; intros v l; cbn [val_vivc]; [discriminate|].
  destruct v as [|a [|b [|c [|d [|n r]]]]]; try discriminate.
  { intros [= <-]. split; [reflexivity | constructor]. }
  destruct (take (bnat n) r) as [[x r']|] eqn:T; [|discriminate].
  destruct (val_vivc f r') as [xs| | |] eqn:R; cbn [bind]; try discriminate.
  intros [= <-]. apply take_inv in T. destruct T as [-> Lx]. destruct (IH _ _ R) as [-> F].
  pose proof (bnat_lt n). split.
  - cbn [flat_map]. change (enc_vivc (rd32 a b c d, x)) with (be32 (rd32 a b c d) ++ n2b (N.of_nat (length x)) :: x). rewrite be32_rd32, Lx.
    unfold bnat. rewrite N2Nat.id, n2b_b2n. reflexivity.
  - constructor; [|exact F]. split; cbn [fst snd]; [apply rd32_lt | lia].
Qed.

Lemma val_vivc_complete : forall l f, Forall wf_vivc l -> length l < f ->
  val_vivc f (flat_map enc_vivc l) = Ok l.
Proof.
  induction l as [|[e x] l IH]; intros f F Hf.
  - destruct f; [lia|]. reflexivity.
  - destruct f; [cbn in Hf; lia|]. inversion F as [|? ? [He Hx] Fl]; subst. cbn [fst snd] in *.
    cbn [flat_map]. unfold enc_vivc at 1. cbn [fst snd].
    pose proof (rd32_be32 e He) as K. cbn [be32 app] in *. cbn [val_vivc].
    assert (B : bnat (n2b (N.of_nat (length x))) = length x) by (unfold bnat; rewrite n2b_small by lia; lia).
    rewrite B. rewrite take_app by reflexivity. rewrite IH by (auto; cbn in Hf; lia). cbn [bind]. rewrite K. reflexivity.
Qed.

Lemma enc_vivcs_length l : length l <= length (flat_map enc_vivc l).
Proof.
  induction l as [|x l IH]; cbn [flat_map length]; [lia|]. rewrite app_length. unfold enc_vivc at 1.
  rewrite app_length. cbn [length]. lia.
Qed.

Theorem vivc_exact v l : vivc_from v = Ok l <-> v = flat_map enc_vivc l /\ Forall wf_vivc l.
Proof.
  unfold vivc_from. split; [apply val_vivc_sound|].
  intros [-> F]. apply val_vivc_complete; [exact F|]. pose proof (enc_vivcs_length l). lia.
Qed.

(** * relay agent information: the sub-option grammar (pads skipped, End terminates, no End required) *)
Theorem acc_relay_spec v m : v <> [] ->
  (acc_relay (Some v) = Some m <-> exists e, area_denotes v [] m e).
Proof.
  intros Hne. unfold acc_relay, opts_from_bytes. destruct v as [|x r]; [congruence|]. set (D := x :: r).
  destruct (opts_loop (S (length D)) D []) as [[m' e]| | |] eqn:L; cbn [bind negb andb opt_res].
  - rewrite andb_false_r. cbn [opt_res]. split.
    + intros [= <-]. exists e. apply opts_loop_exact. exact L.
    + intros (e' & H). apply opts_loop_exact in H. rewrite L in H. congruence.
  - split; [discriminate|]. intros (e' & H). apply opts_loop_exact in H. congruence.
  - split; [discriminate|]. intros (e' & H). apply opts_loop_exact in H. congruence.
  - split; [discriminate|]. intros (e' & H). apply opts_loop_exact in H. congruence.
Qed.

(** a sub-option code without a length octet is malformed: the accessor returns the default *)
Example acc_relay_truncated : acc_relay (Some [x01]) = None.
Proof. reflexivity. Qed.

(** * architectures, search domains *)
Theorem acc_archs_spec g l : acc_archs g = Some l -> exists v, g = Some v /\ v <> [] /\ many_u16 v = Ok l.
Proof.
  destruct g as [v|]; [|discriminate]. cbn [acc_archs]. unfold archs_from. destruct v as [|x r] eqn:E; [discriminate|].
  rewrite <- E. destruct (many_u16 v) eqn:M; cbn [opt_res]; try discriminate. intros [= <-].
  exists v. subst v. split; [reflexivity|]. split; [discriminate | exact M].
Qed.

Theorem acc_domain_search_spec g ns : acc_domain_search g = Some ns <->
  exists v, g = Some v /\ labels_from_bytes v = Ok ns.
Proof.
  split.
  - destruct g as [v|]; [|discriminate]. cbn [acc_domain_search].
    destruct (labels_from_bytes v) eqn:E; cbn [opt_res]; try discriminate. intros [= <-]. exists v. auto.
  - intros (v & -> & H). cbn [acc_domain_search]. rewrite H. reflexivity.
Qed.

(** * set / get: reading back what a typed constructor stored *)
Theorem set_get_ip ip : length ip = 4 -> acc_ip (Some ip) = Some ip.
Proof. intros H. cbn. unfold val_ip4. rewrite H. reflexivity. Qed.
Theorem set_get_duration n : (n < 4294967296)%N -> acc_duration (Some (be32 n)) = Some n.
Proof. intros H. pose proof (rd32_be32 n H) as K. cbn in *. rewrite K. reflexivity. Qed.
Theorem set_get_u16 n : (n < 65536)%N -> acc_u16 (Some (be16 n)) = Some n.
Proof. intros H. pose proof (rd16_be16 n H) as K. cbn in *. rewrite K. reflexivity. Qed.
Theorem set_get_u8 n : (n < 256)%N -> acc_u8 (Some [n2b n]) = Some n.
Proof. intros H. cbn. rewrite n2b_small by exact H. reflexivity. Qed.
Theorem set_get_ips l : l <> [] -> Forall (fun a => length a = 4) l -> acc_ips (Some (concat l)) = Some l.
Proof.
  intros Hne F. apply acc_ips_spec. exists (concat l). repeat split; auto.
  destruct l as [|a l]; [congruence|]. inversion F; subst. destruct a; [discriminate | cbn; discriminate].
Qed.
Theorem set_get_strings l : l <> [] -> Forall (fun x => 1 <= length x <= 255) l ->
  acc_user_class (Some (flat_map enc_str l)) = Some l.
Proof.
  intros Hne F. cbn [acc_user_class].
  assert (H : strings_from (flat_map enc_str l) = Ok l).
  { apply strings_exact. repeat split; auto. destruct l; [congruence | discriminate]. }
  rewrite H. reflexivity.
Qed.
Theorem set_get_routes l : Forall wf_route l -> acc_routes (Some (flat_map enc_route l)) = Some l.
Proof. intros F. cbn [acc_routes]. assert (H : routes_from (flat_map enc_route l) = Ok l) by (apply routes_exact; auto). rewrite H. reflexivity. Qed.

(** * the loops never run out of fuel *)
Lemma val_strings_good : forall f v, length v < f -> V6.Total.good (val_strings f v).
Proof.
  induction f as [|f IH]; intros v H; [lia|]. cbn [val_strings]. destruct v as [|n r]; [exact I|].
  destruct (bnat n =? 0); [exact I|]. destruct (take (bnat n) r) as [[x r']|] eqn:T; [|exact I].
  apply take_inv in T. destruct T as [-> _]. apply good_bind; [|intros; exact I].
  apply IH. cbn [length] in H. rewrite app_length in H. lia.
Qed.
Lemma val_vivc_good : forall f v, length v < f -> V6.Total.good (val_vivc f v).
Proof.
  induction f as [|f IH]; intros v H; [lia|]. cbn [val_vivc]. destruct v as [|a [|b [|c [|d [|n r]]]]]; try exact I.
  destruct (take (bnat n) r) as [[x r']|] eqn:T; [|exact I].
  apply take_inv in T. destruct T as [-> _]. apply good_bind; [|intros; exact I].
  apply IH. cbn [length] in H. rewrite app_length in H. lia.
Qed.
Lemma val_routes_good : forall f v, length v < f -> V6.Total.good (val_routes f v).
Proof.
  induction f as [|f IH]; intros v H; [lia|]. cbn [val_routes]. destruct v as [|w r]; [exact I|].
  destruct (32 <? b2n w)%N; [exact I|].
  destruct (take _ r) as [[dst r1]|] eqn:T1; [|exact I]. destruct (take 4 r1) as [[gw r2]|] eqn:T2; [|exact I].
  apply take_inv in T1. apply take_inv in T2. destruct T1 as [-> _]. destruct T2 as [-> _].
  apply good_bind; [|intros; exact I]. apply IH. cbn [length] in H. rewrite !app_length in H. lia.
Qed.
