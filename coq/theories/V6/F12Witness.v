(** Finding F12, evaluated on the model: an accepted DHCPv6 message whose
    re-encoding does not decode (63 720 octets in, 79 060 octets out, the
    IA_NA length field wrapped).  The evaluation goes through a boolean check
    and a generic inversion lemma so that no tactic ever reduces the big terms. *)
From DV Require Import Base.Bytes Label.Model V4.Model V6.Model V6.Wf V6.Fixpoint.

Definition v4_241 : bytes := [x01; x01; x06] ++ zeros 233 ++ cookie ++ [xff].
Definition f12_input : bytes :=
  [x01; xaa; xbb; xcc] ++ tlv 3 (zeros 12 ++ flat_map (fun _ => tlv 87 v4_241) (seq 0 260)).

Definition f12_check (r : res msg6) : bool :=
  match r with
  | Ok m => (N.of_nat (length (enc_msg m)) =? 79060)%N && match dec_msg (enc_msg m) with Ok _ => false | _ => true end
  | _ => false
  end.

Lemma f12_check_inv r : f12_check r = true ->
  exists m, r = Ok m /\ N.of_nat (length (enc_msg m)) = 79060%N /\ forall m2, dec_msg (enc_msg m) <> Ok m2.
Proof.
  destruct r as [m| | |]; cbn [f12_check]; try discriminate. intros H.
  apply andb_true_iff in H. destruct H as [H1 H2]. exists m.
  split; [reflexivity|]. split; [apply N.eqb_eq; exact H1|]. intros m2 K. rewrite K in H2. discriminate.
Qed.

Lemma f12_eval : f12_check (dec_msg f12_input) = true.
Proof. vm_compute. reflexivity. Qed.
Lemma f12_len : N.of_nat (length f12_input) = 63720%N.
Proof. vm_compute. reflexivity. Qed.

Theorem C06_v6_refuted_when_reencoding_overflows :
  exists b m, dec_msg b = Ok m /\ N.of_nat (length b) = 63720%N /\ N.of_nat (length (enc_msg m)) = 79060%N /\
              forall m2, dec_msg (enc_msg m) <> Ok m2.
Proof.
  destruct (f12_check_inv _ f12_eval) as (m & E & L & R).
  exact (ex_intro _ f12_input (ex_intro _ m (conj E (conj f12_len (conj L R))))).
Qed.
Print Assumptions C06_v6_refuted_when_reencoding_overflows.
