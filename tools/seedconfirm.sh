#!/bin/bash
# usage: seedconfirm.sh <worktree> <seed-id>
# Confirms a seeded change in a scratch worktree: suite passes with the change,
# the demonstration fails with it and passes without it. Copies the seed into /verif/seeded/<id>/.
set -u
WT=$1; ID=$2
export GOFLAGS=-mod=mod GOPROXY=off GOTOOLCHAIN=local
cd "$WT" || exit 2
S=$WT/_seed
[ -f $S/patch.diff ] || { echo "no patch"; exit 2; }
DEMO=$(python3 -c "import json;print(json.load(open('$S/meta.json'))['demo_file'])")
DDIR=$(python3 -c "import json;print(json.load(open('$S/meta.json'))['demo_dir'])")
git checkout -q -- . ; git clean -fdq -e _seed
git apply $S/patch.diff || { echo "patch does not apply"; exit 2; }
echo "== suite with change"
go test -vet=off -count=1 ./... 2>&1 | grep -v "^ok\|no test files" | tail -20
SUITE=${PIPESTATUS[0]}
echo "suite rc=$SUITE"
case "$DEMO" in
 *_test.go) cp $S/$DEMO $DDIR/zz_seed_demo_test.go; PAT=$(grep -o "^func Test[A-Za-z0-9_]*" $S/$DEMO | sed 's/func //' | paste -sd'|'); RUN="go test -vet=off -count=1 -run ^($PAT)\$ ./$DDIR/";;
 *) mkdir -p $DDIR; cp $S/$DEMO $DDIR/main.go; RUN="go run ./$DDIR";;
esac
echo "== demo with change: $RUN"
$RUN > /tmp/seed-$ID-with.log 2>&1; W=$?
tail -5 /tmp/seed-$ID-with.log
git apply -R $S/patch.diff
echo "== demo without change"
$RUN > /tmp/seed-$ID-without.log 2>&1; WO=$?
tail -3 /tmp/seed-$ID-without.log
git checkout -q -- . ; git clean -fdq -e _seed
echo "RESULT id=$ID suite_rc=$SUITE demo_with_rc=$W demo_without_rc=$WO"
if [ $SUITE = 0 ] && [ $W != 0 ] && [ $WO = 0 ]; then
  mkdir -p /verif/seeded/$ID; cp $S/patch.diff $S/meta.json $S/$DEMO /verif/seeded/$ID/
  echo "CONFIRMED $ID"
fi
rm -f /tmp/seed-$ID-with.log /tmp/seed-$ID-without.log
