package main

import (
	"bytes"
	"encoding/binary"
	"fmt"
	"net"
	"sort"

	"github.com/insomniacslk/dhcp/dhcpv4"
	"github.com/insomniacslk/dhcp/iana"
)

const (
	eV4Dec    = 10
	eV4Enc    = 11
	eV4Reenc  = 12
	eV4Opts   = 13
	eV4EncDec = 14
)

func be16b(v uint16) []byte { return []byte{byte(v >> 8), byte(v)} }

func obsOpts(o dhcpv4.Options) [][]byte {
	keys := make([]int, 0, len(o))
	for k := range o {
		keys = append(keys, int(k))
	}
	sort.Ints(keys)
	var out [][]byte
	for _, k := range keys {
		out = append(out, []byte{byte(k)}, o[uint8(k)])
	}
	return out
}

func obsPkt4(p *dhcpv4.DHCPv4) [][]byte {
	out := [][]byte{
		{byte(p.OpCode)}, be16b(uint16(p.HWType)), {p.HopCount}, p.TransactionID[:], be16b(p.NumSeconds), be16b(p.Flags),
		p.ClientIPAddr, p.YourIPAddr, p.ServerIPAddr, p.GatewayIPAddr,
		p.ClientHWAddr, []byte(p.ServerHostName), []byte(p.BootFileName),
	}
	return append(out, obsOpts(p.Options)...)
}

func ipArg(b []byte) net.IP {
	if len(b) == 0 {
		return nil
	}
	return net.IP(b)
}

func numArg(b []byte) uint64 {
	var v uint64
	for _, x := range b {
		v = v<<8 | uint64(x)
	}
	return v
}

// pktOfArgs mirrors Run.pkt_of_args.
func pktOfArgs(a [][]byte) *dhcpv4.DHCPv4 {
	if len(a) < 13 {
		return nil
	}
	p := &dhcpv4.DHCPv4{
		OpCode:         dhcpv4.OpcodeType(numArg(a[0])),
		HWType:         iana.HWType(numArg(a[1])),
		HopCount:       uint8(numArg(a[2])),
		NumSeconds:     uint16(numArg(a[4])),
		Flags:          uint16(numArg(a[5])),
		ClientIPAddr:   ipArg(a[6]),
		YourIPAddr:     ipArg(a[7]),
		ServerIPAddr:   ipArg(a[8]),
		GatewayIPAddr:  ipArg(a[9]),
		ClientHWAddr:   net.HardwareAddr(a[10]),
		ServerHostName: string(a[11]),
		BootFileName:   string(a[12]),
		Options:        dhcpv4.Options{},
	}
	copy(p.TransactionID[:], a[3])
	rest := a[13:]
	for len(rest) >= 2 && len(rest[0]) == 1 {
		if len(rest[1]) == 0 {
			p.Options[rest[0][0]] = nil // what a zero-length option decodes to
		} else {
			p.Options[rest[0][0]] = rest[1]
		}
		rest = rest[2:]
	}
	return p
}

func init() {
	register(eV4Dec, "dhcpv4.FromBytes", func(a [][]byte) ([][]byte, error) {
		p, err := dhcpv4.FromBytes(a[0])
		if err != nil {
			return nil, err
		}
		return obsPkt4(p), nil
	})
	register(eV4Enc, "DHCPv4.ToBytes", func(a [][]byte) ([][]byte, error) {
		p := pktOfArgs(a)
		if p == nil {
			return nil, fmt.Errorf("args")
		}
		return [][]byte{p.ToBytes()}, nil
	})
	register(eV4Reenc, "dhcpv4.FromBytes.ToBytes", func(a [][]byte) ([][]byte, error) {
		p, err := dhcpv4.FromBytes(a[0])
		if err != nil {
			return nil, err
		}
		return [][]byte{p.ToBytes()}, nil
	})
	register(eV4Opts, "dhcpv4.Options.FromBytes", func(a [][]byte) ([][]byte, error) {
		o := dhcpv4.Options{}
		if err := o.FromBytes(a[0]); err != nil {
			return nil, err
		}
		return obsOpts(o), nil
	})
	register(eV4EncDec, "DHCPv4.ToBytes.FromBytes", func(a [][]byte) ([][]byte, error) {
		p := pktOfArgs(a)
		if p == nil {
			return nil, fmt.Errorf("args")
		}
		q, err := dhcpv4.FromBytes(p.ToBytes())
		if err != nil {
			return nil, err
		}
		return obsPkt4(q), nil
	})
	props["C01"] = genC01
	props["C04"] = genC04
	props["C07"] = genC07
}

// ---------------------------------------------------------------------
// Independent RFC 2131 / 2132 / 3396 reference decoder (shares no code with
// the library).

type refPkt struct {
	op, htype, hlen, hops byte
	xid                   [4]byte
	secs, flags           uint16
	ci, yi, si, gi        [4]byte
	chaddr                []byte
	sname, file           []byte
	opts                  map[byte][]byte
	// layout facts used by the C07 validator
	order     []byte // option codes in order of appearance (instances)
	instLens  []int
	endAt     int // offset of End in the options area, -1 if none
	tailClean bool
}

func refDecode4(b []byte) (*refPkt, bool) {
	if len(b) < 240 {
		return nil, false
	}
	r := &refPkt{op: b[0], htype: b[1], hlen: b[2], hops: b[3], opts: map[byte][]byte{}, endAt: -1}
	copy(r.xid[:], b[4:8])
	r.secs = binary.BigEndian.Uint16(b[8:10])
	r.flags = binary.BigEndian.Uint16(b[10:12])
	copy(r.ci[:], b[12:16])
	copy(r.yi[:], b[16:20])
	copy(r.si[:], b[20:24])
	copy(r.gi[:], b[24:28])
	hl := int(r.hlen)
	if hl > 16 {
		hl = 16
	}
	r.chaddr = b[28 : 28+hl]
	cut := func(s []byte) []byte {
		if i := bytes.IndexByte(s, 0); i >= 0 {
			return s[:i]
		}
		return s
	}
	r.sname = cut(b[44:108])
	r.file = cut(b[108:236])
	if !bytes.Equal(b[236:240], []byte{99, 130, 83, 99}) {
		return nil, false
	}
	area := b[240:]
	if len(area) == 0 {
		r.tailClean = true
		return r, true
	}
	i := 0
	for i < len(area) {
		c := area[i]
		if c == 0 {
			i++
			continue
		}
		if c == 255 {
			r.endAt = i
			break
		}
		if i+1 >= len(area) {
			return nil, false
		}
		n := int(area[i+1])
		if i+2+n > len(area) {
			return nil, false
		}
		r.opts[c] = append(r.opts[c], area[i+2:i+2+n]...)
		if _, ok := r.opts[c]; !ok || r.opts[c] == nil {
			r.opts[c] = []byte{}
		}
		r.order = append(r.order, c)
		r.instLens = append(r.instLens, n)
		i += 2 + n
	}
	if r.endAt < 0 {
		return nil, false
	}
	r.tailClean = true
	for _, x := range area[r.endAt+1:] {
		if x != 0 {
			r.tailClean = false
		}
	}
	return r, true
}

// compareRef compares a library packet with the reference reading.
func compareRef(p *dhcpv4.DHCPv4, r *refPkt) string {
	ip4 := func(ip net.IP, w [4]byte) bool { return len(ip) == 4 && bytes.Equal(ip, w[:]) }
	switch {
	case byte(p.OpCode) != r.op:
		return "opcode"
	case uint16(p.HWType) != uint16(r.htype):
		return "hwtype"
	case p.HopCount != r.hops:
		return "hops"
	case p.TransactionID != r.xid:
		return "xid"
	case p.NumSeconds != r.secs:
		return "secs"
	case p.Flags != r.flags:
		return "flags"
	case !ip4(p.ClientIPAddr, r.ci):
		return "ciaddr"
	case !ip4(p.YourIPAddr, r.yi):
		return "yiaddr"
	case !ip4(p.ServerIPAddr, r.si):
		return "siaddr"
	case !ip4(p.GatewayIPAddr, r.gi):
		return "giaddr"
	case !bytes.Equal(p.ClientHWAddr, r.chaddr):
		return "chaddr"
	case p.ServerHostName != string(r.sname):
		return "sname"
	case p.BootFileName != string(r.file):
		return "file"
	}
	if len(p.Options) != len(r.opts) {
		return fmt.Sprintf("option count %d vs %d", len(p.Options), len(r.opts))
	}
	for c, v := range r.opts {
		pv, ok := p.Options[c]
		if !ok {
			return fmt.Sprintf("option %d missing", c)
		}
		if !bytes.Equal(pv, v) {
			return fmt.Sprintf("option %d value", c)
		}
		// the same through the exported readers of the option set: an option that arrived is there (also with an
		// empty value), and Get hands out what arrived
		if !p.Options.Has(dhcpv4.GenericOptionCode(c)) {
			return fmt.Sprintf("option %d present in the datagram but Options.Has says no", c)
		}
		if !bytes.Equal(p.Options.Get(dhcpv4.GenericOptionCode(c)), v) {
			return fmt.Sprintf("option %d value through Options.Get", c)
		}
	}
	for c := 1; c < 255; c++ {
		if _, there := r.opts[uint8(c)]; !there && p.Options.Has(dhcpv4.GenericOptionCode(uint8(c))) {
			return fmt.Sprintf("option %d absent from the datagram but Options.Has says yes", c)
		}
	}
	return ""
}

// ---------------------------------------------------------------------
// generators

type genPkt struct {
	args [][]byte
}

var boundaryLens = []int{0, 1, 2, 253, 254, 255, 256, 257, 508, 509, 510, 511, 512, 763, 764, 765, 766, 767, 1019, 1020, 1021, 1022}

func (r *Run) randIP() []byte {
	switch r.Rng.Intn(8) {
	case 6: // the unspecified address (4-octet and IPv4-mapped form), the limited broadcast address
		return [][]byte{{0, 0, 0, 0}, append(append(make([]byte, 10), 0xff, 0xff), 0, 0, 0, 0), {255, 255, 255, 255}}[r.Rng.Intn(3)]
	case 0:
		return nil
	case 1:
		return append(append(make([]byte, 10), 0xff, 0xff), r.Bytes(4)...) // v4-mapped
	default:
		return r.Bytes(4)
	}
}

func (r *Run) noNul(n int) []byte {
	b := r.Bytes(n)
	for i := range b {
		if b[i] == 0 {
			b[i] = 'x'
		}
	}
	return b
}

// randPkt draws a packet in the C01 domain; opts maps code -> value.
func (r *Run) randPkt(opts map[byte][]byte) [][]byte {
	a := [][]byte{
		{byte(r.Pick(r.Rng.Intn(256), 0, 1, 2, 255))}, {0, byte(r.Rng.Intn(256))}, {byte(r.Pick(r.Rng.Intn(256), 0, 255))}, r.edge(4), r.edge(2), r.edge(2),
		r.randIP(), r.randIP(), r.randIP(), r.randIP(),
		r.Bytes(r.Pick(0, 1, 6, 6, 6, 8, 15, 16)),
		r.noNul(r.Pick(0, 0, 1, 10, 62, 63)),
		r.noNul(r.Pick(0, 0, 1, 20, 126, 127)),
	}
	keys := make([]int, 0, len(opts))
	for k := range opts {
		keys = append(keys, int(k))
	}
	sort.Ints(keys)
	r.Rng.Shuffle(len(keys), func(i, j int) { keys[i], keys[j] = keys[j], keys[i] })
	for _, k := range keys {
		a = append(a, []byte{byte(k)}, opts[byte(k)])
	}
	return a
}

func (r *Run) randOpts(maxN int, maxLen int) map[byte][]byte {
	o := map[byte][]byte{}
	n := r.Rng.Intn(maxN + 1)
	for i := 0; i < n; i++ {
		c := byte(1 + r.Rng.Intn(254))
		if r.Rng.Intn(4) == 0 {
			c = byte(r.Pick(1, 53, 81, 82, 83, 254, 61, 55))
		}
		var l int
		switch r.Rng.Intn(10) {
		case 0:
			l = boundaryLens[r.Rng.Intn(len(boundaryLens))]
		case 1:
			l = r.Rng.Intn(maxLen + 1)
		case 2:
			l = 0
		default:
			l = r.Rng.Intn(40)
		}
		o[c] = r.Bytes(l)
	}
	return o
}

// oracleC01: FromBytes(ToBytes(p)) compared with p through the public fields.
func oracleC01(r *Run, a [][]byte) {
	p := pktOfArgs(a)
	var q *dhcpv4.DHCPv4
	var err error
	var wire []byte
	func() {
		defer func() {
			if x := recover(); x != nil {
				err = fmt.Errorf("panic %v", x)
			}
		}()
		wire = p.ToBytes()
		q, err = dhcpv4.FromBytes(wire)
	}()
	cs := Case{eV4EncDec, a}.Line()
	if err != nil {
		r.Fail("roundtrip-decode-fails", cs, err.Error())
		return
	}
	eqIP := func(x, y net.IP) bool {
		if x == nil {
			x = net.IPv4zero
		}
		return x.To4() != nil && y.To4() != nil && x.To4().Equal(y.To4()) && len(y) == 4
	}
	bad := ""
	switch {
	case q.OpCode != p.OpCode:
		bad = "opcode"
	case q.HWType != p.HWType:
		bad = "hwtype"
	case q.HopCount != p.HopCount:
		bad = "hops"
	case q.TransactionID != p.TransactionID:
		bad = "xid"
	case q.NumSeconds != p.NumSeconds:
		bad = "secs"
	case q.Flags != p.Flags:
		bad = "flags"
	case !eqIP(p.ClientIPAddr, q.ClientIPAddr):
		bad = "ciaddr"
	case !eqIP(p.YourIPAddr, q.YourIPAddr):
		bad = "yiaddr"
	case !eqIP(p.ServerIPAddr, q.ServerIPAddr):
		bad = "siaddr"
	case !eqIP(p.GatewayIPAddr, q.GatewayIPAddr):
		bad = "giaddr"
	case !bytes.Equal(p.ClientHWAddr, q.ClientHWAddr):
		bad = "chaddr"
	case p.ServerHostName != q.ServerHostName:
		bad = "sname"
	case p.BootFileName != q.BootFileName:
		bad = "file"
	case len(p.Options) != len(q.Options):
		bad = "option set size"
	}
	if bad == "" {
		for c, v := range p.Options {
			qv, ok := q.Options[c]
			if !ok {
				bad = fmt.Sprintf("option %d lost", c)
			} else if !bytes.Equal(v, qv) {
				bad = fmt.Sprintf("option %d value (len %d -> %d)", c, len(v), len(qv))
			}
		}
	}
	if bad != "" {
		r.Fail("roundtrip-"+bad, cs, "FromBytes(ToBytes(p)) differs from p in "+bad)
	}
	// C07 wire validator on every encoding produced
	validateWire(r, p, wire, cs)
	flatRecordCheck(r, p, wire, cs)
}

// flatRecordCheck: the same packet value assembled the way a server assembles it from one flat lease record or a
// captured frame - hardware address, addresses and option values are adjacent sub-slices of ONE array, each with
// spare capacity reaching into its neighbours - encodes to the same octets, and encoding writes nothing into the
// record.
func flatRecordCheck(r *Run, p *dhcpv4.DHCPv4, want []byte, cs string) {
	for layout := 0; layout < 2; layout++ {
		type span struct {
			off, n int
			null   bool
		}
		var rec []byte
		put := func(b []byte) span {
			s := span{len(rec), len(b), b == nil}
			rec = append(rec, b...)
			return s
		}
		codes := make([]int, 0, len(p.Options))
		for c := range p.Options {
			codes = append(codes, int(c))
		}
		sort.Ints(codes)
		optSp := map[int]span{}
		putOpts := func() {
			for _, c := range codes {
				optSp[c] = put(p.Options[uint8(c)])
			}
		}
		if layout == 1 {
			putOpts()
		}
		hw := put(p.ClientHWAddr)
		var ips [4]span
		if layout == 0 {
			for i, ip := range []net.IP{p.ClientIPAddr, p.YourIPAddr, p.ServerIPAddr, p.GatewayIPAddr} {
				ips[i] = put(ip)
			}
			putOpts()
		} else {
			for i, ip := range []net.IP{p.GatewayIPAddr, p.ServerIPAddr, p.YourIPAddr, p.ClientIPAddr} {
				ips[3-i] = put(ip)
			}
		}
		arr := make([]byte, len(rec)+40)
		copy(arr, rec)
		for i := len(rec); i < len(arr); i++ {
			arr[i] = 0xa5
		}
		snap := append([]byte{}, arr...)
		sub := func(s span) []byte {
			if s.null {
				return nil
			}
			return arr[s.off : s.off+s.n]
		}
		q := *p
		q.ClientHWAddr = sub(hw)
		q.ClientIPAddr, q.YourIPAddr, q.ServerIPAddr, q.GatewayIPAddr = sub(ips[0]), sub(ips[1]), sub(ips[2]), sub(ips[3])
		q.Options = dhcpv4.Options{}
		for _, c := range codes {
			q.Options[uint8(c)] = sub(optSp[c])
		}
		var w []byte
		func() {
			defer func() { recover() }()
			w = q.ToBytes()
		}()
		if !bytes.Equal(w, want) {
			r.Fail("encoding-of-packet-built-from-one-record", cs, "the same packet value whose fields are adjacent sub-slices of one array encodes differently: "+firstDiff(hx(want), hx(w)))
			return
		}
		if !bytes.Equal(arr, snap) {
			r.Fail("encoding-writes-into-the-packet", cs, "ToBytes wrote into the memory behind a field of the packet it encodes (fields given as sub-slices with spare capacity): "+firstDiff(hx(snap), hx(arr)))
			return
		}
	}
}

// validateWire: C07 (a)-(c) with the independent decoder.
func validateWire(r *Run, p *dhcpv4.DHCPv4, w []byte, cs string) {
	if len(w) < 300 {
		r.Fail("c07-min-300", cs, fmt.Sprintf("len %d", len(w)))
		return
	}
	ref, ok := refDecode4(w)
	if !ok {
		r.Fail("c07-rfc-decoder-rejects", cs, "independent RFC decoder rejects the encoding")
		return
	}
	if ref.endAt < 0 || !ref.tailClean {
		r.Fail("c07-end-padding", cs, "no single End followed by padding only")
	}
	// ascending codes, 82 last, instances <= 255, instances of one code adjacent
	last := -1
	seen82 := false
	for i, c := range ref.order {
		if ref.instLens[i] > 255 {
			r.Fail("c07-instance-too-long", cs, "")
		}
		if seen82 && c != 82 {
			r.Fail("c07-82-not-last", cs, fmt.Sprintf("code %d after 82", c))
		}
		if c == 82 {
			seen82 = true
			continue
		}
		if int(c) < last {
			r.Fail("c07-not-ascending", cs, fmt.Sprintf("code %d after %d", c, last))
		}
		last = int(c)
	}
	// the independent decoder recovers the packet's fields and option values
	cutName := func(name string, capacity int) []byte {
		b := []byte(name)
		if len(b) > capacity {
			b = b[:capacity]
		}
		if i := bytes.IndexByte(b, 0); i >= 0 {
			b = b[:i]
		}
		return b
	}
	if !bytes.Equal(ref.sname, cutName(p.ServerHostName, 63)) {
		r.Fail("c07-rfc-decoder-sname", cs, fmt.Sprintf("sname field reads %q, packet has %q", ref.sname, p.ServerHostName))
	}
	if !bytes.Equal(ref.file, cutName(p.BootFileName, 127)) {
		r.Fail("c07-rfc-decoder-file", cs, fmt.Sprintf("file field reads %q, packet has %q", ref.file, p.BootFileName))
	}
	for _, f := range [][2]int{{44, 108}, {108, 236}} {
		fld := w[f[0]:f[1]]
		if i := bytes.IndexByte(fld, 0); i >= 0 && len(bytes.Trim(fld[i:], "\x00")) != 0 {
			r.Fail("c07-name-field-not-zero-filled", cs, fmt.Sprintf("octets %d..%d: % x", f[0], f[1], fld))
		}
	}
	if ref.op != byte(p.OpCode) || ref.htype != byte(p.HWType) || ref.hops != p.HopCount || ref.xid != [4]byte(p.TransactionID) ||
		ref.secs != p.NumSeconds || ref.flags != p.Flags {
		r.Fail("c07-rfc-decoder-header", cs, "op/htype/hops/xid/secs/flags differ from the packet's fields")
	}
	for i, ip := range []net.IP{p.ClientIPAddr, p.YourIPAddr, p.ServerIPAddr, p.GatewayIPAddr} {
		want := [4]byte{}
		if v4 := ip.To4(); v4 != nil {
			copy(want[:], v4)
		}
		if [][4]byte{ref.ci, ref.yi, ref.si, ref.gi}[i] != want {
			r.Fail("c07-rfc-decoder-address", cs, fmt.Sprintf("address field %d", i))
		}
	}
	hl := len(p.ClientHWAddr)
	if int(ref.hlen) != hl%256 {
		r.Fail("c07-hlen", cs, "")
	}
	wantCh := make([]byte, 16)
	copy(wantCh, p.ClientHWAddr)
	if !bytes.Equal(w[28:44], wantCh) {
		r.Fail("c07-rfc-decoder-chaddr", cs, fmt.Sprintf("chaddr field % x, packet's hardware address % x", w[28:44], p.ClientHWAddr))
	}
	for c, v := range p.Options {
		if c == 0 || c == 255 {
			continue
		}
		if !bytes.Equal(ref.opts[c], v) {
			r.Fail("c07-rfc-decoder-value", cs, fmt.Sprintf("option %d", c))
		}
	}
	for c := range ref.opts {
		if _, ok := p.Options[c]; !ok {
			r.Fail("c07-rfc-decoder-extra", cs, fmt.Sprintf("option %d", c))
		}
	}
}

func genC01(r *Run) {
	// every boundary length x a few codes, exhaustively
	for _, l := range boundaryLens {
		for _, c := range []byte{1, 53, 81, 82, 83, 254} {
			a := r.randPkt(map[byte][]byte{c: r.Bytes(l)})
			r.Add(eV4Enc, a...)
			r.Add(eV4EncDec, a...)
			oracleC01(r, a)
			r.Count("boundary-length")
		}
	}
	// long values whose content repeats (constant fill, zero padding, lists of identical records): the instances a
	// value travels in are then EQUAL octet strings, and each of them still counts
	for _, l := range []int{255, 256, 509, 510, 511, 512, 600, 765, 766, 1020, 1275} {
		for pi, period := range []int{1, 1, 3, 5, 15, 17, 51, 85, 255, 256, 510} {
			unit := r.Bytes(period)
			if pi == 0 {
				unit = []byte{0}
			}
			v := bytes.Repeat(unit, l/period+1)[:l]
			a := r.randPkt(map[byte][]byte{byte(r.Pick(43, 82, 12, 254)): v})
			if period == 1 || period == 255 {
				r.Add(eV4EncDec, a...)
			}
			oracleC01(r, a)
			r.Count("periodic-long-value")
		}
	}
	// the option-set encoding cut short: an encoding that ends inside an instance (on its code octet, on its length
	// octet, inside its value) does not decode to anything - the reassembly of split values relies on it; direct
	// oracle on Options.FromBytes (which does not ask for an End option) plus the model on the same octets
	for _, l := range []int{0, 1, 2, 254, 255, 256, 300, 510, 511} {
		o := dhcpv4.Options{}
		o.Update(dhcpv4.OptGeneric(dhcpv4.GenericOptionCode(5), r.Bytes(l)))
		o.Update(dhcpv4.OptGeneric(dhcpv4.GenericOptionCode(12), []byte("hi")))
		enc := o.ToBytes()
		// instance boundaries of enc
		bound := map[int]bool{0: true}
		for i := 0; i+1 < len(enc); {
			i += 2 + int(enc[i+1])
			bound[i] = true
		}
		for t := 0; t <= len(enc); t++ {
			if t > 6 && t < len(enc)-8 && t%37 != 0 && !bound[t] && !bound[t-1] && !bound[t+1] && !bound[t-2] {
				continue // sample the interior of long values
			}
			cut := enc[:t]
			r.Add(eV4Opts, cut)
			var d dhcpv4.Options = dhcpv4.Options{}
			err := d.FromBytes(append([]byte{}, cut...))
			if bound[t] && err != nil {
				r.Fail("options-prefix-rejected", hx(cut), "an encoding cut at an instance boundary is a shorter option set: "+err.Error())
			}
			if !bound[t] && err == nil {
				r.Fail("cut-encoding-accepted", hx(trunc2(cut, 40))+fmt.Sprintf("... (%d of %d octets)", t, len(enc)), "an option-set encoding cut inside an instance decoded without error")
			}
		}
	}
	// every option code 1..254 with an empty value, every interesting one-octet value and a two-octet value, in a
	// packet whose server name and boot file are present (plain names, and names whose octets would read as an option
	// stream): no code's value changes how the rest of the packet is read
	for c := 1; c <= 254; c++ {
		for vi, v := range [][]byte{{}, {0}, {1}, {2}, {3}, {4}, {0xff}, {1, 1}} {
			a := r.randPkt(map[byte][]byte{byte(c): v})
			switch (c + vi) % 3 {
			case 0:
				a[11], a[12] = []byte("srv.example"), []byte("pxelinux.0")
			case 1:
				a[11], a[12] = []byte("\x0c\x04host\xff"), []byte("\x0c\x04boot\xff")
			default:
				a[11], a[12] = r.noNul(1+r.Rng.Intn(63)), r.noNul(1+r.Rng.Intn(127))
			}
			if vi < 2 || c%16 == 4 {
				r.Add(eV4EncDec, a...)
			}
			oracleC01(r, a)
		}
	}
	// option values that repeat or refer to header fields, as the RFCs define them: a client identifier whose type
	// octet is the hardware type (RFC 2132 9.14, RFC 4390 for IPoIB with an EMPTY chaddr), requested / server
	// addresses equal to yiaddr / siaddr, a hardware address repeated in option 61 - with chaddr of 0, 6 and 16
	// octets: header fields are read from the header and options from the options, whatever they say about each other
	for _, ht := range []int{1, 6, 32, 0, 255} {
		for _, hl := range []int{0, 6, 16} {
			for vi := 0; vi < 5; vi++ {
				hw := r.Bytes(hl)
				idBody := [][]byte{append([]byte{}, hw...), r.Bytes(6), r.Bytes(20), {7}, {}}[vi]
				yi := r.Bytes(4)
				a := r.randPkt(map[byte][]byte{61: append([]byte{byte(ht)}, idBody...), 50: yi, 54: r.Bytes(4), 53: {byte(1 + vi)}})
				a[1] = []byte{0, byte(ht)}
				a[7] = yi
				a[10] = hw
				r.Add(eV4EncDec, a...)
				oracleC01(r, a)
			}
		}
	}
	// chaddr lengths 0..16 in the domain, 17, 20, 255, 256 outside it (pins the model's out-of-domain behaviour)
	for _, hl := range []int{0, 1, 2, 3, 4, 5, 6, 7, 8, 9, 10, 11, 12, 13, 14, 15, 16, 17, 20, 255, 256} {
		a := r.randPkt(r.randOpts(3, 40))
		a[10] = r.Bytes(hl)
		r.Add(eV4Enc, a...)
		r.Add(eV4EncDec, a...)
		if hl <= 16 {
			oracleC01(r, a)
		}
	}
	// names at the limits (64/128 and beyond are outside the domain: model only)
	for _, nl := range []int{0, 1, 62, 63, 64, 65, 126, 127, 128, 129, 200} {
		a := r.randPkt(r.randOpts(2, 10))
		a[11] = r.noNul(nl)
		a[12] = r.noNul(nl)
		r.Add(eV4Enc, a...)
		r.Add(eV4EncDec, a...)
		if nl <= 63 {
			oracleC01(r, a)
		}
	}
	// real IPv6 addresses: outside the domain, the panic class must agree
	{
		a := r.randPkt(nil)
		a[7] = r.Bytes(16)
		a[7][0] = 0x20
		r.Add(eV4Enc, a...)
		a = r.randPkt(nil)
		a[9] = r.Bytes(5)
		r.Add(eV4Enc, a...)
	}
	n := r.N(1500, 60000)
	for i := 0; i < n; i++ {
		maxN := 6
		if i%10 == 0 {
			maxN = 40
		}
		a := r.randPkt(r.randOpts(maxN, 4096))
		r.Add(eV4Enc, a...)
		r.Add(eV4EncDec, a...)
		oracleC01(r, a)
		r.Count(fmt.Sprintf("options=%d", (len(a)-13)/2))
	}
	r.Extra["oracle_evaluations"] = n
}

// validPacket builds wire bytes for mutation-based streams.
// nonCanonWire: an accepted packet whose option area is unsorted, padded, and repeats codes
// (zero-length instances first or last, other options between the instances)
func (r *Run) nonCanonWire() []byte {
	hdr := make([]byte, 240)
	copy(hdr, []byte{1, 1, 6, 0, 0xde, 0xad, 0xbe, 0xef})
	copy(hdr[28:], []byte{1, 2, 3, 4, 5, 6})
	copy(hdr[44:], r.Bytes(r.Rng.Intn(20)))
	copy(hdr[108:], r.Bytes(r.Rng.Intn(20)))
	copy(hdr[236:], []byte{99, 130, 83, 99})
	area := []byte{}
	for k := r.Rng.Intn(10); k >= 0; k-- {
		switch r.Rng.Intn(6) {
		case 0:
			area = append(area, 0)
		default:
			c := byte(r.Pick(1, 2, 53, 82, 12, 43, 43, 254))
			n := r.Pick(0, 0, 1, 2, 3, 4, 5, 9, 40)
			area = append(area, c, byte(n))
			area = append(area, r.Bytes(n)...)
		}
	}
	area = append(area, 255)
	area = append(area, make([]byte, r.Rng.Intn(4))...)
	return append(hdr, area...)
}

func (r *Run) validWire(maxOpts int) []byte {
	p := pktOfArgs(r.randPkt(r.randOpts(maxOpts, 300)))
	return p.ToBytes()
}

func oracleC04(r *Run, b []byte) {
	var p *dhcpv4.DHCPv4
	var err error
	func() {
		defer func() {
			if x := recover(); x != nil {
				err = fmt.Errorf("panic")
				r.Fail("decode-panics", hx(b), fmt.Sprint(x))
			}
		}()
		p, err = dhcpv4.FromBytes(append([]byte{}, b...))
	}()
	ref, ok := refDecode4(b)
	cs := Case{eV4Dec, [][]byte{b}}.Line()
	if (err == nil) != ok {
		r.Fail("acceptance", trunc(cs, 3000), fmt.Sprintf("library accepts=%v, RFC reference accepts=%v", err == nil, ok))
		return
	}
	if ok {
		r.Count("accepted")
		if d := compareRef(p, ref); d != "" {
			r.Fail("field-"+d, trunc(cs, 3000), "decoded field differs from the RFC reading: "+d)
			return
		}
		// each decoding yields its own value: what a caller then does to the packet it was given (a relay adding
		// option 82, a server turning the request into its reply) does not show in a later decoding of the same octets
		func() {
			defer func() { recover() }()
			p.UpdateOption(dhcpv4.OptGeneric(dhcpv4.GenericOptionCode(82), []byte{1, 1, 7}))
			p.UpdateOption(dhcpv4.OptMessageType(dhcpv4.MessageTypeNak))
			p.UpdateOption(dhcpv4.OptGeneric(dhcpv4.GenericOptionCode(224), []byte("scribble")))
			for c := range p.Options {
				if c != 82 && c != 53 && c != 224 {
					delete(p.Options, c)
					break
				}
			}
			p.OpCode, p.HopCount = dhcpv4.OpcodeBootReply, p.HopCount+1
			if len(p.ClientHWAddr) > 0 {
				p.ClientHWAddr[0] ^= 0xff
			}
			if len(p.YourIPAddr) > 0 {
				p.YourIPAddr[len(p.YourIPAddr)-1] ^= 0xff
			}
			p.TransactionID[0] ^= 0xff
		}()
		if q, err2 := dhcpv4.FromBytes(append([]byte{}, b...)); err2 != nil {
			r.Fail("decode-after-edit-of-earlier-result", trunc(cs, 3000), "the same octets are rejected once an earlier decoded packet has been edited: "+err2.Error())
		} else if d := compareRef(q, ref); d != "" {
			r.Fail("decode-after-edit-of-earlier-result", trunc(cs, 3000), "after the packet decoded from these octets was edited, decoding them again gives a packet that differs from the RFC reading: "+d)
		}
	} else {
		r.Count("rejected")
	}
}

func genC04(r *Run) {
	hdr := make([]byte, 240)
	copy(hdr, []byte{1, 1, 6, 0, 0xde, 0xad, 0xbe, 0xef})
	copy(hdr[28:], []byte{1, 2, 3, 4, 5, 6})
	copy(hdr[236:], []byte{99, 130, 83, 99})
	add := func(b []byte) {
		r.Add(eV4Dec, b)
		oracleC04(r, b)
	}
	// exhaustive option areas over a small alphabet
	alpha := []byte{0, 1, 2, 3, 53, 82, 255}
	maxLen := r.N(5, 6)
	var rec func(cur []byte)
	rec = func(cur []byte) {
		add(append(append([]byte{}, hdr...), cur...))
		if len(cur) == maxLen {
			return
		}
		for _, x := range alpha {
			rec(append(cur, x))
		}
	}
	rec(nil)
	// option areas made of pad octets only (a legacy BOOTP message with the cookie and an all-zero vendor field), of
	// every length up to 80 and some up to 1300: without an End option they are no DHCP option area, whatever the
	// total length; with one End - first, in the middle, last - they are an empty one
	for _, n := range append(func() (l []int) {
		for i := 0; i <= 80; i++ {
			l = append(l, i)
		}
		return
	}(), 100, 200, 255, 256, 260, 300, 336, 1000, 1260) {
		z := make([]byte, n)
		add(append(append([]byte{}, hdr...), z...))
		if n > 0 {
			for _, at := range []int{0, n / 2, n - 1} {
				w := append(append([]byte{}, hdr...), z...)
				w[240+at] = 255
				add(w)
			}
			w := append(append([]byte{}, hdr...), z...)
			w[240+n-1] = 1 // a code whose length octet is missing
			add(w)
		}
	}
	// packets whose option values refer to header fields (client identifier type = hardware type, with a chaddr of
	// 0 / 6 / 16 octets; RFC 4390 IPoIB shape included): the header is read from the header
	for _, ht := range []int{1, 6, 32, 0, 255} {
		for _, hl := range []int{0, 6, 16} {
			for vi := 0; vi < 5; vi++ {
				hw := r.Bytes(hl)
				idBody := [][]byte{append([]byte{}, hw...), r.Bytes(6), r.Bytes(20), {7}, {}}[vi]
				a := r.randPkt(map[byte][]byte{61: append([]byte{byte(ht)}, idBody...), 53: {byte(1 + vi)}})
				a[1] = []byte{0, byte(ht)}
				a[10] = hw
				add(pktOfArgs(a).ToBytes())
			}
		}
	}
	r.Extra["exhaustive_alphabet"] = fmt.Sprintf("option areas over %v up to length %d behind a fixed valid header", alpha, maxLen)
	// the same areas through Options.FromBytes (no End required): C17's relay sub-option grammar
	for _, c := range append([]Case{}, r.cases...) {
		if len(c.Args[0]) <= 240+4 {
			r.Add(eV4Opts, c.Args[0][240:])
		}
	}
	// every truncation point of valid packets
	nv := r.N(30, 200)
	for i := 0; i < nv; i++ {
		w := r.validWire(5)
		// strip the padding so truncations bite
		end := len(w)
		for end > 240 && w[end-1] == 0 {
			end--
		}
		w = w[:end]
		if i < r.N(6, 40) {
			for t := 0; t <= len(w); t++ {
				add(w[:t])
			}
		} else {
			for k := 0; k < 12; k++ {
				add(w[:r.Rng.Intn(len(w)+1)])
			}
		}
		// the cookie as a whole: absent (zero), BOOTP vendor area, byte-swapped, all ones, the v6 way round
		for _, ck := range [][]byte{{0, 0, 0, 0}, {0xff, 0xff, 0xff, 0xff}, {99, 83, 130, 99}, {130, 99, 83, 99}, {99, 130, 83, 0}, {0, 130, 83, 99}, {1, 0, 0, 0}} {
			m := append([]byte{}, w...)
			copy(m[236:240], ck)
			add(m)
			add(m[:240])
			add(append(append([]byte{}, m[:240]...), make([]byte, 60)...))
		}
		// corruption of cookie, hlen and each option length octet
		for _, off := range []int{236, 237, 238, 239, 2} {
			for _, v := range []byte{0, 1, 16, 17, 99, 255} {
				m := append([]byte{}, w...)
				m[off] = v
				add(m)
			}
		}
		j := 240
		for j+1 < len(w) && w[j] != 255 {
			if w[j] == 0 {
				j++
				continue
			}
			n := int(w[j+1])
			for _, v := range []int{n - 1, n + 1, 0, 255} {
				if v < 0 {
					continue
				}
				m := append([]byte{}, w...)
				m[j+1] = byte(v)
				add(m)
			}
			j += 2 + n
		}
		// NUL inside names, hlen variants
		m := append([]byte{}, w...)
		m[44+r.Rng.Intn(64)] = 0
		m[108+r.Rng.Intn(128)] = 0
		m[2] = byte(r.Pick(0, 5, 16, 17, 200, 255))
		add(m)
	}
	// the fixed-width name fields in every shape (text of every length around the ends of the field, then NULs, or a
	// NUL followed by stale octets), with and without options behind them
	for _, m := range nameFieldShapes(hdr) {
		add(m)
		add(m[:240])
		r.Add(eV4Reenc, m)
	}
	// random / mutated packets up to 1500 octets
	nr := r.N(1500, 100000)
	for i := 0; i < nr; i++ {
		var b []byte
		switch r.Rng.Intn(4) {
		case 0:
			b = r.Bytes(r.Rng.Intn(400))
		case 1:
			b = append(append([]byte{}, hdr...), r.Bytes(r.Rng.Intn(60))...)
		default:
			b = r.validWire(8)
			for k := r.Rng.Intn(4); k >= 0; k-- {
				b[r.Rng.Intn(len(b))] = byte(r.Rng.Intn(256))
			}
			if extra := 1500 - len(b); extra > 0 && r.Rng.Intn(3) == 0 {
				b = append(b, r.Bytes(r.Rng.Intn(extra+1)%700)...)
			}
		}
		add(b)
	}
	// non-canonical areas: unsorted, split, padded, repeated codes
	for i := 0; i < r.N(300, 20000); i++ {
		area := []byte{}
		for k := r.Rng.Intn(8); k >= 0; k-- {
			switch r.Rng.Intn(5) {
			case 0:
				area = append(area, 0)
			default:
				c := byte(r.Pick(1, 2, 53, 82, 12, 254))
				n := r.Rng.Intn(6)
				area = append(area, c, byte(n))
				area = append(area, r.Bytes(n)...)
			}
		}
		area = append(area, 255)
		area = append(area, r.Bytes(r.Rng.Intn(4))...)
		add(append(append([]byte{}, hdr...), area...))
		r.Count("non-canonical")
	}
}

func genC07(r *Run) {
	// permutations of insertion order: all 720 for 6 options, 20 fresh-map encodings each
	perms := func(n int) [][]int {
		var out [][]int
		var rec func(cur []int, used []bool)
		rec = func(cur []int, used []bool) {
			if len(cur) == n {
				out = append(out, append([]int{}, cur...))
				return
			}
			for i := 0; i < n; i++ {
				if !used[i] {
					used[i] = true
					rec(append(cur, i), used)
					used[i] = false
				}
			}
		}
		rec(nil, make([]bool, n))
		return out
	}
	sets := r.N(3, 40)
	evals := 0
	for s := 0; s < sets; s++ {
		codes := []byte{82, 255, 0}
		for len(codes) < 6 {
			c := byte(1 + r.Rng.Intn(254))
			dup := false
			for _, x := range codes {
				if x == c {
					dup = true
				}
			}
			if !dup {
				codes = append(codes, c)
			}
		}
		if s%3 == 2 {
			codes = []byte{82, 254, 253, 81, 83, 1} // the last-written option next to every code an ordering rule could confuse it with
		}
		if s%2 == 1 && s%3 != 2 {
			codes[1], codes[2] = byte(1+r.Rng.Intn(80)), byte(100+r.Rng.Intn(100))
			if codes[1] == 82 || codes[2] == 82 {
				codes[1], codes[2] = 3, 200
			}
		}
		vals := map[byte][]byte{}
		for _, c := range codes {
			vals[c] = r.Bytes(r.Pick(0, 1, 4, 20, 255, 256, 300))
		}
		base := r.randPkt(nil)
		var want []byte
		for pi, pm := range perms(6) {
			times := 1
			if pi%36 == 0 {
				times = 20
			}
			for t := 0; t < times; t++ {
				a := append([][]byte{}, base...)
				for _, i := range pm {
					a = append(a, []byte{codes[i]}, vals[codes[i]])
				}
				p := pktOfArgs(a)
				if (pi+t)%3 == 2 {
					// the same contents put in through the exported setters, in this insertion order, instead of
					// directly into the map (an empty value is a value: the option is there)
					p.Options = dhcpv4.Options{}
					for k, i := range pm {
						o := dhcpv4.OptGeneric(dhcpv4.GenericOptionCode(codes[i]), vals[codes[i]])
						if k%2 == 0 {
							p.UpdateOption(o)
						} else {
							dhcpv4.WithOption(o)(p)
						}
					}
				}
				// construction programs: also via Update/Del sequences
				if t%2 == 1 {
					tmp := byte(77) // a code that is not part of the contents
					for inCodes := true; inCodes; {
						inCodes = false
						for _, c := range codes {
							if c == tmp {
								inCodes = true
								tmp++
							}
						}
					}
					p.UpdateOption(dhcpv4.OptGeneric(dhcpv4.GenericOptionCode(tmp), []byte{1}))
					p.Options.Del(dhcpv4.GenericOptionCode(tmp))
				}
				w := p.ToBytes()
				evals++
				if want == nil {
					want = w
					r.Add(eV4Enc, a...)
					validateWire(r, p, w, Case{eV4Enc, a}.Line())
				} else if !bytes.Equal(w, want) {
					r.Fail("c07-order-dependent", Case{eV4Enc, a}.Line(), "same contents, different bytes for a different insertion order / repeated encoding: "+firstDiff(hx(want), hx(w)))
				}
				if pi%97 == 0 && t == 0 {
					r.Add(eV4Enc, a...)
				}
			}
		}
	}
	// large option sets (a relayed reply to a client that asked for everything): 7 .. 120 distinct codes, with and
	// without 82, with codes on both sides of it, and the full set 1..254; several insertion orders each
	for i := 0; i < r.N(60, 1500); i++ {
		k := r.Pick(7, 12, 13, 14, 16, 20, 33, 50, 64, 65, 120, 254)
		pool := r.Rng.Perm(254)
		var codes []byte
		for _, x := range pool[:k] {
			codes = append(codes, byte(x+1))
		}
		if i%3 != 0 && k < 254 {
			has := false
			for _, c := range codes {
				has = has || c == 82
			}
			if !has {
				codes[0] = 82
			}
			codes[1] = byte(83 + r.Rng.Intn(172)) // something above 82 (a repeated code just overwrites)
		}
		vals := map[byte][]byte{}
		for _, c := range codes {
			vals[c] = r.Bytes(r.Pick(0, 1, 1, 2, 4, 4, 6, 20))
		}
		base := r.randPkt(nil)
		var want []byte
		for t := 0; t < 4; t++ {
			a := append([][]byte{}, base...)
			for _, j := range r.Rng.Perm(len(codes)) {
				a = append(a, []byte{codes[j]}, vals[codes[j]])
			}
			p := pktOfArgs(a)
			w := p.ToBytes()
			evals++
			if want == nil {
				want = w
				r.Add(eV4Enc, a...)
				validateWire(r, p, w, trunc(Case{eV4Enc, a}.Line(), 3000))
			} else if !bytes.Equal(w, want) {
				r.Fail("c07-order-dependent", trunc(Case{eV4Enc, a}.Line(), 3000), "same contents, different bytes for a different insertion order: "+firstDiff(hx(want), hx(w)))
			}
		}
	}
	// every total size of the option area around the 300-octet floor (the area is 60 octets there) and the
	// 255-octet instance limit: one option of each length 0..130 and 240..270 next to a message type
	for _, c := range []byte{43, 82, 12} {
		for l := 0; l <= 270; l++ {
			if l > 130 && l < 240 {
				continue
			}
			a := r.randPkt(map[byte][]byte{53: {1}, c: r.Bytes(l)})
			p := pktOfArgs(a)
			validateWire(r, p, p.ToBytes(), Case{eV4Enc, a}.Line())
			evals++
			if l%7 == 0 || (l >= 50 && l <= 60) {
				r.Add(eV4Enc, a...)
				r.Add(eV4EncDec, a...)
			}
		}
	}
	// values built by the typed constructors (relay agent information goes through Options.ToBytes): a packet
	// keeps its own option values while other packets and options are being built and encoded
	for i := 0; i < r.N(200, 10000); i++ {
		mkSubs := func() ([]dhcpv4.Option, []byte) {
			var subs []dhcpv4.Option
			var want []byte
			for c := 1; c <= 9; c++ {
				if r.Rng.Intn(3) == 0 {
					d := r.Bytes(1 + r.Rng.Intn(12))
					subs = append(subs, dhcpv4.OptGeneric(dhcpv4.GenericOptionCode(c), d))
					want = append(append(want, byte(c), byte(len(d))), d...)
				}
			}
			if len(subs) == 0 {
				subs = append(subs, dhcpv4.OptGeneric(dhcpv4.GenericOptionCode(1), []byte{7}))
				want = []byte{1, 1, 7}
			}
			return subs, want
		}
		subsA, wantA := mkSubs()
		subsB, wantB := mkSubs()
		pa, _ := dhcpv4.New(dhcpv4.WithTransactionID(dhcpv4.TransactionID{1, 2, 3, 4}), dhcpv4.WithOption(dhcpv4.OptRelayAgentInfo(subsA...)))
		firstA := append([]byte{}, pa.ToBytes()...)
		pb, _ := dhcpv4.New(dhcpv4.WithTransactionID(dhcpv4.TransactionID{5, 6, 7, 8}), dhcpv4.WithOption(dhcpv4.OptRelayAgentInfo(subsB...)))
		wb := pb.ToBytes()
		wa := pa.ToBytes()
		evals++
		cs := fmt.Sprintf("packet A with relay agent information % x, then packet B with % x", wantA, wantB)
		if !bytes.Equal(pa.Options[82], wantA) || !bytes.Equal(pb.Options[82], wantB) {
			r.Fail("c07-value-changed-by-building-another-packet", cs, fmt.Sprintf("A holds % x, B holds % x", pa.Options[82], pb.Options[82]))
		} else if !bytes.Equal(wa, firstA) {
			r.Fail("c07-encoding-changed-by-building-another-packet", cs, firstDiff(hx(firstA), hx(wa)))
		}
		validateWire(r, pa, wa, cs)
		validateWire(r, pb, wb, cs)
	}
	// two packets derived from one received request (its option values copied over, then extended): the first keeps
	// its encoding while the second is built; likewise two option values cut from one buffer
	for i := 0; i < r.N(100, 5000); i++ {
		prl := make([]byte, 1+r.Rng.Intn(7))
		for k := range prl {
			prl[k] = byte(1 + k)
		}
		reqWire := pktOfArgs(r.randPkt(map[byte][]byte{53: {1}, 55: prl, 61: r.Bytes(7), 60: []byte("PXEClient")})).ToBytes()
		req, err := dhcpv4.FromBytes(reqWire)
		if err != nil {
			continue
		}
		cs := fmt.Sprintf("request %s", trunc(hx(reqWire[236:]), 200))
		a, _ := dhcpv4.New(dhcpv4.WithTransactionID(dhcpv4.TransactionID{1, 2, 3, 4}), dhcpv4.WithOptionCopied(req, dhcpv4.OptionParameterRequestList),
			dhcpv4.WithOptionCopied(req, dhcpv4.OptionClientIdentifier), dhcpv4.WithRequestedOptions(dhcpv4.OptionNTPServers))
		wa := a.ToBytes()
		b, _ := dhcpv4.New(dhcpv4.WithTransactionID(dhcpv4.TransactionID{1, 2, 3, 5}), dhcpv4.WithOptionCopied(req, dhcpv4.OptionParameterRequestList),
			dhcpv4.WithRequestedOptions(dhcpv4.OptionBootfileName), dhcpv4.WithOptionCopied(req, dhcpv4.OptionClassIdentifier))
		_ = b.ToBytes()
		evals++
		if wa2 := a.ToBytes(); !bytes.Equal(wa, wa2) {
			r.Fail("c07-encoding-changed-by-building-another-packet", cs, "two packets derived from one request: "+firstDiff(hx(wa), hx(wa2)))
		}
		if rw := req.ToBytes(); !bytes.Equal(rw, func() []byte { q, _ := dhcpv4.FromBytes(reqWire); return q.ToBytes() }()) {
			r.Fail("c07-encoding-changed-by-building-another-packet", cs, "the request itself encodes differently after packets were derived from it")
		}
		blob := append(append([]byte{}, prl...), []byte("PXEClient")...)
		c, _ := dhcpv4.New(dhcpv4.WithTransactionID(dhcpv4.TransactionID{1, 2, 3, 6}), dhcpv4.WithGeneric(dhcpv4.OptionParameterRequestList, blob[:len(prl)]),
			dhcpv4.WithGeneric(dhcpv4.OptionClassIdentifier, blob[len(prl):]), dhcpv4.WithRequestedOptions(dhcpv4.OptionDomainName, dhcpv4.OptionTFTPServerName))
		if got := c.Options.Get(dhcpv4.OptionClassIdentifier); string(got) != "PXEClient" {
			r.Fail("c07-value-changed-by-building-another-packet", cs, fmt.Sprintf("class identifier set next to a parameter request list cut from the same buffer reads %q after the list was extended", got))
		}
		validateWire(r, c, c.ToBytes(), cs)
	}
	// sampled larger sets
	n := r.N(600, 30000)
	for i := 0; i < n; i++ {
		opts := r.randOpts(12, 600)
		a := r.randPkt(opts)
		p := pktOfArgs(a)
		w := p.ToBytes()
		validateWire(r, p, w, Case{eV4Enc, a}.Line())
		r.Add(eV4Enc, a...)
		for k := 0; k < 4; k++ {
			b := r.randPktSameHeader(a, opts)
			evals++
			if !bytes.Equal(pktOfArgs(b).ToBytes(), w) {
				r.Fail("c07-order-dependent", Case{eV4Enc, b}.Line(), "shuffled insertion order changes the bytes")
			}
		}
	}
	r.Extra["oracle_evaluations"] = evals
}

// randPktSameHeader: same header args, options inserted in another order.
func (r *Run) randPktSameHeader(a [][]byte, opts map[byte][]byte) [][]byte {
	b := append([][]byte{}, a[:13]...)
	keys := make([]int, 0, len(opts))
	for k := range opts {
		keys = append(keys, int(k))
	}
	sort.Ints(keys)
	r.Rng.Shuffle(len(keys), func(i, j int) { keys[i], keys[j] = keys[j], keys[i] })
	for _, k := range keys {
		b = append(b, []byte{byte(k)}, opts[byte(k)])
	}
	return b
}

// edge: n octets, mostly random but often a boundary pattern (all zero, all ones, one, high bit only)
func (r *Run) edge(n int) []byte {
	b := r.Bytes(n)
	switch r.Rng.Intn(10) {
	case 0, 1:
		for i := range b {
			b[i] = 0
		}
	case 2:
		for i := range b {
			b[i] = 0xff
		}
	case 3:
		for i := range b {
			b[i] = 0
		}
		if n > 0 {
			b[n-1] = 1
		}
	case 4:
		for i := range b {
			b[i] = 0
		}
		if n > 0 {
			b[0] = 0x80
		}
	}
	return b
}


// nameFieldShapes: a valid packet (header hdr + message type + End) whose sname / file field holds text of length
// 0, 1, 2, half, width-2, width-1, width (no terminator at all), followed by NUL padding, by one NUL then stale text,
// or by stale high octets up to a NUL in the last position
func nameFieldShapes(hdr []byte) [][]byte {
	var out [][]byte
	for _, fld := range []struct{ off, width int }{{44, 64}, {108, 128}} {
		for _, n := range []int{0, 1, 2, fld.width / 2, fld.width - 2, fld.width - 1, fld.width} {
			for _, tail := range []int{0, 1, 2} {
				m := append(append([]byte{}, hdr...), 53, 1, 5, 255)
				for i := 0; i < n; i++ {
					m[fld.off+i] = byte('a' + i%26)
				}
				if n < fld.width {
					switch tail {
					case 1:
						for i := n + 1; i < fld.width; i++ {
							m[fld.off+i] = byte('A' + i%26)
						}
					case 2:
						for i := n + 1; i < fld.width-1; i++ {
							m[fld.off+i] = 0x80 | byte(i)
						}
					}
				}
				out = append(out, m)
			}
		}
	}
	return out
}
