(** Reader/writer inversion lemmas shared by every DHCPv6 option round trip. *)
From DV Require Import Base.Bytes Label.Model V4.Model V4.RoundTrip V6.Model V6.Wf.

Lemma rd_u8_cons n r : u8 n -> rd_u8 (n2b n :: r) = Ok (n, r).
Proof. intros H. cbn. rewrite n2b_small by exact H. reflexivity. Qed.
Lemma rd_u16_be n r : u16 n -> rd_u16 (be16 n ++ r) = Ok (n, r).
Proof. intros H. pose proof (rd16_be16 n H) as K. cbn in *. rewrite K. reflexivity. Qed.
Lemma rd_u32_be n r : u32 n -> rd_u32 (be32 n ++ r) = Ok (n, r).
Proof. intros H. pose proof (rd32_be32 n H) as K. cbn in *. rewrite K. reflexivity. Qed.
Lemma rd_n_app n a r : length a = n -> rd_n n (a ++ r) = Ok (a, r).
Proof. intros H. unfold rd_n. rewrite take_app by exact H. reflexivity. Qed.
Lemma rd_n_all n a : length a = n -> rd_n n a = Ok (a, []).
Proof. intros H. rewrite <- (app_nil_r a) at 1. apply rd_n_app. exact H. Qed.

Lemma copy_into_exact n s : length s = n -> copy_into n n s = s.
Proof. intros H. rewrite copy_into_fit by lia. rewrite H, Nat.sub_diag. apply app_nil_r. Qed.

Lemma len16_rd (v : bytes) : short v ->
  match len16 v with [a; b] => N.to_nat (rd16 a b) = length v | _ => False end.
Proof.
  intros H. unfold len16. pose proof (rd16_be16 (N.of_nat (length v)) H) as K. cbn in *. rewrite K. lia.
Qed.

Lemma many_len16_enc : forall (items : list bytes) f, Forall short items -> length items < f ->
  many_len16 f (flat_map (fun c => len16 c ++ c) items) = Ok items.
Proof.
  induction items as [|c items IH]; intros f H Hf.
  - destruct f; [lia|]. reflexivity.
  - destruct f; [cbn in Hf; lia|]. inversion H as [|? ? Hc Hi]; subst.
    cbn [flat_map]. pose proof (len16_rd c Hc) as K. unfold len16 in *. cbn [be16 app] in *.
    cbn [many_len16]. rewrite K. rewrite rd_n_app by reflexivity. cbn [bind].
    rewrite IH by (auto; cbn in Hf; lia). reflexivity.
Qed.

Lemma flat_len16_length (items : list bytes) : length items <= length (flat_map (fun c => len16 c ++ c) items).
Proof. induction items as [|c r IH]; cbn [flat_map length]; [lia|]. rewrite !app_length. unfold len16 in *. cbn [be16 length]. lia. Qed.

Lemma many_ip16_enc : forall (items : list bytes) f, Forall (fun a => length a = 16) items -> length items < f ->
  many_ip16 f (concat items) = Ok items.
Proof.
  induction items as [|a items IH]; intros f H Hf.
  - destruct f; [lia|]. reflexivity.
  - destruct f; [cbn in Hf; lia|]. inversion H as [|? ? Ha Hi]; subst.
    cbn [concat many_ip16].
    destruct (a ++ concat items) eqn:E. { destruct a; cbn in *; discriminate. }
    rewrite <- E. rewrite rd_n_app by exact Ha. cbn [bind].
    rewrite IH by (auto; cbn in Hf; lia). reflexivity.
Qed.

Lemma many_u16_enc : forall cs, Forall u16 cs -> many_u16 (flat_map be16 cs) = Ok cs.
Proof.
  induction cs as [|c cs IH]; intros H; [reflexivity|]. inversion H as [|? ? Hc Hr]; subst.
  cbn [flat_map]. pose proof (rd16_be16 c Hc) as K. cbn [be16 app] in *. cbn [many_u16].
  rewrite IH by exact Hr. cbn [bind]. rewrite K. reflexivity.
Qed.

Lemma dedup_add_nodup : forall cs acc, NoDup (acc ++ cs) -> dedup_add acc cs = acc ++ cs.
Proof.
  induction cs as [|c cs IH]; intros acc H; cbn [dedup_add]; [rewrite app_nil_r; reflexivity|].
  assert (E : existsb (N.eqb c) acc = false).
  { destruct (existsb (N.eqb c) acc) eqn:E; [|reflexivity]. exfalso.
    apply existsb_exists in E. destruct E as (x & Hx & Ex). apply N.eqb_eq in Ex. subst x.
    apply NoDup_remove_2 in H. apply H. apply in_or_app. left. exact Hx. }
  rewrite E. rewrite IH; rewrite <- app_assoc; [reflexivity | exact H].
Qed.

(** the TLV loop inverts the concatenation of encoded items *)
Lemma tlv_loop_enc {A} (parse : N -> bytes -> res A) :
  forall (items : list (N * bytes)) (vals : list A) f,
  Forall2 (fun it v => parse (fst it) (snd it) = Ok v /\ u16 (fst it) /\ short (snd it)) items vals ->
  length items < f ->
  tlv_loop parse f (flat_map (fun it => tlv (fst it) (snd it)) items) = Ok vals.
Proof.
  induction items as [|[c v] items IH]; intros vals f H Hf; inversion H as [|? x ? vs (Hp & Hc & Hv) Hr]; subst.
  - destruct f; [lia|]. reflexivity.
  - destruct f; [cbn in Hf; lia|]. cbn [fst snd] in *.
    cbn [flat_map fst snd]. unfold tlv at 1.
    pose proof (rd16_be16 c Hc) as Kc. pose proof (len16_rd v Hv) as Kv.
    unfold len16 in *. cbn [be16 app] in *. cbn [tlv_loop].
    rewrite Kv, Kc. rewrite <- ?app_assoc. rewrite rd_n_app by reflexivity. cbn [bind].
    rewrite Hp. cbn [bind]. rewrite IH with (vals := vs) by (auto; cbn in Hf; lia). reflexivity.
Qed.

Lemma tlv_items_length (items : list (N * bytes)) :
  length items <= length (flat_map (fun it => tlv (fst it) (snd it)) items).
Proof.
  induction items as [|c r IH]; cbn [flat_map length]; [lia|]. unfold tlv, len16 in *. rewrite !app_length. cbn [be16 length]. lia.
Qed.

Lemma dec_tlvs_enc {A} (parse : N -> bytes -> res A) (items : list (N * bytes)) (vals : list A) :
  Forall2 (fun it v => parse (fst it) (snd it) = Ok v /\ u16 (fst it) /\ short (snd it)) items vals ->
  dec_tlvs parse (flat_map (fun it => tlv (fst it) (snd it)) items) = Ok vals.
Proof.
  intros H. unfold dec_tlvs. apply tlv_loop_enc; [exact H|]. pose proof (tlv_items_length items). lia.
Qed.
