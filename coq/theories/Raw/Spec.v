(** C18, reading side: one iteration of ReadFrom delivers a frame EXACTLY when
    the received octets have the RFC 791 / RFC 768 layout of a UDP datagram for
    the bound address, and then exactly its payload and source.

    [frame_spec] is the declarative reading: the received octets (at most
    60 + 8 + len(b) of them) split into the 20 fixed header octets, the IP
    options up to the header length, the 8 UDP header octets and the data;
    version 4, header length h >= 5 words, protocol 17, total length T with
    4h + 8 <= T <= received; destination matching the bound address; the
    payload is the first T - 4h - 8 data octets, cut to the caller's buffer. *)
From DV Require Import Base.Bytes V4.Model Raw.Model Raw.Proofs.

Definition frame_spec (bound : option udpaddr) (blen : nat) (frame : bytes) (p src : bytes) (sport : N) : Prop :=
  let pkt := firstn (60 + 8 + blen) frame in
  exists fixed opts udp data : bytes,
    pkt = fixed ++ opts ++ udp ++ data /\ length fixed = 20 /\ length udp = 8 /\
    let vihl := b2n (nth 0 fixed x00) in
    let h := N.to_nat (vihl mod 16) in
    let T := N.to_nat (rd16 (nth 2 fixed x00) (nth 3 fixed x00)) in
    (vihl / 16 = 4)%N /\ 5 <= h /\ length opts = 4 * h - 20 /\
    b2n (nth 9 fixed x00) = 17%N /\
    4 * h + 8 <= T /\ T <= length pkt /\
    udp_match (slice fixed 16 4) (rd16 (nth 2 udp x00) (nth 3 udp x00)) bound = true /\
    p = firstn blen (firstn (T - 4 * h - 8) data) /\
    src = slice fixed 12 4 /\ sport = rd16 (nth 0 udp x00) (nth 1 udp x00).

Lemma hlen_words (v : N) : (v < 256)%N -> N.to_nat (v mod 16 * 4 mod 256) = 4 * N.to_nat (v mod 16).
Proof.
  intros H. assert (v mod 16 < 16)%N by (apply N.mod_lt; lia).
  rewrite N.mod_small by lia. lia.
Qed.

Lemma skipn_app_exact {A} (a b : list A) n : length a = n -> skipn n (a ++ b) = b.
Proof. intros <-. rewrite skipn_app, skipn_all, Nat.sub_diag. reflexivity. Qed.

Lemma skipn_add {A} (l : list A) a b : skipn (a + b) l = skipn b (skipn a l).
Proof.
  revert l. induction a as [|a IH]; intros l; [reflexivity|].
  destruct l as [|x l]; [cbn [Nat.add skipn]; rewrite skipn_nil; reflexivity|].
  cbn [Nat.add skipn]. apply IH.
Qed.

(** the reader on a packet given by its parts *)
Lemma read_parts bound blen frame a0 a1 a2 a3 a4 a5 a6 a7 a8 a9 a10 a11 a12 a13 a14 a15 a16 a17 a18 a19
      (opts : bytes) u0 u1 u2 u3 u4 u5 u6 u7 (data : bytes) :
  let fixed := [a0; a1; a2; a3; a4; a5; a6; a7; a8; a9; a10; a11; a12; a13; a14; a15; a16; a17; a18; a19] in
  let udp := [u0; u1; u2; u3; u4; u5; u6; u7] in
  let h := N.to_nat (b2n a0 mod 16) in
  let T := N.to_nat (rd16 a2 a3) in
  firstn (60 + 8 + blen) frame = fixed ++ opts ++ udp ++ data ->
  5 <= h -> length opts = 4 * h - 20 ->
  read_frame bound blen frame =
    if (28 + length opts + length data <? T) then Ok Skip
    else if negb (b2n a0 / 16 =? 4)%N then Ok Skip
    else if negb (b2n a9 =? 17)%N then Ok Skip
    else if negb (udp_match [a16; a17; a18; a19] (rd16 u2 u3) bound) then Ok Skip
    else if (T <? 4 * h + 8) then Ok Skip
    else Ok (Deliver (firstn blen (firstn (T - 4 * h - 8) data)) [a12; a13; a14; a15] (rd16 u0 u1)).
Proof.
  intros fixed udp h T E Hh Lo. unfold read_frame. rewrite E.
  set (pkt := fixed ++ opts ++ udp ++ data).
  assert (LP : length pkt = 28 + length opts + length data).
  { unfold pkt, fixed, udp. rewrite !app_length. cbn [length]. lia. }
  rewrite LP.
  assert (C0 : (28 + length opts + length data <? 20) = false) by (apply Nat.ltb_ge; lia). rewrite C0.
  change (nth 0 pkt x00) with a0. change (nth 2 pkt x00) with a2. change (nth 3 pkt x00) with a3.
  change (nth 9 pkt x00) with a9.
  rewrite hlen_words by apply b2n_lt. fold h. fold T.
  assert (C1 : (4 * h <? 20) = false) by (apply Nat.ltb_ge; lia). rewrite C1. cbn [orb].
  assert (SK : skipn (4 * h) pkt = udp ++ data).
  { replace (4 * h) with (20 + length opts) by lia. rewrite skipn_add.
    unfold pkt. change (skipn 20 (fixed ++ opts ++ udp ++ data)) with (opts ++ udp ++ data).
    apply skipn_app_exact. reflexivity. }
  rewrite SK.
  change (slice pkt 16 4) with [a16; a17; a18; a19]. change (slice pkt 12 4) with [a12; a13; a14; a15].
  assert (LU : length (udp ++ data) = 8 + length data) by (rewrite app_length; reflexivity). rewrite LU.
  assert (C2 : (8 + length data <? 8) = false) by (apply Nat.ltb_ge; lia). rewrite C2.
  change (nth 2 (udp ++ data) x00) with u2. change (nth 3 (udp ++ data) x00) with u3.
  change (nth 0 (udp ++ data) x00) with u0. change (nth 1 (udp ++ data) x00) with u1.
  change (skipn 8 (udp ++ data)) with data.
  destruct (T <? 4 * h) eqn:C3.
  - (* total length shorter than the header: skipped; the right-hand side skips too *)
    apply Nat.ltb_lt in C3. cbn [orb].
    destruct (28 + length opts + length data <? T); [reflexivity|].
    destruct (negb (b2n a0 / 16 =? 4)%N); [reflexivity|].
    destruct (negb (b2n a9 =? 17)%N); [reflexivity|].
    destruct (negb (udp_match _ _ bound)); [reflexivity|].
    assert (C4 : (T <? 4 * h + 8) = true) by (apply Nat.ltb_lt; lia). rewrite C4. reflexivity.
  - apply Nat.ltb_ge in C3. cbn [orb].
    destruct (28 + length opts + length data <? T); [reflexivity|].
    destruct (negb (b2n a0 / 16 =? 4)%N); [reflexivity|].
    destruct (negb (b2n a9 =? 17)%N); [reflexivity|].
    destruct (negb (udp_match _ _ bound)); [reflexivity|].
    destruct (T <? 4 * h + 8) eqn:C4.
    + apply Nat.ltb_lt in C4.
      assert (C5 : (Z.of_nat T - Z.of_nat (4 * h) - 8 <? 0)%Z = true) by (apply Z.ltb_lt; lia). rewrite C5. reflexivity.
    + apply Nat.ltb_ge in C4.
      assert (C5 : (Z.of_nat T - Z.of_nat (4 * h) - 8 <? 0)%Z = false) by (apply Z.ltb_ge; lia). rewrite C5.
      replace (Z.to_nat (Z.of_nat T - Z.of_nat (4 * h) - 8)) with (T - 4 * h - 8) by lia. reflexivity.
Qed.

Lemma split20 (l : bytes) : 20 <= length l ->
  exists a0 a1 a2 a3 a4 a5 a6 a7 a8 a9 a10 a11 a12 a13 a14 a15 a16 a17 a18 a19 r,
    l = [a0; a1; a2; a3; a4; a5; a6; a7; a8; a9; a10; a11; a12; a13; a14; a15; a16; a17; a18; a19] ++ r.
Proof.
  intros H. do 20 (destruct l as [|? l]; [cbn [length] in H; lia|]).
  do 21 eexists. reflexivity.
Qed.

Lemma split8 (l : bytes) : 8 <= length l ->
  exists u0 u1 u2 u3 u4 u5 u6 u7 r, l = [u0; u1; u2; u3; u4; u5; u6; u7] ++ r.
Proof.
  intros H. do 8 (destruct l as [|? l]; [cbn [length] in H; lia|]).
  do 9 eexists. reflexivity.
Qed.

(** what a delivering iteration has checked about the lengths *)
Lemma deliver_lengths bound blen frame p s sp :
  read_frame bound blen frame = Ok (Deliver p s sp) ->
  let pkt := firstn (60 + 8 + blen) frame in
  let h := N.to_nat (b2n (nth 0 pkt x00) mod 16) in
  20 <= length pkt /\ 5 <= h /\ 4 * h + 8 <= length pkt.
Proof.
  unfold read_frame. set (pkt := firstn (60 + 8 + blen) frame). intros H. cbv zeta.
  destruct (length pkt <? 20) eqn:C0; [discriminate|]. apply Nat.ltb_ge in C0.
  rewrite hlen_words in H by apply b2n_lt.
  set (h := N.to_nat (b2n (nth 0 pkt x00) mod 16)) in *.
  destruct ((4 * h <? 20) || _ || _) eqn:C1; [discriminate|].
  apply orb_false_iff in C1. destruct C1 as [C1 C1c]. apply orb_false_iff in C1. destruct C1 as [C1a C1b].
  apply Nat.ltb_ge in C1a.
  destruct (negb _); [discriminate|]. destruct (negb _); [discriminate|].
  destruct (length (skipn (4 * h) pkt) <? 8) eqn:C2; [discriminate|]. apply Nat.ltb_ge in C2.
  rewrite skipn_length in C2. lia.
Qed.

Theorem read_frame_iff bound blen frame p src sport :
  read_frame bound blen frame = Ok (Deliver p src sport) <-> frame_spec bound blen frame p src sport.
Proof.
  split.
  - intros H. pose proof (deliver_lengths _ _ _ _ _ _ H) as L. cbv zeta in L.
    unfold frame_spec. set (pkt := firstn (60 + 8 + blen) frame) in *.
    destruct L as (L20 & Lh & Lp).
    destruct (split20 pkt L20) as (a0 & a1 & a2 & a3 & a4 & a5 & a6 & a7 & a8 & a9 & a10 & a11 & a12 & a13 & a14
                                   & a15 & a16 & a17 & a18 & a19 & r1 & E1).
    rewrite E1 in Lh, Lp. change (nth 0 (_ ++ r1) x00) with a0 in Lh, Lp.
    set (h := N.to_nat (b2n a0 mod 16)) in *.
    rewrite app_length in Lp. cbn [length] in Lp.
    set (opts := firstn (4 * h - 20) r1). set (r2 := skipn (4 * h - 20) r1).
    assert (Er1 : r1 = opts ++ r2) by (symmetry; apply firstn_skipn).
    assert (Lo : length opts = 4 * h - 20) by (unfold opts; rewrite firstn_length; lia).
    assert (Lr2 : 8 <= length r2) by (unfold r2; rewrite skipn_length; lia).
    destruct (split8 r2 Lr2) as (u0 & u1 & u2 & u3 & u4 & u5 & u6 & u7 & data & E2).
    assert (E : pkt = [a0; a1; a2; a3; a4; a5; a6; a7; a8; a9; a10; a11; a12; a13; a14; a15; a16; a17; a18; a19]
                      ++ opts ++ [u0; u1; u2; u3; u4; u5; u6; u7] ++ data)
      by (rewrite E1, Er1, E2; reflexivity).
    rewrite (read_parts bound blen frame _ _ _ _ _ _ _ _ _ _ _ _ _ _ _ _ _ _ _ _ opts _ _ _ _ _ _ _ _ data E Lh Lo) in H.
    fold h in H. set (T := N.to_nat (rd16 a2 a3)) in *.
    destruct (28 + length opts + length data <? T) eqn:D1; [discriminate|]. apply Nat.ltb_ge in D1.
    destruct (b2n a0 / 16 =? 4)%N eqn:D2; [|discriminate]. apply N.eqb_eq in D2.
    destruct (b2n a9 =? 17)%N eqn:D3; [|discriminate]. apply N.eqb_eq in D3.
    destruct (udp_match _ _ bound) eqn:D4; [|discriminate].
    destruct (T <? 4 * h + 8) eqn:D5; [discriminate|]. apply Nat.ltb_ge in D5.
    cbn [negb] in H. apply Ok_inj in H.
    exists [a0; a1; a2; a3; a4; a5; a6; a7; a8; a9; a10; a11; a12; a13; a14; a15; a16; a17; a18; a19], opts,
           [u0; u1; u2; u3; u4; u5; u6; u7], data.
    split; [exact E|]. split; [reflexivity|]. split; [reflexivity|].
    cbn [nth]. cbv zeta. fold h. fold T.
    split; [exact D2|]. split; [exact Lh|]. split; [exact Lo|]. split; [exact D3|].
    split; [exact D5|]. split; [rewrite E, !app_length; cbn [length]; lia|].
    split; [exact D4|]. injection H as <- <- <-. repeat split.
  - unfold frame_spec. intros (fixed & opts & udp & data & E & Lf & Lu & H).
    do 20 (destruct fixed as [|? fixed]; [discriminate Lf|]). destruct fixed; [|discriminate Lf].
    do 8 (destruct udp as [|? udp]; [discriminate Lu|]). destruct udp; [|discriminate Lu].
    cbv zeta in H. cbn [nth] in H.
    destruct H as (Hv & Hh & Lo & Hp & HT1 & HT2 & Hm & -> & -> & ->).
    rewrite (read_parts bound blen frame _ _ _ _ _ _ _ _ _ _ _ _ _ _ _ _ _ _ _ _ opts _ _ _ _ _ _ _ _ data E Hh Lo).
    rewrite E, !app_length in HT2. cbn [length] in HT2.
    match goal with |- (if ?c then _ else _) = _ => assert (C : c = false) by (apply Nat.ltb_ge; lia); rewrite C end.
    rewrite Hv, Hp. cbn [N.eqb Pos.eqb negb].
    change (slice _ 16 4) with [b15; b16; b17; b18] in Hm.
    rewrite Hm. cbn [negb].
    match goal with |- (if ?c then _ else _) = _ => assert (C' : c = false) by (apply Nat.ltb_ge; lia); rewrite C' end.
    reflexivity.
Qed.

(** a frame that does not have that layout is skipped *)
Corollary read_frame_skips bound blen frame :
  (forall p src sport, ~ frame_spec bound blen frame p src sport) -> read_frame bound blen frame = Ok Skip.
Proof.
  intros H. destruct (read_frame_total bound blen frame) as [[|p s sp] E]; [exact E|].
  exfalso. apply (H p s sp). apply read_frame_iff. exact E.
Qed.
