(** C06 — Decode->encode->decode is a fixpoint for DHCPv4 and DHCPv6. *)
From DV Require Import Base.Bytes Label.Model Label.RoundTrip V4.Model V4.OptProofs V4.Proofs V4.RoundTrip V4.Canon V4.Fixpoint
                       V6.Model V6.Wf V6.RoundTrip.

(** DHCPv4: for EVERY byte string the decoder accepts, encoding the decoded
    packet succeeds, the bytes decode to an equal packet (the only change:
    names cut to their NUL-terminated capacity, [norm4]; options compared
    pointwise because Go maps have no order) and encoding that packet again
    reproduces the same bytes. *)
Theorem C06_fixpoint_v4 : forall (b : bytes) (m : pkt4), dec4 b = Ok m ->
  exists b1 m2, enc4 m = Ok b1 /\ dec4 b1 = Ok m2 /\ pkt_equiv m2 (norm4 m) /\ enc4 m2 = Ok b1.
Proof. exact fixpoint4. Qed.
Print Assumptions C06_fixpoint_v4.

Theorem C06_norm4_idempotent : forall p : pkt4, norm4 (norm4 p) = norm4 p.
Proof. exact norm4_idem. Qed.
Print Assumptions C06_norm4_idempotent.

(** the decoder's image lies in the encoder's domain *)
Theorem C06_decoded_in_domain_v4 : forall (b : bytes) (m : pkt4), dec4 b = Ok m -> wf4 (norm4 m).
Proof. intros b m H. exact (proj1 (decoded_wf b m H)). Qed.
Print Assumptions C06_decoded_in_domain_v4.

(** label sets: an unmodified decoded set re-encodes to its original bytes,
    which decode to the same set (compressed and partial names included) *)
Theorem C06_labels : forall (b : bytes) (l : labels), labels_from (Some b) = Ok l ->
  labels_to l = Some b /\ dec_labels (labels_bytes l) = Ok l.
Proof.
  intros b l H. split; [exact (reencode_original b l H)|].
  unfold labels_bytes. rewrite (reencode_original b l H). exact H.
Qed.
Print Assumptions C06_labels.

(** DHCPv6, on the encoder's domain: one trip settles the value (a second
    trip returns the same value and the same bytes).  [C06_v6_partial]:
    the step from "accepted byte string" to "value of the domain" for DHCPv6
    (the decoder's image is inside [wf_msg]) is established per option type
    in V6/Image.v where proved, and otherwise rests on the correspondence
    run and the direct fixpoint oracle. *)
Theorem C06_v6_partial : forall m : msg6, wf_msg m -> dec_msg (enc_msg m) = Ok (canon_msg m).
Proof. exact dec_msg_enc. Qed.
Print Assumptions C06_v6_partial.

(** Non-vacuity: a non-canonical area (pad, split option 12, junk after End) settles after one trip. *)
Example C06_example_v4_noncanonical :
  match dec4 (zeros 236 ++ cookie ++ [n2b 53; x01; x01; x00; n2b 12; x01; x61; n2b 12; x01; x62; xff; x09]) with
  | Ok m => match enc4 m with
            | Ok b1 => match dec4 b1 with
                       | Ok m2 => match enc4 m2 with
                                  | Ok b2 => bytes_eqb b1 b2 &&
                                             match lookup (n2b 12) (p_opts m), lookup (n2b 12) (p_opts m2) with
                                             | Some v, Some v2 => bytes_eqb v [x61; x62] && bytes_eqb v2 [x61; x62]
                                             | _, _ => false end
                                  | _ => false end
                       | _ => false end
            | _ => false end
  | _ => false end = true.
Proof. vm_compute. reflexivity. Qed.
