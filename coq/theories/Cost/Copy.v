(** C09, copy volume of nested decoding.  The option decoders copy before they parse: a container
    (IA_NA, IA_TA, IA address, IA_PD, IA prefix, relayed message, 4RD) takes a private copy of its
    whole value (Lexer.ReadAll) and hands it to the sub-option loop, every leaf copies what it keeps.
    [cvol] charges each node of a decoded value its own size once more for every level above it: the
    octets copied while decoding it.  For EVERY decoded value the volume is at most
    (1 + nesting depth) times its size - hence, with the size theorem, linear in the input for any
    fixed depth and never worse than depth x input: the "depth x n" term of the property's bound. *)
From Coq Require Import List Arith Lia.
Import ListNotations.
From DV Require Import Base.Bytes V6.Model V6.Wf V6.RoundTrip Cost.Size.

Fixpoint cvol (o : opt6) : nat :=
  let all := fix all (l : list opt6) : nat := match l with [] => 0 | x :: r => cvol x + all r end in
  osize o +
  match o with
  | OIANA _ _ _ os | OIATA _ os | OIAAddr _ _ _ os | ORelayMsgM _ _ os | ORelayMsgR _ _ _ _ os
  | OIAPD _ _ _ os | OIAPrefix _ _ _ os | O4RD os => all os
  | _ => 0
  end.
Definition cvols (os : list opt6) : nat := sum_size cvol os.
Definition cvol_msg (m : msg6) : nat :=
  msg_size m + match m with Msg _ _ os | Relay _ _ _ _ os => cvols os end.

Lemma cvol_all os :
  (fix all (l : list opt6) : nat := match l with [] => 0 | x :: r => cvol x + all r end) os = cvols os.
Proof. induction os as [|x r IH]; [reflexivity|]. unfold cvols. cbn [sum_size]. fold (cvols r). rewrite <- IH. reflexivity. Qed.

Lemma cvols_bound os D :
  (forall x, In x os -> cvol x <= (1 + depth x) * osize x) -> depth_list os <= D ->
  cvols os <= (1 + D) * osizes os.
Proof.
  induction os as [|x r IH]; intros H HD; [cbn; lia|].
  unfold cvols, osizes in *. cbn [sum_size]. cbn [depth_list] in HD.
  assert (Hx := H x (or_introl eq_refl)).
  assert (Hr : sum_size cvol r <= (1 + D) * sum_size osize r).
  { apply IH; [intros y Hy; apply H; right; exact Hy | lia]. }
  assert (depth x <= D) by lia.
  assert ((1 + depth x) * osize x <= (1 + D) * osize x) by (apply Nat.mul_le_mono_r; lia).
  lia.
Qed.

(** the children of a container are part of it *)
Lemma container_step o os :
  (forall x, In x os -> cvol x <= (1 + depth x) * osize x) ->
  cvol o = osize o + cvols os -> depth o = S (depth_list os) -> osizes os <= osize o ->
  cvol o <= (1 + depth o) * osize o.
Proof.
  intros H Ec Ed Es. rewrite Ec, Ed.
  pose proof (cvols_bound os (depth_list os) H (le_n _)) as B.
  assert ((1 + depth_list os) * osizes os <= (1 + depth_list os) * osize o) by (apply Nat.mul_le_mono_l; exact Es).
  lia.
Qed.

Ltac container_case IH Hd os :=
  apply (container_step _ os);
  [ intros x Hx; apply IH; pose proof (depth_list_in os x Hx);
    destruct (depth_nested os) as (D1 & D2 & D3 & D4 & D5 & D6 & D7 & D8);
    first [ rewrite D1 in Hd | rewrite D2 in Hd | rewrite D3 in Hd | rewrite D4 in Hd
          | rewrite D5 in Hd | rewrite D6 in Hd | rewrite D7 in Hd | rewrite D8 in Hd ]; lia
  | cbn [cvol]; rewrite cvol_all; reflexivity
  | apply (depth_nested os)
  | destruct (osize_nested os) as (O1 & O2 & O3 & O4 & O5 & O6 & O7 & O8);
    first [ rewrite O1 | rewrite O2 | rewrite O3 | rewrite O4 | rewrite O5 | rewrite O6 | rewrite O7 | rewrite O8 ]; lia ].

Theorem cvol_bound : forall n o, depth o <= n -> cvol o <= (1 + depth o) * osize o.
Proof.
  induction n as [|n IH]; intros o Hd.
  - destruct o; cbn [depth] in Hd; try lia; cbn [cvol depth]; lia.
  - destruct o; try (cbn [cvol depth]; lia).
    all: match goal with
         | |- cvol (OIANA _ _ _ ?os) <= _ => container_case IH Hd os
         | |- cvol (OIATA _ ?os) <= _ => container_case IH Hd os
         | |- cvol (OIAAddr _ _ _ ?os) <= _ => container_case IH Hd os
         | |- cvol (ORelayMsgM _ _ ?os) <= _ => container_case IH Hd os
         | |- cvol (ORelayMsgR _ _ _ _ ?os) <= _ => container_case IH Hd os
         | |- cvol (OIAPD _ _ _ ?os) <= _ => container_case IH Hd os
         | |- cvol (OIAPrefix _ _ _ ?os) <= _ => container_case IH Hd os
         | |- cvol (O4RD ?os) <= _ => container_case IH Hd os
         end.
Qed.

Theorem cvol_le o : cvol o <= (1 + depth o) * osize o.
Proof. apply (cvol_bound (depth o)). apply le_n. Qed.

Lemma cvols_le os : cvols os <= (1 + depth_list os) * osizes os.
Proof. apply cvols_bound; [intros x _; apply cvol_le | apply le_n]. Qed.

(** decoding any accepted message copies at most (2 + depth) x 256 octets per input octet *)
Theorem dec_msg_copy_volume b m : dec_msg b = Ok m ->
  cvol_msg m <= (2 + depth_msg m) * (256 * length b).
Proof.
  intros H. pose proof (dec_msg_size b m H) as S.
  unfold cvol_msg. destruct m as [t x os|t h l p os]; cbn [msg_size depth_msg] in *.
  - pose proof (cvols_le os). assert (osizes os <= 256 * length b) by lia.
    assert ((1 + depth_list os) * osizes os <= (1 + depth_list os) * (256 * length b)) by (apply Nat.mul_le_mono_l; lia).
    lia.
  - pose proof (cvols_le os). assert (osizes os <= 256 * length b) by lia.
    assert ((1 + depth_list os) * osizes os <= (1 + depth_list os) * (256 * length b)) by (apply Nat.mul_le_mono_l; lia).
    lia.
Qed.
