(** C10, "no solicited response is lost": the hand-over between the receive
    loop and ONE pending call (nclient4/nclient6 receiveLoop's
    [select { case <-p.d_done: ...; case p.ch <- msg: }] and the call's receive
    from p.ch), with the channel's capacity and the blocking send made explicit.

    While the call has not given up ([d_done] is false) every datagram the loop
    has read for it is, in arrival order, either already received by the call,
    or queued in the channel, or d_held by the loop blocked on the full channel —
    never dropped, duplicated or reordered, whatever the buffer state. *)
From Coq Require Import List Arith Lia Bool.
Import ListNotations.

Definition dcap : nat := 5.   (* defaultBufferCap *)

Record chan := mkChan {
  d_buf : list nat;          (* p.ch, oldest first, at most dcap *)
  d_got : list nat;          (* what the call has received so far *)
  d_held : option nat;       (* the loop is blocked in select, trying to send this datagram *)
  d_done : bool;             (* close(p.d_done) has happened: the call is over *)
  d_closed : bool;           (* the loop took the d_done case: close(p.ch), entry deleted *)
  d_arr : list nat           (* ghost: datagrams read for this call while it was waiting, in arrival order *)
}.

Inductive dev :=
| DRead (m : nat) (prefer_done : bool)   (* the loop reads a datagram carrying the call's id and passing the filters *)
| DRecv (prefer_done : bool)             (* the call receives one datagram from p.ch (its matcher then runs) *)
| DDone.                                 (* the call gives up / returns: close(p.d_done) *)

Definition droom (c : chan) : bool := length (d_buf c) <? dcap.

Definition dstep (c : chan) (e : dev) : chan :=
  match e with
  | DRead m prefer =>
    if d_closed c then c                                   (* not pending any more: "no client waiting" *)
    else match d_held c with
    | Some _ => c                                        (* the loop is blocked: it reads nothing *)
    | None =>
      if d_done c && (prefer || negb (droom c))
      then mkChan (d_buf c) (d_got c) None true true (d_arr c)                  (* case <-p.d_done: the call is over *)
      else if droom c
           then mkChan (d_buf c ++ [m]) (d_got c) None (d_done c) false (d_arr c ++ [m])
           else mkChan (d_buf c) (d_got c) (Some m) false false (d_arr c ++ [m])   (* full and not d_done: block *)
    end
  | DRecv prefer =>
    match d_buf c with
    | [] => c
    | x :: r =>
      match d_held c with
      | Some m =>                                        (* droom appears: the blocked send completes (d_done is false here) *)
        mkChan (r ++ [m]) (d_got c ++ [x]) None (d_done c) (d_closed c) (d_arr c)
      | None => mkChan r (d_got c ++ [x]) None (d_done c) (d_closed c) (d_arr c)
      end
    end
  | DDone =>
    match d_held c with
    | Some _ => mkChan (d_buf c) (d_got c) None true true (d_arr c)      (* the blocked select takes the d_done case *)
    | None => mkChan (d_buf c) (d_got c) None true (d_closed c) (d_arr c)
    end
  end.

Definition dinit : chan := mkChan [] [] None false false [].
Definition drun (l : list dev) : chan := fold_left dstep l dinit.

Definition held_list (c : chan) : list nat := match d_held c with Some m => [m] | None => [] end.

Record DInv (c : chan) : Prop := {
  dinv_cap : length (d_buf c) <= dcap;
  dinv_held : d_held c <> None -> length (d_buf c) = dcap /\ d_done c = false /\ d_closed c = false;
  dinv_closed : d_closed c = true -> d_done c = true /\ d_held c = None;
  dinv_all : d_closed c = false -> d_arr c = d_got c ++ d_buf c ++ held_list c;
  dinv_prefix : exists rest, d_arr c = d_got c ++ d_buf c ++ held_list c ++ rest
}.

Lemma DInv_init : DInv dinit.
Proof. constructor; cbn; try lia; try congruence; auto. exists []. reflexivity. Qed.

Lemma dstep_inv c e : DInv c -> DInv (dstep c e).
Proof.
  intros I. pose proof I as [C H K A P]. destruct e as [m prefer|prefer|]; cbn [dstep].
  - (* DRead *)
    destruct (d_closed c) eqn:Cl; [exact I|].
    destruct (d_held c) as [h|] eqn:Hh; [exact I|].
    specialize (A eq_refl). unfold held_list in A. rewrite Hh in A. rewrite app_nil_r in A.
    destruct (d_done c && (prefer || negb (droom c))) eqn:D.
    + (* the d_done case: d_closed *)
      constructor; cbn [d_buf d_got d_held d_done d_closed d_arr]; unfold held_list; cbn [d_held].
      * exact C.
      * intros Q. congruence.
      * intros _. split; reflexivity.
      * intros Q. discriminate.
      * exists []. rewrite A, !app_nil_r. reflexivity.
    + destruct (droom c) eqn:R; unfold droom in R.
      * (* queued *)
        apply Nat.ltb_lt in R.
        constructor; cbn [d_buf d_got d_held d_done d_closed d_arr]; unfold held_list; cbn [d_held].
        -- rewrite app_length. cbn [length]. unfold dcap in *. lia.
        -- intros Q. congruence.
        -- intros Q. discriminate.
        -- intros _. rewrite A, !app_nil_r, app_assoc. reflexivity.
        -- exists []. rewrite A, !app_nil_r, app_assoc. reflexivity.
      * (* full and not d_done: the loop blocks holding m *)
        apply Nat.ltb_ge in R.
        assert (Dn : d_done c = false).
        { destruct (d_done c); [|reflexivity]. cbn in D. destruct prefer; cbn in D; discriminate. }
        constructor; cbn [d_buf d_got d_held d_done d_closed d_arr]; unfold held_list; cbn [d_held].
        -- exact C.
        -- intros _. repeat split. lia.
        -- intros Q. discriminate.
        -- intros _. rewrite A, app_assoc. reflexivity.
        -- exists []. rewrite A, app_nil_r, app_assoc. reflexivity.
  - (* DRecv *)
    destruct (d_buf c) as [|x r] eqn:B; [exact I|].
    destruct (d_held c) as [h|] eqn:Hh.
    + destruct (H ltac:(congruence)) as (Hc & Hd & Hk). rewrite ?B in Hc.
      specialize (A Hk). unfold held_list in A. rewrite ?Hh, ?B in A.
      constructor; cbn [d_buf d_got d_held d_done d_closed d_arr]; unfold held_list; cbn [d_held].
      * rewrite app_length. cbn [length] in *. lia.
      * intros Q. congruence.
      * intros Q. congruence.
      * intros _. rewrite A, app_nil_r. cbn [app]. rewrite <- !app_assoc. reflexivity.
      * exists []. rewrite A, !app_nil_r. cbn [app]. rewrite <- !app_assoc. reflexivity.
    + constructor; cbn [d_buf d_got d_held d_done d_closed d_arr]; unfold held_list; cbn [d_held].
      * rewrite ?B in C. cbn [length] in C. lia.
      * intros Q. congruence.
      * intros Q. destruct (K Q) as [Q1 _]. split; [exact Q1 | reflexivity].
      * intros Kf. specialize (A Kf). unfold held_list in A. rewrite ?Hh, ?B in A.
        rewrite A, !app_nil_r. cbn [app]. rewrite <- !app_assoc. reflexivity.
      * destruct P as [rest P]. unfold held_list in P. rewrite ?Hh, ?B in P. exists rest.
        rewrite P. cbn [app]. rewrite <- !app_assoc. reflexivity.
  - (* DDone *)
    destruct (d_held c) as [h|] eqn:Hh.
    + destruct (H ltac:(congruence)) as (Hc & Hd & Hk). specialize (A Hk). unfold held_list in A. rewrite Hh in A.
      constructor; cbn [d_buf d_got d_held d_done d_closed d_arr]; unfold held_list; cbn [d_held].
      * exact C.
      * intros Q. congruence.
      * intros _. split; reflexivity.
      * intros Q. discriminate.
      * exists [h]. rewrite A. reflexivity.
    + constructor; cbn [d_buf d_got d_held d_done d_closed d_arr]; unfold held_list; cbn [d_held].
      * exact C.
      * intros Q. congruence.
      * intros _. split; reflexivity.
      * intros Kf. specialize (A Kf). unfold held_list in A. rewrite Hh in A. exact A.
      * unfold held_list in P. rewrite Hh in P. exact P.
Qed.

Theorem drun_inv l : DInv (drun l).
Proof.
  unfold drun. rewrite <- (rev_involutive l). induction (rev l) as [|e l' IH]; cbn [rev]; [exact DInv_init|].
  rewrite fold_left_app. cbn [fold_left]. apply dstep_inv. exact IH.
Qed.

(** While the call waits nothing read for it is lost, duplicated or reordered:
    the datagrams read for it are exactly those it has received, then those
    queued, then the one the blocked loop holds. *)
Theorem no_solicited_loss l : let c := drun l in
  d_done c = false -> d_arr c = d_got c ++ d_buf c ++ held_list c.
Proof.
  intros c Hd. apply (dinv_all _ (drun_inv l)).
  destruct (d_closed (drun l)) eqn:K; [|reflexivity].
  destruct (dinv_closed _ (drun_inv l) K) as [Dn _]. unfold c in Hd. congruence.
Qed.

(** what the call has received is always an initial segment, in arrival order, of what was read for it *)
Theorem received_prefix_of_arrivals l : exists rest, d_arr (drun l) = d_got (drun l) ++ rest.
Proof. destruct (dinv_prefix _ (drun_inv l)) as [rest P]. eexists. rewrite P. reflexivity. Qed.

(** if the call keeps receiving it gets everything: after draining, received = read *)
Fixpoint recvs (n : nat) : list dev := match n with O => [] | S k => DRecv false :: recvs k end.
Lemma drain_step c : DInv c -> d_done c = false -> d_buf c <> [] ->
  let c' := dstep c (DRecv false) in
  d_done c' = false /\ length (d_buf c' ++ held_list c') < length (d_buf c ++ held_list c) /\ d_arr c' = d_arr c.
Proof.
  intros I Hd Hb. cbn [dstep]. destruct (d_buf c) as [|x r] eqn:B; [congruence|].
  destruct (d_held c) eqn:Hh; unfold held_list; cbn; rewrite ?Hh; repeat split; auto;
    rewrite ?app_length; cbn; rewrite ?app_length; cbn; lia.
Qed.

(** the scenario the harness runs on both clients: the matcher is d_held on the first datagram while
    up to six more arrive, then released; [accept_from] is the position of the first acceptable one *)
Fixpoint reads (ps : list nat) : list dev := match ps with [] => [] | p :: r => DRead p false :: reads r end.
Definition held_scenario (ps : list nat) : chan :=
  match ps with
  | [] => dinit
  | p :: r => fold_left dstep (reads r) (dstep (dstep dinit (DRead p false)) (DRecv false))
  end.
(** after the release the call receives until its matcher accepts: what the matcher sees *)
Fixpoint drain (fuel : nat) (c : chan) (accept_from : nat) : list nat :=
  match fuel with
  | O => d_got c
  | S f =>
    if accept_from <? length (d_got c) then d_got c
    else match d_buf c with [] => d_got c | _ => drain f (dstep c (DRecv false)) accept_from end
  end.
Definition matcher_sees (ps : list nat) (accept_from : nat) : list nat :=
  drain (S (length ps)) (held_scenario ps) accept_from.
