(** Encoding valid names and decoding returns them; unmodified label sets
    re-emit their original bytes, modified ones the fresh encoding. *)
From DV Require Import Base.Bytes Label.Model Label.Total Label.Spec.

Definition valid_label (l : bytes) : Prop := 1 <= length l <= 63 /\ ~ In dot l.

(** A valid name: the root (empty) name, or one or more valid labels whose
    dotted form respects RFC 1035 2.3.4 (253 octets dotted = 255 on the wire). *)
Inductive valid_name : bytes -> Prop :=
| vn_root : valid_name []
| vn_labels ls : ls <> [] -> Forall valid_label ls ->
    length (dotted [] ls) <= max_name_len -> valid_name (dotted [] ls).

Definition encl (l : bytes) : bytes := len_byte l :: l.

Lemma fold_join rest : forall pre, pre <> [] ->
  fold_left join rest pre = pre ++ flat_map (cons dot) rest.
Proof.
  induction rest as [|r rest IH]; intros pre Hp; cbn [fold_left flat_map].
  - rewrite app_nil_r. reflexivity.
  - assert (J : join pre r = pre ++ dot :: r) by (destruct pre; [congruence | reflexivity]).
    rewrite J. rewrite IH.
    + rewrite <- app_assoc. reflexivity.
    + destruct pre; [congruence | discriminate].
Qed.

Lemma split_aux_nodot l : forall cur s, ~ In dot l ->
  split_dot_aux cur (l ++ s) = split_dot_aux (rev l ++ cur) s.
Proof.
  induction l as [|c l IH]; intros cur s H; cbn [app split_dot_aux rev]; [reflexivity|].
  assert (Hc : beqb c dot = false) by (apply beqb_neq; intros ->; apply H; left; reflexivity).
  rewrite Hc. rewrite IH by (intros K; apply H; right; exact K).
  rewrite <- app_assoc. reflexivity.
Qed.

Lemma split_aux_dots rest : forall cur, Forall (fun l => ~ In dot l) rest ->
  split_dot_aux cur (flat_map (cons dot) rest) = rev cur :: rest.
Proof.
  induction rest as [|r rest IH]; intros cur H; cbn [flat_map split_dot_aux app]; [reflexivity|].
  inversion H as [|? ? Hr Hrest]; subst.
  assert (Hd : beqb dot dot = true) by (apply beqb_eq; reflexivity). rewrite Hd.
  rewrite split_aux_nodot by exact Hr. rewrite IH by exact Hrest.
  rewrite app_nil_r, rev_involutive. reflexivity.
Qed.

Lemma valid_label_nonempty l : valid_label l -> l <> [].
Proof. intros [[H _] _] ->. cbn in H. lia. Qed.

Lemma dotted_cons l rest : l <> [] -> dotted [] (l :: rest) = l ++ flat_map (cons dot) rest.
Proof. intros H. unfold dotted. cbn [fold_left join]. apply fold_join. exact H. Qed.

Lemma split_dotted ls : ls <> [] -> Forall valid_label ls -> split_dot (dotted [] ls) = ls.
Proof.
  intros Hne H. destruct ls as [|l rest]; [congruence|].
  inversion H as [|? ? Hl Hrest]; subst.
  rewrite dotted_cons by (apply valid_label_nonempty; exact Hl).
  unfold split_dot. rewrite split_aux_nodot by (apply Hl).
  rewrite split_aux_dots.
  - rewrite app_nil_r, rev_involutive. reflexivity.
  - eapply Forall_impl; [|exact Hrest]. intros a Ha. apply Ha.
Qed.

Lemma label_to_bytes_valid ls : ls <> [] -> Forall valid_label ls ->
  label_to_bytes (dotted [] ls) = flat_map encl ls ++ [x00].
Proof.
  intros Hne H. unfold label_to_bytes. rewrite split_dotted by assumption.
  destruct (dotted [] ls) eqn:E; [|reflexivity].
  destruct ls as [|l rest]; [congruence|]. inversion H as [|? ? Hl _]; subst.
  rewrite dotted_cons in E by (apply valid_label_nonempty; exact Hl).
  apply app_eq_nil in E. destruct E as [E _]. apply valid_label_nonempty in Hl. contradiction.
Qed.

Lemma nth_error_mid {A} (pre : list A) x post : nth_error (pre ++ x :: post) (length pre) = Some x.
Proof. rewrite nth_error_app2 by lia. rewrite Nat.sub_diag. reflexivity. Qed.

Lemma slice_mid (pre l post : bytes) : slice (pre ++ l ++ post) (length pre) (length l) = l.
Proof.
  unfold slice. rewrite skipn_app, Nat.sub_diag, skipn_all. cbn [app skipn].
  rewrite firstn_app, Nat.sub_diag, firstn_all. cbn. apply app_nil_r.
Qed.

Lemma bnat_len_byte l : length l < 256 -> bnat (len_byte l) = length l.
Proof. intros H. unfold bnat, len_byte. rewrite n2b_small by lia. lia. Qed.

Lemma run_enc ls : Forall valid_label ls -> forall pre post,
  run (pre ++ flat_map encl ls ++ post) (length pre) ls (length pre + length (flat_map encl ls)).
Proof.
  induction 1 as [|l ls Hl Hls IH]; intros pre post.
  - cbn. rewrite Nat.add_0_r. constructor.
  - cbn [flat_map]. destruct Hl as [[Hl1 Hl2] Hnd].
    assert (Hb : bnat (len_byte l) = length l) by (apply bnat_len_byte; lia).
    set (b := pre ++ (encl l ++ flat_map encl ls) ++ post).
    assert (Eb : b = (pre ++ encl l) ++ flat_map encl ls ++ post).
    { unfold b. rewrite <- !app_assoc. reflexivity. }
    assert (Eb2 : b = (pre ++ [len_byte l]) ++ l ++ (flat_map encl ls ++ post)).
    { unfold b, encl. rewrite <- !app_assoc. reflexivity. }
    assert (Hlen : length b = length pre + 1 + length l + length (flat_map encl ls) + length post).
    { unfold b, encl. repeat (rewrite app_length || cbn [length app]). lia. }
    assert (Hs : slice b (length pre + 1) (bnat (len_byte l)) = l).
    { rewrite Hb, Eb2. replace (length pre + 1) with (length (pre ++ [len_byte l])) by (rewrite app_length; cbn; lia).
      apply slice_mid. }
    cut (run b (length pre) (slice b (length pre + 1) (bnat (len_byte l)) :: ls)
             (length pre + length (encl l ++ flat_map encl ls))).
    { rewrite Hs. exact (fun x => x). }
    apply run_cons.
    + unfold b, encl. cbn [app]. apply nth_error_mid.
    + lia.
    + unfold is_ptr. apply Nat.leb_gt. lia.
    + lia.
    + specialize (IH (pre ++ encl l) post). rewrite <- Eb in IH.
      replace (length pre + 1 + bnat (len_byte l)) with (length (pre ++ encl l))
        by (rewrite app_length; unfold encl; cbn; lia).
      replace (length pre + length (encl l ++ flat_map encl ls))
        with (length (pre ++ encl l) + length (flat_map encl ls))
        by (rewrite !app_length; lia).
      exact IH.
Qed.

Lemma names_from_enc ns : Forall valid_name ns -> forall pre,
  names_from (pre ++ labels_to_bytes ns) [] (length pre) ns.
Proof.
  induction 1 as [|n ns Hn Hns IH]; intros pre.
  - cbn. rewrite app_nil_r.
    apply (nf_end _ [] (length pre) [] (length pre)); [constructor | lia | cbn; lia].
  - cbn [labels_to_bytes flat_map]. fold (labels_to_bytes ns).
    destruct Hn as [|ls Hne Hls Hcap].
    + (* root name *)
      cbn [label_to_bytes].
      apply (nf_zero _ [] (length pre) [] (length pre) x00 ns).
      * constructor.
      * cbn [app]. apply nth_error_mid.
      * reflexivity.
      * cbn; lia.
      * specialize (IH (pre ++ [x00])). rewrite <- app_assoc in IH. cbn [app] in IH.
        rewrite app_length in IH. cbn in IH. exact IH.
    + rewrite label_to_bytes_valid by assumption.
      set (b := pre ++ (flat_map encl ls ++ [x00]) ++ labels_to_bytes ns).
      assert (Eb : b = pre ++ flat_map encl ls ++ (x00 :: labels_to_bytes ns)).
      { unfold b. rewrite <- !app_assoc. reflexivity. }
      apply (nf_zero b [] (length pre) ls (length pre + length (flat_map encl ls)) x00 ns).
      * rewrite Eb. apply run_enc. exact Hls.
      * rewrite Eb, app_assoc. rewrite <- app_length. apply nth_error_mid.
      * reflexivity.
      * exact Hcap.
      * specialize (IH (pre ++ flat_map encl ls ++ [x00])).
        replace (length pre + length (flat_map encl ls) + 1) with (length (pre ++ flat_map encl ls ++ [x00]))
          by (rewrite !app_length; cbn; lia).
        replace b with ((pre ++ flat_map encl ls ++ [x00]) ++ labels_to_bytes ns)
          by (unfold b; rewrite <- !app_assoc; reflexivity).
        exact IH.
Qed.

Theorem roundtrip ns : Forall valid_name ns -> labels_from_bytes (labels_to_bytes ns) = Ok ns.
Proof.
  intros H. apply decode_characterised. apply (names_from_enc ns H []).
Qed.

(** The encoding of valid names is the RFC 1035 3.1 layout: for each name its
    labels as length octet + octets, then a zero octet (no compression). *)
Theorem encode_layout ls : ls <> [] -> Forall valid_label ls ->
  label_to_bytes (dotted [] ls) = flat_map (fun l => n2b (N.of_nat (length l)) :: l) ls ++ [x00].
Proof. exact (label_to_bytes_valid ls). Qed.

(** * Re-encoding *)
Arguments labels_from_bytes : simpl never.

Lemma same_eq a : forall b, same a b = true <-> a = b.
Proof.
  induction a as [|x a IH]; intros [|y b]; cbn; split; intros H; try congruence.
  - apply andb_true_iff in H. destruct H as [H1 H2]. apply bytes_eqb_eq in H1. apply IH in H2. congruence.
  - injection H as -> ->. apply andb_true_iff. split; [apply bytes_eqb_eq; reflexivity | apply IH; reflexivity].
Qed.

Theorem reencode_original b l : labels_from (Some b) = Ok l -> labels_to l = Some b.
Proof.
  unfold labels_from, labels_to. destruct (labels_from_bytes b) as [ns| | |] eqn:E; cbn [bind]; try discriminate.
  intros [= <-]. cbn [original names]. rewrite E.
  assert (S : same ns ns = true) by (apply same_eq; reflexivity). rewrite S. reflexivity.
Qed.

Theorem reencode_modified b l ns' : labels_from (Some b) = Ok l -> ns' <> names l ->
  labels_to (mkLabels (original l) ns') = Some (labels_to_bytes ns').
Proof.
  unfold labels_from, labels_to. destruct (labels_from_bytes b) as [ns| | |] eqn:E; cbn [bind]; try discriminate.
  intros [= <-]. cbn [original names]. intros Hne. rewrite E.
  destruct (same ns ns') eqn:S; [|reflexivity].
  apply same_eq in S. congruence.
Qed.

Theorem reencode_unmodified_edit b l : labels_from (Some b) = Ok l ->
  labels_to (mkLabels (original l) (names l)) = Some b.
Proof. intros H. destruct l as [o n]. cbn. apply (reencode_original b _ H). Qed.

(** fresh label sets (no original bytes) always encode their names *)
Theorem encode_fresh ns : labels_to (mkLabels None ns) = Some (labels_to_bytes ns).
Proof.
  unfold labels_to. cbn [original names].
  destruct (labels_from_bytes []) eqn:E; try reflexivity; vm_compute in E; discriminate.
Qed.
