(** Re-encoding a decoded DHCPv4 packet never yields more than max(300, received length) octets:
    instances of one code are merged and re-split into at most as many instances, pads and the
    octets after End are dropped, the only growth is the padding to the 300-octet BOOTP minimum. *)
From DV Require Import Base.Bytes Label.Model V4.Model V4.OptProofs V4.Proofs V4.RoundTrip V4.Canon V4.Fixpoint V6.Model.
From Coq Require Import Permutation.
Ltac Zify.zify_post_hook ::= Z.div_mod_to_equations.

(** encoded size of one option as a function of the length of its value *)
Definition mlen (n : nat) : nat := if n =? 0 then 2 else 2 * ((n + 254) / 255) + n.

Lemma chunks_len c : forall f v, length v <= 255 * f -> v <> [] ->
  length (flat_map (fun ch => c :: n2b (N.of_nat (length ch)) :: ch) (chunks f v)) = 2 * ((length v + 254) / 255) + length v.
Proof.
  induction f as [|f IH]; intros v Hf Hv.
  - destruct v; [congruence | cbn [length] in Hf; lia].
  - cbn [chunks]. destruct (length v <=? 255) eqn:E.
    + apply Nat.leb_le in E. cbn [flat_map length app]. rewrite app_nil_r. cbn [length].
      assert (1 <= length v) by (destruct v; [congruence | cbn [length]; lia]). lia.
    + apply Nat.leb_gt in E. cbn [flat_map]. rewrite app_length. cbn [length]. rewrite firstn_length.
      rewrite IH; [| rewrite skipn_length; lia | intros K; apply (f_equal (@length byte)) in K; rewrite skipn_length in K; cbn [length] in K; lia].
      rewrite skipn_length. lia.
Qed.

Lemma marshal_opt_len c v : length (marshal_opt c v) = mlen (length v).
Proof.
  unfold marshal_opt, mlen. destruct v as [|x v]; [reflexivity|].
  rewrite chunks_len by (cbn [length]; try lia; discriminate). cbn [length Nat.eqb]. reflexivity.
Qed.

Lemma mlen_append a b : b <= 255 -> mlen (a + b) <= mlen a + 2 + b.
Proof.
  intros Hb. unfold mlen. destruct (a =? 0) eqn:A; destruct (a + b =? 0) eqn:AB;
    rewrite ?Nat.eqb_eq, ?Nat.eqb_neq in *; lia.
Qed.
Lemma mlen_single b : b <= 255 -> mlen b <= 2 + b.
Proof. intros Hb. unfold mlen. destruct (b =? 0) eqn:B; rewrite ?Nat.eqb_eq, ?Nat.eqb_neq in *; lia. Qed.

Fixpoint mcost (m : optmap) : nat := match m with [] => 0 | (_, v) :: r => mlen (length v) + mcost r end.

Lemma mcost_append acc c d : length d <= 255 -> mcost (append_opt acc c d) <= mcost acc + 2 + length d.
Proof.
  intros Hd. induction acc as [|[k v] r IH]; cbn [append_opt mcost].
  - pose proof (mlen_single _ Hd). lia.
  - destruct (beqb k c); cbn [mcost].
    + rewrite app_length. pose proof (mlen_append (length v) _ Hd). lia.
    + lia.
Qed.

Lemma area_cost d acc m : area_denotes d acc m true -> mcost m + 1 <= mcost acc + length d.
Proof.
  intros H. remember true as e eqn:E. induction H as [acc | r acc m e H IH | junk acc | c n data r acc m e G L H IH].
  - discriminate.
  - specialize (IH E). cbn [length]. lia.
  - cbn [length]. lia.
  - specialize (IH E). assert (length data <= 255) by (rewrite L; pose proof (bnat_lt n); lia).
    pose proof (mcost_append acc c data H0). cbn [length]. rewrite app_length. lia.
Qed.

(** sum over the (duplicate-free) key list *)
Fixpoint sum_keys (h : byte -> nat) (l : list byte) : nat := match l with [] => 0 | c :: r => h c + sum_keys h r end.
Lemma sum_keys_perm h l1 l2 : Permutation l1 l2 -> sum_keys h l1 = sum_keys h l2.
Proof. induction 1; cbn [sum_keys]; lia. Qed.

Definition piece (m : optmap) (c : byte) : bytes :=
  if beqb c opt_end || beqb c opt_pad then [] else match lookup c m with Some v => marshal_opt c v | None => [] end.

Lemma marshal_sum m : length (marshal m) = sum_keys (fun c => length (piece m c)) (sorted_keys m).
Proof.
  unfold marshal. induction (sorted_keys m) as [|c L IH]; [reflexivity|].
  cbn [flat_map sum_keys]. rewrite app_length, IH. reflexivity.
Qed.

Lemma sum_keys_own m : NoDup (map fst m) ->
  sum_keys (fun c => length (piece m c)) (map fst m) <= mcost m.
Proof.
  induction m as [|[k v] r IH]; intros H; [cbn; lia|].
  inversion H as [|? ? Hk Hr]; subst. cbn [map fst sum_keys mcost].
  assert (P0 : length (piece ((k, v) :: r) k) <= mlen (length v)).
  { unfold piece. destruct (beqb k opt_end || beqb k opt_pad); [cbn; unfold mlen; destruct (length v =? 0); lia|].
    cbn [lookup]. assert (B : beqb k k = true) by (apply beqb_eq; reflexivity). rewrite B. rewrite marshal_opt_len. lia. }
  assert (P1 : sum_keys (fun c => length (piece ((k, v) :: r) c)) (map fst r) = sum_keys (fun c => length (piece r c)) (map fst r)).
  { clear IH H P0 Hr. assert (G : forall L, (forall c, In c L -> c <> k) ->
      sum_keys (fun c => length (piece ((k, v) :: r) c)) L = sum_keys (fun c => length (piece r c)) L);
      [|apply G; intros c Hc ->; exact (Hk Hc)].
    induction L as [|c L IHL]; intros HL; [reflexivity|].
    cbn [sum_keys]. rewrite IHL by (intros x Hx; apply HL; right; exact Hx). f_equal.
    unfold piece. cbn [lookup]. assert (B : beqb k c = false) by (apply beqb_neq; intros ->; apply (HL c); [left|]; reflexivity).
    rewrite B. reflexivity. }
  rewrite P1. specialize (IH Hr). lia.
Qed.

Lemma marshal_cost m : NoDup (map fst m) -> length (marshal m) <= mcost m.
Proof.
  intros H. rewrite marshal_sum.
  rewrite (sum_keys_perm _ (sorted_keys m) (map fst m)).
  - apply sum_keys_own. exact H.
  - apply NoDup_Permutation; [apply sorted_keys_nodup; exact H | exact H | intros x; apply sorted_keys_in].
Qed.

(** re-encoding a decoded DHCPv4 packet gives at most max(300, received length) octets *)
Theorem dec4_reencode_length b p : dec4 b = Ok p -> length (enc4_bytes p) <= Nat.max 300 (length b).
Proof.
  intros H. destruct (fixpoint4 b p H) as (b1 & m2 & E & _).
  pose proof H as H'. apply dec4_exact in H'.
  destruct H' as (op & hw & hl & hops & xid & secs & flags & ci & yi & si & gi & ch & sn & fl & area & o & e & -> &
                 Hxid & Hsecs & Hflags & Hci & Hyi & Hsi & Hgi & Hch & Hsn & Hfl & HA & ->).
  assert (HO : NoDup (map fst o)).
  { destruct HA as [[_ ->]|[HA _]]; [constructor|]. apply (area_denotes_inv _ _ _ _ HA); constructor. }
  assert (MC : length (marshal o) + 1 <= Nat.max 1 (length area)).
  { pose proof (marshal_cost o HO). destruct HA as [[-> ->]|[HA ->]]; [cbn; lia|].
    pose proof (area_cost _ _ _ HA). cbn [mcost] in *. lia. }
  unfold enc4_bytes. rewrite E.
  unfold enc4 in E. cbn [p_ciaddr p_yiaddr p_siaddr p_giaddr p_opts p_op p_hwtype p_chaddr p_hops p_xid p_secs p_flags p_sname p_file] in E.
  unfold write_ip in E. rewrite !to4_len4 in E by assumption. cbn [bind] in E.
  injection E as <-. unfold pad_to, bootp_min_len. unfold cookie.
  repeat (cbn [length]; rewrite ?app_length, ?zeros_length).
  rewrite !copy_into_length by lia. cbn [length].
  rewrite Hxid, Hci, Hyi, Hsi, Hgi, Hsecs, Hflags, Hch, Hsn, Hfl. lia.
Qed.
