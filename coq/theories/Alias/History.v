(** C08 over overwrite histories, and the converse of the ownership theorem.

    [Alias/Model.v] shows that a value built only from copying primitives denotes the same thing
    under every buffer.  Here: (1) the same for every HISTORY of in-place overwrites of the source
    buffer (each of any offset, length and content, applied one after another, the value observed
    after each of them); (2) the converse - a value holding a view of at least one octet of the
    buffer is changed by an overwrite (so "no decoder stores a view", the fact extracted from the
    source on every run, is exactly what the property needs, not merely sufficient); (3) the
    characterisation that joins the two. *)
From Coq Require Import List Arith Lia Bool.
Import ListNotations.
From DV Require Import Base.Bytes Alias.Model.

(** an in-place overwrite: [data] written at [off]; what falls outside the buffer is dropped
    (a buffer that is reused keeps its length) *)
Definition overwrite (buf : bytes) (w : nat * bytes) : bytes :=
  let off := fst w in let data := snd w in
  firstn off buf ++ firstn (length buf - off) data ++ skipn (off + length data) buf.

Lemma overwrite_length buf w : length (overwrite buf w) = length buf.
Proof.
  destruct w as [off data]. unfold overwrite. cbn [fst snd].
  rewrite !app_length, !firstn_length, skipn_length. lia.
Qed.

(** the value observed after each overwrite of a history *)
Fixpoint observe (v : pval) (buf : bytes) (ws : list (nat * bytes)) : list (list bytes) :=
  match ws with
  | [] => []
  | w :: r => let buf' := overwrite buf w in presolve buf' v :: observe v buf' r
  end.

Theorem owned_history v : owns v -> forall ws buf,
  Forall (fun o => o = presolve buf v) (observe v buf ws).
Proof.
  intros H ws. induction ws as [|w r IH]; intros buf; cbn [observe]; [constructor|].
  constructor.
  - apply owned_value_independent. exact H.
  - rewrite (owned_value_independent v H buf (overwrite buf w)). apply IH.
Qed.

(** the leaves of a value, in order *)
Fixpoint leaves (v : pval) : list leaf :=
  match v with
  | PLeaf x => [x]
  | PNode cs => flat_map leaves cs
  end.

Lemma presolve_leaves buf : forall v, presolve buf v = map (resolve buf) (leaves v).
Proof.
  fix IH 1. intros [x|cs]; [reflexivity|]. cbn [presolve leaves].
  induction cs as [|c cs IHcs]; [reflexivity|]. cbn [flat_map]. rewrite map_app, <- IHcs, <- (IH c). reflexivity.
Qed.

Lemma owns_leaves : forall v, owns v <-> Forall (fun x => match x with Owned _ => True | View _ _ => False end) (leaves v).
Proof.
  fix IH 1. intros [x|cs].
  - cbn [owns leaves]. split.
    + intros H. constructor; [destruct x; [exact I | contradiction] | constructor].
    + intros H. inversion H as [|? ? Hx _]; subst. destruct x; [exact I | contradiction].
  - cbn [owns leaves]. rewrite owns_children.
    induction cs as [|c cs IHcs]; cbn [flat_map]; [split; constructor|].
    rewrite Forall_app, <- IHcs, <- (IH c). split.
    + intros H. inversion H; subst. auto.
    + intros [A B]. constructor; assumption.
Qed.

(** every octet replaced by another one *)
Definition flip (b : byte) : byte := if Byte.eqb b x00 then x01 else x00.

Lemma flip_neq b : flip b <> b.
Proof.
  unfold flip. destruct (Byte.eqb b x00) eqn:E.
  - apply Byte.byte_dec_bl in E. subst. discriminate.
  - apply Byte.eqb_false in E. congruence.
Qed.

Lemma map_flip_neq l : l <> [] -> map flip l <> l.
Proof. destruct l as [|a l]; [congruence|]. intros _ H. cbn [map] in H. injection H as H _. exact (flip_neq a H). Qed.

Lemma slice_map (f : byte -> byte) buf off len : slice (map f buf) off len = map f (slice buf off len).
Proof. unfold slice. rewrite skipn_map, firstn_map. reflexivity. Qed.

Lemma map_resolve_differs buf buf' ls x :
  In x ls -> resolve buf x <> resolve buf' x -> map (resolve buf) ls <> map (resolve buf') ls.
Proof.
  induction ls as [|y ls IH]; [intros []|]. intros [->|Hin] Hne H; cbn [map] in H; injection H as H1 H2.
  - exact (Hne H1).
  - exact (IH Hin Hne H2).
Qed.

(** a value that holds a view of at least one octet of the buffer is changed by overwriting the
    buffer (same length, every octet replaced) *)
Theorem view_is_observable v buf off len :
  In (View off len) (leaves v) -> slice buf off len <> [] ->
  exists w, length (overwrite buf w) = length buf /\ presolve (overwrite buf w) v <> presolve buf v.
Proof.
  intros Hin Hne. exists (0, map flip buf). split; [apply overwrite_length|].
  assert (E : overwrite buf (0, map flip buf) = map flip buf).
  { unfold overwrite. cbn [fst snd firstn app]. rewrite Nat.sub_0_r, map_length, Nat.add_0_l.
    rewrite skipn_all, app_nil_r. rewrite <- (map_length flip buf) at 1. apply firstn_all. }
  rewrite E, !presolve_leaves. apply (map_resolve_differs _ _ _ (View off len) Hin).
  cbn [resolve]. rewrite slice_map. apply map_flip_neq. exact Hne.
Qed.

(** a leaf that holds no octet of the buffer: a private copy, or a view that is empty on it *)
Definition harmless (buf : bytes) (x : leaf) : Prop :=
  match x with Owned _ => True | View off len => slice buf off len = [] end.

Lemma resolve_empty_view_stable buf buf' off len :
  length buf' = length buf -> slice buf off len = [] -> slice buf' off len = [].
Proof.
  unfold slice. intros L H.
  assert (Z : length (firstn len (skipn off buf)) = 0) by (rewrite H; reflexivity).
  rewrite firstn_length, skipn_length in Z.
  apply length_zero_iff_nil. rewrite firstn_length, skipn_length. lia.
Qed.

(** the characterisation: a decoded value is unaffected by every later content of its source
    buffer exactly when none of its leaves holds an octet of it *)
Theorem independent_iff_harmless v buf :
  (forall buf', length buf' = length buf -> presolve buf' v = presolve buf v)
  <-> Forall (harmless buf) (leaves v).
Proof.
  split.
  - intros H. apply Forall_forall. intros [l|off len] Hin; cbn [harmless]; [exact I|].
    destruct (slice buf off len) as [|a s] eqn:S; [reflexivity|]. exfalso.
    assert (Hne : slice buf off len <> []) by (rewrite S; discriminate).
    destruct (view_is_observable v buf off len Hin Hne) as (w & L & D). exact (D (H _ L)).
  - intros H buf' L. rewrite !presolve_leaves. apply map_ext_in. intros [l|off len] Hin; [reflexivity|].
    rewrite Forall_forall in H. specialize (H _ Hin). cbn [harmless] in H. cbn [resolve].
    rewrite H. apply (resolve_empty_view_stable buf buf'); assumption.
Qed.

(** non-vacuity, on the shape of a decoded message: transaction id copied, one option value copied,
    one option value kept as a view (what a decoder with a retention site would build) *)
Example history_example :
  let buf := [x01; x02; x03; x04; x05; x06] in
  let good := PNode [PLeaf (prim_leaf PCopyN buf 0 3); PNode [PLeaf (prim_leaf PReadAll buf 3 3)]] in
  let bad := PNode [PLeaf (prim_leaf PCopyN buf 0 3); PNode [PLeaf (prim_leaf PConsume buf 3 3)]] in
  observe good buf [(0, zeros 6); (2, [xff; xff]); (4, [x00; x01; x02; x03])] = repeat (presolve buf good) 3
  /\ observe bad buf [(0, zeros 6)] <> [presolve buf bad].
Proof. cbn. split; [reflexivity | discriminate]. Qed.
