(** Self-describing flat dump of DHCPv6 value trees: the observable the
    correspondence check compares (the Go harness produces the same dump from
    the library's typed values through their exported fields). *)
From DV Require Import Base.Bytes Label.Model V4.Model V6.Model.

Definition tag (code kind : N) : bytes := be16 code ++ [n2b kind].
Definition cnt {A} (l : list A) : bytes := be16 (N.of_nat (length l)).

Definition dump_duid (d : duid) : list bytes :=
  match d with
  | DLLT hw t ll => [[x01]; be16 hw; be32 t; ll]
  | DEN en id => [[x02]; be32 en; id]
  | DLL hw ll => [[x03]; be16 hw; ll]
  | DUUID u => [[x04]; u]
  | DOpaque t data => [[x00]; be16 t; data]
  end.

Definition dump_labels (l : labels) : list bytes := cnt (names l) :: names l.

Definition dump_ntpsub (s : ntpsub) : list bytes :=
  match s with
  | NSrv a => [tag 1 1; a]
  | NMC a => [tag 2 1; a]
  | NFQDN l => tag 3 1 :: dump_labels l
  | NGen c d => [tag c 0; d]
  end.

Definition dump_optmap (m : optmap) : list bytes :=
  cnt m :: flat_map (fun c => [[c]; match lookup c m with Some v => v | None => [] end]) (sort_codes (map fst m)).

Definition dump_pkt4 (p : pkt4) : list bytes :=
  [[n2b (p_op p)]; be16 (p_hwtype p); [n2b (p_hops p)]; p_xid p; be16 (p_secs p); be16 (p_flags p);
   obytes (p_ciaddr p); obytes (p_yiaddr p); obytes (p_siaddr p); obytes (p_giaddr p);
   p_chaddr p; p_sname p; p_file p] ++ dump_optmap (p_opts p).

Definition bool_b (b : bool) : bytes := [if b then x01 else x00].

Fixpoint dump_opt (o : opt6) : list bytes :=
  let dump_opts os := cnt os :: flat_map dump_opt os in
  match o with
  | OClientID d => tag 1 1 :: dump_duid d
  | OServerID d => tag 2 1 :: dump_duid d
  | OIANA iaid t1 t2 os => [tag 3 1; iaid; be32 t1; be32 t2] ++ dump_opts os
  | OIATA iaid os => [tag 4 1; iaid] ++ dump_opts os
  | OIAAddr a p v os => [tag 5 1; a; be32 p; be32 v] ++ dump_opts os
  | OORO cs => [tag 6 1; flat_map be16 cs]
  | OElapsed t => [tag 8 1; be16 t]
  | ORelayMsgM t xid os => [tag 9 1; [n2b t]; xid] ++ dump_opts os
  | ORelayMsgR t hop l p os => [tag 9 2; [n2b t]; [n2b hop]; l; p] ++ dump_opts os
  | OStatus c m => [tag 13 1; be16 c; m]
  | OUserClass cls => tag 15 1 :: cnt cls :: cls
  | OVendorClass en ds => tag 16 1 :: be32 en :: cnt ds :: ds
  | OVendorOpts en subs => tag 17 1 :: be32 en :: cnt subs :: flat_map (fun s => [be16 (fst s); snd s]) subs
  | OInterfaceID id => [tag 18 1; id]
  | ODNS as_ => tag 23 1 :: cnt as_ :: as_
  | ODomainList l => tag 24 1 :: dump_labels l
  | OIAPD iaid t1 t2 os => [tag 25 1; iaid; be32 t1; be32 t2] ++ dump_opts os
  | OIAPrefix p v pre os =>
      [tag 26 1; be32 p; be32 v] ++
      (match pre with Some (plen, a) => [[n2b plen]; a] | None => [[]; []] end) ++ dump_opts os
  | OInfoRefresh t => [tag 32 1; be32 t]
  | ORemoteID en id => [tag 37 1; be32 en; id]
  | OFQDN f l => tag 39 1 :: [n2b f] :: dump_labels l
  | ONTP subs => tag 56 1 :: cnt subs :: flat_map dump_ntpsub subs
  | OBootURL u => [tag 59 1; u]
  | OBootParam ps => tag 60 1 :: cnt ps :: ps
  | OArch archs => [tag 61 1; flat_map be16 archs]
  | ONII t ma mi => [tag 62 1; [n2b t; n2b ma; n2b mi]]
  | OClientLL hw a => [tag 79 1; be16 hw; a]
  | ODHCPv4 p => tag 87 1 :: dump_pkt4 p
  | O4o6 as_ => tag 88 1 :: cnt as_ :: as_
  | O4RD os => tag 97 1 :: dump_opts os
  | O4RDMap p4l p6l ea wkp p4 p6 => [tag 98 1; [n2b p4l; n2b p6l; n2b ea]; bool_b wkp; p4; p6]
  | O4RDNonMap hub tc pmtu =>
      [tag 99 1; bool_b hub; match tc with Some c => [n2b c] | None => [] end; be16 pmtu]
  | ORelayPort p => [tag 135 1; be16 p]
  | OGeneric c d => [tag c 0; d]
  end.

Definition dump_opts (os : list opt6) : list bytes := cnt os :: flat_map dump_opt os.

Definition dump_msg (m : msg6) : list bytes :=
  match m with
  | Msg t xid os => [[x01]; [n2b t]; xid] ++ dump_opts os
  | Relay t hop l p os => [[x02]; [n2b t]; [n2b hop]; l; p] ++ dump_opts os
  end.
