HOOK_COMMITS = ["33cf539 verif: scheduling hooks in nclient4/nclient6", "d8948ba verif: call the scheduling hooks in nclient6"]
COMMON_NOTE = ("Trusted base: Coq 8.16.1 kernel (vm_compute used, native_compute not used); no axioms (Print Assumptions: closed under the global context); "
               "extraction with ExtrOcamlBasic only + OCaml 4.13.1 + driver/main.ml; the Go harness and ./check. The Go code is modelled by hand, not verified: "
               "the theorems are about the Gallina model, which is tied to /repo's current tree on every run by the differential correspondence check "
               "(same inputs through the real code and the extracted model) on the inputs it explores. ")
TEXT = {
    "C19": {
        "text": "Theorems over all byte strings / all lists of valid names about an executable model of rfc1035label (termination and panic-freedom of decoding, "
                "decoder = declarative RFC 1035 3.1/4.1.4 + RFC 4704 relation (iff), encode->decode round trip for any number of names/labels, re-encoding of "
                "unmodified and modified sets). The model is compared with the real package on exhaustive small-alphabet strings, random valid name lists, mutations and edits; "
                "direct oracles (round trip, independent reference decoder, re-encode rules) run on the real code.",
        "note": COMMON_NOTE + "Names longer than 253 octets in dotted form are rejected by the decoder (RFC 1035 2.3.4, after the C09 fix), so the round trip is stated for names within that limit.",
        "technique": "Coq proof (induction over fuel/derivations) on a hand-written model + differential correspondence with the Go code",
    },
    "C01": {
        "text": "Theorem C01_roundtrip: for every packet of the encodable domain (option values of ANY length, any option set) enc4 succeeds and dec4 of the "
                "result has identical header fields and, under every code, the identical value; the >255 split is proved to concatenate back (chunks lemma). "
                "enc4/dec4 are compared byte-for-byte / field-for-field with ToBytes/FromBytes on boundary-length and random packets; the direct round-trip oracle runs on the real code.",
        "note": COMMON_NOTE,
        "technique": "Coq proof (round-trip theorem over all packets) on a hand-written model + differential correspondence with the Go code",
    },
    "C04": {
        "text": "Theorem C04_exact: dec4 b = Ok p <-> layout4 b p for all byte strings, where layout4 is RFC 2131 figure 1 + the RFC 2132/3396 option grammar as a relation; "
                "C04_total: every other input is an error (no panic, no non-termination). dec4 is compared with dhcpv4.FromBytes (verdict and every public field) on exhaustive "
                "small-alphabet option areas, all truncations, length/cookie corruptions and random packets; an independent Go reference decoder is the direct oracle.",
        "note": COMMON_NOTE,
        "technique": "Coq proof (decoder = declarative layout, iff) on a hand-written model + differential correspondence with the Go code",
    },
    "C07": {
        "text": "Theorems on enc4: length >= 300; header/cookie/instances in ascending code order with 82 last/one End/padding; instances <= 255 octets; the layout relation "
                "(independent RFC reader) recovers the packet; equal contents encode identically for every order of the association list and every program of updates/deletions "
                "(no bound of 6). The real encoder is compared with enc4 byte for byte and checked by an independent wire validator over all 720 insertion orders of 6-option sets.",
        "note": COMMON_NOTE,
        "technique": "Coq proof (sort uniqueness, permutation invariance) on a hand-written model + differential correspondence with the Go code",
    },
    "C02": {
        "text": "Theorem C02_roundtrip: for every message/relay chain of the domain wf_msg (all 32 option types of the ParseOption table + unknown codes, ANY nesting depth, any "
                "number of options) dec_msg (enc_msg m) = Ok (canon_msg m); proved by induction on fuel with one case per option type over shared combinator lemmas; fuel adequacy "
                "(depth <= encoded length) proved. The table of option codes is regenerated from the Go AST on every run and tied to the model's dispatch table by reflexivity lemmas. "
                "Real encoder/decoder compared with the model on generated messages; an independent RFC-layout encoder in the harness is the direct oracle for the wire layout.",
        "note": COMMON_NOTE + "tools/gen (Go AST extractor) is trusted for the table.",
        "technique": "Coq proof (nested round-trip induction over all option types) + generated dispatch table tie + differential correspondence",
    },
    "C05": {
        "text": "Theorems: decoding is total (error or value, never panic/fuel) for all byte strings; header completeness (4 / 34 octets); options tile the container exactly as TLV "
                "triples in wire order (iff, C05_tiling); trailing 1..3 octets and overrunning options are errors; unknown codes verbatim; fixed and minimum lengths per type; on every "
                "well-formed layout the decoder reads the laid-out values (round trip). The model decoder is compared (verdict + full value tree) with FromBytes/ParseOption/DUIDFromBytes "
                "on exhaustive framings, all truncations/extensions/length perturbations of every known type and mutated messages.",
        "note": COMMON_NOTE + "The 'accepted implies laid out' direction for DHCPv6 is proved at the framing level (C05_tiling) and per listed type; for the remaining types it rests on the correspondence.",
        "technique": "Coq proof (totality, framing iff, per-type length lemmas) + differential correspondence against the model as RFC reference decoder",
    },
    "C06": {
        "text": "Theorem C06_fixpoint_v4: for every accepted byte string, encode succeeds, decodes to norm4 of the value (pointwise equal options) and re-encodes to the same bytes; the "
                "decoder's image is proved inside the encoder's domain. Theorem C06_fixpoint_v6: for every accepted DHCPv6 byte string (all 32 option types, any nesting) whose decoded "
                "value re-encodes within the 16-bit length fields, the re-encoding decodes to the canonical form of the value and that form encodes to the same bytes; "
                "C06_fixpoint_v6_no_embedded_v4 discharges the side condition for every message in which no embedded DHCPv4 message gets padded to the 300-octet floor (in particular "
                "without any; re-encoding never grows: C06_reencoding_no_longer_v6, C06_reencoding_length_v4). Where the side condition fails the real code breaks the property: C06_v6_refuted_when_reencoding_overflows (an IA_NA with 260 "
                "embedded DHCPv4 messages of 241 octets, each padded to 300 on re-encoding) - recorded as known finding F12 and replayed on the real code on every run. "
                "The direct fixpoint oracle b->m1->b1->m2->b2 runs on the real API over non-canonical v4 areas and every out-of-range v6 numeric field.",
        "note": COMMON_NOTE + "Known finding F12 (known_findings.json): the check prints a KNOWN-FINDING line for that input and exits 0; any other fixpoint failure is a VIOLATION.",
        "technique": "Coq proof (v4 and v6 fixpoint for all accepted inputs, decoder image inside the encoder's domain, refutation witness for the overflow) + direct fixpoint oracle + differential correspondence",
    },
    "C17": {
        "text": "Per accessor kind, theorems for ALL raw values (any length): the accessor returns a value iff the raw value has the RFC layout for its type, and then exactly "
                "that reading (addresses, address lists, durations, 16/8-bit values, RFC 3004 user classes with the documented fallback, RFC 3442 routes, VIVC, relay-agent "
                "sub-options via the option grammar, search domains via C19); set/get lemmas for the constructors. All 29 accessor methods are compared with the model on "
                "every length 0..64 x 4+ fills.",
        "note": COMMON_NOTE,
        "technique": "Coq proof (iff characterisations of each value type) + differential correspondence of all accessor methods",
    },
    "C15": {
        "text": "Modifiers are a deep embedding (17 exported With* functions), builders are folds defaults ++ user. Theorems for EVERY source packet: reply (opposite opcode, same "
                "xid/hwtype/chaddr/flags/giaddr, options 82 and 61 echoed iff present non-empty), request-from-offer, renew, release, inform, discover field rules; user modifiers "
                "of ANY length are applied after the defaults and the last one prevails. All builders x random modifier lists are compared field-for-field with the real code.",
        "note": COMMON_NOTE,
        "technique": "Coq proof (fold over a deep embedding of modifiers) + differential correspondence of all New* builders",
    },
    "C16": {
        "text": "Theorems by induction on depth (any depth, arbitrary other options around the relay-message option): decapsulate(encapsulate m) = m, hop count +1 per level, innermost "
                "message of any nest found, DecapsulateRelayIndex, relay-reply = per-level reconstruction with the same link/peer, echoed interface-id/remote-id and the reply innermost, "
                "errors exactly on wrong outer type / missing inner message; advertise/request/reply builders' field and rejection rules. All functions are compared with the real code on "
                "generated chains of depth up to 16/64, also after the wire.",
        "note": COMMON_NOTE,
        "technique": "Coq proof (induction over relay nests) + differential correspondence of relay functions and builders",
    },
    "C18": {
        "text": "Theorems: frame layout (0x45, total/UDP lengths, TTL, protocol 17, addresses, ports, payload unchanged); the IPv4 header checksum and the UDP checksum verify under RFC 1071/768 "
                "for EVERY payload that fits an IP packet (ones-complement arithmetic with the 32-bit accumulator and two-step fold proved correct); a read iteration never panics and "
                "delivers a frame IF AND ONLY IF the received octets have the RFC 791/768 layout of a UDP datagram for the bound address (C18_read_exact, frame_spec), then exactly its "
                "payload and source; ReadFrom "
                "skips exactly the skipped frames of any sequence and preserves order; written frames are read back unchanged. The real connection is compared with the model and with an "
                "independent RFC validator/specification over all payload lengths 0..1500 and mixed frame sequences.",
        "note": COMMON_NOTE,
        "technique": "Coq proof (RFC 1071 arithmetic, frame layout, delivered-iff-well-formed, read/write inversion) + differential correspondence + independent validator",
    },
    "C03": {
        "text": "Panics and non-termination are explicit results of the model (Panic, Fuel); theorems show every decoding entry point returns Ok or Err for ALL byte strings, re-encoding "
                "decoded values cannot panic, and at every nesting level the decoded option has the constructor the ParseOption table assigns to its code (so the accessors' unchecked "
                "type assertions hold). The harness runs every entry point and every niladic exported method / builder / extractor on mutated inputs under recover and a watchdog, "
                "and compares verdict classes with the model.",
        "note": COMMON_NOTE + "fmt/regexp-based printing and the ztp/netboot extractors are exercised by the harness only (not modelled).",
        "technique": "Coq proof (totality with explicit Panic/Fuel, decoder-image lemma) + mutation-driven crash search with recover/watchdog + verdict correspondence",
    },
    "C08": {
        "text": "A provenance semantics of the Lexer primitives (copying vs view) with the theorem that a value built from copying primitives denotes the same thing under every later "
                "content of the source buffer; the list of places where a decoder stores its input without copying is extracted from the Go AST on every run and must equal the expected "
                "list (only the vendor sub-option parser, which is handed a private copy). The deciding runtime part is the overwrite harness on the real code (6 patterns x every option "
                "type x nesting positions, inputs and outputs).",
        "note": COMMON_NOTE + "Aliasing is a property of Go memory that a pure model cannot exhibit: the theorem covers the primitive-level contract and the AST-extracted storage sites; "
                "the runtime behaviour (including output buffers) rests on the harness. tools/gen's syntactic analysis is trusted.",
        "technique": "Coq proof over a provenance semantics + AST-extracted retention-site tie + overwrite/snapshot harness on the real code",
    },
    "C20": {
        "text": "Read-only operations are state transformers in the model; any sequence of them (any length) leaves the value unchanged and repeated calls return equal results; the pinned "
                "tree's defect (OptionCodeList.String sorting its receiver) is kept as a refutation theorem about the flagged old behaviour. The theorems are shallow (a pure model cannot "
                "mutate): the deciding part is the harness, which calls every niladic exported method found by reflection, singly and in sequences, on packets, messages, options at every "
                "nesting level and standalone option values, comparing encodings and accessor dumps after every call.",
        "note": COMMON_NOTE + "Mutation through a receiver is a runtime effect no pure model exhibits; the claim rests on the reflection harness, the theorems state its content.",
        "technique": "Coq statement over state transformers (shallow) + reflection-driven call-sequence harness on the real code",
    },
    "C09": {
        "text": "Theorems: (1) retained size, whole decoders: for EVERY accepted byte string the decoded DHCPv6 message (all 32 option types, any nesting) holds at most 256 octets per "
                "input octet (C09_v6_size; per option 260 + 256 |value|, C09_v6_option_size) and a decoded DHCPv4 packet at most its input length (C09_v4_size); (2) the "
                "domain-name decoder, where the unbounded expansion was: each name <= 253 octets, at most one name per input octet, and the total number of loop iterations including "
                "all pointer excursions <= 257 per input octet (cost semantics with explicit constants); (3) re-encoding a decoded DHCPv6 message without embedded DHCPv4 never exceeds the "
                "input length (C06_reencoding_no_longer_v6). The allocation bound of the property (decode+re-encode allocation <= 1500 n + depth n + 4096; size <= 300 n + 4096) is "
                "measured on the real code over adversarial families up to 65 507 octets and by hill climbing.",
        "note": COMMON_NOTE + "Partial: allocator behaviour (bytes allocated, as opposed to retained) cannot be proved in the model; it is measured with explicit constants.",
        "technique": "Coq proof (retained-size bounds of both decoders; size and step-count bounds of the name decoder) + allocation/deep-size measurement harness with adversarial families and hill climbing",
    },
    "C12": {
        "text": "Theorem C12_schedule: for EVERY delivery stream in which nothing is accepted (silence or any stream of rejected same-id datagrams) exactly n transmissions at T(2^k - 1) and the "
                "no-response error at T(2^n - 1), for all n, T; unbounded tries follow the schedule prefix-wise; an accepted response ends the call with no further transmission; for EVERY stream (accepted or rejected) and every cancel/close instant the transmissions are an initial segment of the schedule (C12_always_on_schedule), a response accepted after k transmissions arrived before try k's deadline (C12_accepted_within_its_try) and, on an open client, the no-response error comes only after all n of them (C12_no_response_after_all_tries); the pinned "
                "code's re-armed timer is kept as a refutation ([0; 4050], 4150 for T = 50, n = 2). Both real clients are run under virtual time on the grid and compared instant-for-instant.",
        "note": COMMON_NOTE + "testing/synctest's virtual clock is trusted.",
        "technique": "Coq proof (induction over tries and delivery streams) + virtual-time differential harness on both clients",
    },
    "C11": {
        "text": "Theorems on the timed-call model: return no later than T(2^n - 1) for EVERY delivery stream and cancel/close instant; return at the cancellation instant with the context's error, "
                "at the close instant with the no-response error, at the arrival of the first acceptable response; over all tries a returned response is the first accepted datagram of the call's stream, everything before it rejected (C11_response_is_first_acceptable); after a call's cancel its id is not pending (from the routing invariant, for "
                "all interleavings); refutation for the pinned timer. Real clients: synctest scenarios with exact instants; bubble exit shows no goroutine is left.",
        "note": COMMON_NOTE + "Goroutine-leak freedom beyond the explored schedules is a statement about the model's steps, not a runtime guarantee.",
        "technique": "Coq proof (timed-call model + routing invariant) + virtual-time harness with cancellation/Close at arbitrary instants",
    },
    "C10": {
        "text": "A small-step machine of send/cancel/receiveLoop with an invariant proved for ALL event sequences (any number of callers and datagrams): received datagrams carry the call's id and "
                "were routed while it waited, arrival order is preserved, filtered/unsolicited datagrams change nothing, a pending id is refused, a channel is closed only for a cancelling call "
                "(the F8 invariant; refuted for the pinned cancel by vm_compute on the 5-event schedule). The macro driver compared with both real clients is proved to be a refinement of the "
                "micro machine; the F8 schedule is forced on the real code through build-tag hooks. C10_no_solicited_loss: in the hand-over machine with the 5-slot channel and the blocking "
                "send made explicit, after ANY event sequence the datagrams read for a waiting call are exactly those received, then queued, then held by the blocked loop (nothing dropped, "
                "duplicated or reordered); the held-matcher scenarios (all n <= 7, every first-acceptable position) are run on both clients and compared with that machine; "
                "simultaneous callers reusing one id are stress-run (exactly one admitted).",
        "note": COMMON_NOTE + "Data races are not expressible in an atomic-step model (harness under -race in the thorough tier only). verif hooks are trusted to be no-ops without the tag.",
        "technique": "Coq proof (inductive invariant over all interleavings, refinement macro->micro) + synctest macro-step harness + hook-forced micro schedule",
    },
    "C14": {
        "text": "The serving loops as functions of ANY sequence of read results; theorems: invocations = in order, exactly one per datagram before the first read error that decodes (with its "
                "decoding and the rewritten peer), none for undecodable ones, and as a count (C14_exactly_once_v4/v6); the loop ends exactly at the first read error; a malformed datagram never stops it. Both real servers run behind a "
                "scripted connection under synctest with handlers that outlive later reads.",
        "note": COMMON_NOTE + "Handler parallelism and data races are outside the model.",
        "technique": "Coq proof (loop = filter-map over the read sequence, for all sequences) + synctest differential harness of both servers",
    },
    "C13": {
        "text": "The exchanges as functions of ANY per-phase datagram lists; theorems: REQUEST = hardware address, offered address as requested address, offering server's identifier, offer's id; "
                "completion only by the first ACK/NAK that reached the call and bears the selected server's identifier (everything before it ignored); ACK -> lease of that offer and ACK, NAK -> "
                "NAK error; renew/release field rules; DHCPv6 rapid-commit REPLY accepted directly, REQUEST carries advertised client id / server id / IA_NA. The composed model is compared "
                "with both real clients against scripted servers (several servers, wrong-type/id/server/hardware-address, undecodable, duplicated replies).",
        "note": COMMON_NOTE + "Which datagrams reach a call (first acceptable in arrival order) is C10/C11's model; timing is not part of this property.",
        "technique": "Coq proof (selection over arbitrary reply lists, composed with the builder theorems) + synctest harness with scripted servers",
    },
}
