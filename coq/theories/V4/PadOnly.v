(** C04, option areas made of pad octets only (a legacy BOOTP message with the cookie and an
    all-zero vendor field): without an End option they are no DHCP option area, whatever their
    length - the packet is rejected; only the empty area (a packet that ends with the cookie) is
    accepted without End. *)
From Coq Require Import List Arith Lia Bool NArith.
Import ListNotations.
From DV Require Import Base.Bytes V4.Model V4.Proofs.

Lemma opts_loop_pads n : forall f acc, n < f -> opts_loop f (zeros n) acc = Ok (acc, false).
Proof.
  induction n as [|n IH]; intros f acc Hf; (destruct f as [|f]; [lia|]).
  - reflexivity.
  - cbn [zeros repeat opts_loop]. change (beqb x00 opt_pad) with true. cbn iota.
    apply (IH f acc). lia.
Qed.

Lemma opts_from_pads n acc : 0 < n -> opts_from_bytes (zeros n) true acc = Err.
Proof.
  intros Hn. destruct n as [|n]; [lia|]. unfold opts_from_bytes.
  change (zeros (S n)) with (x00 :: zeros n) at 1.
  cbv iota. rewrite opts_loop_pads by (unfold zeros; rewrite repeat_length; lia). reflexivity.
Qed.

Theorem pad_only_area_rejected op hw hl hops xid secs flags ci yi si gi ch sn fl n :
  length xid = 4 -> length secs = 2 -> length flags = 2 ->
  length ci = 4 -> length yi = 4 -> length si = 4 -> length gi = 4 ->
  length ch = 16 -> length sn = 64 -> length fl = 128 -> 0 < n ->
  dec4 ([op; hw; hl; hops] ++ xid ++ secs ++ flags ++ ci ++ yi ++ si ++ gi ++ ch ++ sn ++ fl ++ cookie ++ zeros n) = Err.
Proof.
  intros. rewrite dec4_pieces by assumption. rewrite opts_from_pads by assumption. reflexivity.
Qed.

(** non-vacuity: a 300-octet BOOTP-style message with the cookie and an all-zero vendor field *)
Example pad_only_300 : dec4 (zeros 236 ++ cookie ++ zeros 60) = Err /\ length (zeros 236 ++ cookie ++ zeros 60) = 300.
Proof. split; vm_compute; reflexivity. Qed.
