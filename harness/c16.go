package main

import (
	"bytes"
	"fmt"
	"net"

	"github.com/insomniacslk/dhcp/dhcpv6"
)

const (
	eV6Encap = 50 + iota
	eV6Decap
	eV6Inner
	eV6DecapIndex
	eV6RelayRepl
	eV6Advertise
	eV6Request
	eV6Reply
)

func decode6(b []byte) (dhcpv6.DHCPv6, error) { return dhcpv6.FromBytes(b) }

func init() {
	register(eV6Encap, "dhcpv6.EncapsulateRelay", func(a [][]byte) ([][]byte, error) {
		m, err := decode6(a[0])
		if err != nil {
			return nil, err
		}
		r, err := dhcpv6.EncapsulateRelay(m, dhcpv6.MessageType(numArg(a[1])), net.IP(a[2]), net.IP(a[3]))
		if err != nil {
			return nil, err
		}
		return dumpMsg(r), nil
	})
	register(eV6Decap, "dhcpv6.DecapsulateRelay", func(a [][]byte) ([][]byte, error) {
		m, err := decode6(a[0])
		if err != nil {
			return nil, err
		}
		r, err := dhcpv6.DecapsulateRelay(m)
		if err != nil {
			return nil, err
		}
		return dumpMsg(r), nil
	})
	register(eV6Inner, "DHCPv6.GetInnerMessage", func(a [][]byte) ([][]byte, error) {
		m, err := decode6(a[0])
		if err != nil {
			return nil, err
		}
		r, err := m.GetInnerMessage()
		if err != nil {
			return nil, err
		}
		return dumpMsg(r), nil
	})
	register(eV6DecapIndex, "dhcpv6.DecapsulateRelayIndex", func(a [][]byte) ([][]byte, error) {
		m, err := decode6(a[0])
		if err != nil {
			return nil, err
		}
		r, err := dhcpv6.DecapsulateRelayIndex(m, int(numArg(a[1]))-10)
		if err != nil {
			return nil, err
		}
		return dumpMsg(r), nil
	})
	register(eV6RelayRepl, "dhcpv6.NewRelayReplFromRelayForw", func(a [][]byte) ([][]byte, error) {
		m, err := decode6(a[0])
		if err != nil {
			return nil, err
		}
		rp, err := decode6(a[1])
		if err != nil {
			return nil, err
		}
		relay, ok := m.(*dhcpv6.RelayMessage)
		if !ok {
			return nil, fmt.Errorf("not a relay")
		}
		msg, ok := rp.(*dhcpv6.Message)
		if !ok {
			return nil, fmt.Errorf("reply is not a message")
		}
		r, err := dhcpv6.NewRelayReplFromRelayForw(relay, msg)
		if err != nil {
			return nil, err
		}
		return dumpMsg(r), nil
	})
	builder := func(f func(*dhcpv6.Message) (*dhcpv6.Message, error), zeroXid bool) EntryFn {
		return func(a [][]byte) ([][]byte, error) {
			m, err := decode6(a[0])
			if err != nil {
				return nil, err
			}
			msg, ok := m.(*dhcpv6.Message)
			if !ok {
				return nil, fmt.Errorf("not a message")
			}
			r, err := f(msg)
			if err != nil {
				return nil, err
			}
			if zeroXid {
				r.TransactionID = dhcpv6.TransactionID{}
			}
			return dumpMsg(r), nil
		}
	}
	register(eV6Advertise, "dhcpv6.NewAdvertiseFromSolicit", builder(func(m *dhcpv6.Message) (*dhcpv6.Message, error) { return dhcpv6.NewAdvertiseFromSolicit(m) }, false))
	register(eV6Request, "dhcpv6.NewRequestFromAdvertise", builder(func(m *dhcpv6.Message) (*dhcpv6.Message, error) { return dhcpv6.NewRequestFromAdvertise(m) }, true))
	register(eV6Reply, "dhcpv6.NewReplyFromMessage", builder(func(m *dhcpv6.Message) (*dhcpv6.Message, error) { return dhcpv6.NewReplyFromMessage(m) }, false))
	props["C16"] = genC16
}

// inner message of a given type with chosen subsets of the options the builders look at
func (r *Run) genInner(t byte) (*dhcpv6.Message, []byte) {
	xid := r.Bytes(3)
	m := &dhcpv6.Message{MessageType: dhcpv6.MessageType(t)}
	copy(m.TransactionID[:], xid)
	var ow []byte
	add := func(n gnode) {
		m.Options.Options = append(m.Options.Options, n.opt)
		ow = append(ow, tlvb(n.code, n.wire)...)
	}
	for _, c := range []uint16{1, 2, 3, 25, 14, 16, 8} {
		if r.Rng.Intn(6) != 0 {
			add(r.genOptCode(c, 1))
			if c == 1 && r.Rng.Intn(6) == 0 {
				add(r.genOptCode(c, 1)) // duplicate: the first one counts
			}
		}
	}
	if r.Rng.Intn(3) == 0 {
		add(r.genOpt(1))
	}
	return m, append(append([]byte{t}, xid...), ow...)
}

type chainLevel struct {
	link, peer []byte
	iid, rid   []byte // nil = absent
	t          byte
	hop        byte
}

func (r *Run) genForwChain(depth int, m dhcpv6.DHCPv6, w []byte) (dhcpv6.DHCPv6, []byte, []chainLevel) {
	var lvs []chainLevel
	// the hop count is a header octet each relay sets; usually the number of relays below it, but relays that do not
	// count (all zero), count from one, or carry anything at all are on real networks, and nothing may depend on it
	hopMode := r.Pick(0, 0, 0, 1, 2, 3)
	mixedTypes := r.Rng.Intn(4) == 0
	// one option VALUE put on every level (a port label, an operator's remote id): each level still has its own
	var sharedIID, sharedRID dhcpv6.Option
	var sharedIIDb, sharedRIDb []byte
	if r.Rng.Intn(5) == 0 {
		sharedIIDb = r.Bytes(1 + r.Rng.Intn(6))
		sharedIID = dhcpv6.OptInterfaceID(sharedIIDb)
		sharedRIDb = r.Bytes(4 + r.Rng.Intn(6))
		sharedRID = &dhcpv6.OptRemoteID{EnterpriseNumber: uint32(sharedRIDb[0])<<24 | uint32(sharedRIDb[1])<<16 | uint32(sharedRIDb[2])<<8 | uint32(sharedRIDb[3]), RemoteID: sharedRIDb[4:]}
	}
	for i := 0; i < depth; i++ {
		lv := chainLevel{link: r.Addr16(), peer: r.Addr16(), t: 12, hop: byte(i)}
		switch hopMode {
		case 1:
			lv.hop = 0
		case 2:
			lv.hop = byte(i + 1)
		case 3:
			lv.hop = byte(r.n8())
		}
		// a level below the top may be typed Relay-reply (chains assembled by hand, or captured on the way back): the
		// decoder, the decapsulation helpers and the reply builder walk such chains like any other
		if i < depth-1 && mixedTypes && r.Rng.Intn(3) == 0 {
			lv.t = 13
		}
		rm := &dhcpv6.RelayMessage{MessageType: dhcpv6.MessageType(lv.t), HopCount: lv.hop, LinkAddr: net.IP(lv.link), PeerAddr: net.IP(lv.peer)}
		var ow []byte
		order := r.Rng.Intn(2)
		addIID := func() {
			if sharedIID != nil {
				lv.iid = sharedIIDb
				rm.Options.Options = append(rm.Options.Options, sharedIID)
				ow = append(ow, tlvb(18, lv.iid)...)
				return
			}
			if r.Rng.Intn(2) == 0 {
				lv.iid = r.Bytes(1 + r.Rng.Intn(6))
				rm.Options.Options = append(rm.Options.Options, dhcpv6.OptInterfaceID(lv.iid))
				ow = append(ow, tlvb(18, lv.iid)...)
				if r.Rng.Intn(5) == 0 { // a second one behind it (two agents on one level): the first is the level's
					other := r.Bytes(1 + r.Rng.Intn(6))
					rm.Options.Options = append(rm.Options.Options, dhcpv6.OptInterfaceID(other))
					ow = append(ow, tlvb(18, other)...)
				}
			}
		}
		addRID := func() {
			if sharedRID != nil {
				lv.rid = sharedRIDb
				rm.Options.Options = append(rm.Options.Options, sharedRID)
				ow = append(ow, tlvb(37, lv.rid)...)
				return
			}
			if r.Rng.Intn(2) == 0 {
				lv.rid = r.Bytes(4 + r.Rng.Intn(6))
				rm.Options.Options = append(rm.Options.Options, &dhcpv6.OptRemoteID{EnterpriseNumber: uint32(lv.rid[0])<<24 | uint32(lv.rid[1])<<16 | uint32(lv.rid[2])<<8 | uint32(lv.rid[3]), RemoteID: lv.rid[4:]})
				ow = append(ow, tlvb(37, lv.rid)...)
				if r.Rng.Intn(5) == 0 { // remote ids are scoped by enterprise number: an access node and a BNG may each add one
					other := r.Bytes(4 + r.Rng.Intn(6))
					rm.Options.Options = append(rm.Options.Options, &dhcpv6.OptRemoteID{EnterpriseNumber: uint32(other[0])<<24 | uint32(other[1])<<16 | uint32(other[2])<<8 | uint32(other[3]), RemoteID: other[4:]})
					ow = append(ow, tlvb(37, other)...)
				}
			}
		}
		if order == 0 {
			addIID()
		}
		rm.Options.Options = append(rm.Options.Options, dhcpv6.OptRelayMessage(m))
		ow = append(ow, tlvb(9, w)...)
		if order == 1 {
			addIID()
		}
		addRID()
		m, w = rm, append(append(append([]byte{lv.t, lv.hop}, lv.link...), lv.peer...), ow...)
		lvs = append([]chainLevel{lv}, lvs...) // outermost first
	}
	return m, w, lvs
}

func genC16(r *Run) {
	n := r.N(1200, 60000)
	maxDepth := r.N(16, 64)
	evals := 0
	for i := 0; i < n; i++ {
		t := byte(r.Pick(1, 1, 2, 2, 2, 3, 5, 7, 1+r.Rng.Intn(11)))
		inner, iw := r.genInner(t)
		depth := 1 + r.Rng.Intn(maxDepth)
		if i%3 == 0 {
			depth = r.Pick(1, 2, 3)
		}
		chain, cw, lvs := r.genForwChain(depth, inner, iw)
		if len(cw) > 60000 {
			continue
		}
		r.Count(fmt.Sprintf("depth<%d", (depth/4+1)*4))
		// tie
		r.Add(eV6Inner, cw)
		r.Add(eV6Decap, cw)
		r.Add(eV6DecapIndex, cw, []byte{byte(10 + r.Pick(-2, -1, 0, 1, depth-1, depth, depth+1))})
		r.Add(eV6Encap, cw, []byte{byte(r.Pick(12, 13, 1, 7))}, r.AddrAny(), r.AddrAny())
		r.Add(eV6Encap, iw, []byte{12}, r.AddrAny(), r.AddrAny())
		reply, rw := r.genInner(7)
		r.Add(eV6RelayRepl, cw, rw)
		r.Add(eV6Advertise, iw)
		r.Add(eV6Request, iw)
		r.Add(eV6Reply, iw)
		// direct oracles on the real code
		evals++
		cs := Case{eV6Inner, [][]byte{cw}}.Line()
		// (1) encapsulate / decapsulate identity and hop count
		enc, err := dhcpv6.EncapsulateRelay(chain, dhcpv6.MessageTypeRelayForward, net.IP(r.Addr16()), net.IP(r.Addr16()))
		if err != nil {
			r.Fail("encapsulate-error", trunc(cs, 2000), err.Error())
		} else {
			if enc.HopCount != chain.(*dhcpv6.RelayMessage).HopCount+1 {
				r.Fail("hop-count", trunc(cs, 2000), "")
			}
			if d, err := dhcpv6.DecapsulateRelay(enc); err != nil || dumpLine(dumpMsg(d)) != dumpLine(dumpMsg(chain)) {
				r.Fail("decap-encap", trunc(cs, 2000), "")
			}
		}
		// (1a) a chain that is cut short below the top: some relay level carries no relayed message.  There is no inner
		// message to answer, so there is no relay-reply: the builder and the inner-message accessor report it, at every
		// depth and wherever the cut is
		if i%4 == 0 {
			bare := append(append(append([]byte{12, 0}, r.Addr16()...), r.Addr16()...), tlvb(18, r.Bytes(3))...)
			tw := bare
			for d := 1 + r.Rng.Intn(4); d > 0; d-- {
				tw = append(append(append([]byte{12, byte(d)}, r.Addr16()...), r.Addr16()...), tlvb(9, tw)...)
				if r.Rng.Intn(2) == 0 {
					tw = append(tw, tlvb(37, append(w32(9), 'r'))...)
				}
			}
			r.Add(eV6RelayRepl, tw, rw)
			r.Add(eV6Inner, tw)
			if tm, err := dhcpv6.FromBytes(append([]byte{}, tw...)); err == nil {
				if rel, ok := tm.(*dhcpv6.RelayMessage); ok {
					if rr, err := dhcpv6.NewRelayReplFromRelayForw(rel, reply); err == nil {
						r.Fail("relay-reply-for-truncated-chain", trunc(hx(tw), 1500), fmt.Sprintf("a relay-reply (%d octets) was built for a chain whose innermost relay carries no message", len(rr.ToBytes())))
					}
					if _, err := rel.GetInnerMessage(); err == nil {
						r.Fail("inner-message-of-truncated-chain", trunc(hx(tw), 1500), "GetInnerMessage succeeded on a chain whose innermost relay carries no message")
					}
				}
			}
		}
		// (1b) the caller's link / peer address in whatever form a net.IP takes (16 octets, 4 octets, nil, other):
		// on the wire it is the address's 16-octet form (the unspecified address if it has none)
		{
			la, pa := r.AddrAny(), r.AddrAny()
			if e2, err := dhcpv6.EncapsulateRelay(inner, dhcpv6.MessageTypeRelayForward, net.IP(la), net.IP(pa)); err == nil {
				if back, err := dhcpv6.FromBytes(e2.ToBytes()); err != nil {
					r.Fail("encapsulated-not-decodable", fmt.Sprintf("link %x peer %x", la, pa), err.Error())
				} else if rb, ok := back.(*dhcpv6.RelayMessage); ok {
					want := func(a []byte) net.IP {
						if v := net.IP(a).To16(); v != nil {
							return v
						}
						return net.IPv6unspecified
					}
					if !rb.LinkAddr.Equal(want(la)) || !rb.PeerAddr.Equal(want(pa)) {
						r.Fail("relay-address-on-the-wire", fmt.Sprintf("EncapsulateRelay(link %x, peer %x)", la, pa),
							fmt.Sprintf("after the wire: link %s peer %s, want %s / %s", rb.LinkAddr, rb.PeerAddr, want(la), want(pa)))
					}
				}
			}
		}
		// (2) inner message at any depth, also after the wire
		for _, c := range []dhcpv6.DHCPv6{chain, mustDecode(cw)} {
			if c == nil {
				r.Fail("chain-not-decodable", trunc(cs, 2000), "")
				continue
			}
			im, err := c.GetInnerMessage()
			if err != nil || dumpLine(dumpMsg(im)) != dumpLine(dumpMsg(inner)) {
				r.Fail("inner-message", trunc(cs, 2000), fmt.Sprintf("depth %d err=%v", depth, err))
			}
		}
		// (3) relay-reply: same depth, level-wise link/peer, iid/rid echoed, reply innermost
		rr, err := dhcpv6.NewRelayReplFromRelayForw(chain.(*dhcpv6.RelayMessage), reply)
		if err != nil {
			r.Fail("relay-repl-error", trunc(cs, 2000), err.Error())
			continue
		}
		cur := rr
		for li, lv := range lvs {
			rm, ok := cur.(*dhcpv6.RelayMessage)
			if !ok {
				r.Fail("relay-repl-depth", trunc(cs, 2000), fmt.Sprintf("level %d is not a relay message", li))
				break
			}
			if rm.MessageType != dhcpv6.MessageTypeRelayReply || !bytes.Equal(rm.LinkAddr, lv.link) || !bytes.Equal(rm.PeerAddr, lv.peer) {
				r.Fail("relay-repl-addresses", trunc(cs, 2000), fmt.Sprintf("level %d", li))
			}
			if int(rm.HopCount) != len(lvs)-1-li { // rebuilt with EncapsulateRelay: the level's index, whatever the forward chain carried
				r.Fail("relay-repl-hop", trunc(cs, 2000), fmt.Sprintf("level %d hop %d", li, rm.HopCount))
			}
			if got := rm.Options.InterfaceID(); !bytes.Equal(got, lv.iid) {
				r.Fail("relay-repl-interface-id", trunc(cs, 2000), fmt.Sprintf("level %d: %x vs %x", li, got, lv.iid))
			}
			rid := rm.Options.RemoteID()
			if (rid == nil) != (lv.rid == nil) || (rid != nil && !bytes.Equal(rid.ToBytes(), lv.rid)) {
				r.Fail("relay-repl-remote-id", trunc(cs, 2000), fmt.Sprintf("level %d", li))
			}
			cur, err = dhcpv6.DecapsulateRelay(cur)
			if err != nil {
				r.Fail("relay-repl-decap", trunc(cs, 2000), err.Error())
				break
			}
		}
		if m, ok := cur.(*dhcpv6.Message); !ok || dumpLine(dumpMsg(m)) != dumpLine(dumpMsg(reply)) {
			r.Fail("relay-repl-innermost", trunc(cs, 2000), "the given reply is not innermost / depth differs")
		}
		// the rebuilt chain survives the wire
		if back := mustDecode(rr.ToBytes()); back == nil || dumpLine(dumpMsg(back)) != dumpLine(dumpMsg(rr)) {
			r.Fail("relay-repl-wire", trunc(cs, 2000), "")
		} else {
			r.Add(eV6Inner, rr.ToBytes())
		}
		// (3b) the chain is a live value: after it has been encoded (or decoded), a change of the innermost message
		// through the pointer the API hands out shows in the next encoding
		for _, c := range []dhcpv6.DHCPv6{chain, mustDecode(cw)} {
			if c == nil {
				continue
			}
			_ = c.ToBytes()
			im, err := c.GetInnerMessage()
			if err != nil {
				continue
			}
			old := im.TransactionID
			im.TransactionID = dhcpv6.TransactionID{old[0] ^ 0xff, old[1] ^ 0x0f, old[2] ^ 0xf0}
			im.AddOption(&dhcpv6.OptionGeneric{OptionCode: 4002, OptionData: []byte{1, 2, 3}})
			want := dumpLine(dumpMsg(im))
			back := mustDecode(c.ToBytes())
			var got string
			if back != nil {
				if bi, err := back.GetInnerMessage(); err == nil {
					got = dumpLine(dumpMsg(bi))
				}
			}
			if got != want {
				r.Fail("inner-message-edit-not-encoded", trunc(cs, 2000), "after an earlier encoding, an edit of the innermost message is missing from the next encoding: "+firstDiff(want, got))
			}
			im.TransactionID = old
			im.Options.Del(dhcpv6.OptionCode(4002))
		}
		// (4) builders keep the transaction id / echo identifiers
		oracleBuilders(r, inner, iw)
	}
	// builders on the full grid: every message type x presence of client id / server id / IA_NA / rapid commit,
	// built in memory and after a trip over the wire
	for mt := 0; mt <= 14; mt++ {
		for mask := 0; mask < 16; mask++ {
			m := &dhcpv6.Message{MessageType: dhcpv6.MessageType(mt), TransactionID: dhcpv6.TransactionID{byte(mt), byte(mask), 7}}
			if mask&1 != 0 {
				m.AddOption(dhcpv6.OptClientID(&dhcpv6.DUIDLL{HWType: 1, LinkLayerAddr: net.HardwareAddr{2, 0, 0, 0, 0, byte(mt)}}))
			}
			if mask&2 != 0 {
				m.AddOption(dhcpv6.OptServerID(&dhcpv6.DUIDLL{HWType: 1, LinkLayerAddr: net.HardwareAddr{2, 9, 9, 9, 9, byte(mask)}}))
			}
			if mask&4 != 0 {
				m.AddOption(&dhcpv6.OptIANA{IaId: [4]byte{1, 2, 3, byte(mt)}})
			}
			if mask&8 != 0 {
				m.AddOption(&dhcpv6.OptionGeneric{OptionCode: dhcpv6.OptionRapidCommit})
			}
			w := m.ToBytes()
			r.Add(eV6Advertise, w)
			r.Add(eV6Request, w)
			r.Add(eV6Reply, w)
			oracleBuilders(r, m, w)
			if d, err := dhcpv6.MessageFromBytes(w); err == nil {
				oracleBuilders(r, d, w)
			}
			evals += 2
		}
	}
	r.Extra["oracle_evaluations"] = evals
}

func mustDecode(b []byte) dhcpv6.DHCPv6 {
	m, err := dhcpv6.FromBytes(b)
	if err != nil {
		return nil
	}
	return m
}

func oracleBuilders(r *Run, m *dhcpv6.Message, w []byte) {
	cs := Case{eV6Advertise, [][]byte{w}}.Line()
	same := func(a, b dhcpv6.Option) bool {
		return a != nil && b != nil && bytes.Equal(a.ToBytes(), b.ToBytes())
	}
	cid := m.GetOneOption(dhcpv6.OptionClientID)
	if adv, err := dhcpv6.NewAdvertiseFromSolicit(m); err == nil {
		if m.MessageType != dhcpv6.MessageTypeSolicit || cid == nil {
			r.Fail("advertise-accepts-wrong-input", trunc(cs, 2000), "")
		}
		if adv.TransactionID != m.TransactionID || adv.MessageType != dhcpv6.MessageTypeAdvertise || !same(adv.GetOneOption(dhcpv6.OptionClientID), cid) {
			r.Fail("advertise-fields", trunc(cs, 2000), "")
		}
	} else if m.MessageType == dhcpv6.MessageTypeSolicit && cid != nil {
		r.Fail("advertise-rejects-valid", trunc(cs, 2000), err.Error())
	}
	// the same message with its client identifier held in raw form (a hand-built generic option, or one kept raw by a
	// custom parser) gives the same advertise and reply: the builders echo the option, whatever its Go type
	if cid != nil {
		m2 := *m
		m2.Options = dhcpv6.MessageOptions{Options: append(dhcpv6.Options{}, m.Options.Options...)}
		for i, o := range m2.Options.Options {
			if o.Code() == dhcpv6.OptionClientID {
				m2.Options.Options[i] = &dhcpv6.OptionGeneric{OptionCode: dhcpv6.OptionClientID, OptionData: o.ToBytes()}
				break
			}
		}
		enc := func(f func(*dhcpv6.Message) (*dhcpv6.Message, error), x *dhcpv6.Message) (out string) {
			defer func() {
				if e := recover(); e != nil {
					out = fmt.Sprint("panic: ", e)
				}
			}()
			y, err := f(x)
			if err != nil {
				return "error"
			}
			return hx(y.ToBytes())
		}
		adv := func(x *dhcpv6.Message) (*dhcpv6.Message, error) { return dhcpv6.NewAdvertiseFromSolicit(x) }
		rep := func(x *dhcpv6.Message) (*dhcpv6.Message, error) { return dhcpv6.NewReplyFromMessage(x) }
		if a, b := enc(adv, m), enc(adv, &m2); a != b {
			r.Fail("advertise-with-raw-client-id", trunc(cs, 2000), "typed client id gives "+trunc(a, 200)+", the same id as a generic option gives "+trunc(b, 200))
		}
		if a, b := enc(rep, m), enc(rep, &m2); a != b {
			r.Fail("reply-with-raw-client-id", trunc(cs, 2000), "typed client id gives "+trunc(a, 200)+", the same id as a generic option gives "+trunc(b, 200))
		}
	}
	sid := m.GetOneOption(dhcpv6.OptionServerID)
	iana := m.GetOneOption(dhcpv6.OptionIANA)
	if req, err := dhcpv6.NewRequestFromAdvertise(m); err == nil {
		if m.MessageType != dhcpv6.MessageTypeAdvertise || cid == nil || sid == nil || iana == nil {
			r.Fail("request-accepts-wrong-input", trunc(cs, 2000), "")
		}
		if req.MessageType != dhcpv6.MessageTypeRequest || !same(req.GetOneOption(dhcpv6.OptionClientID), cid) ||
			!same(req.GetOneOption(dhcpv6.OptionServerID), sid) || !same(req.GetOneOption(dhcpv6.OptionIANA), iana) {
			r.Fail("request-fields", trunc(cs, 2000), "")
		}
		if pd := m.GetOneOption(dhcpv6.OptionIAPD); pd != nil && !same(req.GetOneOption(dhcpv6.OptionIAPD), pd) {
			r.Fail("request-iapd", trunc(cs, 2000), "")
		}
	} else if m.MessageType == dhcpv6.MessageTypeAdvertise && cid != nil && sid != nil && iana != nil {
		r.Fail("request-rejects-valid", trunc(cs, 2000), err.Error())
	}
	if rep, err := dhcpv6.NewReplyFromMessage(m); err == nil {
		if rep.TransactionID != m.TransactionID || rep.MessageType != dhcpv6.MessageTypeReply || !same(rep.GetOneOption(dhcpv6.OptionClientID), cid) {
			r.Fail("reply-fields", trunc(cs, 2000), "")
		}
		if m.MessageType == dhcpv6.MessageTypeSolicit && rep.GetOneOption(dhcpv6.OptionRapidCommit) == nil {
			r.Fail("reply-rapid-commit", trunc(cs, 2000), "")
		}
	}
}
