(** Declarative reading of RFC 1035 sections 3.1 / 4.1.4 (+ RFC 4704 partial
    names) and soundness of the decoder with respect to it: whenever the
    decoder returns names, they are the names this relation assigns. *)
From DV Require Import Base.Bytes Label.Model Label.Total.

(** [run b pos chunks stop]: starting at [pos] the buffer holds the plain
    labels [chunks] (each a length octet 1..191 that is not a pointer,
    followed by that many octets), ending at offset [stop]. *)
Inductive run (b : bytes) : nat -> list bytes -> nat -> Prop :=
| run_nil pos : run b pos [] pos
| run_cons pos c chunks stop :
    nth_error b pos = Some c -> bnat c <> 0 -> is_ptr c = false ->
    pos + 1 + bnat c <= length b ->
    run b (pos + 1 + bnat c) chunks stop ->
    run b pos (slice b (pos + 1) (bnat c) :: chunks) stop.

(** the dotted text of a name: labels separated by "." *)
Definition dotted (pre : bytes) (chunks : list bytes) : bytes := fold_left join chunks pre.

(** [names_from b lbl pos ns]: reading names from [pos], with [lbl] the part
    of the current name already read, yields [ns]. *)
Inductive names_from (b : bytes) : bytes -> nat -> list bytes -> Prop :=
| nf_end lbl pos chunks stop :          (* RFC 4704 4.2: partial name at the end *)
    run b pos chunks stop -> length b <= stop ->
    length (dotted lbl chunks) <= max_name_len ->
    names_from b lbl pos (fin [] (dotted lbl chunks))
| nf_zero lbl pos chunks stop c ns :    (* RFC 1035 3.1: labels ended by the zero octet *)
    run b pos chunks stop -> nth_error b stop = Some c -> bnat c = 0 ->
    length (dotted lbl chunks) <= max_name_len ->
    names_from b [] (stop + 1) ns ->
    names_from b lbl pos (dotted lbl chunks :: ns)
| nf_ptr lbl pos chunks stop c c2 chunks2 stop2 z ns :   (* RFC 1035 4.1.4: labels ended by a pointer *)
    run b pos chunks stop -> nth_error b stop = Some c -> is_ptr c = true ->
    nth_error b (stop + 1) = Some c2 ->
    run b ((bnat c - 192) * 256 + bnat c2) chunks2 stop2 ->
    nth_error b stop2 = Some z -> bnat z = 0 ->
    length (dotted lbl (chunks ++ chunks2)) <= max_name_len ->
    names_from b [] (stop + 2) ns ->
    names_from b lbl pos (dotted lbl (chunks ++ chunks2) :: ns)
| nf_ptr_end lbl pos chunks stop c c2 chunks2 stop2 :
    (* leniency where the RFC is silent: the pointed-to suffix runs to (or
       starts beyond) the end of the buffer; decoding ends there *)
    run b pos chunks stop -> nth_error b stop = Some c -> is_ptr c = true ->
    nth_error b (stop + 1) = Some c2 ->
    run b ((bnat c - 192) * 256 + bnat c2) chunks2 stop2 -> length b <= stop2 ->
    length (dotted lbl (chunks ++ chunks2)) <= max_name_len ->
    names_from b lbl pos (fin [] (dotted lbl (chunks ++ chunks2))).

Lemma fin_acc acc l : fin acc l = acc ++ fin [] l.
Proof. destruct l; cbn; [rewrite app_nil_r|]; reflexivity. Qed.

Lemma dotted_app lbl c1 c2 : dotted lbl (c1 ++ c2) = dotted (dotted lbl c1) c2.
Proof. unfold dotted. apply fold_left_app. Qed.

Lemma sub_ok b pos n : pos + n <= length b -> sub b pos n = Ok (slice b pos n).
Proof. intros H. unfold sub. apply Nat.leb_le in H. rewrite H. reflexivity. Qed.

Lemma join_length_ge lbl c : length lbl <= length (join lbl c).
Proof. destruct lbl; cbn; [lia|]. rewrite app_length. cbn. lia. Qed.

Lemma dotted_length_ge cs : forall pre, length pre <= length (dotted pre cs).
Proof.
  induction cs as [|c cs IH]; intros pre; cbn; [lia|].
  etransitivity; [apply (join_length_ge pre c) | apply IH].
Qed.

Lemma exc_sound : forall fuel b pos lbl, length lbl <= max_name_len ->
  match exc fuel b pos lbl with
  | ExcBack l => exists chunks stop z, run b pos chunks stop /\ nth_error b stop = Some z /\ bnat z = 0 /\
                                      l = dotted lbl chunks /\ length l <= max_name_len
  | ExcEnd l => exists chunks stop, run b pos chunks stop /\ length b <= stop /\
                                    l = dotted lbl chunks /\ length l <= max_name_len
  | ExcRes _ => True
  end.
Proof.
  induction fuel as [|f IH]; intros b pos lbl Hcap; cbn [exc]; [exact I|].
  destruct (length b <=? pos) eqn:E.
  { apply Nat.leb_le in E. exists [], pos. repeat split; auto. constructor. }
  apply Nat.leb_gt in E. destruct (idx_ok b pos E) as (c & -> & Hc).
  destruct (bnat c =? 0) eqn:Z.
  { apply Nat.eqb_eq in Z. exists [], pos, c. repeat split; auto. constructor. }
  apply Nat.eqb_neq in Z.
  destruct (is_ptr c) eqn:P; [exact I|].
  destruct (length b <? pos + 1 + bnat c) eqn:L; [exact I|]. apply Nat.ltb_ge in L.
  rewrite sub_ok by lia.
  destruct (max_name_len <? length (join lbl (slice b (pos + 1) (bnat c)))) eqn:C; [exact I|].
  apply Nat.ltb_ge in C.
  specialize (IH b (pos + 1 + bnat c) (join lbl (slice b (pos + 1) (bnat c))) C).
  destruct (exc f b (pos + 1 + bnat c) _) as [l|l|e]; auto.
  - destruct IH as (chunks & stop & z & Hr & Hz & Hz0 & -> & Hl).
    exists (slice b (pos + 1) (bnat c) :: chunks), stop, z. repeat split; auto. econstructor; eauto.
  - destruct IH as (chunks & stop & Hr & Hle & -> & Hl).
    exists (slice b (pos + 1) (bnat c) :: chunks), stop. repeat split; auto. econstructor; eauto.
Qed.

Lemma names_from_cons b lbl pos c ns :
  nth_error b pos = Some c -> bnat c <> 0 -> is_ptr c = false -> pos + 1 + bnat c <= length b ->
  names_from b (join lbl (slice b (pos + 1) (bnat c))) (pos + 1 + bnat c) ns -> names_from b lbl pos ns.
Proof.
  intros E Z P L H.
  assert (R : forall chunks stop, run b (pos + 1 + bnat c) chunks stop ->
                                  run b pos (slice b (pos + 1) (bnat c) :: chunks) stop)
    by (intros; econstructor; eauto).
  inversion H; subst.
  - change (dotted (join lbl (slice b (pos + 1) (bnat c))) chunks)
      with (dotted lbl (slice b (pos + 1) (bnat c) :: chunks)) in *.
    eapply nf_end; [apply R; eassumption | assumption..].
  - change (dotted (join lbl (slice b (pos + 1) (bnat c))) chunks)
      with (dotted lbl (slice b (pos + 1) (bnat c) :: chunks)) in *.
    eapply nf_zero; [apply R; eassumption | eassumption..].
  - change (dotted (join lbl (slice b (pos + 1) (bnat c))) (chunks ++ chunks2))
      with (dotted lbl ((slice b (pos + 1) (bnat c) :: chunks) ++ chunks2)) in *.
    eapply nf_ptr; [apply R; eassumption | eassumption..].
  - change (dotted (join lbl (slice b (pos + 1) (bnat c))) (chunks ++ chunks2))
      with (dotted lbl ((slice b (pos + 1) (bnat c) :: chunks) ++ chunks2)) in *.
    eapply nf_ptr_end; [apply R; eassumption | eassumption..].
Qed.

Theorem main_sound : forall fuel b pos lbl acc r, length lbl <= max_name_len ->
  main fuel b pos lbl acc = Ok r -> exists ns, r = acc ++ ns /\ names_from b lbl pos ns.
Proof.
  assert (Hnil : length (@nil byte) <= max_name_len) by (cbn; lia).
  induction fuel as [|f IH]; intros b pos lbl acc r Hcap; cbn [main]; [discriminate|].
  destruct (length b <=? pos) eqn:E.
  { apply Nat.leb_le in E. intros [= <-]. exists (fin [] lbl). split; [apply fin_acc|].
    apply (nf_end b lbl pos [] pos); [constructor | assumption | exact Hcap]. }
  apply Nat.leb_gt in E. destruct (idx_ok b pos E) as (c & -> & Hc).
  destruct (bnat c =? 0) eqn:Z.
  { apply Nat.eqb_eq in Z. intros H. apply IH in H; [|exact Hnil]. destruct H as (ns & -> & Hn).
    exists (lbl :: ns). split; [rewrite <- app_assoc; reflexivity|].
    apply (nf_zero b lbl pos [] pos c ns); auto. constructor. }
  apply Nat.eqb_neq in Z.
  destruct (is_ptr c) eqn:P.
  { destruct (length b <? pos + 1 + 1) eqn:L; [discriminate|]. apply Nat.ltb_ge in L.
    assert (Hp : pos + 1 < length b) by lia.
    destruct (idx_ok b (pos + 1) Hp) as (c2 & -> & Hc2).
    pose proof (exc_sound (S (length b)) b ((bnat c - 192) * 256 + bnat c2) lbl Hcap) as X.
    destruct (exc (S (length b)) b _ lbl) as [l|l|e].
    - destruct X as (chunks & stop & z & Hr & Hz & Hz0 & -> & Hl). intros H. apply IH in H; [|exact Hnil].
      destruct H as (ns & -> & Hn). exists (dotted lbl chunks :: ns).
      split; [rewrite <- app_assoc; reflexivity|].
      apply (nf_ptr b lbl pos [] pos c c2 chunks stop z ns); auto. constructor.
    - destruct X as (chunks & stop & Hr & Hle & -> & Hl). intros [= <-].
      exists (fin [] (dotted lbl chunks)). split; [apply fin_acc|].
      apply (nf_ptr_end b lbl pos [] pos c c2 chunks stop); auto. constructor.
    - destruct e; discriminate. }
  destruct (length b <? pos + 1 + bnat c) eqn:L; [discriminate|]. apply Nat.ltb_ge in L.
  rewrite sub_ok by lia.
  destruct (max_name_len <? length (join lbl (slice b (pos + 1) (bnat c)))) eqn:C; [discriminate|].
  apply Nat.ltb_ge in C.
  intros H. apply IH in H; [|exact C]. destruct H as (ns & -> & Hn). exists ns. split; auto.
  eapply names_from_cons; eauto.
Qed.

Theorem decode_sound b ns : labels_from_bytes b = Ok ns -> names_from b [] 0 ns.
Proof.
  intros H. apply main_sound in H; [|cbn; lia]. destruct H as (ns' & -> & H). exact H.
Qed.

(** * Completeness: every derivation of the relation is found by the decoder. *)

Lemma main_run b pos chunks stop : run b pos chunks stop ->
  forall fuel lbl acc, 0 < fuel -> length b < fuel + pos ->
  length (dotted lbl chunks) <= max_name_len ->
  exists fuel', 0 < fuel' /\ length b < fuel' + stop /\
    main fuel b pos lbl acc = main fuel' b stop (dotted lbl chunks) acc.
Proof.
  induction 1 as [pos|pos c chunks stop Hn Hz Hp Hl R IH]; intros fuel lbl acc H0 Hf Hcap.
  - exists fuel. auto.
  - destruct fuel as [|f]; [lia|]. cbn [main].
    assert (E : pos < length b) by (apply nth_error_Some; congruence).
    assert (E' : (length b <=? pos) = false) by (apply Nat.leb_gt; lia). rewrite E'.
    unfold idx. rewrite Hn.
    assert (Z : (bnat c =? 0) = false) by (apply Nat.eqb_neq; exact Hz). rewrite Z, Hp.
    assert (L : (length b <? pos + 1 + bnat c) = false) by (apply Nat.ltb_ge; lia). rewrite L.
    rewrite sub_ok by lia.
    change (dotted lbl (slice b (pos + 1) (bnat c) :: chunks))
      with (dotted (join lbl (slice b (pos + 1) (bnat c))) chunks) in *.
    pose proof (dotted_length_ge chunks (join lbl (slice b (pos + 1) (bnat c)))) as G.
    assert (C : (max_name_len <? length (join lbl (slice b (pos + 1) (bnat c)))) = false)
      by (apply Nat.ltb_ge; lia). rewrite C.
    apply IH; [lia | lia | exact Hcap].
Qed.

Lemma exc_run b pos chunks stop : run b pos chunks stop ->
  forall fuel lbl, 0 < fuel -> length b < fuel + pos ->
  length (dotted lbl chunks) <= max_name_len ->
  exists fuel', 0 < fuel' /\ length b < fuel' + stop /\
    exc fuel b pos lbl = exc fuel' b stop (dotted lbl chunks).
Proof.
  induction 1 as [pos|pos c chunks stop Hn Hz Hp Hl R IH]; intros fuel lbl H0 Hf Hcap.
  - exists fuel. auto.
  - destruct fuel as [|f]; [lia|]. cbn [exc].
    assert (E : pos < length b) by (apply nth_error_Some; congruence).
    assert (E' : (length b <=? pos) = false) by (apply Nat.leb_gt; lia). rewrite E'.
    unfold idx. rewrite Hn.
    assert (Z : (bnat c =? 0) = false) by (apply Nat.eqb_neq; exact Hz). rewrite Z, Hp.
    assert (L : (length b <? pos + 1 + bnat c) = false) by (apply Nat.ltb_ge; lia). rewrite L.
    rewrite sub_ok by lia.
    change (dotted lbl (slice b (pos + 1) (bnat c) :: chunks))
      with (dotted (join lbl (slice b (pos + 1) (bnat c))) chunks) in *.
    pose proof (dotted_length_ge chunks (join lbl (slice b (pos + 1) (bnat c)))) as G.
    assert (C : (max_name_len <? length (join lbl (slice b (pos + 1) (bnat c)))) = false)
      by (apply Nat.ltb_ge; lia). rewrite C.
    apply IH; [lia | lia | exact Hcap].
Qed.

Lemma run_stop_le b pos chunks stop : run b pos chunks stop -> pos <= stop.
Proof. induction 1; lia. Qed.

Theorem main_complete b lbl pos ns : names_from b lbl pos ns ->
  forall fuel acc, 0 < fuel -> length b < fuel + pos -> main fuel b pos lbl acc = Ok (acc ++ ns).
Proof.
  induction 1 as [lbl pos chunks stop R Hend Hcap
                 |lbl pos chunks stop c ns R Hc Hz Hcap Hn IH
                 |lbl pos chunks stop c c2 chunks2 stop2 z ns R Hc Hp Hc2 R2 Hz Hz0 Hcap Hn IH
                 |lbl pos chunks stop c c2 chunks2 stop2 R Hc Hp Hc2 R2 Hend Hcap];
    intros fuel acc H0 Hf.
  - destruct (main_run b pos chunks stop R fuel lbl acc H0 Hf Hcap) as (f' & Hf0 & Hf' & ->).
    destruct f' as [|f]; [lia|]. cbn [main].
    assert (E : (length b <=? stop) = true) by (apply Nat.leb_le; lia). rewrite E.
    rewrite fin_acc. reflexivity.
  - destruct (main_run b pos chunks stop R fuel lbl acc H0 Hf Hcap) as (f' & Hf0 & Hf' & ->).
    destruct f' as [|f]; [lia|]. cbn [main].
    assert (E : stop < length b) by (apply nth_error_Some; congruence).
    assert (E' : (length b <=? stop) = false) by (apply Nat.leb_gt; lia). rewrite E'.
    unfold idx. rewrite Hc. apply Nat.eqb_eq in Hz. rewrite Hz.
    rewrite IH by lia. rewrite <- app_assoc. reflexivity.
  - rewrite dotted_app in Hcap.
    pose proof (dotted_length_ge chunks2 (dotted lbl chunks)) as G.
    destruct (main_run b pos chunks stop R fuel lbl acc H0 Hf ltac:(lia)) as (f' & Hf0 & Hf' & ->).
    destruct f' as [|f]; [lia|]. cbn [main].
    assert (E : stop < length b) by (apply nth_error_Some; congruence).
    assert (E2 : stop + 1 < length b) by (apply nth_error_Some; congruence).
    assert (E' : (length b <=? stop) = false) by (apply Nat.leb_gt; lia). rewrite E'.
    unfold idx. rewrite Hc.
    assert (Z : (bnat c =? 0) = false).
    { apply Nat.eqb_neq. intros K. unfold is_ptr in Hp. rewrite K in Hp. discriminate. }
    rewrite Z, Hp.
    assert (L : (length b <? stop + 1 + 1) = false) by (apply Nat.ltb_ge; lia). rewrite L, Hc2.
    destruct (exc_run b _ chunks2 stop2 R2 (S (length b)) (dotted lbl chunks) ltac:(lia) ltac:(lia) Hcap)
      as (g & Hg0 & Hg & ->).
    destruct g as [|g]; [lia|]. cbn [exc].
    assert (F : stop2 < length b) by (apply nth_error_Some; congruence).
    assert (F' : (length b <=? stop2) = false) by (apply Nat.leb_gt; lia). rewrite F'.
    unfold idx. rewrite Hz. apply Nat.eqb_eq in Hz0. rewrite Hz0.
    rewrite IH by lia. rewrite dotted_app, <- app_assoc. reflexivity.
  - rewrite dotted_app in Hcap.
    pose proof (dotted_length_ge chunks2 (dotted lbl chunks)) as G.
    destruct (main_run b pos chunks stop R fuel lbl acc H0 Hf ltac:(lia)) as (f' & Hf0 & Hf' & ->).
    destruct f' as [|f]; [lia|]. cbn [main].
    assert (E : stop < length b) by (apply nth_error_Some; congruence).
    assert (E2 : stop + 1 < length b) by (apply nth_error_Some; congruence).
    assert (E' : (length b <=? stop) = false) by (apply Nat.leb_gt; lia). rewrite E'.
    unfold idx. rewrite Hc.
    assert (Z : (bnat c =? 0) = false).
    { apply Nat.eqb_neq. intros K. unfold is_ptr in Hp. rewrite K in Hp. discriminate. }
    rewrite Z, Hp.
    assert (L : (length b <? stop + 1 + 1) = false) by (apply Nat.ltb_ge; lia). rewrite L, Hc2.
    destruct (exc_run b _ chunks2 stop2 R2 (S (length b)) (dotted lbl chunks) ltac:(lia) ltac:(lia) Hcap)
      as (g & Hg0 & Hg & ->).
    destruct g as [|g]; [lia|]. cbn [exc].
    assert (F' : (length b <=? stop2) = true) by (apply Nat.leb_le; lia). rewrite F'.
    rewrite dotted_app, fin_acc. reflexivity.
Qed.

(** The decoder returns [ns] exactly when the relation assigns [ns]: a
    complete description of every accepted input (and the relation is
    therefore functional). *)
Theorem decode_characterised b ns : labels_from_bytes b = Ok ns <-> names_from b [] 0 ns.
Proof.
  split; [apply decode_sound|].
  intros H. apply (main_complete b [] 0 ns H (S (length b)) []); lia.
Qed.

Corollary names_from_functional b ns1 ns2 :
  names_from b [] 0 ns1 -> names_from b [] 0 ns2 -> ns1 = ns2.
Proof.
  intros H1 H2. apply decode_characterised in H1, H2. congruence.
Qed.
