(** C09 — Decoding cost is bounded: linear size, at most quadratic work. *)
From DV Require Import Base.Bytes Label.Model Cost.Labels.

(** The domain-name decoder is where expansion could occur (compression
    pointers, unterminated chains, runs of empty names).  For EVERY byte
    string it accepts: each name is at most 253 octets and there is at most
    one name per input octet (+1), so the decoded value is bounded by a fixed
    multiple of the input ... *)
Theorem C09_names_size : forall b ns, labels_from_bytes b = Ok ns ->
  Forall (fun n => length n <= 253) ns /\ length ns <= length b + 1.
Proof. exact labels_size. Qed.
Print Assumptions C09_names_size.

Theorem C09_names_total_size : forall b ns, labels_from_bytes b = Ok ns -> total_len ns <= 253 * (length b + 1).
Proof. exact labels_total_size. Qed.
Print Assumptions C09_names_total_size.

(** ... and the work — loop iterations of the main loop plus all pointer
    excursions, each touching one label (<= 191 octets) — is linear: at most
    255 iterations per pointer, 257 per input octet *)
Theorem C09_pointer_excursion_bounded : forall fuel b pos lbl, small lbl -> exc_steps fuel b pos lbl + length lbl <= 255.
Proof. exact exc_steps_bound. Qed.
Print Assumptions C09_pointer_excursion_bounded.

Theorem C09_names_work : forall b, main_steps (S (length b)) b 0 [] <= 257 * length b + 1.
Proof. exact labels_work. Qed.
Print Assumptions C09_names_work.

(** C09_partial: the allocation and retained-size bounds for whole DHCPv4 /
    DHCPv6 messages (single-pass option loops, one copy of the remainder per
    nesting level) are measured on the real code by the harness against the
    explicit bound  size <= 300 n + 4096,  alloc <= 1500 n + depth n + 4096;
    only the name decoder's bounds are theorems. *)
Example C09_example_fan :
  match labels_from_bytes ([x01; x61; x00] ++ flat_map (fun _ => [xc0; x00]) (seq 0 40)) with
  | Ok ns => length ns = 41 | _ => False end.
Proof. vm_compute. reflexivity. Qed.
