(** DHCPv6 codec: executable model of dhcpv6.FromBytes / MessageFromBytes /
    RelayMessageFromBytes / Options.FromBytesWithParser / ParseOption, every
    option's FromBytes/ToBytes, DUIDs, and Message/RelayMessage.ToBytes.
    Every option decoder of the library ends in the Lexer's FinError (or
    returns the first error), so a short read anywhere makes the result an
    error: reads are modelled as sequential [take]s that fail at once. *)
From DV Require Import Base.Bytes Label.Model V4.Model.

Inductive duid :=
| DLLT (hw time : N) (ll : bytes)
| DEN (en : N) (id : bytes)
| DLL (hw : N) (ll : bytes)
| DUUID (u : bytes)
| DOpaque (typ : N) (data : bytes).

Inductive ntpsub :=
| NSrv (addr : bytes) | NMC (addr : bytes) | NFQDN (l : labels) | NGen (code : N) (data : bytes).

Inductive opt6 :=
| OClientID (d : duid)
| OServerID (d : duid)
| OIANA (iaid : bytes) (t1 t2 : N) (opts : list opt6)
| OIATA (iaid : bytes) (opts : list opt6)
| OIAAddr (addr : bytes) (pref valid : N) (opts : list opt6)
| OORO (codes : list N)
| OElapsed (t : N)
| ORelayMsgM (typ : N) (xid : bytes) (opts : list opt6)           (* option 9 carrying a Message *)
| ORelayMsgR (typ hop : N) (link peer : bytes) (opts : list opt6) (* option 9 carrying a RelayMessage *)
| OStatus (code : N) (msg : bytes)
| OUserClass (cls : list bytes)
| OVendorClass (en : N) (data : list bytes)
| OVendorOpts (en : N) (subs : list (N * bytes))
| OInterfaceID (id : bytes)
| ODNS (addrs : list bytes)
| ODomainList (l : labels)
| OIAPD (iaid : bytes) (t1 t2 : N) (opts : list opt6)
| OIAPrefix (pref valid : N) (prefix : option (N * bytes)) (opts : list opt6)
| OInfoRefresh (t : N)
| ORemoteID (en : N) (id : bytes)
| OFQDN (flags : N) (l : labels)
| ONTP (subs : list ntpsub)
| OBootURL (u : bytes)
| OBootParam (ps : list bytes)
| OArch (archs : list N)
| ONII (typ maj min : N)
| OClientLL (hw : N) (addr : bytes)
| ODHCPv4 (p : pkt4)
| O4o6 (addrs : list bytes)
| O4RD (opts : list opt6)
| O4RDMap (p4len p6len ea : N) (wkp : bool) (p4 p6 : bytes)
| O4RDNonMap (hub : bool) (tclass : option N) (pmtu : N)
| ORelayPort (port : N)
| OGeneric (code : N) (data : bytes).

Inductive msg6 :=
| Msg (typ : N) (xid : bytes) (opts : list opt6)
| Relay (typ hop : N) (link peer : bytes) (opts : list opt6).

Definition is_relay_type (t : N) : bool := ((t =? 12) || (t =? 13))%N.

(** * Encoding *)

Definition opt_code (o : opt6) : N :=
  match o with
  | OClientID _ => 1 | OServerID _ => 2 | OIANA _ _ _ _ => 3 | OIATA _ _ => 4 | OIAAddr _ _ _ _ => 5
  | OORO _ => 6 | OElapsed _ => 8 | ORelayMsgM _ _ _ => 9 | ORelayMsgR _ _ _ _ _ => 9 | OStatus _ _ => 13
  | OUserClass _ => 15 | OVendorClass _ _ => 16 | OVendorOpts _ _ => 17 | OInterfaceID _ => 18
  | ODNS _ => 23 | ODomainList _ => 24 | OIAPD _ _ _ _ => 25 | OIAPrefix _ _ _ _ => 26
  | OInfoRefresh _ => 32 | ORemoteID _ _ => 37 | OFQDN _ _ => 39 | ONTP _ => 56 | OBootURL _ => 59
  | OBootParam _ => 60 | OArch _ => 61 | ONII _ _ _ => 62 | OClientLL _ _ => 79 | ODHCPv4 _ => 87
  | O4o6 _ => 88 | O4RD _ => 97 | O4RDMap _ _ _ _ _ _ => 98 | O4RDNonMap _ _ _ => 99 | ORelayPort _ => 135
  | OGeneric c _ => c
  end%N.

(** net.IP.To16 *)
Definition to16 (ip : bytes) : option bytes :=
  if length ip =? 16 then Some ip
  else if length ip =? 4 then Some (v4_in_v6_prefix ++ ip)
  else None.
(** write16(buf, ip): zeros when nil / not an address *)
Definition ip16 (ip : bytes) : bytes := match to16 ip with Some b => b | None => zeros 16 end.
(** buf.WriteBytes(ip.To16()) *)
Definition ip16_or_nothing (ip : bytes) : bytes := match to16 ip with Some b => b | None => [] end.

Definition len16 (b : bytes) : bytes := be16 (N.of_nat (length b)).      (* uint16(len(b)) *)
Definition tlv (code : N) (v : bytes) : bytes := be16 code ++ len16 v ++ v.

Definition enc_duid (d : duid) : bytes :=
  match d with
  | DLLT hw t ll => be16 1 ++ be16 hw ++ be32 t ++ ll
  | DEN en id => be16 2 ++ be32 en ++ id
  | DLL hw ll => be16 3 ++ be16 hw ++ ll
  | DUUID u => be16 4 ++ copy_into 16 16 u
  | DOpaque t data => be16 t ++ data
  end.

Definition labels_bytes (l : labels) : bytes := obytes (labels_to l).

Definition enc_ntpsub (s : ntpsub) : bytes :=
  match s with
  | NSrv a => tlv 1 (ip16_or_nothing a)
  | NMC a => tlv 2 (ip16_or_nothing a)
  | NFQDN l => tlv 3 (labels_bytes l)
  | NGen c d => tlv c d
  end.

Definition enc4_bytes (p : pkt4) : bytes := match enc4 p with Ok b => b | _ => [] end.

Definition b2flag (b : bool) (mask : N) : N := if b then mask else 0%N.

Fixpoint enc_val (o : opt6) : bytes :=
  let enc_opts := flat_map (fun x => tlv (opt_code x) (enc_val x)) in
  match o with
  | OClientID d | OServerID d => enc_duid d
  | OIANA iaid t1 t2 os => copy_into 4 4 iaid ++ be32 t1 ++ be32 t2 ++ enc_opts os
  | OIATA iaid os => copy_into 4 4 iaid ++ enc_opts os
  | OIAAddr a p v os => ip16 a ++ be32 p ++ be32 v ++ enc_opts os
  | OORO cs => flat_map be16 cs
  | OElapsed t => be16 t
  | ORelayMsgM t xid os => [n2b t] ++ copy_into 3 3 xid ++ enc_opts os
  | ORelayMsgR t hop l p os => [n2b t; n2b hop] ++ ip16 l ++ ip16 p ++ enc_opts os
  | OStatus c m => be16 c ++ m
  | OUserClass cls => flat_map (fun c => len16 c ++ c) cls
  | OVendorClass en ds => be32 en ++ flat_map (fun c => len16 c ++ c) ds
  | OVendorOpts en subs => be32 en ++ flat_map (fun s => tlv (fst s) (snd s)) subs
  | OInterfaceID id => id
  | ODNS as_ => flat_map ip16_or_nothing as_
  | ODomainList l => labels_bytes l
  | OIAPD iaid t1 t2 os => copy_into 4 4 iaid ++ be32 t1 ++ be32 t2 ++ enc_opts os
  | OIAPrefix p v pre os =>
      be32 p ++ be32 v ++
      (match pre with Some (plen, a) => [n2b plen] ++ ip16 a | None => [x00] ++ zeros 16 end) ++ enc_opts os
  | OInfoRefresh t => be32 t
  | ORemoteID en id => be32 en ++ id
  | OFQDN f l => [n2b f] ++ labels_bytes l
  | ONTP subs => flat_map enc_ntpsub subs
  | OBootURL u => u
  | OBootParam ps => flat_map (fun p => if (65536 <=? N.of_nat (length p))%N then [] else len16 p ++ p) ps
  | OArch archs => flat_map be16 archs
  | ONII t ma mi => [n2b t; n2b ma; n2b mi]
  | OClientLL hw a => be16 hw ++ a
  | ODHCPv4 p => enc4_bytes p
  | O4o6 as_ => flat_map ip16_or_nothing as_
  | O4RD os => enc_opts os
  | O4RDMap p4l p6l ea wkp p4 p6 =>
      [n2b p4l; n2b p6l; n2b ea; n2b (b2flag wkp 128)]
      ++ (match to4 p4 with Some b => b | None => zeros 4 end) ++ ip16 p6
  | O4RDNonMap hub tc pmtu =>
      [n2b (b2flag hub 128 + match tc with Some _ => 1 | None => 0 end);
       n2b (match tc with Some c => c | None => 0 end)] ++ be16 pmtu
  | ORelayPort p => be16 p
  | OGeneric _ d => d
  end.

Definition enc_opt (o : opt6) : bytes := tlv (opt_code o) (enc_val o).
Definition enc_opts (os : list opt6) : bytes := flat_map enc_opt os.

Definition enc_msg (m : msg6) : bytes :=
  match m with
  | Msg t xid os => [n2b t] ++ copy_into 3 3 xid ++ enc_opts os
  | Relay t hop l p os => [n2b t; n2b hop] ++ ip16 l ++ ip16 p ++ enc_opts os
  end.

(** a DHCPv4-in-DHCPv6 option whose packet cannot be encoded makes ToBytes panic *)
Fixpoint opt_panics (o : opt6) : bool :=
  match o with
  | ODHCPv4 p => match enc4 p with Ok _ => false | _ => true end
  | OIANA _ _ _ os | OIATA _ os | OIAAddr _ _ _ os | ORelayMsgM _ _ os | ORelayMsgR _ _ _ _ os
  | OIAPD _ _ _ os | OIAPrefix _ _ _ os | O4RD os => existsb opt_panics os
  | _ => false
  end.
Definition msg_panics (m : msg6) : bool :=
  match m with Msg _ _ os | Relay _ _ _ _ os => existsb opt_panics os end.

(** the ParseOption switch: which concrete type a code is parsed as *)
Inductive okind :=
| KClientID | KServerID | KIANA | KIATA | KIAAddr | KORO | KElapsed | KRelayMsg | KStatus | KUserClass | KVendorClass | KVendorOpts | KInterfaceID | KDNS | KDomainList | KIAPD | KIAPrefix | KInfoRefresh | KRemoteID | KFQDN | KNTP | KBootURL | KBootParam | KArch | KNII | KClientLL | KDHCPv4 | K4o6 | K4RD | K4RDMap | K4RDNonMap | KRelayPort | KGeneric.

Definition dispatch_table : list (N * okind) :=
  [(1, KClientID); (2, KServerID); (3, KIANA); (4, KIATA); (5, KIAAddr); (6, KORO); (8, KElapsed); (9, KRelayMsg); (13, KStatus); (15, KUserClass); (16, KVendorClass); (17, KVendorOpts); (18, KInterfaceID); (23, KDNS); (24, KDomainList); (25, KIAPD); (26, KIAPrefix); (32, KInfoRefresh); (37, KRemoteID); (39, KFQDN); (56, KNTP); (59, KBootURL); (60, KBootParam); (61, KArch); (62, KNII); (79, KClientLL); (87, KDHCPv4); (88, K4o6); (97, K4RD); (98, K4RDMap); (99, K4RDNonMap); (135, KRelayPort)]%N.

Definition classify (code : N) : okind :=
  match code with
  | 1 => KClientID
  | 2 => KServerID
  | 3 => KIANA
  | 4 => KIATA
  | 5 => KIAAddr
  | 6 => KORO
  | 8 => KElapsed
  | 9 => KRelayMsg
  | 13 => KStatus
  | 15 => KUserClass
  | 16 => KVendorClass
  | 17 => KVendorOpts
  | 18 => KInterfaceID
  | 23 => KDNS
  | 24 => KDomainList
  | 25 => KIAPD
  | 26 => KIAPrefix
  | 32 => KInfoRefresh
  | 37 => KRemoteID
  | 39 => KFQDN
  | 56 => KNTP
  | 59 => KBootURL
  | 60 => KBootParam
  | 61 => KArch
  | 62 => KNII
  | 79 => KClientLL
  | 87 => KDHCPv4
  | 88 => K4o6
  | 97 => K4RD
  | 98 => K4RDMap
  | 99 => K4RDNonMap
  | 135 => KRelayPort
  | _ => KGeneric
  end%N.

(** * Decoding *)

Definition rd_u8 (b : bytes) : res (N * bytes) :=
  match b with x :: r => Ok (b2n x, r) | [] => Err end.
Definition rd_u16 (b : bytes) : res (N * bytes) :=
  match b with x :: y :: r => Ok (rd16 x y, r) | _ => Err end.
Definition rd_u32 (b : bytes) : res (N * bytes) :=
  match b with x :: y :: z :: w :: r => Ok (rd32 x y z w, r) | _ => Err end.
Definition rd_n (n : nat) (b : bytes) : res (bytes * bytes) := of_opt (take n b).
Definition fin_empty (b : bytes) : res unit := match b with [] => Ok tt | _ => Err end.

(** for buf.Has(2) { n := Read16; append(CopyN(n)) }; FinError *)
Fixpoint many_len16 (fuel : nat) (b : bytes) : res (list bytes) :=
  match fuel with
  | O => Fuel
  | S f =>
    match b with
    | [] => Ok []
    | [_] => Err
    | h :: l :: r =>
      let* (x, r') := rd_n (N.to_nat (rd16 h l)) r in
      let* xs := many_len16 f r' in Ok (x :: xs)
    end
  end.

(** for buf.Has(16) { append(CopyN(16)) }; FinError *)
Fixpoint many_ip16 (fuel : nat) (b : bytes) : res (list bytes) :=
  match fuel with
  | O => Fuel
  | S f =>
    match b with
    | [] => Ok []
    | _ => let* (x, r) := rd_n 16 b in let* xs := many_ip16 f r in Ok (x :: xs)
    end
  end.

(** for buf.Has(2) { append(Read16) }; FinError *)
Fixpoint many_u16 (b : bytes) : res (list N) :=
  match b with
  | [] => Ok []
  | [_] => Err
  | x :: y :: r => let* xs := many_u16 r in Ok (rd16 x y :: xs)
  end.

(** OptionCodes.Add: append unless already present *)
Fixpoint dedup_add (acc : list N) (cs : list N) : list N :=
  match cs with
  | [] => acc
  | c :: cs' => dedup_add (if existsb (N.eqb c) acc then acc else acc ++ [c]) cs'
  end.

Definition dec_duid (data : bytes) : res duid :=
  let* (typ, r) := rd_u16 data in
  match typ with
  | 1 => let* (hw, r) := rd_u16 r in let* (t, r) := rd_u32 r in Ok (DLLT hw t r)
  | 2 => let* (en, r) := rd_u32 r in Ok (DEN en r)
  | 3 => let* (hw, r) := rd_u16 r in Ok (DLL hw r)
  | 4 => if (length r =? 16)%nat then Ok (DUUID r) else Err
  | _ => Ok (DOpaque typ r)
  end%N.

(** the TLV loop of Options.FromBytesWithParser *)
Fixpoint tlv_loop {A} (parse : N -> bytes -> res A) (fuel : nat) (b : bytes) : res (list A) :=
  match fuel with
  | O => Fuel
  | S f =>
    match b with
    | c1 :: c2 :: l1 :: l2 :: r =>
      let* (v, r') := rd_n (N.to_nat (rd16 l1 l2)) r in     (* Consume(length) *)
      let* o := parse (rd16 c1 c2) v in
      let* os := tlv_loop parse f r' in Ok (o :: os)
    | [] => Ok []
    | _ => Err                                              (* FinError: 1..3 octets left *)
    end
  end.
Definition dec_tlvs {A} (parse : N -> bytes -> res A) (b : bytes) : res (list A) :=
  tlv_loop parse (S (length b)) b.

Definition dec_labels (b : bytes) : res labels := labels_from (Some b).

Definition dec_ntpsub (code : N) (data : bytes) : res ntpsub :=
  match code with
  | 1 => let* (a, r) := rd_n 16 data in let* _ := fin_empty r in Ok (NSrv a)
  | 2 => let* (a, r) := rd_n 16 data in let* _ := fin_empty r in Ok (NMC a)
  | 3 => let* l := dec_labels data in Ok (NFQDN l)
  | _ => Ok (NGen code data)
  end%N.

Definition dec_msg_with (opts : bytes -> res (list opt6)) (data : bytes) : res msg6 :=
  let* (t, r) := rd_u8 data in
  if is_relay_type t then
    let* (hop, r) := rd_u8 r in
    let* (l, r) := rd_n 16 r in
    let* (p, r) := rd_n 16 r in
    let* os := opts r in Ok (Relay t hop l p os)
  else
    let* (xid, r) := rd_n 3 r in
    let* os := opts r in Ok (Msg t xid os).

(** ParseOption.  [fuel] bounds the nesting depth. *)
Fixpoint dec_opt (fuel : nat) (code : N) (data : bytes) : res opt6 :=
  match fuel with
  | O => Fuel
  | S f =>
    let opts := dec_tlvs (dec_opt f) in
    match classify code with
    | KClientID => let* d := dec_duid data in Ok (OClientID d)
    | KServerID => let* d := dec_duid data in Ok (OServerID d)
    | KIANA => let* (iaid, r) := rd_n 4 data in let* (t1, r) := rd_u32 r in let* (t2, r) := rd_u32 r in
           let* os := opts r in Ok (OIANA iaid t1 t2 os)
    | KIATA => let* (iaid, r) := rd_n 4 data in let* os := opts r in Ok (OIATA iaid os)
    | KIAAddr => let* (a, r) := rd_n 16 data in let* (p, r) := rd_u32 r in let* (v, r) := rd_u32 r in
           let* os := opts r in Ok (OIAAddr a p v os)
    | KORO => let* cs := many_u16 data in Ok (OORO (dedup_add [] cs))
    | KElapsed => let* (t, r) := rd_u16 data in let* _ := fin_empty r in Ok (OElapsed t)
    | KRelayMsg => let* m := dec_msg_with opts data in
           Ok (match m with Msg t xid os => ORelayMsgM t xid os | Relay t h l p os => ORelayMsgR t h l p os end)
    | KStatus => let* (c, r) := rd_u16 data in Ok (OStatus c r)
    | KUserClass => match data with [] => Err | _ => let* cls := many_len16 (S (length data)) data in Ok (OUserClass cls) end
    | KVendorClass => let* (en, r) := rd_u32 data in let* ds := many_len16 (S (length r)) r in
            match ds with [] => Err | _ => Ok (OVendorClass en ds) end
    | KVendorOpts => let* (en, r) := rd_u32 data in
            let* subs := dec_tlvs (fun c d => Ok (c, d)) r in Ok (OVendorOpts en subs)
    | KInterfaceID => Ok (OInterfaceID data)
    | KDNS => let* as_ := many_ip16 (S (length data)) data in Ok (ODNS as_)
    | KDomainList => let* l := dec_labels data in Ok (ODomainList l)
    | KIAPD => let* (iaid, r) := rd_n 4 data in let* (t1, r) := rd_u32 r in let* (t2, r) := rd_u32 r in
            let* os := opts r in Ok (OIAPD iaid t1 t2 os)
    | KIAPrefix => let* (p, r) := rd_u32 data in let* (v, r) := rd_u32 r in let* (plen, r) := rd_u8 r in
            let* (a, r) := rd_n 16 r in
            if (128 <? plen)%N then Err
            else let* os := opts r in
                 Ok (OIAPrefix p v (if (plen =? 0)%N then None else Some (plen, a)) os)
    | KInfoRefresh => let* (t, r) := rd_u32 data in let* _ := fin_empty r in Ok (OInfoRefresh t)
    | KRemoteID => let* (en, r) := rd_u32 data in Ok (ORemoteID en r)
    | KFQDN => let* (f, r) := rd_u8 data in let* l := dec_labels r in Ok (OFQDN f l)
    | KNTP => let* subs := dec_tlvs dec_ntpsub data in Ok (ONTP subs)
    | KBootURL => Ok (OBootURL data)
    | KBootParam => let* ps := many_len16 (S (length data)) data in Ok (OBootParam ps)
    | KArch => match data with [] => Err | _ => let* archs := many_u16 data in Ok (OArch archs) end
    | KNII => let* (t, r) := rd_u8 data in let* (ma, r) := rd_u8 r in let* (mi, r) := rd_u8 r in
            let* _ := fin_empty r in Ok (ONII t ma mi)
    | KClientLL => let* (hw, r) := rd_u16 data in Ok (OClientLL hw r)
    | KDHCPv4 => let* p := dec4 data in Ok (ODHCPv4 p)
    | K4o6 => let* as_ := many_ip16 (S (length data)) data in Ok (O4o6 as_)
    | K4RD => let* os := opts data in Ok (O4RD os)
    | K4RDMap => let* (p4l, r) := rd_u8 data in let* (p6l, r) := rd_u8 r in
            let* (ea, r) := rd_u8 r in let* (fl, r) := rd_u8 r in
            let* (p4, r) := rd_n 4 r in let* (p6, r) := rd_n 16 r in let* _ := fin_empty r in
            if (32 <? p4l)%N || (128 <? p6l)%N then Err
            else Ok (O4RDMap p4l p6l ea (128 <=? fl)%N p4 p6)
    | K4RDNonMap => let* (fl, r) := rd_u8 data in let* (tc, r) := rd_u8 r in let* (pmtu, r) := rd_u16 r in
            let* _ := fin_empty r in
            Ok (O4RDNonMap (128 <=? fl)%N (if N.odd fl then Some tc else None) pmtu)
    | KRelayPort => let* (p, r) := rd_u16 data in let* _ := fin_empty r in Ok (ORelayPort p)
    | KGeneric => Ok (OGeneric code data)
    end
  end.

Definition dec_opts (fuel : nat) (b : bytes) : res (list opt6) := dec_tlvs (dec_opt fuel) b.

(** dhcpv6.FromBytes; nesting depth is at most length/4, so this fuel suffices *)
Definition dec_msg (b : bytes) : res msg6 := dec_msg_with (dec_opts (S (length b))) b.
(** dhcpv6.MessageFromBytes / RelayMessageFromBytes *)
Definition dec_message (b : bytes) : res msg6 :=
  match b with
  | t :: _ => if is_relay_type (b2n t) then Err else dec_msg b
  | [] => dec_msg b
  end.
Definition dec_relay (b : bytes) : res msg6 :=
  match b with
  | t :: _ => if is_relay_type (b2n t) then dec_msg b else Err
  | [] => Err
  end.
Definition parse_option (code : N) (data : bytes) : res opt6 := dec_opt (S (S (length data))) code data.
