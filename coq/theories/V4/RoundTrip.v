(** C01: encoding any packet of the domain and decoding the result preserves
    every header field and every option value. *)
From DV Require Import Base.Bytes V4.Model V4.OptProofs V4.Proofs.
From Coq Require Import Permutation.

Definition no_nul (s : bytes) : Prop := ~ In x00 s.

(** the 4 octets an address travels as: nil is 0.0.0.0, IPv4-mapped is its IPv4 part *)
Definition ip_wire (ip : goip) : option bytes :=
  match ip with None => Some (zeros 4) | Some b => to4 b end.

Record wf4 (p : pkt4) : Prop := {
  wf_op : (p_op p < 256)%N;
  wf_hw : (p_hwtype p < 256)%N;
  wf_hops : (p_hops p < 256)%N;
  wf_xid : length (p_xid p) = 4;
  wf_secs : (p_secs p < 65536)%N;
  wf_flags : (p_flags p < 65536)%N;
  wf_ci : ip_wire (p_ciaddr p) <> None;
  wf_yi : ip_wire (p_yiaddr p) <> None;
  wf_si : ip_wire (p_siaddr p) <> None;
  wf_gi : ip_wire (p_giaddr p) <> None;
  wf_ch : length (p_chaddr p) <= 16;
  wf_sn : length (p_sname p) <= 63 /\ no_nul (p_sname p);
  wf_fl : length (p_file p) <= 127 /\ no_nul (p_file p);
  wf_keys : NoDup (map fst (p_opts p));
  wf_codes : Forall good_code (map fst (p_opts p))
}.

Lemma to4_length b b4 : to4 b = Some b4 -> length b4 = 4.
Proof.
  unfold to4. destruct (length b =? 4) eqn:E4.
  - intros [= <-]. apply Nat.eqb_eq in E4. exact E4.
  - destruct (length b =? 16) eqn:E16; rewrite ?andb_true_l, ?andb_false_l; [|discriminate].
    destruct (bytes_eqb _ _); [|discriminate]. intros E.
    assert (E' : b4 = skipn 12 b) by congruence. rewrite E'.
    apply Nat.eqb_eq in E16. rewrite skipn_length. lia.
Qed.

Lemma ip_wire_length ip b4 : ip_wire ip = Some b4 -> length b4 = 4.
Proof. destruct ip as [b|]; cbn; [apply to4_length | intros [= <-]; reflexivity]. Qed.

Lemma write_ip_wire ip b4 : ip_wire ip = Some b4 -> write_ip ip = Ok b4.
Proof. destruct ip as [b|]; cbn; [intros ->; reflexivity | intros [= <-]; reflexivity]. Qed.

Lemma copy_into_length total n src : n <= total -> length (copy_into total n src) = total.
Proof.
  intros H. unfold copy_into. rewrite app_length, zeros_length, firstn_length. lia.
Qed.

Lemma copy_into_fit total n src : length src <= n -> copy_into total n src = src ++ zeros (total - length src).
Proof. intros H. unfold copy_into. rewrite firstn_all2 by exact H. reflexivity. Qed.

Lemma cut_nul_zeros s k : no_nul s -> cut_nul (s ++ zeros k) = s.
Proof.
  unfold no_nul. induction s as [|c s IH]; intros H; cbn [app cut_nul].
  - destruct k; reflexivity.
  - assert (E : beqb c x00 = false) by (apply beqb_neq; intros ->; apply H; left; reflexivity).
    rewrite E. f_equal. apply IH. intros K. apply H. right. exact K.
Qed.

(** * Marshal as an association list *)
Definition kv_of (m : optmap) (c : byte) : list (byte * bytes) :=
  if beqb c opt_end || beqb c opt_pad then []
  else match lookup c m with Some v => [(c, v)] | None => [] end.
Definition kvs_of (m : optmap) : list (byte * bytes) := flat_map (kv_of m) (sorted_keys m).

Lemma enc_kvs_app a b : enc_kvs (a ++ b) = enc_kvs a ++ enc_kvs b.
Proof. unfold enc_kvs. apply flat_map_app. Qed.

Lemma marshal_kvs m : marshal m = enc_kvs (kvs_of m).
Proof.
  unfold marshal, kvs_of. induction (sorted_keys m) as [|c L IH]; [reflexivity|].
  cbn [flat_map]. rewrite enc_kvs_app, <- IH. f_equal.
  unfold kv_of. destruct (beqb c opt_end || beqb c opt_pad); [reflexivity|].
  destruct (lookup c m); [cbn; rewrite app_nil_r|]; reflexivity.
Qed.

Lemma kvs_of_good m : Forall (fun kv => good_code (fst kv)) (kvs_of m).
Proof.
  unfold kvs_of. induction (sorted_keys m) as [|c L IH]; [constructor|].
  cbn [flat_map]. apply Forall_app. split; [|exact IH].
  unfold kv_of. destruct (beqb c opt_end) eqn:E; cbn [orb]; [constructor|].
  destruct (beqb c opt_pad) eqn:P; [constructor|].
  destruct (lookup c m); constructor; [|constructor].
  split; apply beqb_neq; assumption.
Qed.

(** * sorted_keys enumerates the key set without repetition *)
Lemma insert_code_perm c l : Permutation (insert_code c l) (c :: l).
Proof.
  induction l as [|x l IH]; cbn [insert_code]; [reflexivity|].
  destruct (b2n c <=? b2n x)%N; [reflexivity|].
  etransitivity; [apply perm_skip; exact IH | apply perm_swap].
Qed.

Lemma sort_codes_perm l : Permutation (sort_codes l) l.
Proof.
  induction l as [|c l IH]; cbn [sort_codes]; [reflexivity|].
  etransitivity; [apply insert_code_perm | apply perm_skip; exact IH].
Qed.

Lemma sorted_keys_in m c : In c (sorted_keys m) <-> In c (map fst m).
Proof.
  unfold sorted_keys. set (ks := map fst m). rewrite !in_app_iff.
  split.
  - intros [H|[H|H]].
    + apply (Permutation_in _ (sort_codes_perm _)) in H. apply filter_In in H. tauto.
    + destruct (existsb (beqb opt_agent_info) ks) eqn:E; [|contradiction].
      destruct H as [<-|[]]. apply existsb_exists in E. destruct E as (x & Hx & Ex).
      apply beqb_eq in Ex. subst x. exact Hx.
    + destruct (existsb (beqb opt_end) ks) eqn:E; [|contradiction].
      destruct H as [<-|[]]. apply existsb_exists in E. destruct E as (x & Hx & Ex).
      apply beqb_eq in Ex. subst x. exact Hx.
  - intros H.
    destruct (beqb c opt_agent_info) eqn:E1.
    { apply beqb_eq in E1. subst c. right; left.
      assert (E : existsb (beqb opt_agent_info) ks = true).
      { apply existsb_exists. exists opt_agent_info. split; [exact H | apply beqb_eq; reflexivity]. }
      rewrite E. left. reflexivity. }
    destruct (beqb c opt_end) eqn:E2.
    { apply beqb_eq in E2. subst c. right; right.
      assert (E : existsb (beqb opt_end) ks = true).
      { apply existsb_exists. exists opt_end. split; [exact H | apply beqb_eq; reflexivity]. }
      rewrite E. left. reflexivity. }
    left. apply (Permutation_in _ (Permutation_sym (sort_codes_perm _))).
    apply filter_In. split; [exact H|]. rewrite E1, E2. reflexivity.
Qed.

Lemma NoDup_app_intro {A} (a b : list A) :
  NoDup a -> NoDup b -> (forall x, In x a -> ~ In x b) -> NoDup (a ++ b).
Proof.
  induction a as [|x a IH]; intros Ha Hb H; [exact Hb|].
  inversion Ha as [|? ? Hx Ha']; subst. cbn [app]. constructor.
  - rewrite in_app_iff. intros [K|K]; [contradiction | apply (H x); [left; reflexivity | exact K]].
  - apply IH; auto. intros y Hy. apply H. right. exact Hy.
Qed.

Lemma sorted_keys_nodup m : NoDup (map fst m) -> NoDup (sorted_keys m).
Proof.
  intros H. unfold sorted_keys. set (ks := map fst m) in *.
  apply NoDup_app_intro; [| apply NoDup_app_intro |].
  - apply (Permutation_NoDup (Permutation_sym (sort_codes_perm _))). apply NoDup_filter. exact H.
  - destruct (existsb _ ks); repeat constructor. intros [].
  - destruct (existsb _ ks); repeat constructor. intros [].
  - intros x Hx K. destruct (existsb (beqb opt_agent_info) ks); [|destruct Hx].
    destruct Hx as [<-|[]]. destruct (existsb (beqb opt_end) ks); [|destruct K].
    destruct K as [K|[]]. discriminate.
  - intros x Hx. apply (Permutation_in _ (sort_codes_perm _)) in Hx. apply filter_In in Hx.
    destruct Hx as [_ Hx]. apply andb_true_iff in Hx. destruct Hx as [H1 H2].
    rewrite in_app_iff. intros [K|K].
    + destruct (existsb (beqb opt_agent_info) ks); [|contradiction]. destruct K as [<-|[]].
      assert (E : beqb opt_agent_info opt_agent_info = true) by (apply beqb_eq; reflexivity).
      rewrite E in H1. discriminate.
    + destruct (existsb (beqb opt_end) ks); [|contradiction]. destruct K as [<-|[]].
      assert (E : beqb opt_end opt_end = true) by (apply beqb_eq; reflexivity).
      rewrite E in H2. discriminate.
Qed.

Lemma lookup_in c m : lookup c m <> None <-> In c (map fst m).
Proof.
  induction m as [|[k v] m IH]; cbn [lookup map fst]; [split; [congruence | intros []]|].
  destruct (beqb k c) eqn:E.
  - apply beqb_eq in E. subst k. split; [left; reflexivity | discriminate].
  - rewrite IH. split; [right; assumption|]. intros [K|K]; [|exact K].
    apply beqb_neq in E. congruence.
Qed.

Lemma kvs_of_keys_sub m : forall L, NoDup L -> NoDup (map fst (flat_map (kv_of m) L)) /\
  (forall c, In c (map fst (flat_map (kv_of m) L)) -> In c L).
Proof.
  induction L as [|c L IH]; intros H; [split; [constructor | intros ? []]|].
  inversion H as [|? ? Hc HL]; subst. destruct (IH HL) as [IH1 IH2].
  cbn [flat_map]. rewrite map_app. unfold kv_of at 1 3.
  destruct (beqb c opt_end || beqb c opt_pad); cbn [map app].
  { split; [exact IH1 | intros x Hx; right; apply IH2; exact Hx]. }
  destruct (lookup c m); cbn [map app fst].
  - split.
    + constructor; [intros K; apply Hc; apply IH2; exact K | exact IH1].
    + intros x [<-|Hx]; [left; reflexivity | right; apply IH2; exact Hx].
  - split; [exact IH1 | intros x Hx; right; apply IH2; exact Hx].
Qed.

Lemma lookup_kvs_of m c : forall L, good_code c ->
  lookup_kvs c (flat_map (kv_of m) L) = if existsb (beqb c) L then lookup c m else None.
Proof.
  intros L Hc. induction L as [|k L IH]; [reflexivity|].
  cbn [flat_map existsb]. unfold kv_of at 1.
  destruct (beqb c k) eqn:E; cbn [orb].
  - apply beqb_eq in E. subst k. destruct (good_code_beqb c Hc) as [P En]. rewrite P, En. cbn [orb].
    destruct (lookup c m) as [v|] eqn:Lk; cbn [app lookup_kvs].
    + assert (B : beqb c c = true) by (apply beqb_eq; reflexivity). rewrite B. reflexivity.
    + rewrite IH. destruct (existsb (beqb c) L); reflexivity.
  - assert (E' : beqb k c = false) by (apply beqb_neq; apply beqb_neq in E; congruence).
    destruct (beqb k opt_end || beqb k opt_pad); [exact IH|].
    destruct (lookup k m); cbn [app lookup_kvs]; [rewrite E'|]; exact IH.
Qed.

Theorem lookup_decoded m c : NoDup (map fst m) -> good_code c ->
  lookup c (fold_append (kvs_of m) []) = lookup c m.
Proof.
  intros Hnd Hc.
  destruct (kvs_of_keys_sub m (sorted_keys m) (sorted_keys_nodup m Hnd)) as [N _].
  rewrite lookup_fold_append by (auto; reflexivity).
  unfold kvs_of. rewrite lookup_kvs_of by exact Hc.
  destruct (existsb (beqb c) (sorted_keys m)) eqn:E; [reflexivity|].
  destruct (lookup c m) eqn:Lk; [|reflexivity]. exfalso.
  assert (In c (map fst m)) by (apply lookup_in; congruence).
  apply sorted_keys_in in H.
  assert (existsb (beqb c) (sorted_keys m) = true).
  { apply existsb_exists. exists c. split; [exact H | apply beqb_eq; reflexivity]. }
  congruence.
Qed.

Theorem lookup_decoded_bad m c : NoDup (map fst m) -> ~ good_code c ->
  lookup c (fold_append (kvs_of m) []) = None.
Proof.
  intros Hnd Hc.
  destruct (kvs_of_keys_sub m (sorted_keys m) (sorted_keys_nodup m Hnd)) as [N _].
  rewrite lookup_fold_append by (auto; reflexivity).
  pose proof (kvs_of_good m) as G. fold (kvs_of m) in N.
  induction (kvs_of m) as [|[k v] r IH]; [reflexivity|]. cbn [lookup_kvs].
  inversion G as [|? ? Gk Gr]; subst. cbn [fst] in Gk.
  destruct (beqb k c) eqn:E; [apply beqb_eq in E; subst; contradiction|].
  apply IH; [|exact Gr]. cbn [map fst] in N. inversion N. assumption.
Qed.

(** * The round trip *)
Definition decoded_of (p : pkt4) (ci yi si gi : bytes) : pkt4 :=
  mkPkt4 (p_op p) (p_hwtype p) (p_hops p) (p_xid p) (p_secs p) (p_flags p)
         (Some ci) (Some yi) (Some si) (Some gi) (p_chaddr p) (p_sname p) (p_file p)
         (fold_append (kvs_of (p_opts p)) []).

Theorem roundtrip4 p : wf4 p ->
  exists b ci yi si gi,
    ip_wire (p_ciaddr p) = Some ci /\ ip_wire (p_yiaddr p) = Some yi /\
    ip_wire (p_siaddr p) = Some si /\ ip_wire (p_giaddr p) = Some gi /\
    enc4 p = Ok b /\ dec4 b = Ok (decoded_of p ci yi si gi).
Proof.
  intros W. destruct W as [Wop Whw Whops Wxid Wsecs Wflags Wci Wyi Wsi Wgi Wch Wsn Wfl Wkeys Wcodes].
  destruct (ip_wire (p_ciaddr p)) as [ci|] eqn:Eci; [|congruence].
  destruct (ip_wire (p_yiaddr p)) as [yi|] eqn:Eyi; [|congruence].
  destruct (ip_wire (p_siaddr p)) as [si|] eqn:Esi; [|congruence].
  destruct (ip_wire (p_giaddr p)) as [gi|] eqn:Egi; [|congruence].
  unfold enc4.
  rewrite (write_ip_wire _ _ Eci), (write_ip_wire _ _ Eyi), (write_ip_wire _ _ Esi), (write_ip_wire _ _ Egi).
  cbn [bind].
  eexists. exists ci, yi, si, gi. repeat split; try reflexivity.
  unfold pad_to. rewrite <- !app_assoc. cbn [app].
  change (n2b (p_op p) :: n2b (p_hwtype p) :: n2b (N.of_nat (length (p_chaddr p))) :: n2b (p_hops p) :: ?x)
    with ([n2b (p_op p); n2b (p_hwtype p); n2b (N.of_nat (length (p_chaddr p))); n2b (p_hops p)] ++ x).
  rewrite dec4_pieces.
  - rewrite marshal_kvs.
    change (opt_end :: ?z) with (opt_end :: z).
    rewrite opts_from_bytes_kvs by apply kvs_of_good. cbn [bind].
    unfold decoded_of. f_equal. f_equal.
    + apply n2b_small; assumption.
    + apply n2b_small; assumption.
    + apply n2b_small; assumption.
    + rewrite copy_into_fit by lia. rewrite Wxid. cbn. apply app_nil_r.
    + apply n_of_be_be16; assumption.
    + apply n_of_be_be16; assumption.
    + assert (B : bnat (n2b (N.of_nat (length (p_chaddr p)))) = length (p_chaddr p)).
      { unfold bnat. rewrite n2b_small by lia. lia. }
      rewrite B, Nat.min_l by lia. rewrite copy_into_fit by lia.
      rewrite firstn_app, Nat.sub_diag, firstn_all. cbn. apply app_nil_r.
    + rewrite copy_into_fit by lia. apply cut_nul_zeros. tauto.
    + rewrite copy_into_fit by lia. apply cut_nul_zeros. tauto.
  - apply copy_into_length; lia.
  - reflexivity.
  - reflexivity.
  - eapply ip_wire_length; eassumption.
  - eapply ip_wire_length; eassumption.
  - eapply ip_wire_length; eassumption.
  - eapply ip_wire_length; eassumption.
  - apply copy_into_length; lia.
  - apply copy_into_length; lia.
  - apply copy_into_length; lia.
Qed.

Theorem roundtrip4_full : forall p : pkt4, wf4 p ->
  exists b p',
    enc4 p = Ok b /\ dec4 b = Ok p' /\
    p_op p' = p_op p /\ p_hwtype p' = p_hwtype p /\ p_hops p' = p_hops p /\ p_xid p' = p_xid p /\
    p_secs p' = p_secs p /\ p_flags p' = p_flags p /\
    p_ciaddr p' = ip_wire (p_ciaddr p) /\ p_yiaddr p' = ip_wire (p_yiaddr p) /\
    p_siaddr p' = ip_wire (p_siaddr p) /\ p_giaddr p' = ip_wire (p_giaddr p) /\
    p_chaddr p' = p_chaddr p /\ p_sname p' = p_sname p /\ p_file p' = p_file p /\
    forall c, lookup c (p_opts p') = lookup c (p_opts p).
Proof.
  intros p W. destruct (roundtrip4 p W) as (b & ci & yi & si & gi & Eci & Eyi & Esi & Egi & Eb & Ed).
  exists b, (decoded_of p ci yi si gi). rewrite Eci, Eyi, Esi, Egi.
  repeat split; try assumption; try reflexivity.
  intros c. destruct W as [_ _ _ _ _ _ _ _ _ _ _ _ _ Wkeys Wcodes]. cbn [decoded_of p_opts].
  destruct (Byte.byte_eq_dec c opt_pad) as [->|Np]; [|destruct (Byte.byte_eq_dec c opt_end) as [->|Ne]].
  - rewrite lookup_decoded_bad by (auto; intros [K _]; congruence).
    destruct (lookup opt_pad (p_opts p)) eqn:L; [|reflexivity]. exfalso.
    assert (H : In opt_pad (map fst (p_opts p))) by (apply lookup_in; congruence).
    rewrite Forall_forall in Wcodes. destruct (Wcodes _ H) as [K _]. congruence.
  - rewrite lookup_decoded_bad by (auto; intros [_ K]; congruence).
    destruct (lookup opt_end (p_opts p)) eqn:L; [|reflexivity]. exfalso.
    assert (H : In opt_end (map fst (p_opts p))) by (apply lookup_in; congruence).
    rewrite Forall_forall in Wcodes. destruct (Wcodes _ H) as [_ K]. congruence.
  - apply lookup_decoded; [exact Wkeys | split; assumption].
Qed.
