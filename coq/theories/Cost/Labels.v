(** C09 for the domain-name decoder (where the cost defect was): the decoded
    names are bounded by a fixed multiple of the input, and the number of loop
    iterations (each of which touches at most one label of at most 191 octets
    and one name of at most 253) is linear in the input.  No pointer fan,
    unterminated chain or run of empty names can exceed these bounds. *)
From DV Require Import Base.Bytes Label.Model Label.Total Label.Spec.

Definition small (n : bytes) : Prop := length n <= max_name_len.

Lemma fin_small acc l : Forall small acc -> small l -> Forall small (fin acc l).
Proof. intros A L. destruct l; cbn [fin]; [exact A|]. apply Forall_app. split; [exact A | constructor; [exact L | constructor]]. Qed.

Lemma fin_length acc l : length (fin acc l) <= length acc + 1.
Proof. destruct l; cbn [fin]; [lia|]. rewrite app_length. cbn. lia. Qed.

(** * size: every name <= 253 octets, at most one name per input octet (+1) *)
Theorem main_size : forall fuel b pos lbl acc r,
  main fuel b pos lbl acc = Ok r -> pos <= length b -> small lbl -> Forall small acc ->
  Forall small r /\ length r + pos <= length acc + length b + 1.
Proof.
  induction fuel as [|f IH]; intros b pos lbl acc r; cbn [main]; [discriminate|].
  intros H Hp Hl Ha.
  destruct (length b <=? pos) eqn:E.
  { injection H as <-. split; [apply fin_small; assumption|]. pose proof (fin_length acc lbl). apply Nat.leb_le in E. lia. }
  apply Nat.leb_gt in E. destruct (idx_ok b pos E) as (c & Ec & _). rewrite Ec in H.
  destruct (bnat c =? 0) eqn:Z.
  { apply IH in H; [|lia | unfold small, max_name_len; cbn [length]; lia | apply Forall_app; split; [exact Ha | constructor; [exact Hl | constructor]]].
    destruct H as [H1 H2]. split; [exact H1|]. rewrite app_length in H2. cbn in H2. lia. }
  destruct (is_ptr c).
  { destruct (length b <? pos + 1 + 1) eqn:L; [discriminate|]. apply Nat.ltb_ge in L.
    destruct (idx_ok b (pos + 1) ltac:(lia)) as (c2 & Ec2 & _). rewrite Ec2 in H.
    pose proof (exc_sound (S (length b)) b ((bnat c - 192) * 256 + bnat c2) lbl Hl) as X.
    destruct (exc (S (length b)) b _ lbl) as [l|l|e].
    - destruct X as (_ & _ & _ & _ & _ & _ & _ & Hs).
      apply IH in H; [|lia | unfold small, max_name_len; cbn [length]; lia | apply Forall_app; split; [exact Ha | constructor; [exact Hs | constructor]]].
      destruct H as [H1 H2]. split; [exact H1|]. rewrite app_length in H2. cbn in H2. lia.
    - destruct X as (_ & _ & _ & _ & _ & Hs). injection H as <-.
      split; [apply fin_small; assumption|]. pose proof (fin_length acc l). lia.
    - destruct e; discriminate. }
  destruct (length b <? pos + 1 + bnat c) eqn:L; [discriminate|]. apply Nat.ltb_ge in L.
  rewrite sub_ok in H by lia.
  destruct (max_name_len <? length (join lbl (slice b (pos + 1) (bnat c)))) eqn:C; [discriminate|]. apply Nat.ltb_ge in C.
  apply IH in H; [|lia | exact C | exact Ha]. destruct H as [H1 H2]. split; [exact H1 | lia].
Qed.

Theorem labels_size b ns : labels_from_bytes b = Ok ns ->
  Forall (fun n => length n <= 253) ns /\ length ns <= length b + 1.
Proof.
  intros H. apply main_size in H; [|lia | unfold small, max_name_len; cbn [length]; lia | constructor].
  destruct H as [H1 H2]. split; [exact H1 | cbn in H2; lia].
Qed.

Fixpoint total_len (ns : list bytes) : nat := match ns with [] => 0 | n :: r => length n + total_len r end.

Corollary labels_total_size b ns : labels_from_bytes b = Ok ns -> total_len ns <= 253 * (length b + 1).
Proof.
  intros H. destruct (labels_size b ns H) as [F L].
  assert (G : total_len ns <= 253 * length ns).
  { clear -F. induction F as [|n r Hn F IH]; cbn [total_len length]; lia. }
  nia.
Qed.

(** * work: loop iterations *)
Fixpoint exc_steps (fuel : nat) (b : bytes) (pos : nat) (lbl : bytes) : nat :=
  match fuel with
  | O => 0
  | S f =>
    if length b <=? pos then 1
    else match idx b pos with
    | Ok c =>
      let n := bnat c in
      if n =? 0 then 1
      else if is_ptr c then 1
      else if length b <? pos + 1 + n then 1
      else match sub b (pos + 1) n with
           | Ok chunk =>
             let lbl' := join lbl chunk in
             if max_name_len <? length lbl' then 1 else S (exc_steps f b (pos + 1 + n) lbl')
           | _ => 1
           end
    | _ => 1
    end
  end.

(** every iteration of a pointer excursion lengthens the name: at most 255 iterations per pointer *)
Lemma exc_steps_bound : forall fuel b pos lbl, small lbl -> exc_steps fuel b pos lbl + length lbl <= 255.
Proof.
  induction fuel as [|f IH]; intros b pos lbl Hl; cbn [exc_steps]; unfold small, max_name_len in *; [lia|].
  destruct (length b <=? pos); [lia|].
  destruct (idx b pos) as [c| | |]; try lia.
  destruct (bnat c =? 0) eqn:Z; [lia|]. apply Nat.eqb_neq in Z.
  destruct (is_ptr c); [lia|].
  destruct (length b <? pos + 1 + bnat c) eqn:L; [lia|]. apply Nat.ltb_ge in L.
  rewrite sub_ok by lia.
  destruct (253 <? length (join lbl (slice b (pos + 1) (bnat c)))) eqn:C; [lia|]. apply Nat.ltb_ge in C.
  specialize (IH b (pos + 1 + bnat c) (join lbl (slice b (pos + 1) (bnat c))) C).
  assert (G : length lbl + 1 <= length (join lbl (slice b (pos + 1) (bnat c)))).
  { pose proof (slice_length b (pos + 1) (bnat c) ltac:(lia)) as SL.
    destruct lbl; cbn [join]; [cbn; lia|]. rewrite app_length. cbn. lia. }
  lia.
Qed.

Fixpoint main_steps (fuel : nat) (b : bytes) (pos : nat) (lbl : bytes) : nat :=
  match fuel with
  | O => 0
  | S f =>
    if length b <=? pos then 1
    else match idx b pos with
    | Ok c =>
      let n := bnat c in
      if n =? 0 then S (main_steps f b (pos + 1) [])
      else if is_ptr c then
        if length b <? pos + 1 + 1 then 1
        else match idx b (pos + 1) with
        | Ok c2 =>
          let off := (n - 192) * 256 + bnat c2 in
          1 + exc_steps (S (length b)) b off lbl +
          match exc (S (length b)) b off lbl with
          | ExcBack _ => main_steps f b (pos + 2) []
          | _ => 0
          end
        | _ => 1
        end
      else if length b <? pos + 1 + n then 1
      else match sub b (pos + 1) n with
           | Ok chunk =>
             let lbl' := join lbl chunk in
             if max_name_len <? length lbl' then 1 else S (main_steps f b (pos + 1 + n) lbl')
           | _ => 1
           end
    | _ => 1
    end
  end.

(** total iterations (main loop plus all pointer excursions): at most 257 per input octet *)
Theorem main_steps_bound : forall fuel b pos lbl, pos <= length b -> small lbl ->
  main_steps fuel b pos lbl <= 257 * (length b - pos) + 1.
Proof.
  induction fuel as [|f IH]; intros b pos lbl Hp Hl; cbn [main_steps]; [lia|].
  destruct (length b <=? pos) eqn:E; [lia|]. apply Nat.leb_gt in E.
  destruct (idx b pos) as [c| | |]; try lia.
  destruct (bnat c =? 0) eqn:Z.
  { specialize (IH b (pos + 1) [] ltac:(lia) ltac:(unfold small, max_name_len; cbn [length]; lia)). lia. }
  apply Nat.eqb_neq in Z.
  destruct (is_ptr c).
  { destruct (length b <? pos + 1 + 1) eqn:L; [lia|]. apply Nat.ltb_ge in L.
    destruct (idx b (pos + 1)) as [c2| | |]; try lia.
    pose proof (exc_steps_bound (S (length b)) b ((bnat c - 192) * 256 + bnat c2) lbl Hl) as X.
    destruct (exc (S (length b)) b _ lbl); try lia.
    specialize (IH b (pos + 2) [] ltac:(lia) ltac:(unfold small, max_name_len; cbn [length]; lia)). lia. }
  destruct (length b <? pos + 1 + bnat c) eqn:L; [lia|]. apply Nat.ltb_ge in L.
  rewrite sub_ok by lia.
  destruct (max_name_len <? length (join lbl (slice b (pos + 1) (bnat c)))) eqn:C; [lia|]. apply Nat.ltb_ge in C.
  specialize (IH b (pos + 1 + bnat c) _ ltac:(lia) C). lia.
Qed.

Corollary labels_work b : main_steps (S (length b)) b 0 [] <= 257 * length b + 1.
Proof.
  pose proof (main_steps_bound (S (length b)) b 0 [] ltac:(lia) ltac:(unfold small, max_name_len; cbn [length]; lia)). lia.
Qed.
