package main

// probe: measures, by running the library, the tables and constants that tools/gen normally reads from the
// source text (dispatch tables, limits, framing constants).  tools/gen falls back on these measurements for an
// item whose source shape it no longer recognises (a renamed unexported constant, a table-driven ParseOption):
// the value that reaches Gen/Tables.v is then what the code does, not what a declaration says.

import (
	"encoding/json"
	"os"
	"reflect"

	"github.com/insomniacslk/dhcp/dhcpv4"
	"github.com/insomniacslk/dhcp/dhcpv6"
	"github.com/insomniacslk/dhcp/rfc1035label"
)

func quiet(f func()) {
	defer func() { _ = recover() }()
	f()
}

func probeAll() map[string]interface{} {
	out := map[string]interface{}{}

	// dhcpv6.ParseOption: codes decoded by a dedicated type
	{
		var codes []int
		generic := reflect.TypeOf(&dhcpv6.OptionGeneric{})
		payloads := [][]byte{nil, make([]byte, 2), make([]byte, 4), make([]byte, 12), make([]byte, 16), make([]byte, 24), make([]byte, 25), make([]byte, 40), make([]byte, 240 + 5)}
		for c := 0; c < 65536; c++ {
			var t reflect.Type
			for _, p := range payloads {
				quiet(func() {
					if o, _ := dhcpv6.ParseOption(dhcpv6.OptionCode(c), p); o != nil {
						t = reflect.TypeOf(o)
					}
				})
				if t != nil {
					break
				}
			}
			if t != nil && t != generic {
				codes = append(codes, c)
			}
		}
		out["v6_parse_option_codes"] = codes
	}
	// NTP sub-options decoded by a dedicated type
	{
		var codes []int
		generic := reflect.TypeOf(&dhcpv6.OptionGeneric{})
		for c := 0; c < 65536; c++ {
			quiet(func() {
				var o dhcpv6.OptNTPServer
				if err := o.FromBytes(tlvb(uint16(c), make([]byte, 16))); err == nil && len(o.Suboptions) == 1 {
					if reflect.TypeOf(o.Suboptions[0]) != generic {
						codes = append(codes, c)
					}
				}
			})
		}
		out["v6_ntp_suboption_codes"] = codes
	}
	// relay message types and the relay header size
	{
		var types []int
		for t := 0; t < 256; t++ {
			b := make([]byte, 34)
			b[0] = byte(t)
			quiet(func() {
				if m, err := dhcpv6.FromBytes(b); err == nil {
					if _, ok := m.(*dhcpv6.RelayMessage); ok {
						types = append(types, t)
					}
				}
			})
		}
		out["v6_relay_types"] = types
		if len(types) > 0 {
			for n := 0; n <= 64; n++ {
				b := make([]byte, n)
				if n > 0 {
					b[0] = byte(types[0])
				}
				ok := false
				quiet(func() { _, err := dhcpv6.FromBytes(b); ok = err == nil })
				if ok {
					out["v6_relay_header_size"] = n
					break
				}
			}
		}
	}
	// DUID types decoded by a dedicated type
	{
		var types []int
		opaque := reflect.TypeOf(&dhcpv6.DUIDOpaque{})
		for t := 0; t < 65536; t++ {
			quiet(func() {
				if d, err := dhcpv6.DUIDFromBytes(append([]byte{byte(t >> 8), byte(t)}, make([]byte, 16)...)); err == nil && reflect.TypeOf(d) != opaque {
					types = append(types, t)
				}
			})
		}
		out["v6_duid_types"] = types
	}
	// DHCPv4: cookie, minimum lengths, framing codes
	{
		var enc []byte
		quiet(func() {
			p, err := dhcpv4.New()
			if err == nil {
				p.Options = dhcpv4.Options{}
				enc = p.ToBytes()
			}
		})
		if len(enc) >= 240 {
			out["v4_bootp_min_len"] = len(enc)
			out["v4_magic_cookie"] = []int{int(enc[236]), int(enc[237]), int(enc[238]), int(enc[239])}
			cookie := enc[236:240]
			// End: the one code that, alone after the cookie, makes the packet acceptable
			end := -1
			for c := 0; c < 256; c++ {
				b := append(append(make([]byte, 236), cookie...), byte(c))
				ok := false
				quiet(func() {
					p, err := dhcpv4.FromBytes(b)
					ok = err == nil && len(p.Options) == 0
				})
				if ok && c != 0 {
					end = c
				}
			}
			if end >= 0 {
				out["v4_opt_end"] = end
				// Pad: the code that may precede End without a length octet and leaves no option behind
				for c := 0; c < 256; c++ {
					if c == end {
						continue
					}
					b := append(append(make([]byte, 236), cookie...), byte(c), byte(end))
					ok := false
					quiet(func() {
						p, err := dhcpv4.FromBytes(b)
						ok = err == nil && len(p.Options) == 0
					})
					if ok {
						out["v4_opt_pad"] = c
						break
					}
				}
				// shortest acceptable packet = header + cookie (then End); the header length follows
				for n := 0; n <= 300; n++ {
					b := make([]byte, n)
					if n >= 240 {
						copy(b[236:], cookie)
					}
					b = append(b, byte(end))
					ok := false
					quiet(func() { _, err := dhcpv4.FromBytes(b); ok = err == nil })
					if ok {
						out["v4_min_packet_len"] = n - 4
						break
					}
				}
			}
			// the option written last, just before End
			quiet(func() {
				p, _ := dhcpv4.New()
				p.Options = dhcpv4.Options{}
				for c := 1; c < 255; c++ {
					p.Options[uint8(c)] = []byte{7}
				}
				e := p.ToBytes()
				// walk the option area
				last := -1
				for i := 240; i+1 < len(e); {
					c := int(e[i])
					if c == end {
						break
					}
					if v, ok := out["v4_opt_pad"]; ok && c == v.(int) {
						i++
						continue
					}
					last = c
					i += 2 + int(e[i+1])
				}
				if last >= 0 {
					out["v4_opt_agent_info"] = last
				}
			})
			// hardware address clamp
			quiet(func() {
				b := append(append(make([]byte, 236), cookie...), byte(end))
				b[2] = 255
				if p, err := dhcpv4.FromBytes(b); err == nil {
					out["v4_max_hwaddr_len"] = len(p.ClientHWAddr)
				}
			})
		}
		out["v4_max_message_size"] = dhcpv4.MaxMessageSize
	}
	// longest acceptable domain name (dotted form)
	{
		best := -1
		for l := 1; l <= 400; l++ {
			// labels of 63 octets, the last one shorter: dotted length exactly l
			var w []byte
			rem := l
			for rem > 0 {
				k := rem
				if k > 63 {
					k = 63
				}
				if rem-k == 1 { // would leave a lone dot
					k--
				}
				w = append(w, byte(k))
				w = append(w, make([]byte, k)...)
				for i := len(w) - k; i < len(w); i++ {
					w[i] = 'a'
				}
				rem -= k
				if rem > 0 {
					rem--
				}
			}
			w = append(w, 0)
			ok := false
			quiet(func() {
				ls, err := rfc1035label.FromBytes(w)
				ok = err == nil && len(ls.Labels) == 1 && len(ls.Labels[0]) == l
			})
			if ok {
				best = l
			}
		}
		out["label_max_name_len"] = best
	}
	return out
}

func runProbe(path string) error {
	b, err := json.MarshalIndent(probeAll(), "", " ")
	if err != nil {
		return err
	}
	return os.WriteFile(path, b, 0o644)
}
