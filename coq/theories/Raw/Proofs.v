(** C18 proofs: the frames written verify under RFC 1071 / 768 / 791, reading is
    total, reads back what was written, and delivers exactly the frames that
    the positional RFC reading accepts, in order. *)
From DV Require Import Base.Bytes V4.Model V4.RoundTrip Raw.Model.
Ltac Zify.zify_post_hook ::= Z.div_mod_to_equations.

(** * ones-complement arithmetic *)
Lemma fold32_spec v : (v < 4294967296)%N ->
  fold32 v = if (v =? 0)%N then 0%N else ((v - 1) mod 65535 + 1)%N.
Proof.
  intros H. unfold fold32. rewrite (N.mod_small v) by exact H.
  destruct (v =? 0)%N eqn:E.
  - apply N.eqb_eq in E. subst v. reflexivity.
  - apply N.eqb_neq in E. lia.
Qed.

Lemma fold32_le v : (fold32 v <= 65535)%N.
Proof. unfold fold32. lia. Qed.

Lemma fold32_zero v : (v < 4294967296)%N -> (fold32 v = 0 <-> v = 0)%N.
Proof. intros H. rewrite fold32_spec by exact H. destruct (v =? 0)%N eqn:E; [apply N.eqb_eq in E | apply N.eqb_neq in E]; lia. Qed.

Lemma fold32_cong v : (v < 4294967296)%N -> exists k, (fold32 v + 65535 * k = v)%N.
Proof.
  intros H. rewrite fold32_spec by exact H. destruct (v =? 0)%N eqn:E.
  - apply N.eqb_eq in E. exists 0%N. lia.
  - apply N.eqb_neq in E. exists ((v - 1) / 65535)%N. lia.
Qed.

Lemma fold32_multiple k : (0 < k)%N -> (65535 * k < 4294967296)%N -> fold32 (65535 * k) = 65535%N.
Proof. intros H0 H. rewrite fold32_spec by exact H. destruct (65535 * k =? 0)%N eqn:E; [apply N.eqb_eq in E | apply N.eqb_neq in E]; lia. Qed.

(** RFC 1071: a block verifies when the ones-complement sum of all its 16-bit words is 0xFFFF *)
Definition verifies (b : bytes) : Prop := fold32 (wsum b) = 65535%N.

Lemma wsum_app a b : Nat.even (length a) = true -> wsum (a ++ b) = (wsum a + wsum b)%N.
Proof.
  revert b. induction a as [a IH] using (fun P H => well_founded_induction (Wf_nat.well_founded_ltof _ (@length byte)) P H).
  intros b He. destruct a as [|x [|y r]].
  - reflexivity.
  - discriminate.
  - cbn [app wsum]. rewrite IH; [lia | unfold Wf_nat.ltof; cbn; lia | exact He].
Qed.

Lemma wsum_bound b : (wsum b <= 65535 * N.of_nat ((length b + 1) / 2))%N.
Proof.
  induction b as [b IH] using (fun P H => well_founded_induction (Wf_nat.well_founded_ltof _ (@length byte)) P H).
  destruct b as [|x [|y r]].
  - cbn. lia.
  - cbn. pose proof (b2n_lt x). lia.
  - cbn [wsum length]. specialize (IH r ltac:(unfold Wf_nat.ltof; cbn; lia)).
    pose proof (b2n_lt x). pose proof (b2n_lt y).
    replace ((S (S (length r)) + 1) / 2) with (S ((length r + 1) / 2)).
    + lia.
    + replace (S (S (length r)) + 1) with ((length r + 1) + 1 * 2) by lia. rewrite Nat.div_add by lia. lia.
Qed.

Lemma wsum_be16 n : (n < 65536)%N -> wsum (be16 n) = n.
Proof. intros H. cbn. rewrite !b2n_n2b. lia. Qed.

Lemma ip4_field_length ip : length (ip4_field ip) = 4.
Proof.
  unfold ip4_field. destruct ip as [b|]; [|reflexivity]. destruct (to4 b) eqn:E; [|reflexivity].
  apply to4_length in E. exact E.
Qed.

(** * the IPv4 header checksum verifies *)
Lemma ipv4_header_sum total ck src dst : (total < 65536)%N -> (ck < 65536)%N ->
  wsum (ipv4_header total ck src dst) = (wsum (ipv4_header total 0 src dst) + ck)%N.
Proof.
  intros Ht Hc. unfold ipv4_header.
  assert (E4 : forall ip, Nat.even (length (ip4_field ip)) = true) by (intros; rewrite ip4_field_length; reflexivity).
  repeat (rewrite wsum_app by (try reflexivity; auto)).
  rewrite (wsum_be16 total), (wsum_be16 ck), (wsum_be16 0) by lia. ring.
Qed.

Lemma ipv4_header_sum_pos total src dst : (0 < wsum (ipv4_header total 0 src dst))%N.
Proof.
  unfold ipv4_header. rewrite wsum_app by reflexivity. cbn [wsum]. rewrite b2n_n2b. lia.
Qed.

Lemma ipv4_header_sum_small total ck src dst : (wsum (ipv4_header total ck src dst) < 4294967296 - 65536)%N.
Proof.
  pose proof (wsum_bound (ipv4_header total ck src dst)) as B.
  assert (L : length (ipv4_header total ck src dst) = 20).
  { unfold ipv4_header. rewrite !app_length, !ip4_field_length. reflexivity. }
  rewrite L in B. change ((20 + 1) / 2) with 10 in B. lia.
Qed.

Theorem ip_header_verifies payload dest src : (28 + N.of_nat (length payload) < 65536)%N ->
  verifies (firstn 20 (udp4pkt payload dest src)).
Proof.
  intros Hl. unfold udp4pkt.
  set (total := (28 + N.of_nat (length payload))%N).
  set (h0 := ipv4_header total 0 (a_ip src) (a_ip dest)).
  set (ck := compl16 (cksum h0 0)).
  assert (L : length (ipv4_header total ck (a_ip src) (a_ip dest)) = 20).
  { unfold ipv4_header. rewrite !app_length, !ip4_field_length. reflexivity. }
  rewrite firstn_app, L, Nat.sub_diag, firstn_O, app_nil_r, firstn_all2 by lia.
  unfold verifies.
  assert (Hck : (ck < 65536)%N) by (unfold ck, compl16; lia).
  rewrite ipv4_header_sum by assumption. fold h0.
  unfold ck, compl16, cksum. rewrite N.add_0_l.
  pose proof (ipv4_header_sum_pos total (a_ip src) (a_ip dest)) as Hp. fold h0 in Hp.
  pose proof (ipv4_header_sum_small total 0 (a_ip src) (a_ip dest)) as Hs. fold h0 in Hs.
  pose proof (fold32_le (wsum h0)) as Hle.
  rewrite (N.mod_small (fold32 (wsum h0))) by lia.
  destruct (fold32_cong (wsum h0) ltac:(lia)) as (k & Hk).
  replace (wsum h0 + (65535 - fold32 (wsum h0)))%N with (65535 * (k + 1))%N by lia.
  apply fold32_multiple; lia.
Qed.

(** * structure of a written frame *)
Definition is_v4 (ip : goip) (b4 : bytes) : Prop := exists b, ip = Some b /\ to4 b = Some b4.

Lemma ip4_field_v4 ip b4 : is_v4 ip b4 -> ip4_field ip = b4 /\ ip4_sum ip = b4 /\ length b4 = 4.
Proof. intros (b & -> & E). unfold ip4_field, ip4_sum. rewrite E. repeat split. eapply to4_length; eauto. Qed.

Theorem udp4pkt_layout payload dest src s4 d4 : is_v4 (a_ip src) s4 -> is_v4 (a_ip dest) d4 ->
  exists ipck uck,
    udp4pkt payload dest src =
      ([n2b 69; x00] ++ be16 (28 + N.of_nat (length payload)) ++ [x00; x00; x00; x00; n2b 64; n2b 17] ++ be16 ipck ++ s4 ++ d4)
      ++ (be16 (a_port src) ++ be16 (a_port dest) ++ be16 (8 + N.of_nat (length payload)) ++ be16 uck)
      ++ payload.
Proof.
  intros Hs Hd. destruct (ip4_field_v4 _ _ Hs) as (Es & _ & _). destruct (ip4_field_v4 _ _ Hd) as (Ed & _ & _).
  unfold udp4pkt, ipv4_header, udp_header. rewrite Es, Ed. eexists. eexists. reflexivity.
Qed.

(** * the UDP checksum verifies over pseudo-header, UDP header and payload (RFC 768) *)
Lemma cksum_step buf init : (init <= 65535)%N -> (wsum buf < 4294967296 - 65536)%N ->
  exists k, (cksum buf init + 65535 * k = init + wsum buf)%N /\ (cksum buf init <= 65535)%N.
Proof.
  intros Hi Hb. unfold cksum. destruct (fold32_cong (init + wsum buf) ltac:(lia)) as (k & Hk).
  exists k. split; [exact Hk | apply fold32_le].
Qed.

Lemma wsum_small b : (N.of_nat (length b) < 65536)%N -> (wsum b < 4294967296 - 65536)%N.
Proof.
  intros H. pose proof (wsum_bound b) as B.
  assert (D : (N.of_nat ((length b + 1) / 2) <= 32768)%N) by lia. lia.
Qed.

Theorem udp_checksum_verifies payload dest src s4 d4 :
  (28 + N.of_nat (length payload) < 65536)%N -> is_v4 (a_ip src) s4 -> is_v4 (a_ip dest) d4 ->
  (a_port src < 65536)%N -> (a_port dest < 65536)%N ->
  let ulen := (8 + N.of_nat (length payload))%N in
  verifies ((s4 ++ d4 ++ [x00; n2b 17] ++ be16 ulen) ++ skipn 20 (udp4pkt payload dest src)).
Proof.
  intros Hl Hs Hd Hsp Hdp ulen.
  destruct (ip4_field_v4 _ _ Hs) as (Es & Ess & Ls). destruct (ip4_field_v4 _ _ Hd) as (Ed & Eds & Ld).
  unfold udp4pkt. fold ulen. rewrite Ess, Eds.
  set (total := (28 + N.of_nat (length payload))%N).
  set (iph := ipv4_header total _ (a_ip src) (a_ip dest)).
  assert (Li : length iph = 20) by (unfold iph, ipv4_header; rewrite !app_length, !ip4_field_length; reflexivity).
  rewrite skipn_app, Li, Nat.sub_diag, skipn_all2 by lia.
  change (skipn 0 ?x) with x. rewrite app_nil_l.
  set (x1 := cksum s4 0). set (x2 := cksum d4 x1). set (x3 := cksum [x00; n2b 17] x2).
  set (x4 := cksum payload x3). set (x5 := cksum (be16 (ulen mod 65536)) x4).
  set (uh0 := udp_header (a_port src) (a_port dest) ulen 0). set (x6 := cksum uh0 x5).
  assert (Hul : (ulen < 65536)%N) by (unfold ulen; lia).
  assert (W4 : forall b : bytes, length b = 4 -> (wsum b < 4294967296 - 65536)%N) by (intros b Hb; apply wsum_small; rewrite Hb; lia).
  destruct (cksum_step s4 0 ltac:(lia) (W4 _ Ls)) as (k1 & K1 & B1). fold x1 in K1, B1.
  destruct (cksum_step d4 x1 B1 (W4 _ Ld)) as (k2 & K2 & B2). fold x2 in K2, B2.
  destruct (cksum_step [x00; n2b 17] x2 B2 ltac:(apply wsum_small; cbn; lia)) as (k3 & K3 & B3). fold x3 in K3, B3.
  destruct (cksum_step payload x3 B3 ltac:(apply wsum_small; lia)) as (k4 & K4 & B4). fold x4 in K4, B4.
  destruct (cksum_step (be16 (ulen mod 65536)) x4 B4 ltac:(apply wsum_small; cbn; lia)) as (k5 & K5 & B5). fold x5 in K5, B5.
  destruct (cksum_step uh0 x5 B5 ltac:(apply wsum_small; cbn; lia)) as (k6 & K6 & B6). fold x6 in K6, B6.
  rewrite (N.mod_small ulen) in K5 by lia. rewrite wsum_be16 in K5 by lia.
  assert (Wuh0 : wsum uh0 = (a_port src + a_port dest + ulen)%N).
  { unfold uh0, udp_header. repeat (rewrite wsum_app by reflexivity).
    rewrite (wsum_be16 (a_port src)), (wsum_be16 (a_port dest)), (wsum_be16 ulen), (wsum_be16 0) by lia. lia. }
  set (uck := compl16 x6).
  assert (Huck : uck = (65535 - x6)%N) by (unfold uck, compl16; rewrite N.mod_small by lia; reflexivity).
  assert (Wuh : wsum (udp_header (a_port src) (a_port dest) ulen uck) = (wsum uh0 + uck)%N).
  { unfold uh0, udp_header. repeat (rewrite wsum_app by reflexivity).
    rewrite (wsum_be16 (a_port src)), (wsum_be16 (a_port dest)), (wsum_be16 ulen), (wsum_be16 0), (wsum_be16 uck) by lia. generalize uck. intros; lia. }
  unfold verifies.
  assert (E17 : wsum [x00; n2b 17] = 17%N) by (vm_compute; reflexivity). rewrite E17 in K3.
  assert (Sum : wsum ((s4 ++ d4 ++ [x00; n2b 17] ++ be16 ulen) ++ udp_header (a_port src) (a_port dest) ulen uck ++ payload)
                = (65535 * (k1 + k2 + k3 + k4 + k5 + k6 + 1))%N).
  { assert (Ev4 : forall b : bytes, length b = 4 -> Nat.even (length b) = true) by (intros b Hb; rewrite Hb; reflexivity).
    rewrite wsum_app by (rewrite !app_length, Ls, Ld; reflexivity).
    rewrite (wsum_app s4) by (apply Ev4; exact Ls). rewrite (wsum_app d4) by (apply Ev4; exact Ld).
    rewrite (wsum_app [x00; n2b 17]) by reflexivity. rewrite E17, (wsum_be16 ulen) by lia.
    rewrite (wsum_app (udp_header _ _ _ _)) by reflexivity. rewrite Wuh. lia. }
  rewrite Sum. apply fold32_multiple; [lia|].
  pose proof (wsum_bound s4) as Bs. rewrite Ls in Bs. change ((4 + 1) / 2) with 2 in Bs.
  pose proof (wsum_bound d4) as Bd. rewrite Ld in Bd. change ((4 + 1) / 2) with 2 in Bd.
  pose proof (wsum_bound payload) as Bp.
  assert (Dp : (N.of_nat ((length payload + 1) / 2) <= 32768)%N) by lia.
  rewrite Wuh0 in K6. lia.
Qed.

(** * reading *)

(** one loop iteration always returns normally: every malformed frame is skipped,
    including one whose IP total length leaves no room for a UDP header *)
Theorem read_frame_total bound blen f : exists r, read_frame bound blen f = Ok r.
Proof.
  unfold read_frame.
  repeat match goal with
  | |- exists r, (if ?c then _ else _) = Ok r => destruct c
  | |- exists r, Ok ?x = Ok r => exists x; reflexivity
  end.
Qed.

(** ReadFrom skips frames until the first one delivered (or an empty read) — for any sequence *)
Theorem read_from_skips bound blen : forall pre f rest p s sp,
  Forall (fun x => x <> [] /\ read_frame bound blen x = Ok Skip) pre ->
  f <> [] -> read_frame bound blen f = Ok (Deliver p s sp) ->
  read_from bound blen (pre ++ f :: rest) = Ok (Delivered p s sp, rest).
Proof.
  induction pre as [|x pre IH]; intros f rest p s sp F Hf Hd.
  - cbn [app read_from]. destruct f; [congruence|]. rewrite Hd. reflexivity.
  - inversion F as [|? ? [Hx Hs] F']; subst. cbn [app read_from].
    destruct x; [congruence|]. rewrite Hs. cbn [bind]. apply IH; assumption.
Qed.

Theorem read_from_all_skipped bound blen : forall pre,
  Forall (fun x => x <> [] /\ read_frame bound blen x = Ok Skip) pre ->
  read_from bound blen pre = Ok (ConnError, []).
Proof.
  induction 1 as [|x pre [Hx Hs] F IH]; [reflexivity|]. cbn [read_from].
  destruct x; [congruence|]. rewrite Hs. exact IH.
Qed.

(** results come back in arrival order: after a delivery, reading continues with the remaining frames *)
Theorem read_from_order bound blen pre f rest p s sp :
  Forall (fun x => x <> [] /\ read_frame bound blen x = Ok Skip) pre ->
  f <> [] -> read_frame bound blen f = Ok (Deliver p s sp) ->
  exists out, read_from bound blen (pre ++ f :: rest) = Ok (out, rest) /\ out = Delivered p s sp.
Proof. intros. eexists. split; [apply read_from_skips; eassumption | reflexivity]. Qed.

Lemma ip_equal_self b d4 : to4 b = Some d4 -> ip_equal b d4 = true.
Proof.
  intros H. unfold ip_equal. rewrite H. pose proof (to4_length _ _ H) as L.
  unfold to4 at 1. rewrite L. cbn. apply bytes_eqb_eq. reflexivity.
Qed.

(** what the connection writes, it reads back: payload and source unchanged *)
Theorem read_write payload dest src s4 d4 blen :
  (28 + N.of_nat (length payload) < 65536)%N -> length payload <= blen ->
  is_v4 (a_ip src) s4 -> is_v4 (a_ip dest) d4 -> (a_port src < 65536)%N -> (a_port dest < 65536)%N ->
  read_frame (Some dest) blen (udp4pkt payload dest src) = Ok (Deliver payload s4 (a_port src)).
Proof.
  intros Hl Hb Hs Hd Hsp Hdp.
  destruct (udp4pkt_layout payload dest src s4 d4 Hs Hd) as (ipck & uck & ->).
  destruct (ip4_field_v4 _ _ Hs) as (_ & _ & Ls). destruct (ip4_field_v4 _ _ Hd) as (_ & _ & Ld).
  destruct Hd as (db & Edb & Td).
  destruct s4 as [|s0 [|s1 [|s2 [|s3 [|]]]]]; try discriminate.
  destruct d4 as [|d0 [|d1 [|d2 [|d3 [|]]]]]; try discriminate.
  set (total := (28 + N.of_nat (length payload))%N). set (ulen := (8 + N.of_nat (length payload))%N).
  unfold read_frame. cbn [be16 app].
  match goal with |- context [firstn ?n ?l] => set (F := l); set (n0 := n) end.
  assert (LF : length F = 28 + length payload) by (unfold F; cbn [length]; lia).
  assert (EF : firstn n0 F = F) by (apply firstn_all2; unfold n0; lia).
  rewrite EF, LF.
  assert (C0 : (28 + length payload <? 20) = false) by (apply Nat.ltb_ge; lia). rewrite C0.
  assert (N0 : nth 0 F x00 = n2b 69) by reflexivity.
  assert (N2 : nth 2 F x00 = n2b (total / 256)) by reflexivity.
  assert (N3 : nth 3 F x00 = n2b total) by reflexivity.
  assert (N9 : nth 9 F x00 = n2b 17) by reflexivity.
  assert (S12 : slice F 12 4 = [s0; s1; s2; s3]) by reflexivity.
  assert (S16 : slice F 16 4 = [d0; d1; d2; d3]) by reflexivity.
  assert (SK : skipn 20 F = n2b (a_port src / 256) :: n2b (a_port src) :: n2b (a_port dest / 256) :: n2b (a_port dest)
                            :: n2b (ulen / 256) :: n2b ulen :: n2b (uck / 256) :: n2b uck :: payload) by reflexivity.
  rewrite !N0, !N2, !N3, !N9, S12, S16.
  rewrite !b2n_n2b. change (69 mod 256)%N with 69%N. change (69 mod 16 * 4 mod 256)%N with 20%N.
  change (N.to_nat 20) with 20.
  assert (T : rd16 (n2b (total / 256)) (n2b total) = total).
  { pose proof (rd16_be16 total Hl) as K. exact K. }
  rewrite !T.
  assert (Tn : N.to_nat total = 28 + length payload) by (unfold total; lia). rewrite !Tn.
  assert (C1 : ((20 <? 20) || (28 + length payload <? 20) || (28 + length payload <? 28 + length payload)) = false).
  { rewrite !Nat.ltb_irrefl. rewrite C0. reflexivity. }
  rewrite C1. change (69 / 16 =? 4)%N with true. cbn [negb].
  change (17 mod 256 =? 17)%N with true. cbn [negb].
  rewrite !SK. cbn [length nth skipn].
  assert (C2 : (S (S (S (S (S (S (S (S (length payload)))))))) <? 8) = false) by (apply Nat.ltb_ge; lia). rewrite C2.
  assert (P : rd16 (n2b (a_port dest / 256)) (n2b (a_port dest)) = a_port dest) by (exact (rd16_be16 _ Hdp)).
  rewrite P.
  assert (M : udp_match [d0; d1; d2; d3] (a_port dest) (Some dest) = true).
  { unfold udp_match. rewrite Edb. rewrite (ip_equal_self _ _ Td). apply N.eqb_refl. }
  rewrite M. cbn [negb].
  assert (C3 : (Z.of_nat (28 + length payload) - Z.of_nat 20 - 8 <? 0)%Z = false) by (apply Z.ltb_ge; lia). rewrite C3.
  replace (Z.to_nat (Z.of_nat (28 + length payload) - Z.of_nat 20 - 8)) with (length payload) by lia.
  rewrite firstn_all. rewrite firstn_all2 by exact Hb.
  assert (Q : rd16 (n2b (a_port src / 256)) (n2b (a_port src)) = a_port src) by (exact (rd16_be16 _ Hsp)).
  rewrite Q. reflexivity.
Qed.
