(** C12 — Retransmission follows the configured schedule exactly. *)
From Coq Require Import List ZArith Lia Bool.
Import ListNotations.
From DV Require Import Client.Call.
Local Open Scope Z_scope.

(** With no acceptable response — silence OR ANY stream of datagrams the
    matcher rejects — a call configured with timeout T and n tries transmits
    exactly n times at offsets T(2^k - 1) and fails with the no-response error
    at T(2^n - 1); n = 0 transmits nothing and fails immediately. *)
Theorem C12_schedule : forall (n : nat) (s tau : Z) (ds : deliveries), all_rejected ds ->
  run_call false n s tau None None ds = mkResult (sched n s tau) NoResponse (endt n s tau).
Proof. exact schedule_no_response. Qed.
Print Assumptions C12_schedule.

Theorem C12_offsets : forall n s tau k, (k < n)%nat -> nth k (sched n s tau) 0 = s + tau * (2 ^ (Z.of_nat k) - 1).
Proof. exact sched_nth. Qed.
Print Assumptions C12_offsets.
Theorem C12_failure_instant : forall n s tau, endt n s tau = s + tau * (2 ^ (Z.of_nat n) - 1).
Proof. exact endt_closed. Qed.
Print Assumptions C12_failure_instant.

(** a negative try count retries until cancelled: for every k the first k transmissions follow the schedule *)
Theorem C12_unbounded_tries : forall k m s tau ds, all_rejected ds ->
  firstn k (transmissions (run_call false (k + m) s tau None None ds)) = sched k s tau.
Proof. exact schedule_prefix. Qed.
Print Assumptions C12_unbounded_tries.

(** a response accepted during try k ends the call and no further transmission follows *)
Theorem C12_accepted_ends : forall n s tau cancel close ds,
  result (run_call false n s tau cancel close ds) = Got ->
  exists k, (k < n)%nat /\ length (transmissions (run_call false n s tau cancel close ds)) = S k.
Proof. exact accepted_ends_call. Qed.
Print Assumptions C12_accepted_ends.

(** for EVERY delivery stream — accepted or rejected datagrams in any order — and every instant at which the
    context ends or the client is closed, the transmissions of a call are an initial segment of its schedule:
    none is early, late, duplicated or added, whatever the reason the call ended *)
Theorem C12_always_on_schedule : forall n s tau cancel close ds,
  exists k, (k <= n)%nat /\ transmissions (run_call false n s tau cancel close ds) = sched k s tau.
Proof. exact transmissions_on_schedule. Qed.
Print Assumptions C12_always_on_schedule.

(** a call on a client that is not closed fails with the no-response error only after all n transmissions *)
Theorem C12_no_response_after_all_tries : forall n s tau cancel ds,
  result (run_call false n s tau cancel None ds) = NoResponse ->
  transmissions (run_call false n s tau cancel None ds) = sched n s tau.
Proof. exact no_response_uses_all_tries. Qed.
Print Assumptions C12_no_response_after_all_tries.

(** a response accepted after k transmissions arrived before the deadline of try k, T(2^k - 1) after the start,
    and those k transmissions are exactly the first k of the schedule *)
Theorem C12_accepted_within_its_try : forall n s tau cancel close ds,
  result (run_call false n s tau cancel close ds) = Got ->
  let r := run_call false n s tau cancel close ds in
  transmissions r = sched (length (transmissions r)) s tau /\ end_time r < endt (length (transmissions r)) s tau.
Proof. exact got_within_try. Qed.
Print Assumptions C12_accepted_within_its_try.

(** the pinned tree (timer re-armed by every rejected datagram) violated the schedule: T = 50, n = 2,
    a rejected datagram every 20 ms gives transmissions at 0 and 4050 and failure at 4150 *)
Theorem C12_refuted_on_pinned_code :
  transmissions (run_call true 2 0 50 None None spam) = [0; 4050] /\ end_time (run_call true 2 0 50 None None spam) = 4150.
Proof. exact pinned_code_refuted. Qed.
Print Assumptions C12_refuted_on_pinned_code.

Example C12_example : sched 4 0 50 = [0; 50; 150; 350] /\ endt 4 0 50 = 750 /\ all_rejected [(10, false); (60, false)].
Proof. repeat split. Qed.
