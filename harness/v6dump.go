package main

import (
	"fmt"
	"net"
	"reflect"
	"sort"
	"time"

	"github.com/insomniacslk/dhcp/dhcpv4"
	"github.com/insomniacslk/dhcp/dhcpv6"
	"github.com/insomniacslk/dhcp/iana"
	"github.com/insomniacslk/dhcp/rfc1035label"
)

func be32b(v uint32) []byte { return []byte{byte(v >> 24), byte(v >> 16), byte(v >> 8), byte(v)} }
func tagb(code uint16, kind byte) []byte {
	return []byte{byte(code >> 8), byte(code), kind}
}
func cntb(n int) []byte { return be16b(uint16(n)) }
// secs: a duration field as the 32-bit seconds value it stands for; a value no 32-bit field can carry
// (negative, more than 2^32-1 s, or a fraction of a second) is dumped in full so that it never compares equal
// to what a wire field decodes to
func secs(d time.Duration) []byte {
	if d >= 0 && d%time.Second == 0 && d/time.Second <= 0xffffffff {
		return be32b(uint32(d / time.Second))
	}
	out := []byte{0xff, 0xff, 0xff, 0xff}
	for i := 7; i >= 0; i-- {
		out = append(out, byte(uint64(d)>>(8*uint(i))))
	}
	return out
}

// field reads an exported field (possibly of an unexported struct type).
func field(v interface{}, name string) interface{} {
	rv := reflect.ValueOf(v)
	for rv.Kind() == reflect.Ptr {
		rv = rv.Elem()
	}
	f := rv.FieldByName(name)
	if !f.IsValid() {
		panic("harness: no field " + name)
	}
	return f.Interface()
}

func dumpDUID(d dhcpv6.DUID) [][]byte {
	switch x := d.(type) {
	case *dhcpv6.DUIDLLT:
		return [][]byte{{1}, be16b(uint16(x.HWType)), be32b(x.Time), x.LinkLayerAddr}
	case *dhcpv6.DUIDEN:
		return [][]byte{{2}, be32b(x.EnterpriseNumber), x.EnterpriseIdentifier}
	case *dhcpv6.DUIDLL:
		return [][]byte{{3}, be16b(uint16(x.HWType)), x.LinkLayerAddr}
	case *dhcpv6.DUIDUUID:
		return [][]byte{{4}, x.UUID[:]}
	case *dhcpv6.DUIDOpaque:
		return [][]byte{{0}, be16b(uint16(x.Type)), x.Data}
	}
	panic(fmt.Sprintf("harness: unknown DUID %T", d))
}

func dumpLabels(l *rfc1035label.Labels) [][]byte {
	out := [][]byte{cntb(len(l.Labels))}
	for _, n := range l.Labels {
		out = append(out, []byte(n))
	}
	return out
}

func dumpOptmap(o dhcpv4.Options) [][]byte {
	keys := make([]int, 0, len(o))
	for k := range o {
		keys = append(keys, int(k))
	}
	sort.Ints(keys)
	out := [][]byte{cntb(len(o))}
	for _, k := range keys {
		out = append(out, []byte{byte(k)}, o[uint8(k)])
	}
	return out
}

func dumpPkt4(p *dhcpv4.DHCPv4) [][]byte {
	out := [][]byte{
		{byte(p.OpCode)}, be16b(uint16(p.HWType)), {p.HopCount}, p.TransactionID[:], be16b(p.NumSeconds), be16b(p.Flags),
		p.ClientIPAddr, p.YourIPAddr, p.ServerIPAddr, p.GatewayIPAddr,
		p.ClientHWAddr, []byte(p.ServerHostName), []byte(p.BootFileName),
	}
	return append(out, dumpOptmap(p.Options)...)
}

func ipsOut(ips []net.IP) [][]byte {
	out := [][]byte{cntb(len(ips))}
	for _, ip := range ips {
		out = append(out, []byte(ip))
	}
	return out
}

func splitLen16(b []byte) [][]byte {
	var out [][]byte
	for len(b) >= 2 {
		n := int(b[0])<<8 | int(b[1])
		if 2+n > len(b) {
			break
		}
		out = append(out, b[2:2+n])
		b = b[2+n:]
	}
	return out
}

func dumpOpts(os dhcpv6.Options) [][]byte {
	out := [][]byte{cntb(len(os))}
	for _, o := range os {
		out = append(out, dumpOpt(o)...)
	}
	return out
}

func dumpNTP(o dhcpv6.Option) [][]byte {
	switch x := o.(type) {
	case *dhcpv6.NTPSuboptionSrvAddr:
		return [][]byte{tagb(1, 1), []byte(*x)}
	case *dhcpv6.NTPSuboptionMCAddr:
		return [][]byte{tagb(2, 1), []byte(*x)}
	case *dhcpv6.NTPSuboptionSrvFQDN:
		return append([][]byte{tagb(3, 1)}, dumpLabels(&x.Labels)...)
	case *dhcpv6.OptionGeneric:
		return [][]byte{tagb(uint16(x.OptionCode), 0), x.OptionData}
	}
	// an NTP sub-option of any other Go type: its number space was confused with the top-level one
	return [][]byte{tagb(uint16(o.Code()), 9), []byte(fmt.Sprintf("unexpected sub-option type %T", o))}
}

func dumpOpt(o dhcpv6.Option) [][]byte {
	code := uint16(o.Code())
	if g, ok := o.(*dhcpv6.OptionGeneric); ok {
		return [][]byte{tagb(code, 0), g.OptionData}
	}
	t := tagb(code, 1)
	switch x := o.(type) {
	case *dhcpv6.OptIANA:
		return append([][]byte{t, x.IaId[:], secs(x.T1), secs(x.T2)}, dumpOpts(x.Options.Options)...)
	case *dhcpv6.OptIATA:
		return append([][]byte{t, x.IaId[:]}, dumpOpts(x.Options.Options)...)
	case *dhcpv6.OptIAAddress:
		return append([][]byte{t, x.IPv6Addr, secs(x.PreferredLifetime), secs(x.ValidLifetime)}, dumpOpts(x.Options.Options)...)
	case *dhcpv6.OptStatusCode:
		return [][]byte{t, be16b(uint16(x.StatusCode)), []byte(x.StatusMessage)}
	case *dhcpv6.OptUserClass:
		return append([][]byte{t, cntb(len(x.UserClasses))}, x.UserClasses...)
	case *dhcpv6.OptVendorClass:
		return append([][]byte{t, be32b(x.EnterpriseNumber), cntb(len(x.Data))}, x.Data...)
	case *dhcpv6.OptVendorOpts:
		out := [][]byte{t, be32b(x.EnterpriseNumber), cntb(len(x.VendorOpts))}
		for _, s := range x.VendorOpts {
			g := s.(*dhcpv6.OptionGeneric)
			out = append(out, be16b(uint16(g.OptionCode)), g.OptionData)
		}
		return out
	case *dhcpv6.OptIAPD:
		return append([][]byte{t, x.IaId[:], secs(x.T1), secs(x.T2)}, dumpOpts(x.Options.Options)...)
	case *dhcpv6.OptIAPrefix:
		out := [][]byte{t, secs(x.PreferredLifetime), secs(x.ValidLifetime)}
		if x.Prefix != nil {
			ones, _ := x.Prefix.Mask.Size()
			out = append(out, []byte{byte(ones)}, x.Prefix.IP)
		} else {
			out = append(out, nil, nil)
		}
		return append(out, dumpOpts(x.Options.Options)...)
	case *dhcpv6.OptRemoteID:
		return [][]byte{t, be32b(x.EnterpriseNumber), x.RemoteID}
	case *dhcpv6.OptFQDN:
		return append([][]byte{t, {x.Flags}}, dumpLabels(x.DomainName)...)
	case *dhcpv6.OptNTPServer:
		out := [][]byte{t, cntb(len(x.Suboptions))}
		for _, s := range x.Suboptions {
			out = append(out, dumpNTP(s)...)
		}
		return out
	case *dhcpv6.OptNetworkInterfaceID:
		return [][]byte{t, {byte(x.Typ), x.Major, x.Minor}}
	case *dhcpv6.OptDHCPv4Msg:
		return append([][]byte{t}, dumpPkt4(x.Msg)...)
	case *dhcpv6.OptDHCP4oDHCP6Server:
		return append([][]byte{t}, ipsOut(x.DHCP4oDHCP6Servers)...)
	case *dhcpv6.Opt4RD:
		return append([][]byte{t}, dumpOpts(x.Options)...)
	case *dhcpv6.Opt4RDMapRule:
		p4, _ := x.Prefix4.Mask.Size()
		p6, _ := x.Prefix6.Mask.Size()
		w := byte(0)
		if x.WKPAuthorized {
			w = 1
		}
		return [][]byte{t, {byte(p4), byte(p6), x.EABitsLength}, {w}, x.Prefix4.IP, x.Prefix6.IP}
	case *dhcpv6.Opt4RDNonMapRule:
		h := byte(0)
		if x.HubAndSpoke {
			h = 1
		}
		var tc []byte
		if x.TrafficClass != nil {
			tc = []byte{*x.TrafficClass}
		}
		return [][]byte{t, {h}, tc, be16b(x.DomainPMTU)}
	}
	// unexported option types: exported fields via reflection, else ToBytes
	switch dhcpv6.OptionCode(code) {
	case dhcpv6.OptionClientID, dhcpv6.OptionServerID:
		return append([][]byte{t}, dumpDUID(field(o, "DUID").(dhcpv6.DUID))...)
	case dhcpv6.OptionORO:
		var b []byte
		for _, c := range field(o, "OptionCodes").(dhcpv6.OptionCodes) {
			b = append(b, be16b(uint16(c))...)
		}
		return [][]byte{t, b}
	case dhcpv6.OptionElapsedTime:
		d := field(o, "ElapsedTime").(time.Duration)
		if u := 10 * time.Millisecond; d < 0 || d%u != 0 || d/u > 0xffff {
			return [][]byte{t, append([]byte{0xff, 0xff}, secs(-1-d)...)} // not a value a 16-bit field of 10 ms units can carry
		}
		return [][]byte{t, be16b(uint16(d / (10 * time.Millisecond)))}
	case dhcpv6.OptionRelayMsg:
		switch m := field(o, "Msg").(type) {
		case *dhcpv6.Message:
			return append([][]byte{tagb(9, 1), {byte(m.MessageType)}, m.TransactionID[:]}, dumpOpts(m.Options.Options)...)
		case *dhcpv6.RelayMessage:
			return append([][]byte{tagb(9, 2), {byte(m.MessageType)}, {m.HopCount}, m.LinkAddr, m.PeerAddr}, dumpOpts(m.Options.Options)...)
		}
	case dhcpv6.OptionInterfaceID:
		return [][]byte{t, field(o, "ID").([]byte)}
	case dhcpv6.OptionDNSRecursiveNameServer:
		return append([][]byte{t}, ipsOut(field(o, "NameServers").([]net.IP))...)
	case dhcpv6.OptionDomainSearchList:
		return append([][]byte{t}, dumpLabels(field(o, "DomainSearchList").(*rfc1035label.Labels))...)
	case dhcpv6.OptionInformationRefreshTime:
		return [][]byte{t, secs(field(o, "InformationRefreshtime").(time.Duration))}
	case dhcpv6.OptionBootfileURL:
		return [][]byte{t, o.ToBytes()}
	case dhcpv6.OptionBootfileParam:
		ps := splitLen16(o.ToBytes())
		return append([][]byte{t, cntb(len(ps))}, ps...)
	case dhcpv6.OptionClientArchType:
		var b []byte
		for _, a := range field(o, "Archs").(iana.Archs) {
			b = append(b, be16b(uint16(a))...)
		}
		return [][]byte{t, b}
	case dhcpv6.OptionClientLinkLayerAddr:
		return [][]byte{t, be16b(uint16(field(o, "LinkLayerType").(iana.HWType))), []byte(field(o, "LinkLayerAddress").(net.HardwareAddr))}
	case dhcpv6.OptionRelayPort:
		return [][]byte{t, be16b(field(o, "DownstreamSourcePort").(uint16))}
	}
	panic(fmt.Sprintf("harness: cannot dump option %T code %d", o, code))
}

func dumpMsg(m dhcpv6.DHCPv6) [][]byte {
	switch x := m.(type) {
	case *dhcpv6.Message:
		return append([][]byte{{1}, {byte(x.MessageType)}, x.TransactionID[:]}, dumpOpts(x.Options.Options)...)
	case *dhcpv6.RelayMessage:
		return append([][]byte{{2}, {byte(x.MessageType)}, {x.HopCount}, x.LinkAddr, x.PeerAddr}, dumpOpts(x.Options.Options)...)
	}
	panic("harness: unknown message type")
}
