# Per-property configuration for ./check (see DESIGN.md section 4).
#  coq_files   : prefixes (under theories/) whose build failure breaks this property's obligations
#  model_is_spec / spec_entries : entry points for which the model is the (proved) reference
#                reading, so that a model/Go disagreement is itself a property-failing input
#  rule        : how cases are generated and what counts as non-trivial (copied into evidence)
BASE = ["Base/", "Run.v", "Extract.v"]
PROPS = {
    "C19": {
        "arch386": True,
        "coq_files": BASE + ["Label/", "Props/C19.v"],
        "spec_entries": [1],
        "rule": "exhaustive strings over the alphabet {0,1,2,3,63,64,0xC0,0xC1,0xFF,'a','.'} up to length 4 (quick) / 5 (thorough), "
                "random lists of 0..8 valid names (1..8 labels, lengths biased to 1/62/63) encoded and decoded, mutations of valid "
                "encodings (truncate, flip length, append/insert pointer, append junk), single edits of parsed sets, names around the "
                "253-octet limit; non-trivial = distinct case whose Go result is ok with a non-empty observable",
        "assumptions": ["the Go harness projects Labels to the exported Labels field and ToBytes()",
                        "model entry points 1-4 of Run.v are the functions the C19 theorems are about"],
        "trusted_base": ["modelled, not verified: rfc1035label/label.go (tied by the correspondence on the explored inputs)"],
    },
    "C01": {
        "arch386": True,
        "coq_files": BASE + ["V4/", "Props/C01.v"],
        "rule": "packets of the C01 domain: every option length in {0,1,2,253..257,508..512,763..767,1019..1022} x codes {1,53,81,82,83,254}, "
                "chaddr lengths 0..16 (17,20,255,256 outside the domain for the model tie), names at 0/1/62/63 (64.. outside), IP forms nil/4/mapped "
                "(real IPv6: panic class must agree), random option sets of 0..40 codes with values up to 4096 octets; each packet: ToBytes vs enc4 "
                "(exact bytes) and FromBytes(ToBytes) vs dec4(enc4); direct oracle FromBytes(ToBytes(p)) vs p on the real code + wire validator; "
                "non-trivial = distinct case with an ok result",
        "assumptions": ["nil and empty option values are identified (a zero-length option decodes to a nil value)"],
        "trusted_base": ["modelled, not verified: dhcpv4.(*DHCPv4).ToBytes, Options.Marshal, sortedKeys, FromBytes, fromBytesCheckEnd"],
    },
    "C04": {
        "arch386": True,
        "coq_files": BASE + ["V4/", "Props/C04.v"],
        "model_is_spec": True,
        "rule": "exhaustive option areas over {0,1,2,3,53,82,255} up to length 5 (quick) / 6 (thorough) behind a valid header; every truncation "
                "point of valid packets; corruption of cookie, hlen and every option length octet (+-1, 0, 255); NUL/hlen variants; random and mutated "
                "packets up to 1500 octets; non-canonical areas; each input: FromBytes verdict + all public fields vs dec4, and vs an independent Go RFC "
                "reference decoder; non-trivial = distinct accepted input",
        "assumptions": ["dec4 is proved equal to the declarative layout relation, so a model/Go disagreement is a property-failing input"],
        "trusted_base": ["modelled, not verified: dhcpv4.FromBytes, Options.fromBytesCheckEnd"],
    },
    "C07": {
        "arch386": True,
        "coq_files": BASE + ["V4/", "Props/C07.v"],
        "rule": "6-option sets including 82, 255 and 0 inserted in all 720 permutations (every 36th encoded 20 times in fresh maps, with "
                "Update/Del detours), larger random sets in 4 shuffles; every encoding checked by a wire validator sharing no code with the library "
                "(>=300, one End then padding, ascending codes, 82 last, instances <= 255, independent decoder recovers the values) and compared with enc4; "
                "non-trivial = distinct packet",
        "assumptions": ["Go's map iteration order is modelled as an arbitrary order of the association list; the theorem quantifies over all of them"],
        "trusted_base": ["modelled, not verified: dhcpv4.(*DHCPv4).ToBytes, Options.Marshal, sortedKeys"],
    },
    "C02": {
        "arch386": True,
        "coq_files": BASE + ["Label/", "V4/", "V6/", "Gen/", "Tie/", "Props/C02.v"],
        "tie_lemmas": ["v6_dispatch_codes_match", "v6_all_table_entries_modelled", "v6_classify_matches_table", "v6_other_codes_generic", "v6_ntp_codes_match"],
        "rule": "messages and relay chains (depth 0..8 quick / 0..64 thorough) of 0..20 options drawn from the ParseOption table extracted from the "
                "source tree on this run (Gen/Tables.v) plus unknown codes, every field over its domain with boundary bias; the generator writes the RFC "
                "wire layout itself (independent encoder) and builds the library value through exported constructors; direct oracle: ToBytes == RFC layout, "
                "FromBytes(ToBytes(m)) == m (value-tree dump); tie: FromBytes dump and re-encoding vs dec_msg / enc_msg, each known type also through ParseOption; "
                "non-trivial = distinct case with ok result",
        "assumptions": ["durations are whole seconds (wire value), compared as uint32 seconds"],
        "trusted_base": ["modelled, not verified: dhcpv6.FromBytes, ParseOption, every option FromBytes/ToBytes, DUIDs, Message/RelayMessage.ToBytes",
                         "tools/gen (Go AST extractor for the ParseOption table)"],
    },
    "C05": {
        "arch386": True,
        "coq_files": BASE + ["Label/", "V4/", "V6/", "Gen/", "Tie/", "Props/C05.v"],
        "model_is_spec": True,
        "tie_lemmas": ["v6_dispatch_codes_match", "v6_other_codes_generic", "v6_relay_types_match", "v6_relay_header_match"],
        "rule": "exhaustive TLV framings over codes {1,3,5,8,25,9,0xFFFF} x lengths {0,1,2,4,12,255} up to 2 (quick) / 3 (thorough) options with exact/short/long "
                "payloads behind message and relay headers; every header truncation; per known type every truncation, extension by 1..3 octets and length-field "
                "perturbation at the outer and inner levels; random/mutated messages up to 4096 octets; DUIDs; each input: verdict + full value tree vs the model "
                "decoder (the RFC reference reading); non-trivial = distinct accepted input",
        "assumptions": ["the model decoder is the independently written RFC decoder; its acceptance properties are the C05 theorems"],
        "trusted_base": ["modelled, not verified: dhcpv6.FromBytes, MessageFromBytes, RelayMessageFromBytes, ParseOption, DUIDFromBytes"],
    },
    "C06": {
        "arch386": True,
        "coq_files": BASE + ["Label/", "V4/", "V6/", "Props/C06.v"],
        "rule": "accepted byte strings, canonical or not: DHCPv4 mutated valid packets and non-canonical areas (unsorted, split, padded, repeated codes, names "
                "without terminator, hlen > 16); DHCPv6 generated/mutated messages with nesting, every IA-prefix length 0..255, 4RD rules with all prefix-length/flag "
                "combinations, ORO duplicates, compressed/partial names in options 24/39/56; direct oracle on the public API: b->m1->b1->m2->b2 with m2 == norm(m1) "
                "and b2 == b1; tie: re-encoding and decoding vs the model; non-trivial = distinct accepted input",
        "assumptions": ["allowed normalisations: v4 option order/padding/splitting, names cut to 63/127, ORO duplicates, 4RD reserved bits, IA-prefix address when length 0"],
        "trusted_base": ["modelled, not verified: the v4 and v6 codecs"],
    },
    "C17": {
        "arch386": True,
        "coq_files": BASE + ["Label/", "V4/", "V6/Model.v", "V6/Total.v", "Props/C17.v"],
        "model_is_spec": True,
        "rule": "every typed accessor of *DHCPv4 (29 methods, 17 value kinds) x absent / present-nil / raw values of every length 0..64 with structured "
                "(kind-specific well-formed and cut), all-zero, all-0xFF and random fills; the Go result is compared with the model accessor (proved equal "
                "to the RFC reading) and, for fixed-size kinds, with an independent reference reading in Go; set/get through the typed constructors; "
                "non-trivial = distinct case",
        "assumptions": ["a present option with an empty value is Go-nil (what decoding produces); programmatically stored empty non-nil values are outside the tie"],
        "trusted_base": ["modelled, not verified: dhcpv4 typed accessors and the value types' FromBytes"],
    },
    "C15": {
        "coq_files": BASE + ["V4/", "V6/Model.v", "Props/C15.v"],
        "rule": "source packets with any opcode/flags/addresses and every combination of options 82, 61, 54, 55, 53, 50 absent / present-empty / present; "
                "the 6 exported New* builders and plain New, with 0..4 user modifiers drawn from 17 exported With* functions (including ones that collide with defaults); "
                "result fields and options vs the model fold; direct oracles for the reply and request-from-offer rules on the real code; non-trivial = distinct case",
        "assumptions": ["the random transaction id of builders that draw one is pinned by a leading WithTransactionID so that results are comparable",
                        "option codes passed to WithRequestedOptions are of the library's own code type (its constants/decoder); OptionCodeList.Has compares interface values"],
        "trusted_base": ["modelled, not verified: dhcpv4/modifiers.go and the New* builders"],
    },
    "C16": {
        "coq_files": BASE + ["Label/", "V4/Model.v", "V6/Model.v", "V6/Dump.v", "V6/Relay.v", "V6/RelayProofs.v", "Props/C16.v"],
        "rule": "relay-forward chains of depth 1..16 (quick) / 1..64 (thorough) with random link/peer addresses and every subset of interface-id / remote-id per level "
                "(before or after the relay-message option), inner messages of every type with subsets of client id, server id, IA_NA, IA_PD, rapid commit, vendor class "
                "(and duplicates); EncapsulateRelay, DecapsulateRelay(Index), GetInnerMessage, NewRelayReplFromRelayForw, NewAdvertiseFromSolicit, NewRequestFromAdvertise, "
                "NewReplyFromMessage vs the model (value-tree dumps), also after ToBytes/FromBytes; direct oracles for depth, level-wise addresses, echo and innermost reply; "
                "non-trivial = distinct case with ok result",
        "assumptions": ["messages enter the functions as decodings of generated wire bytes; the fresh transaction id of NewRequestFromAdvertise is zeroed before comparison"],
        "trusted_base": ["modelled, not verified: dhcpv6 relay functions and message builders"],
    },
    "C18": {
        "arch386": True,
        "coq_files": BASE + ["V4/Model.v", "V4/RoundTrip.v", "Raw/", "Gen/", "Tie/", "Props/C18.v"],
        "spec_entries": [61],
        "rule": "writes: every payload length 0..1500 x 1 (quick) / 4 (thorough) fills (all-zero, all-ones, alternating, random), boundary and random addresses/ports, each frame "
                "checked by an independent RFC 791/768/1071 validator and (sampled) compared byte-for-byte with udp4pkt; reads: sequences of 1..6 frames mixing valid ones, IHL 6..15, "
                "trailing padding, total length shorter/longer than the frame (including < 8 octets of IP payload), non-IPv4, non-UDP, truncation at any offset, other ports/addresses, "
                "empty reads, nil / port-only / address+port bounds (4- and 16-octet forms), buffer sizes 0..1500; reader output vs the model and vs an independent specification; "
                "non-trivial = distinct case",
        "assumptions": ["the connection is bound (NewBroadcastUDPConn with a non-nil address) when writing; fragments, the UDP length field and received checksums are not examined by the reader nor by the specification"],
        "trusted_base": ["modelled, not verified: nclient4 udp4pkt, checksum helpers, BroadcastRawUDPConn.ReadFrom/WriteTo; the scripted in-memory PacketConn"],
    },
    "C03": {
        "arch386": True,
        "coq_files": BASE + ["Label/", "V4/", "V6/", "Raw/", "Props/C03.v"],
        "model_is_spec": True,
        "rule": "structure-aware mutation (byte set/flip, truncate, extend, duplicate/delete slice) of a generated corpus holding every option type of the ParseOption table "
                "(v6 messages and relay chains, ztp/netboot-shaped vendor options, v4 packets with well-formed typed options), plus random strings; every entry point "
                "(v4 packet / option list, v6 FromBytes / MessageFromBytes / RelayMessageFromBytes / ParseOption, DUIDFromBytes, labels, Archs, raw frames) under recover + watchdog, "
                "verdict class compared with the model; for each accepted input <= 4096 octets every niladic exported method reachable by reflection (value, options, wrappers, "
                "returned library values one level deep), builders, relay decapsulation, MAC extraction, ztpv4/ztpv6, netboot extractors; netboot conversations of 0..4 messages; "
                "non-trivial = distinct case",
        "assumptions": ["String/Summary/LongString go through fmt and regexp, which the model abstracts as total; they are exercised by the harness only"],
        "trusted_base": ["modelled, not verified: all decoding entry points; observers are exercised on the real code only (recover + watchdog)"],
    },
    "C08": {
        "coq_files": BASE + ["Alias/", "Gen/Alias.v", "Props/C08.v", "V6/Model.v", "V4/Model.v", "Label/Model.v"],
        "tie_lemmas": ["retention_sites_match"],
        "rule": "accepted DHCPv6 messages covering every option type of the table at top level, inside IA_NA, inside relay messages, with NTP FQDN and domain-list options, relay chains; "
                "every option type alone through ParseOption; DHCPv4 packets with typed options; label sets and DUIDs; each decoded from a private buffer, snapshot "
                "(ToBytes, value-tree dump, Summary, String, accessor results), buffer overwritten with all-zero / all-0xFF / 0x05.. / 0x01.. / random / next-packet patterns, "
                "snapshot again; output buffers scribbled and re-encoded; non-trivial = distinct accepted input",
        "assumptions": ["the static retention analysis of tools/gen covers functions named *FromBytes*, *Unmarshal*, *parse* taking a []byte parameter in dhcpv4, dhcpv6, rfc1035label, iana"],
        "trusted_base": ["tools/gen's syntactic classification of storage sites; the overwrite harness decides on the real code"],
    },
    "C20": {
        "coq_files": BASE + ["Purity/", "Props/C20.v", "V4/Model.v"],
        "rule": "generated and decoded DHCPv4 packets (typed options), their Options, every standalone DHCPv4 option value built by the exported constructors (parameter request list, "
                "address lists, architectures, routes, user classes, relay agent info ...), DHCPv6 messages, each of their options at every nesting level, MessageOptions/RelayOptions "
                "wrappers, constructed DHCPv6 options of every type, label sets, DUIDs; for each: every single niladic exported method (found by reflection, documented mutators "
                "excluded) and sampled sequences of 2..3 (quick) / 2..6 (thorough), each call made twice (equal results), encoding and accessor dump compared after every call; "
                "print-before-attach check for the parameter request list; non-trivial = distinct subject",
        "assumptions": ["methods named SetBroadcast, SetUnicast, FromBytes, Add, Del, Update, UpdateOption, AddOption, DeleteOption are mutators by contract and are not called"],
        "trusted_base": ["the harness (reflection-driven call sequences) decides on the real code; the Coq model is shallow"],
    },
    "C09": {
        "coq_files": BASE + ["Label/", "Cost/", "V4/", "V6/", "Props/C09.v"],
        "timeout": {"quick": 1200, "thorough": 6000},
        "rule": "adversarial families at sizes 64, 512, 1 k, 4 k, 16 k, 65507: compression-pointer fans (long name and maximal 253-octet name), unterminated label chains, runs of empty names, "
                "IA_NA nested to n/16, relay messages nested to n/38, thousands of minimal options, vendor sub-options, empty boot parameters, large ORO, repeated / zero-length / one-octet "
                "DHCPv4 options, DHCPv4-in-DHCPv6; plus 300 (quick) / 20 000 (thorough) hill-climbing steps maximising allocated octets per input octet; measured: runtime TotalAlloc delta "
                "of decode + re-encode (GC off) and reflective deep size of the decoded value; bound checked: size <= 300 n + 4096, alloc <= 1500 n + depth n + 4096 with depth <= n/8 + 1; "
                "a family that breaks the bound is not run at larger sizes; non-trivial = distinct measured input",
        "assumptions": ["byte slices that are views into one shared private copy (vendor sub-options) are counted by length, not capacity",
                        "TotalAlloc is read in-process around a single-goroutine call with the collector disabled"],
        "trusted_base": ["Go runtime allocation accounting; the reflective deep-size walker"],
    },
    "C12": {
        "coq_files": BASE + ["Client/Call.v", "Props/C12.v"],
        "harness": "sync",
        "rule": "both clients under testing/synctest (virtual time, scripted in-memory PacketConn): T in {1 ms, 50 ms, 5 s} x n in 0..6 (and -1 with cancellation): silence; rejected same-id datagrams "
                "at periods T/3, T, 2T; an accepted response at 1/25/50/75/99 % of every try k < n; recorded (virtual instant, destination, bytes) of every WriteTo compared with the "
                "schedule (exact instants), retransmitted bytes with the request's encoding; results and instants compared with run_call; non-trivial = distinct scenario",
        "assumptions": ["instants that coincide exactly with a deadline are not generated (select is free to pick either ready case)"],
        "trusted_base": ["testing/synctest's virtual clock; the scripted PacketConn; modelled, not verified: SendAndRead / retryFn of nclient4 and nclient6"],
    },
    "C11": {
        "coq_files": BASE + ["Client/Call.v", "Client/Routing.v", "Props/C11.v"],
        "harness": "sync",
        "rule": "synctest scenarios over T in {10, 50, 200 ms} x n in 1..3: silence, endless rejected same-id stream at period T/3, bursts of 8 datagrams (filling the 5-slot buffer), "
                "random mixes with acceptable responses, each with an optional context cancellation or Close at a random instant; return instant and error vs run_call and vs the "
                "budget T(2^n - 1); sequential reuse of a transaction id after timeouts; leaving each bubble proves that no client goroutine remains; non-trivial = distinct scenario",
        "assumptions": ["instants coinciding with a deadline are not generated"],
        "trusted_base": ["testing/synctest; modelled, not verified: SendAndRead, send/cancel, Close of both clients"],
    },
    "C10": {
        "coq_files": BASE + ["Client/Routing.v", "Client/Macro.v", "Props/C10.v"],
        "harness": "sync",
        "rule": "1..8 concurrent callers on one client (distinct and colliding ids, matchers accepting payload classes from everything to nothing) driven under synctest by external events "
                "injected one at a time with quiescence in between: start call, datagram (valid, wrong hardware address, wrong opcode, undecodable, duplicated, unknown id), cancel; each "
                "call's outcome vs the Coq macro model (a refinement of the micro-step machine) and vs an independent Go specification; plus the micro-step schedule of the F8 defect forced "
                "through the verif hooks on both clients; non-trivial = distinct scenario",
        "assumptions": ["data-race freedom is outside any interleaving model with atomic steps (thorough tier runs the harness under -race)",
                        "blocking matchers (a receive loop parked on a full channel) are covered by the micro model only"],
        "trusted_base": ["testing/synctest; verif hooks in nclient4/nclient6; modelled, not verified: receiveLoop, send, cancel of both clients"],
    },
    "C14": {
        "coq_files": BASE + ["V4/Model.v", "V6/Model.v", "Server/", "Props/C14.v"],
        "harness": "sync",
        "rule": "server4 / server6 behind WithConn(scripted PacketConn) under synctest: sequences of 0..200 reads mixing valid messages of every type (relay nesting for v6), undecodable ones and "
                "empty reads, senders with nil / 0.0.0.0 / IPv4 / IPv6 / IPv4-zero-in-16 / non-UDP addresses, an optional read error (Close) at any position; handlers block until all later "
                "reads have happened and then snapshot their message (detects a reused read buffer); invocations (peer, re-encoded message, in datagram order) and the exit flag vs the model; "
                "direct oracle for the invocation count, exit rule and broadcast rewrite; non-trivial = distinct sequence",
        "assumptions": ["handler goroutines are ordered by the position the generator put into each datagram's transaction id",
                        "real parallelism of handlers is outside the model (thorough tier under -race)"],
        "trusted_base": ["testing/synctest; the scripted PacketConn; modelled, not verified: server4.Serve, server6.Serve"],
    },
    "C13": {
        "coq_files": BASE + ["V4/", "V6/", "Client/Lease.v", "Props/C13.v"],
        "harness": "sync",
        "rule": "scripted servers under synctest reacting to the client's transmissions: phase 1 (after DISCOVER / SOLICIT) and phase 2 (after REQUEST) each 0..5 replies drawn from OFFER / ACK / NAK "
                "(ADVERTISE / REPLY) by servers 0 (no identifier), 1, 2, 3 with arbitrary addresses, other message types, undecodable datagrams, wrong transaction id, wrong hardware address, "
                "BOOTREQUEST opcode, duplicates; client: nclient4.Request (DiscoverOffer + RequestFromOffer), Renew, Release, nclient6.RapidSolicit; the transmitted REQUEST (decoded), the "
                "selected offer and the completing reply vs the composed model (decoder + filter + accessors + builders + selection) and vs an independent specification; "
                "non-trivial = distinct scenario",
        "assumptions": ["a datagram belongs to the phase during which it arrives; after the first valid OFFER the phase-1 script holds no routable ACK/NAK (their arrival relative to the REQUEST's registration is not scriptable)"],
        "trusted_base": ["testing/synctest; scripted PacketConn; modelled, not verified: nclient4 Request/RequestFromOffer/Renew/Release, nclient6 RapidSolicit/Request"],
    },
}


# Additions to the generation rules made while testing the checks against seeded changes (DESIGN.md section 8).
RULE_ADDENDA = {
    "C01": "option-set encodings (values of 0..511 octets) cut at every instance boundary and inside instances, through Options.FromBytes: a cut inside an instance is an error; header fields with boundary patterns (all-zero / all-ones xid, secs, flags; op 0/1/2/255); option-area sweep: one option of every length 0..130 and 240..270 next to a message type; the whole campaign a second time on a 32-bit target (GOARCH=386); every code 1..254 with an empty, each small one-octet and a two-octet value next to present server-name / boot-file fields; long values whose 255-octet instances are equal octet strings (periods 1, 3, 5, 15, 17, 51, 85, 255); the same packet assembled from one flat record (adjacent sub-slices with spare capacity of one array): same octets, nothing written into the record; a sample of the cases re-run on 8 goroutines at once; option values that refer to header fields as the RFCs define them (client identifier with the hardware type as its type octet and chaddr of 0 / 6 / 16 octets, requested address = yiaddr)",
    "C02": "list-valued options now and then with 9, 12, 17, 33 or 65 items (past the sizes at which code switches strategy); edge-aware numeric fields (0, 1, 0x7f../0x80.., max); byte strings with lengths around 63/64, 127/128/130, 253-257; names of exactly 250..253 octets; special address forms (IPv4-mapped, zero, loopback, link-local, multicast); sub-option codes that collide with top-level codes; decoded-then-edited names (another name, another case, another order, appended) must round-trip; 32-bit target pass; concurrent re-run of a sample of the cases; among the edits of decoded names: a label moved across the boundary between two neighbouring names (same labels, same count, other names); name lists in which a name occurs twice (each occurrence is written out in full)",
    "C04": "decoded options also read through Options.Has / Options.Get (presence incl. empty values, absence of every other code); sname / file fields in every shape: text of length 0, 1, 2, half, width-2, width-1, width (no terminator), followed by NUL padding, by a NUL and stale text, or by stale octets up to a final NUL; whole-cookie variants (zero, all ones, byte-swapped, partially zero) on 240-, 300-octet and full packets; 32-bit target pass; each accepted input decoded again after the first result was edited (option added, changed, removed; header fields changed): decodings are independent values; option areas of pad octets only, of every length to 80 and some to 1260, without End, with End first / in the middle / last, and with a code whose length octet is missing; packets whose client identifier's type octet is the hardware type, with chaddr of 0 / 6 / 16 octets (the header is read from the header)",
    "C03": "every DHCPv4 option code 1..254 with values of 0..3 octets, all observers; vendor strings for the provisioning extractors: every string literal found in ztpv4 / ztpv6 / netboot sources on this run x 6 separators x 0..6 fields, carried in DHCPv6 options 16, 17 and DHCPv4 options 60, 43, 124, 125; raw frames swept: IHL 0..15 x 18 frame lengths x 12 total-length values (0, 1, around header and frame length, 0xffff) x 6 UDP-length values; structure-aware malformation: every known DHCPv6 option type with its value cut at every position, lengthened by 1..3 octets and with every inner 16-bit field perturbed (+1, -1, +256, 0xffff) under intact outer framing, alone (ParseOption), in a message, inside an IA_NA and inside a relay message, observers run on every accepted one; every DHCPv4 option that has a typed reader with its value cut at every position in an otherwise valid packet, all observers run; 32-bit target pass; concurrent re-run; DecapsulateRelayIndex with indexes at and beyond the nesting depth; a busy link: 200000 (thorough: 3000000) well-formed IPv4 packets for others, then the reader's datagram, inside one ReadFrom call, in a child process with a 16 MiB stack limit; circuit descriptions for ztpv6.ParseRemoteID (Remote-ID and Interface-ID of the innermost relay): 11 forms, alone and in every ordered pair joined by nothing, a comma or a space; vendor data whose fields are bare dictionary words (a key without a value), enterprise number 9 among the carriers",
    "C05": "nesting depth ladder (relay in relay, IA in IA) at depths 1..257 around 8/16/32/64/128/256; every known option type, and every name field over a small alphabet of lengths / pointers / letters in options 24, 39, 56/3, preceded and followed by an option whose code has a non-zero high octet (neighbour independence); no entry point may modify its input (checked on every case of every property); names of dotted length 250..256 and 319 ended by a zero, by the end of the value, by another name or lengthened by a compression pointer, in options 24, 39, 56/3 alone, in a message and inside an IA_NA; same value generators as C02; 32-bit target pass (lifetimes and timers >= 2^31 included); concurrent re-run of 4000 cases on 8 goroutines; for every known option code the all-zero body of a generated instance and the same with each single octet set to 1, 0x80, 0xff (also with the first octet 0x80), as option and inside a message",
    "C06": "relay headers cut to 2..34 octets followed by an option list, alone and nested in a relay-message option; every known option type with each octet of its value set to 0, 1, 32, 33, 127, 128, 129, 255 in turn; the decoded and the re-decoded message must also print alike; text-like values with a tail or head a decoder might trim (runs of NUL, blanks, line ends, dots, slashes); durations dumped exactly (values no 32-bit field can carry never compare equal); known finding F12 input and its non-overflowing neighbour; 32-bit target pass; every known DHCPv6 option code with every one-octet and every two-octet payload (all 65536 values of each 16-bit field): decode, encode, decode gives the value first decoded and prints alike; numeric fields drawn now and then from the integer literals of the library's own source; the same one-field-says-something bodies through decode, encode, decode",
    "C07": "two packets derived from one decoded request (options copied, then extended): the first keeps its encoding; option values cut from one buffer; option sets containing 82 together with 254, 253, 81, 83, 1; the same contents put in through UpdateOption / WithOption in every insertion order (an empty value is a value); independent decoder also compares op/htype/hops/xid/secs/flags, the four addresses, chaddr (16 octets), sname/file and their zero fill; packets built through the typed constructors keep their option values while other packets are built and encoded; 32-bit target pass; option sets of 7..254 distinct codes with and without 82 and with codes on both sides of it, four insertion orders each",
    "C08": "name sets inside a decoded message handed a buffer that fails to decode, the buffer then overwritten: the message is unchanged; non-canonical DHCPv4 wire inputs (repeated codes, zero-length first instances); two encodings of one value held at once; an earlier output vs a later edit+encoding; outputs of different values tracked across encodings; dhcpv4 Options.FromBytes and RelayOptions.FromBytes as entry points of their own: decoded from the caller's buffer, buffer overwritten, encoding and printed form unchanged",
    "C09": "IA / relay nests with a malformed innermost item (the failure travels up through every level); pointer chains (each name one label plus a pointer to the start of the previous name), pointers to pointers, self and mutual pointers, bare pointers past the 14-bit range; size ladder 64,96,128,...,65507; dual-reading label regions with backward and forward pointer fans; every option type with a 0xff run as value; decoded names checked against the proved bound on every run; every container type (IA_NA, IA_PD, IA_TA, IA address, IA prefix, vendor options) nested to the maximum with an unassigned-code leaf per level; besides the reflective size, the live-heap difference with only the decoded value kept alive (collector-measured, so a short view that pins a large backing array is charged for the array): <= 300 n + 65536; names whose label contents spell a second label chain in another alignment, followed by bare pointers into the middle of a label",
    "C10": "7 late datagrams for the id of a call that ended by a write error, its timeout, its context or its answer, while another call waits; the id is then reused; answers that are read and routed by the receive loop before WriteTo returns to the transmitting call (5 / 100 rounds of 1..4 calls per client); wrong-hardware datagrams whose chaddr field holds the client address while the length octet says 0, 3, 7 or 16; 12 datagrams for a matcher-held call (more than the 7 that fit in flight), first acceptable at positions 8..11, with GOMAXPROCS 1, 2 and default (12 / 200 rounds per client); id reused at once after a call that returned with a full buffer and a datagram parked in the receive loop (60 / 1500 rounds per client); non-BOOTREPLY opcodes 0/3/0x82/0xff; foreign / empty / shorter / longer chaddr; datagrams of realistic length; optional dropped-packet and debug logging; held-matcher scenarios (all n<=7 x first acceptable position) compared with the hand-over machine; 600 rounds of 4..16 simultaneous callers with one id; every scenario under a 20 s real-time watchdog; for DHCPv6, replies wrapped in one or three Relay-reply / Relay-forward headers sent to the client (not for a client: dropped); replies of 600..1400 octets (a long option 43 / a long generic DHCPv6 option) among the routed datagrams; every third call names another hardware address in its request (the one foreign address the scripted datagrams use): the replies taken are still those for the client's own address",
    "C11": "call B reuses the id of call A that returns with a full buffer and a parked datagram, B started before (queued on the registry lock) or after A returned: B must end with its own answer (40 / 1000 rounds per client); contexts ended by cancel or by their own deadline; stray datagrams (other id); connections whose Close reports an error; id reuse after every kind of ending (timeout, failed write, cancel, response); 0..2 earlier unanswered calls on the same client; contexts that carry a cause (context.WithCancelCause, WithTimeoutCause): the call still returns the context's error; the lease helpers (RapidSolicit, Solicit+Request, DHCPv4 Request) against a server that answers the first message and then nothing, the context cancelled 50 ms after the second message went out: the helper returns at that instant with the context's error",
    "C12": "0..2 companion calls overlapping the observed one on the same client (started half a timeout before / after it); requested destinations incl. unicast, other port, IPv6 zone; three logger configurations; requests whose option request list is not in code order; 0..2 earlier unanswered calls on the same client; thorough: timeouts 1 ms .. 120 s, tries 0..9; the lease helpers (DiscoverOffer, Solicit) on clients configured with WithServerAddr / WithBroadcastAddr, destinations with and without zone: every transmission goes to the configured address, at the scheduled instants; 9, 10, 12 and 13 tries at T = 1 ms",
    "C13": "IA_NA timers and address lifetimes at 0, 1, 0x80000000, 0xfffffffe, 0xffffffff; the IA_NA of the transmitted REQUEST compared octet for octet with the one in the received ADVERTISE (plain TLV walk); scripted replies carry optional extra options (DHCPv4 80 rapid commit, 51, 58, 59, 61, 82, 116, 52; DHCPv6 14 rapid commit, 7, 12, 20, 13); OFFER address differs from the ACK's; random siaddr/giaddr; wrong-opcode and wrong-hlen replies; IA_NA with 0..3 addresses and a status code; late answers to the SOLICIT during the REQUEST phase; replies whose siaddr is one of the servers' addresses (the selected one included) whatever their server identifier; the clients built with and without dropped-datagram logging, summary and debug loggers; a server identifier option that says 0.0.0.0, distinct from no server identifier; ACKs that echo a ciaddr different from yiaddr before a renewal",
    "C14": "decodable datagrams of 4095 / 4096 / 4097 / 4100 octets (the read buffer size and its neighbours; a longer one is seen cut to 4096); bare and nested bare relays; runs of 60 malformed nested relays before ordinary traffic; 200 decodable datagrams with all handlers outstanding; Close landing while a datagram is being returned; handler-side snapshot of message and peer at start vs end; 1500 decodable datagrams whose handlers are all still running when the last is read; the failed read that ends the loop is of every kind (plain error, expired deadline, EOF, an error calling itself temporary) and what follows it in the script is never read; the servers built with the default, summary and debug loggers; DHCPv4 handlers set the address of the peer they were given when they are done (no other handler's peer moves)",
    "C15": "packets built from one decoded request are independent values: a second build (options copied / extended) changes neither the first packet nor the request; last-word oracle also for option-setting modifiers (WithGeneric incl. empty values, WithoutOption, WithMessageType, WithLeaseTime); option values of 254..600 octets in sources and modifiers; xid and address boundary values (zero, broadcast); modifier lists built by append and passed to a builder before (whole or as a prefix); direct oracle that the caller's last field-setting modifier prevails; NewDiscoveryForInterface against NewDiscovery with the interface's hardware address, for six modifier lists (some setting the hardware address), on up to three interfaces of the host that have one; a caller's WithReply(other) after each builder's defaults: opcode opposite to other's, other's xid / chaddr / flags",
    "C16": "forward chains cut short below the top (a relay level without relayed message): no relay-reply, no inner message; link / peer addresses handed to EncapsulateRelay as 16 octets, 4 octets, nil or another length: on the wire the 16-octet form; every message type 0..14 x presence of client id / server id / IA_NA / rapid commit for the three builders; special address forms; edit of the innermost message after an earlier encoding; hop-count octets that do not follow the nesting (all zero, counted from one, arbitrary); the client identifier held as a generic option gives the same advertise / reply; relay levels carrying two Interface-IDs or two Remote-IDs (the first is the level's); levels below the top typed Relay-reply in one chain out of four; one Interface-ID / Remote-ID option value put on every level of a chain",
    "C17": "for every accessor and every length: a right-aligned form (zeros, ff ff, four octets: the IPv4-mapped shape at 16 octets) and a left-aligned form (four octets then zeros); set/get through every typed constructor with full equality and after a wire trip; read-edit-set of parsed search domains; one caller-owned value shared by two packets then updated in one; 32-bit target pass; values of 248..520 octets for every accessor; well-formed route lists of 28..64 routes per width (every remaining length around 256 at a route boundary); route lists ending in every way (nothing, a valid width alone, a width 33..255, a width and part of what follows); search lists of 1..60 short names that end in compression pointers into one full name; durations set with a fraction of a second (1 ns, 500 ms, 999999744 ns, 999999999 ns) on seconds parts 0, 1, 2^24, 2^24+1, one year, 2^31, 2^32-2, 2^32-1 and random: the whole seconds are what is read back; a last name of 4..6 labels of 50..63 octets with and without terminator, alone, behind a valid name, behind a pointer",
    "C18": "total lengths around the multiples of 256 (low octet of the length field between 253 and 24); two deviations per frame; IP options with total lengths around the header length; bound addresses 0.0.0.0 / 255.255.255.255 / 127.0.0.1; destinations 0.0.0.0 and broadcast; 32-bit target pass; two writes overlapping in time on one connection (the socket takes the first write's octets only after the second was made): each frame is the frame of its own datagram; received frames with arbitrary type of service, identification, Don't-Fragment, time to live, header checksum and IP option octets; frames whose source port equals the destination (bound) port, half of them with the source address equal to the destination address; 300 writes on one connection through one *net.UDPAddr whose IP (in place or by assignment) and port change between writes",
    "C19": "a value holding a parsed set is given bytes that fail to decode: it still encodes to what it held; names completed through a pointer whose prefix (1..253 octets) and target (1..253 octets) are each within the limit while the whole may not be; the boundary family of C05; sequences of three edits on parsed and on constructed values with an encoding after each (a second in-place edit, an edit back to the received names); pointers into the middle of a label (dual readings); in-place edits (element, swap, sort, case only, reslice, append) after ToBytes/Length; names through the DHCPv6 options 24/39/56-3 and DHCPv4 119 must re-encode verbatim; 32-bit target pass; an edited value is decoded into again (the same octets, other octets, the same again): it holds what the octets say and re-encodes to them; what a caller took out of a value (its Labels slice) before the value is decoded into again stays as it was; octets that do not decode handed to a used value: names and wire form stay",
    "C20": "constructed DHCPv6 options holding an item of 64 KiB between encodable items (boot file parameters, user class, vendor class, boot file URL), alone and in a message; DHCPv4 option sets containing 82 together with 254, 253, 81, 83, 1 (keys an ordering rule may rank alike); parameter request lists in shapes a helper may special-case (sorted, sorted with a repeated code followed by others, descending, all equal, ascending except the last); every subject generated twice and observed in both orders (encoding first / methods first); label sets with empty and repeated names; messages repeating singleton options; random routes; hardware addresses and names longer than their fields; End/Pad codes as map keys; the exported package-level readers (ExtractMAC, DecapsulateRelay, DecapsulateRelayIndex, GetTransactionID, OptRelayMessage, GetMacAddressFromEUI64) on generated, relayed (EUI-64 peer addresses, with and without client link-layer address option) and decoded messages; twins decoded from the same compressed octets, edited and restored alike, one of them read (Length, ToBytes, String) while edited: they encode alike; names written with a trailing dot, a leading dot, two dots in a row",
}
for _k, _v in RULE_ADDENDA.items():
    if _k in PROPS:
        PROPS[_k]["rule"] = PROPS[_k].get("rule", "") + "; ALSO: " + _v
