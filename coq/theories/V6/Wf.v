(** The encodable domain of DHCPv6 values ([wf_opt], [wf_msg]), nesting depth,
    and the canonical form a value takes after one trip over the wire. *)
From DV Require Import Base.Bytes Label.Model Label.RoundTrip V4.Model V6.Model.

Definition u8 (n : N) : Prop := (n < 256)%N.
Definition u16 (n : N) : Prop := (n < 65536)%N.
Definition u32 (n : N) : Prop := (n < 4294967296)%N.
Definition short (b : bytes) : Prop := (N.of_nat (length b) < 65536)%N.

Definition wf_duid (d : duid) : Prop :=
  match d with
  | DLLT hw t _ => u16 hw /\ u32 t
  | DEN en _ => u32 en
  | DLL hw _ => u16 hw
  | DUUID u => length u = 16
  | DOpaque t _ => u16 t /\ t <> 1%N /\ t <> 2%N /\ t <> 3%N /\ t <> 4%N
  end.

(** label sets: freshly built from valid names, or obtained by decoding *)
Definition wf_labels (l : labels) : Prop :=
  (original l = None /\ Forall valid_name (names l)) \/ (exists b, labels_from (Some b) = Ok l).

Definition canon_labels (l : labels) : labels :=
  match original l with
  | None => mkLabels (Some (labels_to_bytes (names l))) (names l)
  | Some _ => l
  end.

Definition wf_ntpsub (s : ntpsub) : Prop :=
  match s with
  | NSrv a | NMC a => length a = 16
  | NFQDN l => wf_labels l /\ short (labels_bytes l)
  | NGen c d => u16 c /\ c <> 1%N /\ c <> 2%N /\ c <> 3%N /\ short d
  end.
Definition canon_ntpsub (s : ntpsub) : ntpsub :=
  match s with NFQDN l => NFQDN (canon_labels l) | _ => s end.

(** an embedded DHCPv4 packet is in the domain when its own round trip is defined (C01 / C06) *)
Definition wf_v4 (p : pkt4) : Prop := exists b p', enc4 p = Ok b /\ dec4 b = Ok p'.
Definition canon4 (p : pkt4) : pkt4 :=
  match enc4 p with
  | Ok b => match dec4 b with Ok p' => p' | _ => p end
  | _ => p
  end.

Fixpoint depth (o : opt6) : nat :=
  let dl := fix dl (l : list opt6) : nat := match l with [] => 0 | x :: r => Nat.max (depth x) (dl r) end in
  match o with
  | OIANA _ _ _ os | OIATA _ os | OIAAddr _ _ _ os | ORelayMsgM _ _ os | ORelayMsgR _ _ _ _ os
  | OIAPD _ _ _ os | OIAPrefix _ _ _ os | O4RD os => S (dl os)
  | _ => 0
  end.
Fixpoint depth_list (l : list opt6) : nat :=
  match l with [] => 0 | x :: r => Nat.max (depth x) (depth_list r) end.

Fixpoint wf_opt (o : opt6) : Prop :=
  let all := fix all (l : list opt6) : Prop := match l with [] => True | x :: r => wf_opt x /\ all r end in
  short (enc_val o) /\
  match o with
  | OClientID d | OServerID d => wf_duid d
  | OIANA iaid t1 t2 os | OIAPD iaid t1 t2 os => length iaid = 4 /\ u32 t1 /\ u32 t2 /\ all os
  | OIATA iaid os => length iaid = 4 /\ all os
  | OIAAddr a p v os => length a = 16 /\ u32 p /\ u32 v /\ all os
  | OORO cs => NoDup cs /\ Forall u16 cs
  | OElapsed t => u16 t
  | ORelayMsgM t xid os => u8 t /\ is_relay_type t = false /\ length xid = 3 /\ all os
  | ORelayMsgR t hop l p os => is_relay_type t = true /\ u8 hop /\ length l = 16 /\ length p = 16 /\ all os
  | OStatus c _ => u16 c
  | OUserClass cls => cls <> [] /\ Forall short cls
  | OVendorClass en ds => u32 en /\ ds <> [] /\ Forall short ds
  | OVendorOpts en subs => u32 en /\ Forall (fun s => u16 (fst s) /\ short (snd s)) subs
  | OInterfaceID _ | OBootURL _ => True
  | ODNS as_ | O4o6 as_ => Forall (fun a => length a = 16) as_
  | ODomainList l => wf_labels l
  | OIAPrefix p v pre os =>
      u32 p /\ u32 v /\
      match pre with Some (plen, a) => (1 <= plen <= 128)%N /\ length a = 16 | None => True end /\ all os
  | OInfoRefresh t => u32 t
  | ORemoteID en _ => u32 en
  | OFQDN f l => u8 f /\ wf_labels l
  | ONTP subs => Forall wf_ntpsub subs
  | OBootParam ps => Forall short ps
  | OArch archs => archs <> [] /\ Forall u16 archs
  | ONII t ma mi => u8 t /\ u8 ma /\ u8 mi
  | OClientLL hw _ => u16 hw
  | ODHCPv4 p => wf_v4 p
  | O4RD os => all os
  | O4RDMap p4l p6l ea _ p4 p6 => (p4l <= 32)%N /\ (p6l <= 128)%N /\ u8 ea /\ length p4 = 4 /\ length p6 = 16
  | O4RDNonMap _ tc pmtu => match tc with Some c => u8 c | None => True end /\ u16 pmtu
  | ORelayPort p => u16 p
  | OGeneric c _ => u16 c /\ classify c = KGeneric
  end.
Fixpoint wf_opts (l : list opt6) : Prop := match l with [] => True | x :: r => wf_opt x /\ wf_opts r end.

Lemma wf_opts_Forall l : wf_opts l <-> Forall wf_opt l.
Proof.
  induction l as [|x r IH]; cbn [wf_opts]; [split; constructor|].
  rewrite IH. split; [intros [A B]; constructor; assumption | intros H; inversion H; auto].
Qed.

Fixpoint canon (o : opt6) : opt6 :=
  match o with
  | OIANA i t1 t2 os => OIANA i t1 t2 (map canon os)
  | OIATA i os => OIATA i (map canon os)
  | OIAAddr a p v os => OIAAddr a p v (map canon os)
  | ORelayMsgM t x os => ORelayMsgM t x (map canon os)
  | ORelayMsgR t h l p os => ORelayMsgR t h l p (map canon os)
  | OIAPD i t1 t2 os => OIAPD i t1 t2 (map canon os)
  | OIAPrefix p v pre os => OIAPrefix p v pre (map canon os)
  | O4RD os => O4RD (map canon os)
  | ODomainList l => ODomainList (canon_labels l)
  | OFQDN f l => OFQDN f (canon_labels l)
  | ONTP subs => ONTP (map canon_ntpsub subs)
  | ODHCPv4 p => ODHCPv4 (canon4 p)
  | _ => o
  end.

Definition wf_msg (m : msg6) : Prop :=
  match m with
  | Msg t xid os => u8 t /\ is_relay_type t = false /\ length xid = 3 /\ wf_opts os
  | Relay t hop l p os => is_relay_type t = true /\ u8 hop /\ length l = 16 /\ length p = 16 /\ wf_opts os
  end.
Definition canon_msg (m : msg6) : msg6 :=
  match m with
  | Msg t xid os => Msg t xid (map canon os)
  | Relay t hop l p os => Relay t hop l p (map canon os)
  end.
Definition depth_msg (m : msg6) : nat :=
  match m with Msg _ _ os | Relay _ _ _ _ os => depth_list os end.
