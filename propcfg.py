# Per-property configuration for ./check (see DESIGN.md section 4).
#  coq_files   : prefixes (under theories/) whose build failure breaks this property's obligations
#  model_is_spec / spec_entries : entry points for which the model is the (proved) reference
#                reading, so that a model/Go disagreement is itself a property-failing input
#  rule        : how cases are generated and what counts as non-trivial (copied into evidence)
BASE = ["Base/", "Run.v", "Extract.v"]
PROPS = {
    "C19": {
        "coq_files": BASE + ["Label/", "Props/C19.v"],
        "spec_entries": [1],
        "rule": "exhaustive strings over the alphabet {0,1,2,3,63,64,0xC0,0xC1,0xFF,'a','.'} up to length 4 (quick) / 5 (thorough), "
                "random lists of 0..8 valid names (1..8 labels, lengths biased to 1/62/63) encoded and decoded, mutations of valid "
                "encodings (truncate, flip length, append/insert pointer, append junk), single edits of parsed sets, names around the "
                "253-octet limit; non-trivial = distinct case whose Go result is ok with a non-empty observable",
        "assumptions": ["the Go harness projects Labels to the exported Labels field and ToBytes()",
                        "model entry points 1-4 of Run.v are the functions the C19 theorems are about"],
        "trusted_base": ["modelled, not verified: rfc1035label/label.go (tied by the correspondence on the explored inputs)"],
    },
}
