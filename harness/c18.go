package main

import (
	"bytes"
	"encoding/binary"
	"fmt"
	"io"
	"net"
	"sync"
	"time"

	"github.com/insomniacslk/dhcp/dhcpv4/nclient4"
)

const (
	eRawWrite = 60
	eRawRead  = 61
)

// scriptConn is an in-memory net.PacketConn: ReadFrom hands out the scripted
// frames in order (copying at most len(p) octets, like a socket), WriteTo
// records what is written.
type scriptConn struct {
	frames  [][]byte
	written [][]byte
}

func (c *scriptConn) ReadFrom(p []byte) (int, net.Addr, error) {
	if len(c.frames) == 0 {
		return 0, nil, io.ErrClosedPipe
	}
	f := c.frames[0]
	c.frames = c.frames[1:]
	return copy(p, f), &net.UDPAddr{}, nil
}
func (c *scriptConn) WriteTo(p []byte, addr net.Addr) (int, error) {
	c.written = append(c.written, append([]byte{}, p...))
	return len(p), nil
}
func (c *scriptConn) Close() error                       { return nil }
func (c *scriptConn) LocalAddr() net.Addr                { return &net.UDPAddr{} }
func (c *scriptConn) SetDeadline(t time.Time) error      { return nil }
func (c *scriptConn) SetReadDeadline(t time.Time) error  { return nil }
func (c *scriptConn) SetWriteDeadline(t time.Time) error { return nil }

// slowConn takes the octets of its first write only when released.
type slowConn struct {
	scriptConn
	mu      sync.Mutex
	n       int
	entered chan struct{}
	release chan struct{}
	first   []byte
	second  []byte
}

func (c *slowConn) WriteTo(p []byte, addr net.Addr) (int, error) {
	c.mu.Lock()
	c.n++
	k := c.n
	c.mu.Unlock()
	if k == 1 {
		close(c.entered)
		<-c.release
		c.first = append([]byte{}, p...)
	} else {
		c.mu.Lock()
		c.second = append([]byte{}, p...)
		c.mu.Unlock()
	}
	return len(p), nil
}

func overlappedWrites(pa, pb, da []byte, dpa int, db []byte, dpb int, sip []byte, sport int) (fa, fb []byte, err error) {
	sc := &slowConn{entered: make(chan struct{}), release: make(chan struct{})}
	conn := nclient4.NewBroadcastUDPConn(sc, &net.UDPAddr{IP: ipArg(sip), Port: sport})
	done := make(chan error, 1)
	go func() {
		_, e := conn.WriteTo(pa, &net.UDPAddr{IP: ipArg(da), Port: dpa})
		done <- e
	}()
	select {
	case <-sc.entered:
	case e := <-done:
		return nil, nil, fmt.Errorf("first write ended without reaching the socket: %v", e)
	case <-time.After(10 * time.Second):
		return nil, nil, fmt.Errorf("first write did not reach the socket")
	}
	second := make(chan error, 1)
	go func() {
		_, e := conn.WriteTo(pb, &net.UDPAddr{IP: ipArg(db), Port: dpb})
		second <- e
	}()
	secondDone := false
	select {
	case e := <-second:
		secondDone = true
		if e != nil {
			close(sc.release)
			return nil, nil, e
		}
	case <-time.After(2 * time.Second):
		// a connection that serialises its writes: the second waits for the first, which is fine
	}
	close(sc.release)
	if e := <-done; e != nil {
		return nil, nil, e
	}
	if !secondDone {
		if e := <-second; e != nil {
			return nil, nil, e
		}
	}
	sc.mu.Lock()
	defer sc.mu.Unlock()
	return sc.first, sc.second, nil
}

func rawWrite(payload, dip []byte, dport int, sip []byte, sport int) ([]byte, error) {
	sc := &scriptConn{}
	conn := nclient4.NewBroadcastUDPConn(sc, &net.UDPAddr{IP: ipArg(sip), Port: sport})
	_, err := conn.WriteTo(payload, &net.UDPAddr{IP: ipArg(dip), Port: dport})
	if err != nil {
		return nil, err
	}
	if len(sc.written) != 1 {
		return nil, fmt.Errorf("wrote %d frames", len(sc.written))
	}
	return sc.written[0], nil
}

func init() {
	register(eRawWrite, "BroadcastRawUDPConn.WriteTo", func(a [][]byte) ([][]byte, error) {
		f, err := rawWrite(a[0], a[1], int(numArg(a[2])), a[3], int(numArg(a[4])))
		if err != nil {
			return nil, err
		}
		return [][]byte{f}, nil
	})
	register(eRawRead, "BroadcastRawUDPConn.ReadFrom", func(a [][]byte) ([][]byte, error) {
		var bound *net.UDPAddr
		switch numArg(a[0]) {
		case 0:
		case 1:
			bound = &net.UDPAddr{Port: int(numArg(a[2]))}
		default:
			bound = &net.UDPAddr{IP: net.IP(a[1]), Port: int(numArg(a[2]))}
		}
		sc := &scriptConn{}
		for _, f := range a[4:] {
			sc.frames = append(sc.frames, f)
		}
		conn := nclient4.NewBroadcastUDPConn(sc, bound)
		blen := int(numArg(a[3]))
		var out [][]byte
		for {
			if len(sc.frames) == 0 {
				break
			}
			b := make([]byte, blen)
			n, addr, err := conn.ReadFrom(b)
			if err == io.EOF {
				out = append(out, []byte{0xee})
				continue
			}
			if err != nil {
				break // script exhausted while skipping
			}
			ua := addr.(*net.UDPAddr)
			out = append(out, []byte{1}, b[:n], []byte(ua.IP), be16b(uint16(ua.Port)))
		}
		return out, nil
	})
	props["C18"] = genC18
}

// ---- independent RFC 791 / 768 / 1071 validator and frame builder

func onesSum(b []byte) uint32 {
	var s uint32
	for i := 0; i+1 < len(b); i += 2 {
		s += uint32(b[i])<<8 | uint32(b[i+1])
	}
	if len(b)%2 == 1 {
		s += uint32(b[len(b)-1]) << 8
	}
	for s>>16 != 0 {
		s = s&0xffff + s>>16
	}
	return s
}

func validateFrame(f, payload, sip, dip []byte, sport, dport int) string {
	if len(f) != 28+len(payload) {
		return fmt.Sprintf("frame length %d", len(f))
	}
	switch {
	case f[0] != 0x45:
		return "version/IHL"
	case int(binary.BigEndian.Uint16(f[2:4])) != 28+len(payload):
		return "total length"
	case f[9] != 17:
		return "protocol"
	case !bytes.Equal(f[12:16], sip) || !bytes.Equal(f[16:20], dip):
		return "addresses"
	case onesSum(f[:20]) != 0xffff:
		return "IPv4 header checksum does not verify"
	case int(binary.BigEndian.Uint16(f[20:22])) != sport || int(binary.BigEndian.Uint16(f[22:24])) != dport:
		return "ports"
	case int(binary.BigEndian.Uint16(f[24:26])) != 8+len(payload):
		return "UDP length"
	case !bytes.Equal(f[28:], payload):
		return "payload changed"
	}
	if binary.BigEndian.Uint16(f[26:28]) != 0 {
		pseudo := append(append(append([]byte{}, f[12:20]...), 0, 17), f[24:26]...)
		if onesSum(append(pseudo, f[20:]...)) != 0xffff {
			// pseudo has even length, so concatenation keeps word alignment
			return "UDP checksum does not verify"
		}
	}
	return ""
}

type frameSpec struct {
	ihl        int
	tlenDelta  int // total length = ihl*4 + 8 + len(payload) + delta
	proto      byte
	version    byte
	sip, dip   []byte
	sport      int
	dport      int
	payload    []byte
	trailing   int
	truncateTo int // -1 = none
}

func buildFrame(s frameSpec) []byte {
	hl := s.ihl * 4
	if hl < 12 {
		hl = 12 // room for the fixed fields; IHL still says less
	}
	h := make([]byte, hl)
	h[0] = s.version<<4 | byte(s.ihl)
	tl := s.ihl*4 + 8 + len(s.payload) + s.tlenDelta
	if tl < 0 {
		tl = 0
	}
	binary.BigEndian.PutUint16(h[2:4], uint16(tl))
	h[8], h[9] = 64, s.proto
	if len(h) >= 20 {
		copy(h[12:16], s.sip)
		copy(h[16:20], s.dip)
	}
	u := make([]byte, 8)
	binary.BigEndian.PutUint16(u[0:2], uint16(s.sport))
	binary.BigEndian.PutUint16(u[2:4], uint16(s.dport))
	binary.BigEndian.PutUint16(u[4:6], uint16(8+len(s.payload)))
	f := append(append(h, u...), s.payload...)
	f = append(f, make([]byte, s.trailing)...)
	if s.truncateTo >= 0 && s.truncateTo < len(f) {
		f = f[:s.truncateTo]
	}
	return f
}

// wellFormedFor: the specification of what ReadFrom must deliver.
func wellFormedFor(f []byte, boundIP []byte, boundPort int, blen int) (payload, src []byte, sport int, ok bool) {
	if len(f) > 68+blen {
		f = f[:68+blen]
	}
	if len(f) < 20 || f[0]>>4 != 4 {
		return
	}
	ihl := int(f[0]&0xf) * 4
	tl := int(binary.BigEndian.Uint16(f[2:4]))
	if ihl < 20 || tl < ihl+8 || tl > len(f) || f[9] != 17 {
		return
	}
	if boundPort >= 0 && int(binary.BigEndian.Uint16(f[ihl+2:ihl+4])) != boundPort {
		return
	}
	if boundIP != nil && !net.IP(boundIP).Equal(net.IP(f[16:20])) {
		return
	}
	p := f[ihl+8 : tl]
	if len(p) > blen {
		p = p[:blen]
	}
	return p, f[12:16], int(binary.BigEndian.Uint16(f[ihl : ihl+2])), true
}

func genC18(r *Run) {
	evals := 0
	// writes: all payload lengths 0..1500 x fills
	maxLen := 1500
	fills := r.N(1, 4)
	for n := 0; n <= maxLen; n++ {
		for k := 0; k < fills; k++ {
			var p []byte
			switch (n + k) % 4 {
			case 0:
				p = make([]byte, n)
			case 1:
				p = bytes.Repeat([]byte{0xff}, n)
			case 2:
				p = bytes.Repeat([]byte{0xaa, 0x55}, n)[:n]
			default:
				p = r.Bytes(n)
			}
			sip, dip := r.Bytes(4), r.Bytes(4)
			switch r.Rng.Intn(6) {
			case 0:
				sip, dip = []byte{0, 0, 0, 0}, []byte{255, 255, 255, 255}
			case 1:
				sip, dip = []byte{255, 255, 255, 255}, []byte{255, 255, 255, 255}
			}
			sport, dport := r.Pick(68, 0, 65535, r.Rng.Intn(65536)), r.Pick(67, 0, 65535, r.Rng.Intn(65536))
			f, err := rawWrite(p, dip, dport, sip, sport)
			evals++
			cs := Case{eRawWrite, [][]byte{p, dip, be16b(uint16(dport)), sip, be16b(uint16(sport))}}.Line()
			if err != nil {
				r.Fail("write-error", trunc(cs, 400), err.Error())
				continue
			}
			if bad := validateFrame(f, p, sip, dip, sport, dport); bad != "" {
				r.Fail("write-"+bad, trunc(cs, 400), bad)
			}
			if n%7 == 0 || n < 40 || k == 0 && n%3 == 0 {
				r.Add(eRawWrite, p, dip, be16b(uint16(dport)), sip, be16b(uint16(sport)))
			}
			// read back what was written
			if pl, src, sp, ok := wellFormedFor(f, dip, dport, 2000); !ok || !bytes.Equal(pl, p) || !bytes.Equal(src, sip) || sp != sport {
				r.Fail("write-read", trunc(cs, 400), "a written frame is not well-formed for its own destination")
			}
		}
	}
	// writes that overlap in time on ONE connection (a net.PacketConn may be used by several goroutines at once, and
	// the client writes from concurrent calls): the socket below takes the octets of the first write only when it is
	// released, after a second write has been made meanwhile, as a socket with a full send queue does; each frame
	// must still be the frame of its own datagram
	for i := 0; i < r.N(40, 400); i++ {
		pa, pb := r.Bytes(1+r.Rng.Intn(600)), r.Bytes(1+r.Rng.Intn(600))
		switch i % 4 {
		case 0:
			pb = r.Bytes(len(pa))
		case 1:
			pb = r.Bytes(len(pa) + 1 + r.Rng.Intn(300))
		}
		sip, da, db := r.Bytes(4), r.Bytes(4), r.Bytes(4)
		sport, dpa, dpb := 68, 67, 1+r.Rng.Intn(65535)
		fa, fb, err := overlappedWrites(pa, pb, da, dpa, db, dpb, sip, sport)
		evals++
		cs := fmt.Sprintf("first %s to %s:%d, second %s to %s:%d", trunc(hx(pa), 100), hx(da), dpa, trunc(hx(pb), 100), hx(db), dpb)
		if err != nil {
			r.Fail("overlapping-writes", cs, err.Error())
			break
		}
		if bad := validateFrame(fa, pa, sip, da, sport, dpa); bad != "" {
			r.Fail("overlapping-writes", cs, "the frame of a write that was still in the socket when another write was made is not the frame of its datagram: "+bad)
			break
		}
		if bad := validateFrame(fb, pb, sip, db, sport, dpb); bad != "" {
			r.Fail("overlapping-writes", cs, "the frame of a write made while an earlier one was still in the socket is not the frame of its datagram: "+bad)
			break
		}
	}
	// one connection, one destination address OBJECT whose IP (and port) the caller changes between writes, as a loop
	// over a list of servers does: each frame is for the address the object held when it was written
	{
		sc := &scriptConn{}
		sip := r.Bytes(4)
		conn := nclient4.NewBroadcastUDPConn(sc, &net.UDPAddr{IP: ipArg(sip), Port: 68})
		dst := &net.UDPAddr{IP: net.IP{10, 0, 0, 5}, Port: 67}
		for i := 0; i < r.N(30, 300); i++ {
			dip := r.Bytes(4)
			if i%3 == 0 {
				copy(dst.IP.To4(), dip) // changed in place
			} else {
				dst.IP = net.IP(dip)
			}
			if i%5 == 4 {
				dst.Port = 1 + r.Rng.Intn(65535)
			}
			p := r.Bytes(1 + r.Rng.Intn(300))
			before := len(sc.written)
			_, err := conn.WriteTo(p, dst)
			evals++
			cs := fmt.Sprintf("write %d on one connection through one *net.UDPAddr now holding %s", i, dst)
			if err != nil || len(sc.written) != before+1 {
				r.Fail("write-through-reused-address", cs, fmt.Sprintf("error %v, %d frames written", err, len(sc.written)-before))
				break
			}
			if bad := validateFrame(sc.written[before], p, sip, dip, 68, dst.Port); bad != "" {
				r.Fail("write-through-reused-address", cs, "the frame is not the frame of this datagram to this address: "+bad)
				break
			}
		}
	}
	// 16-octet / nil addresses (outside the claim; the model must agree)
	r.Add(eRawWrite, []byte{1, 2, 3}, append(append(make([]byte, 10), 0xff, 0xff), 10, 0, 0, 1), []byte{0, 67}, nil, []byte{0, 68})
	r.Add(eRawWrite, []byte{1, 2, 3}, r.Bytes(16), []byte{0, 67}, r.Bytes(4), []byte{0, 68})

	// reads: sequences of frames
	nseq := r.N(1500, 100000)
	for i := 0; i < nseq; i++ {
		boundKind := r.Rng.Intn(3)
		bip := r.Bytes(4)
		if r.Rng.Intn(4) == 0 { // bound addresses that are "special" elsewhere: unspecified, limited broadcast, loopback
			bip = [][]byte{{0, 0, 0, 0}, {255, 255, 255, 255}, {127, 0, 0, 1}}[r.Rng.Intn(3)]
		}
		if boundKind == 2 && r.Rng.Intn(3) == 0 {
			bip = append(append(make([]byte, 10), 0xff, 0xff), bip...) // 16-octet form of the bound address
		}
		bport := r.Pick(68, 68, 0, 546)
		blen := r.Pick(0, 10, 300, 576, 1500, 1500)
		var frames [][]byte
		var expect [][]byte
		for k := r.Rng.Intn(6); k >= 0; k-- {
			s := frameSpec{ihl: 5, proto: 17, version: 4, sip: r.Bytes(4), dip: bip[len(bip)-4:], sport: r.Rng.Intn(65536), dport: bport, truncateTo: -1}
			s.payload = r.Bytes(r.Pick(0, 1, 7, 8, 9, 240, 300, 600))
			if r.Rng.Intn(5) == 0 {
				s.sport = bport // relay to server: 67 to 67; the sender may even sit at the bound address
				if r.Rng.Intn(2) == 0 {
					s.sip = s.dip
				}
			}
			if r.Rng.Intn(4) == 0 {
				// total lengths around the multiples of 256 (the low octet of the length field near 0 .. header size):
				// a check that looks at one octet of a 16-bit field goes wrong exactly there
				tl := 256*(1+r.Rng.Intn(5)) - 3 + r.Rng.Intn(28)
				s.payload = r.Bytes(tl - 28)
			}
			nmut := 1
			if r.Rng.Intn(3) == 0 {
				nmut = 2 // two deviations at once (options + short total length, padding + other port, ...)
			}
			for ; nmut > 0; nmut-- {
			switch r.Rng.Intn(16) {
			case 11, 12: // IP options and a total length around the header length (below it, at it, just above it)
				s.ihl = 6 + r.Rng.Intn(10)
				tl := r.Pick(0, 19, 20, 21, s.ihl*4-4, s.ihl*4-1, s.ihl*4, s.ihl*4+1, s.ihl*4+7, s.ihl*4+8, s.ihl*4+9)
				s.tlenDelta = tl - (s.ihl*4 + 8 + len(s.payload))
				if r.Rng.Intn(2) == 0 {
					s.truncateTo = maxInt(tl, 0) // the frame ends where the total length says
				}
			case 0:
				s.ihl = 6 + r.Rng.Intn(10)
			case 1:
				s.trailing = 1 + r.Rng.Intn(20)
			case 2:
				s.tlenDelta = -(1 + r.Rng.Intn(len(s.payload)+12))
			case 3:
				s.tlenDelta = 1 + r.Rng.Intn(30)
			case 4:
				s.version = byte(r.Pick(0, 5, 6, 15))
			case 5:
				s.proto = byte(r.Pick(6, 1, 0, 255))
			case 6:
				s.truncateTo = r.Rng.Intn(28 + len(s.payload))
			case 7:
				s.dport = bport + 1
			case 8:
				s.dip = [][]byte{r.Bytes(4), {0, 0, 0, 0}, {255, 255, 255, 255}, {10, 0, 0, 7}}[r.Rng.Intn(4)]
			case 9:
				s.ihl = r.Rng.Intn(5)
			case 10:
				s.trailing = 30
				s.tlenDelta = -len(s.payload) - 1 - r.Rng.Intn(8) // total length leaves < 8 octets of IP payload (F1)
			}
			}
			f := buildFrame(s)
			// the header fields delivery does not depend on, as senders fill them: type of service, identification,
			// the Don't-Fragment flag (set by every ordinary UDP socket), time to live, header checksum, IP option octets
			if r.Rng.Intn(2) == 0 && len(f) >= 20 {
				f[1] = byte(r.n8())
				copy(f[4:6], r.Bytes(2))
				if r.Rng.Intn(3) != 0 {
					f[6], f[7] = 0x40, 0
				}
				f[8] = byte(r.n8())
				copy(f[10:12], r.Bytes(2))
				if hl := int(f[0]&0xf) * 4; hl > 20 && hl <= len(f) && r.Rng.Intn(2) == 0 {
					copy(f[20:hl], r.Bytes(hl-20))
				}
			}
			if r.Rng.Intn(40) == 0 {
				f = []byte{}
			}
			frames = append(frames, f)
			if len(f) == 0 {
				expect = append(expect, []byte{0xee})
				continue
			}
			var bi []byte
			bp := -1
			if boundKind >= 1 {
				bp = bport
			}
			if boundKind == 2 {
				bi = bip
			}
			if pl, src, sp, ok := wellFormedFor(f, bi, bp, blen); ok {
				expect = append(expect, []byte{1}, pl, src, be16b(uint16(sp)))
			}
		}
		args := [][]byte{{byte(boundKind)}, bip, be16b(uint16(bport)), be16b(uint16(blen))}
		args = append(args, frames...)
		r.Add(eRawRead, args...)
		// direct oracle: the real reader delivers exactly the well-formed frames, in order
		c := Case{eRawRead, args}
		got := RunGo(c)
		want := "ok"
		for _, e := range expect {
			want += " " + hx(e)
		}
		evals++
		if got != want {
			clause := "read-exact"
			if got == "panic" {
				clause = "read-panics"
			}
			r.Fail(clause, trunc(c.Line(), 1500), "reader output differs from the RFC 791/768 specification: got "+trunc(got, 300)+" want "+trunc(want, 300))
		}
	}
	r.Extra["oracle_evaluations"] = evals
}
