(** C20 — Reading or printing a message never changes it. *)
From DV Require Import Base.Bytes V4.Model Purity.Model.

(** In a pure model a read-only operation cannot mutate, so these statements
    are shallow by nature: they fix WHAT is claimed (any sequence of read-only
    operations, of any length, leaves the value — hence its later encoding and
    all other accessor results — unchanged, and repeated calls return equal
    results).  The deciding part is the harness, which runs every niladic
    exported method found by reflection in sequences on the real code. *)
Theorem C20_preserved : forall (ops : list ro_op) (l : list byte), fold_left (fun v op => fst (rd op v)) ops l = l.
Proof. exact rd_sequence_preserves. Qed.
Print Assumptions C20_preserved.

Theorem C20_repeatable : forall op l, snd (rd op (fst (rd op l))) = snd (rd op l).
Proof. exact rd_repeatable. Qed.
Print Assumptions C20_repeatable.

(** the defect of the pinned tree (OptionCodeList.String sorting its receiver), kept refutable *)
Theorem C20_refuted_on_pinned_code : exists l, fst (prl_string false l) <> l.
Proof. exact prl_string_pinned_refuted. Qed.
Print Assumptions C20_refuted_on_pinned_code.
