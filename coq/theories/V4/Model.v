(** DHCPv4 packet codec: executable model of DHCPv4.ToBytes, Options.Marshal,
    sortedKeys, FromBytes and Options.fromBytesCheckEnd
    (dhcpv4/dhcpv4.go, dhcpv4/options.go). *)
From DV Require Import Base.Bytes.

(** net.IP: [None] = nil slice. *)
Definition goip := option bytes.
Definition v4_in_v6_prefix : bytes := zeros 10 ++ [xff; xff].

(** net.IP.To4 *)
Definition to4 (ip : bytes) : option bytes :=
  if length ip =? 4 then Some ip
  else if (length ip =? 16) && bytes_eqb (firstn 12 ip) v4_in_v6_prefix then Some (skipn 12 ip)
  else None.

(** Options: Go map uint8 -> []byte as an association list with unique keys. *)
Definition optmap := list (byte * bytes).

Fixpoint lookup (c : byte) (m : optmap) : option bytes :=
  match m with
  | [] => None
  | (k, v) :: m' => if beqb k c then Some v else lookup c m'
  end.

(** o[code] = append(o[code], data...) *)
Fixpoint append_opt (m : optmap) (c : byte) (d : bytes) : optmap :=
  match m with
  | [] => [(c, d)]
  | (k, v) :: m' => if beqb k c then (k, v ++ d) :: m' else (k, v) :: append_opt m' c d
  end.

(** o[code] = value *)
Fixpoint update_opt (m : optmap) (c : byte) (d : bytes) : optmap :=
  match m with
  | [] => [(c, d)]
  | (k, v) :: m' => if beqb k c then (k, d) :: m' else (k, v) :: update_opt m' c d
  end.

Fixpoint delete_opt (m : optmap) (c : byte) : optmap :=
  match m with
  | [] => []
  | (k, v) :: m' => if beqb k c then m' else (k, v) :: delete_opt m' c
  end.

Record pkt4 := mkPkt4 {
  p_op : N;          (* OpCode uint8 *)
  p_hwtype : N;      (* HWType uint16 *)
  p_hops : N;        (* uint8 *)
  p_xid : bytes;     (* [4]byte *)
  p_secs : N;        (* uint16 *)
  p_flags : N;       (* uint16 *)
  p_ciaddr : goip; p_yiaddr : goip; p_siaddr : goip; p_giaddr : goip;
  p_chaddr : bytes;
  p_sname : bytes;   (* Go strings *)
  p_file : bytes;
  p_opts : optmap
}.

Definition cookie : bytes := [n2b 99; n2b 130; n2b 83; n2b 99].
Definition opt_pad : byte := x00.
Definition opt_agent_info : byte := n2b 82.
Definition opt_end : byte := xff.

(** * Encoding *)

(** copy(dst[:n], src) into a zeroed array of [total] octets *)
Definition copy_into (total n : nat) (src : bytes) : bytes :=
  let c := firstn n src in c ++ zeros (total - length c).

Definition write_ip (ip : goip) : res bytes :=
  match ip with
  | None => Ok (zeros 4)
  | Some b => match to4 b with
              | Some b4 => Ok b4            (* ip[:4] of a 4-octet slice *)
              | None => Panic               (* nil[:4] *)
              end
  end.

(** insertion sort of option codes by numeric value *)
Fixpoint insert_code (c : byte) (l : list byte) : list byte :=
  match l with
  | [] => [c]
  | x :: l' => if (b2n c <=? b2n x)%N then c :: l else x :: insert_code c l'
  end.
Fixpoint sort_codes (l : list byte) : list byte :=
  match l with [] => [] | c :: l' => insert_code c (sort_codes l') end.

(** sortedKeys: ascending, 82 then 255 moved last *)
Definition sorted_keys (m : optmap) : list byte :=
  let ks := map fst m in
  let plain := filter (fun k => negb (beqb k opt_agent_info) && negb (beqb k opt_end)) ks in
  sort_codes plain
  ++ (if existsb (beqb opt_agent_info) ks then [opt_agent_info] else [])
  ++ (if existsb (beqb opt_end) ks then [opt_end] else []).

(** split a non-empty value into instances of at most 255 octets *)
Fixpoint chunks (fuel : nat) (v : bytes) : list bytes :=
  match fuel with
  | O => []
  | S f => if length v <=? 255 then [v] else firstn 255 v :: chunks f (skipn 255 v)
  end.

Definition marshal_opt (c : byte) (v : bytes) : bytes :=
  match v with
  | [] => [c; x00]
  | _ => flat_map (fun ch => c :: n2b (N.of_nat (length ch)) :: ch) (chunks (length v) v)
  end.

Definition marshal (m : optmap) : bytes :=
  flat_map (fun c =>
    if beqb c opt_end || beqb c opt_pad then []
    else match lookup c m with Some v => marshal_opt c v | None => [] end)
  (sorted_keys m).

Definition bootp_min_len : nat := 300.
Definition pad_to (n : nat) (body : bytes) : bytes := body ++ zeros (n - length body).

Definition enc4 (p : pkt4) : res bytes :=
  let* ci := write_ip (p_ciaddr p) in
  let* yi := write_ip (p_yiaddr p) in
  let* si := write_ip (p_siaddr p) in
  let* gi := write_ip (p_giaddr p) in
  let body :=
    [n2b (p_op p); n2b (p_hwtype p); n2b (N.of_nat (length (p_chaddr p))); n2b (p_hops p)]
    ++ copy_into 4 4 (p_xid p) ++ be16 (p_secs p) ++ be16 (p_flags p)
    ++ ci ++ yi ++ si ++ gi
    ++ copy_into 16 16 (p_chaddr p)
    ++ copy_into 64 63 (p_sname p)
    ++ copy_into 128 127 (p_file p)
    ++ cookie ++ marshal (p_opts p) ++ [opt_end] in
  Ok (pad_to bootp_min_len body).

(** * Decoding *)

(** fromBytesCheckEnd's loop; returns the map and whether End was read. *)
Fixpoint opts_loop (fuel : nat) (d : bytes) (acc : optmap) : res (optmap * bool) :=
  match fuel with
  | O => Fuel
  | S f =>
    match d with
    | [] => Ok (acc, false)
    | c :: r =>
      if beqb c opt_pad then opts_loop f r acc
      else if beqb c opt_end then Ok (acc, true)
      else match r with
           | [] => Err                                  (* no length octet (sticky error checked) *)
           | n :: r' =>
             if length r' <? bnat n then Err            (* Consume(length) == nil *)
             else opts_loop f (skipn (bnat n) r') (append_opt acc c (firstn (bnat n) r'))
           end
    end
  end.

Definition opts_from_bytes (data : bytes) (check_end : bool) (acc : optmap) : res optmap :=
  match data with
  | [] => Ok acc
  | _ => let* (m, e) := opts_loop (S (length data)) data acc in
         if negb e && check_end then Err else Ok m
  end.

(** strings.Index(s, "\x00") cut *)
Fixpoint cut_nul (s : bytes) : bytes :=
  match s with [] => [] | c :: s' => if beqb c x00 then [] else c :: cut_nul s' end.

(** FromBytes.  The Go code reads field after field from a Lexer whose
    short reads are sticky and checks the error once, after the cookie: the
    packet is rejected iff any of these reads is short.  The reads are modelled
    as sequential [take]s that fail at the first short one. *)
Definition dec4 (q : bytes) : res pkt4 :=
  match take 4 q with
  | Some ([op; hw; hl; hops], q) =>
    let* (xid, q) := of_opt (take 4 q) in
    let* (secs, q) := of_opt (take 2 q) in
    let* (flags, q) := of_opt (take 2 q) in
    let* (ci, q) := of_opt (take 4 q) in
    let* (yi, q) := of_opt (take 4 q) in
    let* (si, q) := of_opt (take 4 q) in
    let* (gi, q) := of_opt (take 4 q) in
    let* (ch, q) := of_opt (take 16 q) in
    let* (sn, q) := of_opt (take 64 q) in
    let* (fl, q) := of_opt (take 128 q) in
    let* (ck, q) := of_opt (take 4 q) in
    if negb (bytes_eqb ck cookie) then Err
    else
      let* o := opts_from_bytes q true [] in
      Ok (mkPkt4 (b2n op) (b2n hw) (b2n hops) xid (n_of_be secs) (n_of_be flags)
                 (Some ci) (Some yi) (Some si) (Some gi)
                 (firstn (Nat.min (bnat hl) 16) ch)
                 (cut_nul sn) (cut_nul fl) o)
  | _ => Err
  end.
