#!/bin/bash
# usage: seedproc.sh <worktree-prefix> <round-letter> <Cxx>...   (confirm, store, drop the worktree, run the checks)
cd "$(dirname "$0")/.."
PFX=$1; R=$2; shift 2
ids=""
for p in "$@"; do
  tools/seedconfirm.sh /tmp/$PFX-$p $p-$R 2>&1 | tail -2
  git -C /repo worktree remove --force /tmp/$PFX-$p
  [ -d seeded/$p-$R ] && ids="$ids $p-$R"
done
[ -n "$ids" ] && python3 tools/seedtest.py $ids 2>&1 | grep -v "^clean"
