(** C17: DHCPv4 typed accessors (dhcpv4/dhcpv4.go:577-885 and the value types'
    FromBytes) as functions of the option's raw value.  [Options.Get(code)]
    is [None] when the option is absent or its value is Go's nil slice (a
    zero-length option decoded from the wire). *)
From DV Require Import Base.Bytes Label.Model V4.Model V4.OptProofs V6.Model.

Definition get_opt (m : optmap) (c : byte) : option bytes :=
  match lookup c m with Some [] => None | x => x end.

(** * value types (RFC 2132 and friends) *)

(** IP / IPMask: exactly 4 octets *)
Definition val_ip4 (v : bytes) : option bytes := if length v =? 4 then Some v else None.

(** IPs: non-empty multiple of 4 *)
Fixpoint chunk4 (v : bytes) : option (list bytes) :=
  match v with
  | [] => Some []
  | a :: b :: c :: d :: r => match chunk4 r with Some l => Some ([a; b; c; d] :: l) | None => None end
  | _ => None
  end.
Definition val_ips (v : bytes) : option (list bytes) :=
  match v with [] => None | _ => chunk4 v end.

(** Duration: exactly 4 octets, big-endian seconds *)
Definition val_u32 (v : bytes) : option N :=
  match v with [a; b; c; d] => Some (rd32 a b c d) | _ => None end.
Definition val_u16 (v : bytes) : option N :=
  match v with [a; b] => Some (rd16 a b) | _ => None end.
Definition val_u8 (v : bytes) : option N :=
  match v with [a] => Some (b2n a) | _ => None end.

(** strings.TrimRight(s, "\x00") *)
Definition trim_nul (s : bytes) : bytes :=
  rev ((fix drop (l : bytes) := match l with c :: r => if beqb c x00 then drop r else l | [] => [] end) (rev s)).

(** Strings (RFC 3004 user class): non-empty; items (len >= 1, data) tiling the value *)
Fixpoint val_strings (fuel : nat) (v : bytes) : res (list bytes) :=
  match fuel with
  | O => Fuel
  | S f =>
    match v with
    | [] => Ok []
    | n :: r =>
      if bnat n =? 0 then Err
      else match take (bnat n) r with
           | Some (x, r') => let* xs := val_strings f r' in Ok (x :: xs)
           | None => Err
           end
    end
  end.
Definition strings_from (v : bytes) : res (list bytes) :=
  match v with [] => Err | _ => val_strings (S (length v)) v end.

(** VIVC identifiers: (enterprise:4, len:1, data:len)*, loop needs 5 octets, nothing may be left *)
Fixpoint val_vivc (fuel : nat) (v : bytes) : res (list (N * bytes)) :=
  match fuel with
  | O => Fuel
  | S f =>
    match v with
    | a :: b :: c :: d :: n :: r =>
      match take (bnat n) r with
      | Some (x, r') => let* xs := val_vivc f r' in Ok ((rd32 a b c d, x) :: xs)
      | None => Err
      end
    | [] => Ok []
    | _ => Err
    end
  end.
Definition vivc_from (v : bytes) : res (list (N * bytes)) := val_vivc (S (length v)) v.

(** classless static routes (RFC 3442): (width <= 32, ceil(width/8) destination octets, router:4)* *)
Record route := mkRoute { r_ones : N; r_dest : bytes; r_router : bytes }.
Fixpoint val_routes (fuel : nat) (v : bytes) : res (list route) :=
  match fuel with
  | O => Fuel
  | S f =>
    match v with
    | [] => Ok []
    | w :: r =>
      if (32 <? b2n w)%N then Err
      else
        let dlen := N.to_nat ((b2n w + 7) / 8) in
        match take dlen r with
        | Some (dst, r1) =>
          match take 4 r1 with
          | Some (gw, r2) =>
            let* rs := val_routes f r2 in
            Ok (mkRoute (b2n w) (dst ++ zeros (4 - dlen)) gw :: rs)
          | None => Err
          end
        | None => Err
        end
    end
  end.
Definition routes_from (v : bytes) : res (list route) := val_routes (S (length v)) v.

(** architecture list: non-empty, even *)
Definition archs_from (v : bytes) : res (list N) :=
  match v with [] => Err | _ => many_u16 v end.

(** * the accessors *)
Definition opt_res {A} (r : res A) : option A := match r with Ok a => Some a | _ => None end.

Definition acc_ip (g : option bytes) : option bytes :=
  match g with None => None | Some v => val_ip4 v end.
Definition acc_ips (g : option bytes) : option (list bytes) :=
  match g with None => None | Some v => val_ips v end.
Definition acc_string (g : option bytes) : bytes := obytes g.
Definition acc_string_trim (g : option bytes) : bytes := trim_nul (obytes g).
Definition acc_duration (g : option bytes) : option N :=
  match g with None => None | Some v => val_u32 v end.
Definition acc_u16 (g : option bytes) : option N :=
  match g with None => None | Some v => val_u16 v end.
Definition acc_u8 (g : option bytes) : option N :=
  match g with None => None | Some v => val_u8 v end.
Definition acc_prl (g : option bytes) : option bytes := g.
Definition acc_relay (g : option bytes) : option optmap :=
  match g with None => None | Some v => opt_res (opts_from_bytes v false []) end.
Definition acc_user_class (g : option bytes) : option (list bytes) :=
  match g with
  | None => None
  | Some v => match strings_from v with Ok l => Some l | _ => Some [v] end
  end.
Definition acc_vivc (g : option bytes) : option (list (N * bytes)) :=
  match g with None => None | Some v => opt_res (vivc_from v) end.
Definition acc_archs (g : option bytes) : option (list N) :=
  match g with None => None | Some v => opt_res (archs_from v) end.
Definition acc_domain_search (g : option bytes) : option (list bytes) :=
  match g with None => None | Some v => opt_res (labels_from_bytes v) end.
Definition acc_routes (g : option bytes) : option (list route) :=
  match g with None => None | Some v => opt_res (routes_from v) end.
