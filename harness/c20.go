package main

import (
	"strings"
	"sort"
	"math/rand"
	"bytes"
	"fmt"
	"net"
	"reflect"
	"time"

	"github.com/insomniacslk/dhcp/dhcpv4"
	"github.com/insomniacslk/dhcp/dhcpv6"
	"github.com/insomniacslk/dhcp/iana"
	"github.com/insomniacslk/dhcp/rfc1035label"
)

func init() { props["C20"] = genC20 }

// readOnlyMethods lists the bound niladic exported methods of v (plus methods
// taking one time.Duration default), excluding the documented mutators.
func readOnlyMethods(v reflect.Value) []int {
	var out []int
	t := v.Type()
	for i := 0; i < t.NumMethod(); i++ {
		name := t.Method(i).Name
		switch name {
		case "SetBroadcast", "SetUnicast", "FromBytes", "Add", "Del", "Update", "UpdateOption", "AddOption", "DeleteOption":
			continue
		}
		mt := v.Method(i).Type()
		if mt.NumIn() == 0 || (mt.NumIn() == 1 && mt.In(0) == durType) {
			out = append(out, i)
		}
	}
	return out
}

func callRO(v reflect.Value, i int) (outs []interface{}, panicked interface{}) {
	defer func() { panicked = recover() }()
	var args []reflect.Value
	if v.Method(i).Type().NumIn() == 1 {
		args = []reflect.Value{reflect.ValueOf(time.Duration(7))}
	}
	for _, o := range v.Method(i).Call(args) {
		if o.CanInterface() {
			outs = append(outs, o.Interface())
		}
	}
	return
}

// sameResults compares the results of two calls; values that print identically are equal enough
func sameResults(a, b []interface{}) bool {
	if reflect.DeepEqual(a, b) {
		return true
	}
	return fmt.Sprintf("%v", a) == fmt.Sprintf("%v", b)
}

type subject struct {
	what string
	v    reflect.Value
	enc  func() []byte // the encoding that must not change
	more func() string // further observables (accessor results)
}

var c20Order int

func exerciseC20(r *Run, s subject, maxSeq int) int {
	ms := readOnlyMethods(s.v)
	if len(ms) == 0 {
		return 0
	}
	n := 0
	t := s.v.Type()
	// Two orders, one per generation pass (one instance cannot be observed both ways):
	// pass 0: the encoding is taken first, then every method must leave it unchanged;
	// pass 1: every method is called first, then the value is encoded, then the methods must still return what they
	// returned before anything was encoded (encoding is a read-only operation too).
	pre := map[int][]interface{}{}
	if c20Order%2 == 1 {
		for _, m := range ms {
			if o, p := callRO(s.v, m); p == nil {
				pre[m] = o
			}
		}
	}
	enc0 := append([]byte{}, s.enc()...)
	for _, m := range ms {
		if want, ok := pre[m]; ok {
			if o, p := callRO(s.v, m); p == nil && !sameResults(want, o) {
				r.Fail("c20-result-changed-by-encoding", s.what, fmt.Sprintf("%s returned %v before the value was encoded and %v after", t.Method(m).Name, want, o))
				return n
			}
		}
	}
	more0 := ""
	if s.more != nil {
		more0 = s.more()
	}
	// all sequences of length 1, then sampled longer ones
	var seqs [][]int
	for _, m := range ms {
		seqs = append(seqs, []int{m})
	}
	for k := 0; k < r.N(6, 30); k++ {
		l := 2 + r.Rng.Intn(maxSeq-1)
		var sq []int
		for j := 0; j < l; j++ {
			sq = append(sq, ms[r.Rng.Intn(len(ms))])
		}
		seqs = append(seqs, sq)
	}
	for _, sq := range seqs {
		var names []string
		for _, m := range sq {
			name := t.Method(m).Name
			names = append(names, name)
			o1, p1 := callRO(s.v, m)
			o2, p2 := callRO(s.v, m)
			n += 2
			if p1 != nil || p2 != nil {
				r.Fail("c20-panic", s.what, fmt.Sprintf("%s: %v %v", name, p1, p2))
				return n
			}
			if !sameResults(o1, o2) {
				r.Fail("c20-repeated-call-differs", s.what, fmt.Sprintf("%s returned %v then %v", name, o1, o2))
				return n
			}
			if e := s.enc(); !bytes.Equal(e, enc0) {
				r.Fail("c20-encoding-changed", s.what, fmt.Sprintf("after %v: encoding %x became %x", names, trunc2(enc0, 200), trunc2(e, 200)))
				return n
			}
			if s.more != nil {
				if m1 := s.more(); m1 != more0 {
					r.Fail("c20-accessor-results-changed", s.what, fmt.Sprintf("after %v: %s", names, trunc(firstDiff(more0, m1), 300)))
					return n
				}
			}
		}
	}
	return n
}

// exerciseFuncs6: the exported package-level functions that take a message to read it.
func exerciseFuncs6(r *Run, what string, m dhcpv6.DHCPv6) int {
	show := func(x interface{}, err error) string {
		if d, ok := x.(dhcpv6.DHCPv6); ok && d != nil && !reflect.ValueOf(d).IsNil() {
			return fmt.Sprintf("%x %v", safeBytes6(d), err)
		}
		return fmt.Sprintf("%v %v", x, err)
	}
	fs := []struct {
		name string
		f    func() string
	}{
		{"ExtractMAC", func() string { return show(dhcpv6.ExtractMAC(m)) }},
		{"DecapsulateRelay", func() string { return show(dhcpv6.DecapsulateRelay(m)) }},
		{"DecapsulateRelayIndex(0)", func() string { return show(dhcpv6.DecapsulateRelayIndex(m, 0)) }},
		{"DecapsulateRelayIndex(-1)", func() string { return show(dhcpv6.DecapsulateRelayIndex(m, -1)) }},
		{"GetTransactionID", func() string { return show(dhcpv6.GetTransactionID(m)) }},
		{"OptRelayMessage(m).ToBytes", func() string { return hx(dhcpv6.OptRelayMessage(m).ToBytes()) }},
		{"OptRelayMessage(m).String", func() string { return dhcpv6.OptRelayMessage(m).String() }},
		{"GetMacAddressFromEUI64(peer)", func() string {
			if rm, ok := m.(*dhcpv6.RelayMessage); ok {
				return show(dhcpv6.GetMacAddressFromEUI64(rm.PeerAddr))
			}
			return ""
		}},
	}
	call := func(i int) (out string, p interface{}) {
		defer func() { p = recover() }()
		return fs[i].f(), nil
	}
	enc0 := append([]byte{}, safeBytes6(m)...)
	more0 := dumpLine(dumpMsg(m))
	n := 0
	order := r.Rng.Perm(len(fs))
	for _, i := range append(order, r.Rng.Perm(len(fs))...) {
		o1, p1 := call(i)
		o2, p2 := call(i)
		n += 2
		if (p1 == nil) != (p2 == nil) || o1 != o2 {
			r.Fail("c20-repeated-call-differs", what, fmt.Sprintf("%s returned %s (%v) then %s (%v)", fs[i].name, trunc(o1, 200), p1, trunc(o2, 200), p2))
			return n
		}
		if e := safeBytes6(m); !bytes.Equal(e, enc0) {
			r.Fail("c20-encoding-changed", what, fmt.Sprintf("after %s: encoding %s", fs[i].name, firstDiff(hx(enc0), hx(e))))
			return n
		}
		if m1 := dumpLine(dumpMsg(m)); m1 != more0 {
			r.Fail("c20-accessor-results-changed", what, fmt.Sprintf("after %s: %s", fs[i].name, trunc(firstDiff(more0, m1), 300)))
			return n
		}
	}
	return n
}

// Every subject is generated twice from the same random state and observed in both orders (see exerciseC20).
func genC20(r *Run) {
	seed := r.Rng.Int63()
	total := 0
	for pass := 0; pass < 2; pass++ {
		r.Rng = rand.New(rand.NewSource(seed))
		c20Order = pass
		total += genC20pass(r)
	}
	r.Extra["oracle_evaluations"] = total
}

func genC20pass(r *Run) int {
	evals := 0
	maxSeq := r.N(3, 6)
	// ---- DHCPv4 packets: generated and decoded
	for i := 0; i < r.N(120, 2000); i++ {
		var p *dhcpv4.DHCPv4
		w := r.v4WithTypedOptions()
		if i%2 == 0 {
			p, _ = dhcpv4.FromBytes(w)
		} else {
			o4 := r.randOpts(6, 40)
			if r.Rng.Intn(3) == 0 { // a constructed map may hold the framing codes End / Pad as keys
				o4[255] = r.Bytes(r.Pick(0, 0, 2))
			}
			if r.Rng.Intn(4) == 0 {
				o4[0] = r.Bytes(r.Pick(0, 1))
			}
			if r.Rng.Intn(2) == 0 {
				// the option written last (82) together with its numeric neighbours and the codes next to the framing
				// codes (1, 253, 254): wherever an ordering rule gives two keys the same rank
				o4[82] = r.Bytes(r.Pick(2, 5))
				for _, c := range []byte{254, 253, 81, 83, 1} {
					if r.Rng.Intn(2) == 0 {
						o4[c] = r.Bytes(r.Pick(1, 3))
					}
				}
			}
			a := r.randPkt(o4)
			if r.Rng.Intn(3) == 0 {
				a[10] = r.Bytes(r.Pick(17, 20, 20, 32, 255)) // a constructed packet may hold a hardware address longer than the 16-octet field
			}
			if r.Rng.Intn(3) == 0 {
				a[11], a[12] = r.noNul(r.Pick(64, 70, 200)), r.noNul(r.Pick(128, 130, 300)) // names longer than their fields
			}
			p = pktOfArgs(a)
			p.UpdateOption(dhcpv4.OptParameterRequestList(dhcpv4.OptionRouter, dhcpv4.OptionSubnetMask, dhcpv4.OptionDomainName, dhcpv4.OptionBootfileName))
		}
		if p == nil {
			continue
		}
		r.Add(eV4Dec, p.ToBytes())
		evals += exerciseC20(r, subject{"DHCPv4 " + trunc(hx(w), 200), reflect.ValueOf(p), p.ToBytes, func() string { return dumpLine(dumpPkt4(p)) }}, maxSeq)
		evals += exerciseC20(r, subject{"dhcpv4.Options " + trunc(hx(w), 200), reflect.ValueOf(p.Options), p.ToBytes, nil}, maxSeq)
	}
	// ---- standalone DHCPv4 option values built by the exported constructors
	for i := 0; i < r.N(150, 2500); i++ {
		codes := []dhcpv4.OptionCode{}
		raw := r.Bytes(1 + r.Rng.Intn(6))
		// list shapes a helper may treat specially: already sorted, sorted with a repeated code in the middle,
		// descending, all equal, ascending except the last element
		switch i % 7 {
		case 1, 2:
			sort.Slice(raw, func(a, b int) bool { return raw[a] < raw[b] })
			if i%7 == 2 && len(raw) >= 3 {
				raw[1] = raw[0] // sorted, with a duplicate that is followed by other codes
				sort.Slice(raw, func(a, b int) bool { return raw[a] < raw[b] })
			}
		case 3:
			sort.Slice(raw, func(a, b int) bool { return raw[a] > raw[b] })
		case 4:
			for k := range raw {
				raw[k] = raw[0]
			}
		case 5:
			sort.Slice(raw, func(a, b int) bool { return raw[a] < raw[b] })
			if len(raw) >= 2 {
				raw[len(raw)-1] = raw[0] / 2
			}
		}
		for _, c := range raw {
			l := dhcpv4.OptionCodeList{}
			l.FromBytes([]byte{c})
			codes = append(codes, l...)
		}
		ips := []net.IP{net.IP(r.Bytes(4)), net.IP(r.Bytes(4))}
		archs := []iana.Arch{iana.Arch(r.Rng.Intn(30)), iana.Arch(r.Rng.Intn(30))}
		opts := []dhcpv4.Option{
			dhcpv4.OptParameterRequestList(codes...),
			dhcpv4.OptRouter(ips...), dhcpv4.OptDNS(ips...), dhcpv4.OptServerIdentifier(ips[0]),
			dhcpv4.OptClientArch(archs...),
			dhcpv4.OptIPAddressLeaseTime(time.Duration(r.Rng.Intn(100000)) * time.Second),
			dhcpv4.OptMessageType(dhcpv4.MessageType(r.Rng.Intn(10))),
			dhcpv4.OptDomainSearch(&rfc1035label.Labels{Labels: []string{"b.example", "a.example"}}),
			dhcpv4.OptUserClass("abc"), dhcpv4.OptRFC3004UserClass([]string{"x", "yy"}),
			dhcpv4.OptClasslessStaticRoute(&dhcpv4.Route{Dest: &net.IPNet{IP: net.IP{10, 0, 0, 0}, Mask: net.CIDRMask(8, 32)}, Router: net.IP{10, 0, 0, 1}}),
			dhcpv4.OptClasslessStaticRoute(r.randRoutes()...),
			dhcpv4.OptSubnetMask(net.IPMask(r.Bytes(4))), dhcpv4.OptHostName("h"), dhcpv4.OptGeneric(dhcpv4.GenericOptionCode(200), r.Bytes(5)),
			dhcpv4.OptRelayAgentInfo(dhcpv4.OptGeneric(dhcpv4.GenericOptionCode(2), []byte{1, 2}), dhcpv4.OptGeneric(dhcpv4.GenericOptionCode(1), []byte{3})),
			dhcpv4.OptRelayAgentInfo(dhcpv4.OptGeneric(dhcpv4.GenericOptionCode(255), nil), dhcpv4.OptGeneric(dhcpv4.GenericOptionCode(0), []byte{7}), dhcpv4.OptGeneric(dhcpv4.GenericOptionCode(9), []byte{3})),
			dhcpv4.OptMaxMessageSize(1500),
		}
		for _, o := range opts {
			o := o
			evals += exerciseC20(r, subject{fmt.Sprintf("dhcpv4 option %v", o.Code), reflect.ValueOf(o.Value), o.Value.ToBytes, nil}, maxSeq)
			evals += exerciseC20(r, subject{fmt.Sprintf("dhcpv4 Option{%v}", o.Code), reflect.ValueOf(o), o.Value.ToBytes, nil}, maxSeq)
		}
		// "an option that is printed before it is attached goes on the wire like one that is not"
		o := dhcpv4.OptParameterRequestList(codes...)
		p1, _ := dhcpv4.New(dhcpv4.WithTransactionID(dhcpv4.TransactionID{1, 2, 3, 4}), dhcpv4.WithOption(o))
		_ = o.String()
		_ = o.Value.String()
		p2, _ := dhcpv4.New(dhcpv4.WithTransactionID(dhcpv4.TransactionID{1, 2, 3, 4}), dhcpv4.WithOption(o))
		if !bytes.Equal(p1.ToBytes(), p2.ToBytes()) {
			r.Fail("c20-print-before-attach", fmt.Sprintf("parameter request list %v", codes), "printing the option value changed what is sent on the wire")
		}
		evals++
	}
	// ---- DHCPv6 messages, their options, standalone option values
	for i := 0; i < r.N(150, 2500); i++ {
		m, w := r.genMsg(r.Pick(1, 2), r.Pick(2, 5))
		if i%2 == 0 {
			if d, err := dhcpv6.FromBytes(w); err == nil {
				m = d
			}
		}
		r.Add(eV6Dec, w)
		evals += exerciseC20(r, subject{"DHCPv6 " + trunc(hx(w), 200), reflect.ValueOf(m), m.ToBytes, func() string { return dumpLine(dumpMsg(m)) }}, maxSeq)
		walkV6(m, func(o dhcpv6.Option) {
			evals += exerciseC20(r, subject{fmt.Sprintf("dhcpv6 option %d of %s", o.Code(), trunc(hx(w), 120)), reflect.ValueOf(o), func() []byte { return safeToBytes(o) }, func() string { return dumpLine(dumpOpt(o)) }}, 2)
		})
		switch x := m.(type) {
		case *dhcpv6.Message:
			evals += exerciseC20(r, subject{"MessageOptions " + trunc(hx(w), 120), reflect.ValueOf(x.Options), m.ToBytes, nil}, maxSeq)
		case *dhcpv6.RelayMessage:
			evals += exerciseC20(r, subject{"RelayOptions " + trunc(hx(w), 120), reflect.ValueOf(x.Options), m.ToBytes, nil}, maxSeq)
		}
	}
	// the exported functions that read a message handed to them (ExtractMAC, DecapsulateRelay ..., GetTransactionID,
	// wrapping it in a relay option) are read-only calls like the methods: on every message above's shape, and on
	// relayed messages whose peer address is the EUI-64 address of the client (fe80::xxxx:xxff:fexx:xxxx, what relays
	// of real clients send), with and without a client link-layer address option, built and decoded
	for i := 0; i < r.N(200, 3000); i++ {
		var m dhcpv6.DHCPv6
		var w []byte
		if i%3 == 0 {
			m, w = r.genMsg(r.Pick(1, 2), r.Pick(2, 5))
		} else {
			inner, _ := r.genMsg(1, 2)
			cur := inner
			for d := 1 + r.Rng.Intn(3); d > 0; d-- {
				peer := net.IP(r.Bytes(16))
				if r.Rng.Intn(4) != 0 {
					peer[0], peer[1], peer[11], peer[12] = 0xfe, 0x80, 0xff, 0xfe
				}
				rm, err := dhcpv6.EncapsulateRelay(cur, dhcpv6.MessageTypeRelayForward, net.IP(r.Bytes(16)), peer)
				if err != nil {
					break
				}
				if r.Rng.Intn(3) == 0 {
					rm.AddOption(dhcpv6.OptClientLinkLayerAddress(iana.HWTypeEthernet, net.HardwareAddr(r.Bytes(6))))
				}
				cur = rm
			}
			m, w = cur, cur.ToBytes()
		}
		if i%2 == 0 {
			if d, err := dhcpv6.FromBytes(w); err == nil {
				m = d
			}
		}
		evals += exerciseFuncs6(r, "DHCPv6 "+trunc(hx(w), 300), m)
	}
	// messages that repeat an option the accessors expect once (two or three requested-option lists with
	// different codes, several client ids, IA_NAs, status codes ...): accessors that merge or pick must not write back
	for i := 0; i < r.N(120, 2000); i++ {
		m6, _ := dhcpv6.NewMessage()
		m6.TransactionID = dhcpv6.TransactionID{9, byte(i >> 8), byte(i)}
		m6.MessageType = dhcpv6.MessageType(1 + r.Rng.Intn(11))
		for k := 2 + r.Rng.Intn(2); k > 0; k-- {
			var codes []dhcpv6.OptionCode
			for j := 1 + r.Rng.Intn(4); j > 0; j-- {
				codes = append(codes, dhcpv6.OptionCode(r.Pick(23, 24, 59, 60, 31, 56, 6, 82, 1000+r.Rng.Intn(5))))
			}
			m6.AddOption(dhcpv6.OptRequestedOption(codes...))
		}
		for k := r.Rng.Intn(3); k > 0; k-- {
			dup := r.genOptCode(uint16(r.Pick(1, 2, 3, 8, 13, 23, 24, 25, 59, 61)), 1).opt
			m6.AddOption(dup)
			m6.AddOption(r.genOptCode(uint16(dup.Code()), 1).opt)
		}
		var s6 dhcpv6.DHCPv6 = m6
		if i%2 == 1 {
			if d, err := dhcpv6.FromBytes(m6.ToBytes()); err == nil {
				s6 = d
			}
		}
		what := "DHCPv6 with repeated options " + trunc(hx(m6.ToBytes()), 200)
		evals += exerciseC20(r, subject{what, reflect.ValueOf(s6), s6.ToBytes, func() string { return dumpLine(dumpMsg(s6)) }}, maxSeq)
		if mm, ok := s6.(*dhcpv6.Message); ok {
			evals += exerciseC20(r, subject{"MessageOptions of " + what, reflect.ValueOf(mm.Options), s6.ToBytes, func() string { return dumpLine(dumpMsg(s6)) }}, maxSeq)
		}
	}
	for i := 0; i < r.N(100, 1500); i++ {
		nd := r.genOptCode(knownV6Codes[r.Rng.Intn(len(knownV6Codes))], 1)
		o := nd.opt
		evals += exerciseC20(r, subject{fmt.Sprintf("dhcpv6 constructed option %d", o.Code()), reflect.ValueOf(o), func() []byte { return safeToBytes(o) }, func() string { return dumpLine(dumpOpt(o)) }}, maxSeq)
	}
	// constructed values that hold an item which cannot be encoded (64 KiB or more, where the length field is 16 bits)
	// between items that can: encoding skips or truncates it - without touching the value
	{
		big := strings.Repeat("x", 1<<16)
		vals := []dhcpv6.Option{
			dhcpv6.OptBootFileParam("first=1", big, "last=3"),
			dhcpv6.OptBootFileParam(big, "only"),
			&dhcpv6.OptUserClass{UserClasses: [][]byte{[]byte("a"), []byte(big), []byte("c")}},
			&dhcpv6.OptVendorClass{EnterpriseNumber: 9, Data: [][]byte{[]byte("a"), []byte(big), []byte("c")}},
			dhcpv6.OptBootFileURL(big),
		}
		for _, o := range vals {
			o := o
			evals += exerciseC20(r, subject{fmt.Sprintf("dhcpv6 constructed option %d holding an oversized item", o.Code()), reflect.ValueOf(o), func() []byte { return safeToBytes(o) }, func() string { return fmt.Sprint(len(dumpLine(dumpOpt(o)))) + trunc(dumpLine(dumpOpt(o)), 200) }}, maxSeq)
			m6, _ := dhcpv6.NewMessage()
			m6.TransactionID = dhcpv6.TransactionID{1, 2, 3}
			m6.AddOption(o)
			evals += exerciseC20(r, subject{fmt.Sprintf("DHCPv6 message with option %d holding an oversized item", o.Code()), reflect.ValueOf(m6), func() []byte { return safeBytes6(m6) }, nil}, 2)
		}
	}
	// label sets and DUIDs
	for i := 0; i < r.N(100, 1500); i++ {
		names, w := r.validNames()
		l := &rfc1035label.Labels{Labels: names}
		if i%2 == 0 {
			l, _ = rfc1035label.FromBytes(append(w, 1, 'x', 0xc0, 0))
			if l == nil {
				continue
			}
		}
		evals += exerciseC20(r, subject{fmt.Sprintf("Labels %q", names), reflect.ValueOf(l), l.ToBytes, func() string { return fmt.Sprint(l.Labels) }}, maxSeq)
		// a look at a value in the middle of a tentative edit (a relay appends its domain, checks Length() against its
		// budget, takes the domain out again): twins decoded from the same octets and edited alike, one of them read
		// meanwhile, encode alike afterwards - also inside the options that hold name lists
		{
			cw := append(append([]byte{}, w...), 1, 'x', 0xc0, 0) // compressed: not what the encoder itself would write
			a, errA := rfc1035label.FromBytes(append([]byte{}, cw...))
			b, errB := rfc1035label.FromBytes(append([]byte{}, cw...))
			if errA == nil && errB == nil {
				keepA, keepB := a.Labels, b.Labels
				switch i % 3 {
				case 0:
					a.Labels, b.Labels = append(append([]string{}, keepA...), "local.example"), append(append([]string{}, keepB...), "local.example")
				case 1:
					a.Labels, b.Labels = []string{"only.example"}, []string{"only.example"}
				default:
					a.Labels, b.Labels = nil, nil
				}
				_ = a.Length()
				_ = a.ToBytes()
				_ = a.String()
				a.Labels, b.Labels = keepA, keepB
				if ea, eb := a.ToBytes(), b.ToBytes(); !bytes.Equal(ea, eb) {
					r.Fail("c20-read-during-edit-changes-encoding", fmt.Sprintf("Labels decoded from %x", cw),
						fmt.Sprintf("two values decoded from the same octets and edited and restored alike encode differently once one of them has been read (Length, ToBytes, String) while edited: %x vs %x", ea, eb))
				}
				evals++
			}
		}
		// sets holding empty (root) names between others, repeated names, decoded and constructed;
		// alone, in a DHCPv6 domain list / FQDN / NTP option, and as a DHCPv4 domain search value
		var odd []string
		var oddW []byte
		for k := 1 + r.Rng.Intn(5); k > 0; k-- {
			switch r.Rng.Intn(3) {
			case 0:
				odd = append(odd, "")
				oddW = append(oddW, 0)
			case 1:
				if len(odd) > 0 && odd[len(odd)-1] != "" {
					nm := odd[len(odd)-1]
					odd = append(odd, nm)
					oddW = append(oddW, byte(len(nm)))
					oddW = append(append(oddW, nm...), 0)
					break
				}
				fallthrough
			default:
				nm := string([]byte{byte('a' + r.Rng.Intn(26)), byte('a' + r.Rng.Intn(26))})
				odd = append(odd, nm)
				oddW = append(append(append(oddW, 2), nm...), 0)
				if r.Rng.Intn(3) == 0 {
					// the absolute way of writing a name ("example.com."), a leading dot, two dots in a row: held as given
					odd[len(odd)-1] = []string{nm + ".", "." + nm, nm + ".." + nm, nm + ".example.com."}[r.Rng.Intn(4)]
				}
			}
		}
		lo := &rfc1035label.Labels{Labels: append([]string{}, odd...)}
		if i%2 == 1 {
			if dl, err := rfc1035label.FromBytes(oddW); err == nil {
				lo = dl
			}
		}
		evals += exerciseC20(r, subject{fmt.Sprintf("Labels %q", odd), reflect.ValueOf(lo), lo.ToBytes, func() string { return fmt.Sprint(lo.Labels) }}, maxSeq)
		m6, _ := dhcpv6.NewMessage()
		m6.TransactionID = dhcpv6.TransactionID{1, 2, 3}
		lc := func() *rfc1035label.Labels { return &rfc1035label.Labels{Labels: append([]string{}, odd...)} }
		m6.AddOption(dhcpv6.OptDomainSearchList(lc()))
		m6.AddOption(&dhcpv6.OptFQDN{Flags: 1, DomainName: lc()})
		m6.AddOption(&dhcpv6.OptNTPServer{Suboptions: []dhcpv6.Option{&dhcpv6.NTPSuboptionSrvFQDN{Labels: *lc()}}})
		var s6 dhcpv6.DHCPv6 = m6
		if i%2 == 1 {
			if d, err := dhcpv6.FromBytes(m6.ToBytes()); err == nil {
				s6 = d
			}
		}
		evals += exerciseC20(r, subject{fmt.Sprintf("DHCPv6 with label sets %q", odd), reflect.ValueOf(s6), s6.ToBytes, func() string { return dumpLine(dumpMsg(s6)) }}, maxSeq)
		walkV6(s6, func(o dhcpv6.Option) {
			evals += exerciseC20(r, subject{fmt.Sprintf("dhcpv6 option %d with label sets %q", o.Code(), odd), reflect.ValueOf(o), func() []byte { return safeToBytes(o) }, func() string { return dumpLine(dumpOpt(o)) }}, 2)
		})
		o4 := dhcpv4.OptDomainSearch(lc())
		evals += exerciseC20(r, subject{fmt.Sprintf("dhcpv4 domain search %q", odd), reflect.ValueOf(o4.Value), o4.Value.ToBytes, nil}, maxSeq)
		evals += exerciseC20(r, subject{fmt.Sprintf("dhcpv4 Option{domain search %q}", odd), reflect.ValueOf(o4), o4.Value.ToBytes, nil}, maxSeq)
		d, _ := r.genDUID()
		evals += exerciseC20(r, subject{"DUID", reflect.ValueOf(d), d.ToBytes, nil}, maxSeq)
	}
	return evals
}

// randRoutes: classless static routes with any prefix length, destination bits set beyond the mask, 4- and 16-octet addresses
func (r *Run) randRoutes() []*dhcpv4.Route {
	var out []*dhcpv4.Route
	for k := 1 + r.Rng.Intn(3); k > 0; k-- {
		ip := net.IP(r.Bytes(4))
		if r.Rng.Intn(3) == 0 {
			ip = ip.To16()
		}
		gw := net.IP(r.Bytes(4))
		if r.Rng.Intn(4) == 0 {
			gw = gw.To16()
		}
		out = append(out, &dhcpv4.Route{Dest: &net.IPNet{IP: ip, Mask: net.CIDRMask(r.Rng.Intn(33), 32)}, Router: gw})
	}
	return out
}


func safeBytes6(m dhcpv6.DHCPv6) (b []byte) {
	defer func() {
		if recover() != nil {
			b = nil
		}
	}()
	return m.ToBytes()
}
