(** C08 — Decoded messages own their memory; encoded output is a fresh buffer. *)
From DV Require Import Base.Bytes Alias.Model Alias.Tie Gen.Alias.
From Coq Require Import String.

(** The memory contract of the decoders ("Consume, but do not Copy. Each
    parser will make a copy of pertinent data"), in a provenance semantics of
    the Lexer primitives: a value built only from copying primitives denotes
    the same thing under EVERY later content of the source buffer (not five
    overwrite patterns). *)
Theorem C08_owned_independent : forall v, owns v -> forall buf buf', presolve buf v = presolve buf' v.
Proof. exact owned_value_independent. Qed.
Print Assumptions C08_owned_independent.

Theorem C08_copying_primitives : forall p buf off len, prim_copies p = true -> owns (PLeaf (prim_leaf p buf off len)).
Proof. exact copying_prim_owns. Qed.
Print Assumptions C08_copying_primitives.

(** On this run's source tree no decoder stores a view of its input except the
    DHCPv6 vendor sub-option parser, which is only ever given a private copy
    (extracted from the Go AST by tools/gen). *)
Theorem C08_no_retention_sites : retention_sites = expected_retention_sites.
Proof. exact retention_sites_match. Qed.
Print Assumptions C08_no_retention_sites.

(** In the pure model encodings are fresh lists by construction; that the
    real ToBytes results do not share memory with the message or with earlier
    results is established by the overwrite harness (C08_partial: the output
    half rests on the correspondence run). *)
Example C08_example_view_depends :
  presolve [x01; x02; x03] (PLeaf (View 1 2)) <> presolve [x01; xff; xff] (PLeaf (View 1 2)).
Proof. exact view_depends. Qed.
