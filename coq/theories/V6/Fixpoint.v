(** C06 for DHCPv6: decode -> encode -> decode is a fixpoint for EVERY accepted
    byte string whose re-encoding fits the 16-bit length fields ([shorts]).
    The side condition is not an artefact: an embedded DHCPv4 message shorter
    than 300 octets is padded to 300 when re-encoded, so a container holding
    hundreds of them can outgrow its length field (finding F12, witness below);
    for messages without embedded DHCPv4 the condition always holds
    ([no_growth]). *)
From DV Require Import Base.Bytes Label.Model Label.RoundTrip V4.Model V4.OptProofs V4.Proofs V4.RoundTrip V4.Canon V4.Fixpoint
                       V6.Model V6.Total V6.Wf V6.Comb V6.RoundTrip V6.Image V4.Length.

Arguments labels_from_bytes : simpl never.

(** every nested value re-encodes to fewer than 2^16 octets *)
Fixpoint shorts (o : opt6) : Prop :=
  let all := fix all (l : list opt6) : Prop := match l with [] => True | x :: r => shorts x /\ all r end in
  short (enc_val o) /\
  match o with
  | OIANA _ _ _ os | OIATA _ os | OIAAddr _ _ _ os | ORelayMsgM _ _ os | ORelayMsgR _ _ _ _ os
  | OIAPD _ _ _ os | OIAPrefix _ _ _ os | O4RD os => all os
  | _ => True
  end.
Fixpoint shorts_list (l : list opt6) : Prop := match l with [] => True | x :: r => shorts x /\ shorts_list r end.
Definition shorts_msg (m : msg6) : Prop := match m with Msg _ _ os | Relay _ _ _ _ os => shorts_list os end.

Lemma shorts_nested os :
  (forall i t1 t2, shorts (OIANA i t1 t2 os) = (short (enc_val (OIANA i t1 t2 os)) /\ shorts_list os)) /\
  (forall i, shorts (OIATA i os) = (short (enc_val (OIATA i os)) /\ shorts_list os)) /\
  (forall a p v, shorts (OIAAddr a p v os) = (short (enc_val (OIAAddr a p v os)) /\ shorts_list os)) /\
  (forall t x, shorts (ORelayMsgM t x os) = (short (enc_val (ORelayMsgM t x os)) /\ shorts_list os)) /\
  (forall t h l p, shorts (ORelayMsgR t h l p os) = (short (enc_val (ORelayMsgR t h l p os)) /\ shorts_list os)) /\
  (forall i t1 t2, shorts (OIAPD i t1 t2 os) = (short (enc_val (OIAPD i t1 t2 os)) /\ shorts_list os)) /\
  (forall p v pre, shorts (OIAPrefix p v pre os) = (short (enc_val (OIAPrefix p v pre os)) /\ shorts_list os)) /\
  shorts (O4RD os) = (short (enc_val (O4RD os)) /\ shorts_list os).
Proof. repeat split. Qed.

Lemma shorts_short o : shorts o -> short (enc_val o).
Proof. destruct o; cbn [shorts]; tauto. Qed.

(** * Ranges of what the readers return *)
Lemma rd_u8_range b v r : rd_u8 b = Ok (v, r) -> u8 v.
Proof. destruct b; cbn; [discriminate|]. intros [= <- _]. apply b2n_lt. Qed.
Lemma rd_u16_range b v r : rd_u16 b = Ok (v, r) -> u16 v.
Proof. destruct b as [|x [|y b]]; cbn; try discriminate. intros [= <- _]. apply rd16_lt. Qed.
Lemma rd_u32_range b v r : rd_u32 b = Ok (v, r) -> u32 v.
Proof. destruct b as [|x [|y [|z [|w b]]]]; cbn; try discriminate. intros [= <- _]. apply rd32_lt. Qed.
Lemma rd_n_length n b x r : rd_n n b = Ok (x, r) -> length x = n.
Proof. intros H. apply rd_n_len in H. tauto. Qed.

Lemma many_u16_range : forall b cs, many_u16 b = Ok cs -> Forall u16 cs.
Proof.
  fix IH 1. intros [|x [|y r]] cs; cbn [many_u16]; try discriminate.
  - intros [= <-]. constructor.
  - destruct (many_u16 r) as [xs| | |] eqn:E; cbn [bind]; try discriminate.
    intros [= <-]. constructor; [apply rd16_lt | exact (IH r xs E)].
Qed.

Lemma many_u16_nonempty b cs : b <> [] -> many_u16 b = Ok cs -> cs <> [].
Proof.
  destruct b as [|x [|y r]]; cbn [many_u16]; try congruence; try discriminate.
  intros _. destruct (many_u16 r); cbn [bind]; try discriminate. intros [= <-]. discriminate.
Qed.

Lemma many_len16_short : forall f b xs, many_len16 f b = Ok xs -> Forall short xs.
Proof.
  induction f as [|f IH]; intros b xs; cbn [many_len16]; [discriminate|].
  destruct b as [|h [|l r]]; try discriminate.
  - intros [= <-]. constructor.
  - destruct (rd_n _ r) as [[x r']| | |] eqn:E; cbn [bind]; try discriminate.
    destruct (many_len16 f r') as [ys| | |] eqn:E2; cbn [bind]; try discriminate.
    intros [= <-]. constructor; [|eapply IH; eauto].
    apply rd_n_length in E. unfold short. rewrite E. rewrite N2Nat.id. apply rd16_lt.
Qed.

Lemma many_len16_nonempty f b xs : b <> [] -> many_len16 f b = Ok xs -> xs <> [].
Proof.
  destruct f; cbn [many_len16]; [discriminate|].
  destruct b as [|h [|l r]]; try congruence; try discriminate. intros _.
  destruct (rd_n _ r) as [[x r']| | |]; cbn [bind]; try discriminate.
  destruct (many_len16 f r'); cbn [bind]; try discriminate. intros [= <-]. discriminate.
Qed.

Lemma many_ip16_lengths : forall f b xs, many_ip16 f b = Ok xs -> Forall (fun a => length a = 16) xs.
Proof.
  induction f as [|f IH]; intros b xs; cbn [many_ip16]; [discriminate|].
  destruct b as [|h r]; [intros [= <-]; constructor|].
  destruct (rd_n 16 (h :: r)) as [[x r']| | |] eqn:E; cbn [bind]; try discriminate.
  destruct (many_ip16 f r') as [ys| | |] eqn:E2; cbn [bind]; try discriminate.
  intros [= <-]. constructor; [eapply rd_n_length; eauto | eapply IH; eauto].
Qed.

Lemma dedup_add_spec : forall cs acc, NoDup acc -> Forall u16 acc -> Forall u16 cs ->
  NoDup (dedup_add acc cs) /\ Forall u16 (dedup_add acc cs).
Proof.
  induction cs as [|c cs IH]; intros acc N A C; cbn [dedup_add]; [auto|].
  inversion C as [|? ? Hc Hr]; subst.
  destruct (existsb (N.eqb c) acc) eqn:E; [apply IH; assumption|].
  apply IH; [| |exact Hr].
  - apply NoDup_app_intro; [exact N | repeat constructor; intros [] |].
    intros x K [E'|[]]. subst x.
    assert (existsb (N.eqb c) acc = true) by (apply existsb_exists; exists c; split; [exact K | apply N.eqb_refl]).
    congruence.
  - apply Forall_app. split; [exact A | constructor; [exact Hc | constructor]].
Qed.

Lemma tlv_loop_forall16 {A} (parse : N -> bytes -> res A) (P : A -> Prop) :
  (forall c d v, u16 c -> short d -> parse c d = Ok v -> P v) ->
  forall f b vals, tlv_loop parse f b = Ok vals -> Forall P vals.
Proof.
  intros HP. induction f as [|f IH]; intros b vals; cbn [tlv_loop]; [discriminate|].
  destruct b as [|c1 [|c2 [|l1 [|l2 r]]]]; try discriminate.
  - intros [= <-]. constructor.
  - destruct (rd_n _ r) as [[v r']| | |] eqn:E0; cbn [bind]; try discriminate.
    destruct (parse (rd16 c1 c2) v) as [o| | |] eqn:E; cbn [bind]; try discriminate.
    destruct (tlv_loop parse f r') as [os| | |] eqn:L; cbn [bind]; try discriminate.
    intros [= <-]. constructor; [|eapply IH; eauto].
    eapply HP; [apply rd16_lt | | exact E].
    apply rd_n_length in E0. unfold short. rewrite E0, N2Nat.id. apply rd16_lt.
Qed.

Lemma dec_duid_wf data d : dec_duid data = Ok d -> wf_duid d.
Proof.
  unfold dec_duid. destruct (rd_u16 data) as [[typ r]| | |] eqn:E; cbn [bind]; try discriminate.
  pose proof (rd_u16_range _ _ _ E) as Ht.
  destruct (N.eq_dec typ 1) as [->|N1].
  { destruct (rd_u16 r) as [[hw r']| | |] eqn:E1; cbn [bind]; try discriminate.
    destruct (rd_u32 r') as [[t r'']| | |] eqn:E2; cbn [bind]; try discriminate.
    intros [= <-]. split; [exact (rd_u16_range _ _ _ E1) | exact (rd_u32_range _ _ _ E2)]. }
  destruct (N.eq_dec typ 2) as [->|N2].
  { destruct (rd_u32 r) as [[en r']| | |] eqn:E1; cbn [bind]; try discriminate.
    intros [= <-]. exact (rd_u32_range _ _ _ E1). }
  destruct (N.eq_dec typ 3) as [->|N3].
  { destruct (rd_u16 r) as [[hw r']| | |] eqn:E1; cbn [bind]; try discriminate.
    intros [= <-]. exact (rd_u16_range _ _ _ E1). }
  destruct (N.eq_dec typ 4) as [->|N4].
  { destruct (length r =? 16) eqn:L; try discriminate. intros [= <-]. apply Nat.eqb_eq in L. exact L. }
  assert (D : match typ with
              | 1 => let* (hw, r0) := rd_u16 r in let* (t, r1) := rd_u32 r0 in Ok (DLLT hw t r1)
              | 2 => let* (en, r0) := rd_u32 r in Ok (DEN en r0)
              | 3 => let* (hw, r0) := rd_u16 r in Ok (DLL hw r0)
              | 4 => if (length r =? 16)%nat then Ok (DUUID r) else Err
              | _ => Ok (DOpaque typ r)
              end%N = Ok (DOpaque typ r)).
  { destruct typ as [|[[[|[]|]|[[]|[]|]|]|[[|[]|]|[]|]|]]; try reflexivity; congruence. }
  rewrite D. intros [= <-]. cbn [wf_duid]. repeat split; assumption.
Qed.

Lemma dec_labels_wf b l : dec_labels b = Ok l -> wf_labels l.
Proof. intros H. right. exists b. exact H. Qed.

Lemma dec_labels_bytes b l : dec_labels b = Ok l -> labels_bytes l = b.
Proof. intros H. unfold labels_bytes. rewrite (reencode_original b l H). reflexivity. Qed.

Lemma dec_ntpsub_wf c d s : u16 c -> short d -> dec_ntpsub c d = Ok s -> wf_ntpsub s.
Proof.
  intros Hc Hd. unfold dec_ntpsub.
  destruct c as [|[[|[]|]|[|[]|]|]].
  all: try (intros [= <-]; cbn [wf_ntpsub]; repeat split; (exact Hc || exact Hd || discriminate)).
  - destruct (dec_labels d) as [l| | |] eqn:E; cbn [bind]; try discriminate. intros [= <-].
    cbn [wf_ntpsub]. split; [eapply dec_labels_wf; eauto|]. rewrite (dec_labels_bytes _ _ E). exact Hd.
  - destruct (rd_n 16 d) as [[a r]| | |] eqn:E; cbn [bind]; try discriminate.
    destruct (fin_empty r); cbn [bind]; try discriminate. intros [= <-]. eapply rd_n_length; eauto.
  - destruct (rd_n 16 d) as [[a r]| | |] eqn:E; cbn [bind]; try discriminate.
    destruct (fin_empty r); cbn [bind]; try discriminate. intros [= <-]. eapply rd_n_length; eauto.
Qed.

Lemma dec4_wf_v4 data p : dec4 data = Ok p -> wf_v4 p.
Proof. intros H. destruct (fixpoint4 data p H) as (b1 & m2 & E & D & _). exists b1, m2. split; assumption. Qed.

Lemma shorts_list_wf os : Forall (fun o => shorts o -> wf_opt o) os -> shorts_list os -> wf_opts os.
Proof.
  induction 1 as [|x r Hx F IH]; cbn [shorts_list wf_opts]; [auto|]. intros [Sx Sr]. split; auto.
Qed.

(** what [peel] leaves behind: turn reader equations into range facts *)
Ltac ranges :=
  repeat match goal with
  | E : rd_u8 _ = Ok (?v, _) |- _ => pose proof (rd_u8_range _ _ _ E); clear E
  | E : rd_u16 _ = Ok (?v, _) |- _ => pose proof (rd_u16_range _ _ _ E); clear E
  | E : rd_u32 _ = Ok (?v, _) |- _ => pose proof (rd_u32_range _ _ _ E); clear E
  | E : rd_n ?n _ = Ok (?x, _) |- _ => pose proof (rd_n_length _ _ _ _ E); clear E
  end.

Theorem dec_opt_wf : forall f code data o, dec_opt f code data = Ok o -> u16 code -> shorts o -> wf_opt o.
Proof.
  induction f as [|f IH]; intros code data o H Hc S; [discriminate|]. cbn [dec_opt] in H.
  assert (OPTS : forall r os, dec_tlvs (dec_opt f) r = Ok os -> shorts_list os -> wf_opts os).
  { intros r os Hr. apply shorts_list_wf. unfold dec_tlvs in Hr.
    eapply tlv_loop_forall16; [|exact Hr]. intros c d v Hc' _ Hv Sv. exact (IH c d v Hv Hc' Sv). }
  pose proof (shorts_short o S) as SH.
  destruct (classify code) eqn:K.
  all: try (peel H; injection H as <-; ranges; cbn [wf_opt]; repeat split; solve [assumption | eapply dec_duid_wf; eauto]).
  all: try (peel H; injection H as <-;
            match goal with E : dec_tlvs _ _ = Ok ?os |- _ =>
              destruct (shorts_nested os) as (T1 & T2 & T3 & T4 & T5 & T6 & T7 & T8);
              destruct (wf_nested os) as (W1 & W2 & W3 & W4 & W5 & W6 & W7 & W8);
              rewrite ?T1, ?T2, ?T3, ?T4, ?T5, ?T6, ?T7, ?T8 in S; destruct S as [S0 S1];
              rewrite ?W1, ?W2, ?W3, ?W6, ?W7, ?W8; pose proof (OPTS _ _ E S1); ranges;
              repeat split; solve [assumption]
            end).
  - (* ORO *)
    peel H. injection H as <-. cbn [wf_opt]. split; [exact SH|].
    apply dedup_add_spec; [constructor | constructor | eapply many_u16_range; eauto].
  - (* relay message *)
    destruct (dec_msg_with _ data) as [m| | |] eqn:E; cbn [bind] in H; try discriminate.
    injection H as <-. unfold dec_msg_with in E.
    peel E; injection E as <-;
      match goal with E' : dec_tlvs _ _ = Ok ?os |- _ =>
        destruct (shorts_nested os) as (T1 & T2 & T3 & T4 & T5 & T6 & T7 & T8);
        destruct (wf_nested os) as (W1 & W2 & W3 & W4 & W5 & W6 & W7 & W8);
        rewrite ?T4, ?T5 in S; destruct S as [S0 S1]; rewrite ?W4, ?W5; pose proof (OPTS _ _ E' S1); ranges
      end.
    + repeat split; assumption.
    + repeat split; assumption.
  - (* user class *)
    peel H. injection H as <-. cbn [wf_opt]. split; [exact SH|]. split.
    + eapply many_len16_nonempty; [|eauto]. discriminate.
    + eapply many_len16_short; eauto.
  - (* vendor class *)
    peel H. injection H as <-. ranges. cbn [wf_opt]. repeat split; try assumption; try discriminate.
    eapply many_len16_short; eauto.
  - (* vendor options *)
    peel H. injection H as <-. ranges. cbn [wf_opt]. repeat split; try assumption.
    match goal with E : dec_tlvs _ _ = Ok _ |- _ => unfold dec_tlvs in E;
      eapply tlv_loop_forall16; [|exact E] end.
    intros c d v Hc' Hd [= <-]. split; assumption.
  - (* DNS *)
    peel H. injection H as <-. cbn [wf_opt]. split; [exact SH|]. eapply many_ip16_lengths; eauto.
  - (* domain list *)
    peel H. injection H as <-. cbn [wf_opt]. split; [exact SH|]. eapply dec_labels_wf; eauto.
  - (* IA prefix *)
    peel H. injection H as <-.
    match goal with E : dec_tlvs _ _ = Ok ?os |- _ =>
      destruct (shorts_nested os) as (T1 & T2 & T3 & T4 & T5 & T6 & T7 & T8);
      destruct (wf_nested os) as (W1 & W2 & W3 & W4 & W5 & W6 & W7 & W8);
      rewrite T7 in S; destruct S as [S0 S1]; rewrite W7; pose proof (OPTS _ _ E S1); ranges
    end.
    repeat split; try assumption.
    match goal with C : (128 <? ?plen)%N = false |- _ => apply N.ltb_ge in C;
      destruct (plen =? 0)%N eqn:Z; [exact I | apply N.eqb_neq in Z; split; [lia | assumption]] end.
  - (* FQDN *)
    peel H. injection H as <-. ranges. cbn [wf_opt]. repeat split; try assumption. eapply dec_labels_wf; eauto.
  - (* NTP *)
    peel H. injection H as <-. cbn [wf_opt]. split; [exact SH|].
    match goal with E : dec_tlvs _ _ = Ok _ |- _ => unfold dec_tlvs in E;
      eapply tlv_loop_forall16; [|exact E] end.
    intros c d v Hc' Hd Hv. exact (dec_ntpsub_wf c d v Hc' Hd Hv).
  - (* boot parameters *)
    peel H. injection H as <-. cbn [wf_opt]. split; [exact SH|]. eapply many_len16_short; eauto.
  - (* architectures *)
    peel H. injection H as <-. cbn [wf_opt]. split; [exact SH|]. split.
    + eapply many_u16_nonempty; [|eauto]. discriminate.
    + eapply many_u16_range; eauto.
  - (* DHCPv4 message *)
    peel H. injection H as <-. cbn [wf_opt]. split; [exact SH|]. eapply dec4_wf_v4; eauto.
  - (* DHCP4o6 servers *)
    peel H. injection H as <-. cbn [wf_opt]. split; [exact SH|]. eapply many_ip16_lengths; eauto.
  - (* 4RD map rule *)
    peel H. injection H as <-. ranges. cbn [wf_opt].
    match goal with C : (_ || _)%bool = false |- _ => apply orb_false_iff in C; destruct C as [C1 C2];
      apply N.ltb_ge in C1; apply N.ltb_ge in C2 end.
    repeat split; assumption.
  - (* 4RD non-map rule *)
    peel H. injection H as <-. ranges. cbn [wf_opt]. repeat split; try assumption.
    destruct (N.odd _); [assumption | exact I].
Qed.

(** * Re-encoding the canonical form gives the same bytes *)
Definition stable (o : opt6) : Prop := enc_val (canon o) = enc_val o.

Lemma opt_code_canon o : opt_code (canon o) = opt_code o.
Proof. destruct o; reflexivity. Qed.

Lemma stable_list os : Forall stable os ->
  flat_map (fun x => tlv (opt_code x) (enc_val x)) (map canon os) = flat_map (fun x => tlv (opt_code x) (enc_val x)) os.
Proof.
  induction 1 as [|x r Hx F IH]; [reflexivity|]. cbn [map flat_map]. rewrite opt_code_canon, Hx, IH. reflexivity.
Qed.

Lemma canon4_enc data p : dec4 data = Ok p -> enc4_bytes (canon4 p) = enc4_bytes p.
Proof.
  intros H. destruct (fixpoint4 data p H) as (b1 & m2 & E & D & _ & E2).
  unfold canon4, enc4_bytes. rewrite E, D, E2. reflexivity.
Qed.

Lemma canon_ntpsub_enc c d s : dec_ntpsub c d = Ok s -> enc_ntpsub (canon_ntpsub s) = enc_ntpsub s.
Proof.
  intros H. destruct s as [a|a|l|c' d']; try reflexivity. cbn [canon_ntpsub enc_ntpsub].
  assert (W : wf_labels l).
  { unfold dec_ntpsub in H. destruct c as [|[[|[]|]|[|[]|]|]]; try discriminate.
    - destruct (dec_labels d) as [l'| | |] eqn:E; cbn [bind] in H; try discriminate. injection H as <-.
      eapply dec_labels_wf; eauto.
    - destruct (rd_n 16 d) as [[a r]| | |]; cbn [bind] in H; try discriminate.
      destruct (fin_empty r); cbn [bind] in H; discriminate.
    - destruct (rd_n 16 d) as [[a r]| | |]; cbn [bind] in H; try discriminate.
      destruct (fin_empty r); cbn [bind] in H; discriminate. }
  rewrite canon_labels_bytes by exact W. reflexivity.
Qed.

Theorem dec_opt_stable : forall f code data o, dec_opt f code data = Ok o -> stable o.
Proof.
  induction f as [|f IH]; intros code data o H; [discriminate|]. cbn [dec_opt] in H.
  assert (OPTS : forall r os, dec_tlvs (dec_opt f) r = Ok os -> Forall stable os).
  { intros r os Hr. unfold dec_tlvs in Hr. eapply tlv_loop_forall; [|exact Hr]. intros c d v Hv. exact (IH c d v Hv). }
  unfold stable.
  destruct (classify code) eqn:K.
  all: try (peel H; injection H as <-; reflexivity).
  all: try (peel H; injection H as <-;
            match goal with E : dec_tlvs _ _ = Ok ?os |- _ =>
              pose proof (stable_list os (OPTS _ _ E)) as SL;
              destruct (enc_val_nested os) as (T1 & T2 & T3 & T4 & T5 & T6 & T7 & T8);
              destruct (enc_val_nested (map canon os)) as (U1 & U2 & U3 & U4 & U5 & U6 & U7 & U8);
              cbn [canon]; rewrite ?T1, ?T2, ?T3, ?T6, ?T7, ?T8, ?U1, ?U2, ?U3, ?U6, ?U7, ?U8; cbv zeta; rewrite SL; reflexivity
            end).
  - (* relay message *)
    destruct (dec_msg_with _ data) as [m| | |] eqn:E; cbn [bind] in H; try discriminate.
    injection H as <-. unfold dec_msg_with in E.
    peel E; injection E as <-;
      match goal with E' : dec_tlvs _ _ = Ok ?os |- _ =>
        pose proof (stable_list os (OPTS _ _ E')) as SL;
        destruct (enc_val_nested os) as (T1 & T2 & T3 & T4 & T5 & T6 & T7 & T8);
        destruct (enc_val_nested (map canon os)) as (U1 & U2 & U3 & U4 & U5 & U6 & U7 & U8);
        cbn [canon]; rewrite ?T4, ?T5, ?U4, ?U5; cbv zeta; rewrite SL; reflexivity
      end.
  - (* domain list *)
    peel H. injection H as <-. cbn [canon enc_val]. apply canon_labels_bytes. eapply dec_labels_wf; eauto.
  - (* FQDN *)
    peel H. injection H as <-. cbn [canon enc_val]. rewrite canon_labels_bytes; [reflexivity | eapply dec_labels_wf; eauto].
  - (* NTP *)
    peel H. injection H as <-. cbn [canon enc_val].
    match goal with E : dec_tlvs _ _ = Ok ?subs |- _ =>
      assert (F : Forall (fun s => enc_ntpsub (canon_ntpsub s) = enc_ntpsub s) subs)
        by (unfold dec_tlvs in E; eapply tlv_loop_forall; [|exact E]; intros c d v Hv; exact (canon_ntpsub_enc c d v Hv));
      clear E; induction F as [|s r Hs F IHF]; [reflexivity | cbn [map flat_map]; rewrite Hs, IHF; reflexivity]
    end.
  - (* DHCPv4 message *)
    peel H. injection H as <-. cbn [canon enc_val]. eapply canon4_enc; eauto.
Qed.

(** * Messages *)
Lemma dec_msg_wf b m : dec_msg b = Ok m -> shorts_msg m -> wf_msg m.
Proof.
  unfold dec_msg, dec_msg_with, dec_opts. intros H S.
  assert (OPTS : forall r os, dec_tlvs (dec_opt (Datatypes.S (length b))) r = Ok os -> shorts_list os -> wf_opts os).
  { intros r os Hr. apply shorts_list_wf. unfold dec_tlvs in Hr.
    eapply tlv_loop_forall16; [|exact Hr]. intros c d v Hc _ Hv Sv. exact (dec_opt_wf _ c d v Hv Hc Sv). }
  peel H; injection H as <-; cbn [wf_msg shorts_msg] in *;
    match goal with E : dec_tlvs _ _ = Ok ?os |- _ => pose proof (OPTS _ _ E S) end; ranges; repeat split; assumption.
Qed.

Lemma dec_msg_stable b m : dec_msg b = Ok m -> enc_msg (canon_msg m) = enc_msg m.
Proof.
  unfold dec_msg, dec_msg_with, dec_opts. intros H.
  assert (OPTS : forall r os, dec_tlvs (dec_opt (Datatypes.S (length b))) r = Ok os -> Forall stable os).
  { intros r os Hr. unfold dec_tlvs in Hr. eapply tlv_loop_forall; [|exact Hr].
    intros c d v Hv. exact (dec_opt_stable _ c d v Hv). }
  peel H; injection H as <-; cbn [canon_msg enc_msg]; unfold enc_opts, enc_opt;
    match goal with E : dec_tlvs _ _ = Ok ?os |- _ => rewrite (stable_list os (OPTS _ _ E)) end; reflexivity.
Qed.

(** C06 for DHCPv6: every accepted byte string whose decoded value re-encodes
    within the 16-bit length fields settles after one trip: the re-encoding
    [b1] decodes to [m2 = canon_msg m], and [m2] encodes to [b1] again. *)
Theorem fixpoint6 b m : dec_msg b = Ok m -> shorts_msg m ->
  exists m2, dec_msg (enc_msg m) = Ok m2 /\ enc_msg m2 = enc_msg m /\ m2 = canon_msg m.
Proof.
  intros H S. exists (canon_msg m).
  split; [apply dec_msg_enc; eapply dec_msg_wf; eauto | split; [eapply dec_msg_stable; eauto | reflexivity]].
Qed.

(** the same for a single option through ParseOption *)
Theorem fixpoint6_option code data o : parse_option code data = Ok o -> u16 code -> shorts o ->
  parse_option (opt_code o) (enc_val o) = Ok (canon o) /\ enc_val (canon o) = enc_val o.
Proof.
  unfold parse_option at 1. intros H Hc S.
  split; [apply parse_option_enc; eapply dec_opt_wf; eauto | eapply dec_opt_stable; eauto].
Qed.

(** * Re-encoding never grows, except for embedded DHCPv4 messages that get padded to 300 octets.
      [no_v4 o]: every DHCPv4 message embedded in [o] (at any depth) re-encodes to more than 300 octets,
      i.e. was not padded (in particular: there is none). *)
Fixpoint no_v4 (o : opt6) : Prop :=
  let all := fix all (l : list opt6) : Prop := match l with [] => True | x :: r => no_v4 x /\ all r end in
  match o with
  | ODHCPv4 p => 300 < length (enc4_bytes p)      (* its encoding exceeds the 300-octet floor: nothing was padded *)
  | OIANA _ _ _ os | OIATA _ os | OIAAddr _ _ _ os | ORelayMsgM _ _ os | ORelayMsgR _ _ _ _ os
  | OIAPD _ _ _ os | OIAPrefix _ _ _ os | O4RD os => all os
  | _ => True
  end.
Fixpoint no_v4_list (l : list opt6) : Prop := match l with [] => True | x :: r => no_v4 x /\ no_v4_list r end.
Definition no_v4_msg (m : msg6) : Prop := match m with Msg _ _ os | Relay _ _ _ _ os => no_v4_list os end.

Lemma no_v4_nested os :
  (forall i t1 t2, no_v4 (OIANA i t1 t2 os) = no_v4_list os) /\
  (forall i, no_v4 (OIATA i os) = no_v4_list os) /\
  (forall a p v, no_v4 (OIAAddr a p v os) = no_v4_list os) /\
  (forall t x, no_v4 (ORelayMsgM t x os) = no_v4_list os) /\
  (forall t h l p, no_v4 (ORelayMsgR t h l p os) = no_v4_list os) /\
  (forall i t1 t2, no_v4 (OIAPD i t1 t2 os) = no_v4_list os) /\
  (forall p v pre, no_v4 (OIAPrefix p v pre os) = no_v4_list os) /\
  no_v4 (O4RD os) = no_v4_list os.
Proof. repeat split. Qed.

Lemma many_u16_length : forall b cs, many_u16 b = Ok cs -> length b = 2 * length cs.
Proof.
  fix IH 1. intros [|x [|y r]] cs; cbn [many_u16]; try discriminate.
  - intros [= <-]. reflexivity.
  - destruct (many_u16 r) as [xs| | |] eqn:E; cbn [bind]; try discriminate.
    intros [= <-]. cbn [length]. rewrite (IH r xs E). lia.
Qed.

Lemma flat_be16_length cs : length (flat_map be16 cs) = 2 * length cs.
Proof. induction cs as [|c r IH]; [reflexivity|]. cbn [flat_map length app be16]. rewrite IH. lia. Qed.

Lemma dedup_add_length : forall cs acc, length (dedup_add acc cs) <= length acc + length cs.
Proof.
  induction cs as [|c cs IH]; intros acc; cbn [dedup_add length]; [lia|].
  destruct (existsb _ acc); [specialize (IH acc); lia|].
  specialize (IH (acc ++ [c])). rewrite app_length in IH. cbn [length] in IH. lia.
Qed.

Lemma many_len16_length : forall f b xs, many_len16 f b = Ok xs ->
  length (flat_map (fun c => len16 c ++ c) xs) = length b.
Proof.
  induction f as [|f IH]; intros b xs; cbn [many_len16]; [discriminate|].
  destruct b as [|h [|l r]]; try discriminate.
  - intros [= <-]. reflexivity.
  - destruct (rd_n _ r) as [[x r']| | |] eqn:E; cbn [bind]; try discriminate.
    destruct (many_len16 f r') as [ys| | |] eqn:E2; cbn [bind]; try discriminate.
    intros [= <-]. cbn [flat_map]. rewrite !app_length. unfold len16 at 1. rewrite be16_length.
    rewrite (IH _ _ E2). apply rd_n_len in E. cbn [length]. lia.
Qed.

Lemma many_ip16_length : forall f b xs, many_ip16 f b = Ok xs ->
  length (flat_map ip16_or_nothing xs) = length b.
Proof.
  induction f as [|f IH]; intros b xs; cbn [many_ip16]; [discriminate|].
  destruct b as [|h r]; [intros [= <-]; reflexivity|].
  destruct (rd_n 16 (h :: r)) as [[x r']| | |] eqn:E; cbn [bind]; try discriminate.
  destruct (many_ip16 f r') as [ys| | |] eqn:E2; cbn [bind]; try discriminate.
  intros [= <-]. cbn [flat_map]. rewrite app_length, (IH _ _ E2).
  apply rd_n_len in E. destruct E as (L & Lx & _). rewrite ip16_or_nothing_16 by exact Lx. lia.
Qed.

(** the TLV loop: if every value re-encodes no longer than it was, so does the sequence *)
Lemma tlv_loop_lengths {A} (parse : N -> bytes -> res A) (code : A -> N) (enc : A -> bytes) (P Q : A -> Prop) :
  (forall c d v, u16 c -> short d -> parse c d = Ok v -> P v -> length (enc v) <= length d /\ Q v) ->
  forall f b vals, tlv_loop parse f b = Ok vals -> Forall P vals ->
    length (flat_map (fun x => tlv (code x) (enc x)) vals) <= length b /\ Forall Q vals.
Proof.
  intros HP. induction f as [|f IH]; intros b vals; cbn [tlv_loop]; [discriminate|].
  destruct b as [|c1 [|c2 [|l1 [|l2 r]]]]; try discriminate.
  - intros [= <-] _. split; [cbn; lia | constructor].
  - destruct (rd_n _ r) as [[v r']| | |] eqn:E0; cbn [bind]; try discriminate.
    destruct (parse (rd16 c1 c2) v) as [o| | |] eqn:E; cbn [bind]; try discriminate.
    destruct (tlv_loop parse f r') as [os| | |] eqn:L; cbn [bind]; try discriminate.
    intros [= <-] F. inversion F as [|? ? Po Fo]; subst.
    destruct (IH _ _ L Fo) as [IL IQ].
    pose proof (rd_n_len _ _ _ _ E0) as (Lr & Lv & _).
    assert (Sv : short v) by (unfold short; rewrite Lv, N2Nat.id; apply rd16_lt).
    destruct (HP _ _ _ (rd16_lt c1 c2) Sv E Po) as [Lo Qo].
    split; [|constructor; assumption].
    cbn [flat_map]. rewrite app_length, tlv_length. cbn [length]. lia.
Qed.

Lemma no_v4_list_Forall os : no_v4_list os -> Forall no_v4 os.
Proof. induction os as [|x r IH]; cbn [no_v4_list]; [constructor|]. intros [A B]. constructor; auto. Qed.
Lemma shorts_list_Forall os : Forall shorts os -> shorts_list os.
Proof. induction 1; cbn [shorts_list]; auto. Qed.

Ltac lens :=
  repeat match goal with
  | E : rd_u8 _ = Ok (_, _) |- _ => apply rd_u8_len in E
  | E : rd_u16 _ = Ok (_, _) |- _ => apply rd_u16_len in E
  | E : rd_u32 _ = Ok (_, _) |- _ => apply rd_u32_len in E
  | E : rd_n _ _ = Ok (_, _) |- _ => apply rd_n_len in E; destruct E as (? & ? & _)
  | E : fin_empty ?r = Ok _ |- _ => destruct r; [clear E | discriminate E]
  end.

Lemma short_le (a b : bytes) : length a <= length b -> short b -> short a.
Proof. unfold short. lia. Qed.

Lemma ip16_length a : length (ip16 a) = 16.
Proof.
  unfold ip16, to16. destruct (length a =? 16) eqn:E; [apply Nat.eqb_eq in E; exact E|].
  destruct (length a =? 4) eqn:E4; [apply Nat.eqb_eq in E4; rewrite app_length, E4; reflexivity | apply zeros_length].
Qed.

Ltac len_simpl :=
  cbn [enc_val enc_duid length app be16 be32];
  rewrite ?app_length, ?ip16_length, ?zeros_length, ?flat_be16_length;
  rewrite ?copy_into_length by lia;
  cbn [length be16 be32].

Lemma dec_duid_length data d : dec_duid data = Ok d -> length (enc_duid d) <= length data.
Proof.
  unfold dec_duid. destruct (rd_u16 data) as [[typ r]| | |] eqn:E; cbn [bind]; try discriminate.
  apply rd_u16_len in E.
  destruct (N.eq_dec typ 1) as [->|N1].
  { destruct (rd_u16 r) as [[hw r']| | |] eqn:E1; cbn [bind]; try discriminate.
    destruct (rd_u32 r') as [[t r'']| | |] eqn:E2; cbn [bind]; try discriminate.
    intros [= <-]. apply rd_u16_len in E1. apply rd_u32_len in E2. cbn [enc_duid be16 be32 app length]. lia. }
  destruct (N.eq_dec typ 2) as [->|N2].
  { destruct (rd_u32 r) as [[en r']| | |] eqn:E1; cbn [bind]; try discriminate.
    intros [= <-]. apply rd_u32_len in E1. cbn [enc_duid be16 be32 app length]. lia. }
  destruct (N.eq_dec typ 3) as [->|N3].
  { destruct (rd_u16 r) as [[hw r']| | |] eqn:E1; cbn [bind]; try discriminate.
    intros [= <-]. apply rd_u16_len in E1. cbn [enc_duid be16 be32 app length]. lia. }
  destruct (N.eq_dec typ 4) as [->|N4].
  { destruct (length r =? 16) eqn:L; try discriminate. intros [= <-]. apply Nat.eqb_eq in L.
    cbn [enc_duid be16 app length]. rewrite copy_into_length by lia. lia. }
  assert (D : match typ with
              | 1 => let* (hw, r0) := rd_u16 r in let* (t, r1) := rd_u32 r0 in Ok (DLLT hw t r1)
              | 2 => let* (en, r0) := rd_u32 r in Ok (DEN en r0)
              | 3 => let* (hw, r0) := rd_u16 r in Ok (DLL hw r0)
              | 4 => if (length r =? 16)%nat then Ok (DUUID r) else Err
              | _ => Ok (DOpaque typ r)
              end%N = Ok (DOpaque typ r)).
  { destruct typ as [|[[[|[]|]|[[]|[]|]|]|[[|[]|]|[]|]|]]; try reflexivity; congruence. }
  rewrite D. intros [= <-]. cbn [enc_duid be16 app length]. lia.
Qed.

Lemma dec_ntpsub_length c d s : u16 c -> short d -> dec_ntpsub c d = Ok s -> enc_ntpsub s = tlv (ntp_code s) (ntp_val s) /\ length (ntp_val s) <= length d.
Proof.
  intros Hc Hd H. split; [apply enc_ntpsub_tlv|]. unfold dec_ntpsub in H.
  destruct (N.eq_dec c 1) as [->|N1].
  { destruct (rd_n 16 d) as [[a r]| | |] eqn:E; cbn [bind] in H; try discriminate.
    destruct (fin_empty r); cbn [bind] in H; try discriminate. injection H as <-.
    apply rd_n_len in E. destruct E as (L & La & _). cbn [ntp_val]. rewrite ip16_or_nothing_16 by exact La. lia. }
  destruct (N.eq_dec c 2) as [->|N2].
  { destruct (rd_n 16 d) as [[a r]| | |] eqn:E; cbn [bind] in H; try discriminate.
    destruct (fin_empty r); cbn [bind] in H; try discriminate. injection H as <-.
    apply rd_n_len in E. destruct E as (L & La & _). cbn [ntp_val]. rewrite ip16_or_nothing_16 by exact La. lia. }
  destruct (N.eq_dec c 3) as [->|N3].
  { destruct (dec_labels d) as [l| | |] eqn:E; cbn [bind] in H; try discriminate. injection H as <-.
    cbn [ntp_val]. rewrite (dec_labels_bytes _ _ E). lia. }
  assert (D : match c with
              | 1 => let* (a, r) := rd_n 16 d in let* _ := fin_empty r in Ok (NSrv a)
              | 2 => let* (a, r) := rd_n 16 d in let* _ := fin_empty r in Ok (NMC a)
              | 3 => let* l := dec_labels d in Ok (NFQDN l)
              | _ => Ok (NGen c d)
              end%N = Ok (NGen c d)).
  { destruct c as [|[[|[]|]|[|[]|]|]]; try reflexivity; congruence. }
  rewrite D in H. injection H as <-. cbn [ntp_val]. lia.
Qed.

Ltac container H NV OPTS :=
  peel H; injection H as <-;
  match goal with E : dec_tlvs _ _ = Ok ?os |- _ =>
    destruct (no_v4_nested os) as (N1 & N2 & N3 & N4 & N5 & N6 & N7 & N8);
    rewrite ?N1, ?N2, ?N3, ?N4, ?N5, ?N6, ?N7, ?N8 in NV;
    destruct (OPTS _ _ E NV) as [LO SO];
    destruct (enc_val_nested os) as (T1 & T2 & T3 & T4 & T5 & T6 & T7 & T8);
    destruct (shorts_nested os) as (S1 & S2 & S3 & S4 & S5 & S6 & S7 & S8);
    lens;
    match goal with |- length (enc_val ?o) <= length ?data /\ _ =>
      assert (L : length (enc_val o) <= length data)
        by (rewrite ?T1, ?T2, ?T3, ?T4, ?T5, ?T6, ?T7, ?T8; cbv zeta;
            repeat match goal with |- context [match ?pre with Some _ => _ | None => _ end] => destruct pre as [[? ?]|] end;
            len_simpl; lia);
      split; [exact L | intros SD; rewrite ?S1, ?S2, ?S3, ?S4, ?S5, ?S6, ?S7, ?S8; split; [exact (short_le _ _ L SD) | exact SO]]
    end
  end.

Ltac leaf L :=
  match goal with |- length (enc_val ?o) <= length ?data /\ _ =>
    split; [exact L | intros SD; cbn [shorts]; split; [exact (short_le _ _ L SD) | exact I]]
  end.

Theorem no_growth : forall f code data o, dec_opt f code data = Ok o -> no_v4 o ->
  length (enc_val o) <= length data /\ (short data -> shorts o).
Proof.
  induction f as [|f IH]; intros code data o H NV; [discriminate|]. cbn [dec_opt] in H.
  assert (OPTS : forall r os, dec_tlvs (dec_opt f) r = Ok os -> no_v4_list os ->
            length (flat_map (fun x => tlv (opt_code x) (enc_val x)) os) <= length r /\ shorts_list os).
  { intros r os Hr NVs. unfold dec_tlvs in Hr.
    destruct (tlv_loop_lengths (dec_opt f) opt_code enc_val no_v4 shorts) with (f := Datatypes.S (length r)) (b := r) (vals := os) as [A B].
    - intros c d v _ Sd Hv Nv. destruct (IH c d v Hv Nv) as [L S]. split; [exact L | exact (S Sd)].
    - exact Hr.
    - apply no_v4_list_Forall. exact NVs.
    - split; [exact A | apply shorts_list_Forall; exact B]. }
  destruct (classify code) eqn:K.
  all: try (peel H; injection H as <-; lens;
            match goal with |- length (enc_val ?o) <= _ /\ _ =>
              assert (L : length (enc_val o) <= length data) by (len_simpl; lia);
              split; [exact L | intros SD; cbn [shorts]; split; [exact (short_le _ _ L SD) | exact I]]
            end).
  - (* client id *)
    peel H. injection H as <-. match goal with E : dec_duid _ = Ok _ |- _ => pose proof (dec_duid_length _ _ E) as L end. leaf L.
  - peel H. injection H as <-. match goal with E : dec_duid _ = Ok _ |- _ => pose proof (dec_duid_length _ _ E) as L end. leaf L.
  - container H NV OPTS.
  - container H NV OPTS.
  - container H NV OPTS.
  - (* ORO *)
    peel H. injection H as <-.
    match goal with E : many_u16 _ = Ok ?cs |- _ => pose proof (many_u16_length _ _ E); pose proof (dedup_add_length cs []) end.
    assert (L : length (enc_val (OORO (dedup_add [] a))) <= length data) by (len_simpl; cbn [length] in *; lia). leaf L.
  - (* relay message *)
    destruct (dec_msg_with _ data) as [m| | |] eqn:E; cbn [bind] in H; try discriminate.
    injection H as <-. unfold dec_msg_with in E.
    peel E; injection E as <-;
      match goal with E' : dec_tlvs _ _ = Ok ?os |- _ =>
        destruct (no_v4_nested os) as (N1 & N2 & N3 & N4 & N5 & N6 & N7 & N8);
        rewrite ?N4, ?N5 in NV;
        destruct (OPTS _ _ E' NV) as [LO SO];
        destruct (enc_val_nested os) as (T1 & T2 & T3 & T4 & T5 & T6 & T7 & T8);
        destruct (shorts_nested os) as (S1 & S2 & S3 & S4 & S5 & S6 & S7 & S8);
        lens;
        match goal with |- length (enc_val ?o) <= length ?data /\ _ =>
          assert (L : length (enc_val o) <= length data) by (rewrite ?T4, ?T5; cbv zeta; len_simpl; lia);
          split; [exact L | intros SD; rewrite ?S4, ?S5; split; [exact (short_le _ _ L SD) | exact SO]]
        end
      end.
  - (* user class *)
    peel H. injection H as <-.
    match goal with E : many_len16 _ _ = Ok _ |- _ => pose proof (many_len16_length _ _ _ E) as L0 end.
    match goal with |- length (enc_val ?o) <= length ?d /\ _ => assert (L : length (enc_val o) <= length d) by (cbn [enc_val]; lia) end.
    leaf L.
  - (* vendor class *)
    peel H. injection H as <-.
    match goal with E : many_len16 _ _ = Ok _ |- _ => pose proof (many_len16_length _ _ _ E) as L0 end. lens.
    match goal with |- length (enc_val ?o) <= _ /\ _ => assert (L : length (enc_val o) <= length data) by (len_simpl; lia) end.
    leaf L.
  - (* vendor options *)
    peel H. injection H as <-. lens.
    assert (HP : forall c d (v : N * bytes), u16 c -> short d -> Ok (c, d) = Ok v -> True -> length (snd v) <= length d /\ True)
      by (intros c d v _ _ [= <-] _; split; [cbn; lia | exact I]).
    match goal with E : dec_tlvs _ _ = Ok ?subs |- _ => unfold dec_tlvs in E;
      destruct (tlv_loop_lengths _ fst snd (fun _ => True) (fun _ => True) HP _ _ _ E) as [A _];
      [clear; induction subs; constructor; auto |] end.
    match goal with |- length (enc_val ?o) <= _ /\ _ => assert (L : length (enc_val o) <= length data) by (len_simpl; lia) end.
    leaf L.
  - (* DNS *)
    peel H. injection H as <-.
    match goal with E : many_ip16 _ _ = Ok _ |- _ => pose proof (many_ip16_length _ _ _ E) as L0 end.
    match goal with |- length (enc_val ?o) <= _ /\ _ => assert (L : length (enc_val o) <= length data) by (cbn [enc_val]; lia) end.
    leaf L.
  - (* domain list *)
    peel H. injection H as <-.
    match goal with E : dec_labels _ = Ok _ |- _ => pose proof (dec_labels_bytes _ _ E) as L0 end.
    match goal with |- length (enc_val ?o) <= _ /\ _ => assert (L : length (enc_val o) <= length data) by (cbn [enc_val]; rewrite L0; lia) end.
    leaf L.
  - container H NV OPTS.
  - container H NV OPTS.
  - (* FQDN *)
    peel H. injection H as <-.
    match goal with E : dec_labels _ = Ok _ |- _ => pose proof (dec_labels_bytes _ _ E) as L0 end. lens.
    match goal with |- length (enc_val ?o) <= _ /\ _ => assert (L : length (enc_val o) <= length data) by (cbn [enc_val app length]; rewrite L0; lia) end.
    leaf L.
  - (* NTP *)
    peel H. injection H as <-.
    assert (HP : forall c d v, u16 c -> short d -> dec_ntpsub c d = Ok v -> True ->
                   length (ntp_val v) <= length d /\ enc_ntpsub v = tlv (ntp_code v) (ntp_val v))
      by (intros c d v Hc Hd Hv _; destruct (dec_ntpsub_length c d v Hc Hd Hv); split; assumption).
    match goal with E : dec_tlvs _ _ = Ok ?subs |- _ => unfold dec_tlvs in E;
      destruct (tlv_loop_lengths _ ntp_code ntp_val (fun _ => True) _ HP _ _ _ E) as [A B];
      [clear; induction subs; constructor; auto |] end.
    match goal with |- length (enc_val (ONTP ?subs)) <= _ /\ _ =>
      assert (EQ : flat_map enc_ntpsub subs = flat_map (fun x => tlv (ntp_code x) (ntp_val x)) subs)
        by (clear - B; induction B as [|s r Hs F IHF]; [reflexivity | cbn [flat_map]; rewrite Hs, IHF; reflexivity]);
      assert (L : length (enc_val (ONTP subs)) <= length data) by (cbn [enc_val]; rewrite EQ; exact A)
    end.
    leaf L.
  - (* boot parameters *)
    peel H. injection H as <-.
    match goal with E : many_len16 _ _ = Ok ?ps |- _ => pose proof (many_len16_length _ _ _ E) as L0; pose proof (many_len16_short _ _ _ E) as SH end.
    match goal with |- length (enc_val (OBootParam ?ps)) <= _ /\ _ =>
      assert (EQ : flat_map (fun p => if (65536 <=? N.of_nat (length p))%N then [] else len16 p ++ p) ps = flat_map (fun c => len16 c ++ c) ps)
        by (clear - SH; induction SH as [|p r Hp F IHF]; [reflexivity | cbn [flat_map]; rewrite IHF;
            unfold short in Hp; destruct (65536 <=? N.of_nat (length p))%N eqn:C; [apply N.leb_le in C; lia | reflexivity]]);
      assert (L : length (enc_val (OBootParam ps)) <= length data) by (cbn [enc_val]; rewrite EQ; lia)
    end.
    leaf L.
  - (* architectures *)
    peel H. injection H as <-.
    match goal with E : many_u16 _ = Ok ?cs |- _ => pose proof (many_u16_length _ _ E) end.
    match goal with |- length (enc_val ?o) <= length ?d /\ _ => assert (L : length (enc_val o) <= length d) by (len_simpl; cbn [length] in *; lia) end.
    leaf L.
  - (* DHCPv4: not padded, hence no longer than received *)
    peel H. injection H as <-. cbn [no_v4] in NV.
    match goal with E : dec4 _ = Ok _ |- _ => pose proof (dec4_reencode_length _ _ E) as L0 end.
    match goal with |- length (enc_val ?o) <= length ?d /\ _ => assert (L : length (enc_val o) <= length d) by (cbn [enc_val]; lia) end.
    leaf L.
  - (* DHCP4o6 *)
    peel H. injection H as <-.
    match goal with E : many_ip16 _ _ = Ok _ |- _ => pose proof (many_ip16_length _ _ _ E) as L0 end.
    match goal with |- length (enc_val ?o) <= _ /\ _ => assert (L : length (enc_val o) <= length data) by (cbn [enc_val]; lia) end.
    leaf L.
  - container H NV OPTS.
  - (* 4RD map rule *)
    peel H. injection H as <-. lens.
    match goal with Hp : length ?p4 = 4 |- length (enc_val (O4RDMap ?a1 ?a2 ?a3 ?a4 ?p4 ?p6)) <= _ /\ _ =>
      assert (L : length (enc_val (O4RDMap a1 a2 a3 a4 p4 p6)) <= length data)
        by (cbn [enc_val]; rewrite (to4_len4 _ Hp); len_simpl; cbn [length] in *; lia) end.
    leaf L.
Qed.

Lemma dec_msg_shorts b m : dec_msg b = Ok m -> no_v4_msg m -> shorts_msg m.
Proof.
  unfold dec_msg, dec_msg_with, dec_opts. intros H NV.
  assert (OPTS : forall r os, dec_tlvs (dec_opt (Datatypes.S (length b))) r = Ok os -> no_v4_list os -> shorts_list os).
  { intros r os Hr NVs. unfold dec_tlvs in Hr.
    assert (HP : forall c d v, u16 c -> short d -> dec_opt (Datatypes.S (length b)) c d = Ok v -> no_v4 v ->
                   length (enc_val v) <= length d /\ shorts v).
    { intros c d v _ Sd Hv Nv. destruct (no_growth _ c d v Hv Nv) as [L S]. split; [exact L | exact (S Sd)]. }
    destruct (tlv_loop_lengths _ opt_code enc_val no_v4 shorts HP _ _ _ Hr (no_v4_list_Forall _ NVs)) as [_ B].
    apply shorts_list_Forall. exact B. }
  peel H; injection H as <-; cbn [shorts_msg no_v4_msg] in *;
    match goal with E : dec_tlvs _ _ = Ok ?os |- _ => exact (OPTS _ _ E NV) end.
Qed.

(** for messages that embed no DHCPv4 message the fixpoint holds unconditionally *)
Theorem fixpoint6_no_v4 b m : dec_msg b = Ok m -> no_v4_msg m ->
  exists m2, dec_msg (enc_msg m) = Ok m2 /\ enc_msg m2 = enc_msg m /\ m2 = canon_msg m.
Proof. intros H NV. apply (fixpoint6 b m H). eapply dec_msg_shorts; eauto. Qed.

(** and re-encoding such a message never produces more octets than were received *)
Theorem reencode_no_longer b m : dec_msg b = Ok m -> no_v4_msg m -> length (enc_msg m) <= length b.
Proof.
  unfold dec_msg, dec_msg_with, dec_opts. intros H NV.
  assert (OPTS : forall r os, dec_tlvs (dec_opt (Datatypes.S (length b))) r = Ok os -> no_v4_list os ->
            length (enc_opts os) <= length r).
  { intros r os Hr NVs. unfold dec_tlvs in Hr.
    assert (HP : forall c d v, u16 c -> short d -> dec_opt (Datatypes.S (length b)) c d = Ok v -> no_v4 v ->
                   length (enc_val v) <= length d /\ True).
    { intros c d v _ Sd Hv Nv. destruct (no_growth _ c d v Hv Nv) as [L _]. split; [exact L | exact I]. }
    destruct (tlv_loop_lengths _ opt_code enc_val no_v4 (fun _ => True) HP _ _ _ Hr (no_v4_list_Forall _ NVs)) as [A _].
    exact A. }
  peel H; injection H as <-; cbn [no_v4_msg] in *;
    match goal with E : dec_tlvs _ _ = Ok ?os |- _ => pose proof (OPTS _ _ E NV) end; lens;
    cbn [enc_msg]; len_simpl; lia.
Qed.
