(** C16 proofs: encapsulation/decapsulation, inner message at any depth,
    relay-reply construction, builders. *)
From DV Require Import Base.Bytes Label.Model V4.Model V6.Model V6.Relay.

Lemma msg_of_opt_of_msg m : relay_inner [opt_of_msg m] = Some m.
Proof. destruct m; reflexivity. Qed.

Lemma relay_inner_first pre post i :
  get_one 9 pre = None -> relay_inner (pre ++ opt_of_msg i :: post) = Some i.
Proof.
  intros H. unfold relay_inner, get_one in *.
  induction pre as [|x pre IH]; cbn [app find].
  - destruct i; reflexivity.
  - cbn [find] in H. destruct (opt_code x =? 9)%N; [discriminate | apply IH; exact H].
Qed.

(** encapsulating and decapsulating returns the original *)
Theorem decap_encap m t l p r : encapsulate m t l p = Ok r -> decapsulate r = Ok m.
Proof.
  unfold encapsulate. destruct (is_relay_type t); [|discriminate]. intros [= <-].
  cbn [decapsulate]. rewrite msg_of_opt_of_msg. reflexivity.
Qed.

(** the hop count grows by one per level (0 over a message), wrapping like uint8 *)
Theorem encap_hop m t l p r : encapsulate m t l p = Ok r ->
  exists os, r = Relay t (match m with Relay _ h _ _ _ => ((h + 1) mod 256)%N | Msg _ _ _ => 0%N end) l p os.
Proof.
  unfold encapsulate. destruct (is_relay_type t); [|discriminate]. intros [= <-]. eexists. reflexivity.
Qed.

Theorem encap_rejects_other_types m t l p : is_relay_type t = false -> encapsulate m t l p = Err.
Proof. intros H. unfold encapsulate. rewrite H. reflexivity. Qed.

(** * relay nests of any depth *)
Record flevel := mkFl { fl_type : N; fl_hop : N; fl_link : bytes; fl_peer : bytes; fl_pre : list opt6; fl_post : list opt6 }.
Definition fl_ok (lv : flevel) : Prop := get_one 9 (fl_pre lv) = None.
Definition fl_wrap (lv : flevel) (inner : msg6) : msg6 :=
  Relay (fl_type lv) (fl_hop lv) (fl_link lv) (fl_peer lv) (fl_pre lv ++ opt_of_msg inner :: fl_post lv).
(** [nest lvs m]: the levels outermost first, [m] innermost *)
Definition nest (lvs : list flevel) (m : msg6) : msg6 := fold_right fl_wrap m lvs.

Lemma decap_wrap lv i : fl_ok lv -> decapsulate (fl_wrap lv i) = Ok i.
Proof. intros H. cbn [fl_wrap decapsulate]. rewrite relay_inner_first by exact H. reflexivity. Qed.

(** the innermost message is found whatever the depth *)
Theorem inner_message_nest lvs m : Forall fl_ok lvs -> is_relay m = false ->
  forall fuel, length lvs < fuel -> inner_message fuel (nest lvs m) = Ok m.
Proof.
  intros F Hm. induction F as [|lv lvs Hlv F IH]; intros fuel Hf.
  - destruct fuel; [lia|]. cbn [nest fold_right inner_message]. destruct m; [reflexivity | discriminate].
  - destruct fuel; [cbn in Hf; lia|]. cbn [nest fold_right]. fold (nest lvs m).
    cbn [inner_message fl_wrap]. change (Relay _ _ _ _ _) with (fl_wrap lv (nest lvs m)).
    rewrite decap_wrap by exact Hlv. cbn [bind]. apply IH. cbn in Hf. lia.
Qed.

(** decapsulating i+1 times reaches level i+1 *)
Theorem decap_times_nest pre lvs m : Forall fl_ok pre ->
  decap_times (length pre) (nest (pre ++ lvs) m) = Ok (nest lvs m).
Proof.
  induction 1 as [|lv pre Hlv F IH]; [reflexivity|].
  cbn [app nest fold_right length decap_times]. fold (nest (pre ++ lvs) m).
  change (fl_wrap lv (nest (pre ++ lvs) m)) with (fl_wrap lv (nest (pre ++ lvs) m)).
  rewrite decap_wrap by exact Hlv. cbn [bind]. exact IH.
Qed.

Lemma is_relay_nest lvs m : lvs <> [] -> is_relay (nest lvs m) = true.
Proof. destruct lvs; [congruence | reflexivity]. Qed.

Theorem decapsulate_index_nest pre lvs m fuel : Forall fl_ok pre -> pre <> [] ->
  decapsulate_index fuel (nest (pre ++ lvs) m) (Z.of_nat (length pre) - 1) = Ok (nest lvs m).
Proof.
  intros F Hne. unfold decapsulate_index.
  rewrite is_relay_nest by (destruct pre; [congruence | discriminate]). cbn [negb].
  assert (L : 1 <= length pre) by (destruct pre; [congruence | cbn; lia]).
  assert (C1 : (Z.of_nat (length pre) - 1 <? -1)%Z = false) by (apply Z.ltb_ge; lia).
  assert (C2 : (Z.of_nat (length pre) - 1 =? -1)%Z = false) by (apply Z.eqb_neq; lia).
  rewrite C1, C2.
  replace (S (Z.to_nat (Z.of_nat (length pre) - 1))) with (length pre) by lia.
  apply decap_times_nest. exact F.
Qed.

(** index -1: the innermost relay level *)
Theorem innermost_relay_nest lvs lv m : Forall fl_ok lvs -> fl_ok lv -> is_relay m = false ->
  forall fuel, length lvs < fuel -> innermost_relay fuel (nest (lvs ++ [lv]) m) = Ok (fl_wrap lv m).
Proof.
  intros F Hlv Hm. induction F as [|x lvs Hx F IH]; intros fuel Hf.
  - destruct fuel; [lia|]. cbn [app nest fold_right innermost_relay].
    rewrite decap_wrap by exact Hlv. cbn [bind]. rewrite Hm. reflexivity.
  - destruct fuel; [cbn in Hf; lia|]. cbn [app nest fold_right innermost_relay]. fold (nest (lvs ++ [lv]) m).
    rewrite decap_wrap by exact Hx. cbn [bind].
    rewrite is_relay_nest by (destruct lvs; discriminate). apply IH. cbn in Hf. lia.
Qed.

(** * NewRelayReplFromRelayForw *)
Definition level_of (lv : flevel) : level :=
  let os := fl_pre lv ++ [] in
  mkLevel (fl_link lv) (fl_peer lv) None None.

(** what each level contributes: its addresses and its first interface-id / remote-id options *)
Definition lv_data (lv : flevel) (inner : msg6) : level :=
  let os := fl_pre lv ++ opt_of_msg inner :: fl_post lv in
  mkLevel (fl_link lv) (fl_peer lv) (get_one 18 os) (get_one 37 os).

Fixpoint nest_levels (lvs : list flevel) (m : msg6) : list level :=
  match lvs with
  | [] => []
  | lv :: r => lv_data lv (nest r m) :: nest_levels r m
  end.

Lemma collect_levels_nest lvs m : Forall fl_ok lvs -> lvs <> [] -> is_relay m = false ->
  forall fuel, length lvs <= fuel -> collect_levels fuel (nest lvs m) = Ok (nest_levels lvs m).
Proof.
  intros F. induction F as [|lv lvs Hlv F IH]; intros Hne Hm fuel Hf; [congruence|].
  destruct fuel; [cbn in Hf; lia|]. cbn [nest fold_right]. fold (nest lvs m).
  cbn [collect_levels fl_wrap]. change (Relay _ _ _ _ _) with (fl_wrap lv (nest lvs m)).
  rewrite decap_wrap by exact Hlv. cbn [bind nest_levels].
  destruct lvs as [|lv2 lvs'].
  - cbn [nest fold_right]. rewrite Hm. reflexivity.
  - rewrite is_relay_nest by discriminate. rewrite IH; [reflexivity | discriminate | exact Hm | cbn in Hf |- *; lia].
Qed.

(** the reply chain, described outermost-first: same depth, level-wise the
    same link and peer address, the level's interface-id and remote-id
    echoed, the given reply innermost *)
Fixpoint repl (lvs : list level) (reply : msg6) : res msg6 :=
  match lvs with
  | [] => Ok reply
  | lv :: r =>
    let* inner := repl r reply in
    let* e := encapsulate inner 13 (lv_link lv) (lv_peer lv) in
    Ok (add_opt_if (add_opt_if e (lv_iid lv)) (lv_rid lv))
  end.

Lemma rebuild_app l1 : forall l2 m, rebuild (l1 ++ l2) m = let* x := rebuild l1 m in rebuild l2 x.
Proof.
  induction l1 as [|lv l1 IH]; intros l2 m; [reflexivity|]. cbn [app rebuild].
  destruct (encapsulate m 13 (lv_link lv) (lv_peer lv)); cbn [bind]; try reflexivity. apply IH.
Qed.

Lemma rebuild_rev lvs reply : rebuild (rev lvs) reply = repl lvs reply.
Proof.
  induction lvs as [|lv lvs IH]; [reflexivity|]. cbn [rev repl]. rewrite rebuild_app, IH.
  destruct (repl lvs reply) as [inner| | |]; cbn [bind]; try reflexivity.
Qed.

Lemma rrf_unfold fuel relay reply : msg_type relay = 12%N -> is_relay relay = true ->
  relay_repl_from_forw fuel relay reply = let* lvs := collect_levels fuel relay in rebuild (rev lvs) reply.
Proof.
  destruct relay as [|t h l p os]; cbn [is_relay msg_type]; [discriminate|]. intros -> _. reflexivity.
Qed.

Theorem relay_repl_nest lvs m reply : Forall fl_ok lvs -> is_relay m = false ->
  (exists lv r, lvs = lv :: r /\ fl_type lv = 12%N) ->
  relay_repl_from_forw (length lvs) (nest lvs m) reply = repl (nest_levels lvs m) reply.
Proof.
  intros F Hm (lv & r & -> & Ht). rewrite rrf_unfold; [|exact Ht | reflexivity].
  rewrite collect_levels_nest; [|exact F | discriminate | exact Hm | reflexivity].
  cbn [bind]. apply rebuild_rev.
Qed.

(** rejected unless the outer message is a RELAY-FORW *)
Theorem relay_repl_wrong_type fuel t h l p os reply : t <> 12%N ->
  relay_repl_from_forw fuel (Relay t h l p os) reply = Err.
Proof. intros H. cbn. apply N.eqb_neq in H. rewrite H. reflexivity. Qed.

(** a level without a relay-message option: rejected *)
Theorem relay_repl_missing_inner fuel h l p os reply : relay_inner os = None ->
  relay_repl_from_forw (S fuel) (Relay 12 h l p os) reply = Err.
Proof. intros H. cbn. rewrite H. reflexivity. Qed.

(** the rebuilt chain has the same depth and the reply innermost *)
Theorem repl_inner lvs reply r : is_relay reply = false -> repl lvs reply = Ok r ->
  inner_message (S (length lvs)) r = Ok reply.
Proof.
  intros Hr. revert r. induction lvs as [|lv lvs IH]; intros r.
  - cbn. intros [= <-]. destruct reply; [reflexivity | discriminate].
  - cbn [repl]. destruct (repl lvs reply) as [inner| | |] eqn:E; cbn [bind]; try discriminate.
    unfold encapsulate. cbn [is_relay_type N.eqb Pos.eqb orb bind]. intros [= <-].
    specialize (IH inner eq_refl).
    assert (D : forall o1 o2 hop, decapsulate (add_opt_if (add_opt_if (Relay 13 hop (lv_link lv) (lv_peer lv) [opt_of_msg inner]) o1) o2) = Ok inner).
    { intros o1 o2 hop. destruct o1, o2; cbn [add_opt_if add_opt decapsulate app];
        unfold relay_inner, get_one; cbn [find]; destruct inner; reflexivity. }
    cbn [length]. set (R := add_opt_if _ _).
    change (inner_message (S (S (length lvs))) R) with
      (match R with Msg _ _ _ => Ok R | Relay _ _ _ _ _ => let* d := decapsulate R in inner_message (S (length lvs)) d end).
    assert (HR : is_relay R = true) by (unfold R; destruct (lv_iid lv), (lv_rid lv); reflexivity).
    destruct R eqn:ER; [discriminate|]. rewrite <- ER. unfold R. rewrite D. cbn [bind]. exact IH.
Qed.

(** * advertise / request / reply builders *)
Theorem advertise_fields sol adv : new_advertise_from_solicit sol = Ok adv ->
  exists xid os cid, sol = Msg 1 xid os /\ get_one 1 os = Some cid /\ adv = Msg 2 xid [cid].
Proof.
  destruct sol as [t xid os|]; cbn; [|discriminate].
  destruct (t =? 1)%N eqn:E; [|discriminate]. apply N.eqb_eq in E. subst t.
  destruct (get_one 1 os) as [cid|] eqn:C; [|discriminate]. intros [= <-]. exists xid, os, cid. auto.
Qed.

Theorem advertise_rejects sol : (forall xid os, sol <> Msg 1 xid os) \/ (exists xid os, sol = Msg 1 xid os /\ get_one 1 os = None) ->
  new_advertise_from_solicit sol = Err.
Proof.
  intros [H|(xid & os & -> & H)].
  - destruct sol as [t xid os|]; cbn; [|reflexivity]. destruct (t =? 1)%N eqn:E; [|reflexivity].
    apply N.eqb_eq in E. subst t. exfalso. apply (H xid os). reflexivity.
  - cbn. rewrite H. reflexivity.
Qed.

Theorem request_fields xid adv req : new_request_from_advertise xid adv = Ok req ->
  exists axid os cid sid iana rest, adv = Msg 2 axid os /\
    get_one 1 os = Some cid /\ get_one 2 os = Some sid /\ get_one 3 os = Some iana /\
    req = Msg 3 xid ([cid; sid; OElapsed 0; iana] ++ rest) /\
    rest = (match get_one 25 os with Some pd => [pd] | None => [] end) ++ [oro_default] ++
           (match get_one 16 os with Some vc => [vc] | None => [] end).
Proof.
  destruct adv as [t axid os|]; cbn [new_request_from_advertise]; [|discriminate].
  destruct (t =? 2)%N eqn:E; [|discriminate]. apply N.eqb_eq in E. subst t.
  destruct (get_one 1 os) as [cid|] eqn:C; [|discriminate].
  destruct (get_one 2 os) as [sid|] eqn:S; [|discriminate].
  destruct (get_one 3 os) as [iana|] eqn:I; [|discriminate].
  intros [= <-]. exists axid, os, cid, sid, iana,
    ((match get_one 25 os with Some pd => [pd] | None => [] end) ++ [oro_default] ++
     (match get_one 16 os with Some vc => [vc] | None => [] end)).
  repeat split; try assumption; try reflexivity.
  destruct (get_one 25 os), (get_one 16 os); reflexivity.
Qed.

Theorem reply_fields msg rep : new_reply_from_message msg = Ok rep ->
  exists t xid os cid, msg = Msg t xid os /\ get_one 1 os = Some cid /\
    ((t = 1%N /\ get_one 14 os <> None /\ rep = Msg 7 xid [cid; OGeneric 14 []]) \/
     (reply_source_type t = true /\ t <> 1%N /\ rep = Msg 7 xid [cid])).
Proof.
  destruct msg as [t xid os|]; cbn [new_reply_from_message]; [|discriminate].
  destruct (t =? 1)%N eqn:E.
  - apply N.eqb_eq in E. subst t. cbn [andb negb].
    destruct (get_one 14 os) as [rc|] eqn:R; [|discriminate].
    destruct (get_one 1 os) as [cid|] eqn:C; [|discriminate]. intros [= <-].
    exists 1%N, xid, os, cid. repeat split; auto. left. repeat split; [congruence|].
    cbn. destruct (opt_code cid =? 14)%N eqn:K; [|reflexivity].
    exfalso. unfold get_one in C. apply find_some in C. destruct C as [_ C]. apply N.eqb_eq in C, K. congruence.
  - cbn [andb negb]. destruct (reply_source_type t) eqn:T; cbn [negb]; [|discriminate].
    destruct (get_one 1 os) as [cid|] eqn:C; [|discriminate]. intros [= <-].
    exists t, xid, os, cid. repeat split; auto. right. repeat split; auto. apply N.eqb_neq. exact E.
Qed.

(** an index at or beyond the nesting depth: decapsulating a message that is no
    relay leaves it as it is, so the innermost message is returned (never a
    crash, never an error) *)
Lemma decap_times_msg n m : is_relay m = false -> decap_times n m = Ok m.
Proof.
  intros Hm. induction n as [|n IH]; [reflexivity|].
  cbn [decap_times]. destruct m; [cbn [decapsulate bind]; exact IH | discriminate].
Qed.

Theorem decap_times_beyond lvs m : Forall fl_ok lvs -> is_relay m = false ->
  forall n, length lvs <= n -> decap_times n (nest lvs m) = Ok m.
Proof.
  intros F Hm. induction F as [|lv lvs Hlv F IH]; intros n Hn.
  - cbn [nest fold_right]. apply decap_times_msg. exact Hm.
  - destruct n as [|n]; [cbn in Hn; lia|].
    cbn [nest fold_right decap_times]. fold (nest lvs m).
    rewrite decap_wrap by exact Hlv. cbn [bind]. apply IH. cbn in Hn. lia.
Qed.

Theorem decapsulate_index_beyond lvs m fuel (index : Z) : Forall fl_ok lvs -> is_relay m = false ->
  (Z.of_nat (length lvs) - 1 <= index)%Z -> (0 <= index)%Z ->
  decapsulate_index fuel (nest lvs m) index = Ok m.
Proof.
  intros F Hm Hi H0. unfold decapsulate_index.
  destruct lvs as [|lv lvs].
  - cbn [nest fold_right]. rewrite Hm. reflexivity.
  - rewrite is_relay_nest by discriminate. cbn [negb].
    assert (C1 : (index <? -1)%Z = false) by (apply Z.ltb_ge; lia).
    assert (C2 : (index =? -1)%Z = false) by (apply Z.eqb_neq; lia).
    rewrite C1, C2. apply decap_times_beyond; [exact F | exact Hm |]. lia.
Qed.
