package main

import (
	"bytes"
	"fmt"

	"github.com/insomniacslk/dhcp/dhcpv4"
	"github.com/insomniacslk/dhcp/dhcpv6"
	"github.com/insomniacslk/dhcp/rfc1035label"
)

func init() { props["C08"] = genC08 }

// overwrite patterns for a buffer of length n; next is another valid packet
func overwritePatterns(r *Run, n int, next []byte) map[string][]byte {
	p := map[string][]byte{
		"all-zero":     make([]byte, n),
		"all-ff":       bytes.Repeat([]byte{0xff}, n),
		"small-length": bytes.Repeat([]byte{0x05}, n),
		"ones":         bytes.Repeat([]byte{0x01}, n),
		"random":       r.Bytes(n),
	}
	np := make([]byte, n)
	copy(np, next)
	p["next-packet"] = np
	return p
}

func snapV6(m dhcpv6.DHCPv6) (s string) {
	defer func() {
		if x := recover(); x != nil {
			s = fmt.Sprintf("PANIC %v", x)
		}
	}()
	return hx(m.ToBytes()) + "|" + dumpLine(dumpMsg(m)) + "|" + m.Summary() + "|" + m.String()
}

func snapV4(p *dhcpv4.DHCPv4) (s string) {
	defer func() {
		if x := recover(); x != nil {
			s = fmt.Sprintf("PANIC %v", x)
		}
	}()
	return hx(p.ToBytes()) + "|" + dumpLine(dumpPkt4(p)) + "|" + p.Summary() + "|" + fmt.Sprint(p.ClientArch(), p.DomainSearch(), p.RelayAgentInfo(), p.UserClass(), p.VIVC(), p.ClasslessStaticRoute())
}

func genC08(r *Run) {
	evals := 0
	// ---- DHCPv6 messages covering every option type at every nesting position
	n6 := r.N(1200, 80000)
	var prev []byte
	for i := 0; i < n6; i++ {
		var w []byte
		switch i % 4 {
		case 0:
			_, w = r.genChain(1 + r.Rng.Intn(4))
		case 1:
			// every known type inside an IA_NA, a vendor-opts and a relay message
			c := knownV6Codes[r.Rng.Intn(len(knownV6Codes))]
			nd := r.genOptCode(c, 2)
			inner := append([]byte{1, 1, 2, 3}, tlvb(c, nd.wire)...)
			ia := append(append(append(r.Bytes(4), w32(1)...), w32(2)...), tlvb(c, nd.wire)...)
			w = append(append([]byte{12, 0}, r.Bytes(32)...), append(tlvb(9, inner), tlvb(3, ia)...)...)
			w = append(w, tlvb(56, tlvb(3, []byte{3, 'n', 't', 'p', 0}))...)
			w = append(w, tlvb(24, []byte{1, 'a', 2, 'b', 'c', 0})...)
		default:
			_, w = r.genMsg(r.Pick(1, 2, 3), r.Pick(2, 5, 10))
		}
		if len(w) > 8000 {
			continue
		}
		r.Add(eV6Dec, w)
		if prev == nil {
			prev = w
		}
		for name, pat := range overwritePatterns(r, len(w), prev) {
			buf := append([]byte{}, w...)
			m, err := dhcpv6.FromBytes(buf)
			if err != nil {
				break
			}
			before := snapV6(m)
			copy(buf, pat)
			after := snapV6(m)
			evals++
			if before != after {
				r.Fail("v6-input-aliased:"+name, trunc(hx(w), 3000), "message changed after its source buffer was overwritten: "+trunc(firstDiff(before, after), 300))
				break
			}
		}
		// output buffer independence
		if m, err := dhcpv6.FromBytes(append([]byte{}, w...)); err == nil {
			out := m.ToBytes()
			ref := append([]byte{}, out...)
			for j := range out {
				out[j] ^= 0xa5
			}
			evals++
			trackOutput(r, "dhcpv6 message", m.ToBytes())
			if d := twoOutputs(m.ToBytes); d != "" {
				r.Fail("v6-outputs-share-memory", trunc(hx(w), 3000), d)
			}
			if mm, ok := m.(*dhcpv6.Message); ok { // an earlier output must survive a later edit + encoding
				o1 := mm.ToBytes()
				k1 := append([]byte{}, o1...)
				mm.TransactionID[0] ^= 0xff
				_ = mm.ToBytes()
				mm.TransactionID[0] ^= 0xff
				if !bytes.Equal(o1, k1) {
					r.Fail("v6-output-rewritten-by-later-encoding", trunc(hx(w), 3000), "a returned encoding changed when the message was edited and encoded again")
				}
			}
			if out2 := m.ToBytes(); !bytes.Equal(out2, ref) {
				r.Fail("v6-output-aliased", trunc(hx(w), 3000), "scribbling over ToBytes() output changed a later encoding")
			}
		}
		prev = w
	}
	// ---- a decode that FAILS keeps nothing of its input either: the name sets inside a decoded message (search list,
	// FQDN, NTP server name) are handed a buffer that does not decode, the buffer is then overwritten; the message is
	// what it was before, whatever the buffer holds
	for i := 0; i < r.N(60, 3000); i++ {
		w := append([]byte{7, 1, 2, 3}, tlvb(56, tlvb(3, []byte{3, 'n', 't', 'p', 7, 'e', 'x', 'a', 'm', 'p', 'l', 'e', 0}))...)
		w = append(w, tlvb(24, []byte{1, 'a', 2, 'b', 'c', 0})...)
		w = append(w, tlvb(39, []byte{1, 4, 'h', 'o', 's', 't', 0})...)
		m, err := dhcpv6.FromBytes(append([]byte{}, w...))
		if err != nil {
			break
		}
		var sets []*rfc1035label.Labels
		walkV6(m, func(o dhcpv6.Option) {
			switch x := o.(type) {
			case *dhcpv6.OptFQDN:
				sets = append(sets, x.DomainName)
			case *dhcpv6.OptNTPServer:
				for _, so := range x.Suboptions {
					if f, ok := so.(*dhcpv6.NTPSuboptionSrvFQDN); ok {
						sets = append(sets, &f.Labels)
					}
				}
			default:
				if o.Code() == dhcpv6.OptionDomainSearchList {
					if l, ok := field(o, "DomainSearchList").(*rfc1035label.Labels); ok {
						sets = append(sets, l)
					}
				}
			}
		})
		before := snapV6(m)
		for _, l := range sets {
			if l == nil {
				continue
			}
			bad := append([]byte{3, 'o', 'l', 'd', 0}, byte(9+r.Rng.Intn(40)), 'x') // a valid name, then a label running past the end
			if l.FromBytes(bad) == nil {
				continue
			}
			evals++
			if after := snapV6(m); after != before {
				r.Fail("v6-failed-decode-changes-value", hx(w), "a name set inside the message changed although the FromBytes call on it failed: "+trunc(firstDiff(before, after), 300))
				break
			}
			for name, pat := range overwritePatterns(r, len(bad), bad) {
				copy(bad, pat)
				if after := snapV6(m); after != before {
					r.Fail("v6-input-aliased:"+name, hx(w), "the message follows a buffer that a failed FromBytes call was given: "+trunc(firstDiff(before, after), 300))
					break
				}
			}
		}
	}
	// ---- single options through ParseOption
	for _, c := range knownV6Codes {
		for k := 0; k < r.N(15, 400); k++ {
			nd := r.genOptCode(c, 2)
			if len(nd.wire) > 4000 {
				continue
			}
			for name, pat := range overwritePatterns(r, len(nd.wire), nd.wire) {
				buf := append([]byte{}, nd.wire...)
				o, err := dhcpv6.ParseOption(dhcpv6.OptionCode(c), buf)
				if err != nil {
					break
				}
				before := hx(safeToBytes(o)) + "|" + dumpLine(dumpOpt(o)) + "|" + o.String()
				copy(buf, pat)
				after := hx(safeToBytes(o)) + "|" + dumpLine(dumpOpt(o)) + "|" + o.String()
				evals++
				if before != after {
					r.Fail(fmt.Sprintf("v6-option-%d-aliased:%s", c, name), trunc(hx(nd.wire), 2000), trunc(firstDiff(before, after), 300))
					break
				}
			}
			if o, err := dhcpv6.ParseOption(dhcpv6.OptionCode(c), append([]byte{}, nd.wire...)); err == nil {
				out := safeToBytes(o)
				ref := append([]byte{}, out...)
				for j := range out {
					out[j] ^= 0x5a
				}
				evals++
				if out2 := safeToBytes(o); !bytes.Equal(out2, ref) {
					// per-option ToBytes may return the stored slice; what must hold is that the MESSAGE-level encoding copies it
					m := &dhcpv6.Message{MessageType: 1}
					m.AddOption(o)
					e1 := m.ToBytes()
					for j := range e1 {
						e1[j] = 0
					}
					if e2 := m.ToBytes(); len(e2) < 4 || !bytes.Equal(e2[8:], out2) {
						r.Fail(fmt.Sprintf("v6-option-%d-output-aliased", c), trunc(hx(nd.wire), 2000), "message encoding shares memory with a previous output")
					}
					r.Count(fmt.Sprintf("option-%d-ToBytes-returns-stored-slice", c))
				}
			}
		}
	}
	// ---- DHCPv4
	n4 := r.N(800, 50000)
	var prev4 []byte
	for i := 0; i < n4; i++ {
		var w []byte
		switch i % 3 {
		case 0:
			w = r.v4WithTypedOptions()
		case 1:
			w = r.validWire(8)
		default:
			w = r.nonCanonWire()
		}
		if prev4 == nil {
			prev4 = w
		}
		r.Add(eV4Dec, w)
		for name, pat := range overwritePatterns(r, len(w), prev4) {
			buf := append([]byte{}, w...)
			p, err := dhcpv4.FromBytes(buf)
			if err != nil {
				break
			}
			before := snapV4(p)
			copy(buf, pat)
			after := snapV4(p)
			evals++
			if before != after {
				r.Fail("v4-input-aliased:"+name, trunc(hx(w), 3000), trunc(firstDiff(before, after), 300))
				break
			}
		}
		// the option-set decoders as entry points of their own (an option area or a sub-option area handed over in
		// the caller's own buffer): Options.FromBytes and RelayOptions.FromBytes
		if len(w) > 240 {
			area := w[240:]
			if e := bytes.IndexByte(area, 255); e >= 0 && i%3 != 2 {
				area = area[:e]
			}
			for name, pat := range overwritePatterns(r, len(area), prev4) {
				buf := append([]byte{}, area...)
				var o dhcpv4.Options = dhcpv4.Options{}
				var ro dhcpv4.RelayOptions
				e1 := o.FromBytes(buf)
				buf2 := append([]byte{}, area...)
				e2 := ro.FromBytes(buf2)
				b1, b2 := "", ""
				if e1 == nil {
					b1 = hx(o.ToBytes()) + o.String()
				}
				if e2 == nil {
					b2 = hx(ro.ToBytes()) + ro.String()
				}
				copy(buf, pat)
				copy(buf2, pat)
				evals++
				if e1 == nil && hx(o.ToBytes())+o.String() != b1 {
					r.Fail("v4-input-aliased:"+name, "Options.FromBytes "+trunc(hx(area), 3000), trunc(firstDiff(b1, hx(o.ToBytes())+o.String()), 300))
					break
				}
				if e2 == nil && hx(ro.ToBytes())+ro.String() != b2 {
					r.Fail("v4-input-aliased:"+name, "RelayOptions.FromBytes "+trunc(hx(area), 3000), trunc(firstDiff(b2, hx(ro.ToBytes())+ro.String()), 300))
					break
				}
			}
		}
		if p, err := dhcpv4.FromBytes(append([]byte{}, w...)); err == nil {
			out := p.ToBytes()
			ref := append([]byte{}, out...)
			for j := range out {
				out[j] ^= 0xa5
			}
			evals++
			if out2 := p.ToBytes(); !bytes.Equal(out2, ref) {
				r.Fail("v4-output-aliased", trunc(hx(w), 3000), "")
			}
			trackOutput(r, "dhcpv4 packet", p.ToBytes())
			trackOutput(r, "dhcpv4 Options", p.Options.ToBytes())
			if ra := p.RelayAgentInfo(); ra != nil {
				trackOutput(r, "dhcpv4 relay agent information", ra.ToBytes())
			}
			if d := twoOutputs(p.ToBytes); d != "" {
				r.Fail("v4-outputs-share-memory", trunc(hx(w), 3000), d)
			}
			if d := twoOutputs(p.Options.ToBytes); d != "" {
				r.Fail("v4-options-outputs-share-memory", trunc(hx(w), 3000), d)
			}
			{
				o1 := p.ToBytes()
				k1 := append([]byte{}, o1...)
				p.TransactionID[0] ^= 0xff
				_ = p.ToBytes()
				p.TransactionID[0] ^= 0xff
				if !bytes.Equal(o1, k1) {
					r.Fail("v4-output-rewritten-by-later-encoding", trunc(hx(w), 3000), "")
				}
			}
			// Options.ToBytes too
			o1 := p.Options.ToBytes()
			ref1 := append([]byte{}, o1...)
			for j := range o1 {
				o1[j] = 0
			}
			if !bytes.Equal(p.Options.ToBytes(), ref1) {
				r.Fail("v4-options-output-aliased", trunc(hx(w), 3000), "")
			}
		}
		prev4 = w
	}
	// ---- labels, DUIDs directly
	for i := 0; i < r.N(500, 30000); i++ {
		_, w := r.validNames()
		if r.Rng.Intn(3) == 0 && len(w) > 2 {
			w = append(w, 1, 'x', 0xc0, 0)
		}
		for name, pat := range overwritePatterns(r, len(w), w) {
			buf := append([]byte{}, w...)
			l, err := rfc1035label.FromBytes(buf)
			if err != nil {
				break
			}
			before := hx(l.ToBytes()) + fmt.Sprint(l.Labels)
			copy(buf, pat)
			after := hx(l.ToBytes()) + fmt.Sprint(l.Labels)
			evals++
			if before != after {
				r.Fail("labels-input-aliased:"+name, hx(w), trunc(firstDiff(before, after), 300))
				break
			}
		}
		_, dw := r.genDUID()
		buf := append([]byte{}, dw...)
		if d, err := dhcpv6.DUIDFromBytes(buf); err == nil {
			before := hx(d.ToBytes()) + d.String()
			for j := range buf {
				buf[j] = 0x05
			}
			evals++
			if after := hx(d.ToBytes()) + d.String(); before != after {
				r.Fail("duid-input-aliased", hx(dw), "")
			}
		}
	}
	r.Extra["oracle_evaluations"] = evals
}

// twoOutputs: two encodings of the same value held at the same time must not share memory
func twoOutputs(enc func() []byte) string {
	a := enc()
	keep := append([]byte{}, a...)
	b := enc()
	if !bytes.Equal(b, keep) {
		return "two consecutive encodings differ"
	}
	for i := range a {
		a[i] ^= 0xff
	}
	if !bytes.Equal(b, keep) {
		return "overwriting the first of two encodings changed the second"
	}
	for i := range b {
		b[i] ^= 0x3c
	}
	for i := range a {
		if a[i] != keep[i]^0xff {
			return "overwriting the second of two encodings changed the first"
		}
	}
	return ""
}

// trackOutput: an encoding returned earlier - of any value - must still read the same after other values were encoded
var (
	prevOut, prevSnap []byte
	prevName          string
)

func trackOutput(r *Run, name string, out []byte) {
	if prevOut != nil && !bytes.Equal(prevOut, prevSnap) {
		r.Fail("outputs-of-different-values-share-memory", prevName+" then "+name,
			"the encoding of the first value changed when the second was encoded: "+firstDiff(hx(prevSnap), hx(prevOut)))
	}
	prevOut, prevSnap, prevName = out, append([]byte{}, out...), name
}
