(** Model of github.com/u-root/uio's Lexer/Buffer as used by the library
    (read side): remaining octets + sticky error.  See DESIGN Appendix D.1. *)
From DV Require Import Base.Bytes.
Ltac Zify.zify_post_hook ::= Z.div_mod_to_equations.

Record lexer := mkLx { rem : bytes; bad : bool }.

Definition lx_new (b : bytes) : lexer := mkLx b false.
Definition lx_len (l : lexer) : nat := length (rem l).
Definition lx_has (l : lexer) (n : nat) : bool := n <=? lx_len l.

(** [Consume n] for n >= 0: [None] is Go's nil result; the first failure is
    remembered and the buffer is not advanced. *)
Definition lx_consume (l : lexer) (n : nat) : option bytes * lexer :=
  if n <=? length (rem l)
  then (Some (firstn n (rem l)), mkLx (skipn n (rem l)) (bad l))
  else (None, mkLx (rem l) true).

(** [Consume n] for an [int] argument: a negative count passes [Has] and
    panics in the slice expression. *)
Definition lx_consume_z (l : lexer) (n : Z) : res (option bytes * lexer) :=
  if (n <? 0)%Z then Panic else Ok (lx_consume l (Z.to_nat n)).

Definition lx_read8 (l : lexer) : N * lexer :=
  match lx_consume l 1 with
  | (Some [a], l') => (b2n a, l')
  | (_, l') => (0%N, l')
  end.
Definition lx_read16 (l : lexer) : N * lexer :=
  match lx_consume l 2 with
  | (Some [a; b], l') => (rd16 a b, l')
  | (_, l') => (0%N, l')
  end.
Definition lx_read32 (l : lexer) : N * lexer :=
  match lx_consume l 4 with
  | (Some [a; b; c; d], l') => (rd32 a b c d, l')
  | (_, l') => (0%N, l')
  end.

(** [CopyN n]: a copy of the next n octets, nil on failure. *)
Definition lx_copyn (l : lexer) (n : nat) : option bytes * lexer := lx_consume l n.
(** [ReadAll] = CopyN(Len): never fails. *)
Definition lx_readall (l : lexer) : bytes * lexer := (rem l, mkLx [] (bad l)).
(** [ReadBytes p] with len p = n: p := next n octets, or p left as it was
    (zeroes at every call site) on failure. *)
Definition lx_readbytes (l : lexer) (n : nat) : bytes * lexer :=
  match lx_consume l n with
  | (Some b, l') => (b, l')
  | (None, l') => (zeros n, l')
  end.

Definition lx_error (l : lexer) : bool := bad l.
(** [FinError] is an error iff a read overran or octets are left. *)
Definition lx_finerror (l : lexer) : bool := bad l || negb (lx_len l =? 0).

(** * Characterisation lemmas *)

Lemma lx_consume_ok b e n r :
  length b = n -> lx_consume (mkLx (b ++ r) e) n = (Some b, mkLx r e).
Proof.
  intros <-. unfold lx_consume. cbn [rem bad].
  rewrite app_length.
  assert (H : (length b <=? length b + length r) = true) by (apply Nat.leb_le; lia).
  rewrite H. rewrite firstn_app, Nat.sub_diag, firstn_all, firstn_O, app_nil_r.
  rewrite skipn_app, Nat.sub_diag, skipn_all. reflexivity.
Qed.

Lemma lx_consume_inv l n o l' :
  lx_consume l n = (o, l') ->
  match o with
  | Some b => length b = n /\ rem l = b ++ rem l' /\ bad l' = bad l
  | None => length (rem l) < n /\ rem l' = rem l /\ bad l' = true
  end.
Proof.
  unfold lx_consume. destruct (n <=? length (rem l)) eqn:E; intros [= <- <-]; cbn [rem bad].
  - apply Nat.leb_le in E. rewrite firstn_length, firstn_skipn. repeat split; lia.
  - apply Nat.leb_gt in E. repeat split; lia.
Qed.

Lemma lx_read8_ok a r e : lx_read8 (mkLx (a :: r) e) = (b2n a, mkLx r e).
Proof. reflexivity. Qed.
Lemma lx_read16_ok n r e : (n < 65536)%N -> lx_read16 (mkLx (be16 n ++ r) e) = (n, mkLx r e).
Proof.
  intros H. unfold lx_read16. rewrite (lx_consume_ok (be16 n)) by reflexivity.
  pose proof (rd16_be16 n H) as K. cbn in *. rewrite K. reflexivity.
Qed.
Lemma lx_read32_ok n r e : (n < 4294967296)%N -> lx_read32 (mkLx (be32 n ++ r) e) = (n, mkLx r e).
Proof.
  intros H. unfold lx_read32. rewrite (lx_consume_ok (be32 n)) by reflexivity.
  pose proof (rd32_be32 n H) as K. cbn in *. rewrite K. reflexivity.
Qed.
Lemma lx_readbytes_ok b r e n : length b = n -> lx_readbytes (mkLx (b ++ r) e) n = (b, mkLx r e).
Proof. intros H. unfold lx_readbytes. rewrite lx_consume_ok by exact H. reflexivity. Qed.

(** sticky error is monotone *)
Lemma lx_consume_bad l n : bad l = true -> bad (snd (lx_consume l n)) = true.
Proof. unfold lx_consume. destruct (n <=? length (rem l)); cbn; auto. Qed.
