(** C10: routing of received datagrams to pending transactions in nclient4 /
    nclient6 (send / cancel / receiveLoop: dhcpv4/nclient4/client.go:256-303,565-599;
    dhcpv6/nclient6/client.go:205-251,401-435) as a small-step machine.  Every
    interleaving of any number of callers with any datagram stream is a list
    of these atomic events; the theorems are by induction over ALL event lists.

    [fixed = true] is the repaired cancel (removes the pending entry only if
    it is the call's own); [false] the pinned code (removes whatever entry is
    pending under the id). *)
From Coq Require Import List Arith Lia Bool.
Import ListNotations.

(** a routed datagram: the step at which it was routed, its transaction id, its payload *)
Record rmsg := mkMsg { m_at : nat; m_xid : nat; m_payload : nat }.

(** one registration (one try of one call): its channel and done flag *)
Record entry := mkEntry {
  e_xid : nat;
  e_reg : nat;            (* step at which it was registered *)
  e_buf : list rmsg;      (* the buffered channel, oldest first *)
  e_done : bool;          (* close(done) has happened *)
  e_closed : bool;        (* close(ch) has happened *)
  e_cancelled : bool;     (* cancel() has completed *)
  e_got : list rmsg       (* messages the owning call has received, oldest first *)
}.

Record state := mkState { ents : list entry; pend : list (nat * nat); now : nat }.

Fixpoint plookup (x : nat) (p : list (nat * nat)) : option nat :=
  match p with [] => None | (k, v) :: r => if k =? x then Some v else plookup x r end.
Fixpoint premove (x : nat) (p : list (nat * nat)) : list (nat * nat) :=
  match p with [] => [] | (k, v) :: r => if k =? x then premove x r else (k, v) :: premove x r end.
Fixpoint upd (i : nat) (f : entry -> entry) (l : list entry) : list entry :=
  match l, i with
  | [], _ => []
  | e :: r, O => f e :: r
  | e :: r, S j => e :: upd j f r
  end.

Definition set_done e := mkEntry (e_xid e) (e_reg e) (e_buf e) true (e_closed e) (e_cancelled e) (e_got e).
Definition set_closed e := mkEntry (e_xid e) (e_reg e) (e_buf e) (e_done e) true (e_cancelled e) (e_got e).
Definition set_cancelled e := mkEntry (e_xid e) (e_reg e) (e_buf e) (e_done e) (e_closed e) true (e_got e).
Definition push m e := mkEntry (e_xid e) (e_reg e) (e_buf e ++ [m]) (e_done e) (e_closed e) (e_cancelled e) (e_got e).
Definition pop e :=
  match e_buf e with
  | [] => e
  | m :: r => mkEntry (e_xid e) (e_reg e) r (e_done e) (e_closed e) (e_cancelled e) (e_got e ++ [m])
  end.

Definition cap : nat := 5.   (* defaultBufferCap *)

Inductive event :=
| Register (x : nat)                       (* send: lock, refuse if pending, else register, unlock *)
| Arrive (passes : bool) (x payload : nat) (prefer_done : bool)
    (* receiveLoop: one datagram read; [passes] = decodes, is a BOOTREPLY for our hardware address;
       routed under the lock; [prefer_done] is select's choice when both cases are ready *)
| CancelDone (i : nat)                     (* cancel: close(done) *)
| CancelDel (i : nat)                      (* cancel: lock; remove the entry; unlock *)
| Recv (i : nat).                          (* the owning call receives from its channel *)

Definition tick (s : state) (es : list entry) (p : list (nat * nat)) : state := mkState es p (S (now s)).

Definition step (fixed : bool) (s : state) (e : event) : state :=
  match e with
  | Register x =>
    match plookup x (pend s) with
    | Some _ => tick s (ents s) (pend s)                  (* ErrTransactionIDInUse *)
    | None => tick s (ents s ++ [mkEntry x (now s) [] false false false []]) ((x, length (ents s)) :: pend s)
    end
  | Arrive passes x payload prefer_done =>
    if negb passes then tick s (ents s) (pend s)          (* dropped before the lock is taken *)
    else
      match plookup x (pend s) with
      | None => tick s (ents s) (pend s)                  (* no pending transaction: dropped *)
      | Some i =>
        match nth_error (ents s) i with
        | None => tick s (ents s) (pend s)
        | Some en =>
          let room := length (e_buf en) <? cap in
          if e_done en && (prefer_done || negb room)
          then tick s (upd i set_closed (ents s)) (premove x (pend s))     (* case <-p.done: close(p.ch); delete *)
          else if room then tick s (upd i (push (mkMsg (now s) x payload)) (ents s)) (pend s)   (* case p.ch <- msg *)
          else tick s (ents s) (pend s)                   (* blocked on a full channel until done or drained *)
        end
      end
  | CancelDone i => tick s (upd i set_done (ents s)) (pend s)
  | CancelDel i =>
    match nth_error (ents s) i with
    | None => tick s (ents s) (pend s)
    | Some en =>
      if negb (e_done en) then tick s (ents s) (pend s)   (* close(done) always precedes *)
      else
        match plookup (e_xid en) (pend s) with
        | None => tick s (upd i set_cancelled (ents s)) (pend s)
        | Some j =>
          if fixed && negb (j =? i)
          then tick s (upd i set_cancelled (ents s)) (pend s)        (* someone else's entry: leave it *)
          else tick s (upd i set_cancelled (upd j set_closed (ents s))) (premove (e_xid en) (pend s))
        end
    end
  | Recv i => tick s (upd i pop (ents s)) (pend s)
  end.

Definition init : state := mkState [] [] 0.
Definition run_events (fixed : bool) (l : list event) : state := fold_left (step fixed) l init.

(** observers used in the statements *)
Definition entry_xid (s : state) (i : nat) : option nat := option_map e_xid (nth_error (ents s) i).
Definition cancelled (s : state) (i : nat) : bool := match nth_error (ents s) i with Some e => e_cancelled e | None => false end.
Definition pending_owner (s : state) (x : nat) : option nat := plookup x (pend s).

(** * the invariant *)
Definition msg_ok (en : entry) (m : rmsg) : Prop := m_xid m = e_xid en /\ e_reg en <= m_at m.

Record Inv (s : state) : Prop := {
  inv_pend : forall x i, plookup x (pend s) = Some i ->
               exists en, nth_error (ents s) i = Some en /\ e_xid en = x /\ e_closed en = false /\ e_cancelled en = false;
  inv_closed_done : forall i en, nth_error (ents s) i = Some en -> e_closed en = true -> e_done en = true;
  inv_buf : forall i en m, nth_error (ents s) i = Some en -> In m (e_buf en ++ e_got en) -> msg_ok en m;
  inv_time : forall i en, nth_error (ents s) i = Some en -> e_reg en <= now s;
  inv_cancelled : forall i en, nth_error (ents s) i = Some en -> e_cancelled en = true ->
               plookup (e_xid en) (pend s) <> Some i
}.

Lemma nth_upd l : forall i j f en, nth_error (upd j f l) i = Some en ->
  exists en0, nth_error l i = Some en0 /\ en = if i =? j then f en0 else en0.
Proof.
  induction l as [|a l IH]; intros i j f en H; destruct j, i; cbn in *; try discriminate.
  - injection H as <-. eauto.
  - eauto.
  - injection H as <-. eauto.
  - apply IH in H. destruct H as (en0 & H1 & H2). exists en0. split; auto.
Qed.

Lemma nth_upd_same l : forall i f en, nth_error l i = Some en -> nth_error (upd i f l) i = Some (f en).
Proof. induction l as [|a l IH]; intros [|i] f en H; cbn in *; try discriminate; [congruence | apply IH; exact H]. Qed.
Lemma nth_upd_other l : forall i j f, i <> j -> nth_error (upd j f l) i = nth_error l i.
Proof. induction l as [|a l IH]; intros [|i] [|j] f H; cbn; try reflexivity; [congruence | apply IH; congruence]. Qed.
Lemma upd_length l : forall i f, length (upd i f l) = length l.
Proof. induction l as [|a l IH]; intros [|i] f; cbn; auto. Qed.

Lemma plookup_premove_same x p : plookup x (premove x p) = None.
Proof. induction p as [|[k v] p IH]; cbn; [reflexivity|]. destruct (k =? x) eqn:E; [exact IH | cbn; rewrite E; exact IH]. Qed.
Lemma plookup_premove_other x y p : x <> y -> plookup y (premove x p) = plookup y p.
Proof.
  intros H. induction p as [|[k v] p IH]; cbn; [reflexivity|].
  destruct (k =? x) eqn:E.
  - apply Nat.eqb_eq in E. subst k. assert (E' : (x =? y) = false) by (apply Nat.eqb_neq; exact H). rewrite E'. exact IH.
  - cbn. destruct (k =? y); [reflexivity | exact IH].
Qed.

Lemma Inv_init : Inv init.
Proof. constructor; cbn; intros; try discriminate; destruct i; discriminate. Qed.

Lemma Inv_tick s : Inv s -> Inv (tick s (ents s) (pend s)).
Proof.
  intros [P C B T K]. constructor; cbn [tick ents pend now]; auto.
  intros i en H. specialize (T i en H). lia.
Qed.

(** an entry pending under some id is pending under its own id *)
Lemma pend_own s : Inv s -> forall x i, plookup x (pend s) = Some i ->
  forall en, nth_error (ents s) i = Some en -> e_xid en = x.
Proof. intros I x i H en Hn. destruct (inv_pend s I x i H) as (en' & Hn' & Hx & _). congruence. Qed.

Theorem step_preserves_inv : forall s e, Inv s -> Inv (step true s e).
Proof.
  intros s e I. pose proof I as [P C B T K]. destruct e as [x|passes x payload prefer|i|i|i]; cbn [step].
  - (* Register *)
    destruct (plookup x (pend s)) as [j|] eqn:L; [apply Inv_tick; exact I|].
    constructor; cbn [tick ents pend now plookup].
    + intros x' i H. destruct (x =? x') eqn:E.
      * apply Nat.eqb_eq in E. subst x'. injection H as <-.
        eexists. split; [rewrite nth_error_app2, Nat.sub_diag by lia; reflexivity|]. cbn. auto.
      * destruct (P x' i H) as (en & Hn & R). exists en. split; [|exact R].
        rewrite nth_error_app1; [exact Hn | apply nth_error_Some; congruence].
    + intros i en H Hc. destruct (Nat.lt_ge_cases i (length (ents s))) as [Lt|Ge].
      * rewrite nth_error_app1 in H by exact Lt. eauto.
      * rewrite nth_error_app2 in H by exact Ge. destruct (i - length (ents s)) as [|k]; cbn in H; [|destruct k; discriminate].
        injection H as <-. discriminate.
    + intros i en m H Hm. destruct (Nat.lt_ge_cases i (length (ents s))) as [Lt|Ge].
      * rewrite nth_error_app1 in H by exact Lt. eauto.
      * rewrite nth_error_app2 in H by exact Ge. destruct (i - length (ents s)) as [|k]; cbn in H; [|destruct k; discriminate].
        injection H as <-. cbn in Hm. contradiction.
    + intros i en H. destruct (Nat.lt_ge_cases i (length (ents s))) as [Lt|Ge].
      * rewrite nth_error_app1 in H by exact Lt. specialize (T i en H). lia.
      * rewrite nth_error_app2 in H by exact Ge. destruct (i - length (ents s)) as [|k]; cbn in H; [|destruct k; discriminate].
        injection H as <-. cbn. lia.
    + intros i en H Hc. destruct (Nat.lt_ge_cases i (length (ents s))) as [Lt|Ge].
      * rewrite nth_error_app1 in H by exact Lt. destruct (x =? e_xid en) eqn:E.
        -- intros [= Q]. lia.
        -- eauto.
      * rewrite nth_error_app2 in H by exact Ge. destruct (i - length (ents s)) as [|k]; cbn in H; [|destruct k; discriminate].
        injection H as <-. discriminate.
  - (* Arrive *)
    destruct passes; cbn [negb]; [|apply Inv_tick; exact I].
    destruct (plookup x (pend s)) as [i|] eqn:L; [|apply Inv_tick; exact I].
    destruct (nth_error (ents s) i) as [en|] eqn:E; [|apply Inv_tick; exact I].
    assert (Hx : e_xid en = x) by (eapply pend_own; eauto).
    destruct (e_done en && (prefer || negb (length (e_buf en) <? cap))) eqn:D.
    + (* reap *)
      apply andb_true_iff in D. destruct D as [Dn _].
      constructor; cbn [tick ents pend now].
      * intros x' i' H. destruct (Nat.eq_dec x x') as [->|Ne]; [rewrite plookup_premove_same in H; discriminate|].
        rewrite plookup_premove_other in H by exact Ne.
        destruct (P x' i' H) as (en' & Hn' & Hx' & R). exists en'. split; [|auto].
        rewrite nth_upd_other; [exact Hn'|]. intros ->. rewrite E in Hn'. injection Hn' as <-. congruence.
      * intros k en' H Hc. apply nth_upd in H. destruct H as (en0 & H1 & ->).
        destruct (k =? i) eqn:K'; [|eauto]. apply Nat.eqb_eq in K'. subst k. rewrite E in H1. injection H1 as <-. exact Dn.
      * intros k en' m H Hm. apply nth_upd in H. destruct H as (en0 & H1 & ->).
        destruct (k =? i); [apply (B k en0 m H1 Hm) | eauto].
      * intros k en' H. apply nth_upd in H. destruct H as (en0 & H1 & ->).
        specialize (T k en0 H1). destruct (k =? i); cbn; lia.
      * intros k en' H Hc. apply nth_upd in H. destruct H as (en0 & H1 & ->).
        assert (Hc0 : e_cancelled en0 = true) by (destruct (k =? i); exact Hc).
        assert (Hx0 : e_xid (if k =? i then set_closed en0 else en0) = e_xid en0) by (destruct (k =? i); reflexivity).
        rewrite Hx0. destruct (Nat.eq_dec x (e_xid en0)) as [->|Ne]; [rewrite plookup_premove_same; discriminate|].
        rewrite plookup_premove_other by exact Ne. eauto.
    + destruct (length (e_buf en) <? cap) eqn:R; [|apply Inv_tick; exact I].
      (* delivered *)
      constructor; cbn [tick ents pend now].
      * intros x' i' H. destruct (P x' i' H) as (en' & Hn' & Hx' & Hc' & Hk').
        destruct (Nat.eq_dec i' i) as [->|Ne].
        -- rewrite E in Hn'. injection Hn' as <-. eexists. split; [apply nth_upd_same; exact E|]. cbn. auto.
        -- exists en'. split; [rewrite nth_upd_other by exact Ne; exact Hn' | auto].
      * intros k en' H Hc. apply nth_upd in H. destruct H as (en0 & H1 & ->). destruct (k =? i); cbn in *; eauto.
      * intros k en' m H Hm. apply nth_upd in H. destruct H as (en0 & H1 & ->).
        destruct (k =? i) eqn:K'; [|eauto]. apply Nat.eqb_eq in K'. subst k. rewrite E in H1. injection H1 as <-.
        cbn [push e_buf e_got] in Hm. rewrite <- app_assoc in Hm. apply in_app_or in Hm.
        destruct Hm as [Hm|Hm]; [apply (B i en m E); apply in_or_app; left; exact Hm|].
        cbn [app] in Hm. destruct Hm as [<-|Hm]; [|apply (B i en m E); apply in_or_app; right; exact Hm].
        split; cbn; [symmetry; exact Hx | apply (T i en E)].
      * intros k en' H. apply nth_upd in H. destruct H as (en0 & H1 & ->).
        specialize (T k en0 H1). destruct (k =? i); cbn; lia.
      * intros k en' H Hc. apply nth_upd in H. destruct H as (en0 & H1 & ->). destruct (k =? i); cbn in *; eauto.
  - (* CancelDone *)
    constructor; cbn [tick ents pend now].
    + intros x' i' H. destruct (P x' i' H) as (en' & Hn' & Hx' & Hc' & Hk').
      destruct (Nat.eq_dec i' i) as [->|Ne].
      * eexists. split; [apply nth_upd_same; exact Hn'|]. cbn. auto.
      * exists en'. split; [rewrite nth_upd_other by exact Ne; exact Hn' | auto].
    + intros k en' H Hc. apply nth_upd in H. destruct H as (en0 & H1 & ->). destruct (k =? i); cbn in *; eauto.
    + intros k en' m H Hm. apply nth_upd in H. destruct H as (en0 & H1 & ->). destruct (k =? i); [apply (B k en0 m H1 Hm) | eauto].
    + intros k en' H. apply nth_upd in H. destruct H as (en0 & H1 & ->). specialize (T k en0 H1). destruct (k =? i); cbn; lia.
    + intros k en' H Hc. apply nth_upd in H. destruct H as (en0 & H1 & ->). destruct (k =? i); cbn in *; eauto.
  - (* CancelDel *)
    destruct (nth_error (ents s) i) as [en|] eqn:E; [|apply Inv_tick; exact I].
    destruct (e_done en) eqn:Dn; cbn [negb]; [|apply Inv_tick; exact I].
    assert (NotOwn : forall x' , plookup x' (pend s) = Some i -> x' = e_xid en).
    { intros x' H. symmetry. eapply pend_own; eauto. }
    destruct (plookup (e_xid en) (pend s)) as [j|] eqn:L.
    + cbn [andb]. destruct (j =? i) eqn:J; cbn [negb].
      * (* our own entry: close and remove *)
        apply Nat.eqb_eq in J. subst j.
        constructor; cbn [tick ents pend now].
        -- intros x' i' H. destruct (Nat.eq_dec (e_xid en) x') as [<-|Ne]; [rewrite plookup_premove_same in H; discriminate|].
           rewrite plookup_premove_other in H by exact Ne.
           destruct (P x' i' H) as (en' & Hn' & Hx' & R). exists en'. split; [|auto].
           assert (i' <> i) by (intros ->; apply Ne; symmetry; apply NotOwn; exact H).
           rewrite !nth_upd_other by assumption. exact Hn'.
        -- intros k en' H Hc. apply nth_upd in H. destruct H as (en1 & H1 & ->).
           apply nth_upd in H1. destruct H1 as (en0 & H0 & ->).
           destruct (k =? i) eqn:K'.
           ++ apply Nat.eqb_eq in K'. subst k. rewrite E in H0. injection H0 as <-. exact Dn.
           ++ eauto.
        -- intros k en' m H Hm. apply nth_upd in H. destruct H as (en1 & H1 & ->).
           apply nth_upd in H1. destruct H1 as (en0 & H0 & ->).
           destruct (k =? i); [apply (B k en0 m H0 Hm) | eauto].
        -- intros k en' H. apply nth_upd in H. destruct H as (en1 & H1 & ->).
           apply nth_upd in H1. destruct H1 as (en0 & H0 & ->). specialize (T k en0 H0). destruct (k =? i); cbn; lia.
        -- intros k en' H Hc. apply nth_upd in H. destruct H as (en1 & H1 & ->).
           apply nth_upd in H1. destruct H1 as (en0 & H0 & ->).
           assert (Hx0 : e_xid (if k =? i then set_cancelled (if k =? i then set_closed en0 else en0) else (if k =? i then set_closed en0 else en0)) = e_xid en0)
             by (destruct (k =? i); reflexivity).
           rewrite Hx0. destruct (Nat.eq_dec (e_xid en) (e_xid en0)) as [Eq|Ne]; [rewrite <- Eq, plookup_premove_same; discriminate|].
           rewrite plookup_premove_other by exact Ne.
           destruct (k =? i) eqn:K'.
           ++ apply Nat.eqb_eq in K'. subst k. rewrite E in H0. injection H0 as <-. congruence.
           ++ eauto.
      * (* the id is pending for another entry: leave it alone, just mark this call cancelled *)
        apply Nat.eqb_neq in J.
        constructor; cbn [tick ents pend now].
        -- intros x' i' H. destruct (P x' i' H) as (en' & Hn' & Hx' & R). exists en'. split; [|auto].
           assert (i' <> i). { intros ->. pose proof (NotOwn x' H) as Q. subst x'. congruence. }
           rewrite nth_upd_other by assumption. exact Hn'.
        -- intros k en' H Hc. apply nth_upd in H. destruct H as (en0 & H1 & ->). destruct (k =? i); cbn in *; eauto.
        -- intros k en' m H Hm. apply nth_upd in H. destruct H as (en0 & H1 & ->). destruct (k =? i); [apply (B k en0 m H1 Hm) | eauto].
        -- intros k en' H. apply nth_upd in H. destruct H as (en0 & H1 & ->). specialize (T k en0 H1). destruct (k =? i); cbn; lia.
        -- intros k en' H Hc. apply nth_upd in H. destruct H as (en0 & H1 & ->).
           destruct (k =? i) eqn:K'; [|eauto]. apply Nat.eqb_eq in K'. subst k. rewrite E in H1. injection H1 as <-.
           cbn. rewrite L. congruence.
    + (* already reaped by the receive loop *)
      constructor; cbn [tick ents pend now].
      * intros x' i' H. destruct (P x' i' H) as (en' & Hn' & Hx' & R). exists en'. split; [|auto].
        assert (i' <> i). { intros ->. pose proof (NotOwn x' H) as Q. subst x'. congruence. }
        rewrite nth_upd_other by assumption. exact Hn'.
      * intros k en' H Hc. apply nth_upd in H. destruct H as (en0 & H1 & ->). destruct (k =? i); cbn in *; eauto.
      * intros k en' m H Hm. apply nth_upd in H. destruct H as (en0 & H1 & ->). destruct (k =? i); [apply (B k en0 m H1 Hm) | eauto].
      * intros k en' H. apply nth_upd in H. destruct H as (en0 & H1 & ->). specialize (T k en0 H1). destruct (k =? i); cbn; lia.
      * intros k en' H Hc. apply nth_upd in H. destruct H as (en0 & H1 & ->).
        destruct (k =? i) eqn:K'; [|eauto]. apply Nat.eqb_eq in K'. subst k. rewrite E in H1. injection H1 as <-.
        cbn. rewrite L. discriminate.
  - (* Recv *)
    constructor; cbn [tick ents pend now].
    + intros x' i' H. destruct (P x' i' H) as (en' & Hn' & Hx' & Hc' & Hk').
      destruct (Nat.eq_dec i' i) as [->|Ne].
      * eexists. split; [apply nth_upd_same; exact Hn'|]. unfold pop. destruct (e_buf en'); cbn; auto.
      * exists en'. split; [rewrite nth_upd_other by exact Ne; exact Hn' | auto].
    + intros k en' H Hc. apply nth_upd in H. destruct H as (en0 & H1 & ->).
      destruct (k =? i); [|eauto]. unfold pop in *. destruct (e_buf en0); cbn in *; eauto.
    + intros k en' m H Hm. apply nth_upd in H. destruct H as (en0 & H1 & ->).
      destruct (k =? i); [|eauto]. unfold pop in *. destruct (e_buf en0) as [|m0 r] eqn:Eb.
      * apply (B k en0 m H1). exact Hm.
      * cbn [e_buf e_got] in Hm. unfold msg_ok. cbn [e_xid e_reg].
        apply (B k en0 m H1). rewrite Eb. cbn [app]. apply in_app_or in Hm. destruct Hm as [Hm|Hm].
        -- right. apply in_or_app. left. exact Hm.
        -- apply in_app_or in Hm. destruct Hm as [Hm|[<-|[]]]; [right; apply in_or_app; right; exact Hm | left; reflexivity].
    + intros k en' H. apply nth_upd in H. destruct H as (en0 & H1 & ->). specialize (T k en0 H1).
      destruct (k =? i); [|lia]. unfold pop. destruct (e_buf en0); cbn; lia.
    + intros k en' H Hc. apply nth_upd in H. destruct H as (en0 & H1 & ->).
      destruct (k =? i); [|eauto]. unfold pop in *. destruct (e_buf en0); cbn in *; eauto.
Qed.

Theorem reachable_inv : forall l, Inv (run_events true l).
Proof.
  intros l. unfold run_events. rewrite <- (rev_involutive l). induction (rev l) as [|e l' IH]; cbn [rev].
  - exact Inv_init.
  - rewrite fold_left_app. cbn [fold_left]. apply step_preserves_inv. exact IH.
Qed.

(** * consequences *)

(** a call only ever receives datagrams that carry its own transaction id and
    were routed after it registered (while it was waiting) *)
Theorem received_own : forall l i en m, nth_error (ents (run_events true l)) i = Some en ->
  In m (e_got en) -> m_xid m = e_xid en /\ e_reg en <= m_at m.
Proof.
  intros l i en m H Hm. apply (inv_buf _ (reachable_inv l) i en m H). apply in_or_app. right. exact Hm.
Qed.

(** a response channel is closed only for a call that is cancelling: no other
    call can ever read from a closed channel *)
Theorem closed_only_when_done : forall l i en, nth_error (ents (run_events true l)) i = Some en ->
  e_closed en = true -> e_done en = true.
Proof. intros l i en H. apply (inv_closed_done _ (reachable_inv l) i en H). Qed.

(** once a call has returned its transaction id is not pending for it: a new call may reuse it *)
Theorem cancelled_not_pending : forall (evs : list event) (i : nat),
  let s := run_events true evs in
  cancelled s i = true -> forall x, entry_xid s i = Some x -> pending_owner s x <> Some i.
Proof.
  intros evs i s Hc x Hx. unfold cancelled, entry_xid, pending_owner in *.
  destruct (nth_error (ents s) i) as [en|] eqn:E; [|discriminate]. cbn in Hx. injection Hx as <-.
  apply (inv_cancelled _ (reachable_inv evs) i en E Hc).
Qed.

(** a registration under a pending id is refused and disturbs nothing *)
Theorem register_refused : forall fixed s x j, plookup x (pend s) = Some j ->
  ents (step fixed s (Register x)) = ents s /\ pend (step fixed s (Register x)) = pend s.
Proof. intros fixed s x j H. cbn [step]. rewrite H. split; reflexivity. Qed.

(** malformed, foreign (wrong opcode / hardware address) and unsolicited datagrams disturb no call *)
Theorem filtered_dropped : forall fixed s x payload prefer,
  ents (step fixed s (Arrive false x payload prefer)) = ents s /\ pend (step fixed s (Arrive false x payload prefer)) = pend s.
Proof. intros. split; reflexivity. Qed.
Theorem unsolicited_dropped : forall fixed s passes x payload prefer, plookup x (pend s) = None ->
  ents (step fixed s (Arrive passes x payload prefer)) = ents s /\ pend (step fixed s (Arrive passes x payload prefer)) = pend s.
Proof. intros fixed s passes x payload prefer H. cbn [step]. destruct passes; cbn [negb]; [rewrite H|]; split; reflexivity. Qed.

(** a routed datagram goes to the entry registered under its id and to no other *)
Theorem routed_to_owner : forall fixed s x payload prefer i k, plookup x (pend s) = Some i -> k <> i ->
  nth_error (ents (step fixed s (Arrive true x payload prefer))) k = nth_error (ents s) k.
Proof.
  intros fixed s x payload prefer i k H Hk. cbn [step negb]. rewrite H.
  destruct (nth_error (ents s) i) as [en|]; [|reflexivity].
  destruct (e_done en && (prefer || negb (length (e_buf en) <? cap))); cbn [tick ents].
  - apply nth_upd_other. exact Hk.
  - destruct (length (e_buf en) <? cap); cbn [tick ents]; [apply nth_upd_other; exact Hk | reflexivity].
Qed.

(** the pinned code violated the invariant: after the receive loop reaped a
    cancelled entry and a new call registered the same id, the old call's
    cancel closed the NEW call's channel (which is not done): that call then
    reads nil from a closed channel *)
Definition f8_schedule : list event :=
  [Register 7; CancelDone 0; Arrive true 7 1 true; Register 7; CancelDel 0].
Theorem pinned_cancel_refuted :
  exists en, nth_error (ents (run_events false f8_schedule)) 1 = Some en /\ e_closed en = true /\ e_done en = false.
Proof. eexists. split; [vm_compute; reflexivity | split; reflexivity]. Qed.
(** the same schedule on the repaired code leaves the new call's channel open and its id pending *)
Example fixed_cancel_ok :
  exists en, nth_error (ents (run_events true f8_schedule)) 1 = Some en /\ e_closed en = false
             /\ pending_owner (run_events true f8_schedule) 7 = Some 1.
Proof. eexists. split; [vm_compute; reflexivity | split; reflexivity]. Qed.

(** * arrival order: what a call receives, it receives in the order of routing *)
From Coq Require Import Sorted.
Definition ordered (now_ : nat) (en : entry) : Prop :=
  StronglySorted lt (map m_at (e_got en ++ e_buf en)) /\ Forall (fun m => m_at m < now_) (e_got en ++ e_buf en).
Definition Ord (s : state) : Prop := forall i en, nth_error (ents s) i = Some en -> ordered (now s) en.

Lemma ordered_mono n n' en : n <= n' -> ordered n en -> ordered n' en.
Proof. intros H [A B]. split; [exact A|]. eapply Forall_impl; [|exact B]. intros m Hm. cbn in Hm. lia. Qed.

Lemma sorted_snoc l x : StronglySorted lt l -> Forall (fun y => y < x) l -> StronglySorted lt (l ++ [x]).
Proof.
  induction 1 as [|a l S IH F]; intros H; cbn [app]; [repeat constructor|].
  inversion H as [|? ? Ha Hl]; subst. constructor; [apply IH; exact Hl|].
  apply Forall_app. split; [exact F | constructor; [exact Ha | constructor]].
Qed.

Lemma ordered_push n en x p : ordered n en -> ordered (S n) (push (mkMsg n x p) en).
Proof.
  intros [A B]. unfold ordered, push. cbn [e_got e_buf]. rewrite app_assoc. split.
  - rewrite map_app. cbn [map m_at]. apply sorted_snoc; [exact A|].
    apply Forall_forall. intros y Hy. apply in_map_iff in Hy. destruct Hy as (m & <- & Hm).
    rewrite Forall_forall in B. apply B. exact Hm.
  - apply Forall_app. split; [eapply Forall_impl; [|exact B]; intros m Hm; cbn in Hm; lia | constructor; [cbn; lia | constructor]].
Qed.

Lemma ordered_flags n en en' : e_got en' = e_got en -> e_buf en' = e_buf en -> ordered n en -> ordered n en'.
Proof. intros G B [A F]. unfold ordered. rewrite G, B. split; assumption. Qed.

Lemma ordered_pop n en : ordered n en -> ordered n (pop en).
Proof.
  intros H. unfold pop. destruct (e_buf en) as [|m r] eqn:E; [exact H|].
  destruct H as [A F]. unfold ordered. cbn [e_got e_buf]. rewrite E in A, F.
  rewrite <- app_assoc. cbn [app]. split; assumption.
Qed.

Theorem step_preserves_ord : forall fixed s e, Ord s -> Ord (step fixed s e).
Proof.
  intros fixed s e O.
  assert (M : forall i en, nth_error (ents s) i = Some en -> ordered (S (now s)) en)
    by (intros i en H; eapply ordered_mono; [|apply (O i en H)]; lia).
  assert (U : forall j f, (forall en, ordered (now s) en -> ordered (S (now s)) (f en)) ->
              forall i en, nth_error (upd j f (ents s)) i = Some en -> ordered (S (now s)) en).
  { intros j f Hf i en H. apply nth_upd in H. destruct H as (en0 & H0 & ->).
    destruct (i =? j); [apply Hf; apply (O i en0 H0) | apply (M i en0 H0)]. }
  assert (Flag : forall f, (forall en, e_got (f en) = e_got en /\ e_buf (f en) = e_buf en) ->
                 forall en, ordered (now s) en -> ordered (S (now s)) (f en)).
  { intros f Hf en H. destruct (Hf en) as [G B]. eapply ordered_flags; [exact G | exact B |].
    eapply ordered_mono; [|exact H]. lia. }
  destruct e as [x|passes x payload prefer|i|i|i]; cbn [step].
  - destruct (plookup x (pend s)); intros i en H; cbn [tick ents now] in *; [apply (M i en H)|].
    destruct (Nat.lt_ge_cases i (length (ents s))) as [Lt|Ge].
    + rewrite nth_error_app1 in H by exact Lt. apply (M i en H).
    + rewrite nth_error_app2 in H by exact Ge. destruct (i - length (ents s)) as [|k]; cbn in H; [|destruct k; discriminate].
      injection H as <-. split; cbn; constructor.
  - destruct passes; cbn [negb]; [|intros i en H; apply (M i en H)].
    destruct (plookup x (pend s)) as [j|]; [|intros i en H; apply (M i en H)].
    destruct (nth_error (ents s) j) as [enj|]; [|intros i en H; apply (M i en H)].
    destruct (e_done enj && (prefer || negb (length (e_buf enj) <? cap))).
    + intros i en H. cbn [tick ents now] in *. eapply U; [|exact H]. apply Flag. intros; split; reflexivity.
    + destruct (length (e_buf enj) <? cap); [|intros i en H; apply (M i en H)].
      intros i en H. cbn [tick ents now] in *. eapply U; [|exact H]. intros en0 H0. apply ordered_push. exact H0.
  - intros k en H. cbn [tick ents now] in *. eapply U; [|exact H]. apply Flag. intros; split; reflexivity.
  - destruct (nth_error (ents s) i) as [eni|]; [|intros k en H; apply (M k en H)].
    destruct (negb (e_done eni)); [intros k en H; apply (M k en H)|].
    destruct (plookup (e_xid eni) (pend s)) as [j|].
    + destruct (fixed && negb (j =? i)).
      * intros k en H. cbn [tick ents now] in *. eapply U; [|exact H]. apply Flag. intros; split; reflexivity.
      * intros k en H. cbn [tick ents now] in *.
        apply nth_upd in H. destruct H as (en1 & H1 & ->). apply nth_upd in H1. destruct H1 as (en0 & H0 & ->).
        pose proof (M k en0 H0) as Q. destruct (k =? i), (k =? j); eapply ordered_flags; try exact Q; reflexivity.
    + intros k en H. cbn [tick ents now] in *. eapply U; [|exact H]. apply Flag. intros; split; reflexivity.
  - intros k en H. cbn [tick ents now] in *. eapply U; [|exact H]. intros en0 H0.
    eapply ordered_mono; [|apply ordered_pop; exact H0]. lia.
Qed.

Theorem reachable_ord : forall fixed l, Ord (run_events fixed l).
Proof.
  intros fixed l. unfold run_events. rewrite <- (rev_involutive l). induction (rev l) as [|e l' IH]; cbn [rev].
  - intros i en H. destruct i; discriminate.
  - rewrite fold_left_app. cbn [fold_left]. apply step_preserves_ord. exact IH.
Qed.

(** the datagrams a call has received, followed by those still buffered for it, are in strict arrival order *)
Theorem received_in_arrival_order : forall fixed l i en, nth_error (ents (run_events fixed l)) i = Some en ->
  StronglySorted lt (map m_at (e_got en ++ e_buf en)).
Proof. intros fixed l i en H. exact (proj1 (reachable_ord fixed l i en H)). Qed.
