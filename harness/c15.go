package main

import (
	"bytes"
	"fmt"
	"net"

	"github.com/insomniacslk/dhcp/dhcpv4"
	"github.com/insomniacslk/dhcp/iana"
)

const eV4Build = 40

// codesOf yields option codes of the library's own code type (what its
// constants and its decoder produce), so that OptionCodeList.Add's equality
// test sees equal codes as equal.
func codesOf(b []byte) []dhcpv4.OptionCode {
	var l dhcpv4.OptionCodeList
	_ = l.FromBytes(b)
	return l
}

func nilIfEmpty(b []byte) []byte {
	if len(b) == 0 {
		return nil
	}
	return b
}

// modOf mirrors Run.mods_of_args.
func modOf(src *dhcpv4.DHCPv4, k int, x, y []byte) dhcpv4.Modifier {
	switch k {
	case 1:
		var xid dhcpv4.TransactionID
		copy(xid[:], x)
		return dhcpv4.WithTransactionID(xid)
	case 2:
		return dhcpv4.WithClientIP(ipArg(x))
	case 3:
		return dhcpv4.WithYourIP(ipArg(x))
	case 4:
		return dhcpv4.WithServerIP(ipArg(x))
	case 5:
		return dhcpv4.WithGatewayIP(ipArg(x))
	case 6:
		return dhcpv4.WithOptionCopied(src, dhcpv4.GenericOptionCode(x[0]))
	case 7:
		return dhcpv4.WithReply(src)
	case 8:
		return dhcpv4.WithHWType(iana.HWType(numArg(x)))
	case 9:
		return dhcpv4.WithBroadcast(len(x) == 1 && x[0] == 1)
	case 10:
		return dhcpv4.WithHwAddr(net.HardwareAddr(x))
	case 11:
		return dhcpv4.WithGeneric(dhcpv4.GenericOptionCode(x[0]), nilIfEmpty(y))
	case 12:
		return dhcpv4.WithoutOption(dhcpv4.GenericOptionCode(x[0]))
	case 13:
		return dhcpv4.WithMessageType(dhcpv4.MessageType(numArg(x)))
	case 14:
		return dhcpv4.WithRequestedOptions(codesOf(x)...)
	case 15:
		return dhcpv4.WithRelay(ipArg(x))
	case 16:
		return dhcpv4.WithNetmask(net.IPMask(x))
	default:
		return dhcpv4.WithLeaseTime(uint32(numArg(x)))
	}
}

// srcOverride: when set, the builders are given this packet (for example one obtained by decoding) instead of the
// one described by the arguments
var srcOverride *dhcpv4.DHCPv4

func runBuilder(a [][]byte) (*dhcpv4.DHCPv4, *dhcpv4.DHCPv4, error) { return runBuilderOpt(a, true) }

// reuse: call the builder once before with the same modifier list (or a prefix of it), as callers do
func runBuilderOpt(a [][]byte, reuse bool) (*dhcpv4.DHCPv4, *dhcpv4.DHCPv4, error) {
	bid := int(numArg(a[0]))
	n := int(numArg(a[1]))
	rest := a[2:]
	src := pktOfArgs(rest[:n])
	if srcOverride != nil {
		src = srcOverride
	}
	var mods []dhcpv4.Modifier
	r := rest[n:]
	for len(r) >= 3 {
		mods = append(mods, modOf(src, int(numArg(r[0])), r[1], r[2]))
		r = r[3:]
	}
	// callers build modifier lists by appending (spare capacity) and pass the same list, or a prefix of it,
	// to several builders: a builder must not write into the caller's list
	if len(mods) > 0 && reuse {
		pool := append(make([]dhcpv4.Modifier, 0, 2*len(mods)+8), mods...)
		warm := pool
		if len(rest)%2 == 1 {
			warm = pool[:len(pool)/2]
		}
		switch bid {
		case 1:
			dhcpv4.NewReplyFromRequest(src, warm...)
		case 2:
			dhcpv4.NewRequestFromOffer(src, warm...)
		case 3:
			dhcpv4.NewRenewFromAck(src, warm...)
		case 4:
			dhcpv4.NewReleaseFromACK(src, warm...)
		case 5:
			dhcpv4.NewInform(src.ClientHWAddr, src.ClientIPAddr, warm...)
		default:
			dhcpv4.NewDiscovery(src.ClientHWAddr, warm...)
		}
		mods = pool
	}
	var p *dhcpv4.DHCPv4
	var err error
	switch bid {
	case 1:
		p, err = dhcpv4.NewReplyFromRequest(src, mods...)
	case 2:
		p, err = dhcpv4.NewRequestFromOffer(src, mods...)
	case 3:
		p, err = dhcpv4.NewRenewFromAck(src, mods...)
	case 4:
		p, err = dhcpv4.NewReleaseFromACK(src, mods...)
	case 5:
		p, err = dhcpv4.NewInform(src.ClientHWAddr, src.ClientIPAddr, mods...)
	case 6:
		p, err = dhcpv4.NewDiscovery(src.ClientHWAddr, mods...)
	default:
		p, err = dhcpv4.New(mods...)
	}
	return src, p, err
}

func init() {
	register(eV4Build, "dhcpv4.New*", func(a [][]byte) ([][]byte, error) {
		_, p, err := runBuilder(a)
		if err != nil {
			return nil, err
		}
		return obsPkt4(p), nil
	})
	props["C15"] = genC15
}

func (r *Run) randMod() [][]byte {
	k := 1 + r.Rng.Intn(17)
	x, y := []byte{}, []byte{}
	switch k {
	case 1:
		x = r.edge(4)
	case 2, 3, 4, 5, 15:
		x = r.randIP()
	case 6, 12:
		x = []byte{byte(r.Pick(82, 61, 54, 55, 53, 50, 12))}
	case 8:
		x = []byte{0, byte(r.Rng.Intn(256))}
	case 9:
		x = []byte{byte(r.Rng.Intn(2))}
	case 10:
		x = r.Bytes(r.Pick(0, 6, 6, 16))
	case 11:
		x = []byte{byte(r.Pick(82, 61, 54, 55, 53, 50, 1, 51, 200))}
		y = r.Bytes(r.Pick(0, 1, 4, 7, 255, 256, 300))
	case 13:
		x = []byte{byte(r.Rng.Intn(9))}
	case 14:
		x = r.Bytes(r.Rng.Intn(5))
		for i := range x {
			x[i] = byte(r.Pick(1, 3, 6, 15, 42, 66, 67))
		}
	case 16:
		x = r.Bytes(r.Pick(4, 4, 2, 16))
	case 17:
		x = r.Bytes(4)
	}
	return [][]byte{{byte(k)}, x, y}
}

// direct oracle for the reply builder, on the real code alone
func oracleReply(r *Run, a [][]byte) {
	src, p, err := runBuilder(a)
	cs := Case{eV4Build, a}.Line()
	if err != nil {
		r.Fail("builder-error", cs, err.Error())
		return
	}
	want := dhcpv4.OpcodeBootRequest
	if src.OpCode == dhcpv4.OpcodeBootRequest {
		want = dhcpv4.OpcodeBootReply
	}
	switch {
	case p.OpCode != want:
		r.Fail("reply-opcode", cs, "")
	case p.TransactionID != src.TransactionID:
		r.Fail("reply-xid", cs, "")
	case p.HWType != src.HWType:
		r.Fail("reply-hwtype", cs, "")
	case !bytes.Equal(p.ClientHWAddr, src.ClientHWAddr):
		r.Fail("reply-chaddr", cs, "")
	case p.Flags != src.Flags:
		r.Fail("reply-flags", cs, "")
	case !bytes.Equal(p.GatewayIPAddr, src.GatewayIPAddr):
		r.Fail("reply-giaddr", cs, "")
	}
	for _, c := range []uint8{82, 61} {
		sv, pv := src.Options[c], p.Options[c]
		_, has := p.Options[c]
		if len(sv) > 0 {
			if !has || !bytes.Equal(sv, pv) {
				r.Fail(fmt.Sprintf("reply-echo-%d", c), cs, "present non-empty option not echoed byte for byte")
			}
		} else if has {
			r.Fail(fmt.Sprintf("reply-omit-%d", c), cs, "absent or empty option must be omitted")
		}
	}
}

func oracleRequestFromOffer(r *Run, a [][]byte) {
	src, p, err := runBuilder(a)
	cs := Case{eV4Build, a}.Line()
	if err != nil {
		r.Fail("builder-error", cs, err.Error())
		return
	}
	if p.TransactionID != src.TransactionID {
		r.Fail("request-xid", cs, "")
	}
	if src.YourIPAddr.To4() != nil && !bytes.Equal(p.Options[50], src.YourIPAddr.To4()) {
		r.Fail("request-requested-address", cs, fmt.Sprintf("%x vs yiaddr %x", p.Options[50], src.YourIPAddr))
	}
	if len(src.Options[54]) > 0 && !bytes.Equal(p.Options[54], src.Options[54]) {
		r.Fail("request-server-id", cs, "")
	}
	if !bytes.Equal(p.Options[53], []byte{3}) {
		r.Fail("request-message-type", cs, "")
	}
	if !bytes.Equal(p.ClientHWAddr, src.ClientHWAddr) {
		r.Fail("request-chaddr", cs, "")
	}
}

func genC15(r *Run) {
	// the builder that takes an interface name is NewDiscovery with that interface's hardware address as a default
	// like any other: on every interface of this host that has one, for several modifier lists (some setting the
	// hardware address themselves), the two give the same packet
	if ifs, err := net.Interfaces(); err == nil {
		seen := 0
		for _, ifc := range ifs {
			if seen >= 3 {
				break
			}
			for k := 0; k < 6; k++ {
				xid := dhcpv4.TransactionID{9, byte(k), 7, 1}
				mods := []dhcpv4.Modifier{dhcpv4.WithTransactionID(xid)}
				switch k {
				case 1:
					mods = append(mods, dhcpv4.WithHwAddr(net.HardwareAddr{2, 0, 0, 0xaa, 0xbb, byte(k)}))
				case 2:
					mods = append(mods, dhcpv4.WithBroadcast(true), dhcpv4.WithHwAddr(net.HardwareAddr{}))
				case 3:
					mods = append(mods, dhcpv4.WithOption(dhcpv4.OptHostName("h")), dhcpv4.WithHwAddr(net.HardwareAddr(r.Bytes(16))))
				case 4:
					mods = append(mods, dhcpv4.WithMessageType(dhcpv4.MessageTypeInform))
				case 5:
					mods = append(mods, dhcpv4.WithGatewayIP(net.IP{10, 9, 8, 7}), dhcpv4.WithHwAddr(net.HardwareAddr{6, 5, 4, 3, 2, 1}))
				}
				a, ea := dhcpv4.NewDiscoveryForInterface(ifc.Name, mods...)
				b, eb := dhcpv4.NewDiscovery(ifc.HardwareAddr, mods...)
				if (ea == nil) != (eb == nil) {
					r.Fail("c15-discovery-for-interface", fmt.Sprintf("interface %s (%s), modifier list %d", ifc.Name, ifc.HardwareAddr, k), fmt.Sprintf("errors differ: %v vs %v", ea, eb))
					continue
				}
				if ea == nil && !bytes.Equal(a.ToBytes(), b.ToBytes()) {
					r.Fail("c15-discovery-for-interface", fmt.Sprintf("interface %s (%s), modifier list %d", ifc.Name, ifc.HardwareAddr, k),
						"NewDiscoveryForInterface and NewDiscovery with the interface's address give different packets for the same modifiers: "+firstDiff(hx(b.ToBytes()), hx(a.ToBytes())))
				}
			}
			if len(ifc.HardwareAddr) > 0 {
				seen++
			}
		}
		r.Extra["interfaces_with_hardware_address"] = seen
	}
	// a caller's WithReply(other) after the builder's own defaults: the packet is correlated with `other` - its
	// transaction id, hardware address, flags, and the opcode OPPOSITE to other's - whatever the defaults had set
	for k := 0; k < 40; k++ {
		req, _ := dhcpv4.New(dhcpv4.WithTransactionID(dhcpv4.TransactionID{1, 2, 3, byte(k)}), dhcpv4.WithHwAddr(net.HardwareAddr{2, 0, 0, 0, 0, 1}))
		other, _ := dhcpv4.New(dhcpv4.WithTransactionID(dhcpv4.TransactionID{9, 9, 9, byte(k)}), dhcpv4.WithHwAddr(net.HardwareAddr{2, 0, 0, 0, 0, 2}), dhcpv4.WithBroadcast(k%2 == 0))
		if k%4 < 2 {
			req.OpCode = dhcpv4.OpcodeBootRequest
		} else {
			req.OpCode = dhcpv4.OpcodeBootReply
		}
		if k%2 == 0 {
			other.OpCode = dhcpv4.OpcodeBootReply
		} else {
			other.OpCode = dhcpv4.OpcodeBootRequest
		}
		var p *dhcpv4.DHCPv4
		var err error
		switch k % 5 {
		case 0:
			p, err = dhcpv4.NewReplyFromRequest(req, dhcpv4.WithReply(other))
		case 1:
			p, err = dhcpv4.NewRequestFromOffer(req, dhcpv4.WithReply(other))
		case 2:
			p, err = dhcpv4.NewDiscovery(req.ClientHWAddr, dhcpv4.WithReply(other))
		case 3:
			p, err = dhcpv4.New(dhcpv4.WithReply(req), dhcpv4.WithReply(other))
		default:
			p, err = dhcpv4.NewInform(req.ClientHWAddr, net.IP{10, 0, 0, 9}, dhcpv4.WithReply(other))
		}
		if err != nil {
			continue
		}
		wantOp := dhcpv4.OpcodeBootReply
		if other.OpCode != dhcpv4.OpcodeBootRequest {
			wantOp = dhcpv4.OpcodeBootRequest
		}
		if p.OpCode != wantOp || p.TransactionID != other.TransactionID || !bytes.Equal(p.ClientHWAddr, other.ClientHWAddr) || p.Flags != other.Flags {
			r.Fail("c15-user-withreply-prevails", fmt.Sprintf("builder %d, request opcode %v, WithReply(packet with opcode %v)", k%5, req.OpCode, other.OpCode),
				fmt.Sprintf("got opcode %v xid %x chaddr %s flags %04x, the caller's WithReply asks for opcode %v xid %x chaddr %s flags %04x", p.OpCode, p.TransactionID, p.ClientHWAddr, p.Flags, wantOp, other.TransactionID, other.ClientHWAddr, other.Flags))
			break
		}
	}
	n := r.N(2500, 150000)
	for i := 0; i < n; i++ {
		opts := map[byte][]byte{}
		for _, c := range []byte{82, 61, 54, 55, 53, 50} {
			switch r.Rng.Intn(4) {
			case 0:
			case 1:
				opts[c] = []byte{}
			default:
				opts[c] = r.Bytes(r.Pick(1+r.Rng.Intn(8), 1+r.Rng.Intn(8), 254, 255, 256, 257, 300, 600)) // long values arrive split over several instances
			}
		}
		if r.Rng.Intn(2) == 0 {
			opts[54] = r.Bytes(4)
		}
		src := r.randPkt(opts)
		src[0] = []byte{byte(r.Pick(1, 1, 2, 2, 0, 3, 255))}
		src[5] = []byte{byte(r.Pick(0, 0x80, 0x80, 0xff, 0x7f)), byte(r.Pick(0, 0, 1, 0xff))}
		bid := r.Rng.Intn(7)
		a := [][]byte{{byte(bid)}, {byte(len(src))}}
		a = append(a, src...)
		nm := r.Pick(0, 0, 1, 2, 3, 4)
		var mods [][]byte
		for k := 0; k < nm; k++ {
			mods = append(mods, r.randMod()...)
		}
		if bid == 0 || bid >= 4 {
			// builders that draw a random transaction id: pin it with a leading user modifier
			mods = append([][]byte{{1}, r.edge(4), {}}, mods...)
		}
		full := append(append([][]byte{}, a...), mods...)
		r.Add(eV4Build, full...)
		// direct oracle: the user's modifiers prevail also when the list has been passed to a builder before
		if _, p1, e1 := runBuilderOpt(full, true); e1 == nil {
			if _, p2, e2 := runBuilderOpt(full, false); e2 == nil {
				o1, o2 := (Case{0, obsPkt4(p1)}).Line(), (Case{0, obsPkt4(p2)}).Line()
				if o1 != o2 {
					r.Fail("c15-modifier-list-reused", trunc(Case{eV4Build, full}.Line(), 1500),
						"the same builder call gives another packet once the caller's modifier list (built by append) has been passed to a builder before: "+firstDiff(o1, o2))
				}
			}
		}
		// direct oracle: packets built from one request are independent values: building a second one (other
		// modifiers that copy, extend or replace options) changes neither the first nor the request - also when the
		// request was obtained by decoding, whose option values have whatever spare capacity the decoder left them
		if srcD, err := dhcpv4.FromBytes(pktOfArgs(src).ToBytes()); err == nil {
			extra := [][]byte{{6}, {55}, {}, {14}, {byte(r.Pick(42, 66, 67, 119))}, {}}
			first := append(append(append([][]byte{}, a...), extra...), mods...)
			second := append(append(append([][]byte{}, a...), [][]byte{{6}, {55}, {}, {14}, {byte(r.Pick(43, 44, 2, 121))}, {}, {6}, {61}, {}, {6}, {82}, {}}...), mods...)
			srcOverride = srcD
			reqBefore := srcD.ToBytes()
			_, p1, e1 := runBuilderOpt(first, false)
			if e1 == nil {
				w1 := p1.ToBytes()
				_, _, _ = runBuilderOpt(second, false)
				if w2 := p1.ToBytes(); !bytes.Equal(w1, w2) {
					r.Fail("c15-built-packet-changed-by-later-build", trunc(Case{eV4Build, first}.Line(), 1200),
						"a packet built from a decoded request encodes differently after a second packet was built from the same request: "+firstDiff(hx(w1), hx(w2)))
				}
				if rb := srcD.ToBytes(); !bytes.Equal(rb, reqBefore) {
					r.Fail("c15-request-modified-by-builder", trunc(Case{eV4Build, first}.Line(), 1200),
						"the request the packets were built from encodes differently afterwards: "+firstDiff(hx(reqBefore), hx(rb)))
				}
			}
			srcOverride = nil
		}
		// direct oracle: for the field-setting modifiers the caller's LAST word prevails over defaults and earlier modifiers
		if _, pf, ef := runBuilderOpt(full, false); ef == nil {
			last := map[int][]byte{}
			overridden := map[int]bool{} // WithReply / WithRelay touch several fields: what follows them in the list decides
			for j := 0; j+2 < len(mods); j += 3 {
				k := int(numArg(mods[j]))
				switch k {
				case 1, 2, 3, 4, 5, 8, 10:
					last[k] = mods[j+1]
					delete(overridden, k)
				case 7: // reply: xid, hwtype, hwaddr, giaddr
					overridden[1], overridden[8], overridden[10], overridden[5] = true, true, true, true
				case 15: // relay: giaddr
					overridden[5] = true
				}
			}
			// ... and for the option-setting ones: the last WithGeneric / WithoutOption / WithMessageType / WithLeaseTime on a
			// code decides whether the option is there and what it holds (an empty value is a value)
			type optWord struct {
				known, present bool
				val            []byte
			}
			lastOpt := map[byte]optWord{}
			for j := 0; j+2 < len(mods); j += 3 {
				k := int(numArg(mods[j]))
				x, y := mods[j+1], mods[j+2]
				switch k {
				case 11:
					if len(x) == 1 {
						lastOpt[x[0]] = optWord{true, true, y}
					}
				case 12:
					if len(x) == 1 {
						lastOpt[x[0]] = optWord{true, false, nil}
					}
				case 13:
					lastOpt[53] = optWord{true, true, []byte{byte(numArg(x))}}
				case 17:
					lastOpt[51] = optWord{true, true, be32b(uint32(numArg(x)))}
				case 6: // copied from the source if it has a value there: depends on the source
					if len(x) == 1 {
						lastOpt[x[0]] = optWord{}
					}
				case 14: // merges into whatever list is there
					lastOpt[55] = optWord{}
				case 16:
					lastOpt[1] = optWord{}
				case 7, 15: // reply / relay touch no option the list can name ... except that relay sets 82? leave those codes alone
					lastOpt[82] = optWord{}
				}
			}
			for c, w := range lastOpt {
				if !w.known {
					continue
				}
				gv, has := pf.Options[c]
				if has != w.present || (w.present && !bytes.Equal(gv, w.val)) {
					r.Fail("c15-last-modifier-does-not-prevail", trunc(Case{eV4Build, full}.Line(), 1500),
						fmt.Sprintf("the caller's last word on option %d is present=%v value=%x, the packet has present=%v value=%x", c, w.present, w.val, has, gv))
				}
			}
			for k, v := range last {
				if overridden[k] {
					continue
				}
				var got []byte
				want := v
				switch k {
				case 1:
					got = pf.TransactionID[:]
					w := make([]byte, 4)
					copy(w, v)
					want = w
				case 2:
					got, want = pf.ClientIPAddr, ipArg(v)
				case 3:
					got, want = pf.YourIPAddr, ipArg(v)
				case 4:
					got, want = pf.ServerIPAddr, ipArg(v)
				case 5:
					got, want = pf.GatewayIPAddr, ipArg(v)
				case 8:
					got, want = be16b(uint16(pf.HWType)), be16b(uint16(numArg(v)))
				case 10:
					got = pf.ClientHWAddr
				}
				if !bytes.Equal(got, want) {
					r.Fail("c15-last-modifier-does-not-prevail", trunc(Case{eV4Build, full}.Line(), 1500),
						fmt.Sprintf("modifier kind %d with value %x is the caller's last word on that field, the packet has %x", k, want, got))
				}
			}
		}
		r.Count(fmt.Sprintf("builder=%d", bid))
		r.Count(fmt.Sprintf("user-mods=%d", nm))
		// property oracles on the version without user modifiers
		if bid == 1 {
			oracleReply(r, a)
		}
		if bid == 2 {
			oracleRequestFromOffer(r, a)
		}
	}
	r.Extra["oracle_evaluations"] = n
}
