(** C15 — DHCPv4 reply and request builders correlate with the packet they answer. *)
From DV Require Import Base.Bytes V4.Model V4.Accessors V4.Builders.

(** a reply built from ANY request: opposite opcode, same transaction id, hardware
    type and address, flags and gateway address; options 82 and 61 echoed byte for
    byte when present with a non-empty value, omitted otherwise *)
Theorem C15_reply : forall (xid : bytes) (req : pkt4),
  let r := new_with xid (defaults_reply_from_request req) [] in
  p_op r = (if (p_op req =? op_request)%N then op_reply else op_request) /\
  p_xid r = p_xid req /\ p_hwtype r = p_hwtype req /\ p_chaddr r = p_chaddr req /\
  p_flags r = p_flags req /\ p_giaddr r = p_giaddr req /\
  echoed req (n2b 82) r /\ echoed req (n2b 61) r.
Proof. exact reply_from_request. Qed.
Print Assumptions C15_reply.

(** a request built from ANY offer asks for exactly the offered address from the
    offering server under the offer's transaction id *)
Theorem C15_request : forall (xid : bytes) (offer : pkt4),
  let r := new_with xid (defaults_request_from_offer offer) [] in
  p_xid r = p_xid offer /\ p_chaddr r = p_chaddr offer /\ p_hwtype r = p_hwtype offer /\ p_flags r = p_flags offer /\
  p_op r = (if (p_op offer =? op_request)%N then op_reply else op_request) /\
  p_ciaddr r = p_ciaddr offer /\
  lookup (n2b 50) (p_opts r) = Some (ip_to4_bytes (p_yiaddr offer)) /\
  lookup (n2b 53) (p_opts r) = Some [n2b 3] /\
  echoed offer (n2b 54) r /\
  lookup (n2b 55) (p_opts r) = Some default_prl.
Proof. exact request_from_offer. Qed.
Print Assumptions C15_request.

Theorem C15_renew : forall (xid : bytes) (ack : pkt4), (p_flags ack < 65536)%N ->
  let r := new_with xid (defaults_renew_from_ack ack) [] in
  p_xid r = p_xid ack /\ p_chaddr r = p_chaddr ack /\ p_ciaddr r = p_yiaddr ack /\
  is_bcast (p_flags r) = false /\
  lookup (n2b 53) (p_opts r) = Some [n2b 3] /\
  lookup (n2b 50) (p_opts r) = None /\ lookup (n2b 54) (p_opts r) = None /\
  lookup (n2b 55) (p_opts r) = Some default_prl.
Proof. exact renew_from_ack. Qed.
Print Assumptions C15_renew.

Theorem C15_release : forall (xid : bytes) (ack : pkt4),
  let r := new_with xid (defaults_release_from_ack ack) [] in
  p_chaddr r = p_chaddr ack /\ p_ciaddr r = p_yiaddr ack /\ is_bcast (p_flags r) = false /\
  lookup (n2b 53) (p_opts r) = Some [n2b 7] /\ echoed ack (n2b 54) r.
Proof. exact release_from_ack. Qed.
Print Assumptions C15_release.

Theorem C15_inform : forall (xid hw : bytes) (ip : goip),
  let r := new_with xid (defaults_inform hw ip) [] in
  p_chaddr r = hw /\ p_ciaddr r = ip /\ lookup (n2b 53) (p_opts r) = Some [n2b 8] /\ p_op r = op_request.
Proof. exact inform_fields. Qed.
Print Assumptions C15_inform.

Theorem C15_discover : forall (xid hw : bytes),
  let r := new_with xid (defaults_discovery hw) [] in
  p_chaddr r = hw /\ lookup (n2b 53) (p_opts r) = Some [n2b 1] /\ lookup (n2b 55) (p_opts r) = Some default_prl /\
  p_op r = op_request /\ p_xid r = xid.
Proof. exact discovery_fields. Qed.
Print Assumptions C15_discover.

(** caller-supplied modifiers (ANY list, no bound of 4) are applied after the defaults ... *)
Theorem C15_user_after_defaults : forall (xid : bytes) (defaults user : list modifier),
  new_with xid defaults user = fold_left apply_mod user (build xid defaults).
Proof. exact user_after_defaults. Qed.
Print Assumptions C15_user_after_defaults.

(** ... and prevail: the last modifier is applied to everything before it *)
Theorem C15_last_prevails : forall (xid : bytes) (defaults user : list modifier) (m : modifier),
  new_with xid defaults (user ++ [m]) = apply_mod (new_with xid defaults user) m.
Proof. exact last_modifier_applied. Qed.
Print Assumptions C15_last_prevails.
Theorem C15_user_message_type_prevails : forall xid defaults user t,
  lookup (n2b 53) (p_opts (new_with xid defaults (user ++ [MMsgType t]))) = Some [n2b t].
Proof. exact user_message_type_prevails. Qed.
Print Assumptions C15_user_message_type_prevails.
Theorem C15_user_option_prevails : forall xid defaults user c v,
  lookup c (p_opts (new_with xid defaults (user ++ [MGeneric c v]))) = Some v.
Proof. exact user_generic_prevails. Qed.
Print Assumptions C15_user_option_prevails.

(** Non-vacuity: an empty option 82 is omitted, a non-empty client identifier echoed (the F10 corner). *)
Example C15_example :
  let req := mkPkt4 1 1 0 [x01; x02; x03; x04] 0 32768 None None None (Some [x0a; x00; x00; x01])
                    [xaa; xbb] [] [] [(n2b 82, []); (n2b 61, [x01; x02])] in
  let r := new_with [x00; x00; x00; x00] (defaults_reply_from_request req) [] in
  lookup (n2b 82) (p_opts r) = None /\ lookup (n2b 61) (p_opts r) = Some [x01; x02] /\ p_op r = 2%N.
Proof. repeat split. Qed.
