// gen: reads the current source tree of insomniacslk/dhcp with go/parser and
// emits coq/theories/Gen/Tables.v: the dispatch tables and numeric constants
// the Coq model depends on.  Tie/Tables.v proves by reflexivity that the
// model's own tables and constants are exactly these.
package main

import (
	"encoding/json"
	"fmt"
	"go/ast"
	"go/parser"
	"go/token"
	"os"
	"path/filepath"
	"sort"
	"strconv"
	"strings"
)

var fset = token.NewFileSet()

func parse(path string) *ast.File {
	f, err := parser.ParseFile(fset, path, nil, 0)
	if err != nil {
		fail("parse %s: %v", path, err)
	}
	return f
}

func fail(format string, a ...interface{}) {
	fmt.Fprintf(os.Stderr, "gen: "+format+"\n", a...)
	os.Exit(1)
}

// intConsts collects NAME = <int literal> / T(<int literal>) / iota-free consts.
func intConsts(files ...*ast.File) map[string]int64 {
	out := map[string]int64{}
	for _, f := range files {
		for _, d := range f.Decls {
			gd, ok := d.(*ast.GenDecl)
			if !ok || (gd.Tok != token.CONST && gd.Tok != token.VAR) {
				continue
			}
			for _, s := range gd.Specs {
				vs := s.(*ast.ValueSpec)
				for i, n := range vs.Names {
					if i >= len(vs.Values) {
						continue
					}
					if v, ok := evalInt(vs.Values[i], out); ok {
						out[n.Name] = v
					}
				}
			}
		}
	}
	return out
}

func evalInt(e ast.Expr, env map[string]int64) (int64, bool) {
	switch x := e.(type) {
	case *ast.BasicLit:
		if x.Kind == token.INT {
			v, err := strconv.ParseInt(x.Value, 0, 64)
			return v, err == nil
		}
	case *ast.CallExpr: // T(5)
		if len(x.Args) == 1 {
			return evalInt(x.Args[0], env)
		}
	case *ast.ParenExpr:
		return evalInt(x.X, env)
	case *ast.Ident:
		v, ok := env[x.Name]
		return v, ok
	case *ast.BinaryExpr:
		a, ok1 := evalInt(x.X, env)
		b, ok2 := evalInt(x.Y, env)
		if ok1 && ok2 {
			switch x.Op {
			case token.ADD:
				return a + b, true
			case token.SUB:
				return a - b, true
			case token.MUL:
				return a * b, true
			case token.SHL:
				return a << uint(b), true
			}
		}
	}
	return 0, false
}

func findFunc(f *ast.File, name string) *ast.FuncDecl {
	for _, d := range f.Decls {
		if fd, ok := d.(*ast.FuncDecl); ok && fd.Name.Name == name && fd.Recv == nil {
			return fd
		}
	}
	return nil
}

// switchCases returns, for the first switch statement on an identifier in fn,
// the case identifiers with the composite-literal type assigned in the body.
func switchCases(fn *ast.FuncDecl) (cases [][2]string) {
	ast.Inspect(fn.Body, func(n ast.Node) bool {
		sw, ok := n.(*ast.SwitchStmt)
		if !ok || cases != nil {
			return true
		}
		for _, st := range sw.Body.List {
			cc := st.(*ast.CaseClause)
			typ := ""
			ast.Inspect(cc, func(m ast.Node) bool {
				if cl, ok := m.(*ast.CompositeLit); ok && typ == "" {
					if id, ok := cl.Type.(*ast.Ident); ok {
						typ = id.Name
					}
				}
				return true
			})
			for _, e := range cc.List {
				if id, ok := e.(*ast.Ident); ok {
					cases = append(cases, [2]string{id.Name, typ})
				}
			}
		}
		return false
	})
	return
}

func nlist(vs []int64) string {
	s := make([]string, len(vs))
	for i, v := range vs {
		s[i] = strconv.FormatInt(v, 10)
	}
	return "[" + strings.Join(s, "; ") + "]%N"
}

// parsePkg parses every non-test Go file of a package directory.
func parsePkg(dir string) []*ast.File {
	files, _ := filepath.Glob(filepath.Join(dir, "*.go"))
	sort.Strings(files)
	var out []*ast.File
	for _, f := range files {
		if strings.HasSuffix(f, "_test.go") {
			continue
		}
		out = append(out, parse(f))
	}
	return out
}

func findFuncIn(files []*ast.File, name string) *ast.FuncDecl {
	for _, f := range files {
		if fd := findFunc(f, name); fd != nil {
			return fd
		}
	}
	return nil
}

// probe values measured by running the library (harness probe), used for an item whose source shape is not recognised
var probe map[string]interface{}
var missing []string   // items not recognised in the source and absent from the probe
var fromProbe []string // items taken from the probe

func probeInts(key string) ([]int64, bool) {
	v, ok := probe[key]
	if !ok {
		return nil, false
	}
	switch x := v.(type) {
	case float64:
		return []int64{int64(x)}, true
	case []interface{}:
		out := []int64{}
		for _, e := range x {
			f, ok := e.(float64)
			if !ok {
				return nil, false
			}
			out = append(out, int64(f))
		}
		return out, true
	}
	return nil, false
}

// item: the statically read value if the source shape was recognised, else the measured one
func item(key string, static []int64, ok bool) []int64 {
	if ok {
		return static
	}
	if v, ok := probeInts(key); ok {
		fromProbe = append(fromProbe, key)
		return v
	}
	missing = append(missing, key)
	return []int64{0}
}

func main() {
	if len(os.Args) < 3 {
		fail("usage: gen <repo> <outdir> [probe.json]")
	}
	repo, out := os.Args[1], os.Args[2]
	if len(os.Args) > 3 {
		b, err := os.ReadFile(os.Args[3])
		if err != nil {
			fail("%v", err)
		}
		if err := json.Unmarshal(b, &probe); err != nil {
			fail("probe file: %v", err)
		}
	}
	if err := os.MkdirAll(out, 0o755); err != nil {
		fail("%v", err)
	}
	var sb strings.Builder
	w := func(format string, a ...interface{}) { fmt.Fprintf(&sb, format, a...) }
	w("(* GENERATED by tools/gen from the source tree on every check run. Do not edit. *)\n")
	w("From Coq Require Import NArith List.\nImport ListNotations.\n\n")

	// --- DHCPv6 ParseOption switch
	v6 := parsePkg(filepath.Join(repo, "dhcpv6"))
	consts := intConsts(v6...)
	type ent struct {
		code      int64
		name, typ string
	}
	var ents []ent
	staticOK := false
	if fn := findFuncIn(v6, "ParseOption"); fn != nil {
		cases := switchCases(fn)
		staticOK = len(cases) > 0
		for _, c := range cases {
			v, ok := consts[c[0]]
			if !ok {
				staticOK = false
				break
			}
			ents = append(ents, ent{v, c[0], c[1]})
		}
	}
	sort.Slice(ents, func(i, j int) bool { return ents[i].code < ents[j].code })
	var codes []int64
	if staticOK {
		w("(* dhcpv6.ParseOption: code constant, value, concrete Go type *)\n")
		for _, e := range ents {
			w("(*   %-34s = %3d  ->  %s *)\n", e.name, e.code, e.typ)
			codes = append(codes, e.code)
		}
	}
	w("Definition v6_parse_option_codes : list N := %s.\n\n", nlist(item("v6_parse_option_codes", codes, staticOK)))

	// --- NTP sub-options
	var ncodes []int64
	nOK := false
	if nfn := findFuncIn(v6, "parseNTPSuboption"); nfn != nil {
		cs := switchCases(nfn)
		nOK = len(cs) > 0
		for _, c := range cs {
			v, ok := consts[c[0]]
			if !ok {
				nOK = false
				break
			}
			ncodes = append(ncodes, v)
		}
	}
	sort.Slice(ncodes, func(i, j int) bool { return ncodes[i] < ncodes[j] })
	w("Definition v6_ntp_suboption_codes : list N := %s.\n", nlist(item("v6_ntp_suboption_codes", ncodes, nOK)))
	has := func(m map[string]int64, ks ...string) bool {
		for _, k := range ks {
			if _, ok := m[k]; !ok {
				return false
			}
		}
		return true
	}
	w("Definition v6_relay_types : list N := %s.\n", nlist(item("v6_relay_types", []int64{consts["MessageTypeRelayForward"], consts["MessageTypeRelayReply"]}, has(consts, "MessageTypeRelayForward", "MessageTypeRelayReply"))))
	w("Definition v6_duid_types : list N := %s.  (* LLT, EN, LL, UUID *)\n", nlist(item("v6_duid_types", []int64{consts["DUID_LLT"], consts["DUID_EN"], consts["DUID_LL"], consts["DUID_UUID"]}, has(consts, "DUID_LLT", "DUID_EN", "DUID_LL", "DUID_UUID"))))
	w("Definition v6_relay_header_size : N := %d.\n\n", item("v6_relay_header_size", []int64{consts["RelayHeaderSize"]}, has(consts, "RelayHeaderSize"))[0])

	// --- DHCPv4 constants
	v4 := parsePkg(filepath.Join(repo, "dhcpv4"))
	c4 := intConsts(v4...)
	one := func(key, name string) int64 { return item(key, []int64{c4[name]}, has(c4, name))[0] }
	w("Definition v4_min_packet_len : N := %d.\n", one("v4_min_packet_len", "minPacketLen"))
	w("Definition v4_max_hwaddr_len : N := %d.\n", one("v4_max_hwaddr_len", "MaxHWAddrLen"))
	w("Definition v4_bootp_min_len : N := %d.\n", one("v4_bootp_min_len", "bootpMinLen"))
	w("Definition v4_max_message_size : N := %d.\n", one("v4_max_message_size", "MaxMessageSize"))
	w("Definition v4_opt_pad : N := %d.\nDefinition v4_opt_agent_info : N := %d.\nDefinition v4_opt_end : N := %d.\n", one("v4_opt_pad", "optPad"), one("v4_opt_agent_info", "optAgentInfo"), one("v4_opt_end", "optEnd"))
	// magic cookie literal
	var cookie []int64
	for _, f := range v4 {
		ast.Inspect(f, func(n ast.Node) bool {
			vs, ok := n.(*ast.ValueSpec)
			if ok && len(vs.Names) == 1 && vs.Names[0].Name == "magicCookie" && len(vs.Values) == 1 {
				if cl, ok := vs.Values[0].(*ast.CompositeLit); ok {
					cookie = nil
					for _, e := range cl.Elts {
						if v, ok := evalInt(e, c4); ok {
							cookie = append(cookie, v)
						}
					}
				}
			}
			return true
		})
	}
	w("Definition v4_magic_cookie : list N := %s.\n\n", nlist(item("v4_magic_cookie", cookie, len(cookie) == 4)))

	// --- labels
	lab := intConsts(parsePkg(filepath.Join(repo, "rfc1035label"))...)
	w("Definition label_max_name_len : N := %d.\n\n", item("label_max_name_len", []int64{lab["maxNameLen"]}, has(lab, "maxNameLen"))[0])

	// --- raw IPv4/UDP framing (no measurement exists for these: the frame reader is compared with the model
	// on boundary frames by the correspondence harness; an unrecognised declaration keeps the model's value)
	ip := intConsts(parsePkg(filepath.Join(repo, "dhcpv4/nclient4"))...)
	raw := func(name string, model int64) int64 {
		if v, ok := ip[name]; ok {
			return v
		}
		fromProbe = append(fromProbe, name+" (declaration not found; value left to the frame correspondence)")
		return model
	}
	w("Definition raw_ipv4_min_size : N := %d.\nDefinition raw_ipv4_max_header : N := %d.\nDefinition raw_udp_min_size : N := %d.\n",
		raw("ipv4MinimumSize", 20), raw("ipv4MaximumHeaderSize", 60), raw("udpMinimumSize", 8))
	w("Definition raw_udp_protocol : N := %d.\n", raw("udpProtocolNumber", 17))

	if len(missing) > 0 {
		fmt.Fprintf(os.Stderr, "gen: source shape not recognised for: %s\n", strings.Join(missing, ", "))
		os.Exit(3)
	}
	if len(fromProbe) > 0 {
		fmt.Printf("NOTE measured-by-running-the-code: %s\n", strings.Join(fromProbe, ", "))
	}

	// --- storage sites that retain the decoder's input slice (C08)
	sites := retentionSites(repo, []string{"dhcpv6", "dhcpv4", "rfc1035label", "iana"})
	var asb strings.Builder
	fmt.Fprintf(&asb, "(* GENERATED by tools/gen: places where a FromBytes/Unmarshal/parser function stores its\n   input slice (or a Lexer view of it) without copying.  Do not edit. *)\n")
	fmt.Fprintf(&asb, "From Coq Require Import String List.\nImport ListNotations.\nOpen Scope string_scope.\n\n")
	fmt.Fprintf(&asb, "Definition retention_sites : list string :=\n  [")
	for i, st := range sites {
		if i > 0 {
			fmt.Fprintf(&asb, ";\n   ")
		}
		fmt.Fprintf(&asb, "%q", st)
	}
	fmt.Fprintf(&asb, "].\n")
	writeIfChanged(filepath.Join(out, "Alias.v"), asb.String())

	writeIfChanged(filepath.Join(out, "Tables.v"), sb.String())
}

func writeIfChanged(path, content string) {
	old, _ := os.ReadFile(path)
	if string(old) != content {
		if err := os.WriteFile(path, []byte(content), 0o644); err != nil {
			fail("%v", err)
		}
		fmt.Println("gen: wrote", path)
	} else {
		fmt.Println("gen: unchanged", path)
	}
}

// retentionSites lists "pkg/file:func: expr" for every place where a function
// taking a []byte parameter stores that parameter, a sub-slice of it, or a
// Consume()/Data() view of a buffer built on it, into a field, map/slice
// element, dereferenced pointer, composite literal or return value, without
// an intervening copy (CopyN, ReadAll, ReadBytes, append to a fresh slice,
// string conversion, bytes.Clone, copy).
func retentionSites(repo string, pkgs []string) []string {
	var out []string
	for _, pkg := range pkgs {
		files, _ := filepath.Glob(filepath.Join(repo, pkg, "*.go"))
		sort.Strings(files)
		typeNames := map[string]bool{}
		for _, path := range files {
			if strings.HasSuffix(path, "_test.go") {
				continue
			}
			for _, d := range parse(path).Decls {
				if gd, ok := d.(*ast.GenDecl); ok && gd.Tok == token.TYPE {
					for _, sp := range gd.Specs {
						typeNames[sp.(*ast.TypeSpec).Name.Name] = true
					}
				}
			}
		}
		for _, path := range files {
			if strings.HasSuffix(path, "_test.go") {
				continue
			}
			f := parse(path)
			for _, d := range f.Decls {
				fd, ok := d.(*ast.FuncDecl)
				if !ok || fd.Body == nil {
					continue
				}
				ln := strings.ToLower(fd.Name.Name)
				if !strings.Contains(ln, "frombytes") && !strings.Contains(ln, "unmarshal") && !strings.Contains(ln, "parse") {
					continue // only decoders: constructors keep the caller's slice by design
				}
				out = append(out, funcRetention(pkg+"/"+filepath.Base(path), fd, typeNames)...)
			}
		}
	}
	sort.Strings(out)
	return out
}

func isByteSlice(e ast.Expr) bool {
	at, ok := e.(*ast.ArrayType)
	if !ok || at.Len != nil {
		return false
	}
	id, ok := at.Elt.(*ast.Ident)
	return ok && id.Name == "byte"
}

func funcRetention(where string, fd *ast.FuncDecl, typeNames map[string]bool) []string {
	alias := map[string]bool{} // identifiers that denote (views of) the input
	bufs := map[string]bool{}  // Lexer/Buffer variables built on the input
	for _, p := range fd.Type.Params.List {
		if isByteSlice(p.Type) {
			for _, n := range p.Names {
				alias[n.Name] = true
			}
		}
	}
	if len(alias) == 0 {
		return nil
	}
	var isView func(e ast.Expr) bool
	isView = func(e ast.Expr) bool {
		switch x := e.(type) {
		case *ast.Ident:
			return alias[x.Name]
		case *ast.ParenExpr:
			return isView(x.X)
		case *ast.SliceExpr:
			return isView(x.X)
		case *ast.CallExpr:
			// conversions to slice types keep the memory: T(x) with one argument and T not "string"
			if len(x.Args) == 1 {
				switch fn := x.Fun.(type) {
				case *ast.Ident:
					if typeNames[fn.Name] && isView(x.Args[0]) {
						return true // conversion to a named slice type of this package keeps the memory
					}
				case *ast.SelectorExpr:
					if pk, ok := fn.X.(*ast.Ident); ok && pk.Name == "net" && isView(x.Args[0]) {
						return true // net.IP(x), net.HardwareAddr(x), net.IPMask(x)
					}
				}
			}
			// buf.Consume(n) / buf.Data() on a buffer over the input
			if sel, ok := x.Fun.(*ast.SelectorExpr); ok {
				if id, ok := sel.X.(*ast.Ident); ok && bufs[id.Name] && (sel.Sel.Name == "Consume" || sel.Sel.Name == "Data") {
					return true
				}
			}
		}
		return false
	}
	// two passes so that aliases introduced later in source order are still seen in loops
	for pass := 0; pass < 2; pass++ {
		ast.Inspect(fd.Body, func(n ast.Node) bool {
			as, ok := n.(*ast.AssignStmt)
			if !ok {
				return true
			}
			for i, lhs := range as.Lhs {
				if i >= len(as.Rhs) {
					break
				}
				id, ok := lhs.(*ast.Ident)
				if !ok {
					continue
				}
				rhs := as.Rhs[i]
				if call, ok := rhs.(*ast.CallExpr); ok {
					if sel, ok := call.Fun.(*ast.SelectorExpr); ok {
						if pk, ok := sel.X.(*ast.Ident); ok && pk.Name == "uio" && strings.HasPrefix(sel.Sel.Name, "New") && len(call.Args) >= 1 && isView(call.Args[0]) {
							bufs[id.Name] = true
							continue
						}
					}
				}
				if isView(rhs) {
					alias[id.Name] = true
				}
			}
			return true
		})
	}
	// a struct built by value into a local variable (d := decoder{buf: data}) keeps the view only as long as the
	// variable lives: the variable becomes a carrier of the view (returning it, storing it or taking its address
	// is then a site), the literal itself is not one
	localLit := map[*ast.CompositeLit]bool{}
	litHasView := func(cl *ast.CompositeLit) bool {
		for _, el := range cl.Elts {
			if kv, ok := el.(*ast.KeyValueExpr); ok {
				if isView(kv.Value) {
					return true
				}
			} else if isView(el) {
				return true
			}
		}
		return false
	}
	ast.Inspect(fd.Body, func(n ast.Node) bool {
		switch x := n.(type) {
		case *ast.AssignStmt:
			for i, lhs := range x.Lhs {
				if i >= len(x.Rhs) {
					break
				}
				id, ok := lhs.(*ast.Ident)
				cl, ok2 := x.Rhs[i].(*ast.CompositeLit)
				if ok && ok2 && litHasView(cl) {
					localLit[cl] = true
					alias[id.Name] = true
				}
			}
		case *ast.ValueSpec:
			for i, id := range x.Names {
				if i < len(x.Values) {
					if cl, ok := x.Values[i].(*ast.CompositeLit); ok && litHasView(cl) {
						localLit[cl] = true
						alias[id.Name] = true
					}
				}
			}
		}
		return true
	})
	var sites []string
	add := func(kind string, e ast.Expr) {
		var sb strings.Builder
		printExpr(&sb, e)
		_ = sb
		// identified by package and function only: renaming a parameter or moving the function to another
		// file of the package does not change the site
		site := fmt.Sprintf("%s:%s: %s", filepath.Dir(where), fd.Name.Name, kind)
		for _, s := range sites {
			if s == site {
				return
			}
		}
		sites = append(sites, site)
	}
	ast.Inspect(fd.Body, func(n ast.Node) bool {
		switch x := n.(type) {
		case *ast.CompositeLit:
			if localLit[x] {
				return false
			}
		case *ast.UnaryExpr:
			if x.Op == token.AND && isView(x.X) {
				if _, isLit := x.X.(*ast.CompositeLit); !isLit {
					add("takes the address of", x.X)
				}
			}
		case *ast.AssignStmt:
			for i, lhs := range x.Lhs {
				if i >= len(x.Rhs) {
					break
				}
				switch lhs.(type) {
				case *ast.SelectorExpr, *ast.IndexExpr, *ast.StarExpr:
					if isView(x.Rhs[i]) {
						add("stores", x.Rhs[i])
					}
				}
			}
		case *ast.KeyValueExpr:
			if isView(x.Value) {
				add("literal field", x.Value)
			}
		case *ast.ReturnStmt:
			for _, e := range x.Results {
				if isView(e) {
					add("returns", e)
				}
			}
		}
		return true
	})
	return sites
}

func printExpr(sb *strings.Builder, e ast.Expr) {
	switch x := e.(type) {
	case *ast.Ident:
		sb.WriteString(x.Name)
	case *ast.SelectorExpr:
		printExpr(sb, x.X)
		sb.WriteString("." + x.Sel.Name)
	case *ast.CallExpr:
		printExpr(sb, x.Fun)
		sb.WriteString("(")
		for i, a := range x.Args {
			if i > 0 {
				sb.WriteString(", ")
			}
			printExpr(sb, a)
		}
		sb.WriteString(")")
	case *ast.SliceExpr:
		printExpr(sb, x.X)
		sb.WriteString("[:]")
	case *ast.ParenExpr:
		printExpr(sb, x.X)
	default:
		sb.WriteString("?")
	}
}
