(** C18 — Raw UDP connection emits valid IPv4/UDP frames and reads only its own. *)
From DV Require Import Base.Bytes V4.Model Raw.Model Raw.Proofs Raw.Spec Raw.Bound Raw.Independent.

(** every datagram leaves as: version 4 / IHL 5 (0x45), total length 28+n, TTL 64,
    protocol 17, source and destination address, then source port, destination
    port, UDP length 8+n, UDP checksum, then the payload unchanged *)
Theorem C18_layout : forall payload dest src s4 d4, is_v4 (a_ip src) s4 -> is_v4 (a_ip dest) d4 ->
  exists ipck uck,
    udp4pkt payload dest src =
      ([n2b 69; x00] ++ be16 (28 + N.of_nat (length payload)) ++ [x00; x00; x00; x00; n2b 64; n2b 17] ++ be16 ipck ++ s4 ++ d4)
      ++ (be16 (a_port src) ++ be16 (a_port dest) ++ be16 (8 + N.of_nat (length payload)) ++ be16 uck)
      ++ payload.
Proof. exact udp4pkt_layout. Qed.
Print Assumptions C18_layout.

(** the IPv4 header checksum verifies under RFC 1071, for every payload that fits an IP packet *)
Theorem C18_ip_checksum : forall payload dest src, (28 + N.of_nat (length payload) < 65536)%N ->
  verifies (firstn 20 (udp4pkt payload dest src)).
Proof. exact ip_header_verifies. Qed.
Print Assumptions C18_ip_checksum.

(** the UDP checksum verifies under RFC 768 over pseudo-header, UDP header and payload
    (odd and even lengths, any carry pattern) *)
Theorem C18_udp_checksum : forall payload dest src s4 d4,
  (28 + N.of_nat (length payload) < 65536)%N -> is_v4 (a_ip src) s4 -> is_v4 (a_ip dest) d4 ->
  (a_port src < 65536)%N -> (a_port dest < 65536)%N ->
  let ulen := (8 + N.of_nat (length payload))%N in
  verifies ((s4 ++ d4 ++ [x00; n2b 17] ++ be16 ulen) ++ skipn 20 (udp4pkt payload dest src)).
Proof. exact udp_checksum_verifies. Qed.
Print Assumptions C18_udp_checksum.

(** reading: one loop iteration always returns normally (a malformed frame is
    skipped, never a panic) ... *)
Theorem C18_read_total : forall bound blen f, exists r, read_frame bound blen f = Ok r.
Proof. exact read_frame_total. Qed.
Print Assumptions C18_read_total.

(** ... and it delivers a frame EXACTLY when the received octets have the
    RFC 791 / RFC 768 layout of a UDP datagram for the bound address
    ([frame_spec]: 20 fixed octets, options up to the header length h >= 5
    words, 8 UDP octets, data; version 4, protocol 17, 4h + 8 <= total length <=
    received octets, destination matching), and then exactly its payload (the
    first total - 4h - 8 data octets, cut to the caller's buffer), source
    address and source port; every other frame is skipped *)
Theorem C18_read_exact : forall bound blen frame p src sport,
  read_frame bound blen frame = Ok (Deliver p src sport) <-> frame_spec bound blen frame p src sport.
Proof. exact read_frame_iff. Qed.
Print Assumptions C18_read_exact.

(** the bound-address rule inside [frame_spec]: no bound address accepts every destination; a bound port must equal
    the destination port; a bound IP address - 0.0.0.0 and 255.255.255.255 are addresses like any other - must equal
    the destination address *)
Theorem C18_bound_rule : forall bound dst_ip dst_port,
  udp_match dst_ip dst_port bound = true <-> bound_accepts bound dst_ip dst_port.
Proof. exact udp_match_spec. Qed.
Print Assumptions C18_bound_rule.

Theorem C18_bound_v4_equality : forall a b, length a = 4 -> length b = 4 -> (ip_equal a b = true <-> a = b).
Proof. exact ip_equal_v4. Qed.
Print Assumptions C18_bound_v4_equality.

Theorem C18_read_skips_malformed : forall bound blen frame,
  (forall p src sport, ~ frame_spec bound blen frame p src sport) -> read_frame bound blen frame = Ok Skip.
Proof. exact read_frame_skips. Qed.
Print Assumptions C18_read_skips_malformed.

(** ... ReadFrom silently skips every frame the iteration skips and returns
    the first delivered one, for ANY sequence of frames; reading then continues
    with the remaining frames (arrival order) *)
Theorem C18_read_skips : forall bound blen pre f rest p s sp,
  Forall (fun x => x <> [] /\ read_frame bound blen x = Ok Skip) pre ->
  f <> [] -> read_frame bound blen f = Ok (Deliver p s sp) ->
  read_from bound blen (pre ++ f :: rest) = Ok (Delivered p s sp, rest).
Proof. exact read_from_skips. Qed.
Print Assumptions C18_read_skips.

(** what the connection writes it reads back: exactly the payload and the source *)
Theorem C18_read_write : forall payload dest src s4 d4 blen,
  (28 + N.of_nat (length payload) < 65536)%N -> length payload <= blen ->
  is_v4 (a_ip src) s4 -> is_v4 (a_ip dest) d4 -> (a_port src < 65536)%N -> (a_port dest < 65536)%N ->
  read_frame (Some dest) blen (udp4pkt payload dest src) = Ok (Deliver payload s4 (a_port src)).
Proof. exact read_write. Qed.
Print Assumptions C18_read_write.

(** Non-vacuity / regression of F1: a 46-octet frame whose IP total length (24)
    leaves 4 octets of IP payload is skipped. *)
Example C18_example_short_payload :
  read_frame (Some (mkAddr None 68)) 576
    ([n2b 69; x00; x00; n2b 24; x00; x00; x00; x00; n2b 64; n2b 17; x00; x00; x0a; x00; x00; x01; xff; xff; xff; xff;
      x00; n2b 67; x00; n2b 68; x00; x08; x00; x00] ++ zeros 18) = Ok Skip.
Proof. vm_compute. reflexivity. Qed.

(** what delivery does NOT depend on: type of service, identification, flags and fragment offset
    (the Don't-Fragment bit of every ordinary UDP socket), time to live, header checksum - any of
    these octets (1, 4-8, 10, 11), any number of them, overwritten with any values, leave the
    reading of the frame as it was: same verdict, same payload, same source *)
Theorem C18_delivery_ignores_dont_care_octets : forall (ws : list (nat * byte)) bound blen f,
  Forall (fun w => dont_care (fst w) = true) ws ->
  read_frame bound blen (fold_left (fun g w => set_nth (fst w) (snd w) g) ws f) = read_frame bound blen f.
Proof. exact read_frame_ignores_all. Qed.
Print Assumptions C18_delivery_ignores_dont_care_octets.

Example C18_example_dont_fragment :
  let f := udp4pkt [x01; x02; x03] (mkAddr (Some [x0a; x00; x00; x02]) 68) (mkAddr (Some [x0a; x00; x00; x01]) 67) in
  read_frame None 100 (set_nth 6 x40 f) = read_frame None 100 f /\ nth 6 (set_nth 6 x40 f) x00 <> nth 6 f x00
  /\ exists p s sp, read_frame None 100 f = Ok (Deliver p s sp).
Proof. exact dont_fragment_example. Qed.
