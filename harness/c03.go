package main

import (
	"os/exec"
	"runtime/debug"
	"github.com/insomniacslk/dhcp/dhcpv4/nclient4"
	"sync"
	"strings"
	"os"
	"strconv"
	"sort"
	"path/filepath"
	"go/token"
	"go/parser"
	"go/ast"
	"fmt"
	"io"
	"log"
	"net"
	"reflect"
	"time"

	"github.com/insomniacslk/dhcp/dhcpv4"
	"github.com/insomniacslk/dhcp/dhcpv4/ztpv4"
	"github.com/insomniacslk/dhcp/dhcpv6"
	"github.com/insomniacslk/dhcp/dhcpv6/ztpv6"
	"github.com/insomniacslk/dhcp/iana"
	"github.com/insomniacslk/dhcp/netboot"
	"github.com/insomniacslk/dhcp/rfc1035label"
)

func init() { props["C03"] = genC03 }

// guard runs f under recover with a watchdog; reports a panic or a hang.
func guard(r *Run, what string, input []byte, f func()) (ok bool) {
	done := make(chan interface{}, 1)
	go func() {
		defer func() { done <- recover() }()
		f()
	}()
	select {
	case p := <-done:
		if p != nil {
			if s, isStr := p.(string); isStr && len(s) > 8 && s[:8] == "harness:" {
				panic(p) // a harness bug, not a library panic
			}
			r.Fail("panic:"+what, trunc(hx(input), 3000), fmt.Sprint(p))
			return false
		}
		return true
	case <-time.After(20 * time.Second):
		r.Fail("hang:"+what, trunc(hx(input), 3000), "no result after 20 s")
		return false
	}
}

var durType = reflect.TypeOf(time.Duration(0))

// callNiladic calls every exported method of v that takes no argument (or one
// time.Duration default), and recurses one level into the results that are
// themselves library values with methods.
func callNiladic(r *Run, what string, input []byte, v reflect.Value, depth int) int {
	n := 0
	t := v.Type()
	for i := 0; i < t.NumMethod(); i++ {
		m := t.Method(i)
		mt := v.Method(i).Type() // bound method: no receiver argument
		var args []reflect.Value
		switch {
		case mt.NumIn() == 0:
		case mt.NumIn() == 1 && mt.In(0) == durType:
			args = []reflect.Value{reflect.ValueOf(time.Duration(0))}
		case mt.NumIn() == 1 && mt.In(0).Kind() == reflect.Int && m.Name == "LongString":
			args = []reflect.Value{reflect.ValueOf(2)}
		default:
			continue
		}
		if m.Name == "FromBytes" || m.Name == "SetBroadcast" || m.Name == "SetUnicast" {
			continue
		}
		var outs []reflect.Value
		n++
		guard(r, what+"."+m.Name, input, func() { outs = v.Method(i).Call(args) })
		if depth > 0 {
			for _, o := range outs {
				if !o.IsValid() {
					continue
				}
				if (o.Kind() == reflect.Ptr || o.Kind() == reflect.Interface || o.Kind() == reflect.Slice || o.Kind() == reflect.Map) && o.IsNil() {
					continue
				}
				if o.Type().PkgPath() != "" && o.NumMethod() > 0 && o.Kind() != reflect.Func {
					n += callNiladic(r, what+"."+m.Name, input, o, depth-1)
				}
			}
		}
	}
	return n
}

func observeV4(r *Run, b []byte, p *dhcpv4.DHCPv4) int {
	n := callNiladic(r, "DHCPv4", b, reflect.ValueOf(p), 1)
	n += callNiladic(r, "dhcpv4.Options", b, reflect.ValueOf(p.Options), 0)
	guard(r, "dhcpv4.NewReplyFromRequest", b, func() { dhcpv4.NewReplyFromRequest(p) })
	guard(r, "dhcpv4.NewRequestFromOffer", b, func() { dhcpv4.NewRequestFromOffer(p) })
	guard(r, "dhcpv4.NewRenewFromAck", b, func() { dhcpv4.NewRenewFromAck(p) })
	guard(r, "dhcpv4.NewReleaseFromACK", b, func() { dhcpv4.NewReleaseFromACK(p) })
	guard(r, "ztpv4.ParseVendorData", b, func() { ztpv4.ParseVendorData(p) })
	guard(r, "ztpv4.ParseCircuitID", b, func() { ztpv4.ParseCircuitID(p) })
	guard(r, "netboot.GetNetConfFromPacketv4", b, func() { netboot.GetNetConfFromPacketv4(p) })
	guard(r, "netboot.ConversationToNetconfv4", b, func() { netboot.ConversationToNetconfv4([]*dhcpv4.DHCPv4{p}) })
	guard(r, "dhcpv4.IsOptionRequested", b, func() { p.IsOptionRequested(dhcpv4.OptionRouter) })
	return n + 9
}

func observeV6(r *Run, b []byte, m dhcpv6.DHCPv6) int {
	n := callNiladic(r, "DHCPv6", b, reflect.ValueOf(m), 1)
	walkV6(m, func(o dhcpv6.Option) {
		n += callNiladic(r, fmt.Sprintf("option(%d)", o.Code()), b, reflect.ValueOf(o), 1)
	})
	switch x := m.(type) {
	case *dhcpv6.Message:
		n += callNiladic(r, "MessageOptions", b, reflect.ValueOf(x.Options), 1)
		guard(r, "dhcpv6.NewAdvertiseFromSolicit", b, func() { dhcpv6.NewAdvertiseFromSolicit(x) })
		guard(r, "dhcpv6.NewRequestFromAdvertise", b, func() { dhcpv6.NewRequestFromAdvertise(x) })
		guard(r, "dhcpv6.NewReplyFromMessage", b, func() { dhcpv6.NewReplyFromMessage(x) })
		guard(r, "netboot.GetNetConfFromPacketv6", b, func() { netboot.GetNetConfFromPacketv6(x) })
	case *dhcpv6.RelayMessage:
		n += callNiladic(r, "RelayOptions", b, reflect.ValueOf(x.Options), 1)
		rep := &dhcpv6.Message{MessageType: dhcpv6.MessageTypeReply}
		guard(r, "dhcpv6.NewRelayReplFromRelayForw", b, func() { dhcpv6.NewRelayReplFromRelayForw(x, rep) })
	}
	guard(r, "dhcpv6.DecapsulateRelay", b, func() { dhcpv6.DecapsulateRelay(m) })
	for _, idx := range []int{-2, -1, 0, 1, 5} {
		guard(r, "dhcpv6.DecapsulateRelayIndex", b, func() { dhcpv6.DecapsulateRelayIndex(m, idx) })
	}
	guard(r, "dhcpv6.GetTransactionID", b, func() { dhcpv6.GetTransactionID(m) })
	guard(r, "dhcpv6.ExtractMAC", b, func() { dhcpv6.ExtractMAC(m) })
	guard(r, "ztpv6.ParseVendorData", b, func() { ztpv6.ParseVendorData(m) })
	guard(r, "ztpv6.ParseRemoteID", b, func() { ztpv6.ParseRemoteID(m) })
	return n + 14
}

// busyConn hands out n well-formed IPv4 packets that are not for the reader (TCP, UDP to another port), then one
// datagram for the bound port, then EOF.
type busyConn struct {
	n, i    int
	foreign [2][]byte
	last    []byte
}

func (c *busyConn) ReadFrom(p []byte) (int, net.Addr, error) {
	switch {
	case c.i < c.n:
		f := c.foreign[c.i%2]
		c.i++
		return copy(p, f), &net.UDPAddr{}, nil
	case c.i == c.n:
		c.i++
		return copy(p, c.last), &net.UDPAddr{}, nil
	}
	return 0, nil, io.EOF
}
func (c *busyConn) WriteTo(p []byte, a net.Addr) (int, error) { return len(p), nil }
func (c *busyConn) Close() error                              { return nil }
func (c *busyConn) LocalAddr() net.Addr                       { return &net.UDPAddr{} }
func (c *busyConn) SetDeadline(time.Time) error               { return nil }
func (c *busyConn) SetReadDeadline(time.Time) error           { return nil }
func (c *busyConn) SetWriteDeadline(time.Time) error          { return nil }

// runBusyLink is run in a process of its own (harness busylink x x <n>): a raw socket sees every IPv4 packet on the
// link, so one ReadFrom call may have to pass over any number of packets for others before its datagram comes. With
// the stack limited to 16 MiB, whatever the reader keeps per skipped packet shows as a crash of that process.
func runBusyLink(n int) int {
	debug.SetMaxStack(16 << 20)
	payload := []byte("the datagram for port 68")
	mk := func(proto byte, dport int) []byte {
		return buildFrame(frameSpec{ihl: 5, proto: proto, version: 4, sip: []byte{10, 0, 0, 1}, dip: []byte{10, 0, 0, 2}, sport: 67, dport: dport, payload: payload, truncateTo: -1})
	}
	bc := &busyConn{n: n, foreign: [2][]byte{mk(6, 68), mk(17, 33333)}, last: mk(17, 68)}
	conn := nclient4.NewBroadcastUDPConn(bc, &net.UDPAddr{Port: 68})
	buf := make([]byte, 1500)
	k, _, err := conn.ReadFrom(buf)
	if err != nil || string(buf[:k]) != string(payload) {
		fmt.Printf("after %d packets for others: read %q, error %v\n", n, buf[:k], err)
		return 3
	}
	return 0
}

func genC03(r *Run) {
	log.SetOutput(io.Discard)
	obs := 0
	entry := func(name string, b []byte, f func()) { guard(r, name, b, f) }
	if exe, err := os.Executable(); err == nil {
		n := r.N(200000, 3000000)
		out, err := exec.Command(exe, "busylink", "x", "x", strconv.Itoa(n)).CombinedOutput()
		obs++
		if err != nil {
			tail := string(out)
			if i := strings.Index(tail, "\n\n"); i > 0 {
				tail = tail[:i]
			}
			r.Fail("raw-read-dies-on-a-busy-link", fmt.Sprintf("%d well-formed IPv4 packets for others (TCP, UDP to another port) and then one datagram for the bound port, within one ReadFrom call; stack limited to 16 MiB", n),
				fmt.Sprintf("the reading process ended with %v: %s", err, trunc(tail, 600)))
		}
	}

	// ---- DHCPv4 packets and option lists
	var v4corpus [][]byte
	for i := 0; i < r.N(400, 30000); i++ {
		var b []byte
		switch r.Rng.Intn(5) {
		case 0:
			b = r.Bytes(r.Rng.Intn(600))
		case 1:
			b = r.v4WithTypedOptions()
		default:
			b = r.validWire(8)
		}
		if r.Rng.Intn(3) != 0 {
			b = r.mutate(b)
		}
		r.Add(eV4Dec, b)
		r.Add(eV4Opts, b[minInt(len(b), 240):])
		var p *dhcpv4.DHCPv4
		entry("dhcpv4.FromBytes", b, func() {
			if x, err := dhcpv4.FromBytes(append([]byte{}, b...)); err == nil {
				p = x
			}
		})
		entry("dhcpv4.Options.FromBytes", b, func() { o := dhcpv4.Options{}; o.FromBytes(append([]byte{}, b...)) })
		if p != nil && len(b) <= 4096 {
			obs += observeV4(r, b, p)
			r.Count("v4-observed")
			if len(v4corpus) < 200 {
				v4corpus = append(v4corpus, b)
			}
		}
	}
	// ---- DHCPv6
	var v6msgs []dhcpv6.DHCPv6
	for i := 0; i < r.N(700, 60000); i++ {
		var b []byte
		switch r.Rng.Intn(6) {
		case 0:
			b = r.Bytes(r.Rng.Intn(300))
		case 1:
			_, b = r.genChain(r.Rng.Intn(6))
		case 2:
			b = r.v6Special()
		default:
			_, b = r.genMsg(r.Pick(0, 1, 2, 3), r.Pick(1, 3, 8))
		}
		if len(b) > 8000 {
			b = b[:8000]
		}
		if r.Rng.Intn(3) != 0 {
			b = r.mutate(b)
		}
		r.Add(eV6Dec, b)
		if i%3 == 0 {
			r.Add(eV6Message, b)
			r.Add(eV6Relay, b)
			if len(b) > 4 {
				r.Add(eV6Opt, b[0:2], b[2:])
			}
		}
		var m dhcpv6.DHCPv6
		entry("dhcpv6.FromBytes", b, func() {
			if x, err := dhcpv6.FromBytes(append([]byte{}, b...)); err == nil {
				m = x
			}
		})
		entry("dhcpv6.MessageFromBytes", b, func() { dhcpv6.MessageFromBytes(append([]byte{}, b...)) })
		entry("dhcpv6.RelayMessageFromBytes", b, func() { dhcpv6.RelayMessageFromBytes(append([]byte{}, b...)) })
		if len(b) >= 2 {
			entry("dhcpv6.ParseOption", b, func() { dhcpv6.ParseOption(dhcpv6.OptionCode(int(b[0])<<8|int(b[1])), append([]byte{}, b[2:]...)) })
		}
		entry("dhcpv6.DUIDFromBytes", b, func() {
			if d, err := dhcpv6.DUIDFromBytes(append([]byte{}, b...)); err == nil {
				_ = d.String()
				_ = d.ToBytes()
				_ = d.Equal(d)
			}
		})
		if m != nil && len(b) <= 4096 {
			obs += observeV6(r, b, m)
			r.Count("v6-observed")
			if len(v6msgs) < 300 {
				v6msgs = append(v6msgs, m)
			}
		}
	}
	// ---- structure-aware malformation: every known option type, its value cut at every position, lengthened, and
	// with every inner 16-bit field perturbed, while the enclosing framing stays well formed (so the option's own
	// parser, not the option loop, sees the damage); alone, in a message, inside an IA_NA and inside a relay chain
	v6try := func(b []byte) {
		var m dhcpv6.DHCPv6
		entry("dhcpv6.FromBytes", b, func() {
			if x, err := dhcpv6.FromBytes(append([]byte{}, b...)); err == nil {
				m = x
			}
		})
		if m != nil && len(b) <= 4096 {
			obs += observeV6(r, b, m)
			r.Count("v6-observed")
		}
	}
	for _, c := range knownV6Codes {
		for k := 0; k < r.N(3, 40); k++ {
			v := r.genOptCode(c, 2).wire
			if len(v) > 300 {
				continue
			}
			var variants [][]byte
			for t := 0; t <= len(v); t++ {
				variants = append(variants, v[:t])
			}
			for e := 1; e <= 3; e++ {
				variants = append(variants, append(append([]byte{}, v...), r.Bytes(e)...))
			}
			for pos := 0; pos+1 < len(v) && pos < 100; pos++ {
				for _, d := range []int{1, -1, 0x100} {
					m := append([]byte{}, v...)
					x := (int(m[pos])<<8 | int(m[pos+1])) + d
					m[pos], m[pos+1] = byte(x>>8), byte(x)
					variants = append(variants, m)
				}
				m := append([]byte{}, v...)
				m[pos], m[pos+1] = 0xff, 0xff
				variants = append(variants, m)
			}
			r.Count("v6-structure-aware-variants")
			for _, x := range variants {
				entry("dhcpv6.ParseOption", x, func() {
					if o, err := dhcpv6.ParseOption(dhcpv6.OptionCode(c), append([]byte{}, x...)); err == nil {
						_ = o.String()
						_ = o.ToBytes()
					}
				})
				r.Add(eV6Opt, w16(int(c)), x)
				msg := append([]byte{byte(r.Pick(1, 2, 7)), 1, 2, 3}, tlvb(c, x)...)
				v6try(msg)
				v6try(append([]byte{1, 1, 2, 3}, tlvb(3, append(make([]byte, 12), tlvb(c, x)...))...))
				v6try(append(append([]byte{12, 0}, make([]byte, 32)...), tlvb(9, msg)...))
			}
		}
	}
	// the same for DHCPv4: each option with a typed reader, its value cut at every position, in an otherwise
	// valid packet - the typed accessors parse lazily, so they are what meets the damage
	for _, c := range []byte{1, 3, 6, 12, 15, 42, 43, 50, 51, 52, 53, 54, 55, 57, 58, 59, 60, 61, 66, 67, 77, 81, 82, 93, 94, 97, 118, 119, 121, 124, 125, 252} {
		for k := 0; k < r.N(2, 30); k++ {
			id, ok := map[byte]byte{1: 12, 3: 2, 6: 2, 42: 2, 50: 1, 51: 5, 53: 9, 54: 1, 55: 10, 58: 5, 59: 5, 77: 13, 93: 15, 119: 16, 121: 17, 124: 14}[c]
			var v []byte
			if ok {
				v = r.valueFor(id, r.Pick(1, 2, 4, 8, 9, 20))
			} else {
				v = r.Bytes(r.Pick(1, 2, 3, 5, 8, 17, 40))
				if c == 82 || c == 43 || c == 125 || c == 124 {
					v = append([]byte{byte(r.Pick(1, 2, 5)), byte(r.Pick(0, 1, 3, 200))}, v...)
				}
			}
			for t := 0; t <= len(v) && t < 60; t++ {
				b := pktOfArgs(r.randPkt(map[byte][]byte{53: {byte(r.Pick(1, 2, 5))}, c: v[:t]})).ToBytes()
				var p *dhcpv4.DHCPv4
				entry("dhcpv4.FromBytes", b, func() {
					if x, err := dhcpv4.FromBytes(append([]byte{}, b...)); err == nil {
						p = x
					}
				})
				if p != nil {
					obs += observeV4(r, b, p)
					r.Count("v4-observed")
				}
			}
		}
	}
	// ---- circuit descriptions for the relay-side extractor (ztpv6.ParseRemoteID reads the innermost relay's Remote-ID
	// and Interface-ID): every single form and every ordered pair of forms (a string may match several of the
	// extractor's patterns at once), joined by nothing, a comma or a space
	{
		forms := []string{"Ethernet3/5/1", "Ethernet51:100", "Ethernet7", "Ethernet1/2", "et-1/2/3.45", "ge-0/0/1:7", "", "Ethernet", "Ethernet9:", "Ethernet/1/2", "xe-0/1/2"}
		var descs []string
		for _, a := range forms {
			descs = append(descs, a)
			for _, b := range forms {
				for _, j := range []string{"", ",", " "} {
					descs = append(descs, a+j+b)
				}
			}
		}
		inner := append([]byte{1, 1, 2, 3}, tlvb(1, []byte{0, 3, 0, 1, 2, 0, 0, 0, 0, 1})...)
		for i, d := range descs {
			hdr := append([]byte{12, 0}, make([]byte, 32)...)
			rid := tlvb(37, append(w32(uint32([]int{1271, 0, 30065}[i%3])), d...))
			iid := tlvb(18, []byte(d))
			v6try(append(append(append([]byte{}, hdr...), tlvb(9, inner)...), rid...))
			v6try(append(append(append([]byte{}, hdr...), iid...), tlvb(9, inner)...))
			if i%7 == 0 {
				v6try(append(append(append(append([]byte{}, hdr...), rid...), iid...), tlvb(9, inner)...))
			}
		}
		r.Count(fmt.Sprintf("circuit-descriptions=%d", len(descs)))
	}
	// ---- vendor strings for the provisioning extractors (ztpv4, ztpv6, netboot): every string literal found in their
	// source on this run is a dictionary word; each is followed by 0..6 fields joined by each separator, and carried
	// in the options those extractors read (DHCPv6 16, 17; DHCPv4 60, 43, 124, 125)
	{
		words := sourceStrings(os.Getenv("VERIF_REPO"), "dhcpv4/ztpv4", "dhcpv6/ztpv6", "netboot")
		words = append(words, "Arista;", "Cisco;", "ZPESystems:", "NVOS##", "1271", "Juniper-", "Juniper:", "X")
		seen := map[string]bool{}
		var vendorStrings []string
		for _, w := range words {
			if seen[w] || len(w) == 0 || len(w) > 24 {
				continue
			}
			seen[w] = true
			for _, sep := range []string{";", ":", "-", "##", "/", " "} {
				for n := 0; n <= 6; n++ {
					f := make([]string, n)
					for i := range f {
						f[i] = []string{"DCS-7050S-64", "01.23", "", "x", "JPE12221671", "7"}[(i+n)%6]
					}
					d := w + strings.Join(f, sep)
					if strings.HasSuffix(w, sep) || n == 0 {
						vendorStrings = append(vendorStrings, d)
					} else {
						vendorStrings = append(vendorStrings, w+sep+strings.Join(f, sep))
					}
				}
			}
		}
		// fields that are themselves dictionary words, with and without their separator (a key without a value)
		var short []string
		for w := range seen {
			if len(w) <= 6 {
				short = append(short, strings.TrimRight(w, ":;-#/ "))
			}
		}
		sort.Strings(short)
		for _, a := range short {
			for _, b := range short {
				if a == "" || b == "" {
					continue
				}
				vendorStrings = append(vendorStrings, a+":1;"+b, a+";"+b+":1", a+":"+b, a, a+";")
			}
		}
		r.Count(fmt.Sprintf("vendor-strings=%d", len(vendorStrings)))
		for i, d := range vendorStrings {
			if len(d) > 200 {
				continue
			}
			ent := uint32([]int{0, 1271, 30065, 33049, 2636, 6027, 9}[i%7])
			b := []byte(d)
			v6try(append([]byte{1, 1, 2, 3}, tlvb(16, append(w32(ent), append(w16(len(b)), b...)...))...))
			v6try(append([]byte{1, 1, 2, 3}, tlvb(17, append(w32(ent), tlvb(uint16(1+i%3), b)...))...))
			if i%4 == 0 {
				v6try(append(append([]byte{12, 0}, make([]byte, 32)...), tlvb(9, append([]byte{1, 1, 2, 3}, tlvb(16, append(w32(ent), append(w16(len(b)), b...)...))...))...))
			}
			opts := map[byte][]byte{53: {1}, 60: b}
			if i%3 == 0 {
				opts[43] = b
			}
			if (i%5 == 0 || len(b) < 16) && len(b) < 200 {
				opts[124] = append(append(w32(ent), byte(len(b))), b...)
				opts[125] = append(append(w32(ent), byte(len(b)+2)), append([]byte{1, byte(len(b))}, b...)...)
			}
			pb := pktOfArgs(r.randPkt(opts)).ToBytes()
			var p4 *dhcpv4.DHCPv4
			entry("dhcpv4.FromBytes", pb, func() {
				if x, err := dhcpv4.FromBytes(append([]byte{}, pb...)); err == nil {
					p4 = x
				}
			})
			if p4 != nil {
				obs += observeV4(r, pb, p4)
			}
		}
	}
	// every DHCPv4 option code with values of 0..3 octets (whatever typed reader, printer or extractor exists for it -
	// or is added - meets the empty and the too-short value)
	for c := 1; c <= 254; c++ {
		for n := 0; n <= 3; n++ {
			pb := pktOfArgs(r.randPkt(map[byte][]byte{53: {byte(r.Pick(1, 2, 5))}, byte(c): r.Bytes(n)})).ToBytes()
			var p4 *dhcpv4.DHCPv4
			entry("dhcpv4.FromBytes", pb, func() {
				if x, err := dhcpv4.FromBytes(append([]byte{}, pb...)); err == nil {
					p4 = x
				}
			})
			if p4 != nil {
				obs += observeV4(r, pb, p4)
			}
		}
	}
	// ---- netboot conversations (sequences of 0..4 decoded messages)
	for i := 0; i < r.N(400, 20000); i++ {
		var conv []dhcpv6.DHCPv6
		for k := r.Rng.Intn(5); k > 0 && len(v6msgs) > 0; k-- {
			conv = append(conv, v6msgs[r.Rng.Intn(len(v6msgs))])
		}
		if r.Rng.Intn(3) == 0 { // reply-only / advertise-only shapes
			_, w := r.netbootMsg(byte(r.Pick(2, 7, 7)))
			if m, err := dhcpv6.FromBytes(w); err == nil {
				conv = append(conv, m)
			}
		}
		guard(r, "netboot.ConversationToNetconf", nil, func() { netboot.ConversationToNetconf(conv) })
		obs++
	}
	// ---- labels, architectures, DUIDs, raw frames
	for i := 0; i < r.N(2000, 200000); i++ {
		b := r.Bytes(r.Rng.Intn(80))
		if i%2 == 0 {
			for j := range b {
				b[j] = byte(r.Pick(0, 1, 2, 3, 63, 64, 0xc0, 0xc1, 0xff, 'a', int(b[j])))
			}
		}
		r.Add(eLabelFrom, b)
		entry("rfc1035label.FromBytes", b, func() {
			if l, err := rfc1035label.FromBytes(append([]byte{}, b...)); err == nil {
				_ = l.String()
				_ = l.ToBytes()
				_ = l.Length()
			}
		})
		entry("iana.Archs.FromBytes", b, func() {
			var a iana.Archs
			if a.FromBytes(append([]byte{}, b...)) == nil {
				_ = a.String()
				_ = a.ToBytes()
			}
		})
		if i%4 == 0 {
			r.Add(eV6DUID, b)
		}
	}
	for i := 0; i < r.N(1500, 100000); i++ {
		s := frameSpec{ihl: r.Pick(5, 5, 5, 6, 15, 0, 4), proto: byte(r.Pick(17, 17, 17, 6)), version: byte(r.Pick(4, 4, 4, 6)), sip: r.Bytes(4), dip: r.Bytes(4), sport: 67, dport: 68, truncateTo: -1}
		s.payload = r.Bytes(r.Pick(0, 1, 7, 8, 9, 300))
		s.tlenDelta = r.Pick(0, 0, -1, -4, -8, -9, -20, 5, -len(s.payload)-8, -len(s.payload)-4)
		s.trailing = r.Pick(0, 0, 18)
		f := buildFrame(s)
		if r.Rng.Intn(4) == 0 {
			f = r.mutate(f)
		}
		args := [][]byte{{1}, nil, {0, 68}, {2, 64}, f}
		r.Add(eRawRead, args...)
		if RunGo(Case{eRawRead, args}) == "panic" {
			r.Fail("panic:BroadcastRawUDPConn.ReadFrom", hx(f), "raw frame reader panicked")
		}
	}
	// raw frames, swept: every header-length nibble x frame lengths around the header sizes x total-length fields at
	// their extremes (0, 1, just below / at / above the header and frame lengths, 0xffff) x UDP length fields likewise
	{
		bound := [][]byte{{1}, nil, {0, 68}, {2, 64}}
		k := 0
		for ihl := 0; ihl <= 15; ihl++ {
			for _, flen := range []int{0, 1, 19, 20, 21, 27, 28, 29, 36, 40, 59, 60, 61, 67, 68, 69, 72, 100} {
				for _, tl := range []int{0, 1, 19, 20, ihl * 4, ihl*4 + 7, ihl*4 + 8, ihl*4 + 9, flen - 1, flen, flen + 1, 0xffff} {
					for _, ul := range []int{-1, 0, 7, 8, 9, 0xffff} {
						if tl < 0 {
							continue
						}
						f := make([]byte, flen)
						for i := range f {
							f[i] = byte(r.Rng.Intn(256))
						}
						if flen > 0 {
							f[0] = 0x40 | byte(ihl)
						}
						if flen > 3 {
							f[2], f[3] = byte(tl>>8), byte(tl)
						}
						if flen > 9 {
							f[6], f[7] = 0, 0
							f[9] = 17
						}
						if h := ihl * 4; h >= 20 && flen >= h+8 {
							f[h+2], f[h+3] = 0, 68
							if ul >= 0 {
								f[h+4], f[h+5] = byte(ul>>8), byte(ul)
							} else {
								n := flen - h
								f[h+4], f[h+5] = byte(n>>8), byte(n)
							}
						}
						args := append(append([][]byte{}, bound...), f)
						if RunGo(Case{eRawRead, args}) == "panic" {
							r.Fail("panic:BroadcastRawUDPConn.ReadFrom", hx(f), "raw frame reader panicked")
						}
						if k%11 == 0 {
							r.Add(eRawRead, args...)
						}
						k++
						obs++
					}
				}
			}
		}
		r.Count(fmt.Sprintf("raw-frame-sweep=%d", k))
	}
	_ = net.IPv4zero
	r.Extra["observer_calls"] = obs
	r.Extra["oracle_evaluations"] = obs
}

func minInt(a, b int) int {
	if a < b {
		return a
	}
	return b
}

// mutate applies 1..3 structure-agnostic mutations.
func (r *Run) mutate(b []byte) []byte {
	b = append([]byte{}, b...)
	for k := 1 + r.Rng.Intn(3); k > 0; k-- {
		if len(b) == 0 {
			return r.Bytes(1 + r.Rng.Intn(8))
		}
		switch r.Rng.Intn(6) {
		case 0:
			b[r.Rng.Intn(len(b))] = byte(r.Pick(0, 1, 0xff, 0x80, 0xc0, r.Rng.Intn(256)))
		case 1:
			b = b[:r.Rng.Intn(len(b)+1)]
		case 2:
			b = append(b, r.Bytes(1+r.Rng.Intn(6))...)
		case 3:
			p := r.Rng.Intn(len(b))
			b[p] ^= 1 << uint(r.Rng.Intn(8))
		case 4: // duplicate a slice
			p := r.Rng.Intn(len(b))
			q := p + r.Rng.Intn(len(b)-p)
			b = append(append(append([]byte{}, b[:q]...), b[p:q]...), b[q:]...)
		case 5: // delete a slice
			p := r.Rng.Intn(len(b))
			q := p + r.Rng.Intn(len(b)-p)
			b = append(append([]byte{}, b[:p]...), b[q:]...)
		}
	}
	return b
}

// v4 packets whose options are well-formed for the typed accessors and the ztp/netboot extractors
func (r *Run) v4WithTypedOptions() []byte {
	opts := map[byte][]byte{}
	for _, c := range []byte{1, 3, 6, 12, 15, 43, 51, 53, 54, 55, 60, 61, 66, 67, 77, 82, 93, 119, 121, 124, 125, 252} {
		if r.Rng.Intn(3) == 0 {
			continue
		}
		switch c {
		case 60:
			opts[c] = []byte(r.pickStr("Arista;DCS-7050S-64;01.23;JPE12221671", "ZPESystems:NSC:001234567", "Juniper-ptx1000-DD576", "Juniper-qfx10008", "Juniper-", "Cisco;8800;12.34;FOC00000000", "Arista;x", "x"))
		case 43:
			opts[c] = []byte(r.pickStr("Arista;DCS-7050S-64;01.23;JPE12221671", "\x01\x05abcde", ""))
		case 82:
			opts[c] = []byte(r.pickStr("\x01\x13Ethernet1/2/3:10.0.0", "\x01\x02ab\x02\x03cde", "\x01", "\x01\xff", "\x01\x0aet-1/2/3.45"))
		default:
			opts[c] = r.valueFor(map[byte]byte{1: 12, 3: 2, 6: 2, 51: 5, 53: 9, 54: 1, 55: 10, 77: 13, 93: 15, 119: 16, 121: 17, 124: 14}[c], r.Pick(0, 1, 4, 8, 9, 20))
		}
	}
	return pktOfArgs(r.randPkt(opts)).ToBytes()
}

func (r *Run) pickStr(xs ...string) string { return xs[r.Rng.Intn(len(xs))] }

// v6 messages aimed at the ztpv6 / netboot / ExtractMAC paths
func (r *Run) v6Special() []byte {
	var ow []byte
	if r.Rng.Intn(2) == 0 {
		d := []byte(r.pickStr("Arista;DCS-7050S-64;01.23;JPE12221671", "1271-23422Z11-123", "1271-x", "ZPESystems:NSC:001234567", "Cisco;8800;12.34", ""))
		ow = append(ow, tlvb(16, append(w32(uint32(r.Pick(1271, 30065, 0))), append(w16(len(d)), d...)...))...)
	}
	if r.Rng.Intn(2) == 0 {
		d := []byte(r.pickStr("Arista;DCS-7050S-64;01.23;JPE12221671", "x"))
		ow = append(ow, tlvb(17, append(w32(uint32(r.Pick(33049, 30065, 6027))), tlvb(uint16(r.Pick(1, 2, 5)), d)...))...)
	}
	if r.Rng.Intn(2) == 0 {
		ow = append(ow, tlvb(1, append([]byte{0, byte(r.Pick(1, 2, 3, 4, 9))}, r.Bytes(r.Pick(0, 2, 8, 16))...))...)
	}
	if r.Rng.Intn(2) == 0 {
		ow = append(ow, tlvb(37, append(w32(uint32(r.Pick(1271, 0))), []byte(r.pickStr("Ethernet1/2/3:10", "ab", ""))...))...)
	}
	if r.Rng.Intn(2) == 0 {
		ow = append(ow, tlvb(59, []byte("http://x/y"))...)
		ow = append(ow, tlvb(23, r.Bytes(16*r.Rng.Intn(3)))...)
	}
	if r.Rng.Intn(2) == 0 {
		ia := append(append(append(r.Bytes(4), w32(1)...), w32(2)...), tlvb(5, append(append(r.Addr16(), w32(3)...), w32(4)...))...)
		ow = append(ow, tlvb(3, ia)...)
	}
	inner := append([]byte{byte(r.Pick(1, 2, 3, 7)), 1, 2, 3}, ow...)
	if r.Rng.Intn(2) == 0 {
		peer := r.Addr16()
		if r.Rng.Intn(2) == 0 {
			copy(peer, []byte{0xfe, 0x80, 0, 0, 0, 0, 0, 0, 0x02, 0x11, 0x22, 0xff, 0xfe, 0x33, 0x44, 0x55})
		}
		relayOpts := tlvb(9, inner)
		if r.Rng.Intn(2) == 0 {
			relayOpts = append(tlvb(16, append(w32(1271), append(w16(17), []byte("1271-23422Z11-123")...)...)), relayOpts...)
		}
		if r.Rng.Intn(2) == 0 {
			relayOpts = append(relayOpts, tlvb(79, append([]byte{0, 1}, r.Bytes(r.Pick(0, 6))...))...)
		}
		return append(append(append([]byte{12, 0}, r.Addr16()...), peer...), relayOpts...)
	}
	return inner
}

func (r *Run) netbootMsg(t byte) (dhcpv6.DHCPv6, []byte) {
	var ow []byte
	if r.Rng.Intn(2) == 0 {
		ow = append(ow, tlvb(59, []byte("tftp://h/f"))...)
	}
	ia := append(append(append(r.Bytes(4), w32(1)...), w32(2)...), tlvb(5, append(append(r.Addr16(), w32(3)...), w32(4)...))...)
	if r.Rng.Intn(3) != 0 {
		ow = append(ow, tlvb(3, ia)...)
	}
	if r.Rng.Intn(3) != 0 {
		ow = append(ow, tlvb(23, r.Addr16())...)
	}
	w := append([]byte{t, 9, 9, 9}, ow...)
	m, _ := dhcpv6.FromBytes(w)
	return m, w
}


// sourceStrings: the string literals of the non-test Go files of the given package directories (a fuzzing
// dictionary taken from the code under test on every run)
// sourceInts: the distinct integer literals (below 2^32) in the codec packages' own source, read from the tree under
// test: a dictionary for the numeric generators.
var srcInts []uint64
var srcIntsOnce sync.Once

func sourceInts() []uint64 {
	srcIntsOnce.Do(func() {
		repo := os.Getenv("VERIF_REPO")
		if repo == "" {
			return
		}
		seen := map[uint64]bool{}
		fset := token.NewFileSet()
		for _, d := range []string{"dhcpv4", "dhcpv6", "iana", "rfc1035label", "dhcpv4/nclient4", "dhcpv6/nclient6"} {
			files, _ := filepath.Glob(filepath.Join(repo, d, "*.go"))
			sort.Strings(files)
			for _, f := range files {
				if strings.HasSuffix(f, "_test.go") {
					continue
				}
				af, err := parser.ParseFile(fset, f, nil, 0)
				if err != nil {
					continue
				}
				ast.Inspect(af, func(n ast.Node) bool {
					if bl, ok := n.(*ast.BasicLit); ok && bl.Kind == token.INT {
						if v, err := strconv.ParseUint(bl.Value, 0, 64); err == nil && v < 1<<32 && !seen[v] {
							seen[v] = true
							srcInts = append(srcInts, v)
						}
					}
					return true
				})
			}
		}
		sort.Slice(srcInts, func(i, j int) bool { return srcInts[i] < srcInts[j] })
	})
	return srcInts
}

func sourceStrings(repo string, dirs ...string) []string {
	var out []string
	if repo == "" {
		return out
	}
	fset := token.NewFileSet()
	for _, d := range dirs {
		files, _ := filepath.Glob(filepath.Join(repo, d, "*.go"))
		sort.Strings(files)
		for _, f := range files {
			if strings.HasSuffix(f, "_test.go") {
				continue
			}
			af, err := parser.ParseFile(fset, f, nil, 0)
			if err != nil {
				continue
			}
			ast.Inspect(af, func(n ast.Node) bool {
				if bl, ok := n.(*ast.BasicLit); ok && bl.Kind == token.STRING {
					if v, err := strconv.Unquote(bl.Value); err == nil && len(v) > 0 && len(v) <= 24 && !strings.ContainsAny(v, "%\n ") {
						out = append(out, v)
					}
				}
				return true
			})
		}
	}
	return out
}
