(** C09 — Decoding cost is bounded: linear size, at most quadratic work. *)
From DV Require Import Base.Bytes Label.Model Cost.Labels V4.Model V6.Model V6.Wf Cost.Size Cost.Copy.

(** The domain-name decoder is where expansion could occur (compression
    pointers, unterminated chains, runs of empty names).  For EVERY byte
    string it accepts: each name is at most 253 octets and there is at most
    one name per input octet (+1), so the decoded value is bounded by a fixed
    multiple of the input ... *)
Theorem C09_names_size : forall b ns, labels_from_bytes b = Ok ns ->
  Forall (fun n => length n <= 253) ns /\ length ns <= length b + 1.
Proof. exact labels_size. Qed.
Print Assumptions C09_names_size.

Theorem C09_names_total_size : forall b ns, labels_from_bytes b = Ok ns -> total_len ns <= 253 * (length b + 1).
Proof. exact labels_total_size. Qed.
Print Assumptions C09_names_total_size.

(** ... and the work — loop iterations of the main loop plus all pointer
    excursions, each touching one label (<= 191 octets) — is linear: at most
    255 iterations per pointer, 257 per input octet *)
Theorem C09_pointer_excursion_bounded : forall fuel b pos lbl, small lbl -> exc_steps fuel b pos lbl + length lbl <= 255.
Proof. exact exc_steps_bound. Qed.
Print Assumptions C09_pointer_excursion_bounded.

Theorem C09_names_work : forall b, main_steps (S (length b)) b 0 [] <= 257 * length b + 1.
Proof. exact labels_work. Qed.
Print Assumptions C09_names_work.

(** Retained size of whole decoded values, for EVERY accepted byte string and
    any nesting depth.  [osize]/[msg_size]/[size4] count the octets of every
    field of the decoded value (byte strings by their length, numbers by their
    wire width, names by their length plus one, the kept original bytes of a
    label set once) plus four per option node. *)
Theorem C09_v6_size : forall b m, dec_msg b = Ok m -> msg_size m <= 256 * length b.
Proof. exact dec_msg_size. Qed.
Print Assumptions C09_v6_size.

Theorem C09_v6_option_size : forall f code data o, dec_opt f code data = Ok o -> osize o <= 260 + 256 * length data.
Proof. exact dec_opt_size. Qed.
Print Assumptions C09_v6_option_size.

Theorem C09_v4_size : forall b p, dec4 b = Ok p -> size4 p <= length b.
Proof. exact dec4_size. Qed.
Print Assumptions C09_v4_size.

(** Copy volume of nested decoding: every container level takes a private copy of its value before parsing its
    sub-options, every leaf copies what it keeps; charging each node of the decoded value once per level above it,
    for EVERY accepted byte string the octets copied are at most (2 + nesting depth) x 256 per input octet - the
    "depth x n" term of the bound, with no exponential or quadratic-in-length blow-up hidden in the nesting. *)
Theorem C09_v6_copy_volume : forall b m, dec_msg b = Ok m -> cvol_msg m <= (2 + depth_msg m) * (256 * length b).
Proof. exact dec_msg_copy_volume. Qed.
Print Assumptions C09_v6_copy_volume.

Theorem C09_v6_option_copy_volume : forall o, cvol o <= (1 + depth o) * osize o.
Proof. exact cvol_le. Qed.
Print Assumptions C09_v6_option_copy_volume.

(** C09_partial: what remains a measurement is the ALLOCATION of the Go code
    (octets allocated while decoding and re-encoding, one copy of the remainder
    per nesting level), checked by the harness against the explicit bound
    alloc <= 1500 n + depth n + 4096 (and the deep size of the Go value against
    300 n + 4096). *)
Example C09_example_fan :
  match labels_from_bytes ([x01; x61; x00] ++ flat_map (fun _ => [xc0; x00]) (seq 0 40)) with
  | Ok ns => length ns = 41 | _ => False end.
Proof. vm_compute. reflexivity. Qed.
