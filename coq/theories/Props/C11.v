(** C11 — Client calls always complete: timeout, cancellation, Close and cleanup. *)
From Coq Require Import List ZArith Lia Bool.
Import ListNotations.
From DV Require Import Client.Call Client.Routing.
Local Open Scope Z_scope.

(** every call returns no later than its retry schedule allows, for EVERY
    stream of delivered datagrams (accepted or not) and every cancel/close instant *)
Theorem C11_deadline : forall n s tau cancel close ds, 0 <= tau ->
  end_time (run_call false n s tau cancel close ds) <= endt n s tau.
Proof. exact call_deadline. Qed.
Print Assumptions C11_deadline.

(** it returns at once with the context's error when its context ends ... *)
Theorem C11_cancel : forall n s tau c ds, 0 <= tau -> all_rejected ds -> s <= c -> c < endt n s tau ->
  result (run_call false n s tau (Some c) None ds) = CtxError /\ end_time (run_call false n s tau (Some c) None ds) = c.
Proof. exact cancel_returns_at_once. Qed.
Print Assumptions C11_cancel.

(** ... with the no-response error when the client is closed ... *)
Theorem C11_close : forall n s tau k ds, 0 <= tau -> all_rejected ds -> s <= k -> k < endt n s tau ->
  result (run_call false n s tau None (Some k) ds) = NoResponse /\ end_time (run_call false n s tau None (Some k) ds) = k.
Proof. exact close_returns_at_once. Qed.
Print Assumptions C11_close.

(** ... and with the response as soon as an acceptable one arrives *)
Theorem C11_first_acceptable : forall ds t rest deadline tau,
  all_rejected ds -> Forall (fun d => fst d < t) ds -> t < deadline ->
  try false deadline tau None None (ds ++ (t, true) :: rest) = TryGot t.
Proof. exact first_acceptable_returned. Qed.
Print Assumptions C11_first_acceptable.

(** for EVERY delivery stream and every cancel/close instant, at the level of the whole call (all tries):
    a call that returns a response returns, at its arrival instant, an accepted datagram of its stream,
    and every datagram delivered to the call before it was rejected by the matcher — the first acceptable one *)
Theorem C11_response_is_first_acceptable : forall n s tau cancel close ds,
  result (run_call false n s tau cancel close ds) = Got ->
  exists pre rest, ds = pre ++ (end_time (run_call false n s tau cancel close ds), true) :: rest /\ all_rejected pre.
Proof. exact got_is_first_acceptable. Qed.
Print Assumptions C11_response_is_first_acceptable.

(** when a call has returned (its cancel has run) its transaction id is not pending: immediately reusable *)
Theorem C11_reusable : forall (evs : list event) (i : nat),
  let s := run_events true evs in
  cancelled s i = true -> forall x, entry_xid s i = Some x -> pending_owner s x <> Some i.
Proof. exact cancelled_not_pending. Qed.
Print Assumptions C11_reusable.

(** the pinned tree violated the deadline: budget 150, return at 4150 *)
Theorem C11_refuted_on_pinned_code : end_time (run_call true 2 0 50 None None spam) = 4150 /\ endt 2 0 50 = 150.
Proof. split; [exact (proj2 pinned_code_refuted) | reflexivity]. Qed.
Print Assumptions C11_refuted_on_pinned_code.
