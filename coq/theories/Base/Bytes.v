(** Octets, byte strings, big-endian fields. *)
From Coq Require Export List NArith ZArith Lia Bool.
From Coq.Strings Require Export Byte.
From Coq Require Export ZifyN ZifyNat ZifyBool.
Export ListNotations.
Ltac Zify.zify_post_hook ::= Z.div_mod_to_equations.

Definition bytes := list byte.

Definition b2n (b : byte) : N := Byte.to_N b.
Definition n2b (n : N) : byte :=
  match Byte.of_N (n mod 256) with Some b => b | None => x00 end.
Definition bnat (b : byte) : nat := N.to_nat (b2n b).

Lemma b2n_lt b : (b2n b < 256)%N.
Proof. unfold b2n. pose proof (Byte.to_N_bounded b). lia. Qed.

Lemma bnat_lt b : bnat b < 256.
Proof. unfold bnat. pose proof (b2n_lt b). lia. Qed.

Lemma b2n_n2b n : b2n (n2b n) = (n mod 256)%N.
Proof.
  unfold n2b, b2n. destruct (Byte.of_N (n mod 256)) as [b|] eqn:E.
  - apply Byte.to_of_N; exact E.
  - apply Byte.of_N_None_iff in E. lia.
Qed.

Lemma n2b_b2n b : n2b (b2n b) = b.
Proof.
  unfold n2b, b2n. pose proof (Byte.to_N_bounded b).
  rewrite N.mod_small by lia. rewrite Byte.of_to_N. reflexivity.
Qed.

Lemma b2n_inj a b : b2n a = b2n b -> a = b.
Proof. intros H. rewrite <- (n2b_b2n a), <- (n2b_b2n b), H. reflexivity. Qed.

Lemma n2b_small n : (n < 256)%N -> b2n (n2b n) = n.
Proof. intros. rewrite b2n_n2b. apply N.mod_small; lia. Qed.

Definition beqb (a b : byte) : bool := Byte.eqb a b.
Lemma beqb_eq a b : beqb a b = true <-> a = b.
Proof. split; [apply Byte.byte_dec_bl | apply Byte.byte_dec_lb]. Qed.
Lemma beqb_neq a b : beqb a b = false <-> a <> b.
Proof.
  split.
  - apply Byte.eqb_false.
  - intros H. destruct (beqb a b) eqn:E; [apply beqb_eq in E; contradiction | reflexivity].
Qed.

Fixpoint bytes_eqb (a b : bytes) : bool :=
  match a, b with
  | [], [] => true
  | x :: a', y :: b' => beqb x y && bytes_eqb a' b'
  | _, _ => false
  end.
Lemma bytes_eqb_eq a b : bytes_eqb a b = true <-> a = b.
Proof.
  revert b; induction a as [|x a IH]; intros [|y b]; cbn; split; intros H; try congruence.
  - apply andb_true_iff in H. destruct H as [H1 H2]. apply beqb_eq in H1. apply IH in H2. congruence.
  - injection H as -> ->. apply andb_true_iff. split; [apply beqb_eq; reflexivity | apply IH; reflexivity].
Qed.

(** Big-endian fields (the value is truncated to the field width, as Go's
    uint16(...)/uint32(...) conversions do). *)
Definition be16 (n : N) : bytes := [n2b (n / 256); n2b n].
Definition be24 (n : N) : bytes := [n2b (n / 65536); n2b (n / 256); n2b n].
Definition be32 (n : N) : bytes := [n2b (n / 16777216); n2b (n / 65536); n2b (n / 256); n2b n].

Definition rd16 (a b : byte) : N := (b2n a * 256 + b2n b)%N.
Definition rd24 (a b c : byte) : N := (b2n a * 65536 + b2n b * 256 + b2n c)%N.
Definition rd32 (a b c d : byte) : N :=
  (b2n a * 16777216 + b2n b * 65536 + b2n c * 256 + b2n d)%N.

Lemma rd16_lt a b : (rd16 a b < 65536)%N.
Proof. unfold rd16. pose proof (b2n_lt a). pose proof (b2n_lt b). lia. Qed.
Lemma rd24_lt a b c : (rd24 a b c < 16777216)%N.
Proof. unfold rd24. pose proof (b2n_lt a). pose proof (b2n_lt b). pose proof (b2n_lt c). lia. Qed.
Lemma rd32_lt a b c d : (rd32 a b c d < 4294967296)%N.
Proof. unfold rd32. pose proof (b2n_lt a). pose proof (b2n_lt b). pose proof (b2n_lt c). pose proof (b2n_lt d). lia. Qed.

Lemma rd16_be16 n : (n < 65536)%N ->
  match be16 n with [a; b] => rd16 a b = n | _ => False end.
Proof. intros H. cbn. unfold rd16. rewrite !b2n_n2b. lia. Qed.

Lemma be16_rd16 a b : be16 (rd16 a b) = [a; b].
Proof.
  unfold be16, rd16. pose proof (b2n_lt a). pose proof (b2n_lt b).
  f_equal; [|f_equal]; apply b2n_inj; rewrite b2n_n2b; lia.
Qed.

Lemma rd24_be24 n : (n < 16777216)%N ->
  match be24 n with [a; b; c] => rd24 a b c = n | _ => False end.
Proof. intros H. cbn. unfold rd24. rewrite !b2n_n2b. lia. Qed.

Lemma be24_rd24 a b c : be24 (rd24 a b c) = [a; b; c].
Proof.
  unfold be24, rd24. pose proof (b2n_lt a). pose proof (b2n_lt b). pose proof (b2n_lt c).
  repeat (f_equal; try (apply b2n_inj; rewrite b2n_n2b; lia)).
Qed.

Lemma rd32_be32 n : (n < 4294967296)%N ->
  match be32 n with [a; b; c; d] => rd32 a b c d = n | _ => False end.
Proof. intros H. cbn. unfold rd32. rewrite !b2n_n2b. lia. Qed.

Lemma be32_rd32 a b c d : be32 (rd32 a b c d) = [a; b; c; d].
Proof.
  unfold be32, rd32. pose proof (b2n_lt a). pose proof (b2n_lt b). pose proof (b2n_lt c). pose proof (b2n_lt d).
  repeat (f_equal; try (apply b2n_inj; rewrite b2n_n2b; lia)).
Qed.

Lemma be16_length n : length (be16 n) = 2. Proof. reflexivity. Qed.
Lemma be32_length n : length (be32 n) = 4. Proof. reflexivity. Qed.

(** Go slicing [b[pos:pos+n]] when in range. *)
Definition slice (b : bytes) (pos n : nat) : bytes := firstn n (skipn pos b).

Lemma slice_length b pos n : pos + n <= length b -> length (slice b pos n) = n.
Proof. intros H. unfold slice. rewrite firstn_length, skipn_length. lia. Qed.

Definition zeros (n : nat) : bytes := repeat x00 n.
Lemma zeros_length n : length (zeros n) = n. Proof. apply repeat_length. Qed.

(** results of partial Go operations *)
Inductive res (A : Type) : Type :=
| Ok (a : A)
| Err          (* the Go function returned a non-nil error *)
| Panic        (* the Go function would panic *)
| Fuel.        (* model ran out of fuel: excluded by theorem *)
Arguments Ok {A}. Arguments Err {A}. Arguments Panic {A}. Arguments Fuel {A}.

Definition bind {A B} (r : res A) (f : A -> res B) : res B :=
  match r with Ok a => f a | Err => Err | Panic => Panic | Fuel => Fuel end.
Notation "'let*' x ':=' r 'in' k" := (bind r (fun x => k)) (at level 200, x pattern, r at level 100, k at level 200).

Definition rmap {A B} (f : A -> B) (r : res A) : res B := bind r (fun a => Ok (f a)).

(** sequential reads: the next [n] octets and the rest, or [None] when short *)
Definition take (n : nat) (l : bytes) : option (bytes * bytes) :=
  if n <=? length l then Some (firstn n l, skipn n l) else None.

Lemma take_app a r n : length a = n -> take n (a ++ r) = Some (a, r).
Proof.
  intros <-. unfold take. rewrite app_length.
  assert (H : (length a <=? length a + length r) = true) by (apply Nat.leb_le; lia). rewrite H.
  rewrite firstn_app, Nat.sub_diag, firstn_all, firstn_O, app_nil_r.
  rewrite skipn_app, Nat.sub_diag, skipn_all. reflexivity.
Qed.

Lemma take_inv n l a r : take n l = Some (a, r) -> l = a ++ r /\ length a = n.
Proof.
  unfold take. destruct (n <=? length l) eqn:E; [|discriminate]. intros [= <- <-].
  apply Nat.leb_le in E. rewrite firstn_skipn, firstn_length. split; [reflexivity | lia].
Qed.

Lemma take_none n l : take n l = None <-> length l < n.
Proof.
  unfold take. destruct (n <=? length l) eqn:E.
  - apply Nat.leb_le in E. split; [discriminate | lia].
  - apply Nat.leb_gt in E. split; auto.
Qed.

Definition of_opt {A} (o : option A) : res A := match o with Some a => Ok a | None => Err end.

(** big-endian value of a byte string *)
Definition n_of_be (b : bytes) : N := fold_left (fun a x => (a * 256 + b2n x)%N) b 0%N.
Lemma n_of_be_be16 n : (n < 65536)%N -> n_of_be (be16 n) = n.
Proof. intros H. pose proof (rd16_be16 n H) as K. cbn in *. unfold rd16 in K. lia. Qed.
Lemma n_of_be_be32 n : (n < 4294967296)%N -> n_of_be (be32 n) = n.
Proof. intros H. pose proof (rd32_be32 n H) as K. cbn in *. unfold rd32 in K. lia. Qed.

Lemma Ok_inj {A} (a b : A) : Ok a = Ok b -> a = b.
Proof. intros H. injection H as H. exact H. Qed.

(** Go's nil slice ([None]) read as a byte string *)
Definition obytes (o : option bytes) : bytes := match o with None => [] | Some b => b end.
Definition nil_marker (o : option bytes) : bytes := match o with None => [x00] | Some _ => [x01] end.
