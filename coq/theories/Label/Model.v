(** rfc1035label: executable model of labelsFromBytes / labelToBytes /
    labelsToBytes / Labels.FromBytes / Labels.ToBytes (rfc1035label/label.go).
    Names (Go strings) are byte strings. *)
From DV Require Import Base.Bytes.

Definition dot : byte := "."%byte.
Definition is_ptr (c : byte) : bool := 192 <=? bnat c.    (* length&0xc0 == 0xc0 *)
Definition max_name_len : nat := 253.                    (* maxNameLen *)

(** label += "." (if non-empty); label += chunk *)
Definition join (lbl chunk : bytes) : bytes :=
  match lbl with [] => chunk | _ => lbl ++ dot :: chunk end.

(** buf[i] as Go evaluates it: out of range panics. *)
Definition idx (b : bytes) (i : nat) : res byte :=
  match nth_error b i with Some c => Ok c | None => Panic end.
(** buf[pos:pos+n]: panics unless pos+n <= len. *)
Definition sub (b : bytes) (pos n : nat) : res bytes :=
  if pos + n <=? length b then Ok (slice b pos n) else Panic.

(** labels = append(labels, label) at end of input only if label != "" *)
Definition fin (acc : list bytes) (lbl : bytes) : list bytes :=
  match lbl with [] => acc | _ => acc ++ [lbl] end.

(** The loop while [handlingPointer] is set: it ends by jumping back
    ([ExcBack], the name is complete), by running off the buffer ([ExcEnd],
    the whole decode ends) or with an error. *)
Inductive exc_out := ExcBack (l : bytes) | ExcEnd (l : bytes) | ExcRes (r : res unit).

Fixpoint exc (fuel : nat) (b : bytes) (pos : nat) (lbl : bytes) : exc_out :=
  match fuel with
  | O => ExcRes Fuel
  | S f =>
    if length b <=? pos then ExcEnd lbl
    else match idx b pos with
    | Ok c =>
      let n := bnat c in
      if n =? 0 then ExcBack lbl
      else if is_ptr c then ExcRes Err                 (* nested pointers *)
      else if length b <? pos + 1 + n then ExcRes Err  (* ErrBufferTooShort *)
      else match sub b (pos + 1) n with
           | Ok chunk =>
             let lbl' := join lbl chunk in
             if max_name_len <? length lbl' then ExcRes Err   (* ErrNameTooLong *)
             else exc f b (pos + 1 + n) lbl'
           | _ => ExcRes Panic
           end
    | _ => ExcRes Panic
    end
  end.

Fixpoint main (fuel : nat) (b : bytes) (pos : nat) (lbl : bytes) (acc : list bytes) : res (list bytes) :=
  match fuel with
  | O => Fuel
  | S f =>
    if length b <=? pos then Ok (fin acc lbl)
    else match idx b pos with
    | Ok c =>
      let n := bnat c in
      if n =? 0 then main f b (pos + 1) [] (acc ++ [lbl])
      else if is_ptr c then
        if length b <? pos + 1 + 1 then Err              (* pointer buffer too short *)
        else match idx b (pos + 1) with
        | Ok c2 =>
          let off := (n - 192) * 256 + bnat c2 in
          match exc (S (length b)) b off lbl with
          | ExcBack l => main f b (pos + 2) [] (acc ++ [l])
          | ExcEnd l => Ok (fin acc l)
          | ExcRes Err => Err
          | ExcRes Fuel => Fuel
          | ExcRes _ => Panic
          end
        | _ => Panic
        end
      else if length b <? pos + 1 + n then Err
      else match sub b (pos + 1) n with
           | Ok chunk =>
             let lbl' := join lbl chunk in
             if max_name_len <? length lbl' then Err
             else main f b (pos + 1 + n) lbl' acc
           | _ => Panic
           end
    | _ => Panic
    end
  end.

Definition labels_from_bytes (b : bytes) : res (list bytes) :=
  main (S (length b)) b 0 [] [].

(** strings.Split(label, ".") *)
Fixpoint split_dot_aux (cur : bytes) (s : bytes) : list bytes :=
  match s with
  | [] => [rev cur]
  | c :: s' => if beqb c dot then rev cur :: split_dot_aux [] s' else split_dot_aux (c :: cur) s'
  end.
Definition split_dot (s : bytes) : list bytes := split_dot_aux [] s.

Definition len_byte (p : bytes) : byte := n2b (N.of_nat (length p)).   (* byte(len(part)) *)

Definition label_to_bytes (name : bytes) : bytes :=
  match name with
  | [] => [x00]
  | _ => flat_map (fun p => len_byte p :: p) (split_dot name) ++ [x00]
  end.
Definition labels_to_bytes (ns : list bytes) : bytes := flat_map label_to_bytes ns.

(** Labels value.  [original = None] is Go's nil slice. *)
Record labels := mkLabels { original : option bytes; names : list bytes }.

Definition labels_from (data : option bytes) : res labels :=
  let b := match data with Some b => b | None => [] end in
  let* ns := labels_from_bytes b in
  Ok (mkLabels data ns).                     (* bytes.Clone keeps nil-ness *)

Fixpoint same (a b : list bytes) : bool :=
  match a, b with
  | [], [] => true
  | x :: a', y :: b' => bytes_eqb x y && same a' b'
  | _, _ => false
  end.

Definition labels_to (l : labels) : option bytes :=
  let ob := match original l with Some b => b | None => [] end in
  match labels_from_bytes ob with
  | Ok ons =>
    match original l with
    | Some _ => if same ons (names l) then original l else Some (labels_to_bytes (names l))
    | None => Some (labels_to_bytes (names l))
    end
  | _ => original l
  end.
