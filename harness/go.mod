module verif/harness

go 1.26

require github.com/insomniacslk/dhcp v0.0.0

require (
	github.com/josharian/native v1.1.0 // indirect
	github.com/jsimonetti/rtnetlink v1.3.5 // indirect
	github.com/mdlayher/netlink v1.7.2 // indirect
	github.com/mdlayher/packet v1.1.2 // indirect
	github.com/mdlayher/socket v0.4.1 // indirect
	github.com/pierrec/lz4/v4 v4.1.14 // indirect
	github.com/u-root/uio v0.0.0-20230220225925-ffce2a382923 // indirect
	golang.org/x/net v0.38.0 // indirect
	golang.org/x/sync v0.3.0 // indirect
	golang.org/x/sys v0.31.0 // indirect
)

replace github.com/insomniacslk/dhcp => /repo
