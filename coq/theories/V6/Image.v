(** Facts about every value the DHCPv6 decoder can return (at any nesting
    level): the option's constructor is the one the ParseOption table assigns
    to its code (so the typed accessors' unchecked type assertions cannot fail
    on decoded messages), and re-encoding it cannot panic. *)
From DV Require Import Base.Bytes Label.Model V4.Model V4.OptProofs V4.Proofs V4.RoundTrip V4.Canon V4.Fixpoint
                       V6.Model V6.Total V6.Wf.

Lemma classify_inv code k : classify code = k -> k <> KGeneric -> In (code, k) dispatch_table.
Proof.
  intros H Hk. destruct code as [|p]; [cbn in H; congruence|].
  unfold classify in H.
  do 8 (try (destruct p as [p|p|]; try (subst k; first [congruence | (cbn; tauto)]))).
  all: try (subst k; first [congruence | (cbn; tauto)]).
  all: try (destruct p; subst k; congruence).
Qed.

Definition kind_of (o : opt6) : okind :=
  match o with
  | OClientID _ => KClientID | OServerID _ => KServerID | OIANA _ _ _ _ => KIANA | OIATA _ _ => KIATA
  | OIAAddr _ _ _ _ => KIAAddr | OORO _ => KORO | OElapsed _ => KElapsed
  | ORelayMsgM _ _ _ | ORelayMsgR _ _ _ _ _ => KRelayMsg | OStatus _ _ => KStatus
  | OUserClass _ => KUserClass | OVendorClass _ _ => KVendorClass | OVendorOpts _ _ => KVendorOpts
  | OInterfaceID _ => KInterfaceID | ODNS _ => KDNS | ODomainList _ => KDomainList | OIAPD _ _ _ _ => KIAPD
  | OIAPrefix _ _ _ _ => KIAPrefix | OInfoRefresh _ => KInfoRefresh | ORemoteID _ _ => KRemoteID
  | OFQDN _ _ => KFQDN | ONTP _ => KNTP | OBootURL _ => KBootURL | OBootParam _ => KBootParam
  | OArch _ => KArch | ONII _ _ _ => KNII | OClientLL _ _ => KClientLL | ODHCPv4 _ => KDHCPv4
  | O4o6 _ => K4o6 | O4RD _ => K4RD | O4RDMap _ _ _ _ _ _ => K4RDMap | O4RDNonMap _ _ _ => K4RDNonMap
  | ORelayPort _ => KRelayPort | OGeneric _ _ => KGeneric
  end.

Lemma classify_opt_code code o : classify code = kind_of o -> kind_of o <> KGeneric -> opt_code o = code.
Proof.
  intros H Hk. apply classify_inv in H; [|exact Hk]. clear Hk.
  destruct o; cbn [kind_of opt_code] in *; cbn [dispatch_table In] in H;
    repeat (destruct H as [H|H]; [injection H as <-; try discriminate; reflexivity|]); try contradiction;
    try (injection H as <-; reflexivity).
Qed.

(** the typed constructor of every decoded option is the table's *)
Fixpoint tags_ok (o : opt6) : Prop :=
  let all := fix all (l : list opt6) : Prop := match l with [] => True | x :: r => tags_ok x /\ all r end in
  match o with
  | OGeneric c _ => classify c = KGeneric
  | OIANA _ _ _ os | OIATA _ os | OIAAddr _ _ _ os | ORelayMsgM _ _ os | ORelayMsgR _ _ _ _ os
  | OIAPD _ _ _ os | OIAPrefix _ _ _ os | O4RD os => all os
  | _ => True
  end.
Fixpoint tags_ok_list (l : list opt6) : Prop := match l with [] => True | x :: r => tags_ok x /\ tags_ok_list r end.

Definition image_ok (o : opt6) : Prop := tags_ok o /\ opt_panics o = false.

Lemma tlv_loop_forall {A} (parse : N -> bytes -> res A) (P : A -> Prop) :
  (forall c d v, parse c d = Ok v -> P v) ->
  forall f b vals, tlv_loop parse f b = Ok vals -> Forall P vals.
Proof.
  intros HP. induction f as [|f IH]; intros b vals; cbn [tlv_loop]; [discriminate|].
  destruct b as [|c1 [|c2 [|l1 [|l2 r]]]]; try discriminate.
  - intros [= <-]. constructor.
  - destruct (rd_n _ r) as [[v r']| | |]; cbn [bind]; try discriminate.
    destruct (parse (rd16 c1 c2) v) as [o| | |] eqn:E; cbn [bind]; try discriminate.
    destruct (tlv_loop parse f r') as [os| | |] eqn:L; cbn [bind]; try discriminate.
    intros [= <-]. constructor; [eapply HP; eauto | eapply IH; eauto].
Qed.

Lemma image_list os : Forall image_ok os -> tags_ok_list os /\ existsb opt_panics os = false.
Proof.
  induction 1 as [|x r [Hx1 Hx2] F [IH1 IH2]]; [split; [exact I | reflexivity]|].
  cbn [tags_ok_list existsb]. rewrite Hx2, IH2. auto.
Qed.

Lemma tags_nested os :
  (forall i t1 t2, tags_ok (OIANA i t1 t2 os) = tags_ok_list os) /\
  (forall i, tags_ok (OIATA i os) = tags_ok_list os) /\
  (forall a p v, tags_ok (OIAAddr a p v os) = tags_ok_list os) /\
  (forall t x, tags_ok (ORelayMsgM t x os) = tags_ok_list os) /\
  (forall t h l p, tags_ok (ORelayMsgR t h l p os) = tags_ok_list os) /\
  (forall i t1 t2, tags_ok (OIAPD i t1 t2 os) = tags_ok_list os) /\
  (forall p v pre, tags_ok (OIAPrefix p v pre os) = tags_ok_list os) /\
  tags_ok (O4RD os) = tags_ok_list os.
Proof. repeat split. Qed.

Lemma dec4_no_panic data p : dec4 data = Ok p -> (match enc4 p with Ok _ => false | _ => true end) = false.
Proof. intros H. destruct (fixpoint4 data p H) as (b1 & m2 & E & _). rewrite E. reflexivity. Qed.

Ltac peel H :=
  repeat match type of H with
  | bind ?r _ = Ok _ => let E := fresh "E" in destruct r eqn:E; cbn [bind] in H; try discriminate H
  | context [match ?p with pair _ _ => _ end] => is_var p; destruct p
  | (if ?c then _ else _) = Ok _ => let C := fresh "C" in destruct c eqn:C; try discriminate H
  | (match ?d with nil => _ | cons _ _ => _ end) = Ok _ => destruct d; try discriminate H
  end.

Theorem dec_opt_image : forall f code data o, dec_opt f code data = Ok o ->
  opt_code o = code /\ image_ok o.
Proof.
  induction f as [|f IH]; intros code data o H; [discriminate|]. cbn [dec_opt] in H.
  assert (OPTS : forall r os, dec_tlvs (dec_opt f) r = Ok os -> tags_ok_list os /\ existsb opt_panics os = false).
  { intros r os Hr. apply image_list. unfold dec_tlvs in Hr.
    eapply tlv_loop_forall; [|exact Hr]. intros c d v Hv. apply (IH c d v Hv). }
  destruct (classify code) eqn:K.
  all: try (peel H; injection H as <-;
            split; [apply classify_opt_code; [exact K | discriminate] | split; [exact I | reflexivity]]).
  all: try (peel H; injection H as <-;
            match goal with E : dec_tlvs _ _ = Ok ?os |- _ =>
              destruct (OPTS _ _ E) as [T P]; destruct (tags_nested os) as (T1 & T2 & T3 & T4 & T5 & T6 & T7 & T8);
              split; [apply classify_opt_code; [exact K | discriminate]
                     | split; [rewrite ?T1, ?T2, ?T3, ?T4, ?T5, ?T6, ?T7, ?T8; exact T | exact P]]
            end).
  - (* relay message *)
    destruct (dec_msg_with _ data) as [m| | |] eqn:E; cbn [bind] in H; try discriminate.
    injection H as <-. unfold dec_msg_with in E.
    peel E; injection E as <-;
      match goal with E' : dec_tlvs _ _ = Ok ?os |- _ =>
        destruct (OPTS _ _ E') as [T P]; destruct (tags_nested os) as (T1 & T2 & T3 & T4 & T5 & T6 & T7 & T8);
        (split; [apply classify_opt_code; [exact K | discriminate]
                | split; [rewrite ?T4, ?T5; exact T | exact P]])
      end.
  - (* DHCPv4 message *)
    peel H. injection H as <-. split; [apply classify_opt_code; [exact K | discriminate]|].
    split; [exact I|]. cbn [opt_panics]. eapply dec4_no_panic; eauto.
  - (* generic *)
    injection H as <-. split; [reflexivity|]. split; [exact K | reflexivity].
Qed.

Theorem dec_msg_image b m : dec_msg b = Ok m ->
  tags_ok_list (match m with Msg _ _ os | Relay _ _ _ _ os => os end) /\ msg_panics m = false.
Proof.
  unfold dec_msg, dec_msg_with, dec_opts. intros H.
  assert (OPTS : forall r os, dec_tlvs (dec_opt (S (length b))) r = Ok os -> tags_ok_list os /\ existsb opt_panics os = false).
  { intros r os Hr. apply image_list. unfold dec_tlvs in Hr.
    eapply tlv_loop_forall; [|exact Hr]. intros c d v Hv. apply (dec_opt_image _ c d v Hv). }
  peel H; injection H as <-; cbn [msg_panics];
    match goal with E : dec_tlvs _ _ = Ok ?os |- _ => exact (OPTS _ _ E) end.
Qed.

(** re-encoding any decoded message cannot panic *)
Corollary reencode_never_panics b m : dec_msg b = Ok m -> msg_panics m = false.
Proof. intros H. exact (proj2 (dec_msg_image b m H)). Qed.
