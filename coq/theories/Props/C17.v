(** C17 — DHCPv4 typed accessors agree with the raw option bytes. *)
From DV Require Import Base.Bytes Label.Model V4.Model V4.OptProofs V6.Model V6.Total V4.Accessors V4.AccProofs.

(** Every accessor is a function of [get_opt] (absent, or present with Go's nil
    value = None): for ALL raw values of any length it returns the RFC
    reading when the value is well-formed for its type and the default
    otherwise — never a partial or misaligned value. *)

(** addresses, masks: exactly 4 octets *)
Theorem C17_ip : forall g, acc_ip g = match g with Some v => if length v =? 4 then Some v else None | None => None end.
Proof. exact acc_ip_spec. Qed.
Print Assumptions C17_ip.
(** address lists: non-empty concatenations of 4-octet addresses, nothing else *)
Theorem C17_ips : forall g l, acc_ips g = Some l <->
  exists v, g = Some v /\ v <> [] /\ v = concat l /\ Forall (fun a => length a = 4) l.
Proof. exact acc_ips_spec. Qed.
Print Assumptions C17_ips.
(** durations (lease, renewal, rebinding, IPv6-only): exactly 4 octets, big-endian seconds *)
Theorem C17_duration : forall g n, acc_duration g = Some n <-> exists a b c d, g = Some [a; b; c; d] /\ n = rd32 a b c d.
Proof. exact acc_duration_spec. Qed.
Print Assumptions C17_duration.
Theorem C17_u16 : forall g n, acc_u16 g = Some n <-> exists a b, g = Some [a; b] /\ n = rd16 a b.
Proof. exact acc_u16_spec. Qed.
Print Assumptions C17_u16.
Theorem C17_u8 : forall g n, acc_u8 g = Some n <-> exists a, g = Some [a] /\ n = b2n a.
Proof. exact acc_u8_spec. Qed.
Print Assumptions C17_u8.
(** user class (RFC 3004): non-empty tiling by (length >= 1, data) items ... *)
Theorem C17_strings : forall v l, strings_from v = Ok l <->
  v <> [] /\ v = flat_map enc_str l /\ Forall (fun x => 1 <= length x <= 255) l.
Proof. exact strings_exact. Qed.
Print Assumptions C17_strings.
(** ... else the documented fallback: the raw value as a single string *)
Theorem C17_user_class : forall g, acc_user_class g =
  match g with None => None | Some v => match strings_from v with Ok l => Some l | _ => Some [v] end end.
Proof. exact acc_user_class_spec. Qed.
Print Assumptions C17_user_class.
(** classless static routes (RFC 3442): width <= 32, ceil(width/8) significant octets, 4-octet router, tiling *)
Theorem C17_routes : forall v l, routes_from v = Ok l <-> v = flat_map enc_route l /\ Forall wf_route l.
Proof. exact routes_exact. Qed.
Print Assumptions C17_routes.
(** vendor-identifying vendor classes *)
Theorem C17_vivc : forall v l, vivc_from v = Ok l <-> v = flat_map enc_vivc l /\ Forall wf_vivc l.
Proof. exact vivc_exact. Qed.
Print Assumptions C17_vivc.
(** relay agent sub-options: exactly the option-area grammar without the End requirement *)
Theorem C17_relay_agent : forall v m, v <> [] -> (acc_relay (Some v) = Some m <-> exists e, area_denotes v [] m e).
Proof. exact acc_relay_spec. Qed.
Print Assumptions C17_relay_agent.
Theorem C17_domain_search : forall g ns, acc_domain_search g = Some ns <-> exists v, g = Some v /\ labels_from_bytes v = Ok ns.
Proof. exact acc_domain_search_spec. Qed.
Print Assumptions C17_domain_search.

(** set through the typed constructor, read back *)
Theorem C17_set_get_ip : forall ip, length ip = 4 -> acc_ip (Some ip) = Some ip.
Proof. exact set_get_ip. Qed.
Print Assumptions C17_set_get_ip.
Theorem C17_set_get_duration : forall n, (n < 4294967296)%N -> acc_duration (Some (be32 n)) = Some n.
Proof. exact set_get_duration. Qed.
Print Assumptions C17_set_get_duration.
Theorem C17_set_get_ips : forall l, l <> [] -> Forall (fun a => length a = 4) l -> acc_ips (Some (concat l)) = Some l.
Proof. exact set_get_ips. Qed.
Print Assumptions C17_set_get_ips.
Theorem C17_set_get_strings : forall l, l <> [] -> Forall (fun x => 1 <= length x <= 255) l ->
  acc_user_class (Some (flat_map enc_str l)) = Some l.
Proof. exact set_get_strings. Qed.
Print Assumptions C17_set_get_strings.
Theorem C17_set_get_routes : forall l, Forall wf_route l -> acc_routes (Some (flat_map enc_route l)) = Some l.
Proof. exact set_get_routes. Qed.
Print Assumptions C17_set_get_routes.

(** the truncated sub-option found while reading (F11) is now the default *)
Example C17_example_truncated_suboption : acc_relay (Some [x01]) = None /\ acc_ip (Some [x01; x02; x03; x04; x05]) = None
  /\ acc_duration (Some [x00; x00; x0e]) = None /\ routes_from [n2b 33; x0a; x00; x00; x00; x00; x01; x02; x03; x04] = Err.
Proof. repeat split. Qed.
