(** C14: the serving loops of server4 and server6
    (dhcpv4/server4/server.go:75-114, dhcpv6/server6/server.go:77-104) as
    functions of the sequence of results of conn.ReadFrom. *)
From DV Require Import Base.Bytes V4.Model V6.Model.

Inductive peer := PeerUDP (ip : goip) (port : N) | PeerOther.
Inductive read_result := Datagram (b : bytes) (p : peer) | ReadError.

Definition read_buf_size : nat := 4096.

(** limited broadcast with the sender's port when the sender has no address *)
Definition ipv4bcast : bytes := v4_in_v6_prefix ++ [xff; xff; xff; xff].
Definition is_zero_v4 (ip : bytes) : bool :=
  match to4 ip with Some b4 => bytes_eqb b4 (zeros 4) | None => false end.
Definition rewrite_peer (ip : goip) (port : N) : bytes * N :=
  match ip with
  | None => (ipv4bcast, port)
  | Some b => if is_zero_v4 b then (ipv4bcast, port) else (b, port)
  end.

Record invocation4 := mkInv4 { i4_msg : pkt4; i4_ip : bytes; i4_port : N }.

(** the loop, iteration by iteration: a read error returns (and the deferred
    Close runs); a parse error continues; a non-UDP peer continues; otherwise
    the handler is started with the decoded message *)
Fixpoint serve4 (reads : list read_result) (acc : list invocation4) : list invocation4 * bool :=
  match reads with
  | [] => (acc, false)                         (* still blocked in ReadFrom *)
  | ReadError :: _ => (acc, true)              (* Serve returned *)
  | Datagram b p :: r =>
    match dec4 (firstn read_buf_size b) with
    | Ok m =>
      match p with
      | PeerUDP ip port => let (a, pt) := rewrite_peer ip port in serve4 r (acc ++ [mkInv4 m a pt])
      | PeerOther => serve4 r acc
      end
    | _ => serve4 r acc                        (* continue *)
    end
  end.

Record invocation6 := mkInv6 { i6_msg : msg6; i6_peer : peer }.
Fixpoint serve6 (reads : list read_result) (acc : list invocation6) : list invocation6 * bool :=
  match reads with
  | [] => (acc, false)
  | ReadError :: _ => (acc, true)
  | Datagram b p :: r =>
    match dec_msg (firstn read_buf_size b) with
    | Ok m => serve6 r (acc ++ [mkInv6 m p])
    | _ => serve6 r acc
    end
  end.

(** * specification: one invocation per decodable datagram before the first read error, in order *)
Fixpoint before_error (reads : list read_result) : list (bytes * peer) :=
  match reads with
  | Datagram b p :: r => (b, p) :: before_error r
  | _ => []
  end.

Definition inv4_of (bp : bytes * peer) : list invocation4 :=
  match dec4 (firstn read_buf_size (fst bp)), snd bp with
  | Ok m, PeerUDP ip port => let (a, pt) := rewrite_peer ip port in [mkInv4 m a pt]
  | _, _ => []
  end.
Definition inv6_of (bp : bytes * peer) : list invocation6 :=
  match dec_msg (firstn read_buf_size (fst bp)) with Ok m => [mkInv6 m (snd bp)] | _ => [] end.

Theorem serve4_spec : forall reads acc,
  fst (serve4 reads acc) = acc ++ flat_map inv4_of (before_error reads) /\
  snd (serve4 reads acc) = existsb (fun r => match r with ReadError => true | _ => false end) reads.
Proof.
  induction reads as [|[b p|] r IH]; intros acc; cbn [serve4 before_error flat_map existsb].
  - rewrite app_nil_r. split; reflexivity.
  - unfold inv4_of at 1. cbn [fst snd].
    destruct (dec4 (firstn read_buf_size b)) as [m| | |]; cbn [orb]; try (rewrite (proj1 (IH acc)), (proj2 (IH acc)); split; reflexivity).
    destruct p as [ip port|].
    + destruct (rewrite_peer ip port) as [a pt].
      rewrite (proj1 (IH _)), (proj2 (IH _)), <- app_assoc. split; reflexivity.
    + rewrite (proj1 (IH acc)), (proj2 (IH acc)). split; reflexivity.
  - rewrite app_nil_r. split; reflexivity.
Qed.

Theorem serve6_spec : forall reads acc,
  fst (serve6 reads acc) = acc ++ flat_map inv6_of (before_error reads) /\
  snd (serve6 reads acc) = existsb (fun r => match r with ReadError => true | _ => false end) reads.
Proof.
  induction reads as [|[b p|] r IH]; intros acc; cbn [serve6 before_error flat_map existsb].
  - rewrite app_nil_r. split; reflexivity.
  - unfold inv6_of at 1. cbn [fst snd].
    destruct (dec_msg (firstn read_buf_size b)) as [m| | |]; cbn [orb]; try (rewrite (proj1 (IH acc)), (proj2 (IH acc)); split; reflexivity).
    rewrite (proj1 (IH _)), (proj2 (IH _)), <- app_assoc. split; reflexivity.
  - rewrite app_nil_r. split; reflexivity.
Qed.

(** a malformed datagram never stops the loop: datagrams after it are still served *)
Corollary malformed_does_not_stop4 b p r acc : (forall m, dec4 (firstn read_buf_size b) <> Ok m) ->
  serve4 (Datagram b p :: r) acc = serve4 r acc.
Proof. intros H. cbn [serve4]. destruct (dec4 (firstn read_buf_size b)) as [m| | |]; [destruct (H m eq_refl) | reflexivity..]. Qed.
Corollary malformed_does_not_stop6 b p r acc : (forall m, dec_msg (firstn read_buf_size b) <> Ok m) ->
  serve6 (Datagram b p :: r) acc = serve6 r acc.
Proof. intros H. cbn [serve6]. destruct (dec_msg (firstn read_buf_size b)) as [m| | |]; [destruct (H m eq_refl) | reflexivity..]. Qed.

(** each invocation's message depends only on its own datagram *)
Corollary invocation_independent4 reads1 reads2 b p :
  forall m a pt, inv4_of (b, p) = [mkInv4 m a pt] ->
  In (mkInv4 m a pt) (fst (serve4 (map (fun x => x) reads1 ++ Datagram b p :: reads2) [])) \/
  existsb (fun r => match r with ReadError => true | _ => false end) reads1 = true.
Proof.
  intros m a pt H. destruct (existsb _ reads1) eqn:E; [right; reflexivity|]. left.
  rewrite map_id. rewrite (proj1 (serve4_spec _ [])). cbn [app].
  assert (G : forall l, existsb (fun r => match r with ReadError => true | _ => false end) l = false ->
              before_error (l ++ Datagram b p :: reads2) = before_error l ++ (b, p) :: before_error reads2).
  { induction l as [|[b' p'|] l IHl]; cbn; intros Hl; [reflexivity | rewrite IHl by exact Hl; reflexivity | discriminate]. }
  rewrite (G reads1 E). rewrite flat_map_app. apply in_or_app. right. cbn [flat_map]. rewrite H. left. reflexivity.
Qed.

(** * exactly once, as a count: the number of handler invocations equals the number of datagrams read
    before the first read error that decode (DHCPv4: and come from a UDP peer) *)
Lemma flat_map_count {A B} (f : A -> list B) (g : A -> bool) :
  (forall x, length (f x) = if g x then 1 else 0) -> forall l, length (flat_map f l) = length (filter g l).
Proof.
  intros H. induction l as [|x l IH]; [reflexivity|]. cbn [flat_map filter]. rewrite app_length, H, IH.
  destruct (g x); reflexivity.
Qed.

Definition dispatchable4 (bp : bytes * peer) : bool :=
  match dec4 (firstn read_buf_size (fst bp)), snd bp with Ok _, PeerUDP _ _ => true | _, _ => false end.
Definition dispatchable6 (bp : bytes * peer) : bool :=
  match dec_msg (firstn read_buf_size (fst bp)) with Ok _ => true | _ => false end.

Theorem serve4_count : forall reads,
  length (fst (serve4 reads [])) = length (filter dispatchable4 (before_error reads)).
Proof.
  intros reads. rewrite (proj1 (serve4_spec reads [])). cbn [app]. apply flat_map_count.
  intros [b p]. unfold inv4_of, dispatchable4. cbn [fst snd].
  destruct (dec4 (firstn read_buf_size b)) as [m| | |]; try reflexivity.
  destruct p as [ip port|]; [destruct (rewrite_peer ip port); reflexivity | reflexivity].
Qed.

Theorem serve6_count : forall reads,
  length (fst (serve6 reads [])) = length (filter dispatchable6 (before_error reads)).
Proof.
  intros reads. rewrite (proj1 (serve6_spec reads [])). cbn [app]. apply flat_map_count.
  intros [b p]. unfold inv6_of, dispatchable6. cbn [fst snd].
  destruct (dec_msg (firstn read_buf_size b)) as [m| | |]; reflexivity.
Qed.
