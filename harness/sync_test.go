package main

// Client / server harness under testing/synctest (virtual time, deterministic
// scheduling points).  Built with `go test -c`; TestSync is the entry point and
// takes the same parameters as the main harness through the environment.

import (
	"strings"
	"context"
	"errors"
	"fmt"
	"net"
	"os"
	"sync"
	"testing"
	"testing/synctest"
	"time"

	"github.com/insomniacslk/dhcp/dhcpv4"
	"github.com/insomniacslk/dhcp/dhcpv4/nclient4"
	"github.com/insomniacslk/dhcp/dhcpv6"
	"github.com/insomniacslk/dhcp/dhcpv6/nclient6"
)

var syncT *testing.T

func TestSync(t *testing.T) {
	prop, tier, out := os.Getenv("VERIF_PROP"), os.Getenv("VERIF_TIER"), os.Getenv("VERIF_OUT")
	if prop == "" {
		t.Skip("VERIF_PROP not set")
	}
	var seed int64
	fmt.Sscan(os.Getenv("VERIF_SEED"), &seed)
	gen, ok := props[prop]
	if !ok {
		t.Fatalf("unknown property %s", prop)
	}
	syncT = t
	if devnull, err := os.OpenFile(os.DevNull, os.O_WRONLY, 0); err == nil {
		os.Stderr = devnull // the clients' optional loggers write there
	}
	r := NewRun(prop, tier, seed)
	currentRun = r
	gen(r)
	if err := r.Write(out); err != nil {
		t.Fatal(err)
	}
}

// runBubble runs one scenario under virtual time.  A scenario that panics, or that is still not finished after
// 20 s of REAL time (goroutines waiting for a mutex are invisible to the bubble's deadlock detection), is recorded
// as a failure of the property under test - with the scenario's description - and abandoned.
type bubbleProblem struct{ note, msg string }

var (
	bubbleProblems []bubbleProblem
	bubbleNote     string // set by the scenario functions: what is being run
	currentRun     *Run
)

func runBubble(f func(t *testing.T)) {
	note := bubbleNote
	if len(bubbleProblems) > 0 {
		return // a scenario is stuck: its goroutines are still around, nothing that follows can be trusted
	}
	record := func(msg string) {
		bubbleProblems = append(bubbleProblems, bubbleProblem{note, msg})
		if currentRun != nil {
			currentRun.Fail(strings.ToLower(currentRun.Prop)+"-scenario-stuck", note, msg)
		}
	}
	done := make(chan string, 1)
	go func() {
		defer func() {
			if x := recover(); x != nil {
				done <- fmt.Sprintf("scenario panicked: %v", x)
			}
		}()
		synctest.Test(syncT, f)
		done <- ""
	}()
	select {
	case msg := <-done:
		if msg != "" {
			record(msg)
		}
	case <-time.After(20 * time.Second):
		record("the scenario did not finish: a call, the receive loop or Close is stuck (20 s of real time, all timers are virtual)")
	}
}

// ---- scripted in-memory PacketConn living inside the bubble

type writeRec struct {
	at   time.Duration
	dest string
	data []byte
}

type labConn struct {
	in     chan []byte
	closed chan struct{}
	once   sync.Once
	mu     sync.Mutex
	writes []writeRec
	start  time.Time
	peer   net.Addr
	onWrite func(b []byte) // reaction of the scripted servers to a client transmission
	runaway bool
	reads      chan struct{} // a token each time ReadFrom is entered (used by "instant" servers to wait for the loop)
	failWrites int // the next writes fail
	closeErr   bool // Close reports an error (it still closes)
}

func newLabConn() *labConn {
	return &labConn{in: make(chan []byte), closed: make(chan struct{}), reads: make(chan struct{}, 64), start: time.Now(), peer: &net.UDPAddr{IP: net.IP{10, 0, 0, 1}, Port: 67}}
}

func (c *labConn) ReadFrom(p []byte) (int, net.Addr, error) {
	select {
	case c.reads <- struct{}{}:
	default:
	}
	select {
	case b := <-c.in:
		return copy(p, b), c.peer, nil
	case <-c.closed:
		return 0, nil, net.ErrClosed
	}
}
func (c *labConn) WriteTo(p []byte, addr net.Addr) (int, error) {
	c.mu.Lock()
	defer c.mu.Unlock()
	if c.failWrites > 0 {
		c.failWrites--
		return 0, fmt.Errorf("scripted write error (ENOBUFS)")
	}
	if len(c.writes) >= 2000 {
		// a call that keeps transmitting without ever waiting would spin forever: stop it and let the oracles report it
		c.runaway = true
		return 0, net.ErrClosed
	}
	c.writes = append(c.writes, writeRec{time.Since(c.start), addr.String(), append([]byte{}, p...)})
	if c.onWrite != nil {
		c.onWrite(append([]byte{}, p...))
	}
	return len(p), nil
}
func (c *labConn) Close() error {
	c.once.Do(func() { close(c.closed) })
	if c.closeErr {
		return fmt.Errorf("use of closed network connection")
	}
	return nil
}
func (c *labConn) LocalAddr() net.Addr                { return &net.UDPAddr{Port: 68} }
func (c *labConn) SetDeadline(t time.Time) error      { return nil }
func (c *labConn) SetReadDeadline(t time.Time) error  { return nil }
func (c *labConn) SetWriteDeadline(t time.Time) error { return nil }

// inject delivers b at virtual instant `at` (relative to the conn's start) unless the conn is closed first.
func (c *labConn) inject(at time.Duration, b []byte) {
	go func() {
		if d := at - time.Since(c.start); d > 0 {
			select {
			case <-time.After(d):
			case <-c.closed:
				return
			}
		}
		select {
		case c.in <- b:
		case <-c.closed:
		}
	}()
}

// rebase: forget what was written so far and count time from now
func (c *labConn) rebase() {
	c.mu.Lock()
	defer c.mu.Unlock()
	c.writes = nil
	c.start = time.Now()
}

// priorCalls: how many unanswered calls the client has made before the observed one (0..2, from the scenario's parameters)
func durStr(d *time.Duration) string {
	if d == nil {
		return "never"
	}
	return d.String()
}

func priorCalls(tau time.Duration, tries, nds int) int {
	if tries < 0 || tries > 5 {
		return 0 // an unanswered call with unbounded tries never ends
	}
	return (int(tau/time.Millisecond) + tries + nds) % 3
}

// companions: how many other unanswered calls overlap the observed one on the same client (0..2): the first
// starts half a timeout before it, the second half a timeout after it
func companions(tau time.Duration, tries, nds int) int {
	if tries < 2 || tries > 5 {
		return 0
	}
	return (int(tau/time.Millisecond)/2 + tries + nds) % 3
}

func (c *labConn) snapshot() []writeRec {
	c.mu.Lock()
	defer c.mu.Unlock()
	return append([]writeRec{}, c.writes...)
}

// ---- a timed call (entry 70 nclient4, 71 nclient6)

const (
	eTimedV4 = 70
	eTimedV6 = 71
)

type timedOut struct {
	tx     []time.Duration
	txData [][]byte
	txDest []string
	wantDest string // the destination the caller asked for
	result byte // 1 got, 2 no response, 3 context error, 9 other
	end    time.Duration
}

var labHW = net.HardwareAddr{2, 0, 0, 0, 0, 1}

func msArg(b []byte) time.Duration { return time.Duration(numArg(b)) * time.Millisecond }

func timedCallV4(tau time.Duration, tries int, cancelAt, closeAt *time.Duration, ds [][]byte) (out timedOut) {
	bubbleNote = fmt.Sprintf("nclient4 timed call: timeout %v, tries %d, context ends %s, close %s, deliveries %x", tau, tries, durStr(cancelAt), durStr(closeAt), ds)
	runBubble(func(t *testing.T) {
		conn := newLabConn()
		variant := (int(tau/time.Millisecond) + 2*tries + len(ds)) % 3 // which of the optional loggers is installed
		opts4 := []nclient4.ClientOpt{nclient4.WithTimeout(tau), nclient4.WithRetry(tries)}
		if variant == 1 {
			opts4 = append(opts4, nclient4.WithSummaryLogger())
		} else if variant == 2 {
			opts4 = append(opts4, nclient4.WithDebugLogger())
		}
		conn.closeErr = closeAt != nil && (*closeAt/time.Millisecond)%2 == 1 // the socket reports an error when closed (already shut by its owner)
		c, err := nclient4.NewWithConn(conn, labHW, opts4...)
		if err != nil {
			t.Fatal(err)
		}
		// a client is used for many calls: the schedule of a call does not depend on the calls made before it
		for k := priorCalls(tau, tries, len(ds)); k > 0; k-- {
			preq, _ := dhcpv4.NewDiscovery(labHW, dhcpv4.WithTransactionID(dhcpv4.TransactionID{0x11, 0x22, 0x33, byte(k)}))
			c.SendAndRead(context.Background(), &net.UDPAddr{IP: net.IPv4bcast, Port: 67}, preq, nclient4.IsMessageType(dhcpv4.MessageTypeOffer))
		}
		// ... nor on the calls that are in flight at the same time
		nc := companions(tau, tries, len(ds))
		var cwg sync.WaitGroup
		companion := func(k byte, delay time.Duration) {
			cwg.Add(1)
			go func() {
				defer cwg.Done()
				time.Sleep(delay)
				preq, _ := dhcpv4.NewDiscovery(labHW, dhcpv4.WithTransactionID(dhcpv4.TransactionID{0x44, 0x55, 0x66, k}))
				c.SendAndRead(context.Background(), &net.UDPAddr{IP: net.IPv4bcast, Port: 67}, preq, nclient4.IsMessageType(dhcpv4.MessageTypeOffer))
			}()
		}
		if nc >= 1 {
			companion(1, 0)
			time.Sleep(tau / 2)
		}
		if nc >= 2 {
			companion(2, tau/2)
		}
		conn.rebase()
		req, _ := dhcpv4.NewDiscovery(labHW, dhcpv4.WithTransactionID(dhcpv4.TransactionID{0xaa, 0xbb, 0xcc, 0xdd}),
			dhcpv4.WithRequestedOptions(dhcpv4.OptionNTPServers, dhcpv4.OptionDomainName, dhcpv4.OptionBootfileName, dhcpv4.OptionRouter)) // not in code order
		for _, d := range ds {
			at := msArg(d[:4])
			mt := dhcpv4.MessageTypeAck // rejected by the matcher
			if len(d) > 4 && d[4] == 1 {
				mt = dhcpv4.MessageTypeOffer
			}
			rep, _ := dhcpv4.NewReplyFromRequest(req, dhcpv4.WithMessageType(mt))
			if mt == dhcpv4.MessageTypeAck && (at/time.Millisecond)%2 == 1 {
				rep.TransactionID[0] ^= 0x55 // a stray datagram: nobody waits for this transaction
			}
			conn.inject(at, rep.ToBytes())
		}
		ctx, cancel := context.WithCancel(context.Background())
		defer cancel()
		// a context ends either by an explicit cancel or by reaching its own deadline (odd instants)
		byDeadline := cancelAt != nil && (*cancelAt/time.Millisecond)%2 == 1
		// ... and either kind may carry a cause of the application's own (context.WithCancelCause / WithTimeoutCause):
		// what the call returns is still the context's error
		withCause := cancelAt != nil && (*cancelAt/time.Millisecond)%4 >= 2
		if byDeadline {
			cancel()
			if withCause {
				ctx, cancel = context.WithTimeoutCause(context.Background(), *cancelAt, errors.New("lease manager shutting down"))
			} else {
				ctx, cancel = context.WithTimeout(context.Background(), *cancelAt)
			}
			defer cancel()
		}
		if cancelAt != nil && !byDeadline {
			stop := func() { cancel() }
			if withCause {
				cancel()
				var cc context.CancelCauseFunc
				ctx, cc = context.WithCancelCause(context.Background())
				stop = func() { cc(errors.New("interface went down")) }
				defer cc(nil)
			}
			go func() {
				select {
				case <-time.After(*cancelAt):
					stop()
				case <-conn.closed:
				}
			}()
		}
		finished := make(chan struct{})
		defer close(finished)
		if closeAt != nil {
			go func() {
				select {
				case <-time.After(*closeAt):
					c.Close()
				case <-finished:
				}
			}()
		}
		dest := []*net.UDPAddr{{IP: net.IPv4bcast, Port: 67}, {IP: net.IP{10, 0, 0, 1}, Port: 67}, {IP: net.IP{192, 0, 2, 9}, Port: 1067},
			{IP: net.IPv4bcast, Port: 67, Zone: "eth1"}}[(int(tau/time.Millisecond)+tries+len(ds))%4]
		out.wantDest = dest.String()
		resp, err := c.SendAndRead(ctx, dest, req, nclient4.IsMessageType(dhcpv4.MessageTypeOffer))
		out.end = time.Since(conn.start)
		switch {
		case err == nil && resp != nil:
			out.result = 1
		case errors.Is(err, nclient4.ErrNoResponse):
			out.result = 2
		case ctx.Err() != nil && errors.Is(err, ctx.Err()):
			out.result = 3
		default:
			out.result = 9
		}
		for _, w := range conn.snapshot() {
			if len(w.data) >= 8 && w.data[4] == 0x44 && w.data[5] == 0x55 && w.data[6] == 0x66 {
				continue // a companion call's transmission
			}
			out.tx = append(out.tx, w.at)
			out.txData = append(out.txData, w.data)
			out.txDest = append(out.txDest, w.dest)
		}
		reqBytes = req.ToBytes()
		c.Close()
		cwg.Wait()
		synctest.Wait()
	})
	return
}

var reqBytes []byte

func timedCallV6(tau time.Duration, tries int, cancelAt, closeAt *time.Duration, ds [][]byte) (out timedOut) {
	bubbleNote = fmt.Sprintf("nclient6 timed call: timeout %v, tries %d, context ends %s, close %s, deliveries %x", tau, tries, durStr(cancelAt), durStr(closeAt), ds)
	runBubble(func(t *testing.T) {
		conn := newLabConn()
		variant := (int(tau/time.Millisecond) + 2*tries + len(ds)) % 3
		opts6 := []nclient6.ClientOpt{nclient6.WithTimeout(tau), nclient6.WithRetry(tries)}
		if variant == 1 {
			opts6 = append(opts6, nclient6.WithSummaryLogger(), nclient6.WithLogDroppedPackets())
		} else if variant == 2 {
			opts6 = append(opts6, nclient6.WithDebugLogger(), nclient6.WithLogDroppedPackets())
		}
		conn.closeErr = closeAt != nil && (*closeAt/time.Millisecond)%2 == 1
		c, err := nclient6.NewWithConn(conn, labHW, opts6...)
		if err != nil {
			t.Fatal(err)
		}
		for k := priorCalls(tau, tries, len(ds)); k > 0; k-- {
			preq, _ := dhcpv6.NewSolicit(labHW)
			preq.TransactionID = dhcpv6.TransactionID{9, 9, byte(k)}
			c.SendAndRead(context.Background(), nclient6.AllDHCPRelayAgentsAndServers, preq, nclient6.IsMessageType(dhcpv6.MessageTypeAdvertise))
		}
		nc := companions(tau, tries, len(ds))
		var cwg sync.WaitGroup
		companion := func(k byte, delay time.Duration) {
			cwg.Add(1)
			go func() {
				defer cwg.Done()
				time.Sleep(delay)
				preq, _ := dhcpv6.NewSolicit(labHW)
				preq.TransactionID = dhcpv6.TransactionID{0x44, 0x55, k}
				c.SendAndRead(context.Background(), nclient6.AllDHCPRelayAgentsAndServers, preq, nclient6.IsMessageType(dhcpv6.MessageTypeAdvertise))
			}()
		}
		if nc >= 1 {
			companion(1, 0)
			time.Sleep(tau / 2)
		}
		if nc >= 2 {
			companion(2, tau/2)
		}
		conn.rebase()
		req, _ := dhcpv6.NewSolicit(labHW, dhcpv6.WithRequestedOptions(dhcpv6.OptionNTPServer, dhcpv6.OptionSNTPServerList, dhcpv6.OptionBootfileURL)) // not in code order
		req.TransactionID = dhcpv6.TransactionID{1, 2, 3}
		for _, d := range ds {
			at := msArg(d[:4])
			mt := dhcpv6.MessageTypeReply // rejected
			if len(d) > 4 && d[4] == 1 {
				mt = dhcpv6.MessageTypeAdvertise
			}
			rep := &dhcpv6.Message{MessageType: mt, TransactionID: req.TransactionID}
			if mt == dhcpv6.MessageTypeReply && (at/time.Millisecond)%2 == 1 {
				rep.TransactionID[0] ^= 0x55 // a stray datagram: nobody waits for this transaction
			}
			conn.inject(at, rep.ToBytes())
		}
		ctx, cancel := context.WithCancel(context.Background())
		defer cancel()
		// a context ends either by an explicit cancel or by reaching its own deadline (odd instants)
		byDeadline := cancelAt != nil && (*cancelAt/time.Millisecond)%2 == 1
		// ... and either kind may carry a cause of the application's own (context.WithCancelCause / WithTimeoutCause):
		// what the call returns is still the context's error
		withCause := cancelAt != nil && (*cancelAt/time.Millisecond)%4 >= 2
		if byDeadline {
			cancel()
			if withCause {
				ctx, cancel = context.WithTimeoutCause(context.Background(), *cancelAt, errors.New("lease manager shutting down"))
			} else {
				ctx, cancel = context.WithTimeout(context.Background(), *cancelAt)
			}
			defer cancel()
		}
		if cancelAt != nil && !byDeadline {
			stop := func() { cancel() }
			if withCause {
				cancel()
				var cc context.CancelCauseFunc
				ctx, cc = context.WithCancelCause(context.Background())
				stop = func() { cc(errors.New("interface went down")) }
				defer cc(nil)
			}
			go func() {
				select {
				case <-time.After(*cancelAt):
					stop()
				case <-conn.closed:
				}
			}()
		}
		finished := make(chan struct{})
		defer close(finished)
		if closeAt != nil {
			go func() {
				select {
				case <-time.After(*closeAt):
					c.Close()
				case <-finished:
				}
			}()
		}
		dest := []*net.UDPAddr{nclient6.AllDHCPRelayAgentsAndServers, {IP: net.ParseIP("ff02::1:2"), Port: 547, Zone: "eth0"},
			{IP: net.ParseIP("fe80::1"), Port: 547, Zone: "2"}, {IP: net.ParseIP("2001:db8::5"), Port: 1547}}[(int(tau/time.Millisecond)+tries+len(ds))%4]
		out.wantDest = dest.String()
		resp, err := c.SendAndRead(ctx, dest, req, nclient6.IsMessageType(dhcpv6.MessageTypeAdvertise))
		out.end = time.Since(conn.start)
		switch {
		case err == nil && resp != nil:
			out.result = 1
		case errors.Is(err, nclient6.ErrNoResponse):
			out.result = 2
		case ctx.Err() != nil && errors.Is(err, ctx.Err()):
			out.result = 3
		default:
			out.result = 9
		}
		for _, w := range conn.snapshot() {
			if len(w.data) >= 4 && w.data[1] == 0x44 && w.data[2] == 0x55 {
				continue // a companion call's transmission
			}
			out.tx = append(out.tx, w.at)
			out.txData = append(out.txData, w.data)
			out.txDest = append(out.txDest, w.dest)
		}
		reqBytes = req.ToBytes()
		c.Close()
		cwg.Wait()
		synctest.Wait()
	})
	return
}

func optMs(b []byte) *time.Duration {
	if len(b) == 0 {
		return nil
	}
	d := msArg(b)
	return &d
}

func timedEntry(v6 bool) EntryFn {
	return func(a [][]byte) ([][]byte, error) {
		tau := msArg(a[0])
		tries := int(int8(a[1][0]))
		f := timedCallV4
		if v6 {
			f = timedCallV6
		}
		o := f(tau, tries, optMs(a[2]), optMs(a[3]), a[4:])
		var out [][]byte
		for _, t := range o.tx {
			out = append(out, be32b(uint32(t/time.Millisecond)))
		}
		out = append(out, []byte{o.result}, be32b(uint32(o.end/time.Millisecond)))
		return out, nil
	}
}

func init() {
	register(eTimedV4, "nclient4.SendAndRead(timed)", timedEntry(false))
	register(eTimedV6, "nclient6.SendAndRead(timed)", timedEntry(true))
	props["C12"] = genC12
	props["C11"] = genC11
}

func ms32(ms int) []byte { return be32b(uint32(ms)) }

func delivery(ms int, accepted bool) []byte {
	f := byte(0)
	if accepted {
		f = 1
	}
	return append(ms32(ms), f)
}

// C12: the retransmission schedule
// helperCallDests: the lease helpers (DiscoverOffer, Solicit) send to the address the client was configured with
// (WithServerAddr / WithBroadcastAddr); that address may name an interface by its zone. Returns the destination and
// time of every transmission of one unanswered call.
func helperCallDests(v6 bool, dest *net.UDPAddr, tau time.Duration, tries int) (dests []string, at []time.Duration, err error) {
	bubbleNote = fmt.Sprintf("helper call v6=%v dest=%s T=%v n=%d", v6, dest, tau, tries)
	runBubble(func(t *testing.T) {
		conn := newLabConn()
		if v6 {
			c, e := nclient6.NewWithConn(conn, labHW, nclient6.WithTimeout(tau), nclient6.WithRetry(tries), nclient6.WithBroadcastAddr(dest))
			if e != nil {
				err = e
				return
			}
			_, err = c.Solicit(context.Background())
			c.Close()
		} else {
			c, e := nclient4.NewWithConn(conn, labHW, nclient4.WithTimeout(tau), nclient4.WithRetry(tries), nclient4.WithServerAddr(dest))
			if e != nil {
				err = e
				return
			}
			_, err = c.DiscoverOffer(context.Background())
			c.Close()
		}
		synctest.Wait()
		conn.mu.Lock()
		for _, w := range conn.writes {
			dests = append(dests, w.dest)
			at = append(at, w.at)
		}
		conn.mu.Unlock()
	})
	return
}

func genC12(r *Run) {
	evals := 0
	// the helpers' transmissions all go to the configured address, zone included
	for i, dest := range []*net.UDPAddr{
		{IP: net.ParseIP("ff02::1:2"), Port: 547, Zone: "eth0"}, {IP: net.ParseIP("fe80::1"), Port: 547, Zone: "wlan1"}, {IP: net.ParseIP("2001:db8::5"), Port: 1547},
		{IP: net.IPv4bcast, Port: 67, Zone: "eth1"}, {IP: net.IP{10, 0, 0, 1}, Port: 67}, {IP: net.IP{192, 0, 2, 7}, Port: 1067, Zone: "br0"}} {
		v6 := i < 3
		n := 1 + i%3
		dests, at, err := helperCallDests(v6, dest, 20*time.Millisecond, n)
		evals++
		cs := fmt.Sprintf("v6=%v configured destination %s, T=20ms n=%d", v6, dest, n)
		if len(dests) != n {
			r.Fail("c12-transmission-count", cs, fmt.Sprintf("%d transmissions, want %d (error %v)", len(dests), n, err))
			continue
		}
		for k := range dests {
			if dests[k] != dest.String() {
				r.Fail("c12-destination", cs, fmt.Sprintf("transmission %d went to %s, the client was configured with %s", k, dests[k], dest))
				break
			}
			if want := 20 * time.Millisecond * time.Duration((1<<uint(k))-1); at[k] != want {
				r.Fail("c12-offset", cs, fmt.Sprintf("transmission %d at %v, want %v", k, at[k], want))
				break
			}
		}
	}
	taus := []int{1, 50, 5000}
	maxN := 6
	if r.Thorough() {
		taus = []int{1, 2, 3, 7, 50, 333, 1000, 5000, 33000, 120000} // also long timeouts (doubling reaches minutes and hours)
		maxN = 9
	}
	for _, entry := range []int{eTimedV4, eTimedV6} {
		for _, tau := range taus {
			ns := []int{}
			for n := 0; n <= maxN; n++ {
				ns = append(ns, n)
			}
			if tau == 1 {
				ns = append(ns, 9, 10, 12, 13) // doubling goes on: 2^12 T between the last two of 13 tries
			}
			for _, n := range ns {
				if tau == 5000 && n > 4 && !r.Thorough() {
					continue
				}
				// (a) silence
				add := func(cancel, closeAt []byte, ds ...[]byte) {
					args := append([][]byte{ms32(tau), {byte(n)}, cancel, closeAt}, ds...)
					r.Add(entry, args...)
				}
				add(nil, nil)
				// direct oracle: exact schedule, identical bytes, same destination, no-response error at T(2^n - 1)
				f := timedCallV4
				if entry == eTimedV6 {
					f = timedCallV6
				}
				check := func(what string, ds [][]byte) {
					o := f(time.Duration(tau)*time.Millisecond, n, nil, nil, ds)
					evals++
					cs := fmt.Sprintf("entry=%d T=%dms n=%d %s", entry, tau, n, what)
					if len(o.tx) != n {
						r.Fail("c12-transmission-count", cs, fmt.Sprintf("%d transmissions, want %d: %v", len(o.tx), n, o.tx))
						return
					}
					for k, at := range o.tx {
						want := time.Duration(tau*((1<<uint(k))-1)) * time.Millisecond
						if at != want {
							r.Fail("c12-offset", cs, fmt.Sprintf("transmission %d at %v, want %v (all: %v)", k, at, want, o.tx))
							return
						}
						if !bytesEq(o.txData[k], reqBytes) {
							r.Fail("c12-retransmitted-bytes-differ", cs, fmt.Sprintf("transmission %d differs from the request's encoding", k))
						}
						if o.txDest[k] != o.wantDest {
							r.Fail("c12-destination", cs, fmt.Sprintf("transmission %d went to %s, the caller asked for %s", k, o.txDest[k], o.wantDest))
						}
					}
					wantEnd := time.Duration(tau*((1<<uint(n))-1)) * time.Millisecond
					if o.result != 2 || o.end != wantEnd {
						r.Fail("c12-failure-instant", cs, fmt.Sprintf("result %d at %v, want no-response at %v", o.result, o.end, wantEnd))
					}
				}
				check("silence", nil)
				// (b) rejected same-id datagrams at periods T/3, T, 2T (offset so that no instant coincides with a deadline)
				if n >= 1 {
					total := tau * ((1 << uint(n)) - 1)
					for _, per := range []int{maxInt(tau/3, 1), tau, 2 * tau} {
						if total/per > 400 {
							continue
						}
						var ds [][]byte
						for at := per; at < total; at += per {
							if isDeadline(at, tau, n) {
								continue
							}
							ds = append(ds, delivery(at, false))
						}
						if tau >= 3 {
							add(nil, nil, ds...)
							check(fmt.Sprintf("rejected every %dms", per), ds)
						}
					}
				}
				// (c) accepted response during try k at several offsets
				for k := 0; k < n; k++ {
					startK := tau * ((1 << uint(k)) - 1)
					lenK := tau * (1 << uint(k))
					for _, frac := range []int{1, 25, 50, 75, 99} {
						at := startK + lenK*frac/100
						if at <= startK || at >= startK+lenK {
							continue
						}
						ds := [][]byte{delivery(at, true)}
						add(nil, nil, ds...)
						o := f(time.Duration(tau)*time.Millisecond, n, nil, nil, ds)
						evals++
						if o.result != 1 || o.end != time.Duration(at)*time.Millisecond || len(o.tx) != k+1 {
							r.Fail("c12-accepted-response", fmt.Sprintf("entry=%d T=%d n=%d accepted at %dms (try %d)", entry, tau, n, at, k),
								fmt.Sprintf("result %d at %v with %d transmissions", o.result, o.end, len(o.tx)))
						}
					}
				}
			}
			// negative try count: retries until cancelled
			cancelAt := tau*((1<<5)-1) + tau/2 + 1
			args := [][]byte{ms32(tau), {0xff}, ms32(cancelAt), nil}
			f := timedCallV4
			if entry == eTimedV6 {
				f = timedCallV6
			}
			ca := time.Duration(cancelAt) * time.Millisecond
			o := f(time.Duration(tau)*time.Millisecond, -1, &ca, nil, nil)
			evals++
			okSched := len(o.tx) >= 5
			for k, at := range o.tx {
				if at != time.Duration(tau*((1<<uint(k))-1))*time.Millisecond {
					okSched = false
				}
			}
			if !okSched || o.result != 3 || o.end != ca {
				r.Fail("c12-negative-tries", fmt.Sprintf("entry=%d T=%d n=-1 cancel at %v", entry, tau, ca), fmt.Sprintf("tx %v result %d end %v", o.tx, o.result, o.end))
			}
			_ = args
		}
	}
	r.Extra["oracle_evaluations"] = evals
}

func isDeadline(at, tau, n int) bool {
	for k := 0; k <= n; k++ {
		if at == tau*((1<<uint(k))-1) {
			return true
		}
	}
	return false
}

func bytesEq(a, b []byte) bool {
	if len(a) != len(b) {
		return false
	}
	for i := range a {
		if a[i] != b[i] {
			return false
		}
	}
	return true
}

// C11: completion under every traffic pattern, cancellation and Close
// helperCtxEnd: the lease helpers are calls too - a context that ends while a helper waits ends the helper, whichever
// of its exchanges is in flight. The scripted server answers the SOLICIT / DISCOVER (with an ADVERTISE / OFFER) and then
// falls silent; the context is cancelled 50 ms after the second message (REQUEST) went out. Returns when the helper
// returned, when the context was cancelled, and the helper's error.
func helperCtxEnd(v6 bool, rapid bool) (end, cancelled time.Duration, err error) {
	bubbleNote = fmt.Sprintf("lease helper v6=%v rapid=%v, server silent after its first answer, context cancelled during the second exchange", v6, rapid)
	runBubble(func(t *testing.T) {
		conn := newLabConn()
		ctx, cancel := context.WithCancel(context.Background())
		defer cancel()
		nw := 0
		conn.onWrite = func(b []byte) {
			nw++
			if nw == 1 {
				var rep []byte
				if v6 {
					if m, e := dhcpv6.MessageFromBytes(b); e == nil {
						adv, _ := dhcpv6.NewAdvertiseFromSolicit(m, dhcpv6.WithServerID(&dhcpv6.DUIDLL{HWType: 1, LinkLayerAddr: net.HardwareAddr{2, 0, 0, 0, 0, 9}}))
						if ia := m.Options.OneIANA(); ia != nil {
							adv.AddOption(ia)
						}
						rep = adv.ToBytes()
					}
				} else if m, e := dhcpv4.FromBytes(b); e == nil {
					off, _ := dhcpv4.NewReplyFromRequest(m, dhcpv4.WithMessageType(dhcpv4.MessageTypeOffer), dhcpv4.WithYourIP(net.IP{192, 168, 0, 9}), dhcpv4.WithOption(dhcpv4.OptServerIdentifier(net.IP{10, 0, 0, 1})))
					rep = off.ToBytes()
				}
				if rep != nil {
					conn.inject(time.Since(conn.start)+10*time.Millisecond, rep)
				}
			}
			if nw == 2 {
				go func() {
					select {
					case <-time.After(50 * time.Millisecond):
						cancelled = time.Since(conn.start)
						cancel()
					case <-conn.closed:
					}
				}()
			}
		}
		if v6 {
			c, _ := nclient6.NewWithConn(conn, labHW, nclient6.WithTimeout(2*time.Second), nclient6.WithRetry(2))
			if rapid {
				_, err = c.RapidSolicit(ctx)
			} else {
				var adv *dhcpv6.Message
				if adv, err = c.Solicit(ctx); err == nil {
					_, err = c.Request(ctx, adv)
				}
			}
			end = time.Since(conn.start)
			c.Close()
		} else {
			c, _ := nclient4.NewWithConn(conn, labHW, nclient4.WithTimeout(2*time.Second), nclient4.WithRetry(2))
			_, err = c.Request(ctx)
			end = time.Since(conn.start)
			c.Close()
		}
		synctest.Wait()
	})
	return
}

func genC11(r *Run) {
	evals := 0
	for _, mode := range [][2]bool{{true, true}, {true, false}, {false, false}} {
		end, cancelled, err := helperCtxEnd(mode[0], mode[1])
		evals++
		cs := fmt.Sprintf("lease helper (v6=%v, RapidSolicit=%v): the server answers the first message and then nothing; the context is cancelled 50 ms after the REQUEST went out (T = 2 s, 2 tries)", mode[0], mode[1])
		if cancelled == 0 {
			r.Fail("c11-helper-context-end", cs, fmt.Sprintf("the second exchange never started (helper returned %v at %v)", err, end))
			continue
		}
		if end != cancelled || !errors.Is(err, context.Canceled) {
			r.Fail("c11-helper-context-end", cs, fmt.Sprintf("context cancelled at %v, the helper returned at %v with %v", cancelled, end, err))
		}
	}
	// a call ends only for one of its own reasons, also when another call on the same id has just ended: call B takes
	// the id of call A while A returns with a full buffer (B started before or after A's return); B must still be
	// waiting when its answer arrives and end with that answer
	for _, v6 := range []bool{false, true} {
		for k := 0; k < r.N(40, 1000); k++ {
			a, b := reuseAfterFullBufferMode(v6, k%2 == 0)
			evals++
			if a.status == 1 && (b.status != 1 || b.payload != 99) {
				r.Fail("c11-call-ended-without-cause", fmt.Sprintf("v6=%v: call B reuses the id of call A, which returns with a full buffer and a parked datagram (B started %s A returned); B's answer arrives afterwards (round %d)", v6, map[bool]string{true: "before", false: "after"}[k%2 == 0], k),
					fmt.Sprintf("call B ended with status %d payload %d: not its answer, although neither its context, its tries nor the client had ended", b.status, b.payload))
				break
			}
		}
	}
	nsc := r.N(150, 20000)
	for i := 0; i < nsc; i++ {
		entry := eTimedV4
		if i%2 == 1 {
			entry = eTimedV6
		}
		tau := r.Pick(10, 50, 50, 200)
		n := r.Pick(1, 2, 2, 3)
		total := tau * ((1 << uint(n)) - 1)
		var ds [][]byte
		used := map[int]bool{}
		pickT := func() int {
			for {
				at := 1 + r.Rng.Intn(total+tau)
				if !isDeadline(at, tau, n) && !used[at] {
					used[at] = true
					return at
				}
			}
		}
		switch r.Rng.Intn(5) {
		case 0: // silence
		case 1: // endless rejected stream every 20 ms (or tau/3)
			per := maxInt(tau/3, 1)
			for at := per; at < total+tau; at += per {
				if !isDeadline(at, tau, n) {
					used[at] = true
					ds = append(ds, delivery(at, false))
				}
			}
		case 2: // burst filling the 5-slot buffer
			at := pickT()
			for k := 0; k < 8; k++ {
				ds = append(ds, delivery(at, false))
			}
		default: // random mix, possibly with an acceptable response
			var ts []int
			for k := r.Rng.Intn(6); k > 0; k-- {
				ts = append(ts, pickT())
			}
			sortInts(ts)
			for _, at := range ts {
				ds = append(ds, delivery(at, r.Rng.Intn(4) == 0))
			}
		}
		var cancel, closeAt []byte
		switch r.Rng.Intn(4) {
		case 0:
			cancel = ms32(pickT())
		case 1:
			closeAt = ms32(pickT())
		}
		args := append([][]byte{ms32(tau), {byte(n)}, cancel, closeAt}, ds...)
		r.Add(entry, args...)
		// direct oracle: the call returns no later than T(2^n - 1)
		f := timedCallV4
		if entry == eTimedV6 {
			f = timedCallV6
		}
		o := f(time.Duration(tau)*time.Millisecond, n, optMs(cancel), optMs(closeAt), ds)
		evals++
		cs := Case{entry, args}.Line()
		if o.end > time.Duration(total)*time.Millisecond {
			r.Fail("c11-deadline", trunc(cs, 600), fmt.Sprintf("returned after %v, budget %v", o.end, time.Duration(total)*time.Millisecond))
		}
		if c := optMs(cancel); c != nil && o.result == 3 && o.end != *c {
			r.Fail("c11-cancel-instant", trunc(cs, 600), fmt.Sprintf("context ended at %v, call returned at %v", *c, o.end))
		}
		if c := optMs(cancel); c != nil && *c < time.Duration(total)*time.Millisecond {
			// the context ended (cancelled or past its own deadline) while the call was waiting and before any
			// acceptable response: the call returns the context's error at that instant and sends nothing more
			accepted := false
			for _, d := range ds {
				if len(d) > 4 && d[4] == 1 && msArg(d[:4]) <= *c {
					accepted = true
				}
			}
			if !accepted {
				if o.result != 3 || o.end != *c {
					r.Fail("c11-context-end", trunc(cs, 600), fmt.Sprintf("context ended at %v: result class %d at %v, want the context's error at %v", *c, o.result, o.end, *c))
				}
				for _, at := range o.tx {
					if at > *c {
						r.Fail("c11-transmission-after-context-end", trunc(cs, 600), fmt.Sprintf("transmission at %v, context ended at %v", at, *c))
						break
					}
				}
			}
		}
		if k := optMs(closeAt); k != nil && *k < time.Duration(total)*time.Millisecond {
			// the client was closed while the call was waiting (before any acceptable response): the call ends
			// at that instant with the no-response error and transmits nothing afterwards
			accepted := false
			for _, d := range ds {
				if len(d) > 4 && d[4] == 1 && msArg(d[:4]) <= *k {
					accepted = true
				}
			}
			if !accepted {
				if o.result != 2 || o.end != *k {
					r.Fail("c11-close-end", trunc(cs, 600), fmt.Sprintf("closed at %v: result class %d at %v, want the no-response error at %v", *k, o.result, o.end, *k))
				}
				for _, at := range o.tx {
					if at >= *k {
						r.Fail("c11-transmission-after-close", trunc(cs, 600), fmt.Sprintf("transmission at %v, client closed at %v", at, *k))
						break
					}
				}
			}
		}
		if k := optMs(closeAt); k != nil && o.result == 2 && o.end > *k && o.end < time.Duration(total)*time.Millisecond {
			// a no-response result strictly between close and the schedule's end is late
			r.Fail("c11-close-instant", trunc(cs, 600), fmt.Sprintf("closed at %v, returned at %v", *k, o.end))
		}
		if o.result == 9 {
			r.Fail("c11-unexpected-error", trunc(cs, 600), "")
		}
	}
	// transaction id reusable immediately after return; Close always returns (bubble exit proves no goroutine is left)
	for i := 0; i < r.N(20, 2000); i++ {
		reuseAfterReturn(r, i%2 == 1)
		evals++
	}
	r.Extra["oracle_evaluations"] = evals
}

func sortInts(a []int) {
	for i := 1; i < len(a); i++ {
		for j := i; j > 0 && a[j-1] > a[j]; j-- {
			a[j-1], a[j] = a[j], a[j-1]
		}
	}
}

func reuseAfterReturn(r *Run, v6 bool) {
	bubbleNote = fmt.Sprintf("v6=%v: calls ending by timeout, failed write, cancel, response, timeout on one client with one transaction id", v6)
	runBubble(func(t *testing.T) {
		conn := newLabConn()
		// however a call ended (timeout, failed write, cancelled context, response), its id is free again at once
		var call func(ctx context.Context) error
		var closeClient func()
		var reply []byte
		if !v6 {
			c, _ := nclient4.NewWithConn(conn, labHW, nclient4.WithTimeout(20*time.Millisecond), nclient4.WithRetry(1))
			req, _ := dhcpv4.NewDiscovery(labHW, dhcpv4.WithTransactionID(dhcpv4.TransactionID{1, 1, 1, 1}))
			rep, _ := dhcpv4.NewReplyFromRequest(req, dhcpv4.WithMessageType(dhcpv4.MessageTypeOffer))
			reply = rep.ToBytes()
			call = func(ctx context.Context) error {
				_, err := c.SendAndRead(ctx, &net.UDPAddr{IP: net.IPv4bcast, Port: 67}, req, nil)
				if errors.Is(err, nclient4.ErrNoResponse) {
					return errNoResp
				}
				return err
			}
			closeClient = func() { c.Close() }
		} else {
			c, _ := nclient6.NewWithConn(conn, labHW, nclient6.WithTimeout(20*time.Millisecond), nclient6.WithRetry(1))
			req, _ := dhcpv6.NewSolicit(labHW)
			reply = (&dhcpv6.Message{MessageType: dhcpv6.MessageTypeAdvertise, TransactionID: req.TransactionID}).ToBytes()
			call = func(ctx context.Context) error {
				_, err := c.SendAndRead(ctx, nclient6.AllDHCPRelayAgentsAndServers, req, nil)
				if errors.Is(err, nclient6.ErrNoResponse) {
					return errNoResp
				}
				return err
			}
			closeClient = func() { c.Close() }
		}
		endings := []string{"timeout", "failed write", "cancelled", "response", "timeout"}
		for k, how := range endings {
			ctx, cancel := context.WithCancel(context.Background())
			switch how {
			case "failed write":
				conn.mu.Lock()
				conn.failWrites = 1
				conn.mu.Unlock()
			case "cancelled":
				go func() {
					select {
					case <-time.After(5 * time.Millisecond):
						cancel()
					case <-conn.closed:
					}
				}()
			case "response":
				conn.inject(time.Since(conn.start)+5*time.Millisecond, reply)
			}
			err := call(ctx)
			cancel()
			ok := false
			switch how {
			case "timeout":
				ok = err == errNoResp
			case "failed write":
				ok = err != nil && err != errNoResp && !strings.Contains(err.Error(), "in use")
			case "cancelled":
				ok = errors.Is(err, context.Canceled)
			case "response":
				ok = err == nil
			}
			if !ok {
				what := "the call"
				if k > 0 {
					what = "the call after one that ended by " + endings[k-1]
				}
				r.Fail("c11-id-not-reusable", fmt.Sprintf("v6=%v call %d (%s)", v6, k, how), fmt.Sprintf("%s, expected to end by %s, returned: %v", what, how, err))
				break
			}
		}
		closeClient()
		synctest.Wait()
	})
}

var errNoResp = errors.New("no response")
