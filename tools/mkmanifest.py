#!/usr/bin/env python3
"""Regenerates MANIFEST.json from propcfg.py + manifest_text.py (claimed checks) so it stays valid."""
import json, os, sys
ROOT = os.path.dirname(os.path.dirname(os.path.abspath(__file__)))
sys.path.insert(0, ROOT)
from propcfg import PROPS
from manifest_text import TEXT, HOOK_COMMITS
ids = [json.loads(l)["id"] for l in open(os.path.join(ROOT, "properties.jsonl"))]
checks, na = [], []
for i in ids:
    if i in PROPS and i in TEXT:
        t = TEXT[i]
        checks.append({
            "property_id": i,
            "quick_cmd": "./check %s --tier quick" % i,
            "thorough_cmd": "./check %s --tier thorough" % i,
            "evidence_file": "evidence/%s.json" % i,
            "replay_cmd_template": "./check %s --replay {path}" % i,
            "engine": "coq-model+correspondence",
            "level_claimed": {"category": "proof", "text": t["text"], "design_ref": t.get("design_ref", "DESIGN.md section 4, " + i)},
            "level_note": t["note"],
            "technique": t["technique"],
        })
    else:
        na.append({"property_id": i, "reason": "check not built yet in this development (planned in DESIGN.md section 4); the technique applies"})
m = {
    "version": 1,
    "setup_cmd": "./setup.sh",
    "hooks": {
        "guard": "verif",
        "enable": "go1.26 build -tags verif (harness module with replace github.com/insomniacslk/dhcp => /repo)",
        "baseline_off_cmd": "cd /repo && go test -vet=off -count=1 -timeout 25m ./...",
        "source_commits": HOOK_COMMITS,
        "add_only": True,
    },
    "engines": [{"name": "coq-model+correspondence", "path": "coq/, driver/, harness/, check",
                 "serves_properties": [c["property_id"] for c in checks],
                 "kind_free_text": "Coq 8.16.1 executable Gallina model + theorems (Props/Cnn.v); model tied to /repo on every run by a differential correspondence check (Go harness vs extracted OCaml model) and by tables regenerated from the Go AST"}],
    "checks": checks,
    "notes": "See DESIGN.md. known_findings.json lists 12 repaired defects (status fixed; they suppress nothing) and one recorded finding (F12, status known, C06: one specific input for which the check prints a KNOWN-FINDING line). seeded/ holds the property-breaking changes used to test the checks, benign/ the behaviour-preserving rewrites used to test them for false alarms (neither is ever committed in /repo).",
    "not_applicable": na,
}
json.dump(m, open(os.path.join(ROOT, "MANIFEST.json"), "w"), indent=1)
print("claimed:", [c["property_id"] for c in checks])
