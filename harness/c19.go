package main

import (
	"github.com/insomniacslk/dhcp/dhcpv4"
	"github.com/insomniacslk/dhcp/dhcpv6"
	"sort"
	"bytes"
	"fmt"
	"strings"

	"github.com/insomniacslk/dhcp/rfc1035label"
)

const (
	eLabelFrom  = 1
	eLabelTo    = 2
	eLabelReenc = 3
	eLabelEdit  = 4
)

func namesOut(ns []string) [][]byte {
	out := make([][]byte, len(ns))
	for i, n := range ns {
		out[i] = []byte(n)
	}
	return out
}

func init() {
	register(eLabelFrom, "label.FromBytes", func(a [][]byte) ([][]byte, error) {
		l, err := rfc1035label.FromBytes(a[0])
		if err != nil {
			return nil, err
		}
		return namesOut(l.Labels), nil
	})
	register(eLabelTo, "label.ToBytes(new)", func(a [][]byte) ([][]byte, error) {
		l := &rfc1035label.Labels{}
		for _, n := range a {
			l.Labels = append(l.Labels, string(n))
		}
		return [][]byte{l.ToBytes()}, nil
	})
	register(eLabelReenc, "label.FromBytes.ToBytes", func(a [][]byte) ([][]byte, error) {
		l, err := rfc1035label.FromBytes(a[0])
		if err != nil {
			return nil, err
		}
		return [][]byte{l.ToBytes()}, nil
	})
	register(eLabelEdit, "label.FromBytes.edit.ToBytes", func(a [][]byte) ([][]byte, error) {
		l, err := rfc1035label.FromBytes(a[0])
		if err != nil {
			return nil, err
		}
		var ed []string
		for _, n := range a[1:] {
			ed = append(ed, string(n))
		}
		_ = l.ToBytes() // encoding before the edit must not pin the old names
		applyEdit(l, ed)
		return [][]byte{l.ToBytes()}, nil
	})
	props["C19"] = genC19
}

// refNames is an independently written RFC 1035 reference decoder for the
// strict inputs (one level of compression, backward pointers to a label
// boundary are not checked: it just follows the rules of 4.1.4 once).
// It returns ok=false for anything the RFC does not give a meaning to.
func refNames(b []byte) (names []string, ok bool) {
	readRun := func(pos int, allowPtr bool) (labels []string, next int, term byte, ok bool) {
		for {
			if pos >= len(b) {
				return labels, pos, 1, true // ran off the end (partial name)
			}
			l := int(b[pos])
			switch {
			case l == 0:
				return labels, pos + 1, 0, true
			case l >= 0xc0:
				if !allowPtr {
					return nil, 0, 0, false
				}
				return labels, pos, 2, true
			case l > 63:
				return nil, 0, 0, false // reserved label types: RFC silent
			default:
				if pos+1+l > len(b) {
					return nil, 0, 0, false
				}
				labels = append(labels, string(b[pos+1:pos+1+l]))
				pos += 1 + l
			}
		}
	}
	pos := 0
	for pos < len(b) {
		labels, next, term, ok := readRun(pos, true)
		if !ok {
			return nil, false
		}
		switch term {
		case 0:
			names = append(names, strings.Join(labels, "."))
			pos = next
		case 1:
			if len(labels) > 0 {
				names = append(names, strings.Join(labels, "."))
			}
			pos = next
		case 2:
			if next+1 >= len(b) {
				return nil, false
			}
			off := int(b[next]&0x3f)<<8 | int(b[next+1])
			if off >= next { // forward/self pointers: RFC says "prior occurrence"
				return nil, false
			}
			l2, _, t2, ok2 := readRun(off, false)
			if !ok2 || t2 != 0 {
				return nil, false
			}
			names = append(names, strings.Join(append(labels, l2...), "."))
			pos = next + 2
		}
	}
	for _, n := range names {
		if len(n) > 253 {
			return nil, false
		}
	}
	return names, true
}

func encNames(names [][]string) []byte {
	var out []byte
	for _, n := range names {
		for _, l := range n {
			out = append(out, byte(len(l)))
			out = append(out, l...)
		}
		out = append(out, 0)
	}
	return out
}

func genC19(r *Run) {
	// 1. exhaustive small scope over an alphabet of lengths, letters, pointer bytes
	alpha := []byte{0, 1, 2, 3, 63, 64, 0xc0, 0xc1, 0xff, 'a', '.'}
	maxLen := r.N(4, 5)
	var rec func(cur []byte)
	rec = func(cur []byte) {
		r.Add(eLabelFrom, append([]byte{}, cur...))
		r.Add(eLabelReenc, append([]byte{}, cur...))
		checkWrappers(r, cur)
		if len(cur) == maxLen {
			return
		}
		for _, a := range alpha {
			rec(append(cur, a))
		}
	}
	rec(nil)
	r.Extra["exhaustive_alphabet"] = fmt.Sprintf("%v up to length %d", alpha, maxLen)

	// 1b. pointers into the middle of a label: the octets read from there form another label chain
	// (shorter or longer than the 253-octet limit) than the sequential reading sees
	for i := 0; i < r.N(300, 20000); i++ {
		k := 1 + r.Rng.Intn(6)
		region := dualRegion(k)
		var b []byte
		off := 1
		if r.Rng.Intn(2) == 0 { // forward pointer
			b = append([]byte{0xc0, 3}, region...)
			b[1] = 3
			off = 3
			_ = off
		} else {
			b = append(append([]byte{}, region...), 0xc0, 1)
		}
		if r.Rng.Intn(3) == 0 { // shift the entry point inside the first block
			j := 1 + 5*r.Rng.Intn(12)
			if b[0] == 0xc0 {
				b[1] = byte(2 + j)
			} else {
				b[len(b)-1] = byte(j)
			}
		}
		r.Count(fmt.Sprintf("dual_reading_blocks=%d", k))
		checkWrappers(r, b)
		r.Add(eLabelFrom, b)
		r.Add(eLabelReenc, b)
	}

	// 2. random lists of valid names; direct oracle: round trip on the real code
	lens := []int{1, 1, 2, 3, 5, 10, 30, 62, 63}
	randLabel := func() string {
		n := lens[r.Rng.Intn(len(lens))]
		b := r.Bytes(n)
		for i := range b {
			if b[i] == '.' {
				b[i] = 'x'
			}
		}
		return string(b)
	}
	nRoundTrip := r.N(1500, 100000)
	for i := 0; i < nRoundTrip; i++ {
		var names [][]string
		var flat []string
		for k := r.Rng.Intn(9); k > 0; k-- {
			var n []string
			total := 0
			for j := 1 + r.Rng.Intn(8); j > 0; j-- {
				l := randLabel()
				if total+len(l)+1 > 253 {
					break
				}
				total += len(l) + 1
				n = append(n, l)
			}
			if len(n) == 0 {
				n = []string{"a"}
			}
			names = append(names, n)
			flat = append(flat, strings.Join(n, "."))
		}
		r.Count(fmt.Sprintf("roundtrip_names=%d", len(names)))
		// real code round trip
		l := &rfc1035label.Labels{Labels: flat}
		enc := l.ToBytes()
		if !bytes.Equal(enc, encNames(names)) {
			r.Fail("encode-layout", fmt.Sprintf("%q", flat), fmt.Sprintf("ToBytes=%x want %x", enc, encNames(names)))
		}
		back, err := rfc1035label.FromBytes(enc)
		if err != nil || !sameStrs(back.Labels, flat) {
			r.Fail("roundtrip", fmt.Sprintf("%q", flat), fmt.Sprintf("decoded %q err=%v", labelsOf(back), err))
		}
		args := namesOut(flat)
		r.Add(eLabelTo, args...)
		r.Add(eLabelFrom, enc)
		// 3. mutations of valid encodings
		if len(enc) > 0 && i%2 == 0 {
			m := append([]byte{}, enc...)
			switch r.Rng.Intn(5) {
			case 0:
				m = m[:r.Rng.Intn(len(m))]
			case 1:
				m[r.Rng.Intn(len(m))] = byte(r.Pick(0, 1, 63, 64, 0xc0, 0xff))
			case 2: // append a pointer to an earlier offset
				off := r.Rng.Intn(len(m))
				m = append(m, 1, 'p', 0xc0|byte(off>>8), byte(off))
			case 3: // pointer in the middle
				p := r.Rng.Intn(len(m))
				off := r.Rng.Intn(len(m) + 2)
				m = append(append(append([]byte{}, m[:p]...), 0xc0|byte(off>>8), byte(off)), m[p:]...)
			case 4:
				m = append(m, r.Bytes(r.Rng.Intn(6))...)
			}
			r.Count("mutated")
			r.Add(eLabelFrom, m)
			r.Add(eLabelReenc, m)
			checkLabelDecode(r, m)
			checkWrappers(r, m)
			// 4. single edits of a parsed set
			if pl, err := rfc1035label.FromBytes(m); err == nil {
				ed := append([]string{}, pl.Labels...)
				switch r.Rng.Intn(9) {
				case 7, 8: // a label moved across the boundary between two names: same labels, same count, other names
					if len(ed) == 0 || !regroupNames(ed, r.Rng.Intn(len(ed))) {
						ed = append(ed, "host.corp", "example.com")
					}
				case 5, 6: // a change of letter case only (names are compared octet by octet)
					if len(ed) > 0 {
						i := r.Rng.Intn(len(ed))
						if t, ok := toggleCase(ed[i]); ok {
							ed[i] = t
						} else {
							ed[i] = "Edited.Example"
						}
					} else {
						ed = append(ed, "Y")
					}
				case 3: // same names in another order
					if len(ed) > 1 {
						i, j := r.Rng.Intn(len(ed)), r.Rng.Intn(len(ed))
						ed[i], ed[j] = ed[j], ed[i]
					}
				case 4:
					sort.Strings(ed)
				case 0:
					ed = append(ed, "new.name")
				case 1:
					if len(ed) > 0 {
						ed = ed[1:]
					} else {
						ed = append(ed, "x")
					}
				case 2:
					if len(ed) > 0 {
						ed[r.Rng.Intn(len(ed))] = "edited"
					} else {
						ed = append(ed, "y")
					}
				}
				r.Add(eLabelEdit, append([][]byte{m}, namesOut(ed)...)...)
				checkLabelEdit(r, m, ed)
				// several edits of one value, each followed by an encoding: a second edit in place, an edit back
				// to the received names, the same on a constructed value
				step := func(cur []string) []string {
					nx := append([]string{}, cur...)
					switch r.Rng.Intn(4) {
					case 0:
						if len(nx) > 0 {
							nx[r.Rng.Intn(len(nx))] = fmt.Sprintf("edit%d.example", r.Rng.Intn(1000))
						}
					case 1:
						if len(nx) > 1 {
							i, j := r.Rng.Intn(len(nx)), r.Rng.Intn(len(nx))
							nx[i], nx[j] = nx[j], nx[i]
						}
					case 2:
						nx = append(nx, "more.example")
					case 3:
						nx = append([]string{}, pl.Labels...) // back to what was received
					}
					return nx
				}
				e2 := step(ed)
				e3 := step(e2)
				checkLabelEditSeq(r, m, [][]string{ed, e2, e3})
				checkLabelEditSeq(r, nil, [][]string{ed, e2, e3})
			}
		}
	}
	// a value that already holds a parsed set is handed bytes that do not decode: the call fails and the value is
	// what it was - it still encodes to its received octets, and after an edit to the edited names
	for i := 0; i < r.N(200, 10000); i++ {
		ns, _ := r.validNames()
		if len(ns) == 0 {
			ns = []string{"a.example"}
		}
		good := (&rfc1035label.Labels{Labels: ns}).ToBytes()
		bad := [][]byte{{5, 'a', 'b'}, {0xc0}, {1, 'a', 0xc0, 3, 0xc0, 0}, append(append([]byte{}, good...), 9, 'x'), append(bytes.Repeat(append([]byte{63}, bytes.Repeat([]byte{'z'}, 63)...), 4), 0)}[r.Rng.Intn(5)]
		l, err := rfc1035label.FromBytes(append([]byte{}, good...))
		if err != nil {
			continue
		}
		if r.Rng.Intn(2) == 0 {
			_ = l.ToBytes()
		}
		if l.FromBytes(append([]byte{}, bad...)) == nil {
			continue // (it did decode)
		}
		if out := l.ToBytes(); !bytes.Equal(out, good) {
			r.Fail("failed-decode-changes-value", fmt.Sprintf("%s then %s", hx(good), hx(bad)),
				fmt.Sprintf("after a failed FromBytes the value encodes as %x, it held %q (received as %x)", out, ns, good))
			continue
		}
		if n := l.Length(); n != len(good) {
			r.Fail("failed-decode-changes-value", fmt.Sprintf("%s then %s", hx(good), hx(bad)), fmt.Sprintf("Length %d after a failed FromBytes, want %d", n, len(good)))
		}
	}
	// names whose length depends on how they end (C05's boundary family), and names completed through a pointer
	// whose two parts are each within the limit while the whole is not (or just is)
	for _, w := range nameBoundaryWires() {
		r.Add(eLabelFrom, w)
		r.Add(eLabelReenc, w)
		checkWrappers(r, w)
	}
	mkName := func(dotted int, ch byte) []byte { // labels of <= 63 octets, dotted length exactly `dotted`, no terminator
		var b []byte
		rem := dotted
		for rem > 0 {
			l := minInt(63, rem)
			if rem-l == 1 {
				l--
			}
			b = append(b, byte(l))
			for i := 0; i < l; i++ {
				b = append(b, ch)
			}
			rem -= l
			if rem > 0 {
				rem--
			}
		}
		return b
	}
	for _, tgt := range []int{1, 63, 100, 126, 127, 199, 250, 252, 253} {
		for _, pre := range []int{1, 2, 40, 53, 81, 126, 127, 128, 150, 251, 252, 253} {
			t := append(mkName(tgt, 't'), 0)
			w := append(append(append([]byte{}, t...), mkName(pre, 'p')...), 0xc0, 0) // target at offset 0, then prefix + pointer
			r.Add(eLabelFrom, w)
			r.Add(eLabelReenc, w)
			checkWrappers(r, w)
			// the pointer aimed at the second label of the target
			if tgt > 64 {
				w2 := append(append(append([]byte{}, t...), mkName(pre, 'p')...), 0xc0, 64)
				r.Add(eLabelFrom, w2)
			}
		}
	}
	// long names around the 253 limit
	for _, tot := range []int{250, 251, 252, 253, 254, 255, 256, 300} {
		var n []string
		left := tot
		for left > 0 {
			k := 50
			if left < k {
				k = left
			}
			n = append(n, strings.Repeat("a", k))
			left -= k + 1
		}
		enc := encNames([][]string{n})
		r.Add(eLabelFrom, enc)
		r.Add(eLabelTo, []byte(strings.Join(n, ".")))
		checkLabelDecode(r, enc)
	}
	// exhaustive strings are also checked against the reference decoder
	for _, c := range r.cases {
		if c.Entry == eLabelFrom && len(c.Args[0]) <= maxLen {
			checkLabelDecode(r, c.Args[0])
		}
	}
}

func labelsOf(l *rfc1035label.Labels) []string {
	if l == nil {
		return nil
	}
	return l.Labels
}

func sameStrs(a, b []string) bool {
	if len(a) != len(b) {
		return false
	}
	for i := range a {
		if a[i] != b[i] {
			return false
		}
	}
	return true
}

// checkLabelDecode: on inputs the RFC gives a meaning to, the decoder must
// return exactly that meaning (or fail); and an unmodified set re-encodes to
// its original bytes.
func checkLabelDecode(r *Run, b []byte) {
	var l *rfc1035label.Labels
	var err error
	func() {
		defer func() {
			if p := recover(); p != nil {
				err = fmt.Errorf("panic: %v", p)
				r.Fail("decode-panics", hx(b), fmt.Sprint(p))
			}
		}()
		l, err = rfc1035label.FromBytes(append([]byte{}, b...))
	}()
	if err != nil {
		return
	}
	if want, ok := refNames(b); ok {
		r.Count("rfc-meaningful")
		if !sameStrs(l.Labels, want) {
			r.Fail("decode-rfc", hx(b), fmt.Sprintf("got %q want %q", l.Labels, want))
		}
	}
	if out := l.ToBytes(); !bytes.Equal(out, b) {
		r.Fail("reencode-original", hx(b), fmt.Sprintf("ToBytes=%x", out))
	}
}

// applyEdit turns l.Labels into ed the way a caller would: in place where the shape allows it
// (element assignment, reslicing, append), by replacing the slice otherwise.
func applyEdit(l *rfc1035label.Labels, ed []string) {
	cur := l.Labels
	switch {
	case len(ed) == len(cur):
		for i := range ed {
			if cur[i] != ed[i] {
				cur[i] = ed[i]
			}
		}
	case len(ed) == len(cur)-1 && sameStrs(cur[1:], ed):
		l.Labels = cur[1:]
	case len(ed) > len(cur) && sameStrs(ed[:len(cur)], cur):
		l.Labels = append(cur, ed[len(cur):]...)
	default:
		l.Labels = append([]string{}, ed...)
	}
}

// checkWrappers: the options that carry domain names keep a parsed, unmodified name field verbatim
// (compressed and partial names included): DHCPv6 domain search list (24), client FQDN (39), NTP server FQDN (56/3)
func checkWrappers(r *Run, b []byte) {
	if _, err := rfc1035label.FromBytes(append([]byte{}, b...)); err != nil || len(b) > 2000 {
		return
	}
	try := func(what string, code uint16, val []byte) {
		o, err := dhcpv6.ParseOption(dhcpv6.OptionCode(code), append([]byte{}, val...))
		if err != nil {
			r.Fail("wrapper-rejects-"+what, hx(b), err.Error())
			return
		}
		if out := o.ToBytes(); !bytes.Equal(out, val) {
			r.Fail("wrapper-reencode-"+what, hx(b), fmt.Sprintf("the %s option re-encodes its unmodified name field as %x, received %x", what, out, val))
		}
	}
	try("domain-search-list", 24, b)
	try("client-fqdn", 39, append([]byte{1}, b...))
	try("ntp-server-fqdn", 56, append([]byte{0, 3, byte(len(b) >> 8), byte(len(b))}, b...))
	o4 := &dhcpv4.DHCPv4{Options: dhcpv4.Options{}}
	if len(b) > 0 {
		o4.Options[119] = append([]byte{}, b...)
		if ls := o4.DomainSearch(); ls != nil {
			if out := dhcpv4.OptDomainSearch(ls).Value.ToBytes(); !bytes.Equal(out, b) {
				r.Fail("wrapper-reencode-dhcpv4-domain-search", hx(b), fmt.Sprintf("re-encoded as %x", out))
			}
		}
	}
}

// checkLabelEditSeq: a value (parsed from b, or constructed when b is nil) goes through a sequence of name lists,
// applied the way a caller would (in place where the shape allows it), and is encoded after each step.  Every
// encoding must be that of the names the value holds at that moment (the received octets are also right whenever
// the names are exactly the received ones).
func checkLabelEditSeq(r *Run, b []byte, seq [][]string) {
	var l *rfc1035label.Labels
	var orig []string
	if b != nil {
		x, err := rfc1035label.FromBytes(append([]byte{}, b...))
		if err != nil {
			return
		}
		l = x
		orig = append([]string{}, l.Labels...)
	} else {
		l = &rfc1035label.Labels{Labels: append([]string{}, seq[0]...)}
		seq = seq[1:]
	}
	_ = l.ToBytes()
	for k, ed := range seq {
		applyEdit(l, append([]string{}, ed...))
		if k%2 == 0 {
			_ = l.Length()
		}
		out := l.ToBytes()
		fresh := (&rfc1035label.Labels{Labels: ed}).ToBytes()
		if bytes.Equal(out, fresh) || (b != nil && sameStrs(orig, ed) && bytes.Equal(out, b)) {
			continue
		}
		r.Fail("reencode-after-several-edits", fmt.Sprintf("%s %q", hx(b), seq), fmt.Sprintf("after edit %d the value holds %q but ToBytes=%x, want %x", k+1, ed, out, fresh))
		return
	}
}

func checkLabelEdit(r *Run, b []byte, ed []string) {
	l, err := rfc1035label.FromBytes(append([]byte{}, b...))
	if err != nil {
		return
	}
	orig := append([]string{}, l.Labels...)
	_ = l.ToBytes()
	_ = l.Length()
	applyEdit(l, append([]string{}, ed...))
	out := l.ToBytes()
	fresh := (&rfc1035label.Labels{Labels: ed}).ToBytes()
	if sameStrs(orig, ed) {
		if !bytes.Equal(out, b) {
			r.Fail("reencode-original", hx(b), "edit to same names changed bytes")
		}
	} else if !bytes.Equal(out, fresh) {
		r.Fail("reencode-modified", hx(b)+fmt.Sprintf(" %q", ed), fmt.Sprintf("ToBytes=%x want %x", out, fresh))
	}
	// the edited value is decoded into again (a long-lived object refreshed with every renewal): the same octets
	// first, then other octets - each time it holds what those octets say and re-encodes to exactly them
	for _, w := range [][]byte{b, append(append([]byte{}, b...), 2, 'z', 'z', 0), b} {
		want, err0 := rfc1035label.FromBytes(append([]byte{}, w...))
		kept := l.Labels // what a caller took out of the value before it was refreshed
		keptWas := append([]string{}, kept...)
		err := l.FromBytes(append([]byte{}, w...))
		if !sameStrs(kept, keptWas) {
			r.Fail("decode-into-used-value", hx(w)+fmt.Sprintf(" after %q", ed), fmt.Sprintf("the names taken from the value before it was decoded into again changed under their holder: %q became %q", keptWas, kept))
			return
		}
		if (err == nil) != (err0 == nil) {
			r.Fail("decode-into-used-value", hx(w)+fmt.Sprintf(" after %q", ed), fmt.Sprintf("decoding into a value that was decoded and edited before: error %v, into a fresh value: %v", err, err0))
			return
		}
		if err != nil {
			continue
		}
		if !sameStrs(l.Labels, want.Labels) {
			r.Fail("decode-into-used-value", hx(w)+fmt.Sprintf(" after %q", ed), fmt.Sprintf("the value holds %q, the octets say %q", l.Labels, want.Labels))
			return
		}
		if got := l.ToBytes(); !bytes.Equal(got, w) {
			r.Fail("decode-into-used-value", hx(w)+fmt.Sprintf(" after %q", ed), fmt.Sprintf("ToBytes=%x after decoding %x into the value", got, w))
			return
		}
		// octets that do not decode are then handed to the value: it goes on holding what it held, names and wire form
		for _, bad := range [][]byte{{5, 'a', 'b'}, {0xc0}, append(append([]byte{}, w...), 0xc0, byte(len(w)))} {
			if _, e := rfc1035label.FromBytes(append([]byte{}, bad...)); e == nil {
				continue
			}
			_ = l.FromBytes(append([]byte{}, bad...))
			if !sameStrs(l.Labels, want.Labels) {
				r.Fail("failed-decode-into-used-value", hx(w)+" then "+hx(bad), fmt.Sprintf("after a failed decode the value holds %q, before it held %q", l.Labels, want.Labels))
				return
			}
			if got := l.ToBytes(); !bytes.Equal(got, w) {
				r.Fail("failed-decode-into-used-value", hx(w)+" then "+hx(bad), fmt.Sprintf("after a failed decode the value (names unchanged) encodes to %x, it was decoded from %x", got, w))
				return
			}
		}
		applyEdit(l, append([]string{}, ed...))
	}
}
