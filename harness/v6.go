package main

import (
	"bytes"
	"fmt"
	"net"
	"strings"
	"time"

	"github.com/insomniacslk/dhcp/dhcpv4"
	"github.com/insomniacslk/dhcp/dhcpv6"
	"github.com/insomniacslk/dhcp/iana"
	"github.com/insomniacslk/dhcp/rfc1035label"
)

const (
	eV6Dec      = 20
	eV6Reenc    = 21
	eV6Opt      = 22
	eV6Message  = 23
	eV6Relay    = 24
	eV6DUID     = 25
	eV6OptReenc = 26
)

func init() {
	register(eV6Dec, "dhcpv6.FromBytes", func(a [][]byte) ([][]byte, error) {
		m, err := dhcpv6.FromBytes(a[0])
		if err != nil {
			return nil, err
		}
		return dumpMsg(m), nil
	})
	register(eV6Reenc, "dhcpv6.FromBytes.ToBytes", func(a [][]byte) ([][]byte, error) {
		m, err := dhcpv6.FromBytes(a[0])
		if err != nil {
			return nil, err
		}
		return [][]byte{m.ToBytes()}, nil
	})
	register(eV6Opt, "dhcpv6.ParseOption", func(a [][]byte) ([][]byte, error) {
		o, err := dhcpv6.ParseOption(dhcpv6.OptionCode(numArg(a[0])), a[1])
		if err != nil {
			return nil, err
		}
		return dumpOpt(o), nil
	})
	register(eV6Message, "dhcpv6.MessageFromBytes", func(a [][]byte) ([][]byte, error) {
		m, err := dhcpv6.MessageFromBytes(a[0])
		if err != nil {
			return nil, err
		}
		return dumpMsg(m), nil
	})
	register(eV6Relay, "dhcpv6.RelayMessageFromBytes", func(a [][]byte) ([][]byte, error) {
		m, err := dhcpv6.RelayMessageFromBytes(a[0])
		if err != nil {
			return nil, err
		}
		return dumpMsg(m), nil
	})
	register(eV6DUID, "dhcpv6.DUIDFromBytes", func(a [][]byte) ([][]byte, error) {
		d, err := dhcpv6.DUIDFromBytes(a[0])
		if err != nil {
			return nil, err
		}
		return append(dumpDUID(d), d.ToBytes()), nil
	})
	register(eV6OptReenc, "dhcpv6.ParseOption.ToBytes", func(a [][]byte) ([][]byte, error) {
		o, err := dhcpv6.ParseOption(dhcpv6.OptionCode(numArg(a[0])), a[1])
		if err != nil {
			return nil, err
		}
		return [][]byte{o.ToBytes()}, nil
	})
	props["C02"] = genC02
	props["C05"] = genC05
	props["C06"] = genC06
}

// ---------------------------------------------------------------------
// Independent generator: a value tree with its RFC wire layout (written from
// RFC 8415 and the per-option RFCs, sharing no code with the library) and the
// library value built through the exported constructors.

type gnode struct {
	wire []byte        // option value octets
	opt  dhcpv6.Option // library value
	code uint16
}

func w16(v int) []byte { return []byte{byte(v >> 8), byte(v)} }
func w32(v uint32) []byte {
	return []byte{byte(v >> 24), byte(v >> 16), byte(v >> 8), byte(v)}
}
func tlvb(code uint16, v []byte) []byte {
	return append(append(w16(int(code)), w16(len(v))...), v...)
}

func (r *Run) u32() uint32 {
	if d := sourceInts(); len(d) > 0 && r.Rng.Intn(8) == 0 {
		return uint32(d[r.Rng.Intn(len(d))])
	}
	switch r.Rng.Intn(6) {
	case 0:
		return 0
	case 1:
		return 0xffffffff
	case 2:
		return uint32(r.Rng.Intn(70000))
	case 3:
		return []uint32{1, 0x7fffffff, 0x80000000, 0xfffffffe, 0x10000, 0xffff}[r.Rng.Intn(6)]
	}
	return r.Rng.Uint32()
}

// n16 / n8: numeric field values, often at a boundary
func (r *Run) n16() int {
	// now and then a number the library's own source mentions (ports, default values, limits, enterprise numbers):
	// code that treats one particular value differently names that value
	if d := sourceInts(); len(d) > 0 && r.Rng.Intn(6) == 0 {
		return int(d[r.Rng.Intn(len(d))] & 0xffff)
	}
	if r.Rng.Intn(3) == 0 {
		return r.Pick(0, 1, 0xff, 0x100, 0x7fff, 0x8000, 0xfffe, 0xffff)
	}
	return r.Rng.Intn(65536)
}
func (r *Run) n8() int {
	if r.Rng.Intn(3) == 0 {
		return r.Pick(0, 1, 0x7f, 0x80, 0xfe, 0xff)
	}
	return r.Rng.Intn(256)
}

// cnt: a list length - usually below n, now and then just past the sizes at which code switches strategy (8, 16, 32, 64)
func (r *Run) cnt(n int) int {
	if r.Rng.Intn(12) == 0 {
		return r.Pick(9, 12, 17, 33, 65)
	}
	return r.Rng.Intn(n)
}

func (r *Run) blob(max int) []byte {
	switch r.Rng.Intn(8) {
	case 0:
		return []byte{}
	case 1:
		return r.Bytes(1)
	case 3: // text with a tail (or head) a tidy-minded decoder may trim: NUL runs, blanks, line ends, dots, slashes
		n := r.Rng.Intn(max + 1)
		b := make([]byte, n)
		for i := range b {
			b[i] = byte('a' + r.Rng.Intn(26))
		}
		pad := []byte{0, 0, ' ', '\n', '.', '/', '\r', '\t'}
		if r.Rng.Intn(2) == 0 { // a run of one such octet (a trim that removes one is not a trim that removes all)
			ch := pad[r.Rng.Intn(len(pad))]
			for k := 1 + r.Rng.Intn(3); k > 0; k-- {
				b = append(b, ch)
			}
		} else {
			for k := r.Rng.Intn(4); k > 0; k-- {
				b = append(b, pad[r.Rng.Intn(len(pad))])
			}
		}
		if r.Rng.Intn(4) == 0 {
			b = append([]byte{pad[r.Rng.Intn(len(pad))]}, b...)
		}
		return b
	case 2: // lengths around the limits people write down (63/64, 127/128/130, 255/256, ...)
		return r.Bytes(r.Pick(62, 63, 64, 65, 122, 123, 124, 125, 126, 127, 128, 129, 130, 131, 253, 254, 255, 256, 257, 300, 1000))
	}
	return r.Bytes(r.Rng.Intn(max + 1))
}

func (r *Run) validNames() ([]string, []byte) {
	var names []string
	var wire []byte
	nn := r.Rng.Intn(4)
	if r.Rng.Intn(8) == 0 { // one name at or just below the 253-octet limit
		nn = 1
	}
	for k := nn; k > 0; k-- {
		var labs []string
		total := 0
		if nn == 1 && k == 1 && r.Rng.Intn(2) == 0 {
			want := r.Pick(250, 251, 252, 253, 253)
			for total < want {
				n := minInt(63, want-total)
				if want-total-n == 1 { // leave room for a last label
					n--
				}
				b := r.Bytes(n)
				for i := range b {
					if b[i] == '.' {
						b[i] = 'y'
					}
				}
				labs = append(labs, string(b))
				wire = append(wire, byte(n))
				wire = append(wire, b...)
				total += n + 1
				if total == want+1 {
					break
				}
			}
			wire = append(wire, 0)
			names = append(names, strings.Join(labs, "."))
			continue
		}
		for j := 1 + r.Rng.Intn(4); j > 0; j-- {
			n := r.Pick(1, 2, 5, 12, 63)
			if total+n+1 > 254 { // RFC 1035 2.3.4: a name is at most 253 octets in dotted form
				n = 253 - total
				if n < 1 {
					break
				}
			}
			total += n + 1
			b := r.Bytes(n)
			for i := range b {
				if b[i] == '.' {
					b[i] = 'y'
				}
			}
			labs = append(labs, string(b))
			wire = append(wire, byte(n))
			wire = append(wire, b...)
		}
		wire = append(wire, 0)
		names = append(names, strings.Join(labs, "."))
		if len(names) < 4 && r.Rng.Intn(5) == 0 {
			// the same name once more (a list may repeat a name; each occurrence is written out in full)
			start := len(wire) - 1
			for _, l := range labs {
				start -= len(l) + 1
			}
			wire = append(wire, wire[start:]...)
			names = append(names, names[len(names)-1])
		}
	}
	return names, wire
}

func (r *Run) genDUID() (dhcpv6.DUID, []byte) {
	switch r.Rng.Intn(5) {
	case 0:
		hw, t, ll := uint16(r.n16()), r.u32(), r.blob(20)
		return &dhcpv6.DUIDLLT{HWType: iana.HWType(hw), Time: t, LinkLayerAddr: ll}, append(append(append(w16(1), w16(int(hw))...), w32(t)...), ll...)
	case 1:
		en, id := r.u32(), r.blob(20)
		return &dhcpv6.DUIDEN{EnterpriseNumber: en, EnterpriseIdentifier: id}, append(append(w16(2), w32(en)...), id...)
	case 2:
		hw, ll := uint16(r.n16()), r.blob(20)
		return &dhcpv6.DUIDLL{HWType: iana.HWType(hw), LinkLayerAddr: ll}, append(append(w16(3), w16(int(hw))...), ll...)
	case 3:
		u := r.Bytes(16)
		d := &dhcpv6.DUIDUUID{}
		copy(d.UUID[:], u)
		return d, append(w16(4), u...)
	}
	typ := uint16(5 + r.Rng.Intn(65000))
	data := r.blob(20)
	return &dhcpv6.DUIDOpaque{Type: dhcpv6.DUIDType(typ), Data: data}, append(w16(int(typ)), data...)
}

var knownV6Codes = []uint16{1, 2, 3, 4, 5, 6, 8, 9, 13, 15, 16, 17, 18, 23, 24, 25, 26, 32, 37, 39, 56, 59, 60, 61, 62, 79, 87, 88, 97, 98, 99, 135}

func isKnownV6(c uint16) bool {
	for _, k := range knownV6Codes {
		if k == c {
			return true
		}
	}
	return false
}

func (r *Run) genOpts(depth, maxN int) (dhcpv6.Options, []byte) {
	var os dhcpv6.Options
	var wire []byte
	for k := r.Rng.Intn(maxN + 1); k > 0; k-- {
		n := r.genOpt(depth)
		os = append(os, n.opt)
		wire = append(wire, tlvb(n.code, n.wire)...)
	}
	return os, wire
}

// genOpt draws one option of a random type with every field in its domain.
func (r *Run) genOpt(depth int) gnode {
	codes := knownV6Codes
	c := codes[r.Rng.Intn(len(codes))]
	if r.Rng.Intn(8) == 0 {
		c = uint16(r.Rng.Intn(65536))
	}
	if depth <= 0 && (c == 3 || c == 4 || c == 5 || c == 9 || c == 25 || c == 26 || c == 97) && r.Rng.Intn(3) != 0 {
		c = 8
	}
	return r.genOptCode(c, depth)
}

func (r *Run) genOptCode(c uint16, depth int) gnode {
	if isKnownV6(c) {
		r.Count(fmt.Sprintf("opt=%d", c))
	} else {
		r.Count("opt=unknown-code")
	}
	sub := func(maxN int) (dhcpv6.Options, []byte) {
		if depth <= 0 {
			return nil, nil
		}
		return r.genOpts(depth-1, maxN)
	}
	dur := func() (time.Duration, []byte) {
		v := r.u32()
		return time.Duration(v) * time.Second, w32(v)
	}
	switch c {
	case 1:
		d, w := r.genDUID()
		return gnode{w, dhcpv6.OptClientID(d), c}
	case 2:
		d, w := r.genDUID()
		return gnode{w, dhcpv6.OptServerID(d), c}
	case 3, 25:
		iaid := r.Bytes(4)
		t1, w1 := dur()
		t2, w2 := dur()
		os, ow := sub(3)
		w := append(append(append(append([]byte{}, iaid...), w1...), w2...), ow...)
		if c == 3 {
			o := &dhcpv6.OptIANA{T1: t1, T2: t2}
			copy(o.IaId[:], iaid)
			o.Options.Options = os
			return gnode{w, o, c}
		}
		o := &dhcpv6.OptIAPD{T1: t1, T2: t2}
		copy(o.IaId[:], iaid)
		o.Options.Options = os
		return gnode{w, o, c}
	case 4:
		iaid := r.Bytes(4)
		os, ow := sub(3)
		o := &dhcpv6.OptIATA{}
		copy(o.IaId[:], iaid)
		o.Options.Options = os
		return gnode{append(append([]byte{}, iaid...), ow...), o, c}
	case 5:
		a := r.Addr16()
		p, wp := dur()
		v, wv := dur()
		os, ow := sub(2)
		o := &dhcpv6.OptIAAddress{IPv6Addr: net.IP(a), PreferredLifetime: p, ValidLifetime: v}
		o.Options.Options = os
		return gnode{append(append(append(append([]byte{}, a...), wp...), wv...), ow...), o, c}
	case 6:
		var codes []dhcpv6.OptionCode
		var w []byte
		seen := map[int]bool{}
		for k := r.cnt(6); k > 0; k-- {
			x := r.n16()
			if seen[x] {
				continue
			}
			seen[x] = true
			codes = append(codes, dhcpv6.OptionCode(x))
			w = append(w, w16(x)...)
		}
		return gnode{w, dhcpv6.OptRequestedOption(codes...), c}
	case 8:
		v := r.n16()
		return gnode{w16(v), dhcpv6.OptElapsedTime(time.Duration(v) * 10 * time.Millisecond), c}
	case 9:
		m, w := r.genMsg(depth-1, 3)
		return gnode{w, dhcpv6.OptRelayMessage(m), c}
	case 13:
		sc, msg := r.n16(), r.blob(30)
		return gnode{append(w16(sc), msg...), &dhcpv6.OptStatusCode{StatusCode: iana.StatusCode(sc), StatusMessage: string(msg)}, c}
	case 15, 16:
		var items [][]byte
		var w []byte
		for k := 1 + r.cnt(3); k > 0; k-- {
			it := r.blob(20)
			items = append(items, it)
			w = append(append(w, w16(len(it))...), it...)
		}
		if c == 15 {
			return gnode{w, &dhcpv6.OptUserClass{UserClasses: items}, c}
		}
		en := r.u32()
		return gnode{append(w32(en), w...), &dhcpv6.OptVendorClass{EnterpriseNumber: en, Data: items}, c}
	case 17:
		en := r.u32()
		var subs dhcpv6.Options
		w := w32(en)
		for k := r.cnt(4); k > 0; k-- {
			sc, d := uint16(r.subCode(0)), r.blob(20)
			subs = append(subs, &dhcpv6.OptionGeneric{OptionCode: dhcpv6.OptionCode(sc), OptionData: d})
			w = append(w, tlvb(sc, d)...)
		}
		return gnode{w, &dhcpv6.OptVendorOpts{EnterpriseNumber: en, VendorOpts: subs}, c}
	case 18:
		id := r.blob(30)
		return gnode{id, dhcpv6.OptInterfaceID(id), c}
	case 23, 88:
		var ips []net.IP
		var w []byte
		for k := r.cnt(4); k > 0; k-- {
			a := r.Addr16()
			ips = append(ips, net.IP(a))
			w = append(w, a...)
		}
		if c == 23 {
			return gnode{w, dhcpv6.OptDNS(ips...), c}
		}
		return gnode{w, &dhcpv6.OptDHCP4oDHCP6Server{DHCP4oDHCP6Servers: ips}, c}
	case 24:
		names, w := r.validNames()
		return gnode{w, dhcpv6.OptDomainSearchList(&rfc1035label.Labels{Labels: names}), c}
	case 26:
		p, wp := dur()
		v, wv := dur()
		os, ow := sub(2)
		o := &dhcpv6.OptIAPrefix{PreferredLifetime: p, ValidLifetime: v}
		o.Options.Options = os
		w := append(append([]byte{}, wp...), wv...)
		if r.Rng.Intn(4) == 0 {
			w = append(append(w, 0), make([]byte, 16)...)
		} else {
			plen := 1 + r.Rng.Intn(128)
			a := r.Addr16()
			o.Prefix = &net.IPNet{IP: net.IP(a), Mask: net.CIDRMask(plen, 128)}
			w = append(append(w, byte(plen)), a...)
		}
		return gnode{append(w, ow...), o, c}
	case 32:
		t, w := dur()
		return gnode{w, dhcpv6.OptInformationRefreshTime(t), c}
	case 37:
		en, id := r.u32(), r.blob(30)
		return gnode{append(w32(en), id...), &dhcpv6.OptRemoteID{EnterpriseNumber: en, RemoteID: id}, c}
	case 39:
		fl := byte(r.n8())
		names, w := r.validNames()
		return gnode{append([]byte{fl}, w...), &dhcpv6.OptFQDN{Flags: fl, DomainName: &rfc1035label.Labels{Labels: names}}, c}
	case 56:
		var subs dhcpv6.Options
		var w []byte
		for k := r.cnt(4); k > 0; k-- {
			switch r.Rng.Intn(4) {
			case 0:
				a := r.Addr16()
				s := dhcpv6.NTPSuboptionSrvAddr(a)
				subs = append(subs, &s)
				w = append(w, tlvb(1, a)...)
			case 1:
				a := r.Addr16()
				s := dhcpv6.NTPSuboptionMCAddr(a)
				subs = append(subs, &s)
				w = append(w, tlvb(2, a)...)
			case 2:
				names, nw := r.validNames()
				subs = append(subs, &dhcpv6.NTPSuboptionSrvFQDN{Labels: rfc1035label.Labels{Labels: names}})
				w = append(w, tlvb(3, nw)...)
			case 3:
				sc, d := uint16(r.subCode(3)), r.blob(10)
				subs = append(subs, &dhcpv6.OptionGeneric{OptionCode: dhcpv6.OptionCode(sc), OptionData: d})
				w = append(w, tlvb(sc, d)...)
			}
		}
		return gnode{w, &dhcpv6.OptNTPServer{Suboptions: subs}, c}
	case 59:
		u := r.blob(40)
		return gnode{u, dhcpv6.OptBootFileURL(string(u)), c}
	case 60:
		var ps []string
		var w []byte
		for k := r.cnt(4); k > 0; k-- {
			p := r.blob(20)
			ps = append(ps, string(p))
			w = append(append(w, w16(len(p))...), p...)
		}
		return gnode{w, dhcpv6.OptBootFileParam(ps...), c}
	case 61:
		var as []iana.Arch
		var w []byte
		for k := 1 + r.cnt(3); k > 0; k-- {
			x := r.n16()
			as = append(as, iana.Arch(x))
			w = append(w, w16(x)...)
		}
		return gnode{w, dhcpv6.OptClientArchType(as...), c}
	case 62:
		b := r.Bytes(3)
		return gnode{b, &dhcpv6.OptNetworkInterfaceID{Typ: dhcpv6.NetworkInterfaceType(b[0]), Major: b[1], Minor: b[2]}, c}
	case 79:
		hw, a := r.n16(), r.blob(20)
		return gnode{append(w16(hw), a...), dhcpv6.OptClientLinkLayerAddress(iana.HWType(hw), net.HardwareAddr(a)), c}
	case 87:
		a := r.randPkt(r.randOpts(3, 300))
		for i := 6; i <= 9; i++ { // decoded form: 4-octet addresses
			if len(a[i]) != 4 {
				a[i] = r.Bytes(4)
			}
		}
		p := pktOfArgs(a)
		w := refEncode4(p)
		return gnode{w, &dhcpv6.OptDHCPv4Msg{Msg: p}, c}
	case 97:
		os, ow := sub(3)
		o := &dhcpv6.Opt4RD{}
		o.Options = os
		return gnode{ow, o, c}
	case 98:
		p4l, p6l, ea := r.Rng.Intn(33), r.Rng.Intn(129), byte(r.n8())
		wkp := r.Rng.Intn(2) == 0
		p4, p6 := r.Bytes(4), r.Addr16()
		fl := byte(0)
		if wkp {
			fl = 0x80
		}
		w := append(append([]byte{byte(p4l), byte(p6l), ea, fl}, p4...), p6...)
		return gnode{w, &dhcpv6.Opt4RDMapRule{
			Prefix4:      net.IPNet{IP: net.IP(p4), Mask: net.CIDRMask(p4l, 32)},
			Prefix6:      net.IPNet{IP: net.IP(p6), Mask: net.CIDRMask(p6l, 128)},
			EABitsLength: ea, WKPAuthorized: wkp}, c}
	case 99:
		hub := r.Rng.Intn(2) == 0
		pmtu := r.n16()
		o := &dhcpv6.Opt4RDNonMapRule{HubAndSpoke: hub, DomainPMTU: uint16(pmtu)}
		fl, tcv := byte(0), byte(0)
		if hub {
			fl |= 0x80
		}
		if r.Rng.Intn(2) == 0 {
			tcv = byte(r.n8())
			o.TrafficClass = &tcv
			fl |= 1
		}
		return gnode{append([]byte{fl, tcv}, w16(pmtu)...), o, c}
	case 135:
		p := r.n16()
		return gnode{w16(p), dhcpv6.OptRelayPort(uint16(p)), c}
	}
	// unknown code: payload verbatim
	for isKnownV6(c) {
		c = uint16(r.Rng.Intn(65536))
	}
	d := r.blob(40)
	return gnode{d, &dhcpv6.OptionGeneric{OptionCode: dhcpv6.OptionCode(c), OptionData: d}, c}
}

// refEncode4: RFC 2131 layout of a packet whose addresses are 4 octets and
// whose options are written in ascending code order, 82 last (harness's own
// encoder, used for the DHCPv4-in-DHCPv6 option).
func refEncode4(p *dhcpv4.DHCPv4) []byte {
	b := []byte{byte(p.OpCode), byte(p.HWType), byte(len(p.ClientHWAddr)), p.HopCount}
	b = append(b, p.TransactionID[:]...)
	b = append(b, be16b(p.NumSeconds)...)
	b = append(b, be16b(p.Flags)...)
	for _, ip := range []net.IP{p.ClientIPAddr, p.YourIPAddr, p.ServerIPAddr, p.GatewayIPAddr} {
		b = append(b, ip[:4]...)
	}
	pad := func(s []byte, n int) []byte { return append(append([]byte{}, s...), make([]byte, n-len(s))...) }
	b = append(b, pad(p.ClientHWAddr, 16)...)
	b = append(b, pad([]byte(p.ServerHostName), 64)...)
	b = append(b, pad([]byte(p.BootFileName), 128)...)
	b = append(b, 99, 130, 83, 99)
	emit := func(c byte) {
		v, ok := p.Options[c]
		if !ok || c == 0 || c == 255 {
			return
		}
		if len(v) == 0 {
			b = append(b, c, 0)
		}
		for len(v) > 0 {
			n := len(v)
			if n > 255 {
				n = 255
			}
			b = append(append(b, c, byte(n)), v[:n]...)
			v = v[n:]
		}
	}
	for c := 1; c < 255; c++ {
		if c != 82 {
			emit(byte(c))
		}
	}
	emit(82)
	b = append(b, 255)
	for len(b) < 300 {
		b = append(b, 0)
	}
	return b
}

// genMsg draws a message or relay message.
func (r *Run) genMsg(depth, maxOpts int) (dhcpv6.DHCPv6, []byte) {
	os, ow := r.genOpts(depth, maxOpts)
	if r.Rng.Intn(3) == 0 {
		t := byte(12 + r.Rng.Intn(2))
		hop := byte(r.n8())
		l, p := r.Addr16(), r.Addr16()
		m := &dhcpv6.RelayMessage{MessageType: dhcpv6.MessageType(t), HopCount: hop, LinkAddr: net.IP(l), PeerAddr: net.IP(p)}
		m.Options.Options = os
		w := append(append(append([]byte{t, hop}, l...), p...), ow...)
		return m, w
	}
	t := byte(r.Rng.Intn(256))
	for t == 12 || t == 13 {
		t = byte(r.Rng.Intn(12))
	}
	xid := r.Bytes(3)
	m := &dhcpv6.Message{MessageType: dhcpv6.MessageType(t)}
	copy(m.TransactionID[:], xid)
	m.Options.Options = os
	return m, append(append([]byte{t}, xid...), ow...)
}

// relay chain of the given depth around an inner message
func (r *Run) genChain(depth int) (dhcpv6.DHCPv6, []byte) {
	m, w := r.genMsg(1, 4)
	for i := 0; i < depth; i++ {
		t := byte(12 + r.Rng.Intn(2))
		hop := byte(i)
		l, p := r.Addr16(), r.Addr16()
		rm := &dhcpv6.RelayMessage{MessageType: dhcpv6.MessageType(t), HopCount: hop, LinkAddr: net.IP(l), PeerAddr: net.IP(p)}
		var ow []byte
		if r.Rng.Intn(2) == 0 {
			id := r.blob(8)
			rm.Options.Options = append(rm.Options.Options, dhcpv6.OptInterfaceID(id))
			ow = append(ow, tlvb(18, id)...)
		}
		rm.Options.Options = append(rm.Options.Options, dhcpv6.OptRelayMessage(m))
		ow = append(ow, tlvb(9, w)...)
		m, w = rm, append(append(append([]byte{t, hop}, l...), p...), ow...)
	}
	return m, w
}

// oracleC02: the library's encoding is the RFC layout the generator wrote,
// and decoding it gives back an equal value (equal dumps).
func oracleC02(r *Run, m dhcpv6.DHCPv6, wire []byte) {
	cs := Case{eV6Dec, [][]byte{wire}}.Line()
	var enc []byte
	var back dhcpv6.DHCPv6
	var err error
	func() {
		defer func() {
			if x := recover(); x != nil {
				err = fmt.Errorf("panic: %v", x)
			}
		}()
		enc = m.ToBytes()
		back, err = dhcpv6.FromBytes(enc)
	}()
	if err != nil {
		r.Fail("roundtrip-decode-fails", trunc(cs, 4000), err.Error())
		return
	}
	if !bytes.Equal(enc, wire) {
		r.Fail("encode-layout", trunc(cs, 4000), fmt.Sprintf("ToBytes=%x differs from the RFC layout of the same field values", trunc2(enc, 300)))
		return
	}
	d1, d2 := dumpLine(dumpMsg(m)), dumpLine(dumpMsg(back))
	if d1 != d2 {
		r.Fail("roundtrip-value", trunc(cs, 4000), "FromBytes(ToBytes(m)) differs from m: "+trunc(firstDiff(d1, d2), 300))
	}
}

func trunc2(b []byte, n int) []byte {
	if len(b) > n {
		return b[:n]
	}
	return b
}

func dumpLine(d [][]byte) string {
	var sb strings.Builder
	for _, x := range d {
		sb.WriteString(hx(x))
		sb.WriteByte(' ')
	}
	return sb.String()
}

func firstDiff(a, b string) string {
	i := 0
	for i < len(a) && i < len(b) && a[i] == b[i] {
		i++
	}
	lo := i - 40
	if lo < 0 {
		lo = 0
	}
	return fmt.Sprintf("at %d: %q vs %q", i, trunc(a[lo:], 120), trunc(b[lo:], 120))
}

func genC02(r *Run) {
	n := r.N(2500, 150000)
	for i := 0; i < n; i++ {
		var m dhcpv6.DHCPv6
		var w []byte
		if i%5 == 0 {
			m, w = r.genChain(r.Rng.Intn(r.N(9, 65)))
		} else {
			m, w = r.genMsg(r.Pick(0, 1, 2, 3), r.Pick(0, 1, 3, 6, 20))
		}
		if len(w) > 60000 {
			continue
		}
		oracleC02(r, m, w)
		r.Add(eV6Dec, w)
		r.Add(eV6Reenc, w)
		r.Count(fmt.Sprintf("wire_len<%d", (len(w)/500+1)*500))
	}
	// values obtained by decoding and then editing their domain names in place (another name, another case,
	// another order): they too are messages, and their encoding must decode to them
	for i := 0; i < r.N(300, 20000); i++ {
		mb, _ := dhcpv6.NewMessage()
		mb.TransactionID = dhcpv6.TransactionID{7, byte(i >> 8), byte(i)}
		n1, _ := r.validNames()
		n2, _ := r.validNames()
		n3, _ := r.validNames()
		if len(n1) == 0 {
			n1 = []string{"a.example"}
		}
		mb.AddOption(dhcpv6.OptDomainSearchList(&rfc1035label.Labels{Labels: n1}))
		mb.AddOption(&dhcpv6.OptFQDN{Flags: 1, DomainName: &rfc1035label.Labels{Labels: append([]string{"host.example"}, n2...)}})
		mb.AddOption(&dhcpv6.OptNTPServer{Suboptions: []dhcpv6.Option{&dhcpv6.NTPSuboptionSrvFQDN{Labels: rfc1035label.Labels{Labels: append([]string{"ntp.example"}, n3...)}}}})
		d, err := dhcpv6.FromBytes(mb.ToBytes())
		if err != nil {
			continue
		}
		_ = d.ToBytes()
		edit := func(l *rfc1035label.Labels) {
			if len(l.Labels) == 0 {
				return
			}
			j := r.Rng.Intn(len(l.Labels))
			switch r.Rng.Intn(6) {
			case 4, 5:
				if !regroupNames(l.Labels, j) {
					l.Labels[j] = "regrouped.example"
				}
			case 0:
				l.Labels[j] = "other.example"
			case 1:
				if t, ok := toggleCase(l.Labels[j]); ok {
					l.Labels[j] = t
				} else {
					l.Labels[j] = "Other.Example"
				}
			case 2:
				k := r.Rng.Intn(len(l.Labels))
				l.Labels[j], l.Labels[k] = l.Labels[k], l.Labels[j]
			case 3:
				l.Labels = append(l.Labels, "added.example")
			}
		}
		walkV6(d, func(o dhcpv6.Option) {
			switch x := o.(type) {
			case *dhcpv6.OptFQDN:
				edit(x.DomainName)
			case *dhcpv6.OptNTPServer:
				for _, so := range x.Suboptions {
					if f, ok := so.(*dhcpv6.NTPSuboptionSrvFQDN); ok {
						edit(&f.Labels)
					}
				}
			default:
				if o.Code() == dhcpv6.OptionDomainSearchList {
					if l, ok := field(o, "DomainSearchList").(*rfc1035label.Labels); ok {
						edit(l)
					}
				}
			}
		})
		want := dumpLine(dumpMsg(d))
		back, err := dhcpv6.FromBytes(d.ToBytes())
		if err != nil {
			r.Fail("roundtrip-edited-decode-fails", trunc(want, 800), err.Error())
			continue
		}
		if got := dumpLine(dumpMsg(back)); got != want {
			r.Fail("roundtrip-edited-names", trunc(want, 800), "decode(encode(m)) != m for a decoded message whose names were edited: "+firstDiff(want, got))
		}
	}
	// each known type alone, as a single option (ParseOption)
	for _, c := range knownV6Codes {
		for k := 0; k < r.N(20, 400); k++ {
			nd := r.genOptCode(c, 2)
			if len(nd.wire) > 60000 {
				continue
			}
			r.Add(eV6Opt, w16(int(c)), nd.wire)
			r.Add(eV6OptReenc, w16(int(c)), nd.wire)
			if !bytes.Equal(safeToBytes(nd.opt), nd.wire) {
				r.Fail("encode-layout", Case{eV6Opt, [][]byte{w16(int(c)), nd.wire}}.Line(), fmt.Sprintf("option %d ToBytes differs from RFC layout", c))
			}
		}
	}
	r.Extra["oracle_evaluations"] = n
	r.Extra["option_table"] = knownV6Codes
}

func safeToBytes(o dhcpv6.Option) (b []byte) {
	defer func() {
		if recover() != nil {
			b = nil
		}
	}()
	return o.ToBytes()
}

// ---------------------------------------------------------------------
// C05: acceptance boundary.

func genC05(r *Run) {
	add := func(b []byte) {
		r.Add(eV6Dec, b)
	}
	oneHotBodies6(r, func(code uint16, body []byte) {
		r.Add(eV6Opt, w16(int(code)), body)
		add(append([]byte{1, 0, 0, 7}, tlvb(code, body)...))
	})
	// exhaustive TLV framings
	codes := []uint16{1, 3, 5, 8, 25, 9, 0xffff}
	lens := []int{0, 1, 2, 4, 12, 255}
	hdrs := [][]byte{{1, 0xa, 0xb, 0xc}, append([]byte{12, 1}, make([]byte, 32)...)}
	var rec func(cur []byte, k int)
	rec = func(cur []byte, k int) {
		for _, h := range hdrs {
			add(append(append([]byte{}, h...), cur...))
		}
		if k == 0 {
			return
		}
		for _, c := range codes {
			for _, l := range lens {
				for _, fill := range []int{l, l - 1, l + 1} {
					if fill < 0 || (fill != l && k > 1) {
						continue
					}
					v := make([]byte, fill)
					for i := range v {
						v[i] = byte(i + 1)
					}
					rec(append(append(append(append([]byte{}, cur...), w16(int(c))...), w16(l)...), v...), k-1)
				}
			}
		}
	}
	rec(nil, r.N(2, 3))
	r.Extra["exhaustive_framings"] = fmt.Sprintf("codes %v x lengths %v, up to %d options, exact/short/long payloads, message and relay headers", codes, lens, r.N(2, 3))
	// headers: every truncation
	for _, h := range hdrs {
		for t := 0; t <= len(h); t++ {
			add(h[:t])
			r.Add(eV6Message, h[:t])
			r.Add(eV6Relay, h[:t])
		}
	}
	// per known type: every truncation, extension by 1..3, length-field perturbations at every level
	for _, c := range knownV6Codes {
		for k := 0; k < r.N(6, 60); k++ {
			nd := r.genOptCode(c, 2)
			v := nd.wire
			if len(v) > 400 {
				continue
			}
			for t := 0; t <= len(v); t++ {
				r.Add(eV6Opt, w16(int(c)), v[:t])
			}
			for e := 1; e <= 3; e++ {
				r.Add(eV6Opt, w16(int(c)), append(append([]byte{}, v...), r.Bytes(e)...))
			}
			// as an option inside a message, with its length field perturbed
			for _, dl := range []int{-1, 1, -len(v), 0xffff - len(v)} {
				l := len(v) + dl
				if l < 0 || l > 0xffff {
					continue
				}
				b := append(append(append([]byte{1, 1, 2, 3}, w16(int(c))...), w16(l)...), v...)
				add(b)
				add(append(b, 0, 8, 0, 2, 0, 1)) // followed by a valid neighbour
			}
			// perturb every inner 16-bit length-looking position
			for pos := 0; pos+1 < len(v) && pos < 80; pos++ {
				m := append([]byte{}, v...)
				switch r.Rng.Intn(3) {
				case 0:
					m[pos+1]++
				case 1:
					m[pos+1]--
				case 2:
					m[pos] = 0xff
				}
				r.Add(eV6Opt, w16(int(c)), m)
			}
		}
	}
	// domain names at the 253-octet limit, however the name ends: a terminating zero, the end of the value
	// (RFC 4704 partial form), or a compression pointer that lengthens it; in every name-bearing option
	for _, nw := range nameBoundaryWires() {
		r.Add(eLabelFrom, nw)
		r.Add(eV6Opt, w16(24), nw)
		r.Add(eV6Opt, w16(39), append([]byte{1}, nw...))
		r.Add(eV6Opt, w16(56), tlvb(3, nw))
		add(append([]byte{1, 1, 2, 3}, tlvb(24, nw)...))
		add(append([]byte{1, 1, 2, 3}, tlvb(39, append([]byte{0}, nw...))...))
		add(append(append([]byte{1, 1, 2, 3}, tlvb(56, tlvb(3, nw))...), 0, 8, 0, 2, 0, 1))
		add(append([]byte{1, 1, 2, 3}, tlvb(3, append(make([]byte, 12), tlvb(24, nw)...))...))
	}
	// acceptance and value of an option do not depend on its neighbours: every known type (valid value), and every
	// small name field over an alphabet of lengths / pointers / letters in the name-bearing options, each followed
	// and preceded by an option whose code has a non-zero high octet (0x0100, 0x0117, 0x0203: the low octets are
	// the codes of known types) or by a known one
	neighbours := [][]byte{tlvb(0x0100, []byte{1, 2, 3}), tlvb(0x0117, make([]byte, 16)), tlvb(0x0203, make([]byte, 12)), tlvb(0xff18, []byte{1, 'a', 0}), tlvb(8, []byte{0, 1})}
	withNeighbours := func(o []byte) {
		for _, nb := range neighbours {
			add(append(append([]byte{1, 1, 2, 3}, o...), nb...))
			add(append(append([]byte{1, 1, 2, 3}, nb...), o...))
		}
	}
	for _, c := range knownV6Codes {
		for k := 0; k < r.N(2, 20); k++ {
			if v := r.genOptCode(c, 1).wire; len(v) < 600 {
				withNeighbours(tlvb(c, v))
			}
		}
	}
	{
		alpha := []byte{0, 1, 2, 3, 0xc0, 0xc1, 'a'}
		var rec func(cur []byte)
		rec = func(cur []byte) {
			if len(cur) > 0 {
				withNeighbours(tlvb(24, cur))
				if len(cur) <= 3 || r.Rng.Intn(4) == 0 {
					withNeighbours(tlvb(39, append([]byte{0}, cur...)))
					withNeighbours(tlvb(56, tlvb(3, cur)))
				}
			}
			if len(cur) == r.N(4, 5) {
				return
			}
			for _, a := range alpha {
				rec(append(append([]byte{}, cur...), a))
			}
		}
		rec(nil)
		for _, nw := range [][]byte{{3, 'f', 'o', 'o'}, {1, 'a', 3, 'f', 'o', 'o', 0, 0xc0, 2}, {3, 'f', 'o', 'o', 0, 2, 'a', 'b', 0xc0, 0}, {1, 'a', 0, 1, 'b'}} {
			withNeighbours(tlvb(24, nw))
		}
	}
	// nesting depth ladder: relay messages inside relay messages, IA options inside IA options, to depths around the
	// limits people pick (8, 16, 32, 64, 128, 255/256) - nesting alone is never a reason to reject
	for _, depth := range []int{1, 2, 7, 8, 9, 15, 16, 17, 31, 32, 33, 34, 63, 64, 65, 100, 127, 128, 129, 200, 255, 256, 257} {
		w := append([]byte{1, 1, 2, 3}, tlvb(8, []byte{0, 1})...)
		for d := 0; d < depth && len(w) < 60000; d++ {
			w = append(append([]byte{byte(12 + d%2), byte(d)}, make([]byte, 32)...), tlvb(9, w)...)
		}
		add(w)
		var ia []byte
		for d := 0; d < depth && len(ia) < 60000; d++ {
			ia = tlvb(uint16([]int{3, 25, 4, 5, 26}[d%5]), append(make([]byte, []int{12, 12, 4, 24, 25}[d%5]), ia...))
		}
		add(append([]byte{1, 1, 2, 3}, ia...))
		r.Count("nesting-depth-ladder")
	}
	// random / mutated messages up to 4096 octets
	n := r.N(1500, 120000)
	for i := 0; i < n; i++ {
		var b []byte
		switch r.Rng.Intn(4) {
		case 0:
			b = r.Bytes(r.Rng.Intn(120))
		default:
			_, b = r.genMsg(r.Pick(0, 1, 2), r.Pick(1, 3, 8))
			if len(b) > 4096 {
				b = b[:4096]
			}
			for k := r.Rng.Intn(3); k >= 0 && len(b) > 0; k-- {
				switch r.Rng.Intn(4) {
				case 0:
					b[r.Rng.Intn(len(b))] = byte(r.Rng.Intn(256))
				case 1:
					b = b[:r.Rng.Intn(len(b)+1)]
				case 2:
					b = append(b, r.Bytes(1+r.Rng.Intn(3))...)
				case 3:
					p := r.Rng.Intn(len(b))
					b[p] ^= 1 << uint(r.Rng.Intn(8))
				}
			}
		}
		add(b)
		if i%4 == 0 {
			r.Add(eV6Message, b)
			r.Add(eV6Relay, b)
		}
	}
	// DUIDs
	for i := 0; i < r.N(300, 20000); i++ {
		_, w := r.genDUID()
		r.Add(eV6DUID, w)
		r.Add(eV6DUID, w[:r.Rng.Intn(len(w)+1)])
		r.Add(eV6DUID, append(w, r.Bytes(1)...))
	}
}

// nameBoundaryWires: wire forms of names whose dotted length is 250..256 and 319 octets, split into labels in
// several ways, each ended by a zero, by the end of the buffer, by a second name, or lengthened by a pointer.
func nameBoundaryWires() [][]byte {
	var out [][]byte
	labelsFor := func(dotted int, first int) []byte {
		// labels of at most 63 octets whose dotted form has exactly `dotted` octets; the first label has `first`
		var b []byte
		rem := dotted
		l := first
		ch := byte('a')
		for rem > 0 {
			if l > rem {
				l = rem
			}
			b = append(b, byte(l))
			for i := 0; i < l; i++ {
				b = append(b, ch)
			}
			ch++
			rem -= l
			if rem > 0 {
				rem-- // the dot
				if rem == 0 {
					// a trailing dot cannot be expressed: give the last label one octet more instead
					b[len(b)-l-1]++
					b = append(b, ch)
				}
			}
			l = 63
		}
		return b
	}
	for _, dotted := range []int{250, 251, 252, 253, 254, 255, 256, 319} {
		for _, first := range []int{63, 1, 30} {
			w := labelsFor(dotted, first)
			out = append(out, append(append([]byte{}, w...), 0))                 // terminated
			out = append(out, append([]byte{}, w...))                            // ends with the buffer
			out = append(out, append(append(append([]byte{}, w...), 0), 1, 'x', 0)) // followed by another name
			out = append(out, append(append([]byte{1, 'x', 0}, w...), 0))       // preceded by another name
			out = append(out, append(append([]byte{1, 'x', 0}, w...)))          // preceded, unterminated
			// lengthened by a pointer to a label at the front: [2 'y' 'z' 0] w [ptr 0]
			pw := append(append([]byte{2, 'y', 'z', 0}, w...), 0xc0, 0)
			out = append(out, pw)
			// a short name lengthened to the limit by a pointer into the long one
			pl := append(append(append([]byte{}, w...), 0), 3, 'q', 'q', 'q', 0xc0, 0)
			out = append(out, pl)
		}
	}
	return out
}

// ---------------------------------------------------------------------
// C06: decode -> encode -> decode fixpoint on the public API.

func oracleC06v6(r *Run, b []byte) { oracleC06v6k(r, b, "") }

// oracleC06v6k: key names the known-finding family the input was built for ("" for ordinary inputs)
func oracleC06v6k(r *Run, b []byte, key string) {
	m1, err := dhcpv6.FromBytes(append([]byte{}, b...))
	if err != nil {
		return
	}
	r.Count("v6-accepted")
	cs := Case{eV6Reenc, [][]byte{b}}.Line()
	var b1, b2 []byte
	var m2 dhcpv6.DHCPv6
	func() {
		defer func() {
			if x := recover(); x != nil {
				err = fmt.Errorf("panic: %v", x)
			}
		}()
		b1 = m1.ToBytes()
		m2, err = dhcpv6.FromBytes(b1)
		if err == nil {
			b2 = m2.ToBytes()
		}
	}()
	if err != nil {
		if key != "" {
			r.FailKey(key, "v6-reencoded-rejected", trunc(cs, 300), err.Error())
			return
		}
		r.Fail("v6-reencoded-rejected", trunc(cs, 3000), err.Error())
		return
	}
	// allowed normalisation: names of an embedded DHCPv4 message cut to 63/127 octets
	walkV6(m1, func(o dhcpv6.Option) {
		if v4, ok := o.(*dhcpv6.OptDHCPv4Msg); ok && v4.Msg != nil {
			if len(v4.Msg.ServerHostName) > 63 {
				v4.Msg.ServerHostName = v4.Msg.ServerHostName[:63]
			}
			if len(v4.Msg.BootFileName) > 127 {
				v4.Msg.BootFileName = v4.Msg.BootFileName[:127]
			}
		}
	})
	if d1, d2 := dumpLine(dumpMsg(m1)), dumpLine(dumpMsg(m2)); d1 != d2 {
		r.Fail("v6-meaning-changed", trunc(cs, 3000), "decode(encode(m)) != m: "+firstDiff(d1, d2))
	}
	if !bytes.Equal(b1, b2) {
		r.Fail("v6-bytes-unstable", trunc(cs, 3000), "second encoding differs from the first")
	}
	// both values come out of the decoder, so they must also print alike (a field the first decoding left unset -
	// a nil mask, a nil address - and the second filled in is a difference in meaning the field dump may not show)
	func() {
		defer func() { _ = recover() }()
		if s1, s2 := m1.Summary(), m2.Summary(); s1 != s2 {
			r.Fail("v6-meaning-changed", trunc(cs, 3000), "the decoded message and the re-decoded message print differently: "+firstDiff(s1, s2))
		}
	}()
}

func oracleC06v4(r *Run, b []byte) {
	m1, err := dhcpv4.FromBytes(append([]byte{}, b...))
	if err != nil {
		return
	}
	r.Count("v4-accepted")
	cs := Case{eV4Reenc, [][]byte{b}}.Line()
	b1 := m1.ToBytes()
	m2, err := dhcpv4.FromBytes(b1)
	if err != nil {
		r.Fail("v4-reencoded-rejected", trunc(cs, 3000), err.Error())
		return
	}
	// allowed normalisation: names cut to 63/127 octets
	n1 := *m1
	if len(n1.ServerHostName) > 63 {
		n1.ServerHostName = n1.ServerHostName[:63]
	}
	if len(n1.BootFileName) > 127 {
		n1.BootFileName = n1.BootFileName[:127]
	}
	if d1, d2 := dumpLine(dumpPkt4(&n1)), dumpLine(dumpPkt4(m2)); d1 != d2 {
		r.Fail("v4-meaning-changed", trunc(cs, 3000), "decode(encode(m)) != norm(m): "+firstDiff(d1, d2))
	}
	if b2 := m2.ToBytes(); !bytes.Equal(b1, b2) {
		r.Fail("v4-bytes-unstable", trunc(cs, 3000), "second encoding differs from the first")
	}
	// the independent reader sees the same meaning in b and b1
	if r0, ok := refDecode4(b); ok {
		if r1, ok1 := refDecode4(b1); !ok1 {
			r.Fail("v4-reencoded-unreadable", trunc(cs, 3000), "")
		} else {
			for c, v := range r0.opts {
				if !bytes.Equal(r1.opts[c], v) {
					r.Fail("v4-option-meaning", trunc(cs, 3000), fmt.Sprintf("option %d", c))
				}
			}
		}
	}
}

// regroupNames moves a label across the boundary between two neighbouring names ("host.corp", "example.com" ->
// "host", "corp.example.com"): the same labels in the same order, the same number of names - other names.
func regroupNames(names []string, j int) bool {
	if len(names) < 2 {
		return false
	}
	if j+1 >= len(names) {
		j = len(names) - 2
	}
	a, b := names[j], names[j+1]
	if i := strings.LastIndexByte(a, '.'); i > 0 && b != "" && len(a)-i+len(b) <= 253 {
		names[j], names[j+1] = a[:i], a[i+1:]+"."+b
		return true
	}
	if i := strings.IndexByte(b, '.'); i > 0 && a != "" && len(a)+1+i <= 253 {
		names[j], names[j+1] = a+"."+b[:i], b[i+1:]
		return true
	}
	return false
}

// oneHotBodies6: for every known option code, the body of a generated instance with all octets zero, then with each
// single octet in turn set to 1, 0x80 and 0xff (and the pairs first-octet/each-octet): the shapes in which one field
// says something and everything else says nothing - a flag set in an otherwise empty rule, a prefix length without a
// prefix, a lifetime without an address.
func oneHotBodies6(r *Run, f func(code uint16, body []byte)) {
	for _, c := range knownV6Codes {
		seen := map[int]bool{}
		for tries := 0; tries < 6; tries++ {
			L := len(r.genOptCode(c, 1).wire)
			if seen[L] || L == 0 || L > 48 {
				continue
			}
			seen[L] = true
			z := make([]byte, L)
			f(c, append([]byte{}, z...))
			for i := 0; i < L; i++ {
				for _, v := range []byte{1, 0x80, 0xff} {
					b := append([]byte{}, z...)
					b[i] = v
					f(c, b)
					if i > 0 {
						b2 := append([]byte{}, b...)
						b2[0] = 0x80
						f(c, b2)
					}
				}
			}
		}
	}
}

// sweepSmallPayloads6: every option code the library knows, with EVERY payload of one and of two octets (all 65536
// values of each 16-bit field: ports, times, codes, flags - no value is special unless the RFC says so), inside a
// message: decoding, encoding and decoding again gives the value first decoded, and a third encoding equals the second.
func sweepSmallPayloads6(r *Run) int {
	n := 0
	for _, c := range knownV6Codes {
		try := func(payload []byte) {
			n++
			o, err := dhcpv6.ParseOption(dhcpv6.OptionCode(c), append([]byte{}, payload...))
			if err != nil {
				return
			}
			e1 := safeToBytes(o)
			o2, err := dhcpv6.ParseOption(dhcpv6.OptionCode(c), append([]byte{}, e1...))
			cs := fmt.Sprintf("option %d payload %x", c, payload)
			if err != nil {
				r.Fail("v6-reencoded-rejected", cs, "the encoding of an accepted option is rejected: "+err.Error())
				return
			}
			if d1, d2 := dumpLine(dumpOpt(o)), dumpLine(dumpOpt(o2)); d1 != d2 {
				r.Fail("v6-not-a-fixpoint", cs, "decode, encode, decode gives another value: "+firstDiff(d1, d2))
				return
			}
			if s1, s2 := o.String(), o2.String(); s1 != s2 {
				r.Fail("v6-not-a-fixpoint", cs, "decode, encode, decode prints differently: "+firstDiff(s1, s2))
				return
			}
			if e2 := safeToBytes(o2); !bytes.Equal(e1, e2) {
				r.Fail("v6-not-a-fixpoint", cs, fmt.Sprintf("second encoding %x differs from the first %x", e2, e1))
			}
		}
		for v := 0; v < 256; v++ {
			try([]byte{byte(v)})
		}
		for v := 0; v < 65536; v++ {
			try([]byte{byte(v >> 8), byte(v)})
		}
	}
	// ... and the one-field-says-something bodies of every option type
	oneHotBodies6(r, func(code uint16, body []byte) {
		o, err := dhcpv6.ParseOption(dhcpv6.OptionCode(code), append([]byte{}, body...))
		n++
		if err != nil {
			return
		}
		e1 := safeToBytes(o)
		cs := fmt.Sprintf("option %d payload %x", code, body)
		o2, err := dhcpv6.ParseOption(dhcpv6.OptionCode(code), append([]byte{}, e1...))
		if err != nil {
			r.Fail("v6-reencoded-rejected", cs, "the encoding of an accepted option is rejected: "+err.Error())
			return
		}
		if d1, d2 := dumpLine(dumpOpt(o)), dumpLine(dumpOpt(o2)); d1 != d2 {
			r.Fail("v6-not-a-fixpoint", cs, "decode, encode, decode gives another value: "+firstDiff(d1, d2))
			return
		}
		if e2 := safeToBytes(o2); !bytes.Equal(e1, e2) {
			r.Fail("v6-not-a-fixpoint", cs, fmt.Sprintf("second encoding %x differs from the first %x", e2, e1))
		}
	})
	return n
}

func genC06(r *Run) {
	r.Extra["v6_small_payload_sweep"] = sweepSmallPayloads6(r)
	// v4: non-canonical accepted areas
	hdr := make([]byte, 240)
	copy(hdr, []byte{2, 1, 6, 0, 1, 2, 3, 4})
	copy(hdr[236:], []byte{99, 130, 83, 99})
	n4 := r.N(1500, 100000)
	for i := 0; i < n4; i++ {
		var b []byte
		if i%3 == 0 {
			b = r.validWire(8)
			for k := r.Rng.Intn(3); k > 0; k-- {
				b[r.Rng.Intn(len(b))] = byte(r.Rng.Intn(256))
			}
		} else {
			h := append([]byte{}, hdr...)
			if i%5 == 0 { // names without terminator, long hlen
				for j := 44; j < 236; j++ {
					h[j] = byte('a' + j%26)
				}
				h[2] = byte(r.Pick(6, 16, 17, 255))
			}
			area := []byte{}
			for k := r.Rng.Intn(8); k >= 0; k-- {
				if r.Rng.Intn(5) == 0 {
					area = append(area, 0)
					continue
				}
				c := byte(r.Pick(1, 2, 53, 82, 12, 254, 200))
				nn := r.Pick(0, 1, 3, 6, 255)
				area = append(append(area, c, byte(nn)), r.Bytes(nn)...)
			}
			area = append(append(area, 255), r.Bytes(r.Rng.Intn(4))...)
			b = append(h, area...)
		}
		oracleC06v4(r, b)
		r.Add(eV4Reenc, b)
		r.Add(eV4Dec, b)
	}
	{
		h := make([]byte, 240)
		copy(h, []byte{2, 1, 6, 0, 1, 2, 3, 4})
		copy(h[236:], []byte{99, 130, 83, 99})
		for _, b := range nameFieldShapes(h) {
			oracleC06v4(r, b)
			r.Add(eV4Reenc, b)
		}
	}
	// relay headers cut short (2..33 octets) whose remainder happens to tile as options: accepted or not, what is
	// accepted must survive re-encoding; the same nested in a relay-message option
	for cut := 2; cut <= 34; cut++ {
		hdr := append([]byte{byte(12 + cut%2), byte(cut)}, r.Addr16()...)
		hdr = append(hdr, r.Addr16()...)
		for _, tail := range [][]byte{tlvb(18, []byte{0xde, 0xad, 0xbe, 0xef}), tlvb(8, []byte{0, 1}), nil, tlvb(0xff01, make([]byte, 16))} {
			b := append(append([]byte{}, hdr[:cut]...), tail...)
			oracleC06v6(r, b)
			r.Add(eV6Reenc, b)
			outer := append(append([]byte{12, 0}, make([]byte, 32)...), tlvb(9, b)...)
			oracleC06v6(r, outer)
			r.Add(eV6Reenc, outer)
		}
	}
	// every known option type with each octet of its value in turn set to the values where ranges end (0, 1, 32, 33,
	// 127..129, 255): accepted or not, what is accepted must survive re-encoding
	for _, c := range knownV6Codes {
		for k := 0; k < r.N(2, 20); k++ {
			v := r.genOptCode(c, 1).wire
			if len(v) > 200 {
				continue
			}
			for pos := 0; pos < len(v) && pos < 48; pos++ {
				for _, x := range []byte{0, 1, 32, 33, 127, 128, 129, 255} {
					m := append([]byte{}, v...)
					if m[pos] == x {
						continue
					}
					m[pos] = x
					b := append([]byte{1, 1, 2, 3}, tlvb(c, m)...)
					oracleC06v6(r, b)
					if (pos+int(x)+k)%23 == 0 {
						r.Add(eV6Reenc, b)
					}
				}
			}
		}
	}
	// v6: valid, mutated and out-of-range inputs
	n6 := r.N(2500, 150000)
	for i := 0; i < n6; i++ {
		_, b := r.genMsg(r.Pick(0, 1, 2, 3), r.Pick(1, 3, 6))
		if len(b) > 8000 {
			continue
		}
		if i%2 == 0 && len(b) > 4 {
			for k := r.Rng.Intn(3); k >= 0; k-- {
				b[4+r.Rng.Intn(len(b)-4)] = byte(r.Pick(0, 1, 129, 200, 255, r.Rng.Intn(256)))
			}
		}
		oracleC06v6(r, b)
		r.Add(eV6Reenc, b)
		r.Add(eV6Dec, b)
	}
	// F12: a container holding so many embedded DHCPv4 messages shorter than 300 octets that their padded
	// re-encodings no longer fit the container's 16-bit length field (the one shape the Coq fixpoint theorem excludes)
	{
		v4 := make([]byte, 241)
		copy(v4, []byte{1, 1, 6})
		copy(v4[236:], []byte{99, 130, 83, 99})
		v4[240] = 255
		var inner []byte
		for k := 0; k < 260; k++ {
			inner = append(inner, tlvb(87, v4)...)
		}
		b := append([]byte{1, 0xaa, 0xbb, 0xcc}, tlvb(3, append(make([]byte, 12), inner...))...)
		oracleC06v6k(r, b, "v6-reencode-overflow-260-embedded-dhcpv4-in-iana")
		r.Add(eV6Reenc, b)
		// the same container just below the overflow settles
		b = append([]byte{1, 0xaa, 0xbb, 0xcc}, tlvb(3, append(make([]byte, 12), inner[:215*245]...))...)
		oracleC06v6(r, b)
		r.Add(eV6Reenc, b)
	}
	// targeted non-canonical v6 encodings
	ip := make([]byte, 16)
	ip[0], ip[15] = 0x20, 1
	for plen := 0; plen <= 255; plen++ {
		v := append(append(append(w32(100), w32(200)...), byte(plen)), ip...)
		b := append([]byte{1, 0, 0, 1}, tlvb(25, append(append(append([]byte{0, 0, 0, 1}, w32(1)...), w32(2)...), tlvb(26, v)...))...)
		oracleC06v6(r, b)
		r.Add(eV6Reenc, b)
		r.Add(eV6Dec, b)
	}
	for p4 := 0; p4 <= 40; p4 += 1 {
		for _, p6 := range []int{0, 64, 128, 129, 255} {
			for _, fl := range []byte{0, 0x7f, 0x80, 0xff} {
				v := append(append([]byte{byte(p4), byte(p6), 7, fl}, 10, 0, 0, 1), ip...)
				b := append([]byte{1, 0, 0, 1}, tlvb(97, tlvb(98, v))...)
				oracleC06v6(r, b)
				r.Add(eV6Reenc, b)
			}
		}
	}
	for fl := 0; fl < 256; fl++ {
		b := append([]byte{1, 0, 0, 1}, tlvb(97, tlvb(99, []byte{byte(fl), 0x55, 5, 220}))...)
		oracleC06v6(r, b)
		r.Add(eV6Reenc, b)
		r.Add(eV6Dec, b)
	}
	// ORO duplicates, compressed / partial names
	for _, v := range [][]byte{{0, 1, 0, 1, 0, 2}, {0, 23, 0, 24, 0, 23}} {
		b := append([]byte{1, 0, 0, 1}, tlvb(6, v)...)
		oracleC06v6(r, b)
		r.Add(eV6Reenc, b)
		r.Add(eV6Dec, b)
	}
	for _, v := range [][]byte{
		{1, 'a', 2, 'b', 'c', 0, 1, 'x', 0xc0, 2}, {3, 'f', 'o', 'o'}, {1, 'a', 0xc0, 0}, {0, 0, 0}, {0xc0, 5, 1, 'z', 0, 1, 'q', 0},
	} {
		for _, c := range []uint16{24, 39} {
			vv := v
			if c == 39 {
				vv = append([]byte{1}, v...)
			}
			b := append([]byte{1, 0, 0, 1}, tlvb(c, vv)...)
			oracleC06v6(r, b)
			r.Add(eV6Reenc, b)
			r.Add(eV6Dec, b)
		}
		b := append([]byte{1, 0, 0, 1}, tlvb(56, tlvb(3, v))...)
		oracleC06v6(r, b)
		r.Add(eV6Reenc, b)
		r.Add(eV6Dec, b)
	}
	r.Extra["oracle_evaluations"] = n4 + n6
}

// walkV6 visits every option of a message, recursively.
func walkV6(m dhcpv6.DHCPv6, f func(dhcpv6.Option)) {
	var os dhcpv6.Options
	switch x := m.(type) {
	case *dhcpv6.Message:
		os = x.Options.Options
	case *dhcpv6.RelayMessage:
		os = x.Options.Options
	}
	walkOpts(os, f)
}

func walkOpts(os dhcpv6.Options, f func(dhcpv6.Option)) {
	for _, o := range os {
		f(o)
		switch x := o.(type) {
		case *dhcpv6.OptIANA:
			walkOpts(x.Options.Options, f)
		case *dhcpv6.OptIATA:
			walkOpts(x.Options.Options, f)
		case *dhcpv6.OptIAAddress:
			walkOpts(x.Options.Options, f)
		case *dhcpv6.OptIAPD:
			walkOpts(x.Options.Options, f)
		case *dhcpv6.OptIAPrefix:
			walkOpts(x.Options.Options, f)
		case *dhcpv6.Opt4RD:
			walkOpts(x.Options, f)
		default:
			if o.Code() == dhcpv6.OptionRelayMsg {
				if inner, ok := field(o, "Msg").(dhcpv6.DHCPv6); ok && inner != nil {
					walkV6(inner, f)
				}
			}
		}
	}
}

// Addr16 draws a 16-octet address: mostly random, but often one of the forms net.IP treats specially
// (IPv4-mapped, all-zero, loopback, IPv4-compatible, link-local, multicast).
func (r *Run) Addr16() []byte {
	a := r.Bytes(16)
	switch r.Rng.Intn(12) {
	case 0, 1:
		copy(a, []byte{0, 0, 0, 0, 0, 0, 0, 0, 0, 0, 0xff, 0xff})
	case 2:
		a = make([]byte, 16)
	case 3:
		a = make([]byte, 16)
		a[15] = 1
	case 4:
		copy(a, make([]byte, 12))
	case 5:
		copy(a, []byte{0xfe, 0x80, 0, 0, 0, 0, 0, 0})
	case 6:
		copy(a, []byte{0xff, 0x02})
	}
	return a
}

// AddrAny: an address as a caller may hand it to a builder: mostly 16 octets, sometimes the 4-octet form of an IPv4
// address, nil, or a slice of another length (which encodes as the unspecified address)
func (r *Run) AddrAny() []byte {
	switch r.Rng.Intn(10) {
	case 0, 1:
		return r.Bytes(4)
	case 2:
		return nil
	case 3:
		return r.Bytes(r.Pick(1, 5, 15, 17))
	}
	return r.Addr16()
}

// toggleCase flips the case of the first ASCII letter of s (octet-wise: names are not text)
func toggleCase(s string) (string, bool) {
	b := []byte(s)
	for i, c := range b {
		if c >= 'a' && c <= 'z' {
			b[i] = c - 32
			return string(b), true
		}
		if c >= 'A' && c <= 'Z' {
			b[i] = c + 32
			return string(b), true
		}
	}
	return s, false
}

// subCode: a sub-option code of another number space (vendor options, NTP sub-options): often one that collides with
// a top-level option code, with a payload that is not that option's layout; codes below min are avoided
func (r *Run) subCode(min int) int {
	for {
		c := r.n16()
		if r.Rng.Intn(2) == 0 {
			c = int(knownV6Codes[r.Rng.Intn(len(knownV6Codes))])
		}
		if c > min {
			return c
		}
	}
}
