(** Tie for C08: the places where a decoder of the library stores its input
    slice (or a Lexer view of it) without copying, extracted from the Go AST on
    this run (Gen/Alias.v).  The only one is DHCPv6 vendor sub-options, whose
    "input" is the private copy made by ReadAll in OptVendorOpts.FromBytes, so
    no decoded value holds a view of the caller's buffer. *)
From Coq Require Import String List.
Import ListNotations.
From DV Require Import Gen.Alias.
Open Scope string_scope.

Definition expected_retention_sites : list string :=
  ["dhcpv6:vendParseOption: literal field"].

Lemma retention_sites_match : retention_sites = expected_retention_sites.
Proof. reflexivity. Qed.
