#!/bin/bash
# Offline build of the whole framework from files on disk: Coq development
# (full .vo build), extracted OCaml driver, Go table extractor and harness.
set -e
cd "$(dirname "$0")"
export GOFLAGS=-mod=mod GOPROXY=off GOSUMDB=off GOTOOLCHAIN=local CGO_ENABLED=0
REPO=${VERIF_REPO:-/repo}
mkdir -p build evidence
if [ -f tools/gen/main.go ]; then
  (cd tools/gen && go1.26 build -o ../../build/gen . && ../../build/gen "$REPO" ../../coq/theories/Gen)
fi
(cd coq && coq_makefile -f _CoqProject -o Makefile && timeout 3000 make -j16)
cp coq/model.ml coq/model.mli driver/
(cd driver && ocamlfind ocamlopt -O3 -w -a model.mli model.ml main.ml -o driver)
sha256sum coq/model.ml driver/main.ml | sha256sum >/dev/null
python3 - <<'PY'
import hashlib
h = hashlib.sha256(open("coq/model.ml","rb").read() + open("driver/main.ml","rb").read()).hexdigest()
open("driver/.stamp","w").write(h)
PY
cp "$REPO/go.sum" harness/go.sum
(cd harness && go1.26 build -tags verif -o ../build/harness . && go1.26 test -c -tags verif -o ../build/synch .)
echo setup ok
