(** Option area: totality, fuel irrelevance, declarative grammar, and decoding
    of what Marshal writes. *)
From DV Require Import Base.Bytes V4.Model.
From Coq Require Import Permutation.

Definition good_code (c : byte) : Prop := c <> opt_pad /\ c <> opt_end.

Lemma good_code_beqb c : good_code c -> beqb c opt_pad = false /\ beqb c opt_end = false.
Proof. intros [H1 H2]. split; apply beqb_neq; assumption. Qed.

(** * Totality and fuel *)
Lemma opts_loop_total : forall f d acc, length d < f -> opts_loop f d acc <> Fuel.
Proof.
  induction f as [|f IH]; intros d acc H; [lia|]. cbn [opts_loop].
  destruct d as [|c r]; [discriminate|].
  destruct (beqb c opt_pad). { apply IH. cbn in H. lia. }
  destruct (beqb c opt_end); [discriminate|].
  destruct r as [|n r']; [discriminate|].
  destruct (length r' <? bnat n) eqn:L; [discriminate|].
  apply IH. rewrite skipn_length. cbn in H. lia.
Qed.

Lemma opts_loop_nopanic : forall f d acc, opts_loop f d acc <> Panic.
Proof.
  induction f as [|f IH]; intros d acc; cbn [opts_loop]; [discriminate|].
  destruct d as [|c r]; [discriminate|].
  destruct (beqb c opt_pad); [apply IH|].
  destruct (beqb c opt_end); [discriminate|].
  destruct r as [|n r']; [discriminate|].
  destruct (length r' <? bnat n); [discriminate | apply IH].
Qed.

Lemma opts_loop_mono : forall f d acc, opts_loop f d acc <> Fuel ->
  forall f', f <= f' -> opts_loop f' d acc = opts_loop f d acc.
Proof.
  induction f as [|f IH]; intros d acc H f' Hle; [cbn in H; congruence|].
  destruct f' as [|f']; [lia|]. cbn [opts_loop] in *.
  destruct d as [|c r]; [reflexivity|].
  destruct (beqb c opt_pad). { apply IH; [exact H | lia]. }
  destruct (beqb c opt_end); [reflexivity|].
  destruct r as [|n r']; [reflexivity|].
  destruct (length r' <? bnat n); [reflexivity|].
  apply IH; [exact H | lia].
Qed.

(** * The grammar of an option area (RFC 2131 section 3 / RFC 2132 section 2 /
      RFC 3396): pad octets, code-length-value items, an End octet. *)
Inductive area_denotes : bytes -> optmap -> optmap -> bool -> Prop :=
| ad_nil acc : area_denotes [] acc acc false
| ad_pad r acc m e : area_denotes r acc m e -> area_denotes (opt_pad :: r) acc m e
| ad_end junk acc : area_denotes (opt_end :: junk) acc acc true
| ad_opt c n data r acc m e :
    good_code c -> length data = bnat n ->
    area_denotes r (append_opt acc c data) m e ->
    area_denotes (c :: n :: data ++ r) acc m e.

Lemma opts_loop_sound : forall f d acc m e,
  opts_loop f d acc = Ok (m, e) -> area_denotes d acc m e.
Proof.
  induction f as [|f IH]; intros d acc m e; cbn [opts_loop]; [discriminate|].
  destruct d as [|c r]. { intros [= <- <-]. constructor. }
  destruct (beqb c opt_pad) eqn:P.
  { apply beqb_eq in P. subst c. intros H. constructor. apply IH. exact H. }
  destruct (beqb c opt_end) eqn:E.
  { apply beqb_eq in E. subst c. intros [= <- <-]. constructor. }
  destruct r as [|n r']; [discriminate|].
  destruct (length r' <? bnat n) eqn:L; [discriminate|]. apply Nat.ltb_ge in L.
  intros H. apply IH in H.
  rewrite <- (firstn_skipn (bnat n) r') at 1.
  apply ad_opt.
  - split; apply beqb_neq; assumption.
  - rewrite firstn_length. lia.
  - exact H.
Qed.

Lemma opts_loop_complete d acc m e : area_denotes d acc m e ->
  forall f, length d < f -> opts_loop f d acc = Ok (m, e).
Proof.
  induction 1 as [acc|r acc m e H IH|junk acc|c n data r acc m e Hc Hl H IH]; intros f Hf.
  - destruct f; [cbn in Hf; lia|]. reflexivity.
  - destruct f; [lia|]. cbn [opts_loop].
    assert (P : beqb opt_pad opt_pad = true) by (apply beqb_eq; reflexivity). rewrite P.
    apply IH. cbn in Hf. lia.
  - destruct f; [lia|]. cbn [opts_loop].
    assert (P : beqb opt_end opt_pad = false) by (apply beqb_neq; discriminate). rewrite P.
    assert (E : beqb opt_end opt_end = true) by (apply beqb_eq; reflexivity). rewrite E. reflexivity.
  - destruct f; [lia|]. cbn [opts_loop].
    destruct (good_code_beqb c Hc) as [P E]. rewrite P, E.
    assert (L : (length (data ++ r) <? bnat n) = false).
    { apply Nat.ltb_ge. rewrite app_length. lia. }
    rewrite L.
    rewrite <- Hl. rewrite skipn_app, skipn_all, Nat.sub_diag. cbn [skipn app].
    rewrite firstn_app, firstn_all, Nat.sub_diag. cbn [firstn]. rewrite app_nil_r.
    apply IH. cbn in Hf. rewrite app_length in Hf. lia.
Qed.

Theorem opts_loop_exact d acc m e :
  opts_loop (S (length d)) d acc = Ok (m, e) <-> area_denotes d acc m e.
Proof.
  split; [apply opts_loop_sound | intros H; apply (opts_loop_complete d acc m e H); lia].
Qed.

(** * What Marshal writes decodes to the same map *)

Lemma append_append a : forall c x y, append_opt (append_opt a c x) c y = append_opt a c (x ++ y).
Proof.
  induction a as [|[k v] a IH]; intros c x y; cbn [append_opt].
  - assert (E : beqb c c = true) by (apply beqb_eq; reflexivity). rewrite E. reflexivity.
  - destruct (beqb k c) eqn:E; cbn [append_opt]; rewrite E.
    + rewrite <- app_assoc. reflexivity.
    + rewrite IH. reflexivity.
Qed.

Lemma chunks_spec : forall f v, length v <= f -> v <> [] ->
  concat (chunks f v) = v /\ Forall (fun ch => 1 <= length ch <= 255) (chunks f v) /\ chunks f v <> [].
Proof.
  induction f as [|f IH]; intros v Hf Hv.
  - destruct v; [congruence | cbn in Hf; lia].
  - cbn [chunks]. destruct (length v <=? 255) eqn:L.
    + apply Nat.leb_le in L. cbn. rewrite app_nil_r. repeat split; try discriminate.
      constructor; [|constructor]. destruct v; [congruence | cbn in *; lia].
    + apply Nat.leb_gt in L.
      assert (Hs : length (skipn 255 v) <= f) by (rewrite skipn_length; lia).
      assert (Hn : skipn 255 v <> []).
      { intros K. apply (f_equal (@length byte)) in K. rewrite skipn_length in K. cbn in K. lia. }
      destruct (IH _ Hs Hn) as (C & F & _).
      cbn [concat]. rewrite C, firstn_skipn. repeat split; try discriminate.
      constructor; [rewrite firstn_length; lia | exact F].
Qed.

(** one instance *)
Lemma opts_loop_item c ch rest acc f : good_code c -> length ch <= 255 ->
  opts_loop (S f) (c :: n2b (N.of_nat (length ch)) :: ch ++ rest) acc = opts_loop f rest (append_opt acc c ch).
Proof.
  intros Hc Hl. cbn [opts_loop]. destruct (good_code_beqb c Hc) as [P E]. rewrite P, E.
  assert (B : bnat (n2b (N.of_nat (length ch))) = length ch).
  { unfold bnat. rewrite n2b_small by lia. lia. }
  rewrite B.
  assert (L : (length (ch ++ rest) <? length ch) = false) by (apply Nat.ltb_ge; rewrite app_length; lia).
  rewrite L. rewrite skipn_app, skipn_all, Nat.sub_diag. cbn [skipn app].
  rewrite firstn_app, firstn_all, Nat.sub_diag. cbn [firstn]. rewrite app_nil_r. reflexivity.
Qed.

Lemma opts_loop_chunks c : forall chs rest acc f, good_code c ->
  Forall (fun ch => 1 <= length ch <= 255) chs ->
  opts_loop (length chs + f) (flat_map (fun ch => c :: n2b (N.of_nat (length ch)) :: ch) chs ++ rest) acc
  = opts_loop f rest (fold_left (fun a ch => append_opt a c ch) chs acc).
Proof.
  induction chs as [|ch chs IH]; intros rest acc f Hc H; [reflexivity|].
  inversion H as [|? ? Hch Hchs]; subst.
  cbn [flat_map length plus fold_left]. rewrite <- !app_assoc. cbn [app].
  rewrite opts_loop_item by (auto; lia). apply IH; assumption.
Qed.

Lemma fold_append_chunks c : forall chs acc x,
  fold_left (fun a ch => append_opt a c ch) chs (append_opt acc c x) = append_opt acc c (x ++ concat chs).
Proof.
  induction chs as [|ch chs IH]; intros acc x; cbn [fold_left concat].
  - rewrite app_nil_r. reflexivity.
  - rewrite append_append, IH, app_assoc. reflexivity.
Qed.

Lemma opts_loop_marshal_opt c v rest acc r f : good_code c ->
  opts_loop f rest (append_opt acc c v) = r -> r <> Fuel ->
  exists f', opts_loop f' (marshal_opt c v ++ rest) acc = r.
Proof.
  intros Hc H Hr. unfold marshal_opt. destruct v as [|x v'].
  - exists (S f). change ([c; x00] ++ rest) with (c :: n2b (N.of_nat (length (@nil byte))) :: [] ++ rest).
    rewrite opts_loop_item by (auto; cbn; lia). exact H.
  - set (v := x :: v') in *.
    destruct (chunks_spec (length v) v (le_n _) ltac:(discriminate)) as (C & F & N).
    exists (length (chunks (length v) v) + f).
    rewrite opts_loop_chunks by assumption.
    destruct (chunks (length v) v) as [|ch chs] eqn:K; [congruence|].
    cbn [fold_left]. rewrite fold_append_chunks. cbn [concat] in C. rewrite C. exact H.
Qed.

(** association-list view of what is marshalled, in order *)
Definition enc_kvs (kvs : list (byte * bytes)) : bytes := flat_map (fun kv => marshal_opt (fst kv) (snd kv)) kvs.
Definition fold_append (kvs : list (byte * bytes)) (acc : optmap) : optmap :=
  fold_left (fun a kv => append_opt a (fst kv) (snd kv)) kvs acc.

Lemma opts_loop_kvs : forall kvs junk acc, Forall (fun kv => good_code (fst kv)) kvs ->
  exists f, opts_loop f (enc_kvs kvs ++ opt_end :: junk) acc = Ok (fold_append kvs acc, true).
Proof.
  induction kvs as [|[c v] kvs IH]; intros junk acc H.
  - exists 1. reflexivity.
  - inversion H as [|? ? Hc Hk]; subst. cbn [fst] in Hc.
    destruct (IH junk (append_opt acc c v) Hk) as (f & Hf).
    unfold enc_kvs. cbn [flat_map fst snd]. rewrite <- app_assoc.
    destruct (opts_loop_marshal_opt c v _ acc _ f Hc Hf ltac:(discriminate)) as (f' & Hf').
    exists f'. exact Hf'.
Qed.

Theorem opts_from_bytes_kvs kvs junk : Forall (fun kv => good_code (fst kv)) kvs ->
  opts_from_bytes (enc_kvs kvs ++ opt_end :: junk) true [] = Ok (fold_append kvs []).
Proof.
  intros H. destruct (opts_loop_kvs kvs junk [] H) as (f & Hf).
  unfold opts_from_bytes.
  destruct (enc_kvs kvs ++ opt_end :: junk) as [|x d] eqn:E.
  { destruct (enc_kvs kvs); discriminate. }
  set (D := x :: d) in *.
  assert (T : opts_loop (S (length D)) D [] <> Fuel) by (apply opts_loop_total; lia).
  destruct (Nat.le_ge_cases f (S (length D))) as [Hle|Hge].
  - rewrite (opts_loop_mono f D [] ltac:(rewrite Hf; discriminate) _ Hle), Hf. reflexivity.
  - rewrite <- (opts_loop_mono _ D [] T f Hge), Hf. reflexivity.
Qed.

(** * lookup in the reassembled map *)
Lemma lookup_append a : forall c k v,
  lookup c (append_opt a k v) =
  if beqb k c then Some (match lookup c a with Some x => x ++ v | None => v end) else lookup c a.
Proof.
  induction a as [|[k' v'] a IH]; intros c k v; cbn [append_opt lookup].
  - destruct (beqb k c); reflexivity.
  - destruct (beqb k' k) eqn:E1; cbn [lookup].
    + apply beqb_eq in E1. subst k'. destruct (beqb k c) eqn:E2; reflexivity.
    + destruct (beqb k' c) eqn:E2.
      * apply beqb_eq in E2. subst k'.
        assert (E3 : beqb k c = false) by (apply beqb_neq; apply beqb_neq in E1; congruence).
        rewrite E3. reflexivity.
      * apply IH.
Qed.

Fixpoint lookup_kvs (c : byte) (kvs : list (byte * bytes)) : option bytes :=
  match kvs with [] => None | (k, v) :: r => if beqb k c then Some v else lookup_kvs c r end.

Lemma lookup_fold_append_notin c : forall kvs acc, ~ In c (map fst kvs) ->
  lookup c (fold_append kvs acc) = lookup c acc.
Proof.
  induction kvs as [|[k v] kvs IH]; intros acc H; [reflexivity|].
  unfold fold_append in *. cbn [fold_left fst snd]. rewrite IH.
  - rewrite lookup_append.
    assert (E : beqb k c = false) by (apply beqb_neq; intros ->; apply H; left; reflexivity).
    rewrite E. reflexivity.
  - intros K. apply H. right. exact K.
Qed.

Lemma lookup_fold_append c : forall kvs acc, NoDup (map fst kvs) -> lookup c acc = None ->
  lookup c (fold_append kvs acc) = lookup_kvs c kvs.
Proof.
  induction kvs as [|[k v] kvs IH]; intros acc Hnd Hacc; [exact Hacc|].
  cbn [map fst] in Hnd. inversion Hnd as [|? ? Hk Hnd']; subst.
  unfold fold_append in *. cbn [fold_left fst snd lookup_kvs].
  destruct (beqb k c) eqn:E.
  - apply beqb_eq in E. subst k.
    change (fold_left _ kvs ?a) with (fold_append kvs a).
    rewrite lookup_fold_append_notin by exact Hk.
    rewrite lookup_append. assert (E : beqb c c = true) by (apply beqb_eq; reflexivity).
    rewrite E, Hacc. reflexivity.
  - apply IH; [exact Hnd'|]. rewrite lookup_append, E. exact Hacc.
Qed.
