(** C19 — Domain-name label encoding round-trips and decoding follows RFC 1035.
    Only statements; every proof is [exact <lemma>]. *)
From DV Require Import Base.Bytes Label.Model Label.Total Label.Spec Label.RoundTrip Label.History.

(** Decoding any byte string terminates without panic: a value or an error. *)
Theorem C19_decode_total : forall b : bytes,
  match labels_from_bytes b with Ok _ | Err => True | Panic | Fuel => False end.
Proof. exact labels_from_bytes_total. Qed.
Print Assumptions C19_decode_total.

(** Decoding either fails or yields exactly the names the declarative
    RFC 1035 3.1 / 4.1.4 (+ RFC 4704 partial name) reading assigns; the
    relation describes every accepted input, so it is functional. *)
Theorem C19_decode_exact : forall (b : bytes) (ns : list bytes),
  labels_from_bytes b = Ok ns <-> names_from b [] 0 ns.
Proof. exact decode_characterised. Qed.
Print Assumptions C19_decode_exact.

(** Encoding any list of valid names (any number of names and labels) and
    decoding it returns the same list. *)
Theorem C19_roundtrip : forall ns : list bytes,
  Forall valid_name ns -> labels_from_bytes (labels_to_bytes ns) = Ok ns.
Proof. exact roundtrip. Qed.
Print Assumptions C19_roundtrip.

(** The encoding is the uncompressed RFC 1035 3.1 layout. *)
Theorem C19_encode_layout : forall ls : list bytes, ls <> [] -> Forall valid_label ls ->
  label_to_bytes (dotted [] ls) = flat_map (fun l => n2b (N.of_nat (length l)) :: l) ls ++ [x00].
Proof. exact encode_layout. Qed.
Print Assumptions C19_encode_layout.

(** A label set parsed from bytes re-encodes to exactly those bytes ... *)
Theorem C19_reencode_original : forall (b : bytes) (l : labels),
  labels_from (Some b) = Ok l -> labels_to l = Some b.
Proof. exact reencode_original. Qed.
Print Assumptions C19_reencode_original.

(** ... until its names are changed, after which it encodes the changed names. *)
Theorem C19_reencode_modified : forall (b : bytes) (l : labels) (ns' : list bytes),
  labels_from (Some b) = Ok l -> ns' <> names l ->
  labels_to (mkLabels (original l) ns') = Some (labels_to_bytes ns').
Proof. exact reencode_modified. Qed.
Print Assumptions C19_reencode_modified.

(** Over histories: whatever sequence of edits of its name list a parsed value has gone through (encodings taken
    in between change nothing), its encoding depends on the received octets and the CURRENT names only - the
    received octets while the names are exactly the received ones, the fresh encoding of the current names
    otherwise; a constructed value always encodes its current names. *)
Theorem C19_reencode_after_any_edits : forall (b : bytes) (l : labels) (eds : list (list bytes)),
  labels_from (Some b) = Ok l ->
  labels_to (edit_run l eds) =
    if same (names l) (names (edit_run l eds)) then Some b else Some (labels_to_bytes (names (edit_run l eds))).
Proof. exact reencode_after_edits. Qed.
Print Assumptions C19_reencode_after_any_edits.

Theorem C19_constructed_after_any_edits : forall (ns : list bytes) (eds : list (list bytes)),
  labels_to (edit_run (mkLabels None ns) eds) = Some (labels_to_bytes (names (edit_run (mkLabels None ns) eds))).
Proof. exact encode_fresh_after_edits. Qed.
Print Assumptions C19_constructed_after_any_edits.

Theorem C19_only_the_last_edit_matters : forall (b : bytes) (l : labels) (eds1 eds2 : list (list bytes)) (e : list bytes),
  labels_from (Some b) = Ok l -> labels_to (edit_run l (eds1 ++ [e])) = labels_to (edit_run l (eds2 ++ [e])).
Proof. exact reencode_last_edit_only. Qed.
Print Assumptions C19_only_the_last_edit_matters.

(** Non-vacuity: a compressed block ("a.bc", then "x" + pointer to "bc"),
    and a valid two-name list at the label-length limit. *)
Example C19_example_compressed :
  labels_from_bytes ["001"; "a"; "002"; "b"; "c"; "000"; "001"; "x"; "192"; "002"]%byte
  = Ok [["a"; "."; "b"; "c"]; ["x"; "."; "b"; "c"]]%byte.
Proof. vm_compute. reflexivity. Qed.

Example C19_example_valid : Forall valid_name [dotted [] [repeat "a"%byte 63; ["b"]%byte]; []].
Proof.
  constructor; [|constructor; [apply vn_root | constructor]].
  apply vn_labels; [discriminate | | vm_compute; lia].
  constructor; [|constructor; [|constructor]]; split; try (cbn; lia).
  - intros H. apply repeat_spec in H. discriminate.
  - cbn. intros [H|[]]. discriminate.
Qed.
