(** C13: the lease exchanges of nclient4 (DiscoverOffer / RequestFromOffer /
    Request: dhcpv4/nclient4/client.go:451-545) and nclient6 (RapidSolicit /
    Solicit / Request: dhcpv6/nclient6/client.go:346-393) as functions of the
    datagrams the servers send during each phase, in arrival order.
    By C10/C11/C12 a SendAndRead call returns the first datagram of its phase
    that passes the receive loop's filter, carries the call's transaction id
    and satisfies the matcher. *)
From DV Require Import Base.Bytes V4.Model V4.Accessors V4.Builders V6.Model V6.Relay.

(** * DHCPv4 *)

(** receive-loop filter + routing: decodes, BOOTREPLY, our hardware address, our transaction id *)
Definition reaches_call (hw xid : bytes) (w : bytes) : option pkt4 :=
  match dec4 w with
  | Ok p => if (p_op p =? op_reply)%N && bytes_eqb (p_chaddr p) hw && bytes_eqb (p_xid p) xid then Some p else None
  | _ => None
  end.

Definition msg_type4 (p : pkt4) : N := match acc_u8 (get_opt (p_opts p) (n2b 53)) with Some n => n | None => 0 end.
Definition server_id (p : pkt4) : option bytes := acc_ip (get_opt (p_opts p) (n2b 54)).

(** net.IP.Equal on ServerIdentifier() results (nil or 4 octets) *)
Definition sid_equal (a b : option bytes) : bool :=
  match a, b with
  | None, None => true
  | Some x, Some y => bytes_eqb x y
  | _, _ => false
  end.

Definition is_offer (p : pkt4) : bool := (msg_type4 p =? 2)%N.
Definition completes (offer p : pkt4) : bool :=
  sid_equal (server_id p) (server_id offer) && ((msg_type4 p =? 5) || (msg_type4 p =? 6))%N.

Fixpoint first_reply (hw xid : bytes) (accept : pkt4 -> bool) (ws : list bytes) : option pkt4 :=
  match ws with
  | [] => None
  | w :: r => match reaches_call hw xid w with
              | Some p => if accept p then Some p else first_reply hw xid accept r
              | None => first_reply hw xid accept r
              end
  end.

Definition max_message_size_mod : modifier := MGeneric (n2b 57) (be16 1500).

Definition build_request (offer : pkt4) : pkt4 :=
  new_with (zeros 4) (defaults_request_from_offer offer) [max_message_size_mod].

Inductive lease_result :=
| NoOffer                                  (* no acceptable OFFER: the discover call fails *)
| NoAnswer (offer request : pkt4)          (* REQUEST sent, neither ACK nor NAK from the selected server *)
| Leased (offer request ack : pkt4)
| Nak (offer request nak : pkt4).

(** Client.Request: DISCOVER/OFFER then REQUEST/ACK *)
Definition lease_exchange (hw xid : bytes) (phase1 phase2 : list bytes) : lease_result :=
  match first_reply hw xid is_offer phase1 with
  | None => NoOffer
  | Some offer =>
    let request := build_request offer in
    match first_reply hw (p_xid request) (completes offer) phase2 with
    | None => NoAnswer offer request
    | Some r => if (msg_type4 r =? 6)%N then Nak offer request r else Leased offer request r
    end
  end.

(** * theorems *)

Lemma first_reply_spec hw xid accept ws p :
  first_reply hw xid accept ws = Some p <->
  exists pre w post, ws = pre ++ w :: post /\ reaches_call hw xid w = Some p /\ accept p = true /\
    Forall (fun w' => match reaches_call hw xid w' with Some q => accept q = false | None => True end) pre.
Proof.
  split.
  - revert p. induction ws as [|w r IH]; intros p; cbn [first_reply]; [discriminate|].
    destruct (reaches_call hw xid w) as [q|] eqn:E.
    + destruct (accept q) eqn:A.
      * intros [= <-]. exists [], w, r. repeat split; auto.
      * intros H. destruct (IH p H) as (pre & w' & post & -> & Hr & Ha & F).
        exists (w :: pre), w', post. repeat split; auto. constructor; [rewrite E; exact A | exact F].
    + intros H. destruct (IH p H) as (pre & w' & post & -> & Hr & Ha & F).
      exists (w :: pre), w', post. repeat split; auto. constructor; [rewrite E; exact I | exact F].
  - intros (pre & w & post & -> & Hr & Ha & F). induction F as [|w' pre Hw F IH]; cbn [app first_reply].
    + rewrite Hr, Ha. reflexivity.
    + destruct (reaches_call hw xid w') as [q|]; [rewrite Hw|]; exact IH.
Qed.

(** the REQUEST carries the client's hardware address, the offered address as
    requested address and the offering server's identifier, under the offer's transaction id *)
Theorem request_carries_offer offer :
  let r := build_request offer in
  p_chaddr r = p_chaddr offer /\ p_xid r = p_xid offer /\
  lookup (n2b 50) (p_opts r) = Some (ip_to4_bytes (p_yiaddr offer)) /\
  lookup (n2b 53) (p_opts r) = Some [n2b 3] /\
  match get_opt (p_opts offer) (n2b 54) with
  | Some v => lookup (n2b 54) (p_opts r) = Some v
  | None => lookup (n2b 54) (p_opts r) = None
  end.
Proof.
  unfold build_request, new_with, build, defaults_request_from_offer, max_message_size_mod. cbn [app fold_left apply_mod].
  destruct (get_opt (p_opts offer) (n2b 54)) as [v|] eqn:E;
    cbn [with_opts p_chaddr p_xid p_opts base_pkt update_opt lookup get_opt]; repeat split; reflexivity.
Qed.

(** the exchange is completed only by an ACK or NAK of the selected server
    that reached the call; an ACK yields that very offer and ACK, a NAK the NAK
    error; every reply before it that is not such a message was ignored *)
Theorem lease_completed_only_by_selected_server hw xid ph1 ph2 offer req r :
  lease_exchange hw xid ph1 ph2 = Leased offer req r \/ lease_exchange hw xid ph1 ph2 = Nak offer req r ->
  first_reply hw xid is_offer ph1 = Some offer /\ req = build_request offer /\
  (exists pre w post, ph2 = pre ++ w :: post /\ reaches_call hw (p_xid req) w = Some r /\
     sid_equal (server_id r) (server_id offer) = true /\ (msg_type4 r = 5 \/ msg_type4 r = 6)%N /\
     Forall (fun w' => match reaches_call hw (p_xid req) w' with Some q => completes offer q = false | None => True end) pre).
Proof.
  unfold lease_exchange. destruct (first_reply hw xid is_offer ph1) as [o|] eqn:O; [|intros [H|H]; discriminate].
  destruct (first_reply hw (p_xid (build_request o)) (completes o) ph2) as [x|] eqn:F; [|intros [H|H]; discriminate].
  intros H. assert (E : o = offer /\ build_request o = req /\ x = r).
  { destruct (msg_type4 x =? 6)%N; destruct H as [H|H]; try discriminate; injection H as <- <- <-; auto. }
  destruct E as (-> & <- & ->). split; [reflexivity|]. split; [reflexivity|].
  apply first_reply_spec in F. destruct F as (pre & w & post & -> & Hr & Hc & Fa).
  exists pre, w, post. unfold completes in Hc. apply andb_true_iff in Hc. destruct Hc as [Hs Ht].
  repeat split; auto. apply orb_true_iff in Ht. destruct Ht as [Ht|Ht]; apply N.eqb_eq in Ht; auto.
Qed.

Theorem ack_yields_lease hw xid ph1 ph2 offer req r :
  lease_exchange hw xid ph1 ph2 = Leased offer req r -> msg_type4 r = 5%N.
Proof.
  intros H. destruct (lease_completed_only_by_selected_server hw xid ph1 ph2 offer req r (or_introl H)) as (_ & _ & (pre & w & post & _ & _ & _ & Ht & _)).
  unfold lease_exchange in H. destruct (first_reply hw xid is_offer ph1); [|discriminate].
  destruct (first_reply hw _ _ ph2) as [x|]; [|discriminate].
  destruct (msg_type4 x =? 6)%N eqn:E; [discriminate|]. injection H as _ _ ->. apply N.eqb_neq in E. destruct Ht; congruence.
Qed.

Theorem nak_yields_error hw xid ph1 ph2 offer req r :
  lease_exchange hw xid ph1 ph2 = Nak offer req r -> msg_type4 r = 6%N.
Proof.
  unfold lease_exchange. destruct (first_reply hw xid is_offer ph1); [|discriminate].
  destruct (first_reply hw _ _ ph2) as [x|]; [|discriminate].
  destruct (msg_type4 x =? 6)%N eqn:E; [|discriminate]. intros [= _ _ <-]. apply N.eqb_eq. exact E.
Qed.

(** * DHCPv6 *)
Definition reaches_call6 (xid : bytes) (w : bytes) : option msg6 :=
  match dec_message w with
  | Ok (Msg t x os) => if bytes_eqb x xid then Some (Msg t x os) else None
  | _ => None
  end.
Fixpoint first_reply6 (xid : bytes) (accept : msg6 -> bool) (ws : list bytes) : option msg6 :=
  match ws with
  | [] => None
  | w :: r => match reaches_call6 xid w with
              | Some m => if accept m then Some m else first_reply6 xid accept r
              | None => first_reply6 xid accept r
              end
  end.

Inductive v6_result := V6NoReply | V6Reply (m : msg6) | V6BuildError | V6RequestNoReply (req : msg6) | V6Requested (req reply : msg6).

(** RapidSolicit: a REPLY is accepted directly; an ADVERTISE is followed by REQUEST/REPLY paired by the new transaction id *)
Definition rapid_solicit (sol_xid req_xid : bytes) (phase1 phase2 : list bytes) : v6_result :=
  match first_reply6 sol_xid (fun m => ((msg_type m =? 7) || (msg_type m =? 2))%N) phase1 with
  | None => V6NoReply
  | Some m =>
    if (msg_type m =? 7)%N then V6Reply m
    else match new_request_from_advertise req_xid m with
         | Ok req => match first_reply6 req_xid (fun _ => true) phase2 with
                     | Some r => V6Requested req r
                     | None => V6RequestNoReply req
                     end
         | _ => V6BuildError
         end
  end.

Theorem rapid_commit_reply_accepted sol_xid req_xid ph1 ph2 m :
  rapid_solicit sol_xid req_xid ph1 ph2 = V6Reply m -> msg_type m = 7%N /\
  exists w, In w ph1 /\ reaches_call6 sol_xid w = Some m.
Proof.
  unfold rapid_solicit. destruct (first_reply6 sol_xid _ ph1) as [x|] eqn:F; [|discriminate].
  destruct (msg_type x =? 7)%N eqn:E.
  - intros [= <-]. split; [apply N.eqb_eq; exact E|].
    clear E. revert F. induction ph1 as [|w r IH]; cbn [first_reply6]; [discriminate|].
    destruct (reaches_call6 sol_xid w) as [q|] eqn:R.
    + destruct ((msg_type q =? 7) || (msg_type q =? 2))%N.
      * intros [= <-]. exists w. split; [left; reflexivity | exact R].
      * intros H. destruct (IH H) as (w' & Hi & Hr). exists w'. split; [right; exact Hi | exact Hr].
    + intros H. destruct (IH H) as (w' & Hi & Hr). exists w'. split; [right; exact Hi | exact Hr].
  - destruct (new_request_from_advertise req_xid x) as [req| | |]; [|discriminate..].
    destruct (first_reply6 req_xid _ ph2); discriminate.
Qed.

(** REQUEST / REPLY are paired by the REQUEST's own transaction id: the outcome is the FIRST datagram of
    the second phase that decodes as a message carrying that id; everything before it (other ids - e.g. a
    late or duplicated answer to the SOLICIT -, relay messages, undecodable datagrams) is ignored *)
Lemma first_reply6_any xid ws r : first_reply6 xid (fun _ => true) ws = Some r ->
  exists pre w post, ws = pre ++ w :: post /\ reaches_call6 xid w = Some r /\
                     Forall (fun x => reaches_call6 xid x = None) pre.
Proof.
  induction ws as [|w ws IH]; cbn [first_reply6]; [discriminate|].
  destruct (reaches_call6 xid w) as [m|] eqn:R.
  - intros [= <-]. exists [], w, ws. split; [reflexivity|]. split; [exact R | constructor].
  - intros H. destruct (IH H) as (pre & w' & post & -> & Hr & F).
    exists (w :: pre), w', post. split; [reflexivity|]. split; [exact Hr | constructor; assumption].
Qed.

Theorem request_paired_by_xid sol_xid req_xid ph1 ph2 req r :
  rapid_solicit sol_xid req_xid ph1 ph2 = V6Requested req r ->
  exists pre w post, ph2 = pre ++ w :: post /\ reaches_call6 req_xid w = Some r /\
                     Forall (fun x => reaches_call6 req_xid x = None) pre.
Proof.
  unfold rapid_solicit. destruct (first_reply6 sol_xid _ ph1) as [x|]; [|discriminate].
  destruct (msg_type x =? 7)%N; [discriminate|].
  destruct (new_request_from_advertise req_xid x) as [rq| | |]; [|discriminate..].
  destruct (first_reply6 req_xid _ ph2) as [rr|] eqn:F; [|discriminate].
  intros [= <- <-]. apply first_reply6_any. exact F.
Qed.

Lemma reaches_call6_xid xid w t x os : reaches_call6 xid w = Some (Msg t x os) -> x = xid.
Proof.
  unfold reaches_call6. destruct (dec_message w) as [[t' x' os'|]| | |]; try discriminate.
  destruct (bytes_eqb x' xid) eqn:E; [|discriminate]. intros [= _ <- _]. apply bytes_eqb_eq. exact E.
Qed.

(** in particular a datagram that carries another transaction id - the SOLICIT's, say - is never the outcome *)
Corollary other_xid_ignored req_xid w : (forall t os, dec_message w <> Ok (Msg t req_xid os)) -> reaches_call6 req_xid w = None.
Proof.
  intros H. unfold reaches_call6. destruct (dec_message w) as [[t x os|]| | |] eqn:D; try reflexivity.
  destruct (bytes_eqb x req_xid) eqn:E; [|reflexivity]. apply bytes_eqb_eq in E. subst x. exfalso. exact (H t os eq_refl).
Qed.
