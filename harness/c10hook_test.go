//go:build verif

package main

import (
	"context"
	"fmt"
	"net"
	"testing"
	"testing/synctest"
	"time"

	"github.com/insomniacslk/dhcp/dhcpv4"
	"github.com/insomniacslk/dhcp/dhcpv4/nclient4"
	"github.com/insomniacslk/dhcp/dhcpv6"
	"github.com/insomniacslk/dhcp/dhcpv6/nclient6"
)

// Micro-step schedule forced through the verif hooks: the schedule of
// Client.Routing.f8_schedule on the real client.
//   A registers id X; A's context ends: close(done), A parks before taking the lock;
//   a datagram for X arrives: the receive loop reaps A's entry (repeat until select picks <-done);
//   B registers X; A resumes and finishes cancel; a response for X arrives.
// On a correct client B returns that response.
func f8Schedule(r *Run, v6 bool) {
	what := "nclient4"
	if v6 {
		what = "nclient6"
	}
	var panicked interface{}
	var bGot bool
	var bErr error
	reaped := false
	runBubble(func(t *testing.T) {
		conn := newLabConn()
		gate := make(chan struct{})
		parked := make(chan struct{}, 8)
		armed := true
		hook := func(point string) {
			if point == "cancel.done-closed" && armed {
				armed = false
				parked <- struct{}{}
				<-gate
			}
		}
		mk4 := func(p byte) []byte {
			m, _ := dhcpv4.New(dhcpv4.WithTransactionID(dhcpv4.TransactionID{0, 0, 0, 7}), dhcpv4.WithHwAddr(labHW),
				dhcpv4.WithMessageType(dhcpv4.MessageTypeOffer), dhcpv4.WithGeneric(dhcpv4.GenericOptionCode(224), []byte{p}))
			m.OpCode = dhcpv4.OpcodeBootReply
			return m.ToBytes()
		}
		mk6 := func(p byte) []byte {
			m := &dhcpv6.Message{MessageType: dhcpv6.MessageTypeReply, TransactionID: dhcpv6.TransactionID{0, 0, 7}}
			m.AddOption(&dhcpv6.OptionGeneric{OptionCode: 4000, OptionData: []byte{p}})
			return m.ToBytes()
		}
		send := func(b []byte) {
			select {
			case conn.in <- b:
			case <-conn.closed:
			}
			synctest.Wait()
		}
		var c4 *nclient4.Client
		var c6 *nclient6.Client
		if v6 {
			nclient6.VerifHook = hook
			defer func() { nclient6.VerifHook = nil }()
			c6, _ = nclient6.NewWithConn(conn, labHW, nclient6.WithTimeout(time.Hour), nclient6.WithRetry(1))
		} else {
			nclient4.VerifHook = hook
			defer func() { nclient4.VerifHook = nil }()
			c4, _ = nclient4.NewWithConn(conn, labHW, nclient4.WithTimeout(time.Hour), nclient4.WithRetry(1))
		}
		never4 := func(*dhcpv4.DHCPv4) bool { return false }
		never6 := func(*dhcpv6.Message) bool { return false }
		// A
		ctxA, cancelA := context.WithCancel(context.Background())
		aDone := make(chan struct{})
		go func() {
			defer close(aDone)
			if v6 {
				c6.SendAndRead(ctxA, nclient6.AllDHCPRelayAgentsAndServers, &dhcpv6.Message{MessageType: 1, TransactionID: dhcpv6.TransactionID{0, 0, 7}}, never6)
			} else {
				req, _ := dhcpv4.NewDiscovery(labHW, dhcpv4.WithTransactionID(dhcpv4.TransactionID{0, 0, 0, 7}))
				c4.SendAndRead(ctxA, &net.UDPAddr{IP: net.IPv4bcast, Port: 67}, req, never4)
			}
		}()
		synctest.Wait()
		cancelA()
		<-parked // A has closed done and is parked before the lock
		// let the receive loop reap A's entry: select picks <-p.done or the send at random
		for k := 0; k < 40 && !reaped; k++ {
			if v6 {
				send(mk6(2))
			} else {
				send(mk4(2))
			}
			// B's registration succeeds only once the entry has been reaped; probe with a registration attempt
			ctxB, cancelB := context.WithCancel(context.Background())
			resCh := make(chan error, 1)
			go func() {
				defer func() {
					if x := recover(); x != nil {
						panicked = x
						resCh <- fmt.Errorf("panic")
					}
				}()
				var err error
				var got bool
				if v6 {
					var m *dhcpv6.Message
					m, err = c6.SendAndRead(ctxB, nclient6.AllDHCPRelayAgentsAndServers, &dhcpv6.Message{MessageType: 1, TransactionID: dhcpv6.TransactionID{0, 0, 7}},
						func(m *dhcpv6.Message) bool { return payloadOfV6(m) == 9 })
					got = m != nil && err == nil && payloadOfV6(m) == 9
				} else {
					req, _ := dhcpv4.NewDiscovery(labHW, dhcpv4.WithTransactionID(dhcpv4.TransactionID{0, 0, 0, 7}))
					var p *dhcpv4.DHCPv4
					p, err = c4.SendAndRead(ctxB, &net.UDPAddr{IP: net.IPv4bcast, Port: 67}, req,
						func(p *dhcpv4.DHCPv4) bool { return payloadOfV4(p) == 9 })
					got = p != nil && err == nil && payloadOfV4(p) == 9
				}
				bGot = got
				resCh <- err
			}()
			synctest.Wait()
			select {
			case <-resCh: // refused: id still pending (the datagram was buffered, not reaped)
				cancelB()
				continue
			default:
			}
			// B is registered and waiting: the entry was reaped
			reaped = true
			close(gate) // A finishes its cancel
			<-aDone
			synctest.Wait()
			if v6 {
				send(mk6(9))
			} else {
				send(mk4(9))
			}
			select {
			case bErr = <-resCh:
			default:
				bErr = fmt.Errorf("B still waiting after its response arrived")
			}
			cancelB()
		}
		if !reaped {
			close(gate)
		}
		if v6 {
			c6.Close()
		} else {
			c4.Close()
		}
		synctest.Wait()
	})
	if !reaped {
		return // select never picked <-done in 40 rounds (probability 2^-40): nothing to conclude
	}
	r.Count("f8-schedule-forced")
	if panicked != nil || bErr != nil || !bGot {
		r.Fail("c10-cancel-closes-successor", what+" schedule: Register X; CancelDone A; Arrive X (reap); Register X (B); CancelDel A; Arrive X",
			fmt.Sprintf("call B (registered after A's entry was reaped) did not receive its response: got=%v err=%v panic=%v", bGot, bErr, panicked))
	}
}

func init() { hookSchedules = append(hookSchedules, f8Schedule) }
