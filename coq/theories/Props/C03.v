(** C03 — No input can crash decoding or any read-only use of a decoded message. *)
From DV Require Import Base.Bytes Label.Model Label.Total V4.Model V4.OptProofs V4.Proofs V4.Fixpoint V4.Accessors V4.AccProofs
                       V6.Model V6.Total V6.Image Raw.Model Raw.Proofs.

(** In the model every Go panic (out-of-range index or slice, failed
    unchecked type assertion, nil dereference, negative Consume) is the
    explicit result [Panic], and every loop runs on explicit fuel with the
    result [Fuel] when exhausted.  Each entry point returns [Ok] or [Err] for
    EVERY byte string. *)
Definition returns_normally {A} (r : res A) : Prop := match r with Ok _ | Err => True | Panic | Fuel => False end.

Theorem C03_v4_packet : forall b, returns_normally (dec4 b).
Proof. exact dec4_total. Qed.
Print Assumptions C03_v4_packet.
Theorem C03_v4_options : forall b check_end acc, returns_normally (opts_from_bytes b check_end acc).
Proof. exact opts_from_bytes_total. Qed.
Print Assumptions C03_v4_options.
Theorem C03_v6_message : forall b, returns_normally (dec_msg b).
Proof. exact dec_msg_good. Qed.
Print Assumptions C03_v6_message.
Theorem C03_v6_message_only : forall b, returns_normally (dec_message b).
Proof. exact dec_message_good. Qed.
Print Assumptions C03_v6_message_only.
Theorem C03_v6_relay_only : forall b, returns_normally (dec_relay b).
Proof. exact dec_relay_good. Qed.
Print Assumptions C03_v6_relay_only.
Theorem C03_v6_option : forall c d, returns_normally (parse_option c d).
Proof. exact parse_option_good. Qed.
Print Assumptions C03_v6_option.
Theorem C03_duid : forall b, returns_normally (dec_duid b).
Proof. exact dec_duid_good. Qed.
Print Assumptions C03_duid.
Theorem C03_labels : forall b, returns_normally (labels_from_bytes b).
Proof. exact labels_from_bytes_total. Qed.
Print Assumptions C03_labels.
Theorem C03_archs : forall b, returns_normally (many_u16 b).
Proof. exact many_u16_good. Qed.
Print Assumptions C03_archs.
(** the raw-frame reader skips every malformed frame, including one whose IP
    total length leaves no room for a UDP header (the crash found while reading) *)
Theorem C03_raw_frame : forall bound blen f, exists r, read_frame bound blen f = Ok r.
Proof. exact read_frame_total. Qed.
Print Assumptions C03_raw_frame.

(** read-only use of decoded values: re-encoding cannot panic ... *)
Theorem C03_reencode_v4 : forall b m, dec4 b = Ok m -> exists b1, enc4 m = Ok b1.
Proof. intros b m H. destruct (fixpoint4 b m H) as (b1 & _ & E & _). exists b1. exact E. Qed.
Print Assumptions C03_reencode_v4.
Theorem C03_reencode_v6 : forall b m, dec_msg b = Ok m -> msg_panics m = false.
Proof. exact reencode_never_panics. Qed.
Print Assumptions C03_reencode_v6.

(** ... and the typed accessors' unchecked type assertions cannot fail: at
    every nesting level a decoded option's constructor is the one the
    ParseOption table assigns to its code *)
Theorem C03_decoded_tag_matches : forall f code data o, dec_opt f code data = Ok o ->
  opt_code o = code /\ tags_ok o /\ opt_panics o = false.
Proof. intros f code data o H. destruct (dec_opt_image f code data o H) as (A & B & C). auto. Qed.
Print Assumptions C03_decoded_tag_matches.
Theorem C03_decoded_message_tags : forall b m, dec_msg b = Ok m ->
  tags_ok_list (match m with Msg _ _ os | Relay _ _ _ _ os => os end) /\ msg_panics m = false.
Proof. exact dec_msg_image. Qed.
Print Assumptions C03_decoded_message_tags.

(** DHCPv4 accessor loops never run out of fuel (their results are total by construction) *)
Theorem C03_accessor_loops : forall v,
  returns_normally (strings_from v) /\ returns_normally (vivc_from v) /\ returns_normally (routes_from v).
Proof.
  intros v. repeat split.
  - unfold strings_from. destruct v; [exact I | apply val_strings_good; lia].
  - apply val_vivc_good. lia.
  - apply val_routes_good. lia.
Qed.
Print Assumptions C03_accessor_loops.

Example C03_example : returns_normally (dec_msg [x0c]) /\ returns_normally (labels_from_bytes [xc0; x00])
  /\ returns_normally (dec4 (zeros 239)).
Proof. repeat split; vm_compute; exact I. Qed.
