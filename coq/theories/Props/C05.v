(** C05 — DHCPv6 decoding accepts exactly well-formed messages and reads the RFC values. *)
From DV Require Import Base.Bytes Label.Model V4.Model V6.Model V6.Total V6.Wf V6.Comb V6.RoundTrip V6.Accept.

(** every input yields a value or an error: no panic, fuel never exhausted *)
Theorem C05_total : forall b : bytes, match dec_msg b with Ok _ | Err => True | _ => False end.
Proof. exact dec_msg_good. Qed.
Print Assumptions C05_total.
Theorem C05_total_option : forall (c : N) (d : bytes), match parse_option c d with Ok _ | Err => True | _ => False end.
Proof. exact parse_option_good. Qed.
Print Assumptions C05_total_option.

(** header completeness: 4 octets, 34 for relay types 12 and 13 *)
Theorem C05_header_short : forall b : bytes, length b < 4 -> dec_msg b = Err.
Proof. exact dec_msg_header_short. Qed.
Print Assumptions C05_header_short.
Theorem C05_relay_header_short : forall (t : byte) (r : bytes),
  is_relay_type (b2n t) = true -> length (t :: r) < 34 -> dec_msg (t :: r) = Err.
Proof. exact dec_msg_relay_header_short. Qed.
Print Assumptions C05_relay_header_short.
Theorem C05_header_only : forall (t : byte) (xid : bytes), is_relay_type (b2n t) = false -> length xid = 3 ->
  dec_msg (t :: xid) = Ok (Msg (b2n t) xid []).
Proof. exact dec_msg_header_only. Qed.
Print Assumptions C05_header_only.

(** options tile their container exactly as code/length/value triples, in
    wire order; acceptance of one option does not depend on its neighbours
    (each item is parsed from its own value alone) *)
Theorem C05_tiling : forall (A : Type) (parse : N -> bytes -> res A) (b : bytes) (vals : list A),
  dec_tlvs parse b = Ok vals <->
  exists items, b = flat_map (fun it => tlv (fst it) (snd it)) items /\
    Forall2 (fun it v => parse (fst it) (snd it) = Ok v /\ u16 (fst it) /\ short (snd it)) items vals.
Proof. exact @dec_tlvs_iff. Qed.
Print Assumptions C05_tiling.

Theorem C05_trailing_octets : forall (A : Type) (parse : N -> bytes -> res A) (f : nat) (b : bytes),
  0 < length b < 4 -> 0 < f -> tlv_loop parse f b = Err.
Proof. exact @tlv_loop_trailing. Qed.
Print Assumptions C05_trailing_octets.

Theorem C05_overrun : forall (A : Type) (parse : N -> bytes -> res A) (f : nat) (c1 c2 l1 l2 : byte) (r : bytes),
  length r < N.to_nat (rd16 l1 l2) -> tlv_loop parse (S f) (c1 :: c2 :: l1 :: l2 :: r) = Err.
Proof. exact @tlv_loop_overrun. Qed.
Print Assumptions C05_overrun.

(** unknown codes keep their payload verbatim *)
Theorem C05_unknown_verbatim : forall (f : nat) (code : N) (data : bytes), classify code = KGeneric ->
  dec_opt (S f) code data = Ok (OGeneric code data).
Proof. exact dec_opt_generic. Qed.
Print Assumptions C05_unknown_verbatim.

(** wrong fixed lengths are errors (elapsed 2, refresh 4, NII 3, relay port 2, 4RD map rule 24, non-map rule 4) *)
Theorem C05_fixed_lengths : forall (f : nat) (data : bytes),
  (length data <> 2 -> dec_opt (S f) 8 data = Err) /\
  (length data <> 4 -> dec_opt (S f) 32 data = Err) /\
  (length data <> 3 -> dec_opt (S f) 62 data = Err) /\
  (length data <> 2 -> dec_opt (S f) 135 data = Err) /\
  (length data <> 24 -> dec_opt (S f) 98 data = Err) /\
  (length data <> 4 -> dec_opt (S f) 99 data = Err).
Proof. exact dec_opt_fixed_lengths. Qed.
Print Assumptions C05_fixed_lengths.

(** minimum lengths (IA_NA 12, IA_TA 4, IA address 24, IA_PD 12, IA prefix 25, status 2, DUID 2,
    remote id 4, user class / architecture list non-empty, FQDN 1) *)
Theorem C05_minimum_lengths : forall (f : nat) (data : bytes),
  (length data < 12 -> dec_opt (S f) 3 data = Err) /\
  (length data < 4 -> dec_opt (S f) 4 data = Err) /\
  (length data < 24 -> dec_opt (S f) 5 data = Err) /\
  (length data < 12 -> dec_opt (S f) 25 data = Err) /\
  (length data < 25 -> dec_opt (S f) 26 data = Err) /\
  (length data < 2 -> dec_opt (S f) 13 data = Err) /\
  (length data < 2 -> dec_opt (S f) 1 data = Err) /\
  (length data < 4 -> dec_opt (S f) 37 data = Err) /\
  (length data = 0 -> dec_opt (S f) 15 data = Err) /\
  (length data = 0 -> dec_opt (S f) 61 data = Err) /\
  (length data < 1 -> dec_opt (S f) 39 data = Err).
Proof. exact dec_opt_minimum_lengths. Qed.
Print Assumptions C05_minimum_lengths.

(** on every well-formed layout the decoder reads exactly the field values
    that were laid out (the RFC reading): C02's round trip *)
Theorem C05_reads_layout : forall m : msg6, wf_msg m -> dec_msg (enc_msg m) = Ok (canon_msg m).
Proof. exact dec_msg_enc. Qed.
Print Assumptions C05_reads_layout.

Example C05_example_reject_trailing :
  dec_msg [x01; x0a; x0b; x0c; x00; x08; x00; x02; x00; x01; xff] = Err /\
  dec_msg [x01; x0a; x0b; x0c; x00; x08; x00; x02; x00; x01] = Ok (Msg 1 [x0a; x0b; x0c] [OElapsed 1]).
Proof. split; vm_compute; reflexivity. Qed.
