(** C20: read-only operations as state transformers.  Every read-only
    operation of the library is modelled as [rd : value -> value * out]; the
    one method of the pinned tree that wrote through its receiver was
    OptionCodeList.String (in-place sort.Slice), modelled with a flag so that
    the old behaviour stays refutable. *)
From DV Require Import Base.Bytes V4.Model.

(** OptionCodeList.String: [sorts_copy = true] is the repaired code (sort a
    copy), [false] the pinned code (sort the receiver). *)
Definition prl_string (sorts_copy : bool) (l : list byte) : list byte * list byte :=
  let sorted := sort_codes l in
  ((if sorts_copy then l else sorted), sorted).   (* (receiver afterwards, names printed in this order) *)

(** the other read-only operations never write: identity on the value *)
Inductive ro_op := RoString | RoToBytes | RoAccessor (k : N) | RoSummary.

Definition rd (op : ro_op) (l : list byte) : list byte * list byte :=
  match op with
  | RoString => prl_string true l
  | RoToBytes => (l, l)
  | RoAccessor _ => (l, l)
  | RoSummary => (l, sort_codes l)
  end.

Theorem rd_preserves op l : fst (rd op l) = l.
Proof. destruct op; reflexivity. Qed.

Theorem rd_sequence_preserves ops : forall l, fold_left (fun v op => fst (rd op v)) ops l = l.
Proof. induction ops as [|op ops IH]; intros l; [reflexivity|]. cbn [fold_left]. rewrite rd_preserves. apply IH. Qed.

Theorem rd_repeatable op l : snd (rd op (fst (rd op l))) = snd (rd op l).
Proof. rewrite rd_preserves. reflexivity. Qed.

(** the pinned behaviour violated the property: printing reordered the list that is later encoded *)
Theorem prl_string_pinned_refuted : exists l, fst (prl_string false l) <> l.
Proof. exists [n2b 3; n2b 1]. vm_compute. discriminate. Qed.
