(** Tie between the model's tables/constants and those extracted from the Go
    source tree on this run (Gen/Tables.v, written by tools/gen).  A case added
    to, removed from or renumbered in dhcpv6.ParseOption, or a changed
    constant, breaks one of these lemmas. *)
From DV Require Import Base.Bytes Label.Model V4.Model V4.OptProofs V4.Proofs V6.Model Gen.Tables.

Lemma v6_dispatch_codes_match : map fst dispatch_table = v6_parse_option_codes.
Proof. reflexivity. Qed.

Definition okind_eqb (a b : okind) : bool :=
  match a, b with
  | KClientID, KClientID | KServerID, KServerID | KIANA, KIANA | KIATA, KIATA | KIAAddr, KIAAddr | KORO, KORO
  | KElapsed, KElapsed | KRelayMsg, KRelayMsg | KStatus, KStatus | KUserClass, KUserClass
  | KVendorClass, KVendorClass | KVendorOpts, KVendorOpts | KInterfaceID, KInterfaceID | KDNS, KDNS
  | KDomainList, KDomainList | KIAPD, KIAPD | KIAPrefix, KIAPrefix | KInfoRefresh, KInfoRefresh
  | KRemoteID, KRemoteID | KFQDN, KFQDN | KNTP, KNTP | KBootURL, KBootURL | KBootParam, KBootParam
  | KArch, KArch | KNII, KNII | KClientLL, KClientLL | KDHCPv4, KDHCPv4 | K4o6, K4o6 | K4RD, K4RD
  | K4RDMap, K4RDMap | K4RDNonMap, K4RDNonMap | KRelayPort, KRelayPort | KGeneric, KGeneric => true
  | _, _ => false
  end.

(** every generated entry is modelled with a dedicated (non-generic) decoder *)
Lemma v6_all_table_entries_modelled :
  forallb (fun c => negb (okind_eqb (classify c) KGeneric)) v6_parse_option_codes = true.
Proof. vm_compute. reflexivity. Qed.

Lemma v6_classify_matches_table :
  forallb (fun ck => okind_eqb (classify (fst ck)) (snd ck)) dispatch_table = true.
Proof. vm_compute. reflexivity. Qed.

(** every code outside the table (all 65536 - 32 of them) is generic *)
Fixpoint all_from (n : nat) (c : N) (f : N -> bool) : bool :=
  match n with O => true | S n' => f c && all_from n' (c + 1)%N f end.
Lemma v6_other_codes_generic :
  all_from (N.to_nat 65536) 0
    (fun c => if existsb (N.eqb c) v6_parse_option_codes then true else okind_eqb (classify c) KGeneric) = true.
Proof. vm_compute. reflexivity. Qed.

Lemma v6_ntp_codes_match : v6_ntp_suboption_codes = [1; 2; 3]%N.
Proof. reflexivity. Qed.
Lemma v6_relay_types_match : forall t, is_relay_type t = existsb (N.eqb t) v6_relay_types.
Proof. intros t. unfold is_relay_type, v6_relay_types. cbn [existsb]. rewrite orb_false_r. reflexivity. Qed.
Lemma v6_duid_types_match : v6_duid_types = [1; 2; 3; 4]%N.
Proof. reflexivity. Qed.
Lemma v6_relay_header_match : v6_relay_header_size = 34%N.
Proof. reflexivity. Qed.

Lemma v4_cookie_match : map b2n cookie = v4_magic_cookie.
Proof. reflexivity. Qed.
Lemma v4_header_len_match : forall b, (N.of_nat (length b) < v4_min_packet_len + 4)%N -> dec4 b = Err.
Proof. intros b H. apply dec4_short. unfold v4_min_packet_len in H. lia. Qed.
Lemma v4_bootp_min_match : N.of_nat bootp_min_len = v4_bootp_min_len.
Proof. reflexivity. Qed.
Lemma v4_hwaddr_len_match : v4_max_hwaddr_len = 16%N.
Proof. reflexivity. Qed.
Lemma v4_option_codes_match :
  b2n opt_pad = v4_opt_pad /\ b2n opt_agent_info = v4_opt_agent_info /\ b2n opt_end = v4_opt_end.
Proof. repeat split. Qed.
Lemma label_max_name_len_match : N.of_nat max_name_len = label_max_name_len.
Proof. reflexivity. Qed.
